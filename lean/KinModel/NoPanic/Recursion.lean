/-
C10 — stage 2 of the schema model (DESIGN §3): schemas with named references and an environment; the
validator is fuel-indexed, `diverge` = out of fuel (in Go: unbounded recursion → fatal stack overflow).
Fragment: leaves, `allOf` (an *unguarded* position: the same value is visited again), `items` (a *guarded*
position: a strictly smaller value is visited), `$ref`, and one bit `own` = "the schema carries a keyword of
its own" (which makes `Schema.IsEmpty` answer at once).

The model follows `visitJSON`: it first evaluates `schema.IsEmpty()`, which itself recurses through
`items` and `allOf` of schemas without own keywords and has no visited set — the differential run showed
that the design prototype, which left this call out, did not describe the code: `L: {items: {$ref: L}}`
overflows the stack for every value although its cycle is guarded (finding F-C10-5).
  * isEmpty_mono / visit_mono_ok / visit_mono_k — more fuel never changes a decided result
  * unguarded_diverges   — `A: {nullable, allOf: [{$ref: A}]}` diverges for EVERY fuel and value (finding #6)
  * emptiness_diverges   — `L: {items: {$ref: L}}` diverges for every fuel and value (F-C10-5)
  * guarded_terminates   — `L: {nullable, items: {$ref: L}}` is decided for every value, explicit fuel
  * executable side for the driver: `envOf`, `hasUnguardedCycle`
-/
namespace KinModel.NoPanic.Recursion

inductive J where
  | num (n : Nat)
  | arr (xs : List J)

inductive S where
  | leaf (acceptNum : Bool)                 -- stands for all leaf keywords
  | node (own : Bool) (allOf : List S) (items : Option S)
  | ref (name : Nat)

abbrev Env := Nat → Option S

inductive Res | ok (b : Bool) | diverge      -- `diverge` = out of fuel (in Go: unbounded recursion)
  deriving DecidableEq

@[macro_inline] def Res.and : Res → Res → Res
  | .diverge, _ => .diverge
  | .ok false, _ => .ok false
  | .ok true, r => r

/-- evaluate `a` for termination only, then `b` (the result of `IsEmpty` only selects a shortcut that
    gives the same verdict in this fragment) -/
@[macro_inline] def Res.seq : Res → Res → Res
  | .diverge, _ => .diverge
  | .ok _, r => r

mutual
/-- `Schema.IsEmpty`: own keyword → false at once; else items, then allOf, first non-empty answers -/
def isEmpty (Γ : Env) : Nat → S → Res
  | 0, _ => .diverge
  | _ + 1, .leaf a => .ok a
  | fuel + 1, .ref x => (match Γ x with | none => .ok true | some s => isEmpty Γ fuel s)
  | fuel + 1, .node own allOf items =>
    if own then .ok false
    else Res.and (match items with | none => Res.ok true | some s => isEmpty Γ fuel s) (isEmptyAll Γ fuel allOf)
def isEmptyAll (Γ : Env) : Nat → List S → Res
  | _, [] => .ok true
  | 0, _ :: _ => .diverge
  | fuel + 1, s :: ss => (isEmpty Γ fuel s).and (isEmptyAll Γ fuel ss)
end

mutual
def visit (Γ : Env) : Nat → S → J → Res
  | 0, _, _ => .diverge
  | _ + 1, .leaf a, v => (match v with | .num _ => .ok a | .arr _ => .ok true)
  | fuel + 1, .ref x, v => (match Γ x with | none => .ok false | some s => visit Γ fuel s v)
  | fuel + 1, .node own allOf items, v =>
    (isEmpty Γ fuel (.node own allOf items)).seq
      ((visitAll Γ fuel allOf v).and
        (match v, items with
         | .arr xs, some s => visitItems Γ fuel s xs
         | _, _ => .ok true))
def visitAll (Γ : Env) : Nat → List S → J → Res
  | _, [], _ => .ok true
  | 0, _ :: _, _ => .diverge
  | fuel + 1, s :: ss, v => (visit Γ fuel s v).and (visitAll Γ fuel ss v)
def visitItems (Γ : Env) : Nat → S → List J → Res
  | _, _, [] => .ok true
  | 0, _, _ :: _ => .diverge
  | fuel + 1, s, x :: xs => (visit Γ fuel s x).and (visitItems Γ fuel s xs)
end

theorem andMono (a a' c c' : Res) (b : Bool) (h1 : ∀ x, a = .ok x → a' = .ok x) (h2 : ∀ x, c = .ok x → c' = .ok x)
    (h : a.and c = .ok b) : a'.and c' = .ok b := by
  cases a with
  | diverge => simp [Res.and] at h
  | ok x =>
    rw [h1 x rfl]
    cases x with
    | false => simpa [Res.and] using h
    | true => simp only [Res.and] at h ⊢; exact h2 b h

theorem seqMono (a a' c c' : Res) (b : Bool) (h1 : ∀ x, a = .ok x → a' = .ok x) (h2 : ∀ x, c = .ok x → c' = .ok x)
    (h : a.seq c = .ok b) : a'.seq c' = .ok b := by
  cases a with
  | diverge => simp [Res.seq] at h
  | ok x => rw [h1 x rfl]; simp only [Res.seq] at h ⊢; exact h2 b h

theorem isEmpty_mono (Γ : Env) : ∀ fuel,
    (∀ s b, isEmpty Γ fuel s = .ok b → isEmpty Γ (fuel + 1) s = .ok b) ∧
    (∀ ss b, isEmptyAll Γ fuel ss = .ok b → isEmptyAll Γ (fuel + 1) ss = .ok b) := by
  intro fuel
  induction fuel with
  | zero =>
    refine ⟨?_, ?_⟩
    · intro s b h; simp [isEmpty] at h
    · intro ss b h; cases ss <;> simp [isEmptyAll] at h ⊢; exact h
  | succ n ih =>
    obtain ⟨ihE, ihA⟩ := ih
    refine ⟨?_, ?_⟩
    · intro s b h
      cases s with
      | leaf a => simpa [isEmpty] using h
      | ref x =>
        simp only [isEmpty] at h ⊢
        cases hg : Γ x with
        | none => simpa [hg] using h
        | some s' => simp only [hg] at h ⊢; exact ihE s' b h
      | node own allOf items =>
        simp only [isEmpty] at h ⊢
        cases own with
        | true => simpa using h
        | false =>
          simp only [Bool.false_eq_true, if_false] at h ⊢
          refine andMono _ _ _ _ b ?_ (fun x hx => ihA allOf x hx) h
          intro x hx
          cases items with
          | none => simpa using hx
          | some s' => simp only at hx ⊢; exact ihE s' x hx
    · intro ss b h
      cases ss with
      | nil => simpa [isEmptyAll] using h
      | cons s ss =>
        simp only [isEmptyAll] at h ⊢
        exact andMono _ _ _ _ b (fun x hx => ihE s x hx) (fun x hx => ihA ss x hx) h

theorem visit_mono_ok (Γ : Env) :
    (∀ fuel s v b, visit Γ fuel s v = .ok b → visit Γ (fuel + 1) s v = .ok b) ∧
    (∀ fuel ss v b, visitAll Γ fuel ss v = .ok b → visitAll Γ (fuel + 1) ss v = .ok b) ∧
    (∀ fuel s xs b, visitItems Γ fuel s xs = .ok b → visitItems Γ (fuel + 1) s xs = .ok b) := by
  have key : ∀ fuel,
      (∀ s v b, visit Γ fuel s v = .ok b → visit Γ (fuel + 1) s v = .ok b) ∧
      (∀ ss v b, visitAll Γ fuel ss v = .ok b → visitAll Γ (fuel + 1) ss v = .ok b) ∧
      (∀ s xs b, visitItems Γ fuel s xs = .ok b → visitItems Γ (fuel + 1) s xs = .ok b) := by
    intro fuel
    induction fuel with
    | zero =>
      refine ⟨?_, ?_, ?_⟩
      · intro s v b h; simp [visit] at h
      · intro ss v b h; cases ss <;> simp [visitAll] at h ⊢; exact h
      · intro s xs b h; cases xs <;> simp [visitItems] at h ⊢; exact h
    | succ n ih =>
      obtain ⟨ihV, ihA, ihI⟩ := ih
      refine ⟨?_, ?_, ?_⟩
      · intro s v b h
        cases s with
        | leaf a => simpa [visit] using h
        | ref x =>
          simp only [visit] at h ⊢
          cases hg : Γ x with
          | none => simpa [hg] using h
          | some s' => simp only [hg] at h ⊢; exact ihV s' v b h
        | node own allOf items =>
          simp only [visit] at h ⊢
          refine seqMono _ _ _ _ b (fun x hx => (isEmpty_mono Γ n).1 _ x hx) ?_ h
          intro y hy
          refine andMono _ _ _ _ y (fun x hx => ihA allOf v x hx) ?_ hy
          intro x hx
          cases v with
          | num k => simpa using hx
          | arr xs =>
            cases items with
            | none => simpa using hx
            | some s' => simp only at hx ⊢; exact ihI s' xs x hx
      · intro ss v b h
        cases ss with
        | nil => simpa [visitAll] using h
        | cons s ss =>
          simp only [visitAll] at h ⊢
          exact andMono _ _ _ _ b (fun x hx => ihV s v x hx) (fun x hx => ihA ss v x hx) h
      · intro s xs b h
        cases xs with
        | nil => simpa [visitItems] using h
        | cons x xs =>
          simp only [visitItems] at h ⊢
          exact andMono _ _ _ _ b (fun y hy => ihV s x y hy) (fun y hy => ihI s xs y hy) h
  exact ⟨fun f => (key f).1, fun f => (key f).2.1, fun f => (key f).2.2⟩

theorem visit_mono_k (Γ : Env) (k : Nat) :
    (∀ fuel s v b, visit Γ fuel s v = .ok b → visit Γ (fuel + k) s v = .ok b) ∧
    (∀ fuel s xs b, visitItems Γ fuel s xs = .ok b → visitItems Γ (fuel + k) s xs = .ok b) := by
  induction k with
  | zero => exact ⟨fun _ _ _ _ h => h, fun _ _ _ _ h => h⟩
  | succ k ih =>
    exact ⟨fun f s v b h => (visit_mono_ok Γ).1 (f + k) s v b (ih.1 f s v b h),
           fun f s xs b h => (visit_mono_ok Γ).2.2 (f + k) s xs b (ih.2 f s xs b h)⟩

/-- finding #6: the unguarded self-reference `A: {nullable: true, allOf: [{$ref: A}]}` -/
def Γ6 : Env := fun x => if x = 0 then some (.node true [.ref 0] none) else none

theorem unguarded_diverges (v : J) : ∀ (fuel : Nat),
    visit Γ6 fuel (.ref 0) v = .diverge ∧ visit Γ6 fuel (.node true [.ref 0] none) v = .diverge ∧
    visitAll Γ6 fuel [.ref 0] v = .diverge
  | 0 => by simp [visit, visitAll]
  | fuel + 1 => by
    obtain ⟨ih1, ih2, ih3⟩ := unguarded_diverges v fuel
    refine ⟨?_, ?_, ?_⟩
    · simpa [visit, Γ6] using ih2
    · simp only [visit, ih3]
      cases isEmpty Γ6 fuel (.node true [.ref 0] none) <;> rfl
    · simp only [visitAll, ih1]; rfl

/-- F-C10-5: `L: {items: {$ref: L}}` — the cycle is guarded, but `IsEmpty` follows it without end -/
def ΓE : Env := fun x => if x = 0 then some (.node false [] (some (.ref 0))) else none

theorem isEmpty_diverges : ∀ (fuel : Nat),
    isEmpty ΓE fuel (.ref 0) = .diverge ∧ isEmpty ΓE fuel (.node false [] (some (.ref 0))) = .diverge
  | 0 => by simp [isEmpty]
  | fuel + 1 => by
    obtain ⟨ih1, ih2⟩ := isEmpty_diverges fuel
    refine ⟨?_, ?_⟩
    · simpa [isEmpty, ΓE] using ih2
    · simp only [isEmpty, Bool.false_eq_true, if_false, ih1]; rfl

theorem emptiness_diverges (v : J) : ∀ (fuel : Nat), visit ΓE fuel (.ref 0) v = .diverge
  | 0 => by simp [visit]
  | 1 => by simp [visit, ΓE]
  | fuel + 2 => by
    simp only [visit, ΓE, if_true]
    rw [(isEmpty_diverges fuel).2]; rfl

/-- a guarded recursive schema with a keyword of its own, `L: {nullable: true, items: {$ref: L}}` -/
def ΓL : Env := fun x => if x = 0 then some (.node true [] (some (.ref 0))) else none

mutual
def fuelFor : J → Nat
  | .num _ => 3
  | .arr xs => 3 + fuelForL xs
def fuelForL : List J → Nat
  | [] => 0
  | x :: xs => 1 + fuelFor x + fuelForL xs
end

mutual
theorem guarded_terminates : ∀ (v : J), visit ΓL (fuelFor v) (.ref 0) v = .ok true
  | .num n => by simp [fuelFor, visit, ΓL, visitAll, isEmpty, Res.and, Res.seq]
  | .arr xs => by
    have h := guarded_items xs
    simp only [fuelFor]
    rw [show 3 + fuelForL xs = (fuelForL xs + 1) + 1 + 1 by omega]
    simp only [visit, ΓL, if_true, isEmpty, Res.seq]
    have h' := (visit_mono_ok ΓL).2.2 _ _ _ _ h
    simp only [visitAll, Res.and]
    exact h'
theorem guarded_items : ∀ (xs : List J), visitItems ΓL (fuelForL xs) (.ref 0) xs = .ok true
  | [] => by simp [visitItems]
  | x :: xs => by
    have h1 := guarded_terminates x
    have h2 := guarded_items xs
    simp only [fuelForL]
    rw [show 1 + fuelFor x + fuelForL xs = (fuelFor x + fuelForL xs) + 1 by omega]
    simp only [visitItems]
    have e1 := (visit_mono_k ΓL (fuelForL xs)).1 _ _ _ _ h1
    have e2 := (visit_mono_k ΓL (fuelFor x)).2 _ _ _ _ h2
    rw [Nat.add_comm (fuelForL xs) (fuelFor x)] at e2
    rw [e1, e2]; rfl
end

/-! ## executable helpers for the driver -/

def envOf (defs : List S) : Env := fun x => defs[x]?

/-- references reachable from a schema without passing through `items` -/
def unguardedRefs : S → List Nat
  | .leaf _ => []
  | .ref x => [x]
  | .node _ allOf _ => unguardedRefsL allOf
where unguardedRefsL : List S → List Nat
  | [] => []
  | s :: ss => unguardedRefs s ++ unguardedRefsL ss

/-- can `x` reach itself through unguarded edges only (depth-bounded search, bound = number of definitions) -/
def reachesUnguarded (defs : List S) (target : Nat) : Nat → Nat → Bool
  | 0, _ => false
  | fuel + 1, x =>
    match defs[x]? with
    | none => false
    | some s => (unguardedRefs s).any (fun y => y = target || reachesUnguarded defs target fuel y)

def hasUnguardedCycle (defs : List S) : Bool :=
  (List.range defs.length).any (fun x => reachesUnguarded defs x defs.length x)

/-- does `IsEmpty` fail to terminate on some definition (decided with the given fuel) -/
def hasEmptinessCycle (defs : List S) (fuel : Nat) : Bool :=
  defs.any (fun s => isEmpty (envOf defs) fuel s = .diverge)

end KinModel.NoPanic.Recursion
