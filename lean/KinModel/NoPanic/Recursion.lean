/-
C10 — stage 2 of the schema model (DESIGN §3): schemas with named references and an environment; the
validator is fuel-indexed, `diverge` = out of fuel (in Go: unbounded recursion → fatal stack overflow).
Fragment: leaves, the *unguarded* positions `not`, `anyOf` (first success ends the loop) and `allOf` (the same
value is visited again), the *guarded* positions `items`, `properties` and `additionalProperties` given as a schema
(a strictly smaller value is visited: an element of the array, a member of the object), `$ref`, and one
bit `own` = "the schema carries a keyword of its own" (which makes `Schema.IsEmpty` answer at once). The order is
the order of `visitJSON`: not, anyOf, allOf, then the typed part (items); an error ends the visit.

History: the design prototype left `Schema.IsEmpty` out; the differential run showed that on the tree of
that time `visitJSON` called it first and it recursed through `items`/`allOf` of schemas without own
keywords (F-C10-5). Since commit 08457da `visitJSON` tests `!schema.hasSubSchemas() && schema.IsEmpty()`:
`IsEmpty` is only evaluated on schemas without sub-schemas, where it cannot recurse, so `visit` no longer
depends on it. `isEmpty` stays here as the model of the function itself (`isEmpty_diverges` is still a fact
about `Schema.IsEmpty`, which is no longer on the traffic path).
  * visit_mono_ok / visit_mono_k / visit_mono_le — more fuel never changes a decided result
  * ranked_decided / ranked_never_diverges — GENERAL: in an environment whose unguarded references are ranked
    (no cycle of unguarded references) every schema is decided on every value
  * guardedB / guardedB_sound — the decidable form (ranks computed by relaxation, then checked)
  * unguarded_diverges   — `A: {allOf: [{$ref: A}]}` (with or without own keywords) diverges for EVERY fuel and value (finding #6)
  * guarded_terminates   — `L: {items: {$ref: L}}`, with or without own keywords, is decided for every value, explicit fuel
  * executable side for the driver: `envOf`, `hasUnguardedCycle`, `guardedB`
-/
set_option linter.unusedSimpArgs false
namespace KinModel.NoPanic.Recursion

inductive J where
  | num (n : Nat)
  | arr (xs : List J)
  | obj (fields : List (Nat × J))       -- keys are names (numbers); the list is in the order of the sorted keys

inductive S where
  | leaf (acceptNum : Bool)
  | node (own : Bool) (nt : Option S) (anyOf : List S) (allOf : List S) (items : Option S)
         (props : List (Nat × S)) (addl : Option S)      -- properties, additionalProperties given as a schema
  | ref (name : Nat)

abbrev Env := Nat → Option S

inductive Res | ok (b : Bool) | diverge
  deriving DecidableEq

@[macro_inline] def Res.and : Res → Res → Res
  | .diverge, _ => .diverge
  | .ok false, _ => .ok false
  | .ok true, r => r

@[macro_inline] def Res.orElse : Res → Res → Res
  | .diverge, _ => .diverge
  | .ok true, _ => .ok true
  | .ok false, r => r

def Res.neg : Res → Res
  | .diverge => .diverge
  | .ok b => .ok (!b)

/-- the combinators the validators are written with take their second argument as a thunk: the compiled driver must
    not evaluate what the Go code does not visit (a strict second argument costs time exponential in the fuel on
    environments with several unguarded references per definition). They are `Res.and` / `Res.orElse` (lemmas
    below), so every proof is about those. -/
def Res.andT (a : Res) (b : Unit → Res) : Res :=
  match a with
  | .diverge => .diverge
  | .ok false => .ok false
  | .ok true => b ()

def Res.orT (a : Res) (b : Unit → Res) : Res :=
  match a with
  | .diverge => .diverge
  | .ok true => .ok true
  | .ok false => b ()

@[simp] theorem Res.andT_eq (a : Res) (b : Unit → Res) : a.andT b = a.and (b ()) := by
  cases a with
  | diverge => rfl
  | ok x => cases x <;> rfl

@[simp] theorem Res.orT_eq (a : Res) (b : Unit → Res) : a.orT b = a.orElse (b ()) := by
  cases a with
  | diverge => rfl
  | ok x => cases x <;> rfl

mutual
/-- `Schema.IsEmpty`: own keyword → false at once; else not, items, anyOf, allOf in the code's order, the first
    non-empty one answers -/
def isEmpty (Γ : Env) : Nat → S → Res
  | 0, _ => .diverge
  | _ + 1, .leaf a => .ok a
  | fuel + 1, .ref x => (match Γ x with | none => .ok true | some s => isEmpty Γ fuel s)
  | fuel + 1, .node own nt anyOf allOf items props addl =>
    if own then .ok false
    else Res.andT (match nt with | none => Res.ok true | some s => isEmpty Γ fuel s) fun _ =>
          Res.andT (match addl with | none => Res.ok true | some s => isEmpty Γ fuel s) fun _ =>
            Res.andT (match items with | none => Res.ok true | some s => isEmpty Γ fuel s) fun _ =>
              Res.andT (isEmptyAll Γ fuel (props.map (·.2))) fun _ =>
                Res.andT (isEmptyAll Γ fuel anyOf) fun _ => isEmptyAll Γ fuel allOf
def isEmptyAll (Γ : Env) : Nat → List S → Res
  | _, [] => .ok true
  | 0, _ :: _ => .diverge
  | fuel + 1, s :: ss => (isEmpty Γ fuel s).andT fun _ => isEmptyAll Γ fuel ss
end

/-- `hasSubSchemas` -/
def hasSub : S → Bool
  | .node _ nt anyOf allOf items props addl =>
    nt.isSome || !anyOf.isEmpty || !allOf.isEmpty || items.isSome || !props.isEmpty || addl.isSome
  | _ => false

mutual
def visit (Γ : Env) : Nat → S → J → Res
  | 0, _, _ => .diverge
  | _ + 1, .leaf a, v => (match v with | .num _ => .ok a | _ => .ok true)
  | fuel + 1, .ref x, v => (match Γ x with | none => .ok false | some s => visit Γ fuel s v)
  | fuel + 1, .node _ nt anyOf allOf items props addl, v =>
    (match nt with | none => Res.ok true | some s => (visit Γ fuel s v).neg).andT fun _ =>
      (match anyOf with | [] => Res.ok true | _ :: _ => visitAny Γ fuel anyOf v).andT fun _ =>
        (visitAll Γ fuel allOf v).andT fun _ =>
          (match v with
           | .arr xs => (match items with | some s => visitItems Γ fuel s xs | none => .ok true)
           | .obj fs => visitFields Γ fuel props addl fs
           | .num _ => .ok true)
def visitAny (Γ : Env) : Nat → List S → J → Res
  | _, [], _ => .ok false
  | 0, _ :: _, _ => .diverge
  | fuel + 1, s :: ss, v => (visit Γ fuel s v).orT fun _ => visitAny Γ fuel ss v
def visitAll (Γ : Env) : Nat → List S → J → Res
  | _, [], _ => .ok true
  | 0, _ :: _, _ => .diverge
  | fuel + 1, s :: ss, v => (visit Γ fuel s v).andT fun _ => visitAll Γ fuel ss v
def visitItems (Γ : Env) : Nat → S → List J → Res
  | _, _, [] => .ok true
  | 0, _, _ :: _ => .diverge
  | fuel + 1, s, x :: xs => (visit Γ fuel s x).andT fun _ => visitItems Γ fuel s xs
/-- `visitJSONObject`: one loop over the value's keys in sorted order; a declared property is visited with its own
    schema, any other key with the additionalProperties schema when there is one -/
def visitFields (Γ : Env) : Nat → List (Nat × S) → Option S → List (Nat × J) → Res
  | _, _, _, [] => .ok true
  | 0, _, _, _ :: _ => .diverge
  | fuel + 1, props, addl, kv :: fs =>
    (match props.lookup kv.1, addl with
     | some s, _ => visit Γ fuel s kv.2
     | none, some s => visit Γ fuel s kv.2
     | none, none => Res.ok true).andT fun _ => visitFields Γ fuel props addl fs
end

/-- "decided": some fuel gives an answer -/
def Dec (f : Nat → Res) : Prop := ∃ n b, f n = .ok b

theorem andMono (a a' c c' : Res) (b : Bool) (h1 : ∀ x, a = .ok x → a' = .ok x) (h2 : ∀ x, c = .ok x → c' = .ok x)
    (h : a.and c = .ok b) : a'.and c' = .ok b := by
  cases a with
  | diverge => simp [Res.and] at h
  | ok x =>
    rw [h1 x rfl]
    cases x with
    | false => simpa [Res.and] using h
    | true => simp only [Res.and] at h ⊢; exact h2 b h

theorem orMono (a a' c c' : Res) (b : Bool) (h1 : ∀ x, a = .ok x → a' = .ok x) (h2 : ∀ x, c = .ok x → c' = .ok x)
    (h : a.orElse c = .ok b) : a'.orElse c' = .ok b := by
  cases a with
  | diverge => simp [Res.orElse] at h
  | ok x =>
    rw [h1 x rfl]
    cases x with
    | true => simpa [Res.orElse] using h
    | false => simp only [Res.orElse] at h ⊢; exact h2 b h

theorem negMono (a a' : Res) (b : Bool) (h1 : ∀ x, a = .ok x → a' = .ok x) (h : a.neg = .ok b) : a'.neg = .ok b := by
  cases a with
  | diverge => simp [Res.neg] at h
  | ok x => rw [h1 x rfl]; exact h

theorem visit_mono_ok (Γ : Env) : ∀ fuel,
    (∀ s v b, visit Γ fuel s v = .ok b → visit Γ (fuel + 1) s v = .ok b) ∧
    (∀ ss v b, visitAny Γ fuel ss v = .ok b → visitAny Γ (fuel + 1) ss v = .ok b) ∧
    (∀ ss v b, visitAll Γ fuel ss v = .ok b → visitAll Γ (fuel + 1) ss v = .ok b) ∧
    (∀ s xs b, visitItems Γ fuel s xs = .ok b → visitItems Γ (fuel + 1) s xs = .ok b) ∧
    (∀ ps ad fs b, visitFields Γ fuel ps ad fs = .ok b → visitFields Γ (fuel + 1) ps ad fs = .ok b) := by
  intro fuel
  induction fuel with
  | zero =>
    refine ⟨?_, ?_, ?_, ?_, ?_⟩
    · intro s v b h; simp [visit] at h
    · intro ss v b h; cases ss <;> simp [visitAny] at h ⊢; exact h
    · intro ss v b h; cases ss <;> simp [visitAll] at h ⊢; exact h
    · intro s xs b h; cases xs <;> simp [visitItems] at h ⊢; exact h
    · intro ps ad fs b h; cases fs <;> simp [visitFields] at h ⊢; exact h
  | succ n ih =>
    obtain ⟨ihV, ihY, ihA, ihI, ihF⟩ := ih
    refine ⟨?_, ?_, ?_, ?_, ?_⟩
    · intro s v b h
      cases s with
      | leaf a => simpa [visit] using h
      | ref x =>
        simp only [visit, Res.andT_eq, Res.orT_eq] at h ⊢
        cases hg : Γ x with
        | none => simpa [hg] using h
        | some s' => simp only [hg] at h ⊢; exact ihV s' v b h
      | node own nt anyOf allOf items props addl =>
        simp only [visit, Res.andT_eq, Res.orT_eq] at h ⊢
        refine andMono _ _ _ _ b ?_ ?_ h
        · intro x hx
          cases nt with
          | none => simpa using hx
          | some s' => simp only at hx ⊢; exact negMono _ _ x (fun y hy => ihV s' v y hy) hx
        · intro x hx
          refine andMono _ _ _ _ x ?_ ?_ hx
          · intro y hy
            cases anyOf with
            | nil => simpa using hy
            | cons a as => simp only at hy ⊢; exact ihY (a :: as) v y hy
          · intro y hy
            refine andMono _ _ _ _ y (fun z hz => ihA allOf v z hz) ?_ hy
            intro z hz
            cases v with
            | num k => simpa using hz
            | arr xs =>
              cases items with
              | none => simpa using hz
              | some s' => simp only at hz ⊢; exact ihI s' xs z hz
            | obj fs => simp only at hz ⊢; exact ihF props addl fs z hz
    · intro ss v b h
      cases ss with
      | nil => simpa [visitAny] using h
      | cons s ss =>
        simp only [visitAny, Res.andT_eq, Res.orT_eq] at h ⊢
        exact orMono _ _ _ _ b (fun x hx => ihV s v x hx) (fun x hx => ihY ss v x hx) h
    · intro ss v b h
      cases ss with
      | nil => simpa [visitAll] using h
      | cons s ss =>
        simp only [visitAll, Res.andT_eq, Res.orT_eq] at h ⊢
        exact andMono _ _ _ _ b (fun x hx => ihV s v x hx) (fun x hx => ihA ss v x hx) h
    · intro s xs b h
      cases xs with
      | nil => simpa [visitItems] using h
      | cons x xs =>
        simp only [visitItems, Res.andT_eq, Res.orT_eq] at h ⊢
        exact andMono _ _ _ _ b (fun y hy => ihV s x y hy) (fun y hy => ihI s xs y hy) h
    · intro ps ad fs b h
      cases fs with
      | nil => simpa [visitFields] using h
      | cons kv fs =>
        simp only [visitFields, Res.andT_eq, Res.orT_eq] at h ⊢
        refine andMono _ _ _ _ b ?_ (fun y hy => ihF ps ad fs y hy) h
        intro y hy
        cases hl : ps.lookup kv.1 with
        | some s' => simp only [hl] at hy ⊢; exact ihV s' kv.2 y hy
        | none =>
          cases ad with
          | some s' => simp only [hl] at hy ⊢; exact ihV s' kv.2 y hy
          | none => simpa [hl] using hy

theorem visit_mono_k (Γ : Env) (k : Nat) :
    (∀ fuel s v b, visit Γ fuel s v = .ok b → visit Γ (fuel + k) s v = .ok b) ∧
    (∀ fuel ss v b, visitAny Γ fuel ss v = .ok b → visitAny Γ (fuel + k) ss v = .ok b) ∧
    (∀ fuel ss v b, visitAll Γ fuel ss v = .ok b → visitAll Γ (fuel + k) ss v = .ok b) ∧
    (∀ fuel s xs b, visitItems Γ fuel s xs = .ok b → visitItems Γ (fuel + k) s xs = .ok b) ∧
    (∀ fuel ps ad fs b, visitFields Γ fuel ps ad fs = .ok b → visitFields Γ (fuel + k) ps ad fs = .ok b) := by
  induction k with
  | zero => exact ⟨fun _ _ _ _ h => h, fun _ _ _ _ h => h, fun _ _ _ _ h => h, fun _ _ _ _ h => h, fun _ _ _ _ _ h => h⟩
  | succ k ih =>
    obtain ⟨i1, i2, i3, i4, i5⟩ := ih
    exact ⟨fun f s v b h => (visit_mono_ok Γ (f + k)).1 s v b (i1 f s v b h),
           fun f ss v b h => (visit_mono_ok Γ (f + k)).2.1 ss v b (i2 f ss v b h),
           fun f ss v b h => (visit_mono_ok Γ (f + k)).2.2.1 ss v b (i3 f ss v b h),
           fun f s xs b h => (visit_mono_ok Γ (f + k)).2.2.2.1 s xs b (i4 f s xs b h),
           fun f ps ad fs b h => (visit_mono_ok Γ (f + k)).2.2.2.2 ps ad fs b (i5 f ps ad fs b h)⟩

theorem visit_mono_le (Γ : Env) {n m : Nat} (h : n ≤ m) (s : S) (v : J) (b : Bool)
    (hv : visit Γ n s v = .ok b) : visit Γ m s v = .ok b := by
  obtain ⟨k, rfl⟩ := Nat.exists_eq_add_of_le h
  exact (visit_mono_k Γ k).1 n s v b hv

/-! ### sizes -/
mutual
def sizeJ : J → Nat
  | .num _ => 1
  | .arr xs => 1 + sizeJL xs
  | .obj fs => 1 + sizeJF fs
def sizeJL : List J → Nat
  | [] => 0
  | x :: xs => sizeJ x + sizeJL xs
def sizeJF : List (Nat × J) → Nat
  | [] => 0
  | kv :: fs => sizeJ kv.2 + sizeJF fs
end

theorem sizeJF_mem : ∀ (fs : List (Nat × J)) (kv : Nat × J), kv ∈ fs → sizeJ kv.2 ≤ sizeJF fs
  | [], _, h => by simp at h
  | y :: ys, x, h => by
    simp only [List.mem_cons] at h
    simp only [sizeJF]
    rcases h with rfl | h
    · omega
    · have := sizeJF_mem ys x h; omega

theorem sizeJ_mem : ∀ (xs : List J) (x : J), x ∈ xs → sizeJ x ≤ sizeJL xs
  | [], _, h => by simp at h
  | y :: ys, x, h => by
    simp only [List.mem_cons] at h
    simp only [sizeJL]
    rcases h with rfl | h
    · omega
    · have := sizeJ_mem ys x h; omega

mutual
def sizeS : S → Nat
  | .leaf _ => 1
  | .ref _ => 1
  | .node _ nt anyOf allOf items props addl =>
    1 + sizeSO nt + sizeSL anyOf + sizeSL allOf + sizeSO items + sizeSP props + sizeSO addl
def sizeSO : Option S → Nat
  | none => 0
  | some s => sizeS s
def sizeSL : List S → Nat
  | [] => 0
  | s :: ss => sizeS s + sizeSL ss
def sizeSP : List (Nat × S) → Nat
  | [] => 0
  | ks :: ps => sizeS ks.2 + sizeSP ps
end

theorem sizeS_mem : ∀ (ss : List S) (s : S), s ∈ ss → sizeS s ≤ sizeSL ss
  | [], _, h => by simp at h
  | y :: ys, x, h => by
    simp only [List.mem_cons] at h
    simp only [sizeSL]
    rcases h with rfl | h
    · omega
    · have := sizeS_mem ys x h; omega

/-! ### unguarded references: reachable without passing through `items` -/
mutual
def ur : S → List Nat
  | .leaf _ => []
  | .ref x => [x]
  | .node _ nt anyOf allOf _ _ _ => urO nt ++ urL anyOf ++ urL allOf
def urO : Option S → List Nat
  | none => []
  | some s => ur s
def urL : List S → List Nat
  | [] => []
  | s :: ss => ur s ++ urL ss
end

theorem urL_mem : ∀ (ss : List S) (s : S), s ∈ ss → ∀ y ∈ ur s, y ∈ urL ss
  | [], _, h, _, _ => by simp at h
  | t :: ts, s, h, y, hy => by
    simp only [List.mem_cons] at h
    simp only [urL, List.mem_append]
    rcases h with rfl | h
    · exact Or.inl hy
    · exact Or.inr (urL_mem ts s h y hy)

/-- the environment is ranked: every definition only refers, at unguarded positions, to definitions of lower rank.
    (Equivalent to: the graph of unguarded references has no cycle.) -/
def Ranked (Γ : Env) (rk : Nat → Nat) : Prop := ∀ x s, Γ x = some s → ∀ y ∈ ur s, rk y < rk x

/-! ### list combinators decided when the elements are -/

theorem decAll (Γ : Env) (v : J) : ∀ (ss : List S), (∀ s ∈ ss, ∃ n b, visit Γ n s v = .ok b) →
    ∃ n b, visitAll Γ n ss v = .ok b
  | [], _ => ⟨0, true, by simp [visitAll]⟩
  | s :: ss, h => by
    obtain ⟨n1, b1, h1⟩ := h s (List.mem_cons_self ..)
    obtain ⟨n2, b2, h2⟩ := decAll Γ v ss (fun t ht => h t (List.mem_cons_of_mem _ ht))
    refine ⟨n1 + n2 + 1, ?_⟩
    have e1 : visit Γ (n1 + n2) s v = .ok b1 := (visit_mono_k Γ n2).1 n1 s v b1 h1
    have e2 : visitAll Γ (n1 + n2) ss v = .ok b2 := by
      have := (visit_mono_k Γ n1).2.2.1 n2 ss v b2 h2
      rwa [Nat.add_comm] at this
    simp only [visitAll, Res.andT_eq, Res.orT_eq, e1, e2]
    cases b1 <;> simp [Res.and]

theorem decAny (Γ : Env) (v : J) : ∀ (ss : List S), (∀ s ∈ ss, ∃ n b, visit Γ n s v = .ok b) →
    ∃ n b, visitAny Γ n ss v = .ok b
  | [], _ => ⟨0, false, by simp [visitAny]⟩
  | s :: ss, h => by
    obtain ⟨n1, b1, h1⟩ := h s (List.mem_cons_self ..)
    obtain ⟨n2, b2, h2⟩ := decAny Γ v ss (fun t ht => h t (List.mem_cons_of_mem _ ht))
    refine ⟨n1 + n2 + 1, ?_⟩
    have e1 : visit Γ (n1 + n2) s v = .ok b1 := (visit_mono_k Γ n2).1 n1 s v b1 h1
    have e2 : visitAny Γ (n1 + n2) ss v = .ok b2 := by
      have := (visit_mono_k Γ n1).2.1 n2 ss v b2 h2
      rwa [Nat.add_comm] at this
    simp only [visitAny, Res.andT_eq, Res.orT_eq, e1, e2]
    cases b1 <;> simp [Res.orElse]

theorem decItems (Γ : Env) (s : S) : ∀ (xs : List J), (∀ x ∈ xs, ∃ n b, visit Γ n s x = .ok b) →
    ∃ n b, visitItems Γ n s xs = .ok b
  | [], _ => ⟨0, true, by simp [visitItems]⟩
  | x :: xs, h => by
    obtain ⟨n1, b1, h1⟩ := h x (List.mem_cons_self ..)
    obtain ⟨n2, b2, h2⟩ := decItems Γ s xs (fun t ht => h t (List.mem_cons_of_mem _ ht))
    refine ⟨n1 + n2 + 1, ?_⟩
    have e1 : visit Γ (n1 + n2) s x = .ok b1 := (visit_mono_k Γ n2).1 n1 s x b1 h1
    have e2 : visitItems Γ (n1 + n2) s xs = .ok b2 := by
      have := (visit_mono_k Γ n1).2.2.2.1 n2 s xs b2 h2
      rwa [Nat.add_comm] at this
    simp only [visitItems, Res.andT_eq, Res.orT_eq, e1, e2]
    cases b1 <;> simp [Res.and]

theorem fields_mono_le (Γ : Env) {n m : Nat} (h : n ≤ m) (ps : List (Nat × S)) (ad : Option S) (fs : List (Nat × J))
    (b : Bool) (hv : visitFields Γ n ps ad fs = .ok b) : visitFields Γ m ps ad fs = .ok b := by
  obtain ⟨k, rfl⟩ := Nat.exists_eq_add_of_le h
  exact (visit_mono_k Γ k).2.2.2.2 n ps ad fs b hv

theorem decFields (Γ : Env) (ps : List (Nat × S)) (ad : Option S) : ∀ (fs : List (Nat × J)),
    (∀ kv ∈ fs, ∀ s, ∃ n b, visit Γ n s kv.2 = .ok b) → ∃ n b, visitFields Γ n ps ad fs = .ok b
  | [], _ => ⟨0, true, by simp [visitFields]⟩
  | kv :: fs, h => by
    obtain ⟨n2, b2, h2⟩ := decFields Γ ps ad fs (fun t ht => h t (List.mem_cons_of_mem _ ht))
    have hkv := h kv (List.mem_cons_self ..)
    have h1 : ∃ n1 b1, ∀ m, n1 ≤ m → (match ps.lookup kv.1, ad with
          | some s, _ => visit Γ m s kv.2
          | none, some s => visit Γ m s kv.2
          | none, none => Res.ok true) = .ok b1 := by
      cases hl : ps.lookup kv.1 with
      | some s' =>
        obtain ⟨n, b, e⟩ := hkv s'
        exact ⟨n, b, fun m hm => by simpa using visit_mono_le Γ hm s' kv.2 b e⟩
      | none =>
        cases ad with
        | some s' =>
          obtain ⟨n, b, e⟩ := hkv s'
          exact ⟨n, b, fun m hm => by simpa using visit_mono_le Γ hm s' kv.2 b e⟩
        | none => exact ⟨0, true, fun _ _ => rfl⟩
    obtain ⟨n1, b1, m1⟩ := h1
    refine ⟨n1 + n2 + 1, ?_⟩
    have e2 : visitFields Γ (n1 + n2) ps ad fs = .ok b2 := fields_mono_le Γ (by omega) ps ad fs b2 h2
    simp only [visitFields, Res.andT_eq, Res.orT_eq, m1 (n1 + n2) (by omega), e2]
    cases b1 <;> simp [Res.and]

/-- combining four decided parts of a node -/
theorem decNode (a b c d : Nat → Res)
    (ma : ∀ n m x, n ≤ m → a n = .ok x → a m = .ok x) (mb : ∀ n m x, n ≤ m → b n = .ok x → b m = .ok x)
    (mc : ∀ n m x, n ≤ m → c n = .ok x → c m = .ok x) (md : ∀ n m x, n ≤ m → d n = .ok x → d m = .ok x)
    (ha : ∃ n x, a n = .ok x) (hb : ∃ n x, b n = .ok x) (hc : ∃ n x, c n = .ok x) (hd : ∃ n x, d n = .ok x) :
    ∃ n x, (a n).and ((b n).and ((c n).and (d n))) = .ok x := by
  obtain ⟨na, xa, ea⟩ := ha
  obtain ⟨nb, xb, eb⟩ := hb
  obtain ⟨nc, xc, ec⟩ := hc
  obtain ⟨nd, xd, ed⟩ := hd
  refine ⟨na + nb + nc + nd, ?_⟩
  rw [ma na _ xa (by omega) ea, mb nb _ xb (by omega) eb, mc nc _ xc (by omega) ec, md nd _ xd (by omega) ed]
  cases xa <;> cases xb <;> cases xc <;> cases xd <;> simp [Res.and]


theorem sizeJ_pos : ∀ v, 1 ≤ sizeJ v
  | .num _ => by simp [sizeJ]
  | .arr _ => by simp [sizeJ]
  | .obj _ => by simp [sizeJ]
theorem sizeS_pos : ∀ s, 1 ≤ sizeS s
  | .leaf _ => by simp [sizeS]
  | .ref _ => by simp [sizeS]
  | .node .. => by simp only [sizeS]; omega

def bound (rk : Nat → Nat) : List Nat → Nat
  | [] => 0
  | y :: ys => max (rk y + 1) (bound rk ys)

theorem lt_bound (rk : Nat → Nat) : ∀ (l : List Nat) (y : Nat), y ∈ l → rk y < bound rk l
  | [], _, h => by simp at h
  | z :: zs, y, h => by
    simp only [List.mem_cons] at h
    simp only [bound]
    rcases h with rfl | h
    · omega
    · have := lt_bound rk zs y h; omega

theorem any_mono_le (Γ : Env) {n m : Nat} (h : n ≤ m) (ss : List S) (v : J) (b : Bool)
    (hv : visitAny Γ n ss v = .ok b) : visitAny Γ m ss v = .ok b := by
  obtain ⟨k, rfl⟩ := Nat.exists_eq_add_of_le h
  exact (visit_mono_k Γ k).2.1 n ss v b hv
theorem all_mono_le (Γ : Env) {n m : Nat} (h : n ≤ m) (ss : List S) (v : J) (b : Bool)
    (hv : visitAll Γ n ss v = .ok b) : visitAll Γ m ss v = .ok b := by
  obtain ⟨k, rfl⟩ := Nat.exists_eq_add_of_le h
  exact (visit_mono_k Γ k).2.2.1 n ss v b hv
theorem items_mono_le (Γ : Env) {n m : Nat} (h : n ≤ m) (s : S) (xs : List J) (b : Bool)
    (hv : visitItems Γ n s xs = .ok b) : visitItems Γ m s xs = .ok b := by
  obtain ⟨k, rfl⟩ := Nat.exists_eq_add_of_le h
  exact (visit_mono_k Γ k).2.2.2.1 n s xs b hv

/-- one value, one rank bound: every schema whose unguarded references have rank < r is decided, given that
    definitions of rank < r are decided on this value and everything is decided on smaller values -/
theorem step (Γ : Env) (rk : Nat → Nat) (v : J) (r : Nat)
    (hRef : ∀ x, rk x < r → ∀ s', Γ x = some s' → ∃ n b, visit Γ n s' v = .ok b)
    (hSmall : ∀ xs, v = .arr xs → ∀ x ∈ xs, ∀ s', ∃ n b, visit Γ n s' x = .ok b)
    (hSmallF : ∀ fs, v = .obj fs → ∀ kv ∈ fs, ∀ s', ∃ n b, visit Γ n s' kv.2 = .ok b) :
    ∀ M s, sizeS s ≤ M → (∀ y ∈ ur s, rk y < r) → ∃ n b, visit Γ n s v = .ok b := by
  intro M
  induction M with
  | zero => intro s hs; have := sizeS_pos s; omega
  | succ M ih =>
    intro s hs hur
    cases s with
    | leaf a => exact ⟨1, by cases v <;> simp [visit]⟩
    | ref x =>
      have hx : rk x < r := hur x (by simp [ur])
      cases hg : Γ x with
      | none => exact ⟨1, false, by simp [visit, hg]⟩
      | some s' =>
        obtain ⟨n, b, h⟩ := hRef x hx s' hg
        exact ⟨n + 1, b, by simp [visit, hg, h]⟩
    | node own nt anyOf allOf items props addl =>
      simp only [sizeS] at hs
      have hurN : ∀ y ∈ urO nt, rk y < r := fun y hy => hur y (by simp [ur, hy])
      have hurY : ∀ y ∈ urL anyOf, rk y < r := fun y hy => hur y (by simp [ur, hy])
      have hurA : ∀ y ∈ urL allOf, rk y < r := fun y hy => hur y (by simp [ur, hy])
      -- the four parts as functions of the fuel
      have ha : ∃ n x, (match nt with | none => Res.ok true | some s => (visit Γ n s v).neg) = .ok x := by
        cases nt with
        | none => exact ⟨0, true, rfl⟩
        | some s' =>
          obtain ⟨n, b, h⟩ := ih s' (by simp only [sizeSO] at hs; omega) (fun y hy => hurN y (by simpa [urO] using hy))
          exact ⟨n, !b, by simp [h, Res.neg]⟩
      have hb : ∃ n x, (match anyOf with | [] => Res.ok true | _ :: _ => visitAny Γ n anyOf v) = .ok x := by
        cases hl : anyOf with
        | nil => exact ⟨0, true, rfl⟩
        | cons a as =>
          obtain ⟨n, b, h⟩ := decAny Γ v anyOf (fun t ht =>
            ih t (by have := sizeS_mem anyOf t ht; omega) (fun y hy => hurY y (urL_mem anyOf t ht y hy)))
          exact ⟨n, b, by rw [hl] at h; simpa using h⟩
      have hc : ∃ n x, visitAll Γ n allOf v = .ok x :=
        decAll Γ v allOf (fun t ht =>
          ih t (by have := sizeS_mem allOf t ht; omega) (fun y hy => hurA y (urL_mem allOf t ht y hy)))
      have hd : ∃ n x, (match v with
          | .arr xs => (match items with | some s => visitItems Γ n s xs | none => Res.ok true)
          | .obj fs => visitFields Γ n props addl fs
          | .num _ => Res.ok true) = .ok x := by
        cases v with
        | num k => exact ⟨0, true, rfl⟩
        | arr xs =>
          cases items with
          | none => exact ⟨0, true, rfl⟩
          | some s' =>
            obtain ⟨n, b, h⟩ := decItems Γ s' xs (fun x hx => hSmall xs rfl x hx s')
            exact ⟨n, b, by simpa using h⟩
        | obj fs =>
          obtain ⟨n, b, h⟩ := decFields Γ props addl fs (fun kv hkv s' => hSmallF fs rfl kv hkv s')
          exact ⟨n, b, by simpa using h⟩
      obtain ⟨n, x, h⟩ := decNode
        (fun n => match nt with | none => Res.ok true | some s => (visit Γ n s v).neg)
        (fun n => match anyOf with | [] => Res.ok true | _ :: _ => visitAny Γ n anyOf v)
        (fun n => visitAll Γ n allOf v)
        (fun n => match v with
          | .arr xs => (match items with | some s => visitItems Γ n s xs | none => Res.ok true)
          | .obj fs => visitFields Γ n props addl fs
          | .num _ => Res.ok true)
        (by
          intro n m x hnm hx
          cases nt with
          | none => simpa using hx
          | some s' => simp only at hx ⊢; exact negMono _ _ x (fun y hy => visit_mono_le Γ hnm s' v y hy) hx)
        (by
          intro n m x hnm hx
          cases anyOf with
          | nil => simpa using hx
          | cons a as => simp only at hx ⊢; exact any_mono_le Γ hnm _ v x hx)
        (fun n m x hnm hx => all_mono_le Γ hnm allOf v x hx)
        (by
          intro n m x hnm hx
          cases v with
          | num k => simpa using hx
          | arr xs =>
            cases items with
            | none => simpa using hx
            | some s' => simp only at hx ⊢; exact items_mono_le Γ hnm s' xs x hx
          | obj fs => simp only at hx ⊢; exact fields_mono_le Γ hnm props addl fs x hx)
        ha hb hc hd
      exact ⟨n + 1, x, by simp only [visit, Res.andT_eq, Res.orT_eq]; exact h⟩

/-- **Guarded recursion terminates, in general**: in a ranked environment (no cycle of unguarded references) the
    validator decides every schema on every value. -/
theorem ranked_decided (Γ : Env) (rk : Nat → Nat) (hR : Ranked Γ rk) :
    ∀ (v : J) (s : S), ∃ n b, visit Γ n s v = .ok b := by
  -- induction on the size of the value
  have key : ∀ N v, sizeJ v ≤ N → ∀ s, ∃ n b, visit Γ n s v = .ok b := by
    intro N
    induction N with
    | zero => intro v hv; have := sizeJ_pos v; omega
    | succ N ihN =>
      intro v hv
      have hSmall : ∀ xs, v = .arr xs → ∀ x ∈ xs, ∀ s', ∃ n b, visit Γ n s' x = .ok b := by
        intro xs hxs x hx s'
        subst hxs
        simp only [sizeJ] at hv
        have := sizeJ_mem xs x hx
        exact ihN x (by omega) s'
      have hSmallF : ∀ fs, v = .obj fs → ∀ kv ∈ fs, ∀ s', ∃ n b, visit Γ n s' kv.2 = .ok b := by
        intro fs hfs kv hkv s'
        subst hfs
        simp only [sizeJ] at hv
        have := sizeJF_mem fs kv hkv
        exact ihN kv.2 (by omega) s'
      -- induction on the rank bound
      have byRank : ∀ r, ∀ s, (∀ y ∈ ur s, rk y < r) → ∃ n b, visit Γ n s v = .ok b := by
        intro r
        induction r using Nat.strongRecOn with
        | _ r ihr =>
          intro s hur
          refine step Γ rk v r ?_ hSmall hSmallF (sizeS s) s (Nat.le_refl _) hur
          intro x hx s' hg
          exact ihr (rk x) hx s' (fun y hy => hR x s' hg y hy)
      intro s
      exact byRank (bound rk (ur s)) s (fun y hy => lt_bound rk _ y hy)
  intro v s
  exact key (sizeJ v) v (Nat.le_refl _) s

/-- fuel form: beyond some amount of fuel the answer never changes and is never `diverge` -/
theorem ranked_never_diverges (Γ : Env) (rk : Nat → Nat) (hR : Ranked Γ rk) (v : J) (s : S) :
    ∃ n b, ∀ m, n ≤ m → visit Γ m s v = .ok b := by
  obtain ⟨n, b, h⟩ := ranked_decided Γ rk hR v s
  exact ⟨n, b, fun m hm => visit_mono_le Γ hm s v b h⟩

/-- the shortcut is sound to leave out: on a schema without sub-schemas `IsEmpty` answers with fuel 1 -/
theorem isEmpty_no_sub (Γ : Env) (own : Bool) (fuel : Nat) :
    isEmpty Γ (fuel + 1) (.node own none [] [] none [] none) = .ok (!own) := by
  cases own <;> simp [isEmpty, isEmptyAll, Res.and]

/-- finding #6: the unguarded self-reference `A: {allOf: [{$ref: A}]}`, with (`own`) or without a keyword of its own -/
def Γ6 (own : Bool) : Env := fun x => if x = 0 then some (.node own none [] [.ref 0] none [] none) else none

theorem unguarded_diverges (own : Bool) (v : J) : ∀ (fuel : Nat),
    visit (Γ6 own) fuel (.ref 0) v = .diverge ∧ visit (Γ6 own) fuel (.node own none [] [.ref 0] none [] none) v = .diverge ∧
    visitAll (Γ6 own) fuel [.ref 0] v = .diverge
  | 0 => by simp [visit, visitAll]
  | fuel + 1 => by
    obtain ⟨ih1, ih2, ih3⟩ := unguarded_diverges own v fuel
    refine ⟨?_, ?_, ?_⟩
    · simpa [visit, Γ6] using ih2
    · simp only [visit, Res.andT_eq, Res.orT_eq, ih3]; rfl
    · simp only [visitAll, Res.andT_eq, Res.orT_eq, ih1]; rfl

/-- the same through `not` and through `anyOf`: `A: {not: {$ref: A}}`, `A: {anyOf: [{$ref: A}]}` -/
def ΓN : Env := fun x => if x = 0 then some (.node false (some (.ref 0)) [] [] none [] none) else none
def ΓY : Env := fun x => if x = 0 then some (.node false none [.ref 0] [] none [] none) else none

theorem not_cycle_diverges (v : J) : ∀ (fuel : Nat),
    visit ΓN fuel (.ref 0) v = .diverge ∧ visit ΓN fuel (.node false (some (.ref 0)) [] [] none [] none) v = .diverge
  | 0 => by simp [visit]
  | fuel + 1 => by
    obtain ⟨ih1, ih2⟩ := not_cycle_diverges v fuel
    refine ⟨?_, ?_⟩
    · simpa [visit, ΓN] using ih2
    · simp only [visit, Res.andT_eq, Res.orT_eq, ih1]; rfl

theorem anyOf_cycle_diverges (v : J) : ∀ (fuel : Nat),
    visit ΓY fuel (.ref 0) v = .diverge ∧ visit ΓY fuel (.node false none [.ref 0] [] none [] none) v = .diverge ∧
    visitAny ΓY fuel [.ref 0] v = .diverge
  | 0 => by simp [visit, visitAny]
  | fuel + 1 => by
    obtain ⟨ih1, ih2, ih3⟩ := anyOf_cycle_diverges v fuel
    refine ⟨?_, ?_, ?_⟩
    · simpa [visit, ΓY] using ih2
    · simp only [visit, Res.andT_eq, Res.orT_eq, ih3]; rfl
    · simp only [visitAny, Res.andT_eq, Res.orT_eq, ih1]; rfl

/-- `Labels: {additionalProperties: {$ref: Labels}}` (the class of the seeded change C10-r3m2): guarded, so `visit`
    decides it on every value (`guardedB` accepts it, `Props.C10`), while `Schema.IsEmpty` follows the cycle without end
    — `visitJSON` must not evaluate `IsEmpty` on it, which `hasSubSchemas` guarantees (table `SubSchemaFields`) -/
def ΓP : Env := fun x => if x = 0 then some (.node false none [] [] none [] (some (.ref 0))) else none

theorem isEmpty_addl_diverges : ∀ (fuel : Nat),
    isEmpty ΓP fuel (.ref 0) = .diverge ∧ isEmpty ΓP fuel (.node false none [] [] none [] (some (.ref 0))) = .diverge
  | 0 => by simp [isEmpty]
  | fuel + 1 => by
    obtain ⟨ih1, ih2⟩ := isEmpty_addl_diverges fuel
    refine ⟨?_, ?_⟩
    · simpa [isEmpty, ΓP] using ih2
    · simp only [isEmpty, Res.andT_eq, Res.orT_eq, Bool.false_eq_true, if_false, ih1]; rfl

/-- `L: {items: {$ref: L}}` -/
def ΓL (own : Bool) : Env := fun x => if x = 0 then some (.node own none [] [] (some (.ref 0)) [] none) else none

/-- `Schema.IsEmpty` itself still follows the cycle of `L: {items: {$ref: L}}` without end (it has no visited
    set); since 08457da `visitJSON` does not evaluate it on such a schema -/
theorem isEmpty_diverges : ∀ (fuel : Nat),
    isEmpty (ΓL false) fuel (.ref 0) = .diverge ∧ isEmpty (ΓL false) fuel (.node false none [] [] (some (.ref 0)) [] none) = .diverge
  | 0 => by simp [isEmpty]
  | fuel + 1 => by
    obtain ⟨ih1, ih2⟩ := isEmpty_diverges fuel
    refine ⟨?_, ?_⟩
    · simpa [isEmpty, ΓL] using ih2
    · simp only [isEmpty, Res.andT_eq, Res.orT_eq, Bool.false_eq_true, if_false, ih1]; rfl

/-- without declared properties and without an additionalProperties schema every field is accepted -/
theorem fields_trivial (Γ : Env) : ∀ (fs : List (Nat × J)) (n : Nat), fs.length ≤ n → visitFields Γ n [] none fs = .ok true
  | [], _, _ => by simp [visitFields]
  | kv :: fs, 0, h => by simp at h
  | kv :: fs, n + 1, h => by
    have := fields_trivial Γ fs n (by simp only [List.length_cons] at h; omega)
    simp [visitFields, this, Res.and]

mutual
def fuelFor : J → Nat
  | .num _ => 2
  | .arr xs => 2 + fuelForL xs
  | .obj fs => 2 + fs.length
def fuelForL : List J → Nat
  | [] => 0
  | x :: xs => 1 + fuelFor x + fuelForL xs
end

mutual
theorem guarded_terminates (own : Bool) : ∀ (v : J), visit (ΓL own) (fuelFor v) (.ref 0) v = .ok true
  | .num n => by simp [fuelFor, visit, ΓL, visitAll, Res.and]
  | .arr xs => by
    have h := guarded_items own xs
    simp only [fuelFor]
    rw [show 2 + fuelForL xs = (fuelForL xs + 1) + 1 by omega]
    simp only [visit, Res.andT_eq, Res.orT_eq, ΓL, if_true]
    cases hx : fuelForL xs with
    | zero =>
      have : xs = [] := by cases xs <;> simp_all [fuelForL]
      subst this; simp [visitAll, visitItems, Res.and]
    | succ g => rw [hx] at h; simp only [visitAll, Res.andT_eq, Res.orT_eq, Res.and]; exact h
  | .obj fs => by
    simp only [fuelFor]
    rw [show 2 + fs.length = (fs.length + 1) + 1 by omega]
    simp only [visit, Res.andT_eq, Res.orT_eq, ΓL, if_true]
    simp [visitAll, Res.and, fields_trivial (ΓL own) fs fs.length (Nat.le_refl _)]
theorem guarded_items (own : Bool) : ∀ (xs : List J), visitItems (ΓL own) (fuelForL xs) (.ref 0) xs = .ok true
  | [] => by simp [visitItems]
  | x :: xs => by
    have h1 := guarded_terminates own x
    have h2 := guarded_items own xs
    simp only [fuelForL]
    rw [show 1 + fuelFor x + fuelForL xs = (fuelFor x + fuelForL xs) + 1 by omega]
    simp only [visitItems, Res.andT_eq, Res.orT_eq]
    have e1 := (visit_mono_k (ΓL own) (fuelForL xs)).1 _ _ _ _ h1
    have e2 := (visit_mono_k (ΓL own) (fuelFor x)).2.2.2.1 _ _ _ _ h2
    rw [Nat.add_comm (fuelForL xs) (fuelFor x)] at e2
    rw [e1, e2]; rfl
end

/-! ## executable side: finite environments, the decidable guardedness check -/

def envOf (defs : List S) : Env := fun x => defs[x]?

/-- rank of a name from a list of ranks: defined names get rank + 1, undefined names (which the validator answers
    at once) rank 0 -/
def rkOf (ranks : List Nat) (x : Nat) : Nat := match ranks[x]? with | some r => r + 1 | none => 0

/-- the ranks are strictly decreasing along every unguarded reference between definitions -/
def rankedB (defs : List S) (ranks : List Nat) : Bool :=
  ranks.length == defs.length &&
  (List.range defs.length).all (fun x =>
    match defs[x]? with
    | some s => (ur s).all (fun y => rkOf ranks y < rkOf ranks x)
    | none => true)

theorem rankedB_sound (defs : List S) (ranks : List Nat) (h : rankedB defs ranks = true) :
    Ranked (envOf defs) (rkOf ranks) := by
  intro x s hx y hy
  unfold rankedB at h
  simp only [Bool.and_eq_true, List.all_eq_true, List.mem_range, beq_iff_eq] at h
  obtain ⟨_, h⟩ := h
  unfold envOf at hx
  have hlt : x < defs.length := by
    cases Nat.lt_or_ge x defs.length with
    | inl h => exact h
    | inr h => simp [List.getElem?_eq_none h] at hx
  have := h x hlt
  simp only [hx, List.all_eq_true, decide_eq_true_eq] at this
  exact this y hy

/-- longest-unguarded-path ranks by relaxation (`defs.length` rounds are enough when there is no cycle) -/
def relax (defs : List S) (ranks : List Nat) : List Nat :=
  (List.range defs.length).map (fun x =>
    match defs[x]? with
    | some s => bound (rkOf ranks) (ur s)
    | none => 0)

def computeRanks (defs : List S) : List Nat :=
  (List.range defs.length).foldl (fun ranks _ => relax defs ranks) (defs.map (fun _ => 0))

/-- the decidable guardedness predicate: the computed ranks are a certificate -/
def guardedB (defs : List S) : Bool := rankedB defs (computeRanks defs)

/-- **guarded ⇒ decided**, decidable form: a finite environment that passes the check decides every schema on
    every value, and the answer is stable for all larger amounts of fuel -/
theorem guardedB_sound (defs : List S) (h : guardedB defs = true) (v : J) (s : S) :
    ∃ n b, ∀ m, n ≤ m → visit (envOf defs) m s v = .ok b :=
  ranked_never_diverges (envOf defs) (rkOf (computeRanks defs)) (rankedB_sound defs _ h) v s

/-- references reachable from a schema without passing through `items` (= `ur`) -/
abbrev unguardedRefs : S → List Nat := ur

/-- can `x` reach itself through unguarded edges only (depth-bounded search, bound = number of definitions) -/
def reachesUnguarded (defs : List S) (target : Nat) : Nat → Nat → Bool
  | 0, _ => false
  | fuel + 1, x =>
    match defs[x]? with
    | none => false
    | some s => (ur s).any (fun y => y = target || reachesUnguarded defs target fuel y)

def hasUnguardedCycle (defs : List S) : Bool :=
  (List.range defs.length).any (fun x => reachesUnguarded defs x defs.length x)

/-- does `Schema.IsEmpty` fail to terminate on some definition (decided with the given fuel): coverage label only -/
def hasEmptinessCycle (defs : List S) (fuel : Nat) : Bool :=
  defs.any (fun s => isEmpty (envOf defs) fuel s = .diverge)

end KinModel.NoPanic.Recursion
