/-
C10 — model of `openapi3.Server.MatchRawURL` (openapi3/server.go), the string matcher the legacy router
runs on every request URL. Strings are `List Char` (the correspondence run uses ASCII only, where Go's
byte indexing and characters coincide). Index expressions are explicit: `finish` is the code after the
loop, whose `input[0]` is the one index the extractor cannot see a guard for.
-/
namespace KinModel.NoPanic.Server

inductive Res
  | noMatch
  | matched (params : List (List Char)) (rest : List Char)
  | panic                 -- index out of range
  | outOfFuel             -- never returned for fuel > pattern length (`loop_fuel`)
  deriving DecidableEq, Repr

def indexOf (c : Char) : List Char → Option Nat
  | [] => none
  | x :: xs => if x = c then some 0 else (indexOf c xs).map (· + 1)

/-- the code after the loop: `if input == "" { input = "/" }; if input[0] != '/' { return false }` -/
def finish (input : List Char) (params : List (List Char)) : Res :=
  let input' := if input.isEmpty then ['/'] else input
  match input' with
  | [] => .panic
  | c :: _ => if c ≠ '/' then .noMatch else .matched params input'

/-- where a `{var}` stops: next occurrence of the character after `}` or the next `/`, whichever comes first -/
def varEnd (np ns : Option Nat) (len : Nat) : Nat :=
  match np, ns with
  | none, none => len
  | none, some s => s
  | some p, none => p
  | some p, some s => min p s

def loop : Nat → List Char → List Char → List (List Char) → Res
  | 0, _, _, _ => .outOfFuel
  | fuel + 1, pattern, input, params =>
    match pattern with
    | [] => finish input params
    | c :: prest =>
      if prest.isEmpty ∧ c = '/' then finish input params       -- `break` on a single trailing slash
      else if c = '{' then
        match indexOf '}' pattern with
        | none => .noMatch
        | some i =>
          let pattern' := pattern.drop (i + 1)
          let np := match pattern' with | [] => none | p0 :: _ => indexOf p0 input
          let i' := varEnd np (indexOf '/' input) input.length
          loop fuel pattern' (input.drop i') (params ++ [input.take i'])
      else
        match input with
        | [] => .noMatch
        | i0 :: irest => if i0 ≠ c then .noMatch else loop fuel prest irest params

def matchRawURL (pattern input : List Char) : Res := loop (pattern.length + 1) pattern input []

/-- `Servers.MatchURL`: first server that matches -/
def matchServers : List (List Char) → List Char → Option Res
  | [], _ => none
  | s :: ss, input =>
    match matchRawURL s input with
    | .noMatch => matchServers ss input
    | r => some r

theorem finish_ne_panic (input : List Char) (params : List (List Char)) : finish input params ≠ .panic := by
  unfold finish
  cases input with
  | nil => simp
  | cons c cs =>
    simp only [List.isEmpty_cons]
    by_cases h : c = '/' <;> simp [h]

theorem loop_ne_panic : ∀ (fuel : Nat) (pattern input : List Char) (params : List (List Char)),
    loop fuel pattern input params ≠ .panic := by
  intro fuel
  induction fuel with
  | zero => intro p i ps; simp [loop]
  | succ n ih =>
    intro pattern input params
    unfold loop
    cases pattern with
    | nil => exact finish_ne_panic _ _
    | cons c prest =>
      simp only
      split
      · exact finish_ne_panic _ _
      · split
        · split
          · simp
          · exact ih _ _ _
        · cases input with
          | nil => simp
          | cons i0 irest =>
            simp only
            split
            · simp
            · exact ih _ _ _

theorem loop_fuel : ∀ (fuel : Nat) (pattern input : List Char) (params : List (List Char)),
    pattern.length < fuel → loop fuel pattern input params ≠ .outOfFuel := by
  intro fuel
  induction fuel with
  | zero => intro p i ps h; omega
  | succ n ih =>
    intro pattern input params hlen
    unfold loop
    have fin : ∀ i ps, finish i ps ≠ .outOfFuel := by
      intro i ps; unfold finish
      cases i with
      | nil => simp
      | cons c cs => simp only [List.isEmpty_cons]; by_cases h : c = '/' <;> simp [h]
    cases pattern with
    | nil => exact fin _ _
    | cons c prest =>
      simp only
      split
      · exact fin _ _
      · split
        · split
          · simp
          · rename_i i _
            apply ih
            simp only [List.length_drop, List.length_cons] at hlen ⊢
            omega
        · cases input with
          | nil => simp
          | cons i0 irest =>
            simp only
            split
            · simp
            · apply ih; simp only [List.length_cons] at hlen; omega

end KinModel.NoPanic.Server
