/-
C20 — abstract model of the reference-resolution phase of `openapi3.Loader` (openapi3/loader.go), of the
cycle-guarded descent of `(*Schema).validate` (openapi3/schema.go) and of the unguarded descents
(`(*Schema).IsEmpty`, `visitJSON` through compositions, `derefPaths` of internalize_refs.go).

Loader, branch by branch (the ten `resolve*Ref` routines share one skeleton; `kind` says which one):
  * `component.isEmpty()` → `errMUST…` (every resolver, `resolveExampleRef` included since cbb0d05);
  * `$ref` set: `component.Value != nil` → return; text already in `visitedRefs` → register a backtrack
    callback under the TEXT (the callback asserts the kind of ITS resolver) and return; else `visitRef`;
  * reference without `#`: `loadSingleElementFromURI` (error, or a freshly decoded element);
  * else `resolveComponent`: the drill-down yields an error, a pointer of the expected wrapper type
    (`setPathRef(cursor)` gives the TARGET its location, then `*resolved = *cursor`), or a
    `map[string]any` (re-decoded into a fresh wrapper). A nil pointer of the wrapper type and a nil
    dereference inside the drill-down (`Tgt.nilPtr`, `Tgt.drillPanic`) are outcomes the drill-down of the
    repaired code (25200f7: `isNilPointer`, `c.Value != nil`) no longer produces — they stay in the model
    as the panics they would be, and `LoadDoc.targetOf_never_panics` proves they do not occur for the
    configuration read from the source;
  * recursive call on the resolved wrapper; the sentinel `errMUST<own kind>` from it (raised by that wrapper
    or by a wrapper of the same kind anywhere below it) → `return nil` BEFORE `setRefPath` and before the
    deferred `unvisitRef` is registered (the text stays in `visitedRefs`, the component stays without value
    and without location); every other error, a sentinel of another kind included, travels up unchanged;
  * `component.Value = resolved.Value; component.setRefPath(resolved.RefPath())`; deferred
    `unvisitRef(ref, component.Value)`: when the value is non-nil every callback registered under the text
    runs — `v, ok := value.(*K)`: a callback registered by a resolver of another kind returns without
    assigning (a04fe6c); `Cfg.assertChecked` says per kind whether the assertion has the comma-ok form
    (read from the source: table `C20Loader`), an unchecked one panics as before;
  * `resolvePathItemRef` differs: the sentinel is never swallowed, the copied target is resolved by a
    recursive call when it is itself a reference (9b25d89), `unvisitRef` always gets a non-nil value, a
    path item that has a `$ref` and content of its own is left alone (the driver gives it no children);
  * then the children of the value are walked (the walk is `LoadDoc.toNode`).
Abstracted: the path algebra and the drill-down (`World.target`, computed by the driver from the JSON
document with the generated struct table), JSON/YAML decoding, the second walk over the children of an
already resolved value (every reference below it then has its value or is pending: no new behaviour).
Reference texts are interned as numbers by the driver.
-/
namespace KinModel.LoadSafety

inductive Kind
  | header | parameter | requestBody | response | schema | securityScheme | example | callback | link | pathItem
  deriving DecidableEq, Repr, Inhabited

abbrev Text := Nat

/-- A wrapper position walked by the loader: `id` names the Go object, `doc` the document it was decoded
    from (`#…` texts are drilled in that document), `ref` its `$ref` text, `empty` = `isEmpty()` (nil
    wrapper, or neither `$ref` nor value), `kids` the wrapper positions below its value in the loader's order. -/
inductive Node where
  | mk (id : Nat) (doc : Nat) (kind : Kind) (ref : Option Text) (empty : Bool) (kids : List Node)

def Node.id : Node → Nat | .mk i _ _ _ _ _ => i
def Node.doc : Node → Nat | .mk _ d _ _ _ _ => d
def Node.kind : Node → Kind | .mk _ _ k _ _ _ => k
def Node.ref : Node → Option Text | .mk _ _ _ r _ _ => r
def Node.empty : Node → Bool | .mk _ _ _ _ e _ => e
def Node.kids : Node → List Node | .mk _ _ _ _ _ ks => ks

/-- what the model reads from the source (table `Gen.C20Loader`, `LoadDoc.codeCfg`) -/
structure Cfg where
  assertChecked : Kind → Bool    -- the backtrack callback of the kind's resolver asserts in comma-ok form
  nilChecked    : Bool           -- drill-down: `cursor == nil || isNilPointer(cursor)` after every token
  apGuarded     : Bool           -- drill-down: `pathPart == "additionalProperties" && c.Value != nil`
  keyedByKind   : Bool           -- `visitedRefs` / `backtrack` are keyed by kind and text (7245059), not by the text alone
  swallowOnlyEmpty : Bool        -- the sentinel of the chain call is swallowed only `&& resolved.isEmpty()` (3c3716e)
  internValueGuard : Bool        -- add<Kind>ToSpec leaves a reference without value alone (05c5875)
  headerStack   : Bool           -- (*Header).Validate keeps the headers in progress in its context (4c7d612)

/-- `var resolved XRef; *resolved = *cursor`: a new Go object with the content of the target wrapper -/
def Node.copyAs : Node → Nat → Node | .mk _ d k r e ks, i => .mk i d k r e ks
/-- identity of the copy made while wrapper `a` resolves to wrapper `b` (odd; the driver numbers decoded wrappers evenly) -/
def copyId (a b : Nat) : Nat := 2 * ((a + b) * (a + b + 1) / 2 + b) + 1

mutual
/-- number of wrapper positions in a node (independent of the identities) -/
def Node.size : Node → Nat | .mk _ _ _ _ _ ks => 1 + sizes ks
def sizes : List Node → Nat
  | [] => 0
  | k :: ks => k.size + sizes ks
end

/-- result of `resolveComponent`'s drill-down / `loadSingleElementFromURI` for a text, a wrapper of a kind expected -/
inductive Tgt
  | err                      -- every error return (dangling, unparsable, disallowed external, "bad data")
  | wrapper (n : Node)       -- pointer of the expected wrapper type, copied into `resolved`
  | raw (n : Node)           -- `map[string]any`, re-decoded into a fresh wrapper
  | single (n : Node)        -- no '#': the whole file decoded as the element
  | nilPtr                   -- nil pointer of the expected wrapper type
  | drillPanic               -- the drill-down dereferences nil

inductive Site | assertKind | typedNil | drill
  deriving DecidableEq, Repr

/-- key of `visitedRefs` / `backtrack`: `"<Kind> " + ref` since 7245059, the text alone before -/
abbrev Key := Option Kind × Text

def keyOf (cfg : Cfg) (kind : Kind) (t : Text) : Key := (if cfg.keyedByKind then some kind else none, t)

structure St where
  value   : List Nat                     -- ids of wrappers whose `Value` is set
  pathed  : List Nat                     -- ids of wrappers whose `refPath` is set
  inprog  : List Key                     -- `visitedRefs`
  pending : List (Key × Kind × Nat)      -- `backtrack`: key ↦ (kind asserted by the callback, wrapper to fill)
  deriving Repr, DecidableEq

def St.init : St := ⟨[], [], [], []⟩

inductive Res
  | ok (s : St)
  | errMust (k : Kind) (s : St)   -- the sentinel `errMUST<Kind>` (compared with `==`; it travels up unchanged)
  | err
  | panic (site : Site)
  | outOfFuel
  deriving Repr, DecidableEq

structure World where
  texts  : List Text                     -- the reference texts for which `target` is not an error
  target : Nat → Text → Kind → Tgt       -- document the text is written in, text, kind of the resolver

/-- children in order; the first result that is not `ok` ends the walk (every Go caller returns the
    error value it got — a sentinel stays the same sentinel) -/
def stepKids (f : Node → St → Res) : List Node → St → Res
  | [], st => .ok st
  | k :: ks, st =>
    match f k st with
    | .ok st' => stepKids f ks st'
    | r => r

/-- does every callback registered under `t` survive a value of kind `k`? (`value.(*K)`: the callback's own
    kind, or an assertion in comma-ok form) -/
def callbacksOK (cfg : Cfg) (pending : List (Key × Kind × Nat)) (t : Key) (k : Kind) : Bool :=
  pending.all (fun p => p.1 != t || p.2.1 == k || cfg.assertChecked p.2.1)

/-- the wrappers filled by the callbacks of `t` for a value of kind `k` (the others return without assigning) -/
def filled (pending : List (Key × Kind × Nat)) (t : Key) (k : Kind) : List Nat :=
  (pending.filter (fun p => p.1 == t && p.2.1 == k)).map (·.2.2)

/-- `component.Value = …; component.setRefPath(…)`, then `unvisitRef(t, value)` with a non-nil value of
    kind `k`: run and drop the callbacks of `t` (each sets `Value` and `refPath`), forget `t` -/
def unvisit (st : St) (t : Key) (k : Kind) (id : Nat) : St :=
  { value := st.value ++ [id] ++ filled st.pending t k,
    pathed := st.pathed ++ [id] ++ filled st.pending t k,
    inprog := st.inprog.erase t,
    pending := st.pending.filter (·.1 != t) }

/-- `component.Value = nil; component.setRefPath(…)`, then `unvisitRef(t, nil)`: callbacks are dropped without running -/
def unvisitNil (st : St) (t : Key) (id : Nat) : St :=
  { st with pathed := st.pathed ++ [id], inprog := st.inprog.erase t, pending := st.pending.filter (·.1 != t) }

/-- after the chain call on the resolved wrapper `n'` returned `r` -/
def finish (cfg : Cfg) (n' : Node) (kind : Kind) (id : Nat) (t : Key) (r : Res) : Res :=
  match r with
  | .ok s2 =>
    -- `component.Value = resolved.Value`: set iff the resolved wrapper is a value or got its value
    -- (`*pathItem = resolved; unvisitRef(ref, pathItem)`: a path item is never nil here)
    if kind == .pathItem || n'.ref.isNone || s2.value.contains n'.id then
      if callbacksOK cfg s2.pending t kind then .ok (unvisit s2 t kind id) else .panic .assertKind
    else .ok (unvisitNil s2 t id)
  -- `if err == errMUST<kind> { return nil }`: the sentinel of THIS resolver's kind — raised by the resolved
  -- wrapper itself or by any wrapper of the same kind below it — is swallowed: no value, no location, no
  -- unvisit. `resolvePathItemRef` returns every error of its recursive call as it is.
  -- Since 3c3716e only `&& resolved.isEmpty()`: the resolved wrapper itself is the empty one.
  | .errMust k s2 => if k == kind && kind != .pathItem && (!cfg.swallowOnlyEmpty || n'.empty) then .ok s2 else .errMust k s2
  | r => r

/-- after the children of a single-file element were walked -/
def finishSingle (cfg : Cfg) (kind : Kind) (id : Nat) (t : Key) (r : Res) : Res :=
  match r with
  | .ok s2 => if callbacksOK cfg s2.pending t kind then .ok (unvisit s2 t kind id) else .panic .assertKind
  | r => r

def resolve (cfg : Cfg) (w : World) : Nat → Node → St → Res
  | 0, _, _ => .outOfFuel
  | fuel + 1, .mk id doc kind ref empty kids, st =>
    if empty then .errMust kind st
    else match ref with
      | none => stepKids (resolve cfg w fuel) kids st
      | some t =>
        let key := keyOf cfg kind t
        if st.value.contains id then .ok st
        else if st.inprog.contains key then .ok { st with pending := st.pending ++ [(key, kind, id)] }
        else
          let st1 := { st with inprog := st.inprog ++ [key] }
          match w.target doc t kind with
          | .err => .err
          | .nilPtr => .panic .typedNil
          | .drillPanic => .panic .drill
          | .single n' =>
            -- the element is decoded into the component itself; its children are walked by this call. A path
            -- item file that is itself a reference is resolved first (376b90f: the recursive call on `&p`)
            if kind == .pathItem && n'.ref.isSome then
              finish cfg (n'.copyAs (copyId id n'.id)) kind id key (resolve cfg w fuel (n'.copyAs (copyId id n'.id)) st1)
            else finishSingle cfg kind id key (stepKids (resolve cfg w fuel) n'.kids st1)
          | .wrapper n' =>
            -- `setPathRef(cursor)`: the target wrapper itself gets its location
            let st2 : St := { st1 with pathed := st1.pathed ++ [n'.id] }
            -- the copy of an already resolved wrapper has its value: the chain call returns at once
            if st2.value.contains n'.id then finishSingle cfg kind id key (.ok st2)
            else finish cfg (n'.copyAs (copyId id n'.id)) kind id key (resolve cfg w fuel (n'.copyAs (copyId id n'.id)) st2)
          | .raw n' => finish cfg (n'.copyAs (copyId id n'.id)) kind id key (resolve cfg w fuel (n'.copyAs (copyId id n'.id)) st1)

/-- `ResolveRefsIn`: the component maps in the code's order, then the path items -/
def load (cfg : Cfg) (w : World) (fuel : Nat) (roots : List Node) : Res :=
  stepKids (resolve cfg w fuel) roots St.init

/-- the property on one outcome: the loader returned a document or an error -/
def Res.normal : Res → Bool
  | .ok _ => true | .errMust _ _ => true | .err => true | .panic _ => false | .outOfFuel => false

/-! ### hypotheses of the theorems -/

def Tgt.node? : Tgt → Option Node
  | .wrapper n => some n | .raw n => some n | .single n => some n | _ => none

def Tgt.panics : Tgt → Bool
  | .nilPtr => true | .drillPanic => true | _ => false

/-- every assertion in a backtrack callback has the comma-ok form -/
def Cfg.assertsChecked (cfg : Cfg) : Prop := ∀ k, cfg.assertChecked k = true

/-- no drill-down ends at a typed nil pointer or dereferences nil (proved of the worlds built from
    documents for a configuration with `nilChecked` and `apGuarded`: `LoadDoc.build_noNilTarget`) -/
def NoNilTarget (w : World) : Prop := ∀ d t k, (w.target d t k).panics = false

/-- well-formedness used by the termination bound: `target` is an error outside `texts`,
    and every node a text resolves to has size at most `S` -/
def Bounded (w : World) (S : Nat) : Prop :=
  (∀ d t k, t ∉ w.texts → w.target d t k = .err) ∧ ∀ d t k n, (w.target d t k).node? = some n → n.size ≤ S

def allKinds : List Kind := [.header, .parameter, .requestBody, .response, .schema, .securityScheme, .example, .callback, .link, .pathItem]

/-- every key a text of the world can be in progress under -/
def World.keys (w : World) : List Key := (none :: allKinds.map some).flatMap (fun ok => w.texts.map (fun t => (ok, t)))

def fresh (w : World) (st : St) : Nat := (w.keys.filter (fun t => !st.inprog.contains t)).length

/-! ### cycle-guarded descent: `(*Schema).validate` with its threaded stack -/

/-- schema objects are numbered; `g i` = the schemas the validation of `i` descends into, in order -/
abbrev Graph := Nat → List Nat

def foldKids (f : Nat → List Nat → Option (List Nat)) : List Nat → List Nat → Option (List Nat)
  | [], stack => some stack
  | c :: cs, stack => match f c stack with | none => none | some s' => foldKids f cs s'

/-- `validate(ctx, stack)`: `none` = out of fuel. The stack is returned and threaded through the siblings. -/
def validate (g : Graph) : Nat → Nat → List Nat → Option (List Nat)
  | 0, _, _ => none
  | fuel + 1, i, stack =>
    if stack.contains i then some stack
    else foldKids (validate g fuel) (g i) (stack ++ [i])

/-- the same descent when the edges in `fresh` start from an empty stack (`v.Validate(ctx)` instead of
    `v.validate(ctx, stack)`) — what the table obligation `validateEdges_thread_stack` rules out -/
def validateDropping (g : Graph) (dropped : Nat → Nat → Bool) : Nat → Nat → List Nat → Option (List Nat)
  | 0, _, _ => none
  | fuel + 1, i, stack =>
    if stack.contains i then some stack
    else foldKids (fun c s => if dropped i c then (validateDropping g dropped fuel c []).map (fun _ => s)
                              else validateDropping g dropped fuel c s) (g i) (stack ++ [i])

def unvisitedCount (nodes stack : List Nat) : Nat := (nodes.filter (fun i => !stack.contains i)).length

/-! ### partly guarded descent: `InternalizeRefs`

`derefSchema`, `derefHeaders` and `derefPaths` consult a visited set (`isVisitedSchema`, `isVisitedHeader`,
`isVisitedPathItem`, the last one since 1c81ad5); the other `deref…` functions do not. Objects are numbered;
`guarded i` says whether the function entered for object `i` consults its visited set. -/

/-- `none` = out of fuel; the visited set is global (threaded through everything) -/
def gdescend (g : Graph) (guarded : Nat → Bool) : Nat → Nat → List Nat → Option (List Nat)
  | 0, _, _ => none
  | fuel + 1, i, vis =>
    if guarded i then
      (if vis.contains i then some vis else foldKids (gdescend g guarded fuel) (g i) (vis ++ [i]))
    else foldKids (gdescend g guarded fuel) (g i) vis

/-- along every edge out of an unguarded object the rank decreases (the unguarded `deref…` functions call
    each other without a cycle: table obligation `deref_cycles_guarded`) -/
def UnguardedRanked (g : Graph) (guarded : Nat → Bool) (rank : Nat → Nat) : Prop :=
  ∀ i, guarded i = false → ∀ c ∈ g i, rank c < rank i

/-- is the directed graph `edges` acyclic? (Kahn: repeatedly drop the vertices without outgoing edge) -/
def acyclicB (edges : List (String × String)) : Bool :=
  let step (es : List (String × String)) : List (String × String) :=
    es.filter (fun e => es.any (fun f => f.1 == e.2))
  (List.range (edges.length + 1)).foldl (fun es _ => step es) edges == []

/-! ### unguarded descents: `IsEmpty`, `visitJSON` through compositions, `derefPaths` -/

def allKids (f : Nat → Option Bool) : List Nat → Option Bool
  | [] => some true
  | c :: cs => match f c with | none => none | some false => some false | some true => allKids f cs

/-- a recursion that follows `g` without a visited set; `stop i` = the node answers without descending
    (`IsEmpty`: the schema has a keyword of its own). `none` = out of fuel. -/
def descend (g : Graph) (stop : Nat → Bool) : Nat → Nat → Option Bool
  | 0, _ => none
  | fuel + 1, i => if stop i then some false else allKids (descend g stop fuel) (g i)

/-- exclusion for the unguarded descents: a rank that decreases along every edge out of a non-stopping node -/
def Ranked (g : Graph) (stop : Nat → Bool) (rank : Nat → Nat) : Prop :=
  ∀ i, stop i = false → ∀ c ∈ g i, rank c < rank i

end KinModel.LoadSafety
