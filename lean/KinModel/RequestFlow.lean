/-
Model of openapi3filter.ValidateRequest's orchestration, opened (openapi3filter/validate_request.go: `ValidateRequest`,
`ValidateSecurityRequirements`, `validateSecurityRequirement`; openapi3/parameter.go: `Parameters.GetByInAndName`).

The model is an INTERPRETER (`runRequest`, `runSecAll`, `runOne`, `runLookup`) of four small step programs
(`thePrograms`); `Props/C07Flow.lean` proves by `decide` that these programs are, row by row, the table `Gen.C07Flow`
regenerated from the working tree on every run (go/cmd/extract/c07flow.go), and — for every operation, option set and
callback — that running them equals the direct, loop-free formulation below (`validateRequestD`).

What the programs say (and the interpreter executes statement by statement):
  * security list = operation's list if the operation has one (even an empty one), else the document's; an empty list
    passes without any call; otherwise requirements are tried in order (`continue` on failure), the first satisfied one
    wins; inside one requirement: an empty requirement passes at once, scheme names sorted,
    `Options.AuthenticationFunc == nil` fails the requirement, an undeclared scheme fails it without calling the callback, the callback receives
    (scheme name, the declared scheme, the scopes this requirement lists for it), the first failing call ends the
    requirement;
  * path-level parameters in document order; `continue` past query parameters when ExcludeRequestQueryParams is set and
    past those for which `operationParameters.GetByInAndName(parameter.In, parameter.Name)` finds an operation parameter
    (first entry with that name and location);
  * operation parameters in document order, `continue` past query parameters when ExcludeRequestQueryParams is set;
  * request body when declared and not ExcludeRequestBody;
  * the error of a step: returned at once in fail-first mode, appended to the MultiError otherwise; `if len(me) > 0
    { return me }` at the end.
What is abstracted: the verdict of ValidateParameter / ValidateRequestBody for this request (`Param.ok`, `Op.bodyOK`;
`ParamFacts` / `BodyFacts` below open them one level: required / sent / valid / media type declared), the verdict of the
authentication callback per (scheme, scopes) (`Env.auth`), reading the request body into memory (never fails).

`KinModel/Request.lean` keeps the first, closed formulation of the same code (requirements as lists of scheme names, a
callback that is always present, a parameter list that is never nil): property C14 composes with it. It is an instance
of this model (`Props/C07Flow.lean`: `legacy_model_is_instance`). The basic types `In`, `Param`, `Opts`, `Part` and the
predicates `overridden`, `skipQuery` are shared.
-/
import KinModel.Request
namespace KinModel.RequestFlow
open KinModel.Request (In Param Opts Part overridden skipQuery)

/-- the Go string constants `openapi3.ParameterInPath` … -/
def locStr : In → String
  | .path => "path" | .query => "query" | .header => "header" | .cookie => "cookie"

/-- one entry of a security requirement object: scheme name ↦ scopes -/
structure SchemeUse where
  scheme : String
  scopes : List String
  deriving DecidableEq, Repr

abbrev Requirement := List SchemeUse

structure Op where
  /-- `operation.Parameters`; `none` = a nil slice -/
  opParams    : Option (List Param)
  pathParams  : List Param
  /-- `operation.Security`; `none` = absent, `some []` = `security: []` -/
  opSecurity  : Option (List Requirement)
  docSecurity : List Requirement
  hasBody     : Bool
  bodyOK      : Bool

/-- what the security check sees besides the lists: which schemes `components.securitySchemes` declares, and the
authentication callback (`none` = `Options.AuthenticationFunc == nil`) as a function of (scheme name, scopes) -/
structure Env where
  declared : String → Bool
  auth     : Option (String → List String → Bool)

/-- one call received by the callback: index of the requirement (in the applicable list) it was made for, the
scheme name, the scopes handed over -/
structure AuthCall where
  req    : Nat
  scheme : String
  scopes : List String
  deriving DecidableEq, Repr

/-- what `ValidateRequest` returns: nil, one bare error, a MultiError; `stuck` = the program is not a Go function the
interpreter understands (never produced by `thePrograms`) -/
inductive Res | ok | single (p : Part) | multi (ps : List Part) | stuck
  deriving DecidableEq, Repr

def Res.isOk : Res → Bool | .ok => true | _ => false

def Res.parts : Res → List Part
  | .ok => [] | .single p => [p] | .multi ps => ps | .stuck => []

/-! ### The step programs -/

inductive Src | pathItem | operation
  deriving DecidableEq, Repr
inductive SecSrc | operation | document
  deriving DecidableEq, Repr
inductive Field | loc | name
  deriving DecidableEq, Repr
inductive Exit | cont | brk
  deriving DecidableEq, Repr
/-- the error handler of a step -/
inductive ErrAct
  | retUnlessMulti   -- if !options.MultiError { return err }; me = append(me, err)
  | ret              -- return err
  | append           -- me = append(me, err)
  deriving DecidableEq, Repr

inductive Guard
  /-- `if options.ExcludeRequestQueryParams && p.In == openapi3.ParameterInQuery { exit }` -/
  | exQuery (exit : Exit)
  /-- `[if L != nil {] if override := L.GetByInAndName(a1, a2); override != nil { exit } [}]` -/
  | overridden (list : Src) (nilGuarded : Bool) (arg1 arg2 : Field) (exit : Exit)
  deriving DecidableEq, Repr

inductive BodyCond | declared | notExcluded
  deriving DecidableEq, Repr

/-- `ValidateRequest` -/
inductive ReqStep
  | optionsDefault
  | security (first fallback : SecSrc) (h : ErrAct)
  | paramLoop (src : Src) (guards : List Guard) (h : ErrAct)
  | body (conds : List BodyCond) (h : ErrAct)
  | retMeIfAny
  | retNil
  deriving DecidableEq, Repr

/-- `ValidateSecurityRequirements` -/
inductive SecStep | emptyOk | tryEach (onFail : Exit) | failAll
  deriving DecidableEq, Repr

/-- the body of the loop over the scheme names of one requirement; `callAuth none` = `return err` -/
inductive NameStep | lookupScheme | undeclaredFails | scopesOf | bodyIO | callAuth (onErr : Option Exit)
  deriving DecidableEq, Repr

/-- `validateSecurityRequirement` -/
inductive OneStep
  /-- `if len(securityRequirement) == 0 { return nil }` (the repair of F-C07-1) -/
  | emptyReqOk
  | sortedNames | optionsDefault | needAuthFunc | schemesFromComponents | bodyIO
  | forNames (steps : List NameStep) | retNil
  deriving DecidableEq, Repr

/-- `Parameters.GetByInAndName(p0, p1)`: `findFirst [(f, k), …]` returns the first entry whose field `f` equals
argument number `k`, for all listed pairs -/
inductive LookStep | findFirst (conds : List (Field × Nat)) | retNil
  deriving DecidableEq, Repr

structure Programs where
  request : List ReqStep
  secAll  : List SecStep
  secOne  : List OneStep
  lookup  : List LookStep
  deriving DecidableEq, Repr

/-- the programs the model runs: the code of the repository (`Props/C07Flow.lean`: `programs_are_source`) -/
def thePrograms : Programs where
  request := [
    .optionsDefault,
    .security .operation .document .retUnlessMulti,
    .paramLoop .pathItem [.exQuery .cont, .overridden .operation true .loc .name .cont] .retUnlessMulti,
    .paramLoop .operation [.exQuery .cont] .retUnlessMulti,
    .body [.declared, .notExcluded] .retUnlessMulti,
    .retMeIfAny,
    .retNil ]
  secAll := [.emptyOk, .tryEach .cont, .failAll]
  secOne := [
    .emptyReqOk, .sortedNames, .optionsDefault, .needAuthFunc, .schemesFromComponents, .bodyIO,
    .forNames [.lookupScheme, .undeclaredFails, .scopesOf, .bodyIO, .callAuth none],
    .retNil ]
  lookup := [.findFirst [(.name, 1), (.loc, 0)], .retNil]

/-! ### Interpreter: `Parameters.GetByInAndName` -/

def fieldOf (p : Param) : Field → String
  | .loc => locStr p.loc
  | .name => p.name

def nthArg : List String → Nat → Option String
  | [], _ => none
  | a :: _, 0 => some a
  | _ :: r, n + 1 => nthArg r n

def entryMatches (conds : List (Field × Nat)) (args : List String) (q : Param) : Bool :=
  conds.all (fun c => nthArg args c.2 == some (fieldOf q c.1))

/-- `some true` = an entry was returned, `some false` = nil was returned, `none` = stuck -/
def runLookup : List LookStep → List Param → List String → Option Bool
  | [], _, _ => none
  | .findFirst cs :: rest, l, args => if l.any (entryMatches cs args) then some true else runLookup rest l args
  | .retNil :: _, _, _ => some false

/-! ### Interpreter: `validateSecurityRequirement` -/

/-- insertion into a list sorted by scheme name (structural, so that `decide` can evaluate concrete instances) -/
def insertUse (u : SchemeUse) : List SchemeUse → List SchemeUse
  | [] => [u]
  | x :: xs => if u.scheme ≤ x.scheme then u :: x :: xs else x :: insertUse u xs

/-- `sort.Strings(names)` -/
def sortUses (r : Requirement) : List SchemeUse := r.foldr insertUse []

inductive NameFlow
  | next (log : List AuthCall)        -- the loop body ended (or `continue`)
  | exitLoop (log : List AuthCall)    -- `break`
  | ret (ok : Bool) (log : List AuthCall)
  | stuck

/-- the loop body for the scheme use `u` of requirement number `k`; `sch` = the variable `securityScheme` (declared?)
once looked up, `sc` = the variable `scopes` once bound -/
def runName (env : Env) (k : Nat) (u : SchemeUse) :
    List NameStep → Option Bool → Option (List String) → List AuthCall → NameFlow
  | [], _, _, log => .next log
  | .lookupScheme :: r, _, sc, log => runName env k u r (some (env.declared u.scheme)) sc log
  | .undeclaredFails :: r, sch, sc, log =>
    match sch with
    | none => .stuck
    | some d => if d then runName env k u r sch sc log else .ret false log
  | .scopesOf :: r, sch, _, log => runName env k u r sch (some u.scopes) log
  | .bodyIO :: r, sch, sc, log => runName env k u r sch sc log
  | .callAuth e :: r, sch, sc, log =>
    match sch, sc, env.auth with
    | some _, some scopes, some a =>
      if a u.scheme scopes then runName env k u r sch sc (log ++ [⟨k, u.scheme, scopes⟩])
      else match e with
        | none => .ret false (log ++ [⟨k, u.scheme, scopes⟩])
        | some .cont => .next (log ++ [⟨k, u.scheme, scopes⟩])
        | some .brk => .exitLoop (log ++ [⟨k, u.scheme, scopes⟩])
    | _, _, _ => .stuck

/-- `for _, name := range names { steps }` -/
def runNames (env : Env) (k : Nat) (steps : List NameStep) : List SchemeUse → List AuthCall → NameFlow
  | [], log => .next log
  | u :: us, log =>
    match runName env k u steps none none log with
    | .next log' => runNames env k steps us log'
    | .exitLoop log' => .next log'
    | .ret b log' => .ret b log'
    | .stuck => .stuck

inductive OneOut | ret (ok : Bool) (log : List AuthCall) | stuck

def runOne (env : Env) (k : Nat) : List OneStep → List SchemeUse → List AuthCall → OneOut
  | [], _, _ => .stuck
  | .emptyReqOk :: r, names, log => if names.isEmpty then .ret true log else runOne env k r names log
  | .sortedNames :: r, names, log => runOne env k r (sortUses names) log
  | .optionsDefault :: r, names, log => runOne env k r names log
  | .needAuthFunc :: r, names, log => if env.auth.isNone then .ret false log else runOne env k r names log
  | .schemesFromComponents :: r, names, log => runOne env k r names log
  | .bodyIO :: r, names, log => runOne env k r names log
  | .forNames steps :: r, names, log =>
    match runNames env k steps names log with
    | .next log' => runOne env k r names log'
    | .exitLoop log' => runOne env k r names log'
    | .ret b log' => .ret b log'
    | .stuck => .stuck
  | .retNil :: _, _, log => .ret true log

/-! ### Interpreter: `ValidateSecurityRequirements` -/

inductive EachFlow | retOk (log : List AuthCall) | fell (log : List AuthCall) | stuck

/-- `for _, sr := range srs { if err := validateSecurityRequirement(…, sr); err != nil { …; exit }; return nil }` -/
def runEach (one : List OneStep) (env : Env) (onFail : Exit) : List Requirement → Nat → List AuthCall → EachFlow
  | [], _, log => .fell log
  | r :: rs, k, log =>
    match runOne env k one r log with
    | .ret true log' => .retOk log'
    | .ret false log' => (match onFail with | .cont => runEach one env onFail rs (k + 1) log' | .brk => .fell log')
    | .stuck => .stuck

def runSecAll (one : List OneStep) (env : Env) : List SecStep → List Requirement → List AuthCall → OneOut
  | [], _, _ => .stuck
  | .emptyOk :: r, reqs, log => if reqs.isEmpty then .ret true log else runSecAll one env r reqs log
  | .tryEach e :: r, reqs, log =>
    match runEach one env e reqs 0 log with
    | .retOk log' => .ret true log'
    | .fell log' => runSecAll one env r reqs log'
    | .stuck => .stuck
  | .failAll :: _, _, log => .ret false log

/-! ### Interpreter: `ValidateRequest` -/

def secOf (op : Op) : SecSrc → Option (List Requirement)
  | .operation => op.opSecurity
  | .document => some op.docSecurity

/-- `security := A; if security == nil { security = &B }` (a nil pointer skips the check like an empty list) -/
def secSelect (op : Op) (first fallback : SecSrc) : List Requirement :=
  match secOf op first with
  | some l => l
  | none => (secOf op fallback).getD []

def listOf (op : Op) : Src → Option (List Param)
  | .pathItem => some op.pathParams
  | .operation => op.opParams

inductive Flow | go (me : List Part) | done (r : Res)

def handle (multi : Bool) : ErrAct → Part → List Part → Flow
  | .retUnlessMulti, p, me => if multi then .go (me ++ [p]) else .done (.single p)
  | .ret, p, _ => .done (.single p)
  | .append, p, me => .go (me ++ [p])

inductive Skip | no | cont | brk | stuck
  deriving DecidableEq, Repr

def exitSkip : Exit → Skip | .cont => .cont | .brk => .brk

def evalGuard (look : List LookStep) (o : Opts) (op : Op) (p : Param) : Guard → Skip
  | .exQuery e => if o.excludeQuery && p.loc = In.query then exitSkip e else .no
  | .overridden l ng a1 a2 e =>
    match listOf op l with
    | none => if ng then .no else
        (match runLookup look [] [fieldOf p a1, fieldOf p a2] with
         | none => .stuck | some true => exitSkip e | some false => .no)
    | some lst =>
        (match runLookup look lst [fieldOf p a1, fieldOf p a2] with
         | none => .stuck | some true => exitSkip e | some false => .no)

def evalGuards (look : List LookStep) (o : Opts) (op : Op) (p : Param) : List Guard → Skip
  | [] => .no
  | g :: gs =>
    match evalGuard look o op p g with
    | .no => evalGuards look o op p gs
    | .cont => .cont
    | .brk => .brk
    | .stuck => .stuck

/-- `for _, p := range L { guards; if err := ValidateParameter(…, p); err != nil { handler } }` -/
def runLoop (look : List LookStep) (o : Opts) (op : Op) (guards : List Guard) (h : ErrAct) :
    List Param → List Part → Flow
  | [], me => .go me
  | p :: ps, me =>
    match evalGuards look o op p guards with
    | .cont => runLoop look o op guards h ps me
    | .brk => .go me
    | .stuck => .done .stuck
    | .no =>
      if p.ok then runLoop look o op guards h ps me
      else match handle o.multiError h (.param p) me with
        | .go me' => runLoop look o op guards h ps me'
        | .done r => .done r

def evalBodyCond (o : Opts) (op : Op) : BodyCond → Bool
  | .declared => op.hasBody
  | .notExcluded => !o.excludeBody

/-- (result, calls received by the authentication callback) -/
def runRequest (pr : Programs) (o : Opts) (op : Op) (env : Env) :
    List ReqStep → List Part → List AuthCall → Res × List AuthCall
  | [], _, log => (.stuck, log)
  | .optionsDefault :: r, me, log => runRequest pr o op env r me log
  | .security f fb h :: r, me, log =>
    match runSecAll pr.secOne env pr.secAll (secSelect op f fb) log with
    | .stuck => (.stuck, log)
    | .ret true log' => runRequest pr o op env r me log'
    | .ret false log' =>
      (match handle o.multiError h .security me with
       | .go me' => runRequest pr o op env r me' log'
       | .done res => (res, log'))
  | .paramLoop src gs h :: r, me, log =>
    (match runLoop pr.lookup o op gs h ((listOf op src).getD []) me with
     | .go me' => runRequest pr o op env r me' log
     | .done res => (res, log))
  | .body conds h :: r, me, log =>
    if conds.all (evalBodyCond o op) && !op.bodyOK then
      (match handle o.multiError h .body me with
       | .go me' => runRequest pr o op env r me' log
       | .done res => (res, log))
    else runRequest pr o op env r me log
  | .retMeIfAny :: r, me, log => if me.isEmpty then runRequest pr o op env r me log else (.multi me, log)
  | .retNil :: _, _, log => (.ok, log)

/-- **the model of `openapi3filter.ValidateRequest`**: the meaning of the programs read from the source -/
def validateRequest (o : Opts) (op : Op) (env : Env) : Res :=
  (runRequest thePrograms o op env thePrograms.request [] []).1

/-- the calls the authentication callback receives during the whole validation, in order -/
def authLog (o : Opts) (op : Op) (env : Env) : List AuthCall :=
  (runRequest thePrograms o op env thePrograms.request [] []).2

/-! ### The same behaviour, loop-free (proved equal to the interpreter in `Lemmas/C07.lean`: `run_eq_direct`) -/

/-- one requirement (names already sorted): (verdict, authentication calls made) -/
def runReq (declared : String → Bool) (a : String → List String → Bool) (k : Nat) :
    List SchemeUse → Bool × List AuthCall
  | [] => (true, [])
  | u :: rest =>
    if !declared u.scheme then (false, [])
    else if !a u.scheme u.scopes then (false, [⟨k, u.scheme, u.scopes⟩])
    else let (b, l) := runReq declared a k rest; (b, ⟨k, u.scheme, u.scopes⟩ :: l)

/-- the requirement list from index `k` on: (verdict, authentication calls made) -/
def runReqs (declared : String → Bool) (a : String → List String → Bool) : Nat → List Requirement → Bool × List AuthCall
  | _, [] => (false, [])
  | k, r :: rest =>
    let (b, l) := runReq declared a k (sortUses r)
    if b then (true, l) else let (b', l') := runReqs declared a (k + 1) rest; (b', l ++ l')

def securityList (op : Op) : List Requirement :=
  match op.opSecurity with | some rs => rs | none => op.docSecurity

def runSecurity (env : Env) (op : Op) : Bool × List AuthCall :=
  match securityList op with
  | [] => (true, [])
  | rs =>
    match env.auth with
    | none => (rs.any (·.isEmpty), [])
    | some a => runReqs env.declared a 0 rs

def opList (op : Op) : List Param := op.opParams.getD []

/-- the parameters handed to ValidateParameter, in the order of the calls -/
def visitedParams (o : Opts) (op : Op) : List Param :=
  (op.pathParams.filter (fun p => !skipQuery o p && !overridden (opList op) p)) ++
  ((opList op).filter (fun p => !skipQuery o p))

def bodyChecked (o : Opts) (op : Op) : Bool := op.hasBody && !o.excludeBody

/-- the failing parts in the order the code meets them -/
def failing (o : Opts) (op : Op) (env : Env) : List Part :=
  (if (runSecurity env op).1 then [] else [Part.security]) ++
  ((visitedParams o op).filter (fun p => !p.ok)).map Part.param ++
  (if bodyChecked o op && !op.bodyOK then [Part.body] else [])

/-- nil when nothing failed; otherwise all failing parts (multi-error) or the first one -/
def finish (multi : Bool) : List Part → Res
  | [] => .ok
  | p :: ps => if multi then .multi (p :: ps) else .single p

def validateRequestD (o : Opts) (op : Op) (env : Env) : Res := finish o.multiError (failing o op env)

def authLogD (env : Env) (op : Op) : List AuthCall := (runSecurity env op).2

/-! ### Specification (written from the property text, independent of the control flow above) -/

/-- a scheme use is accepted: the scheme exists and the callback — when there is one — accepts (name, scopes) -/
def accepted (env : Env) (u : SchemeUse) : Bool :=
  env.declared u.scheme && (match env.auth with | some a => a u.scheme u.scopes | none => false)

def effective (o : Opts) (op : Op) : List Param :=
  (opList op ++ op.pathParams.filter (fun p => !overridden (opList op) p)).filter
    (fun p => !(o.excludeQuery && p.loc = In.query))

def SecSpec (env : Env) (op : Op) : Prop :=
  securityList op = [] ∨ ∃ r ∈ securityList op, ∀ u ∈ r, accepted env u = true

/-- executable twin of `SecSpec` (used by the driver as the oracle) -/
def secSpecB (env : Env) (op : Op) : Bool :=
  (securityList op).isEmpty || (securityList op).any (fun r => r.all (accepted env))

def Accept (o : Opts) (op : Op) (env : Env) : Prop :=
  SecSpec env op ∧ (∀ p ∈ effective o op, p.ok = true) ∧
  (op.hasBody = true → o.excludeBody = false → op.bodyOK = true)

def acceptB (o : Opts) (op : Op) (env : Env) : Bool :=
  secSpecB env op && (effective o op).all (·.ok) && (!(op.hasBody && !o.excludeBody) || op.bodyOK)

/-- the failing parts as the property describes them (a set; order irrelevant) -/
def failingSpec (o : Opts) (op : Op) (env : Env) : List Part :=
  (if secSpecB env op then [] else [Part.security]) ++
  ((effective o op).filter (fun p => !p.ok)).map Part.param ++
  (if op.hasBody && !o.excludeBody && !op.bodyOK then [Part.body] else [])

/-! ### One level below the bits: what the request carries for a parameter / as a body

The driver computes `Param.ok` and `Op.bodyOK` from these facts; the correspondence run builds documents and
requests that realise each combination. -/

structure ParamFacts where
  required : Bool
  /-- the request carries a value for the parameter -/
  sent     : Bool
  /-- the value sent satisfies the parameter's schema -/
  valid    : Bool
  deriving DecidableEq, Repr

/-- `ValidateParameter`'s decision at this level: absent → fails iff required; present → the schema decides -/
def ParamFacts.ok (f : ParamFacts) : Bool := if f.sent then f.valid else !f.required

/-- the property's reading: a parameter validates iff what is sent is valid and what is required is sent -/
def ParamFacts.Validates (f : ParamFacts) : Prop := (f.sent = true → f.valid = true) ∧ (f.required = true → f.sent = true)

structure BodyFacts where
  required : Bool
  /-- the request has a non-empty body -/
  sent     : Bool
  /-- the request's Content-Type selects a media type of the declaration -/
  declaredType : Bool
  /-- the decoded body satisfies that media type's schema -/
  valid    : Bool
  deriving DecidableEq, Repr

/-- `ValidateRequestBody`'s decision at this level -/
def BodyFacts.ok (f : BodyFacts) : Bool := if f.sent then f.declaredType && f.valid else !f.required

def BodyFacts.Validates (f : BodyFacts) : Prop :=
  (f.sent = true → f.declaredType = true ∧ f.valid = true) ∧ (f.required = true → f.sent = true)

end KinModel.RequestFlow
