/-
C15 — slices of the shared document: aliasing through spare capacity.

A Go slice is a header (pointer, len, cap) over a backing array. `append(s, v…)` stores the new elements IN the
backing array of `s` when `len s + n ≤ cap s`, and only otherwise allocates a new array (Go spec "Appending to and
copying slices", runtime.growslice). A slice of a loaded document is shared by every validation; if a validation
appends to it — even into a local variable — and the slice has spare capacity, the store goes into memory that every
other validation of the same document can reach through the same append: a data race, and the elements one call put
there are replaced by another call's.

Whether a document slice has spare capacity is decided by the decoder: encoding/json grows the slice one element at
a time (`reflect.Value.Grow(1)`, i.e. the append growth rule: 0 → 1 → 2 → 4 → 8 → …, exact for pointer-sized
elements up to 256), so a list of 3, 5–7, 9–15, … elements ends up with cap > len. `decodedCap` is that rule; the
correspondence run compares it with `cap(PathItem.Parameters)` of every loaded document.
-/
import KinModel.Conc
namespace KinModel.Conc

/-- a slice header: the elements are indices 0 … len-1 of a backing array of `cap` elements; the backing array
    itself is a map `arr : Nat → Cell` from index to cell of the store -/
structure Hdr where
  len : Nat
  cap : Nat
  deriving DecidableEq, Repr

def writesFrom (arr : Nat → Cell) (j : Nat) : List Val → List Act
  | [] => []
  | v :: vs => Act.write (arr j) v :: writesFrom arr (j + 1) vs

def readsFrom (arr : Nat → Cell) (j : Nat) : Nat → List Act
  | 0 => []
  | n + 1 => Act.read (arr j) :: readsFrom arr (j + 1) n

/-- shared-memory footprint of `append(s, vs…)` for a slice `s` with header `h` over the shared array `arr`:
    nothing to append → nothing; enough capacity → plain stores at indices len, len+1, …; otherwise the old
    elements are copied (read) into a new array that only the caller holds. -/
def appendActs (arr : Nat → Cell) (h : Hdr) (vs : List Val) : List Act :=
  if vs = [] then [] else
  if h.len + vs.length ≤ h.cap then writesFrom arr h.len vs else readsFrom arr 0 h.len

/-- `for _, x := range s`: reads the first `n` elements -/
def rangeActs (arr : Nat → Cell) (n : Nat) : List Act := readsFrom arr 0 n

def isRead : Act → Bool
  | .read _ => true
  | _ => false

/-- capacity of a slice after encoding/json decoded `n` elements into it (append growth rule, small slices) -/
def growOnce (c : Nat) : Nat := if c = 0 then 1 else 2 * c

def decodedCap : Nat → Nat
  | 0 => 0
  | n + 1 => if n < decodedCap n then decodedCap n else growOnce (decodedCap n)

/-- the decoded slice of `n` elements has room for more -/
def spareCap (n : Nat) : Bool := decide (n < decodedCap n)

theorem mem_writesFrom (arr : Nat → Cell) : ∀ (vs : List Val) (j : Nat) (a : Act), a ∈ writesFrom arr j vs →
    ∃ d v, a = .write (arr d) v ∧ j ≤ d ∧ d < j + vs.length
  | [], _, _, h => by simp [writesFrom] at h
  | v :: vs, j, a, h => by
    simp only [writesFrom, List.mem_cons] at h
    rcases h with rfl | h
    · exact ⟨j, v, rfl, Nat.le_refl _, by simp⟩
    · obtain ⟨d, w, rfl, h1, h2⟩ := mem_writesFrom arr vs (j + 1) a h
      exact ⟨d, w, rfl, by omega, by simp only [List.length_cons]; omega⟩

theorem mem_readsFrom (arr : Nat → Cell) : ∀ (n : Nat) (j : Nat) (a : Act), a ∈ readsFrom arr j n →
    ∃ d, a = .read (arr d) ∧ j ≤ d ∧ d < j + n
  | 0, _, _, h => by simp [readsFrom] at h
  | n + 1, j, a, h => by
    simp only [readsFrom, List.mem_cons] at h
    rcases h with rfl | h
    · exact ⟨j, rfl, Nat.le_refl _, by omega⟩
    · obtain ⟨d, rfl, h1, h2⟩ := mem_readsFrom arr n (j + 1) a h
      exact ⟨d, rfl, by omega, by omega⟩

theorem decodedCap_ge : ∀ n, n ≤ decodedCap n
  | 0 => Nat.le_refl _
  | n + 1 => by
    have ih := decodedCap_ge n
    simp only [decodedCap]
    split
    · omega
    · simp only [growOnce]; split <;> omega

/-- encoding/json leaves a list of n ≥ 1 elements in a slice whose capacity is the smallest power of two ≥ n -/
theorem decodedCap_pow2 : ∀ n, 0 < n → ∃ k, decodedCap n = 2 ^ k ∧ n ≤ 2 ^ k ∧ 2 ^ k < 2 * n
  | 0, h => absurd h (by omega)
  | 1, _ => ⟨0, by decide, by decide, by decide⟩
  | n + 2, _ => by
    obtain ⟨k, hk, h1, h2⟩ := decodedCap_pow2 (n + 1) (by omega)
    have hstep : decodedCap (n + 2) = if n + 1 < decodedCap (n + 1) then decodedCap (n + 1) else growOnce (decodedCap (n + 1)) := rfl
    rw [hstep, hk]
    by_cases hlt : n + 1 < 2 ^ k
    · exact ⟨k, by simp [hlt], by omega, by omega⟩
    · refine ⟨k + 1, ?_, ?_, ?_⟩
      · simp [hlt, growOnce, Nat.pow_succ, Nat.mul_comm]
      · rw [Nat.pow_succ]; omega
      · rw [Nat.pow_succ]; omega

end KinModel.Conc
