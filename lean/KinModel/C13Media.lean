/-
C13, part 4 — which schema a request body is validated against, how it is decoded, and whether it can be written back
(openapi3filter/validate_request.go ValidateRequestBody from `content := requestBody.Content` to the default rewrite;
openapi3/content.go Content.Get; openapi3filter/internal.go parseMediaType; the decoder and encoder registries of
req_resp_decoder.go / req_resp_encoder.go).  This is the link between the value layer (C13Body) and the stream
(C13Stream): `bodyOutcome` is the `outcome` argument of `Stream.validateStream`.

Branch by branch:
  * no declared content → the body is not validated;
  * `Content.Get(header)`: the empty header selects "*/*"; otherwise the first of: the header value as it is, the
    header up to the first ';', "<type>/*", "*/*" (no '/' in the media type: nothing);  no match → error;
  * the selected media type has no schema → not validated;
  * decoder: looked up under `parseMediaType(header)` = the header up to the first ';' (no trimming, no case folding);
    JSON decoders are registered for application/json and five "+json" types, a text decoder for text/plain; anything
    else the generator of this check produces has no decoder → error;
  * the decoded value is visited (C13Body.visit); rejected → error;
  * only if defaults were set: the ENCODER is looked up under the same parsed media type — and only application/json
    has one ("rewriting failed" otherwise: finding F-C13-8) — and the re-encoded body is installed.
Parameters of the model: JSON text ↔ value (`parse`, `enc`) — trusted.
Not modelled: the other registered decoders (yaml, form, multipart, csv, zip, octet-stream), custom registrations.
-/
import KinModel.C13Stream
import KinModel.C13Body
namespace KinModel.C13.Media
open Stream Body

/-- the text up to the first `c` -/
def upTo (c : Char) (s : String) : String := String.ofList (s.toList.takeWhile (· != c))

/-- parseMediaType, and the stripping step of Content.Get -/
def base (raw : String) : String := upTo ';' raw

/-- openapi3.Content.Get: the key of the declared media type that is selected -/
def contentGet (declared : List String) (raw : String) : Option String :=
  if raw = "" then (if declared.contains "*/*" then some "*/*" else none)
  else if declared.contains raw then some raw
  else if declared.contains (base raw) then some (base raw)
  else if !(base raw).toList.contains '/' then none
  else if declared.contains (upTo '/' (base raw) ++ "/*") then some (upTo '/' (base raw) ++ "/*")
  else if declared.contains "*/*" then some "*/*" else none

inductive Decoder | json | plain | none
  deriving DecidableEq, Repr

def jsonTypes : List String :=
  ["application/json", "application/json-patch+json", "application/ld+json", "application/hal+json",
   "application/vnd.api+json", "application/problem+json"]

/-- the decoder registry, as far as this check goes -/
def decoderOf (mediaType : String) : Decoder :=
  if jsonTypes.contains mediaType then .json else if mediaType = "text/plain" then .plain else .none

/-- the encoder registry: `bodyEncoders = {"application/json": json.Marshal}` -/
def hasEncoder (mediaType : String) : Bool := mediaType = "application/json"

def schemaOf (key : String) : List (String × Option S) → Option (Option S)
  | [] => none
  | (k, s) :: r => if key = k then some s else schemaOf key r

/-- the decoded value, if the header names a decoder of the fragment -/
def decoded (header : String) (parse : Bytes → Option J) (text : Bytes → J) (data : Bytes) : Option J :=
  match decoderOf (base header) with
  | .json => parse data
  | .plain => some (text data)
  | .none => none

/-- the end of ValidateRequestBody for an accepted value: re-encode only if defaults were set, and only if an
    encoder is registered for the parsed media type ("rewriting failed" otherwise: `rewriteFails`) -/
def finish (c : Ctx) (header : String) (enc : J → Bytes) (v v' : J) : BodyOutcome :=
  if c.setDefaults && !(J.beq v' v) then (if hasEncoder (base header) then .rewrite (enc v') else .rewriteFails) else .accept

/-- Spec (from the property text): an accepted body is forwarded with the defaults of its absent properties -/
def finishSpec (c : Ctx) (enc : J → Bytes) (v v' : J) : BodyOutcome :=
  if c.setDefaults && !(J.beq v' v) then .rewrite (enc v') else .accept

/-- the schema the body is validated against and the decoded value, if it gets that far -/
def selected (declared : List (String × Option S)) (header : String) : Option (Option S) :=
  match contentGet (declared.map (·.1)) header with
  | none => none
  | some key => (match schemaOf key declared with | some (some s) => some (some s) | _ => some none)

/-- what the validation of the body bytes gives: the `outcome` of the stream model -/
def bodyOutcome (c : Ctx) (declared : List (String × Option S)) (header : String)
    (parse : Bytes → Option J) (text : Bytes → J) (enc : J → Bytes) (data : Bytes) : BodyOutcome :=
  if declared.isEmpty then .accept
  else match contentGet (declared.map (·.1)) header with
  | none => .reject
  | some key =>
    match schemaOf key declared with
    | some (some s) =>
      (match decoded header parse text data with
       | none => .reject
       | some v => (match visit c s v with | none => .reject | some v' => finish c header enc v v'))
    | _ => .accept

/-- F-C13-8: the body is decoded by a registered decoder for which no encoder is registered, and defaults have to
    be written: the valid request is rejected ("rewriting failed") instead of being forwarded with its defaults -/
def NoBodyEncoder (c : Ctx) (declared : List (String × Option S)) (header : String)
    (parse : Bytes → Option J) (text : Bytes → J) (data : Bytes) : Bool :=
  c.setDefaults && !hasEncoder (base header) &&
  (match contentGet (declared.map (·.1)) header with
   | some key =>
     (match schemaOf key declared with
      | some (some s) =>
        (match decoded header parse text data with
         | some v => (match visit c s v with | some v' => !(J.beq v' v) | none => false)
         | none => false)
      | _ => false)
   | none => false)

/-- Spec (from the property text): the same selection and validation, and an accepted body is forwarded with the
    defaults of its absent properties — the encoding of the visited value — whatever JSON media type it was sent as. -/
def specOutcome (c : Ctx) (declared : List (String × Option S)) (header : String)
    (parse : Bytes → Option J) (text : Bytes → J) (enc : J → Bytes) (data : Bytes) : BodyOutcome :=
  if declared.isEmpty then .accept
  else match contentGet (declared.map (·.1)) header with
  | none => .reject
  | some key =>
    match schemaOf key declared with
    | some (some s) =>
      (match decoded header parse text data with
       | none => .reject
       | some v => (match visit c s v with | none => .reject | some v' => finishSpec c enc v v'))
    | _ => .accept

end KinModel.C13.Media
