/-
Model of the two routers of kin-openapi (property C09).

routers/legacy (router.go `NewRouter`, `FindRoute`; pathpattern/node.go `CreateNode`, `Match`,
`matchRemaining`; openapi3/server.go `MatchURL`, `MatchRawURL`, `ParameterNames`), branch by branch:
  * keys "METHOD path" are tokenised by `CreateNode` (trailing slashes stripped; "/" tokens, constant runs up
    to the next '/' or '{', `{name}` variables, `{name*}` wildcards) and inserted into a trie whose suffix
    lists are kept sorted (constants first, larger pattern first, then variable, then wildcard);
  * `Match` strips trailing slashes of "METHOD remainingPath" and walks the trie with backtracking,
    including the branch that lets a "/" suffix match exhausted input;
  * server selection: no servers → URL path; otherwise the first document-level server whose URL pattern `MatchRawURL`
    accepts the raw request URL (variables stop at the next pattern character or '/'); path-item level servers are not
    read; the returned `*Route` is a copy of the one stored by NewRouter with `Server` = the matched server;
  * NewRouter `Add`s the keys while ranging over Go maps: the trie is built from an explicit key list (`legacyRootOf`),
    two keys with the same suffix path overwrite each other (last one wins, `keyCollision`);
  * no trie match → literal lookup of the remaining path among the path keys: no such key → path-not-found; key
    without the method → method-not-allowed; key with the method (the request path spells a template that the trie
    does not match, e.g. "/{id}.json") → path-not-found.
routers/gorillamux (router.go `NewRouter`, `makeServers`, `newSrv`, `permutePart`, `FindRoute`;
openapi3/paths.go `InMatchingOrder`):
  * route list = paths in matching order × servers (`gLoop`: the servers are the path item's own, else the document's);
    each route keeps the `*openapi3.Server` it was built for (`SrvRef`); a route matches when path template (base
    path + path), scheme set and host template match; the first such route decides: method declared → a copy of the
    route with that server, else method-not-allowed; no such route → path-not-found;
  * gorilla/mux templates are modelled as anchored regular expressions with `[^/]+` (path) / `[^.]+` (host)
    variables, greedy leftmost-first (longest value first, backtracking).
Abstracted: net/url parsing (requests are given as scheme/host/path of unreserved characters), regexp engine.
-/
namespace KinModel.Router

abbrev Str := List Char

/-! ## strings -/

def takeSeg : Str → Str × Str
  | [] => ([], [])
  | c :: cs => if c = '/' then ([], c :: cs) else ((c :: (takeSeg cs).1), (takeSeg cs).2)

theorem takeSeg_append (s : Str) : (takeSeg s).1 ++ (takeSeg s).2 = s := by
  induction s with
  | nil => rfl
  | cons c cs ih => simp only [takeSeg]; split <;> simp_all

def stripPrefix : Str → Str → Option Str
  | [], s => some s
  | _ :: _, [] => none
  | p :: ps, c :: cs => if p = c then stripPrefix ps cs else none

theorem stripPrefix_some {p s r : Str} (h : stripPrefix p s = some r) : s = p ++ r := by
  induction p generalizing s with
  | nil => simp [stripPrefix] at h; simp [h]
  | cons a as ih =>
    cases s with
    | nil => simp [stripPrefix] at h
    | cons c cs =>
      simp only [stripPrefix] at h
      split at h
      · rename_i e; subst e; simp [ih h]
      · simp at h

theorem stripPrefix_append (p r : Str) : stripPrefix p (p ++ r) = some r := by
  induction p with
  | nil => rfl
  | cons a as ih => simp [stripPrefix, ih]

/-- `for strings.HasSuffix(path, "/") { path = path[:len(path)-1] }` -/
def dropSlashesRev : Str → Str
  | [] => []
  | c :: cs => if c = '/' then dropSlashesRev cs else c :: cs

def stripSlashes (s : Str) : Str := (dropSlashesRev s.reverse).reverse

/-- Go `a < b` on strings (code-point order, which is byte order for UTF-8) -/
def ltStr : Str → Str → Bool
  | [], [] => false
  | [], _ :: _ => true
  | _ :: _, [] => false
  | a :: as, b :: bs => if a.toNat < b.toNat then true else if b.toNat < a.toNat then false else ltStr as bs

/-- index of the first occurrence of a character -/
def indexOf (c : Char) : Str → Option Nat
  | [] => none
  | d :: ds => if d = c then some 0 else (indexOf c ds).map (· + 1)

def isPrefix : Str → Str → Bool
  | [], _ => true
  | _ :: _, [] => false
  | p :: ps, c :: cs => p = c && isPrefix ps cs

/-- `strings.Index(s, pat)` -/
def indexOfStr (pat : Str) : Str → Option Nat
  | [] => if pat = [] then some 0 else none
  | c :: cs => if isPrefix pat (c :: cs) then some 0 else (indexOfStr pat cs).map (· + 1)

/-- `strings.ReplaceAll` for a non-empty pattern -/
def replaceAll (pat rep : Str) : Nat → Str → Str
  | 0, s => s
  | _, [] => []
  | f + 1, c :: cs =>
    if pat ≠ [] ∧ isPrefix pat (c :: cs) then rep ++ replaceAll pat rep f ((c :: cs).drop pat.length)
    else c :: replaceAll pat rep f cs

def replaceAllS (pat rep s : Str) : Str := replaceAll pat rep (s.length + 1) s

def trimSpaces (s : Str) : Str :=
  ((s.dropWhile (· = ' ')).reverse.dropWhile (· = ' ')).reverse

def trimStar (s : Str) : Str :=
  match s.reverse with
  | '*' :: r => r.reverse
  | _ => s

/-- assoc-list write with Go map semantics (last write wins, one entry per key) -/
def mapSet (m : List (Str × Str)) (k v : Str) : List (Str × Str) :=
  (m.filter (fun p => p.1 ≠ k)) ++ [(k, v)]

def mapSetAll (m : List (Str × Str)) (kvs : List (Str × Str)) : List (Str × Str) :=
  kvs.foldl (fun acc p => mapSet acc p.1 p.2) m

/-! ## documents and requests -/

structure SrvVar where
  name : Str
  dflt : Str
  enum : List Str
  deriving DecidableEq, Repr

structure Server where
  url  : Str
  vars : List SrvVar
  deriving DecidableEq, Repr

/-- a path item: template, declared methods, path-item level `servers` (empty = the document's servers apply) -/
structure PathDecl where
  template : Str
  methods  : List Str
  servers  : List Server
  deriving DecidableEq, Repr

structure Doc where
  paths   : List PathDecl
  servers : List Server
  deriving DecidableEq, Repr

/-- a request as the routers see it: `abs` = the request URL is absolute (client style); otherwise only the
    path is in the URL, the host is in `Request.Host` and the scheme is told by the TLS state (server style). -/
structure Req where
  method : Str
  abs    : Bool
  scheme : Str
  host   : Str
  path   : Str
  deriving DecidableEq, Repr

/-- which `*openapi3.Server` a returned `Route.Server` points to: nil, the i-th document-level server, or the i-th
    server of the path item declared under template `t` -/
inductive SrvRef
  | none
  | doc (i : Nat)
  | path (t : Str) (i : Nat)
  deriving DecidableEq, Repr

inductive Outcome
  | route (template : Str) (method : Str) (params : List (Str × Str)) (server : SrvRef)
  | notFound
  | methodNotAllowed
  | panic
  | buildError
  deriving DecidableEq, Repr

/-! ## legacy router: pathpattern trie -/

inductive Suf
  | const (s : Str)
  | var
  | all
  deriving DecidableEq, Repr

/-- tokens of CreateNode, with the variable names it collects -/
inductive Tok
  | const (s : Str)
  | var (name : Str)
  | all (name : Str)
  deriving DecidableEq, Repr

def Tok.suf : Tok → Suf
  | .const s => .const s
  | .var _ => .var
  | .all _ => .all

def Tok.names : List Tok → List Str
  | [] => []
  | .const _ :: r => Tok.names r
  | .var n :: r => n :: Tok.names r
  | .all n :: r => n :: Tok.names r

/-- constant run: up to the next '/' or '{' -/
def takeRun : Str → Str × Str
  | [] => ([], [])
  | c :: cs => if c = '/' ∨ c = '{' then ([], c :: cs) else ((c :: (takeRun cs).1), (takeRun cs).2)

theorem takeRun_append (s : Str) : (takeRun s).1 ++ (takeRun s).2 = s := by
  induction s with
  | nil => rfl
  | cons c cs ih => simp only [takeRun]; split <;> simp_all

theorem takeRun_length (s : Str) : (takeRun s).2.length ≤ s.length := by
  induction s with
  | nil => simp [takeRun]
  | cons c cs ih => simp only [takeRun]; split <;> simp <;> omega

/-- `{name}`: text up to '}' and the rest after it; `none` when '}' is missing -/
def takeBrace : Str → Option (Str × Str)
  | [] => none
  | c :: cs => if c = '}' then some ([], cs) else (takeBrace cs).map (fun p => (c :: p.1, p.2))

theorem takeBrace_length {s n r : Str} (h : takeBrace s = some (n, r)) : r.length < s.length := by
  induction s generalizing n with
  | nil => simp [takeBrace] at h
  | cons c cs ih =>
    simp only [takeBrace] at h
    split at h
    · cases h; simp
    · simp only [Option.map_eq_some_iff] at h
      obtain ⟨⟨a, b⟩, hb, he⟩ := h
      cases he
      have := ih hb
      simp at this ⊢; omega

def isWildcardName (n : Str) : Bool := n.getLast? = some '*'

/-- the token loop of CreateNode (default options: wildcard on, regexp off); `none` = "missing '}'" -/
def tokLoop : Nat → Str → Option (List Tok)
  | 0, _ => none
  | _ + 1, [] => some []
  | f + 1, c :: cs =>
    if c = '/' then (tokLoop f cs).map (Tok.const ['/'] :: ·)
    else if c = '{' then
      match takeBrace cs with
      | none => none
      | some (name, rest) =>
        let n := trimSpaces name
        (tokLoop f rest).map ((if isWildcardName n then Tok.all n else Tok.var n) :: ·)
    else (tokLoop f (takeRun (c :: cs)).2).map (Tok.const (takeRun (c :: cs)).1 :: ·)

/-- CreateNode's view of a key: trailing slashes stripped, then tokenised -/
def tokenize (key : Str) : Option (List Tok) :=
  tokLoop ((stripSlashes key).length + 1) (stripSlashes key)

structure Key where
  method   : Str
  template : Str
  deriving DecidableEq, Repr

def Key.str (k : Key) : Str := k.method ++ ' ' :: k.template
def Key.toks (k : Key) : List Tok := (tokenize k.str).getD []
def Key.sufs (k : Key) : List Suf := k.toks.map Tok.suf

inductive Node where
  | mk (value : Option Key) (sufs : List (Suf × Node))

def sufKind : Suf → Nat
  | .const _ => 0
  | .var => 2
  | .all => 3

def sufPattern : Suf → Str
  | .const s => s
  | _ => []

/-- SuffixList.Less -/
def sufLess (a b : Suf) : Bool :=
  if sufKind a < sufKind b then true
  else if sufKind b < sufKind a then false
  else ltStr (sufPattern b) (sufPattern a)

/-- `append` + `sort.Sort` of a list that was sorted before (the suffixes of a node are pairwise different, so the
    order is total and the result unique) -/
def insSorted (x : Suf × Node) : List (Suf × Node) → List (Suf × Node)
  | [] => [x]
  | y :: ys => if sufLess x.1 y.1 then x :: y :: ys else y :: insSorted x ys

/-- the fresh chain of nodes CreateNode builds for the rest of a key -/
def chain : List Suf → Key → Node
  | [], k => .mk (some k) []
  | t :: ts, k => .mk none [(t, chain ts k)]

def hasSuf (t : Suf) (sufs : List (Suf × Node)) : Bool := sufs.any (fun p => p.1 = t)

mutual
/-- `Add`: CreateNode along the token list, then `node.Value = value` -/
def insertN : Node → List Suf → Key → Node
  | .mk _ sufs, [], k => .mk (some k) sufs
  | .mk v sufs, t :: ts, k =>
    if hasSuf t sufs then .mk v (updL sufs t ts k) else .mk v (insSorted (t, chain ts k) sufs)
def updL : List (Suf × Node) → Suf → List Suf → Key → List (Suf × Node)
  | [], _, _, _ => []
  | (s, child) :: rest, t, ts, k =>
    if s = t then (s, insertN child ts k) :: rest else (s, child) :: updL rest t ts k
end

def emptyNode : Node := .mk none []

def buildFrom (root : Node) (keys : List Key) : Node :=
  keys.foldl (fun n k => insertN n k.sufs k) root

def first (a b : Option α) : Option α := match a with | some x => some x | none => b

def valueOf : Node → Option Key | .mk v _ => v

mutual
/-- Node.matchRemaining -/
def matchN : Node → Str → List Str → Option (Key × List Str)
  | .mk value sufs, rem, vals =>
    match rem, value with
    | [], some v => some (v, vals)
    | _, _ => matchL sufs rem vals
def matchL : List (Suf × Node) → Str → List Str → Option (Key × List Str)
  | [], _, _ => none
  | (suf, child) :: rest, rem, vals =>
    first
      (match suf with
       | .const p =>
         (match stripPrefix p rem with
          | some rem' => matchN child rem' vals
          | none => if rem = [] ∧ p = ['/'] then matchN child rem vals else none)
       | .var => matchN child (takeSeg rem).2 (vals ++ [(takeSeg rem).1])
       | .all => (valueOf child).map (fun v => (v, vals ++ [rem])))
      (matchL rest rem vals)
end

/-- the string a suffix path spells for given variable values -/
def spell : List Suf → List Str → Option Str
  | [], [] => some []
  | [], _ :: _ => none
  | .const p :: r, vs => (spell r vs).map (p ++ ·)
  | .var :: r, v :: vs => (spell r vs).map (v ++ ·)
  | .all :: r, v :: vs => (spell r vs).map (v ++ ·)
  | .var :: _, [] => none
  | .all :: _, [] => none

/-- all (suffix path, value) pairs stored in a trie -/
def consPath (s : Suf) (p : List Suf × Key) : List Suf × Key := (s :: p.1, p.2)

mutual
def pathsN : Node → List (List Suf × Key)
  | .mk v sufs => (match v with | some x => [([], x)] | none => []) ++ pathsL sufs
def pathsL : List (Suf × Node) → List (List Suf × Key)
  | [] => []
  | (s, child) :: rest => (pathsN child).map (consPath s) ++ pathsL rest
end

/-! ### legacy: server selection -/

/-- Server.ParameterNames -/
def paramNames : Nat → Str → List Str
  | 0, _ => []
  | f + 1, pattern =>
    match indexOf '{' pattern with
    | none => []
    | some i =>
      match takeBrace (pattern.drop (i + 1)) with
      | none => []
      | some (n, rest) => trimSpaces n :: paramNames f rest

def optMin : Option Nat → Option Nat → Option Nat
  | none, b => b
  | a, none => a
  | some a, some b => some (min a b)

/-- where the value of a server variable ends: at the next occurrence of the pattern character that follows the variable
    or at the next '/', whichever comes first; at the end of the input if neither occurs -/
def varEnd (pat' input : Str) : Nat :=
  (optMin (match pat' with | [] => none | d :: _ => indexOf d input) (indexOf '/' input)).getD input.length

/-- Server.MatchRawURL -/
def matchRawURL : Nat → Str → Str → List Str → Option (List Str × Str)
  | 0, _, _, _ => none
  | f + 1, pattern, input, params =>
    let finish : Option (List Str × Str) :=
      let input' := if input = [] then ['/'] else input
      if input'.head? = some '/' then some (params, input') else none
    match pattern with
    | [] => finish
    | c :: prest =>
      if prest = [] ∧ c = '/' then finish
      else if c = '{' then
        match takeBrace prest with
        | none => none
        | some (_, pat') =>
          matchRawURL f pat' (input.drop (varEnd pat' input)) (params ++ [input.take (varEnd pat' input)])
      else
        match input with
        | [] => none
        | d :: irest => if d = c then matchRawURL f prest irest params else none

/-- `url.String()` up to the query for the request forms the harness builds -/
def rawURL (r : Req) : Str :=
  if r.abs then r.scheme ++ "://".toList ++ r.host ++ r.path else r.path

/-- Servers.MatchURL: first server that matches (with its index in the list) -/
def matchServersFrom : Nat → List Server → Str → Option (Nat × Server × List Str × Str)
  | _, [], _ => none
  | i, s :: rest, raw =>
    match matchRawURL (s.url.length + 1) s.url raw [] with
    | some (ps, rem) => some (i, s, ps, rem)
    | none => matchServersFrom (i + 1) rest raw

def matchServers (l : List Server) (raw : Str) : Option (Nat × Server × List Str × Str) := matchServersFrom 0 l raw

def docKeys (d : Doc) : List Key :=
  d.paths.flatMap (fun p => p.methods.map (fun m => ⟨m, p.template⟩))

/-- the trie after `Add`ing the keys in the given order. NewRouter ranges over Go maps (`doc.Paths.Map()`,
    `pathItem.Operations()`), so the order is arbitrary: every statement about the legacy router is made for an
    arbitrary rearrangement `ks` of `docKeys d` -/
def legacyRootOf (ks : List Key) : Node := buildFrom emptyNode ks

def legacyRoot (d : Doc) : Node := legacyRootOf (docKeys d)

/-- `root.Match(method + " " + remainingPath)` -/
def legacyMatchOf (ks : List Key) (method rem : Str) : Option (Key × List Str) :=
  matchN (legacyRootOf ks) (stripSlashes (method ++ ' ' :: rem)) []

def legacyMatch (d : Doc) (method rem : Str) : Option (Key × List Str) := legacyMatchOf (docKeys d) method rem

def lookupPath (t : Str) : List PathDecl → Option PathDecl
  | [] => none
  | p :: ps => if p.template = t then some p else lookupPath t ps

/-- server part of legacy FindRoute: (index of the matched document-level server, server parameters, remaining path);
    `none` = no server matches. Path-item level servers are not consulted by this router. -/
def legacyServer (d : Doc) (r : Req) : Option (Option Nat × List (Str × Str) × Str) :=
  if d.servers = [] then some (none, [], r.path)
  else match matchServers d.servers (rawURL r) with
    | none => none
    | some (i, s, vals, rem) => some (some i, (paramNames (s.url.length + 1) s.url).zip vals, rem)

def legacyBuildOK (d : Doc) : Bool := (docKeys d).all (fun k => (tokenize k.str).isSome)

/-- FindRoute of the legacy router on the trie built from `ks`. The returned `*Route` is a copy of the one stored by
    NewRouter whose `Server` is the matched document-level server (nil for a document without servers). -/
def legacyFindOrd (d : Doc) (ks : List Key) (r : Req) : Outcome :=
  if !legacyBuildOK d then .buildError else
  match legacyServer d r with
  | none => .notFound
  | some (si, sp, rem) =>
    match legacyMatchOf ks r.method rem with
    | some (k, vals) =>
      .route k.template k.method (mapSetAll (mapSetAll [] sp) (((Tok.names k.toks).map trimStar).zip vals))
        (match si with | some i => .doc i | none => .none)
    | none =>
      match lookupPath rem d.paths with
      | none => .notFound
      | some pd => if r.method ∈ pd.methods then .notFound else .methodNotAllowed

def legacyFind (d : Doc) (r : Req) : Outcome := legacyFindOrd d (docKeys d) r

/-- two declared keys that CreateNode stores at the same trie node (same method, templates that tokenise to the same
    suffix path: `/a` and `/a/`): the later `Add` overwrites the earlier one, and "later" is a map iteration order -/
def keyCollision (ks : List Key) : Bool :=
  ks.any (fun a => ks.any (fun b => a ≠ b && a.sufs = b.sufs))

/-- NewRouter after the repair proposed for F-C09-7 (repairs/C09/F-C09-7-legacy-key-collision.diff): construction fails
    when an `Add` would land on a node that already holds a route -/
def legacyBuildOKStrict (d : Doc) : Bool := legacyBuildOK d && !keyCollision (docKeys d)

def legacyFindOrdStrict (d : Doc) (ks : List Key) (r : Req) : Outcome :=
  if !legacyBuildOKStrict d then .buildError else legacyFindOrd d ks r

def rotations (l : List α) : List (List α) := (List.range l.length).map (fun j => l.drop j ++ l.take j)

/-- the outcomes FindRoute can have over the insertion orders (every key is inserted last in one rotation, and the
    value of a node is the key that was added last) -/
def legacyFindAll (d : Doc) (r : Req) : List Outcome :=
  ((rotations (docKeys d)).map (fun ks => legacyFindOrd d ks r)).eraseDups

/-! ## gorillamux router -/

inductive GTok
  | lit (c : Char)
  | var (name : Str)
  deriving DecidableEq, Repr

/-- template → tokens; `none`: unbalanced braces, empty name, or a custom pattern (`{name:regexp}`, not modelled) -/
def gparse : Nat → Str → Option (List GTok)
  | 0, _ => none
  | _ + 1, [] => some []
  | f + 1, c :: cs =>
    if c = '{' then
      match takeBrace cs with
      | none => none
      | some (name, rest) =>
        if name = [] ∨ ':' ∈ name ∨ '{' ∈ name then none else (gparse f rest).map (GTok.var name :: ·)
    else if c = '}' then none
    else (gparse f cs).map (GTok.lit c :: ·)

def gparseS (s : Str) : Option (List GTok) := gparse (s.length + 1) s

/-- length of the longest prefix without the stop character -/
def runLen (stop : Char) : Str → Nat
  | [] => 0
  | c :: cs => if c = stop then 0 else runLen stop cs + 1

/-- try value lengths k, k-1, …, 1 (greedy, leftmost-first) -/
def tryLens (cont : Str → Option (List (Str × Str))) (name s : Str) : Nat → Option (List (Str × Str))
  | 0 => none
  | k + 1 =>
    match cont (s.drop (k + 1)) with
    | some b => some ((name, s.take (k + 1)) :: b)
    | none => tryLens cont name s k

/-- anchored match of a template against a string; variable = one or more characters other than `stop` -/
def gmatch (stop : Char) : List GTok → Str → Option (List (Str × Str))
  | [], [] => some []
  | [], _ :: _ => none
  | .lit _ :: _, [] => none
  | .lit c :: ts, d :: s => if c = d then gmatch stop ts s else none
  | .var n :: ts, s => tryLens (fun s' => gmatch stop ts s') n s (runLen stop s)

/-- substitution of a binding (in token order) into a template -/
def gsubst : List GTok → List (Str × Str) → Option Str
  | [], [] => some []
  | [], _ :: _ => none
  | .lit c :: ts, b => (gsubst ts b).map (c :: ·)
  | .var _ :: _, [] => none
  | .var n :: ts, (m, v) :: b => if n = m then (gsubst ts b).map (v ++ ·) else none

def countChar (c : Char) (s : Str) : Nat := (s.filter (· = c)).length

/-- order of Paths.InMatchingOrder: fewer '}' first, then descending string order -/
def pathBefore (a b : Str) : Bool :=
  if countChar '}' a < countChar '}' b then true
  else if countChar '}' b < countChar '}' a then false
  else ltStr b a

def insPath (x : PathDecl) : List PathDecl → List PathDecl
  | [] => [x]
  | y :: ys => if pathBefore x.template y.template then x :: y :: ys else y :: insPath x ys

def inMatchingOrder (ps : List PathDecl) : List PathDecl := ps.foldr insPath []

structure GSrv where
  schemes : List Str
  host    : Str
  base    : Str
  upd     : Option (Str × Str)
  ref     : SrvRef
  deriving DecidableEq, Repr

def insStr (x : Str) : List Str → List Str
  | [] => [x]
  | y :: ys => if x = y then y :: ys else if ltStr x y then x :: y :: ys else y :: insStr x ys

def sortDedup (l : List Str) : List Str := l.foldr insStr []

def findVar (n : Str) : List SrvVar → Option SrvVar
  | [] => none
  | v :: vs => if v.name = n then some v else findVar n vs

def braced (n : Str) : Str := '{' :: n ++ ['}']

/-- permutePart for the scheme part: variables occurring in it; modelled for at most one such variable -/
def permuteScheme (scheme0 : Str) (s : Server) : Option (List Str) :=
  match s.vars.filter (fun v => (indexOfStr (braced v.name) scheme0).isSome) with
  | [] => some [scheme0]
  | [v] => some (sortDedup ((v.dflt :: v.enum).map (fun val => replaceAllS (braced v.name) val scheme0)))
  | _ => none

/-- newSrv: scheme list, host and base path of a server URL (braces kept); `ref` = the `*openapi3.Server` kept in it -/
def newSrv (url : Str) (s : Server) (upd : Option (Str × Str)) (ref : SrvRef) : Option GSrv :=
  match indexOfStr "://".toList url with
  | some i =>
    match permuteScheme (url.take i) s with
    | none => none
    | some schemes =>
      let rest := url.drop (i + 3)
      let host := (takeSeg rest).1
      let path := (takeSeg rest).2
      let base := if path.getLast? = some '/' then path.dropLast else path
      some ⟨schemes, host, base, upd, ref⟩
  | none =>
    let base := if url.getLast? = some '/' then url.dropLast else url
    some ⟨[], [], base, upd, ref⟩

def isSingleVar (url : Str) : Option Str :=
  match url with
  | '{' :: rest =>
    match takeBrace rest with
    | some (n, []) => if n ≠ [] ∧ '{' ∉ n then some n else none
    | _ => none
  | _ => none

/-- one iteration of makeServers -/
def gMakeServer (ref : SrvRef) (s : Server) : Option GSrv :=
  match isSingleVar s.url with
  | some n =>
    match findVar n s.vars with
    | none => none
    | some v => newSrv v.dflt s none ref      -- lhs = TrimSuffix(default, default) = "": no updater
  | none =>
    match indexOfStr ":{".toList s.url with
    | some (lhs + 1) =>
      match takeBrace (s.url.drop (lhs + 1 + 2)) with
      | none => none
      | some (pv, _) =>
        match findVar pv s.vars with
        | none => none
        | some v => newSrv (replaceAllS (braced pv) v.dflt s.url) s (some (pv, v.dflt)) ref
    | _ => newSrv s.url s none ref

def gMakeServersFrom (mk : Nat → SrvRef) : Nat → List Server → Option (List GSrv)
  | _, [] => some []
  | i, s :: rest =>
    match gMakeServer (mk i) s, gMakeServersFrom mk (i + 1) rest with
    | some a, some b => some (a :: b)
    | _, _ => none

/-- the `srv{}` that makeServers returns for an empty server list -/
def noSrv : GSrv := ⟨[], [], [], none, .none⟩

/-- makeServers -/
def gMakeServers (mk : Nat → SrvRef) (l : List Server) : Option (List GSrv) :=
  match gMakeServersFrom mk 0 l with
  | none => none
  | some [] => some [noSrv]
  | some (a :: b) => some (a :: b)

structure GRoute where
  template : Str
  methods  : List Str
  srv      : GSrv
  pathToks : List GTok
  hostToks : List GTok
  deriving DecidableEq, Repr

def varNamesG : List GTok → List Str
  | [] => []
  | .lit _ :: r => varNamesG r
  | .var n :: r => n :: varNamesG r

def mkRoute (p : PathDecl) (s : GSrv) : Option GRoute :=
  match gparseS (s.base ++ p.template), gparseS s.host with
  | some pt, some ht =>
    if (s.base ++ p.template).head? ≠ some '/' then none          -- mux: path must start with a slash
    else if (varNamesG ht).any (fun n => n ∈ varNamesG pt) then none  -- mux: duplicated route variable
    else some ⟨p.template, p.methods, s, pt, ht⟩
  | _, _ => none

def allSome : List (Option α) → Option (List α)
  | [] => some []
  | none :: _ => none
  | some a :: r => (allSome r).map (a :: ·)

/-- the loop of NewRouter over `InMatchingOrder`: a path item is registered under its own servers when it declares some,
    otherwise under the document's (`servers := servers` at the top of the loop body) -/
def gLoop (docSrvs : List GSrv) : List PathDecl → Option (List GRoute)
  | [] => some []
  | p :: ps =>
    match (if p.servers = [] then some docSrvs else gMakeServers (SrvRef.path p.template) p.servers) with
    | none => none
    | some use =>
      match allSome (use.map (mkRoute p)), gLoop docSrvs ps with
      | some a, some b => some (a ++ b)
      | _, _ => none

def gorillaRoutes (d : Doc) : Option (List GRoute) :=
  match gMakeServers SrvRef.doc d.servers with
  | none => none
  | some ds => gLoop ds (inMatchingOrder d.paths)

/-- mux schemeMatcher: URL scheme, or http/https by TLS state (the harness sets TLS iff scheme = https) -/
def schemeOK (r : GRoute) (req : Req) : Bool := r.srv.schemes = [] || r.srv.schemes.contains req.scheme

/-- host as mux sees it (`getHost`), port dropped when the template has none -/
def hostFor (r : GRoute) (req : Req) : Str :=
  if ':' ∈ r.srv.host then req.host else (req.host.takeWhile (· ≠ ':'))

/-- the non-method matchers of one mux route; the variables it extracts (host first, then path) -/
def gRouteMatch (r : GRoute) (req : Req) : Option (List (Str × Str)) :=
  match gmatch '/' r.pathToks req.path with
  | none => none
  | some pb =>
    if !schemeOK r req then none
    else if r.srv.host = [] then some pb
    else match gmatch '.' r.hostToks (hostFor r req) with
      | none => none
      | some hb => some (hb ++ pb)

def gFirst : List GRoute → Req → Outcome
  | [], _ => .notFound
  | r :: rs, req =>
    match gRouteMatch r req with
    | some b =>
      if req.method ∈ r.methods then
        .route r.template req.method
          (mapSetAll (mapSetAll [] b) (match r.srv.upd with | some kv => [kv] | none => [])) r.srv.ref
      else .methodNotAllowed
    | none => gFirst rs req

def gorillaFind (d : Doc) (req : Req) : Outcome :=
  match gorillaRoutes d with
  | none => .buildError
  | some rs => gFirst rs req

/-! ## percent-encoded paths: which representation of the URL path each router matches on -/

/-- a request as it arrives: `req.path` is the decoded path (`url.Path`), `epath` the escaped one (`url.EscapedPath()`,
    what is written on the wire); the two are the same string when nothing is percent-encoded -/
structure Wire where
  req   : Req
  epath : Str
  deriving DecidableEq, Repr

def Wire.raw (w : Wire) : Req := { w.req with path := w.epath }

/-- gorillamux creates its mux router with `UseEncodedPath()`: templates are matched against the escaped path and the
    extracted values are escaped strings -/
def gorillaFindW (d : Doc) (w : Wire) : Outcome := gorillaFind d w.raw

/-- the legacy router matches `url.Path` (decoded) when the document has no servers; when it has, `Servers.MatchURL` works
    on `url.String()` (escaped), and the remaining path it returns is what the trie sees -/
def legacyFindW (d : Doc) (w : Wire) : Outcome := legacyFind d (if d.servers = [] then w.req else w.raw)

end KinModel.Router
