/-
deepObject at every depth: model of makeObject / buildResObj (req_resp_decoder.go) for arbitrarily nested object and
array property schemas, of the `found` computation of urlValuesDecoder.DecodeObject on nested results, and of the
schema check of the nested value. Part of property C05 (KinModel/Style.lean holds the flat and two-level models; this
file generalises the deepObject branch — on the two-level schemas both agree, `nest_agrees_with_deep` in Props/C05.lean).

buildResObj always navigates from the root map with the key path; here a node is addressed by the entries that lie
under it: `Ents` = (relative key path, text). A node is absent (no entry), a scalar (an entry with the empty path) or a
map (entries with longer paths); makeObject's deepSet refuses requests in which a path is both (deepClash, checked first).
Recursion is on a fuel that bounds the schema depth (`NS.depth`), so `decide` evaluates concrete requests.
-/
import KinModel.Style
namespace KinModel.Style

/-- nested property schema: primitive, array of …, object with declared properties and an optional
additionalProperties schema -/
inductive NS
  | prim (p : PS)
  | arr (items : NS)
  | obj (props : List (Str × NS)) (required : List Str) (addl : Option NS)
  deriving Repr, Inhabited

/-- nested decoded value; `nil` = a hole in an array (Go nil) -/
inductive NV
  | nil
  | p (v : PV)
  | a (xs : List NV)
  | o (kvs : List (Str × NV))
  deriving Repr, Inhabited

abbrev Ents := List (List Str × Str)

/-- the text of the entry that addresses the node itself -/
def scalarAt : Ents → Option Str
  | [] => none
  | ([], s) :: _ => some s
  | (_ :: _, _) :: rest => scalarAt rest

/-- the entries below key `k`, paths relative to that child -/
def under (k : Str) : Ents → Ents
  | [] => []
  | ([], _) :: rest => under k rest
  | (h :: t, s) :: rest => if h = k then (t, s) :: under k rest else under k rest

/-- the keys of the node's map, each once -/
def headsRaw : Ents → List Str
  | [] => []
  | ([], _) :: rest => headsRaw rest
  | (h :: _, _) :: rest => h :: headsRaw rest

def heads (e : Ents) : List Str := dedup (headsRaw e)

/-- sliceMapToSlice's keys: canonical decimal naturals only (the model's domain; `none` otherwise) -/
def idxAll : List Str → Option (List Nat)
  | [] => some []
  | s :: rest => match natIndex s with
    | none => none
    | some n => (idxAll rest).map (n :: ·)

/-- items 0 … n-1 from a per-index builder: an error anywhere is an error, "not set" is a hole -/
def itemsFrom (g : Nat → Option (Option NV)) : Nat → Nat → Option (List NV)
  | 0, _ => some []
  | n + 1, i => match g i with
    | none => none
    | some none => (itemsFrom g n (i + 1)).map (NV.nil :: ·)
    | some (some v) => (itemsFrom g n (i + 1)).map (v :: ·)

/-- the declared properties, in schema order -/
def propsFrom (g : NS → Ents → Option (Option NV)) (ents : Ents) : List (Str × NS) → Option (List (Str × NV))
  | [] => some []
  | (k, ns) :: rest => match g ns (under k ents) with
    | none => none
    | some none => propsFrom g ents rest
    | some (some v) => (propsFrom g ents rest).map ((k, v) :: ·)

/-- the additionalProperties loop over the undeclared keys of the node's map; the key "" addresses the map itself, which
a primitive schema cannot convert (object-valued additionalProperties with a key "" are outside the model) -/
def addlFrom (g : Ents → Option (Option NV)) (ents : Ents) : List Str → Option (List (Str × NV))
  | [] => some []
  | k :: rest =>
    if k = [] then none else
    match g (under k ents) with
    | none => none
    | some none => addlFrom g ents rest
    | some (some v) => (addlFrom g ents rest).map ((k, v) :: ·)

/-- buildResObj at one node. `none` = ParseError, `some none` = nil (not set) -/
def nbuild (prim : PT → Str → PR) : Nat → NS → Ents → Option (Option NV)
  | 0, _, _ => none
  | _ + 1, .prim ps, ents =>
    if ents.isEmpty then some none else
    match scalarAt ents with
    | some s => (match prim ps.t s with
      | .err => none
      | .nil => some none
      | .val v => some (some (.p v)))
    | none => none                                  -- "path is not convertible to primitive"
  | f + 1, .arr items, ents =>
    if ents.isEmpty then some none else
    match scalarAt ents with
    | some _ => none                                -- "array items must be set with indexes"
    | none => match idxAll (heads ents) with
      | none => none
      | some idxs =>
        if maxIdx idxs ≥ idxs.length + maxArrayIndexGap then none   -- index too far beyond the elements given (ab8c63f)
        else (itemsFrom (fun i => nbuild prim f items (under (showNat i) ents)) (maxIdx idxs + 1) 0).map (fun xs => some (.a xs))
  | f + 1, .obj props _ addl, ents =>
    if ents.isEmpty then some none else
    match scalarAt ents with
    | some s => some (some (.p (.str s)))           -- not a map: returned as it is, validation rejects it
    | none =>
      match propsFrom (fun ns e => nbuild prim f ns e) ents props with
      | none => none
      | some base =>
        match addl with
        | none => some (some (.o base))
        | some a =>
          match addlFrom (fun e => nbuild prim f a e) ents ((heads ents).filter (fun k => !hasKey k props)) with
          | none => none
          | some extra => some (some (.o (base ++ extra)))

mutual
def NS.depth : NS → Nat
  | .prim _ => 1
  | .arr items => items.depth + 1
  | .obj props _ addl => Nat.max (depthProps props) (match addl with | some a => a.depth | none => 0) + 1
def depthProps : List (Str × NS) → Nat
  | [] => 0
  | (_, ns) :: rest => Nat.max ns.depth (depthProps rest)
end

/-- deepGet on the result value along a key path: a non-map value ends the walk successfully -/
def nget (kvs : List (Str × NV)) : List Str → Bool
  | [] => true
  | k :: rest => match kvs.lookup k with
    | none => false
    | some (.o sub) => nget sub rest
    | some _ => true

def nFound (props : List (Str × NS)) (dp : List (List Str × List Str)) (val : List (Str × NV)) : Bool :=
  (props.isEmpty && !val.isEmpty) ||
  (!props.isEmpty && dp.any (fun kv => (match kv.1 with
    | [p] => hasKey p props
    | _ => false) || nget val kv.1))

structure NOut where
  val : Option (List (Str × NV))     -- none = nil map
  found : Bool
  err : Option DErr

/-- urlValuesDecoder.DecodeObject, style deepObject, for a nested object schema -/
def queryNest (prim : PT → Str → PR) (name : Str) (r : Req)
    (props : List (Str × NS)) (required : List Str) (addl : Option NS) : NOut :=
  match deepProps name r.query with
  | [] => ⟨none, false, none⟩
  | dp =>
    if deepClash dp then ⟨none, false, some .parse⟩ else
    match nbuild prim ((NS.obj props required addl).depth + 1) (.obj props required addl) (dp.map (fun kv => (kv.1, kv.2.headD []))) with
    | some (some (.o kvs)) => ⟨some kvs, nFound props dp kvs, none⟩
    | _ => ⟨none, false, some .parse⟩

/-! ### validation of the nested value -/

mutual
def visitN (hit : EV → PV → Bool) : NS → NV → Bool
  | .prim ps, .p v => visitPS hit ps v
  | .arr items, .a xs => visitNL hit items xs
  | .obj props req addl, .o kvs => req.all (fun k => hasKey k kvs) && visitNO hit props addl kvs
  | _, _ => false
def visitNL (hit : EV → PV → Bool) (items : NS) : List NV → Bool
  | [] => true
  | x :: rest => visitN hit items x && visitNL hit items rest
def visitNO (hit : EV → PV → Bool) (props : List (Str × NS)) (addl : Option NS) : List (Str × NV) → Bool
  | [] => true
  | (k, v) :: rest =>
    (match props.lookup k with
     | some s => visitN hit s v
     | none => match addl with
       | some a => visitN hit a v
       | none => true) && visitNO hit props addl rest
end

mutual
/-- EnumGoType inside a nested schema: an int32 with an enum -/
def nsEnumInt32 : NS → Bool
  | .prim ps => psEnumInt32 ps
  | .arr items => nsEnumInt32 items
  | .obj props _ addl => nsEnumInt32L props || (match addl with | some a => nsEnumInt32 a | none => false)
def nsEnumInt32L : List (Str × NS) → Bool
  | [] => false
  | (_, ns) :: rest => nsEnumInt32 ns || nsEnumInt32L rest
end

structure NParam where
  name : Str
  required : Bool
  allowEmpty : Bool
  props : List (Str × NS)
  req : List Str
  addl : Option NS

/-- ValidateParameter for a deepObject query parameter with a nested object schema -/
def validateNest (fl : Flavour) (hit : EV → PV → Bool) (p : NParam) (r : Req) : Verdict :=
  if r.query.isEmpty then (if p.required then .missing else .accept) else
  let o := queryNest fl.prim p.name (strictReq p.name r) p.props p.req p.addl
  match o.err with
  | some e => errVerdict e
  | none =>
    if p.required && !o.found then .missing
    else match o.val with
      | none => if !p.allowEmpty && o.found then .empty else .accept
      | some kvs => if visitN hit (.obj p.props p.req p.addl) (.o kvs) then .accept else .schema

end KinModel.Style
