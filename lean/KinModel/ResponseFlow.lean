/-
C08 — the control flow of ValidateResponse / validateResponseHeader as an interpreter of the regenerated statement
table C08Flow (go/cmd/extract/c08flow.go). `runResp` / `runHdr` give a meaning to every row (one row = one statement
group of the Go source, in source order); `runResp_expected` / `runHdr_expected` prove, for all inputs, that the
interpretation of the expected programs IS the hand-written model `validateResponse` / `checkHeader` of
KinModel/Response.lean. Props/C08.lean closes the loop with `decide`: the regenerated table equals the expected
program, so a statement moved, dropped, added or changed in the source breaks an obligation.
-/
import KinModel.Response
import KinModel.Gen.C08Flow
namespace KinModel.Response
open KinModel.Gen
set_option linter.unusedSimpArgs false

/-- `Responses.Status(status)`: exact code, then the class key -/
def respStatus (m : List (String × α)) (status : Int) : Option α :=
  match lookup (codeKey status) m with
  | some v => some v
  | none => (match classKey status with | some k => lookup k m | none => none)

/-- `Responses.Default()` -/
def respDefault (m : List (String × α)) : Option α := lookup "default" m

/-- the local variables of ValidateResponse that the statements communicate through -/
structure FSt where
  /-- `responseRef` (`none` = nil) -/
  ref : Option Resp := none
  /-- `response` (set once `responseRef.Value != nil` is established) -/
  resp : Option Resp := none
  /-- `opts` contains DisableWriteOnlyValidation -/
  woOff : Bool := false
  /-- `headers`, as the definitions they name -/
  names : List Hdr := []
  /-- `contentType` -/
  mt : Option MediaType := none
  /-- `contentType.Schema`, once established to be non-nil -/
  sch : Option Sch := none
  /-- `data` -/
  data : Option String := none
  /-- what `input.Body` yields when read now (`none` = nil) -/
  bodyAfter : Option String
  /-- `value` -/
  value : Option J := none

/-- a statement uses a variable that no earlier statement has set (nil dereference in Go) -/
def stuck : Out := ⟨some (.hdrPanic "<flow: variable not set>"), none⟩

def condHolds (o : Opts) (i : Input) : C08Cond → Bool
  | .mapEmpty => i.responses.isEmpty
  | .notStrict => !o.strict

def optField (o : Opts) (f : String) : Bool :=
  if f = "MultiError" then o.multi
  else if f = "ExcludeWriteOnlyValidations" then o.woOff
  else if f = "ExcludeResponseBody" then o.excludeBody
  else if f = "IncludeResponseStatus" then o.strict
  else false

/-- validateResponseHeader: `found`/`decodedValue` after the decode statement -/
inductive HSt | start | notFound | found (d : Dec)

/-- interpreter of the header program; `asrep`/`woOff` = the content of the `opts` argument -/
def runHdr (canon : String → String) (asrep woOff : Bool) (hdrs : List (String × Option String)) (h : Hdr) :
    List C08Row → HSt → Option Err
  | [], _ => none
  | .locals :: r, _ => runHdr canon asrep woOff hdrs h r .start
  | .presenceOnly :: r, st =>
    (match h.schema with
     | none => if !present canon hdrs h && h.required then some (.hdrMissing h.name) else none
     | some _ => runHdr canon asrep woOff hdrs h r st)
  | .serialization :: r, st => runHdr canon asrep woOff hdrs h r st
  | .decode :: r, _ =>
    (match h.schema with
     | none => some (.hdrPanic h.name)     -- decodeValue dereferences the schema
     | some s =>
       match lookup (canon h.name) hdrs with
       | none => runHdr canon asrep woOff hdrs h r .notFound
       | some raw =>
         match decodeHdrVal s h.explode raw h.emptyNameDec with
         | .err => some (.hdrDecode h.name)
         | .panic => some (.hdrPanic h.name)
         | d => runHdr canon asrep woOff hdrs h r (.found d))
  | .visitFoundElseRequired :: r, st =>
    (match st, h.schema with
     | .found d, some s =>
       let v : J := match d with | .val v => v | _ => .null
       if visit ⟨asrep, woOff⟩ v s then runHdr canon asrep woOff hdrs h r st else some (.hdrSchema h.name)
     | .found _, none => some (.hdrPanic h.name)
     | _, _ => if h.required then some (.hdrMissing h.name) else runHdr canon asrep woOff hdrs h r st)
  | .retNil :: _, _ => none
  | _ :: _, _ => some (.hdrPanic "<flow: not a statement of validateResponseHeader>")

/-- interpreter of the ValidateResponse program; `hp` = the program of validateResponseHeader -/
def runResp (canon : String → String) (reg : List (String × String)) (o : Opts) (i : Input) (hp : List C08Row) :
    List C08Row → FSt → Out
  | [], st => ⟨none, st.bodyAfter⟩
  | .skipMethods ms :: r, st => if ms.contains i.method then ⟨none, st.bodyAfter⟩ else runResp canon reg o i hp r st
  | .skipStatuses cs :: r, st => if cs.contains i.status then ⟨none, st.bodyAfter⟩ else runResp canon reg o i hp r st
  | .optionsDefault :: r, st => runResp canon reg o i hp r st
  | .emptyMapOk cs :: r, st =>
    if cs.all (condHolds o i) then ⟨none, st.bodyAfter⟩ else runResp canon reg o i hp r st
  | .lookupStatus :: r, st => runResp canon reg o i hp r { st with ref := respStatus i.responses i.status }
  | .fallbackDefault :: r, st =>
    (match st.ref with
     | none => runResp canon reg o i hp r { st with ref := respDefault i.responses }
     | some _ => runResp canon reg o i hp r st)
  | .undefinedStatus _ :: r, st =>
    (match st.ref with
     | none => if !o.strict then ⟨none, st.bodyAfter⟩ else ⟨some .statusNotSupported, st.bodyAfter⟩
     | some _ => runResp canon reg o i hp r st)
  | .unresolvedFails _ :: r, st =>
    (match st.ref with
     | none => stuck
     | some x => if !x.resolved then ⟨some .respUnresolved, st.bodyAfter⟩
                 else runResp canon reg o i hp r { st with resp := some x })
  | .optsEmpty :: r, st => runResp canon reg o i hp r { st with woOff := false }
  | .optIf f c :: r, st =>
    if optField o f && c = "DisableWriteOnlyValidation" then runResp canon reg o i hp r { st with woOff := true }
    else runResp canon reg o i hp r st
  | .optCustomizer :: r, st => runResp canon reg o i hp r st
  | .sortedHeaderNames :: r, st =>
    (match st.resp with
     | none => stuck
     | some x => runResp canon reg o i hp r { st with names := checkedHeaders x })
  | .headerLoop asrep :: r, st =>
    (match firstErr (fun h => runHdr canon asrep st.woOff i.hdrs h hp .start) st.names with
     | some e => ⟨some e, st.bodyAfter⟩
     | none => runResp canon reg o i hp r st)
  | .excludeBodyOk :: r, st => if o.excludeBody then ⟨none, st.bodyAfter⟩ else runResp canon reg o i hp r st
  | .noContentOk :: r, st =>
    (match st.resp with
     | none => stuck
     | some x => if x.content.isEmpty then ⟨none, st.bodyAfter⟩ else runResp canon reg o i hp r st)
  | .contentTypeLookup :: r, st =>
    (match st.resp with
     | none => stuck
     | some x =>
       match contentGet x.content (ctOf i) with
       | none => ⟨some .ctUndeclared, st.bodyAfter⟩
       | some mt => runResp canon reg o i hp r { st with mt := some mt })
  | .noSchemaOk :: r, st =>
    (match st.mt with
     | none => stuck
     | some mt => match mt.schema with
       | none => ⟨none, st.bodyAfter⟩
       | some s => runResp canon reg o i hp r { st with sch := some s })
  | .readBody _ :: r, st =>
    (match st.bodyAfter with
     | none => stuck
     | some b => if i.readFails then ⟨some .bodyRead, none⟩
                 else runResp canon reg o i hp r { st with data := some b, bodyAfter := none })
  | .restoreBody :: r, st => runResp canon reg o i hp r { st with bodyAfter := st.data }
  | .decodeBody _ :: r, st =>
    (match st.data with
     | none => stuck
     | some d =>
       match decodeBody reg { i with body := d } with
       | .val v => runResp canon reg o i hp r { st with value := some v }
       | _ => ⟨some .bodyDecode, st.bodyAfter⟩)
  | .visitBody asrep :: r, st =>
    (match st.sch, st.value with
     | some s, some v =>
       if visit ⟨asrep, st.woOff⟩ v s then runResp canon reg o i hp r st else ⟨some .bodySchema, st.bodyAfter⟩
     | _, _ => stuck)
  | .retNil :: _, st => ⟨none, st.bodyAfter⟩
  | _ :: _, _ => stuck

/-- the program the model `checkHeader` was transcribed from -/
def expectedHdrProgram : List C08Row :=
  [.locals, .presenceOnly, .serialization, .decode, .visitFoundElseRequired, .retNil]

/-- the program the model `validateResponse` was transcribed from -/
def expectedRespProgram : List C08Row :=
  [.skipMethods ["HEAD"], .skipStatuses [304, 308, 307, 301], .optionsDefault, .emptyMapOk [.mapEmpty, .notStrict],
   .lookupStatus, .fallbackDefault, .undefinedStatus "status is not supported",
   .unresolvedFails "response has not been resolved", .optsEmpty, .optIf "MultiError" "MultiErrors", .optCustomizer,
   .optIf "ExcludeWriteOnlyValidations" "DisableWriteOnlyValidation", .sortedHeaderNames, .headerLoop true,
   .excludeBodyOk, .noContentOk, .contentTypeLookup, .noSchemaOk, .readBody "failed to read response body",
   .restoreBody, .decodeBody "failed to decode response body", .visitBody true, .retNil]

/-- **The header program means `checkHeader`** (all headers, all header sets). -/
theorem runHdr_expected (canon : String → String) (woOff : Bool) (hdrs : List (String × Option String)) (h : Hdr) :
    runHdr canon true woOff hdrs h expectedHdrProgram .start = checkHeader canon woOff hdrs h := by
  unfold checkHeader
  simp only [expectedHdrProgram, runHdr]
  cases hs : h.schema with
  | none => simp
  | some s =>
    simp only []
    cases hl : lookup (canon h.name) hdrs with
    | none => simp [runHdr]
    | some raw =>
      simp only []
      cases hd : decodeHdrVal s h.explode raw h.emptyNameDec <;> simp [runHdr, hs]

theorem statusLookup_eq (m : List (String × α)) (status : Int) :
    statusLookup m status = (match respStatus m status with | some v => some v | none => respDefault m) := by
  unfold statusLookup respStatus respDefault
  cases lookup (codeKey status) m <;> simp
  cases classKey status <;> simp
  rename_i k
  cases lookup k m <;> simp

theorem skipList_eq (st : Int) : ([304, 308, 307, 301] : List Int).contains st = skipStatus st := by
  simp [skipStatus, Bool.or_assoc]

theorem decodeBody_eta (reg : List (String × String)) (i : Input) : decodeBody reg { i with body := i.body } = decodeBody reg i := rfl

set_option maxHeartbeats 1000000 in
/-- **The ValidateResponse program means `validateResponse`** (all response maps, statuses, header sets, bodies and
option combinations). -/
theorem runResp_expected (canon : String → String) (reg : List (String × String)) (o : Opts) (i : Input) :
    runResp canon reg o i expectedHdrProgram expectedRespProgram { bodyAfter := some i.body }
      = validateResponse canon reg o i := by
  have hH : ∀ wo, (fun h => runHdr canon true wo i.hdrs h expectedHdrProgram .start)
      = checkHeader canon wo i.hdrs := fun wo => funext (runHdr_expected canon wo i.hdrs)
  rcases o with ⟨strict, exb, wo, multi⟩
  unfold validateResponse checkBody
  cases strict <;> cases wo <;> cases multi <;> cases h1 : respStatus i.responses i.status <;> cases h2 : respDefault i.responses <;>
    simp only [expectedRespProgram, runResp, statusLookup_eq, skipList_eq, List.contains_cons, List.contains_nil,
      List.all_cons, List.all_nil, condHolds, optField, h1, h2, hH, decodeBody_eta, skipStatus] <;>
    simp (config := { maxSteps := 200000 }) [hH, stuck]
  all_goals simp only [or_assoc]
  all_goals rfl

end KinModel.Response
