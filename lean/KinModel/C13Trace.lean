/-
C13, part 6 — the hand-written stream model (KinModel/C13Stream.lean) and the regenerated control-flow skeleton
(table C13BodyFlow, KinModel/C13Flow.lean) describe the same code: the *event traces* of the skeleton.

Part 5 runs an abstract interpreter over the skeleton (is the body in place at every `return`?) and counts its
statements.  Neither says that the request the hand-written model computes is the request that a path of the code
computes.  This file closes that gap for loop-free functions of the table (ValidateRequestBody):

  * `tracesL` computes, from the regenerated skeleton, the SET of complete paths of a function, each reduced to the
    events that touch the stream, in order: the outcome of the guard `Body != http.NoBody && Body != nil`, the read,
    the restore block, the default-rewrite block, the deferred restore, a callback, a call — and whether the path ends
    in a `return`.  Both arms of every other `if` are taken.  Something unrecognised or a loop inside a statement
    becomes the event `unsupported` (top-level loops are handled by `segs` / `SegPath` below), so that no theorem below can hold over a table which
    contains one in that function (nothing is skipped silently).
  * `runTrace` executes a trace CONCRETELY on a `Stream.Req` with the operations of the stream model (`readAll`,
    `drain`, `restore`, the install of the re-encoded bytes).
  * Props/C13.lean: the request computed by `Stream.bodyPhase` is the result of running one complete path of the
    regenerated skeleton of ValidateRequestBody whose guard outcomes agree with the request, and every such path is
    the model's result for some schema outcome (`bodyPhase_is_a_skeleton_path`, `skeleton_paths_are_bodyPhase`).
    A second restore, an install before the restore, a restore outside the guard, a read that is not followed by a
    restore on some path … change the trace set and break the obligation, whether or not an input reaches them.
-/
import KinModel.C13Flow
import KinModel.C13Stream
namespace KinModel.C13.Trace
open KinModel.Gen KinModel.C13.Stream

/-- what a path does to the body stream -/
inductive Ev
  | guard (present : Bool)   -- `if X.Body != http.NoBody && X.Body != nil`: which arm
  | dataGuard (isSet : Bool) -- `if data != nil`: which arm
  | read
  | restore
  | install
  | deferRestore
  | callback
  | call (fn : String)
  | cont                     -- `continue` (ends an iteration of the enclosing loop)
  | brk                      -- `break`
  | unsupported
  deriving DecidableEq, Repr

/-- a path: its events and whether it ended in `return` -/
abbrev Path := List Ev × Bool

abbrev PS := List Path

def insertP (p : Path) (A : PS) : PS := if A.contains p then A else A ++ [p]

def unionP (A B : PS) : PS := B.foldl (fun acc p => insertP p acc) A

/-- paths of `A` continued by the paths of `B` (a path that has returned is not continued) -/
def seqP (A B : PS) : PS :=
  A.foldl (fun acc a =>
    if a.2 then insertP a acc
    else B.foldl (fun acc' b => insertP (a.1 ++ b.1, b.2) acc') acc) []

def prefixP (e : Ev) (A : PS) : PS := A.map (fun p => (e :: p.1, p.2))

mutual
def tracesS : FlowStmt → PS
  | .read _ _ => [([.read], false)]             -- trusted: io.ReadAll succeeds (the on-error arm only returns: Part 5)
  | .restore _ => [([.restore], false)]
  | .install _ => [([.install], false)]
  | .callback _ => [([.callback], false)]
  | .deferRestore _ => [([.deferRestore], false)]
  | .deferClose _ => [([], false)]
  | .call f _ => [([.call f], false)]
  | .ret _ => [([], true)]
  | .cont _ => [([.cont], true)]
  | .brk _ => [([.brk], true)]
  | .ifElse _ t e => unionP (tracesL t) (tracesL e)
  | .ifBody _ t e => unionP (prefixP (.guard true) (tracesL t)) (prefixP (.guard false) (tracesL e))
  | .ifData _ t e => unionP (prefixP (.dataGuard true) (tracesL t)) (prefixP (.dataGuard false) (tracesL e))
  | .loop _ _ => [([.unsupported], false)]
  | .unrecognised _ => [([.unsupported], true)]
def tracesL : List FlowStmt → PS
  | [] => [([], false)]
  | x :: r => seqP (tracesS x) (tracesL r)
end

/-- the skeleton of a function of the table (`[.unrecognised]` if it is not there) -/
def bodyOf (name : String) : List (String × List FlowStmt) → List FlowStmt
  | [] => [.unrecognised name]
  | f :: r => if f.1 == name then f.2 else bodyOf name r

/-- concrete state of one activation: the request and the local `data` -/
structure CSt where
  req : Req
  data : Option Bytes
  deriving DecidableEq, Repr

/-- the concrete effect of an event, with the operations of the stream model; `nd` are the re-encoded bytes -/
def stepEv (nd : Bytes) (s : CSt) : Ev → CSt
  | .read => { req := drain s.req, data := some (readAll s.req) }
  | .restore => { s with req := restore s.req (s.data.getD []) }
  | .install => { s with req := { body := some nd, getBody := .ok nd, contentLength := nd.length } }
  | _ => s

def runTrace (nd : Bytes) (t : List Ev) (r : Req) : Req := (t.foldl (stepEv nd) ⟨r, none⟩).req

/-- the guard outcomes of the path are those of the request (the guard is evaluated before anything is read) -/
def consistent (t : List Ev) (r : Req) : Bool :=
  t.all (fun e => match e with | .guard b => b == r.body.isSome | .unsupported => false | .dataGuard _ => false | .cont => false | .brk => false | _ => true)

/-- the re-encoded bytes, where the schema outcome has any -/
def newData (outcome : Bytes → BodyOutcome) (r : Req) : Bytes :=
  match outcome (readAll r) with | .rewrite nd => nd | _ => []

/-- Exclusion of the converse direction: a path that installs re-encoded bytes without having read any.  The skeleton
    keeps the guard of the read but not the condition `len(data) == 0` (a plain `if` for it: both arms are paths), so
    "no body, yet the default rewrite runs" is a path of the skeleton that the code cannot take. -/
def InstallWithoutRead (t : List Ev) : Bool := t.contains .install && !t.contains .read

/-! ### functions with loops: segments, paths with any number of iterations, a concrete run with callbacks -/

/-- a function body cut at its top-level loops: the paths of each straight piece, the paths of each loop body -/
inductive Seg
  | straight (ps : PS)
  | loop (ps : PS)
  deriving DecidableEq, Repr

def segs : List FlowStmt → List FlowStmt → List Seg
  | [], acc => [.straight (tracesL acc.reverse)]
  | .loop _ b :: r, acc => .straight (tracesL acc.reverse) :: .loop (tracesL b) :: segs r []
  | x :: r, acc => segs r (x :: acc)

/-- the complete paths of a segmented function: a straight piece is left by `return` or continued; a loop runs any
    number of times, an iteration falls off its end, returns, or ends in `continue` / `break` (a path that ends in
    `return` never carries a `cont` / `brk` event into a complete path otherwise: the concrete runs below fail on them) -/
inductive SegPath : List Seg → List Ev → Prop
  | done : SegPath [] []
  | straightRet (ps rest t) : (t, true) ∈ ps → SegPath (.straight ps :: rest) t
  | straightFall (ps rest t u) : (t, false) ∈ ps → SegPath rest u → SegPath (.straight ps :: rest) (t ++ u)
  | loopExit (ps rest u) : SegPath rest u → SegPath (.loop ps :: rest) u
  | loopFall (ps rest t u) : (t, false) ∈ ps → SegPath (.loop ps :: rest) u → SegPath (.loop ps :: rest) (t ++ u)
  | loopRet (ps rest t) : (t, true) ∈ ps → SegPath (.loop ps :: rest) t
  | loopCont (ps rest t u) : (t ++ [.cont], true) ∈ ps → SegPath (.loop ps :: rest) u → SegPath (.loop ps :: rest) (t ++ u)
  | loopBrk (ps rest t u) : (t ++ [.brk], true) ∈ ps → SegPath rest u → SegPath (.loop ps :: rest) (t ++ u)

/-- concrete state of an activation of validateSecurityRequirement: request, local `data`, whether the deferred restore
    is registered, the behaviour of the callbacks still to be called, what the callbacks called so far could read -/
structure RSt where
  req : Req
  data : Option Bytes
  deferred : Bool
  auths : List Auth
  seen : List Bytes
  deriving DecidableEq, Repr

/-- one event, concretely; a guard whose recorded outcome is not the one of the state, and an event this function is
    not expected to have, stop the run -/
def stepR (s : RSt) : Ev → Option RSt
  | .guard b => if b == s.req.body.isSome then some s else none
  | .dataGuard b => if b == s.data.isSome then some s else none
  | .read => some { s with req := drain s.req, data := some (readAll s.req) }
  | .restore => some { s with req := restore s.req (s.data.getD []) }
  | .deferRestore => some { s with deferred := true }
  | .callback =>
    match s.auths with
    | [] => none
    | a :: rest => some { s with req := runAuth s.req a, auths := rest, seen := s.seen ++ [readAll s.req] }
  | _ => none

def runR : List Ev → RSt → Option RSt
  | [], s => some s
  | e :: t, s => (stepR s e).bind (runR t)

/-- the function returns: the deferred restore runs if it was registered -/
def finish (s : RSt) : Req := if s.deferred then restore s.req (s.data.getD []) else s.req

/-- the paths of the body of the scheme loop of validateSecurityRequirement (Props/C13.lean: this is what the
    regenerated table says) -/
def srLoopPaths : PS :=
  [([], true), ([.dataGuard true, .restore, .callback], true), ([.dataGuard true, .restore, .callback], false),
   ([.dataGuard false, .callback], true), ([.dataGuard false, .callback], false)]

/-- the segments from the scheme loop on -/
def srTail : List Seg := [.loop srLoopPaths, .straight [([], true)]]

/-- the segments of validateSecurityRequirement as the table has them -/
def srSegs : List Seg :=
  [.straight [([], true), ([], false)], .loop [([], false)],
   .straight [([], true), ([.guard true, .read, .deferRestore], false), ([.guard false], false)],
   .loop srLoopPaths, .straight [([], true)]]

/-- invariant of the scheme loop of validateSecurityRequirement for a request with body `data` -/
def InvR (data : Bytes) (s : RSt) : Prop :=
  s.data = some data ∧ s.deferred = true ∧ GetOK s.req data ∧ ∀ x ∈ s.seen, x = data

/-! ### the three functions above: events are calls of functions of the table -/

/-- state of an activation of ValidateSecurityRequirements / ValidateRequest: the request, what callbacks could read so
    far, the security requirements not yet tried -/
structure KSt where
  req : Req
  seen : List Bytes
  pending : List (List Scheme)
  deriving DecidableEq, Repr

/-- a call of a function of the table, executed by the stream model of that function (ValidateParameter does not touch
    the stream: Props/C13.lean `flow_shape_is_model`, no stream statement and no call in its skeleton) -/
def stepK (c : Cfg) (outcome : Bytes → BodyOutcome) (s : KSt) : Ev → Option KSt
  | .call fn =>
    if fn == "validateSecurityRequirement" then
      match s.pending with
      | [] => none
      | q :: rest => some ⟨(secReq c.hasAuthFunc s.req q).1, s.seen ++ (secReq c.hasAuthFunc s.req q).2.2, rest⟩
    else if fn == "ValidateSecurityRequirements" then
      some ⟨(secPhase c.hasAuthFunc s.req c.reqs).1, s.seen ++ (secPhase c.hasAuthFunc s.req c.reqs).2.2, s.pending⟩
    else if fn == "ValidateParameter" then some s
    else if fn == "ValidateRequestBody" then some { s with req := (bodyPhase c.required outcome s.req).1 }
    else none
  | _ => none

def isCall : FlowStmt → Bool | .call _ _ => true | _ => false

def runK (c : Cfg) (outcome : Bytes → BodyOutcome) : List Ev → KSt → Option KSt
  | [], s => some s
  | e :: t, s => (stepK c outcome s e).bind (runK c outcome t)

/-- the segments of ValidateSecurityRequirements as the table has them -/
def vsrSegs : List Seg :=
  [.straight [([], true), ([], false)],
   .loop [([.call "validateSecurityRequirement", .cont], true), ([.call "validateSecurityRequirement"], true)],
   .straight [([], true)]]

/-- the segments of ValidateRequest as the table has them -/
def vrSegs : List Seg :=
  [.straight [([.call "ValidateSecurityRequirements"], true), ([.call "ValidateSecurityRequirements"], false), ([], false)],
   .loop [([.cont], true), ([.call "ValidateParameter"], true), ([.call "ValidateParameter"], false)],
   .straight [([], false)],
   .loop [([.cont], true), ([.call "ValidateParameter"], true), ([.call "ValidateParameter"], false)],
   .straight [([.call "ValidateRequestBody"], true), ([], true)]]

end KinModel.C13.Trace
