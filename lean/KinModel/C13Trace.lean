/-
C13, part 6 — the hand-written stream model (KinModel/C13Stream.lean) and the regenerated control-flow skeleton
(table C13BodyFlow, KinModel/C13Flow.lean) describe the same code: the *event traces* of the skeleton.

Part 5 runs an abstract interpreter over the skeleton (is the body in place at every `return`?) and counts its
statements.  Neither says that the request the hand-written model computes is the request that a path of the code
computes.  This file closes that gap for loop-free functions of the table (ValidateRequestBody):

  * `tracesL` computes, from the regenerated skeleton, the SET of complete paths of a function, each reduced to the
    events that touch the stream, in order: the outcome of the guard `Body != http.NoBody && Body != nil`, the read,
    the restore block, the default-rewrite block, the deferred restore, a callback, a call — and whether the path ends
    in a `return`.  Both arms of every other `if` are taken.  A loop, `continue`, `break`, something unrecognised or
    an `if data != nil` becomes the event `unsupported`, so that no theorem below can hold over a table which
    contains one in that function (nothing is skipped silently).
  * `runTrace` executes a trace CONCRETELY on a `Stream.Req` with the operations of the stream model (`readAll`,
    `drain`, `restore`, the install of the re-encoded bytes).
  * Props/C13.lean: the request computed by `Stream.bodyPhase` is the result of running one complete path of the
    regenerated skeleton of ValidateRequestBody whose guard outcomes agree with the request, and every such path is
    the model's result for some schema outcome (`bodyPhase_is_a_skeleton_path`, `skeleton_paths_are_bodyPhase`).
    A second restore, an install before the restore, a restore outside the guard, a read that is not followed by a
    restore on some path … change the trace set and break the obligation, whether or not an input reaches them.
-/
import KinModel.C13Flow
import KinModel.C13Stream
namespace KinModel.C13.Trace
open KinModel.Gen KinModel.C13.Stream

/-- what a path does to the body stream -/
inductive Ev
  | guard (present : Bool)   -- `if X.Body != http.NoBody && X.Body != nil`: which arm
  | read
  | restore
  | install
  | deferRestore
  | callback
  | call (fn : String)
  | unsupported
  deriving DecidableEq, Repr

/-- a path: its events and whether it ended in `return` -/
abbrev Path := List Ev × Bool

abbrev PS := List Path

def insertP (p : Path) (A : PS) : PS := if A.contains p then A else A ++ [p]

def unionP (A B : PS) : PS := B.foldl (fun acc p => insertP p acc) A

/-- paths of `A` continued by the paths of `B` (a path that has returned is not continued) -/
def seqP (A B : PS) : PS :=
  A.foldl (fun acc a =>
    if a.2 then insertP a acc
    else B.foldl (fun acc' b => insertP (a.1 ++ b.1, b.2) acc') acc) []

def prefixP (e : Ev) (A : PS) : PS := A.map (fun p => (e :: p.1, p.2))

mutual
def tracesS : FlowStmt → PS
  | .read _ _ => [([.read], false)]             -- trusted: io.ReadAll succeeds (the on-error arm only returns: Part 5)
  | .restore _ => [([.restore], false)]
  | .install _ => [([.install], false)]
  | .callback _ => [([.callback], false)]
  | .deferRestore _ => [([.deferRestore], false)]
  | .deferClose _ => [([], false)]
  | .call f _ => [([.call f], false)]
  | .ret _ => [([], true)]
  | .cont _ => [([.unsupported], true)]
  | .brk _ => [([.unsupported], true)]
  | .ifElse _ t e => unionP (tracesL t) (tracesL e)
  | .ifBody _ t e => unionP (prefixP (.guard true) (tracesL t)) (prefixP (.guard false) (tracesL e))
  | .ifData _ _ _ => [([.unsupported], false)]
  | .loop _ _ => [([.unsupported], false)]
  | .unrecognised _ => [([.unsupported], true)]
def tracesL : List FlowStmt → PS
  | [] => [([], false)]
  | x :: r => seqP (tracesS x) (tracesL r)
end

/-- the skeleton of a function of the table (`[.unrecognised]` if it is not there) -/
def bodyOf (name : String) : List (String × List FlowStmt) → List FlowStmt
  | [] => [.unrecognised name]
  | f :: r => if f.1 == name then f.2 else bodyOf name r

/-- concrete state of one activation: the request and the local `data` -/
structure CSt where
  req : Req
  data : Option Bytes
  deriving DecidableEq, Repr

/-- the concrete effect of an event, with the operations of the stream model; `nd` are the re-encoded bytes -/
def stepEv (nd : Bytes) (s : CSt) : Ev → CSt
  | .read => { req := drain s.req, data := some (readAll s.req) }
  | .restore => { s with req := restore s.req (s.data.getD []) }
  | .install => { s with req := { body := some nd, getBody := .ok nd, contentLength := nd.length } }
  | _ => s

def runTrace (nd : Bytes) (t : List Ev) (r : Req) : Req := (t.foldl (stepEv nd) ⟨r, none⟩).req

/-- the guard outcomes of the path are those of the request (the guard is evaluated before anything is read) -/
def consistent (t : List Ev) (r : Req) : Bool :=
  t.all (fun e => match e with | .guard b => b == r.body.isSome | .unsupported => false | _ => true)

/-- the re-encoded bytes, where the schema outcome has any -/
def newData (outcome : Bytes → BodyOutcome) (r : Req) : Bytes :=
  match outcome (readAll r) with | .rewrite nd => nd | _ => []

/-- Exclusion of the converse direction: a path that installs re-encoded bytes without having read any.  The skeleton
    keeps the guard of the read but not the condition `len(data) == 0` (a plain `if` for it: both arms are paths), so
    "no body, yet the default rewrite runs" is a path of the skeleton that the code cannot take. -/
def InstallWithoutRead (t : List Ev) : Bool := t.contains .install && !t.contains .read

end KinModel.C13.Trace
