/-
C06, the request object in front of `ValidateRequestBody`: whether the body stream is read at all.

  openapi3filter/validate_request.go `ValidateRequestBody`, first block:

      if req.Body != http.NoBody && req.Body != nil {      -- the guard: a list of conjuncts (`GuardAtom`)
          data, err = io.ReadAll(req.Body) …               -- `data` = the bytes of the stream
      }
      if len(data) == 0 { if requestBody.Required { return ErrInvalidRequired }; return nil }

A `*http.Request` reaches the function in many shapes (DESIGN: "request construction variants"): built by a server
(`ContentLength` = the announced length, -1 when chunked, `http.NoBody` when there is none), built by
`http.NewRequest` from one of the three in-memory readers (length known), from any other reader (`ContentLength` 0 =
*unknown*, body present), with `Body` assigned after construction, with a `ContentLength` that does not agree with
the stream. `ReqShape` keeps what of that the code could look at; the conjuncts of the guard are data (`GuardAtom`),
so that the guard of the source — regenerated as table `C06BodyRead` — is evaluated by the model, not transcribed.
-/
import KinModel.Body

namespace KinModel.Body

/-- the field `Request.Body` on entry -/
inductive BodyField
  | nilBody      -- nil
  | noBody       -- http.NoBody
  | stream       -- any other io.ReadCloser; its bytes are the `BodyIn` of the case
  deriving DecidableEq, Repr

/-- what `ValidateRequestBody` can see of the request besides the header: the kind of `Body` and the field
`ContentLength` (any integer: 0 = none *or unknown*, -1 = unknown, n = announced, not necessarily the truth) -/
structure ReqShape where
  body : BodyField
  contentLength : Int
  deriving DecidableEq, Repr

/-- one conjunct of the condition under which the body is read -/
inductive GuardAtom
  | bodyNotNoBody
  | bodyNotNil
  | contentLength (op : String) (n : Int)    -- `req.ContentLength <op> n`
  | unreadable                                -- a conjunct the translator cannot read
  deriving DecidableEq, Repr

def cmpInt (op : String) (a b : Int) : Bool :=
  if op = "!=" then a != b else if op = "==" then a == b else if op = ">" then decide (a > b)
  else if op = ">=" then decide (a ≥ b) else if op = "<" then decide (a < b) else if op = "<=" then decide (a ≤ b) else false

def GuardAtom.eval (r : ReqShape) : GuardAtom → Bool
  | .bodyNotNoBody => r.body != .noBody
  | .bodyNotNil => r.body != .nilBody
  | .contentLength op n => cmpInt op r.contentLength n
  | .unreadable => false

/-- the read happens iff every conjunct holds -/
def evalGuard (g : List GuardAtom) (r : ReqShape) : Bool := g.all (GuardAtom.eval r)

/-- the guard of the pinned source (obligation `readGuard_is_source`: equal to the regenerated table) -/
def guardSrc : List GuardAtom := [.bodyNotNoBody, .bodyNotNil]

/-- rows of table `C06BodyRead` in the model's vocabulary -/
inductive ReadRow
  | atom (a : GuardAtom)
  | unguardedRead
  | emptyMeansMissing
  deriving DecidableEq, Repr

/-- the table of the pinned source -/
def readRowsSrc : List ReadRow := [.atom .bodyNotNoBody, .atom .bodyNotNil, .emptyMeansMissing]

def guardOf (rows : List ReadRow) : List GuardAtom :=
  rows.filterMap (fun r => match r with | .atom a => some a | _ => none)

/-- `data` after the first block: the stream's bytes when the read happens, no bytes otherwise
(the views of `BodyIn` are views of `text`; with `text = []` they are never looked at) -/
def dataRead (g : List GuardAtom) (r : ReqShape) (b : BodyIn) : BodyIn :=
  if evalGuard g r then b else { b with text := [] }

/-- `ValidateRequestBody` on a request of shape `r` whose stream (if any) holds `b` -/
def validateRequestR (g : List GuardAtom) (reg : List (Str × DecK)) (rb : ReqBody) (ct : Str) (r : ReqShape)
    (b : BodyIn) (exro ds : Bool) : Outcome :=
  validateRequestBodyD reg rb ct (dataRead g r b) exro ds

/-! ### The guard of default injection in `visitJSONObject` (table `C06DefaultGuard`)

      reqRO := settings.asreq && propSchema.Value.ReadOnly && !settings.readOnlyValidationDisabled
      repWO := settings.asrep && propSchema.Value.WriteOnly && !settings.writeOnlyValidationDisabled
      if _, present := value[propName]; !present && settings.defaultsSet != nil {
          if dflt := propSchema.Value.Default; dflt != nil && !reqRO && !repWO { value[propName] = deepcopy.Copy(dflt) … } }

The rows are data: two definitions of flags and the conjunction under which the write happens; `evalDRows` gives
them their meaning in an environment of the nine facts the atoms can look at. -/

inductive DVar | reqRO | repWO
  deriving DecidableEq, Repr

inductive DAtom
  | asreq | asrep | readOnly | writeOnly | notRODisabled | notWODisabled | dfltNotNil | absent | defaultsSet
  | notVar (v : DVar)
  | unreadable
  deriving DecidableEq, Repr

inductive DRow
  | define (v : DVar) (conj : List DAtom)
  | injectIf (conj : List DAtom)
  | unrecognised
  deriving DecidableEq, Repr

/-- what the atoms look at: the settings of the visit, the property's flags, whether it has a default, whether the
value lacks the property, whether `DefaultsSet` is installed -/
structure InjEnv where
  asreq : Bool
  asrep : Bool
  ro : Bool
  wo : Bool
  roDisabled : Bool
  woDisabled : Bool
  hasDflt : Bool
  absent : Bool
  defaultsSet : Bool
  deriving DecidableEq, Repr

def DAtom.eval (vars : DVar → Option Bool) (e : InjEnv) : DAtom → Bool
  | .asreq => e.asreq | .asrep => e.asrep | .readOnly => e.ro | .writeOnly => e.wo
  | .notRODisabled => !e.roDisabled | .notWODisabled => !e.woDisabled
  | .dfltNotNil => e.hasDflt | .absent => e.absent | .defaultsSet => e.defaultsSet
  | .notVar v => (match vars v with | some b => !b | none => false)
  | .unreadable => false

/-- does the write happen? (`none`: the rows contain no write, or something unreadable before it) -/
def evalDRows : List DRow → (DVar → Option Bool) → InjEnv → Option Bool
  | [], _, _ => none
  | .define v c :: rest, vars, e =>
      evalDRows rest (fun w => if w = v then some (c.all (DAtom.eval vars e)) else vars w) e
  | .injectIf c :: _, vars, e => some (c.all (DAtom.eval vars e))
  | .unrecognised :: _, _, _ => none

/-- the rows of the pinned source (obligation `defaultGuard_is_source`) -/
def dRowsSrc : List DRow :=
  [.define .reqRO [.asreq, .readOnly, .notRODisabled],
   .define .repWO [.asrep, .writeOnly, .notWODisabled],
   .injectIf [.absent, .defaultsSet, .dfltNotNil, .notVar .reqRO, .notVar .repWO]]

/-- the environment of a request-side visit (`VisitAsRequest`, `DefaultsSet` installed) at property `p` -/
def reqEnv (exro woDisabled absent : Bool) (p : RS) : InjEnv :=
  { asreq := true, asrep := false, ro := p.ro, wo := p.wo, roDisabled := exro, woDisabled := woDisabled,
    hasDflt := p.dflt.isSome, absent := absent, defaultsSet := true }

/-! ### From `openapi3filter.Options` to the settings of the visit (table `C06VisitOpts`)

`ValidateRequestBody` builds the option list of `VisitJSON` statement by statement; each row says under which
condition on `Options` one constructor is passed. The rows are data; `settingsOf (optsPassed rows o)` is what the
validator then works with. -/

inductive OptCond
  | always
  | ifOpt (o : String)
  | ifNotOpt (o : String)
  | ifSet (o : String)
  | visit                 -- the call of VisitJSON itself (closes the list)
  | unrecognised
  deriving DecidableEq, Repr

/-- the fields of `openapi3filter.Options` the conditions may look at -/
structure FilterOpts where
  exro : Bool            -- ExcludeReadOnlyValidations
  exwo : Bool            -- ExcludeWriteOnlyValidations
  skipDefaults : Bool    -- SkipSettingDefaults
  multi : Bool           -- MultiError
  customErr : Bool       -- customSchemaErrorFunc != nil
  regex : Bool           -- RegexCompiler != nil
  deriving DecidableEq, Repr

def FilterOpts.get (o : FilterOpts) (name : String) : Option Bool :=
  if name = "ExcludeReadOnlyValidations" then some o.exro
  else if name = "ExcludeWriteOnlyValidations" then some o.exwo
  else if name = "SkipSettingDefaults" then some o.skipDefaults
  else if name = "MultiError" then some o.multi
  else if name = "customSchemaErrorFunc" then some o.customErr
  else if name = "RegexCompiler" then some o.regex
  else none

def OptCond.holds (o : FilterOpts) : OptCond → Bool
  | .always => true
  | .ifOpt n => (o.get n).getD false
  | .ifNotOpt n => !((o.get n).getD true)
  | .ifSet n => (o.get n).getD false
  | .visit => false
  | .unrecognised => false

/-- names of the option constructors passed to `VisitJSON` -/
def optsPassed (rows : List (OptCond × String)) (o : FilterOpts) : List String :=
  (rows.filter (fun r => r.1.holds o)).map (·.2)

/-- the fields of `schemaValidationSettings` the request-side model depends on -/
structure VisitSettings where
  asreq : Bool
  asrep : Bool
  defaultsSet : Bool
  roDisabled : Bool
  woDisabled : Bool
  multi : Bool
  deriving DecidableEq, Repr

def settingsOf (fns : List String) : VisitSettings :=
  { asreq := fns.contains "VisitAsRequest", asrep := fns.contains "VisitAsResponse",
    defaultsSet := fns.contains "DefaultsSet", roDisabled := fns.contains "DisableReadOnlyValidation",
    woDisabled := fns.contains "DisableWriteOnlyValidation", multi := fns.contains "MultiErrors" }

/-- the rows of the pinned source (obligation `visitOpts_is_source`) -/
def optRowsSrc : List (OptCond × String) :=
  [(.always, "VisitAsRequest"), (.ifNotOpt "SkipSettingDefaults", "DefaultsSet"), (.ifOpt "MultiError", "MultiErrors"),
   (.ifSet "customSchemaErrorFunc", "SetSchemaErrorMessageCustomizer"),
   (.ifOpt "ExcludeReadOnlyValidations", "DisableReadOnlyValidation"),
   (.ifSet "RegexCompiler", "SetSchemaRegexCompiler"), (.visit, "VisitJSON")]

/-- the environment of the injection guard under given settings -/
def envOf (st : VisitSettings) (absent : Bool) (p : RS) : InjEnv :=
  { asreq := st.asreq, asrep := st.asrep, ro := p.ro, wo := p.wo, roDisabled := st.roDisabled,
    woDisabled := st.woDisabled, hasDflt := p.dflt.isSome, absent := absent, defaultsSet := st.defaultsSet }

/-! ### The body-decoder registry as state (`RegisterBodyDecoder` / `UnregisterBodyDecoder`, a process-wide Go map)

Every function of the model takes the registry as a parameter; here are the operations that change it between
validations. A Go map assignment replaces, `delete` removes; the empty key / nil decoder panics are not modelled
(never generated). -/

inductive RegOp
  | register (k : Str) (d : DecK)
  | unregister (k : Str)
  deriving Repr

def RegOp.key : RegOp → Str | .register k _ => k | .unregister k => k

/-- what the operation leaves under its key -/
def RegOp.effect : RegOp → Option DecK | .register _ d => some d | .unregister _ => none

def dropKey (k : Str) : List (Str × DecK) → List (Str × DecK)
  | [] => []
  | (k', v) :: r => if k' = k then dropKey k r else (k', v) :: dropKey k r

def regApply (reg : List (Str × DecK)) : RegOp → List (Str × DecK)
  | .register k d => (k, d) :: dropKey k reg
  | .unregister k => dropKey k reg

/-- the registry after a history of operations -/
def regApplyAll (reg : List (Str × DecK)) (ops : List RegOp) : List (Str × DecK) := ops.foldl regApply reg

/-- the specification of a history for one key: the last operation on that very key decides, else the initial entry -/
def lastOn (k : Str) (ops : List RegOp) (init : Option DecK) : Option DecK :=
  ops.foldl (fun acc op => if op.key = k then op.effect else acc) init

theorem lookup_dropKey_self (k : Str) : ∀ reg : List (Str × DecK), lookup k (dropKey k reg) = none
  | [] => rfl
  | (k', v) :: r => by
    have ih := lookup_dropKey_self k r
    by_cases h : k' = k
    · simp [dropKey, h, ih]
    · have h' : ¬ k = k' := fun e => h e.symm
      simp [dropKey, h, lookup, h', ih]

theorem lookup_dropKey_other (k k' : Str) (hk : k' ≠ k) : ∀ reg : List (Str × DecK), lookup k' (dropKey k reg) = lookup k' reg
  | [] => rfl
  | (k2, v) :: r => by
    have ih := lookup_dropKey_other k k' hk r
    by_cases h : k2 = k
    · have h' : ¬ k' = k2 := fun e => hk (e.trans h)
      simp [dropKey, h, ih]
      rw [← h]; simp [lookup, h']
    · by_cases h2 : k' = k2
      · simp [dropKey, h, lookup, h2]
      · simp [dropKey, h, lookup, h2, ih]

/-! ### Specification (property text: "for a request with a body … rejects … a missing required body") -/

/-- the body a request carries: the bytes of its stream; a request whose `Body` is nil or `http.NoBody` carries
none. `ContentLength` is an announcement, not the body: it plays no role. -/
def carried (r : ReqShape) (b : BodyIn) : BodyIn :=
  match r.body with
  | .stream => b
  | _ => { b with text := [] }

/-- the property for a request of shape `r` -/
def AcceptR (reg : List (Str × DecK)) (rb : ReqBody) (ct : Str) (r : ReqShape) (b : BodyIn) (exro : Bool) : Prop :=
  Accept reg rb ct (carried r b) exro

def acceptRB (reg : List (Str × DecK)) (rb : ReqBody) (ct : Str) (r : ReqShape) (b : BodyIn) (exro : Bool) : Bool :=
  acceptB reg rb ct (carried r b) exro

/-! ### A sequence of validations of one request object (the body is put back after every read)

After the read the code installs `GetBody` / `Body = io.NopCloser(bytes.NewReader(data))` and, when it had to install
its own `GetBody`, sets `ContentLength = len(data)`. So the shape changes between calls: -/

/-- shape of the request after one call on a request holding `n` bytes (`hadGetBody`: the request came with a
working `GetBody`, then `ContentLength` is left as it was) -/
def shapeAfter (g : List GuardAtom) (hadGetBody : Bool) (n : Nat) (r : ReqShape) : ReqShape :=
  if evalGuard g r then { body := .stream, contentLength := if hadGetBody then r.contentLength else n } else r

/-- outcomes of `k` successive calls on the same request object, with `SkipSettingDefaults` (without it an accepted
body may be rewritten with the completed value: the next call then sees another body — property C13) -/
def validateRepeated (g : List GuardAtom) (reg : List (Str × DecK)) (rb : ReqBody) (ct : Str) (hadGetBody : Bool)
    (b : BodyIn) (exro : Bool) : Nat → ReqShape → List Outcome
  | 0, _ => []
  | k + 1, r => validateRequestR g reg rb ct r b exro false ::
      validateRepeated g reg rb ct hadGetBody b exro k (shapeAfter g hadGetBody b.text.length r)

end KinModel.Body
