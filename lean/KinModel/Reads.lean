/-
C11 — model of what `openapi3.Loader` reads (openapi3/loader.go), and the spec "nothing beyond the root
unless external refs are allowed; with the switch on only resolutions of references found in loaded
documents against their own location".

The model follows the code of the ten `resolve<Kind>Ref` functions through ONE generic resolver
parameterised by the object kind (`resolve`), plus `walk` (the loops over sub-elements / over the
components of `ResolveRefsIn`) and `loadDoc` (`loadFromURIInternal` + `loadFromDataWithPathInternal`):

* `component.Value != nil → return`            : `marks` (keyed by document, load generation, node id)
* `shouldVisitRef / visitRef / unvisitRef`     : `inprog`, `pend` (backtrack callbacks)
* `isSingleRefElement → loadSingleElementFromURI` : guard, resolve against `documentPath`, read, and the
  new current location (all ten resolvers assign the result to `documentPath` since 0a3c233)
* `resolveComponent`: `resolveRefAndDocument` (guard inside `resolveRefPath`, read BEFORE the
  `visitedDocuments` look-up, full `ResolveRefsIn` of a document seen for the first time), the typed
  drill into `componentDoc`, the raw re-read fallback of `componentPath` (the REFERENCED document since
  f972c33; for a '#'-reference that is the caller's `documentPath`), the recursive call on the copy with
  `(componentDoc, componentPath)`, then the second walk of the value's children with the OUTER
  `(doc, documentPath)`; path items re-assign `(doc, documentPath)` instead, and a drilled path item that
  is itself a `$ref` is resolved (as a copy) before it is assigned (9b25d89).
* the in-progress set and the backtrack callbacks are keyed by kind AND reference text (7245059): the same text met
  as another kind is resolved on its own.
* a whole-file path item whose file is itself `{$ref: …}` is resolved (as a copy, against the file's location) before
  it is assigned (376b90f).
* reads performed before an error are part of the outcome (the log is kept on every path).

Path items have no `Value`: the code tests `!pathItem.isEmpty()` instead; the model treats a path item
that was assigned from a loaded/drilled one as set, unless the file it was loaded from is empty as a path item
(`File.emptyPI`: the item stays empty, is never "set", and is resolved again on every visit); inline path items
are non-empty in the generated inputs.

Abstracted (inputs of the model, validated by the differential run): `url.Parse` of a reference text
(the case carries scheme/host/path/fragment), JSON/YAML parsing (`parses`), the position tables of the
resolvers (a node's `kids` are listed in the order the resolver of its kind visits them), the typed
drill and the raw drill as fragment → node tables.  Path algebra (`path.Dir`, `path.Join`,
`path.Clean`) is modelled on segment lists.
-/
namespace KinModel.Reads

/-! ### locations and the path algebra of `resolvePath` / `join` -/

structure Url where
  scheme : String
  host : String
  rooted : Bool
  segs : List String
  deriving DecidableEq, Repr

/-- one step of Go's `path.Clean` over the segments seen so far -/
def cleanStep (rooted : Bool) (acc : List String) (s : String) : List String :=
  if s = "" ∨ s = "." then acc
  else if s = ".." then
    match acc.getLast? with
    | none => if rooted then acc else acc ++ [".."]
    | some l => if l = ".." then acc ++ [".."] else acc.dropLast
  else acc ++ [s]

def cleanSegs (rooted : Bool) (segs : List String) : List String :=
  match segs.foldl (cleanStep rooted) [] with
  | [] => if rooted then [] else ["."]
  | r => r

/-- `path.Dir`: everything up to the last slash, cleaned -/
def dirSegs (rooted : Bool) (segs : List String) : List String := cleanSegs rooted segs.dropLast

/-- `path.Join(path.Dir(base), rel)` -/
def joinSegs (rooted : Bool) (base rel : List String) : List String :=
  cleanSegs rooted (dirSegs rooted base ++ rel)

def Url.pathEmpty (u : Url) : Bool := !u.rooted && u.segs.isEmpty

/-- `is_file` of loader_uri_reader.go -/
def Url.isFile (u : Url) : Bool :=
  !u.pathEmpty && u.host == "" && (u.scheme == "" || u.scheme == "file")

/-- `resolvePathWithRef` minus the fragment: `resolvePath(base, parsed)` -/
def resolvePath (base : Option Url) (c : Url) : Url :=
  if c.isFile then
    if c.rooted then c
    else match base with
      | none => c
      | some b => { b with segs := joinSegs b.rooted b.segs c.segs }
  else c

/-! ### documents -/

inductive Kind where
  | header | parameter | requestBody | response | schema | securityScheme | example | callback | link | pathItem
  deriving DecidableEq, Repr

inductive Form where
  | internal   -- text starts with '#'
  | whole      -- no '#' in the text: `isSingleRefElement`
  | fragment   -- location + '#' + fragment
  deriving DecidableEq, Repr

structure Ref where
  text : String      -- key of `visitedRefs`
  form : Form
  url : Url          -- `url.Parse(text)` without the fragment
  frag : String
  badFrag : Bool     -- fragment non-empty and not starting with '/'
  deriving DecidableEq, Repr

inductive Node where
  | mk (id : Nat) (kind : Kind) (ref : Option Ref) (kids : List Node)

def Node.id : Node → Nat | .mk i _ _ _ => i
def Node.kind : Node → Kind | .mk _ k _ _ => k
def Node.ref : Node → Option Ref | .mk _ _ r _ => r
def Node.kids : Node → List Node | .mk _ _ _ ks => ks

mutual
def Node.refs : Node → List Ref
  | .mk _ _ r kids => r.toList ++ refsList kids
def refsList : List Node → List Ref
  | [] => []
  | n :: ns => n.refs ++ refsList ns
end

structure File where
  parses : Bool                    -- JSON/YAML unmarshal succeeds
  tops : List Node                 -- as a document: the elements `ResolveRefsIn` visits, in its order
  elems : List (Kind × List Node)  -- as a single element read by the resolver of a kind: the sub-elements that resolver visits
  typed : List (String × Node)     -- fragment → element found by the typed drill
  raw : List (String × Node)       -- fragment → element found by the raw drill of the re-read fallback
  conflict : Bool := false         -- as a single element it has both a `schema` and a `content` member (an error for a parameter)
  emptyPI : Bool := false          -- read as a path item it is empty (`isEmpty()`: no summary, description, operation, server, parameter)
  selfRef : Option Ref := none     -- the file is `{"$ref": …}`: what a path-item reference to the whole file finds (`p.Ref != ""`)

def refsViews : List (Kind × List Node) → List Ref
  | [] => []
  | (_, ks) :: rest => refsList ks ++ refsViews rest

def File.refs (f : File) : List Ref :=
  refsList f.tops ++ refsViews f.elems ++ refsList (f.typed.map (·.2)) ++ refsList (f.raw.map (·.2)) ++ f.selfRef.toList

inductive Entry where
  | file | data | dataWithPath
  deriving DecidableEq, Repr

structure Input where
  allowed : Bool                   -- Loader.IsExternalRefsAllowed
  entry : Entry
  rootLoc : Option Url
  rootFile : File
  rootInStore : Bool               -- reading the root location yields the root file (else a read error)
  store : List (Url × File)

/-- the root's location: none for `LoadFromData` -/
def Input.root (inp : Input) : Option Url :=
  match inp.entry with
  | .data => none
  | _ => inp.rootLoc

def assoc {α β : Type} [DecidableEq α] (k : α) : List (α × β) → Option β
  | [] => none
  | (k', v) :: rest => if k' = k then some v else assoc k rest

/-- the sub-elements the resolver of `k` visits in the file read as a single element (none when the file has no
    position that resolver knows) -/
def File.elemAs (f : File) (k : Kind) : List Node :=
  match assoc k f.elems with
  | some ks => ks
  | none => []

/-- what a read of `u` yields -/
def storeAt (inp : Input) (u : Url) : Option File :=
  if some u = inp.root then (if inp.rootInStore then some inp.rootFile else none)
  else assoc u inp.store

/-- the content of the document at location `d` -/
def docAt (inp : Input) (d : Option Url) : Option File :=
  if d = inp.root then some inp.rootFile
  else match d with
    | none => none
    | some u => assoc u inp.store

def refsAt (inp : Input) (d : Option Url) : List Ref :=
  match docAt inp d with
  | some f => f.refs
  | none => []

/-! ### loader state -/

abbrev Home := Option Url × Nat      -- document location, load generation (0 = cached document)
abbrev Key := Home × Nat
abbrev Val := Home × List Node       -- a resolved value: where its sub-elements live, and those

structure St where
  log : List Url                     -- locations passed to `ReadFromURIFunc`, in order
  foreign : Bool                     -- some guarded read went to a location that is NOT the resolution of its reference against its own document's location
  oof : Bool                         -- out of fuel (never with enough fuel)
  docs : List Url                    -- `visitedDocuments`
  marks : List (Key × Val)           -- components whose `Value` is set
  inprog : List (Kind × String)      -- `visitedRefs`, keyed by kind and reference text (7245059)
  pend : List (String × Kind × Key)  -- `backtrack`: reference text and kind (the key), component to assign
  tr : List Nat                      -- branch trace (coverage evidence only; no definition reads it)
  gen : Nat := 0                     -- number of reads in the loader's life: names the copy a read produces (never reset)

def St.init : St := ⟨[], false, false, [], [], [], [], [], 0⟩

/-- record that branch `n` was taken (coverage evidence) -/
def tick (n : Nat) (st : St) : St := { st with tr := n :: st.tr }

inductive Res where
  | err
  | ok (v : Option Val)

structure Cx where
  doc : Option Url       -- the typed document `doc` ('#' references drill into it)
  path : Option Url      -- `documentPath`

def logRead (aligned : Bool) (u : Url) (st : St) : St :=
  { st with log := st.log ++ [u], foreign := st.foreign || !aligned, gen := st.gen + 1 }

def setMark (copy : Bool) (k : Key) (v : Val) (st : St) : St :=
  if copy then st else { st with marks := (k, v) :: st.marks }

def addPend (copy : Bool) (text : String) (kind : Kind) (k : Key) (st : St) : St :=
  if copy then st else { st with pend := (text, kind, k) :: st.pend }

/-- `unvisitRef(key, value)`: the callbacks registered under the key (kind, text) run with the value -/
def unvisit (text : String) (kind : Kind) (v : Option Val) (st : St) : St :=
  { st with
    inprog := st.inprog.erase (kind, text)
    pend := st.pend.filter (fun p => !(p.1 == text && decide (p.2.1 = kind)))
    marks := match v with
      | none => st.marks
      | some val => (st.pend.filter (fun p => p.1 == text && decide (p.2.1 = kind))).map (fun p => (p.2.2, val)) ++ st.marks
    tr := (if (st.pend.any (fun p => p.1 == text && decide (p.2.1 = kind))) && v.isSome then [11] else []) ++ st.tr }

/-- the guard `allowsExternalRefs`, then `resolvePathWithRef(ref, documentPath)`;
    also tells whether the location obtained is the resolution of the reference against the location of the
    document the reference was found in (`home`) — it is whenever `documentPath` is that location -/
def guardExt (inp : Input) (cx : Cx) (home : Home) (r : Ref) : Option (Url × Bool) :=
  if inp.allowed then
    some (resolvePath cx.path r.url, decide (resolvePath cx.path r.url = resolvePath home.1 r.url))
  else none

/-- the two drills of `resolveComponent`: typed into `componentDoc`, raw into a fresh read of `componentPath` -/
def drill (inp : Input) (cdoc cpath : Option Url) (frag : String) (kind : Kind) (st : St) :
    St × Option (Home × Node) :=
  match (docAt inp cdoc).bind (fun f => assoc frag f.typed) with
  | some t => if t.kind = kind then (tick 7 st, some ((cdoc, 0), t)) else (tick 9 st, none)
  | none =>
    match cpath with
    | none => (tick 17 st, none)
    | some p =>
      match storeAt inp p with
      | none => (tick 12 (logRead true p st), none)
      | some file =>
        if file.parses then
          match assoc frag file.raw with
          | none => (tick 18 (logRead true p st), none)
          | some t => (tick 8 (logRead true p st), some ((some p, st.gen + 1), t))
        else (tick 13 (logRead true p st), none)

def okRes (ok : Bool) (v : Val) : Res := if ok then .ok (some v) else .err

mutual
/-- one `resolve<Kind>Ref(doc, component, documentPath)` -/
def resolve (inp : Input) : Nat → Cx → Home → Bool → Node → St → St × Res
  | 0, _, _, _, _, st => ({ st with oof := true }, .err)
  | f + 1, cx, home, copy, .mk id kind ref kids, st =>
    match ref with
    | none =>
      match walk inp f cx home kids st with
      | (st1, ok) => (st1, okRes ok (home, kids))
    | some r =>
      match assoc (home, id) st.marks with
      | some v => (tick 1 st, .ok (some v))
      | none =>
        if (kind, r.text) ∈ st.inprog then (tick 2 (addPend copy r.text kind (home, id) st), .ok none)
        else
          match r.form with
          | .whole =>
            match guardExt inp cx home r with
            | none => (tick 3 { st with inprog := (kind, r.text) :: st.inprog }, .err)
            | some (u, al) =>
              match storeAt inp u with
              | none => (tick 12 (logRead al u { st with inprog := (kind, r.text) :: st.inprog }), .err)
              | some file =>
                if file.parses then
                  -- resolveParameterRef: "cannot contain both schema and content in a parameter"
                  if kind = .parameter && file.conflict then (tick 22 (logRead al u { st with inprog := (kind, r.text) :: st.inprog }), .err) else
                  -- `*pathItem = p` with an empty p: nothing to walk, the item stays unset, the callbacks copy an empty item
                  if kind = .pathItem && file.selfRef.isSome then
                    -- `p.Ref != ""`: `resolvePathItemRef(doc, &p, documentPath)` with the loaded file's location, then `*pathItem = p`
                    match resolve inp f ⟨cx.doc, some u⟩ (some u, st.gen + 1) true (.mk 0 .pathItem file.selfRef [])
                        (tick 24 (logRead al u { st with inprog := (kind, r.text) :: st.inprog })) with
                    | (st1, .err) => (st1, .err)
                    | (st1, .ok none) => (tick 25 (unvisit r.text kind none st1), .ok none)
                    | (st1, .ok (some val)) =>
                      match walk inp f ⟨cx.doc, some u⟩ val.1 val.2 (setMark copy (home, id) val st1) with
                      | (st2, ok) => (unvisit r.text kind (some val) st2, okRes ok val)
                  else
                  if kind = .pathItem && file.emptyPI then
                    (tick 23 (unvisit r.text kind none (logRead al u { st with inprog := (kind, r.text) :: st.inprog })), .ok none) else
                  match walk inp f ⟨cx.doc, some u⟩ (some u, st.gen + 1) (file.elemAs kind)
                      (setMark copy (home, id) ((some u, st.gen + 1), file.elemAs kind)
                        (tick 4 (logRead al u { st with inprog := (kind, r.text) :: st.inprog }))) with
                  | (st1, ok) =>
                    (unvisit r.text kind (some ((some u, st.gen + 1), file.elemAs kind)) st1,
                     okRes ok ((some u, st.gen + 1), file.elemAs kind))
                else (tick 13 (logRead al u { st with inprog := (kind, r.text) :: st.inprog }), .err)
          | .internal =>
            fragStep inp f cx home copy id kind r cx.doc cx.path { st with inprog := (kind, r.text) :: st.inprog }
          | .fragment =>
            match guardExt inp cx home r with
            | none => (tick 3 { st with inprog := (kind, r.text) :: st.inprog }, .err)
            | some (u, al) =>
              match loadDoc inp f al u { st with inprog := (kind, r.text) :: st.inprog } with
              | (st1, false) => (st1, .err)
              | (st1, true) => fragStep inp f cx home copy id kind r (some u) (some u) (tick 5 st1)
/-- `resolveComponent` after `resolveRefAndDocument`, and what the resolver does with its result -/
def fragStep (inp : Input) : Nat → Cx → Home → Bool → Nat → Kind → Ref → Option Url → Option Url → St → St × Res
  | 0, _, _, _, _, _, _, _, _, st => ({ st with oof := true }, .err)
  | f + 1, cx, home, copy, id, kind, r, cdoc, cpath, st =>
    if r.badFrag then (tick 14 st, .err)
    else
      match drill inp cdoc cpath r.frag kind st with
      | (st1, none) => (st1, .err)
      | (st1, some (thome, t)) =>
        if kind = .pathItem then
          match t.ref with
          | none =>
            match walk inp f ⟨cdoc, cpath⟩ thome t.kids (setMark copy (home, id) (thome, t.kids) (tick 10 st1)) with
            | (st2, ok) => (unvisit r.text kind (some (thome, t.kids)) st2, okRes ok (thome, t.kids))
          | some _ =>
            -- the drilled path item is itself a reference: `resolvePathItemRef(doc, &resolved, documentPath)` first
            match resolve inp f ⟨cdoc, cpath⟩ thome true t st1 with
            | (st2, .err) => (st2, .err)
            | (st2, .ok none) => (tick 19 (unvisit r.text kind none st2), .ok none)
            | (st2, .ok (some val)) =>
              match walk inp f ⟨cdoc, cpath⟩ val.1 val.2 (setMark copy (home, id) val (tick 20 st2)) with
              | (st3, ok) => (unvisit r.text kind (some val) st3, okRes ok val)
        else
          match resolve inp f ⟨cdoc, cpath⟩ thome true t st1 with
          | (st2, .err) => (st2, .err)
          | (st2, .ok none) => (tick 16 (unvisit r.text kind none st2), .ok none)
          | (st2, .ok (some val)) =>
            match walk inp f cx val.1 val.2 (setMark copy (home, id) val st2) with
            | (st3, ok) => (unvisit r.text kind (some val) st3, okRes ok val)
/-- the loops over sub-elements (and over the components and paths in `ResolveRefsIn`) -/
def walk (inp : Input) : Nat → Cx → Home → List Node → St → St × Bool
  | _, _, _, [], st => (st, true)
  | 0, _, _, _ :: _, st => ({ st with oof := true }, false)
  | f + 1, cx, home, n :: ns, st =>
    match resolve inp f cx home false n st with
    | (st1, .err) => (st1, false)
    | (st1, .ok _) => walk inp f cx home ns st1
/-- `loadFromURIInternal`: read first, then `loadFromDataWithPathInternal` (cache, parse, `ResolveRefsIn`) -/
def loadDoc (inp : Input) : Nat → Bool → Url → St → St × Bool
  | 0, _, _, st => ({ st with oof := true }, false)
  | f + 1, al, u, st =>
    match storeAt inp u with
    | none => (tick 12 (logRead al u st), false)
    | some file =>
      if u ∈ st.docs then (tick 6 (logRead al u st), true)
      else if file.parses then
        walk inp f ⟨some u, some u⟩ (some u, 0) file.tops { (logRead al u st) with docs := u :: st.docs }
      else (tick 13 { (logRead al u st) with docs := u :: st.docs }, false)
end

/-- `LoadFromFile` / `LoadFromURI`, `LoadFromDataWithPath`, `LoadFromData` on a loader in state `st0` (what an earlier
    load left behind: nothing since c555d93, see `carry`; the parameter documents that the entry points start from the loader's state -/
def loadFrom (inp : Input) (fuel : Nat) (st0 : St) : St × Bool :=
  match inp.entry with
  | .file =>
    match inp.rootLoc with
    | none => (st0, false)
    | some u => loadDoc inp fuel true u st0
  | .dataWithPath =>
    match inp.rootLoc with
    | none => (st0, false)
    | some u =>
      -- `loadFromDataWithPathInternal`: a location seen before yields the earlier document, nothing is resolved
      if u ∈ st0.docs then (tick 6 st0, true)
      else if inp.rootFile.parses then
        walk inp fuel ⟨some u, some u⟩ (some u, 0) inp.rootFile.tops { st0 with docs := u :: st0.docs }
      else ({ st0 with docs := u :: st0.docs }, false)
  | .data =>
    if inp.rootFile.parses then walk inp fuel ⟨none, none⟩ (none, 0) inp.rootFile.tops st0
    else (st0, false)

/-- one load on a fresh `Loader` -/
def load (inp : Input) (fuel : Nat) : St × Bool := loadFrom inp fuel St.init

/-! ### histories: several loads on ONE `Loader`

Every entry point (`LoadFromURI`, `LoadFromData`, `LoadFromDataWithPath`) calls `resetVisitedPathItemRefs`, which
clears the in-progress set, the callbacks AND (since c555d93) `visitedDocuments`: the documents cache belongs to one
load.  What survives a load is `rootLocation` / `rootDir`, which the loader assigns but never reads, and the caller's
settings (table LoaderState).  So nothing of the state the model tracks is carried: -/

/-- the loader state the next load starts from (`resetVisitedPathItemRefs`) -/
def carry (_ : St) : St := St.init

structure StepOut where
  inp : Input
  st : St
  ok : Bool

def runH : List Input → Nat → St → List StepOut
  | [], _, _ => []
  | inp :: rest, fuel, st0 =>
    ⟨inp, (loadFrom inp fuel st0).1, (loadFrom inp fuel st0).2⟩ :: runH rest fuel (carry (loadFrom inp fuel st0).1)

/-- the loads of a history, each with the state it ends in -/
def history (steps : List Input) (fuel : Nat) : List StepOut := runH steps fuel St.init

/-! ### spec (written from the property text) -/

/-- the document at `d` has been loaded before: it is the root, or `d` was read earlier (in THIS load: what an
    earlier load on the same `Loader` read does not count, see `history`) -/
def Loaded (inp : Input) (pre : List Url) (d : Option Url) : Prop :=
  d = inp.root ∨ ∃ u ∈ pre, d = some u

/-- `u` is the root, or the resolution of a reference found in an already-loaded document against that
    document's own location -/
def Justified (inp : Input) (pre : List Url) (u : Url) : Prop :=
  some u = inp.root ∨
  ∃ d, Loaded inp pre d ∧ ∃ r ∈ refsAt inp d, r.form ≠ Form.internal ∧ u = resolvePath d r.url

/-- second sentence of the property, for a sequence of reads -/
def AllJust (inp : Input) (log : List Url) : Prop :=
  ∀ pre u post, log = pre ++ u :: post → Justified inp pre u

/-- first sentence of the property -/
def OnlyRoot (inp : Input) (log : List Url) : Prop := ∀ u ∈ log, some u = inp.root

def Spec (inp : Input) (log : List Url) : Prop :=
  if inp.allowed then AllJust inp log else OnlyRoot inp log

def justifiedB (inp : Input) (pre : List Url) (u : Url) : Bool :=
  decide (some u = inp.root) ||
  (inp.root :: pre.map some).any (fun d =>
    (refsAt inp d).any (fun r => decide (r.form ≠ Form.internal) && decide (u = resolvePath d r.url)))

def allJustFrom (inp : Input) : List Url → List Url → Bool
  | _, [] => true
  | pre, u :: post => justifiedB inp pre u && allJustFrom inp (pre ++ [u]) post

def allJustB (inp : Input) (log : List Url) : Bool := allJustFrom inp [] log
def onlyRootB (inp : Input) (log : List Url) : Bool := log.all (fun u => decide (some u = inp.root))
def specB (inp : Input) (log : List Url) : Bool :=
  if inp.allowed then allJustB inp log else onlyRootB inp log


/-- the pairs (document location, read location) the spec admits: edges of "may be read once d is loaded" -/
def specEdges (inp : Input) (cands : List (Option Url)) : List (Option Url × Url) :=
  cands.flatMap (fun d =>
    ((refsAt inp d).filter (fun r => decide (r.form ≠ Form.internal))).map (fun r => (d, resolvePath d r.url)))

/-! ### uniform universes (a static class on which the second sentence holds without exclusion) -/

/-- the locations of the file universe: the root's and every stored file's -/
def univ (inp : Input) : List (Option Url) := inp.root :: inp.store.map (fun e => some e.1)

/-- every non-'#' reference of every file resolves to the same location from every location of the universe:
    all references absolute (absolute paths, URLs), or all files in one directory, or any mixture for which the
    base does not matter -/
def Uniform (inp : Input) : Prop :=
  ∀ d ∈ univ inp, ∀ r ∈ refsAt inp d, r.form ≠ Form.internal →
    ∀ d' ∈ univ inp, resolvePath d' r.url = resolvePath d r.url

instance (inp : Input) : Decidable (Uniform inp) := by unfold Uniform; infer_instance

/-! ### the caching reader `URIMapCache` (loader_uri_reader.go; `DefaultReadFromURI` is `URIMapCache(ReadFromURIs(…))`)

The loader hands every location to `ReadFromURIFunc`; when that is `URIMapCache(reader)`, the locations that reach
the underlying `reader` are the ones not yet cached.  A relative file path is never cached; any other location is
cached once a read of it has succeeded. -/

/-- `location.Scheme == "" || location.Scheme == "file"` and `!filepath.IsAbs(location.Path)`: not cached -/
def Url.cacheable (u : Url) : Bool := !((u.scheme == "" || u.scheme == "file") && !u.rooted)

/-- the sub-sequence of `log` that reaches the reader wrapped by `URIMapCache`, given the locations cached so far -/
def cacheFilter (inp : Input) : List Url → List Url → List Url
  | _, [] => []
  | cached, u :: rest =>
    if u ∈ cached then cacheFilter inp cached rest
    else u :: cacheFilter inp (if u.cacheable && (storeAt inp u).isSome then u :: cached else cached) rest

/-! ### the walked positions (what the order of a node's `kids` stands for)

(function, callee, component argument, enclosing loops) in source order; `sorted(m)` = the keys of map `m` in sorted
order.  Compared with the table regenerated from openapi3/loader.go by `walk_sites_as_modelled` (Props/C11.lean). -/
def expectedWalk : List (String × String × String × String) := [
  ("ResolveRefsIn", "resolveHeaderRef", "components.Headers[name]", "sorted(components.Headers)"),
  ("ResolveRefsIn", "resolveParameterRef", "components.Parameters[name]", "sorted(components.Parameters)"),
  ("ResolveRefsIn", "resolveRequestBodyRef", "components.RequestBodies[name]", "sorted(components.RequestBodies)"),
  ("ResolveRefsIn", "resolveResponseRef", "components.Responses[name]", "sorted(components.Responses)"),
  ("ResolveRefsIn", "resolveSchemaRef", "components.Schemas[name]", "sorted(components.Schemas)"),
  ("ResolveRefsIn", "resolveSecuritySchemeRef", "components.SecuritySchemes[name]", "sorted(components.SecuritySchemes)"),
  ("ResolveRefsIn", "resolveExampleRef", "components.Examples[name]", "sorted(components.Examples)"),
  ("ResolveRefsIn", "resolveCallbackRef", "components.Callbacks[name]", "sorted(components.Callbacks)"),
  ("ResolveRefsIn", "resolveLinkRef", "components.Links[name]", "sorted(components.Links)"),
  ("ResolveRefsIn", "resolvePathItemRef", "pathItems[name]", "sorted(pathItems)"),
  ("resolveHeaderRef", "resolveHeaderRef", "&resolved", ""),
  ("resolveHeaderRef", "resolveContentRefs", "value.Content", ""),
  ("resolveHeaderRef", "resolveSchemaRef", "value.Schema", ""),
  ("resolveHeaderRef", "resolveExampleRefs", "value.Examples", ""),
  ("resolveParameterRef", "resolveParameterRef", "&resolved", ""),
  ("resolveParameterRef", "resolveContentRefs", "value.Content", ""),
  ("resolveParameterRef", "resolveSchemaRef", "value.Schema", ""),
  ("resolveParameterRef", "resolveExampleRefs", "value.Examples", ""),
  ("resolveRequestBodyRef", "resolveRequestBodyRef", "&resolved", ""),
  ("resolveRequestBodyRef", "resolveContentRefs", "value.Content", ""),
  ("resolveContentRefs", "resolveExampleRefs", "contentType.Examples", "sorted(content)"),
  ("resolveContentRefs", "resolveSchemaRef", "contentType.Schema", "sorted(content)"),
  ("resolveContentRefs", "resolveHeaderRef", "encoding.Headers[name]", "sorted(content);sorted(contentType.Encoding);sorted(encoding.Headers)"),
  ("resolveExampleRefs", "resolveExampleRef", "examples[name]", "sorted(examples)"),
  ("resolveResponseRef", "resolveResponseRef", "&resolved", ""),
  ("resolveResponseRef", "resolveHeaderRef", "value.Headers[name]", "sorted(value.Headers)"),
  ("resolveResponseRef", "resolveContentRefs", "value.Content", ""),
  ("resolveResponseRef", "resolveLinkRef", "value.Links[name]", "sorted(value.Links)"),
  ("resolveSchemaRef", "resolveSchemaRef", "&resolved", ""),
  ("resolveSchemaRef", "resolveSchemaRef", "value.Items", ""),
  ("resolveSchemaRef", "resolveSchemaRef", "value.Properties[name]", "sorted(value.Properties)"),
  ("resolveSchemaRef", "resolveSchemaRef", "value.AdditionalProperties.Schema", ""),
  ("resolveSchemaRef", "resolveSchemaRef", "value.Not", ""),
  ("resolveSchemaRef", "resolveSchemaRef", "each(value.AllOf)", "value.AllOf"),
  ("resolveSchemaRef", "resolveSchemaRef", "each(value.AnyOf)", "value.AnyOf"),
  ("resolveSchemaRef", "resolveSchemaRef", "each(value.OneOf)", "value.OneOf"),
  ("resolveSecuritySchemeRef", "resolveSecuritySchemeRef", "&resolved", ""),
  ("resolveExampleRef", "resolveExampleRef", "&resolved", ""),
  ("resolveCallbackRef", "resolveCallbackRef", "&resolved", ""),
  ("resolveCallbackRef", "resolvePathItemRef", "pathItems[name]", "sorted(pathItems)"),
  ("resolveLinkRef", "resolveLinkRef", "&resolved", ""),
  ("resolvePathItemRef", "resolvePathItemRef", "&p", ""),
  ("resolvePathItemRef", "resolvePathItemRef", "&resolved", ""),
  ("resolvePathItemRef", "resolveParameterRef", "each(pathItem.Parameters)", "pathItem.Parameters"),
  ("resolvePathItemRef", "resolveParameterRef", "each(operation.Parameters)", "sorted(operations);operation.Parameters"),
  ("resolvePathItemRef", "resolveRequestBodyRef", "operation.RequestBody", "sorted(operations)"),
  ("resolvePathItemRef", "resolveResponseRef", "responses[name]", "sorted(operations);sorted(responses)"),
  ("resolvePathItemRef", "resolveCallbackRef", "operation.Callbacks[name]", "sorted(operations);sorted(operation.Callbacks)")]

end KinModel.Reads
