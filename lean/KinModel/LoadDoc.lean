/-
C20 — from a parsed document (JSON tree) to the abstract loader's world, and the exclusion predicates
(known-finding classes) as decidable functions of the document.

  * `drill`      model of `resolveComponent`'s drill closure and `drillIntoField` (openapi3/loader.go)
                 over the GENERATED struct table `Gen.c20Fields` (go/cmd/extract/c20types.go): map key,
                 slice index, tagged struct field, `Value` fall-through of the reference wrappers,
                 `Extensions`, the special cases `*T` + "", `*SchemaRef` + "additionalProperties",
                 `*Responses/*Callback/*Paths` → `.m`, typed nil pointers, the raw re-read fallback.
  * `toNode`     the loader's walk (`ResolveRefsIn` and the ten `resolve*Ref`): which wrapper positions
                 below a value are visited, in which order.
  * `mkWorld`    `World.target` for the abstract loader of `KinModel.LoadSafety`.
  * class predicates: `kindClash` (#12), `nilTarget`, `drillNil`, `encodingHeader` (#41), `unresolved` (#34),
                 `nullWrapper`, `nullMember`, `emptyCycle`, `compositionCycle`, `callbackCycle`.
Decoding is over-approximated: a member whose JSON shape does not fit its Go type makes the real load
fail with an error (never a panic); the model skips such members.
-/
import KinModel.LoadSafety
import KinModel.LoadTypes
import KinModel.Gen.C20Types
import KinModel.Gen.C20Loader

namespace KinModel.LoadDoc
open KinModel.LoadSafety KinModel.LoadTypes

inductive JV
  | null | bool (b : Bool) | num (s : String) | str (s : String)
  | arr (xs : List JV) | obj (kvs : List (String × JV))
  deriving Inhabited, Repr

def JV.isNull : JV → Bool | .null => true | _ => false
def JV.fields : JV → List (String × JV) | .obj kvs => kvs | _ => []
def JV.items : JV → List JV | .arr xs => xs | _ => []
def JV.get? (j : JV) (k : String) : Option JV := (j.fields.find? (·.1 == k)).map (·.2)
/-- member present and not null -/
def JV.getNN? (j : JV) (k : String) : Option JV := match j.get? k with | some .null => none | r => r
def JV.isObj : JV → Bool | .obj _ => true | _ => false
def JV.strVal? : JV → Option String | .str s => some s | _ => none
/-- the `$ref` text of an object (UnmarshalJSON of the wrappers: a non-empty string; with anything else the
    object is decoded as the value) -/
def JV.refText? (j : JV) : Option String :=
  match j.get? "$ref" with
  | some (.str s) => if s.isEmpty then none else some s
  | some (.num "inf") => some "<number beyond float64>"     -- read as a string by the YAML fallback (typed members only)
  | _ => none

/-- a plainly decoded (extension) value: a number beyond float64 stays a number there -/
def JV.plain : Nat → JV → JV
  | 0, j => j
  | _, .num "inf" => .num "nz"
  | fuel + 1, .arr xs => .arr (xs.map (JV.plain fuel))
  | fuel + 1, .obj kvs => .obj (kvs.map (fun kv => (kv.1, JV.plain fuel kv.2)))
  | _, j => j

/-- the `$ref` of a path item (a plain struct field `Ref string`): a number or boolean there makes
    `json.Unmarshal` fail, and the YAML fallback of `unmarshal` reads it as a string — some text without '#'
    (a whole-file reference that resolves to nothing) -/
def JV.refTextPI? (j : JV) : Option String :=
  match j.get? "$ref" with
  | some (.str s) => if s.isEmpty then none else some s
  | some (.num _) => some "<number>"
  | some (.bool _) => some "<boolean>"
  | _ => none

def JV.refTextK? (k : KinModel.LoadSafety.Kind) (j : JV) : Option String :=
  if k == .pathItem then j.refTextPI? else j.refText?

/-! ### struct table access -/

/-- the table grouped by owner (evaluated once) -/
@[irreducible] def fieldsByOwner : List (String × List Field) :=
  (Gen.c20Fields.foldl (fun (acc : List String) f => if acc.contains f.owner then acc else acc ++ [f.owner]) []).map
    (fun o => (o, Gen.c20Fields.filter (·.owner == o)))
def taggedFields (owner : String) : List Field := ((fieldsByOwner.find? (·.1 == owner)).map (·.2)).getD []
def fieldTy? (owner tag : String) : Option Ty := ((taggedFields owner).find? (·.tag == tag)).map (·.ty)
def wrapperValueTy? (name : String) : Option Ty := (Gen.c20Wrappers.find? (·.1 == name)).map (·.2)
def maplikeTy? (name : String) : Option Ty := (Gen.c20Maplikes.find? (·.1 == name)).map (·.2)
def extensionsFirst (name : String) : Bool := Gen.c20ExtensionsFirst.contains name

def kindOfStruct? : String → Option Kind
  | "HeaderRef" => some .header | "ParameterRef" => some .parameter | "RequestBodyRef" => some .requestBody
  | "ResponseRef" => some .response | "SchemaRef" => some .schema | "SecuritySchemeRef" => some .securityScheme
  | "ExampleRef" => some .example | "CallbackRef" => some .callback | "LinkRef" => some .link
  | "PathItem" => some .pathItem | _ => none

def structOfKind : Kind → String
  | .header => "HeaderRef" | .parameter => "ParameterRef" | .requestBody => "RequestBodyRef"
  | .response => "ResponseRef" | .schema => "SchemaRef" | .securityScheme => "SecuritySchemeRef"
  | .example => "ExampleRef" | .callback => "CallbackRef" | .link => "LinkRef" | .pathItem => "PathItem"

/-- `reflect.TypeOf(resolved)` for a resolver of the kind -/
def expectedTy (k : Kind) : Ty := .ptr (.struct (structOfKind k))

/-- members of a JSON object that are not tagged fields of the struct -/
def extensionsOf (owner : String) (j : JV) : List (String × JV) :=
  j.fields.filter (fun kv => (fieldTy? owner kv.1).isNone)

/-- what the `Extensions` field of a decoded struct holds: the members that are not tagged fields; for the
    map-like structs (`Paths`, `Callback`, `Responses`) only the `x-…` members (the others are entries) -/
def extensionsField (owner : String) (j : JV) : List (String × JV) :=
  if (maplikeTy? owner).isSome then (extensionsOf owner j).filter (fun kv => kv.1.startsWith "x-") else extensionsOf owner j

/-- entries of a map-like object (`Paths`, `Callback`, `Responses`; maplike.go `UnmarshalJSON`): neither
    `x-…` (extensions) nor `__origin__`; every entry is decoded into a fresh non-nil element, so a `null`
    path item is an empty path item (a `null` response is an empty wrapper: `isEmpty()`) -/
def maplikeEntries (name : String) (j : JV) : List (String × JV) :=
  ((extensionsOf name j).filter (fun kv => !kv.1.startsWith "x-" && kv.1 != "__origin__")).map
    (fun kv => if kv.2.isNull && name != "Responses" then (kv.1, JV.obj []) else kv)

/-! ### drill-down -/

/-- the cursor of the drill closure -/
inductive Cur
  | val (ty : Ty) (j : JV)     -- a non-nil Go value of type `ty` decoded from `j` (`null` = zero value of a map/slice/struct)
  | nilOf (ty : Ty)            -- a typed nil pointer
  | anyv (j : JV)              -- an interface value holding plainly decoded JSON
  deriving Inhabited

def Cur.isNil : Cur → Bool | .nilOf _ => true | _ => false

/-- outcome of `drillIntoField` (it has no panic of its own) -/
inductive FOut
  | found (c : Cur)
  | err
  deriving Inhabited

inductive DrillOut
  | found (c : Cur)
  | err
  | panic
  deriving Inhabited

def FOut.toDrill : FOut → DrillOut | .found c => .found c | .err => .err

/-- the Go value a member of type `ty` holds after decoding `j?` (absent member = `none`) -/
def mkCur (ty : Ty) (j? : Option JV) : Cur :=
  match ty, j? with
  | .ptr _, none => .nilOf ty
  | .ptr _, some .null => .nilOf ty
  | .any, none => .anyv .null
  | .any, some j => .anyv j
  | _, none => .val ty .null
  | _, some j => .val ty j

/-! String helpers over character lists (structural, so that the kernel can evaluate the model on concrete
    documents: `String.splitOn`, `contains`, `replace`, `all`, `toNat!` do not reduce there) -/

def hasChar (s : String) (c : Char) : Bool := s.toList.contains c

def splitChars (c : Char) : List Char → List Char → List (List Char)
  | [], cur => [cur.reverse]
  | x :: xs, cur => if x == c then cur.reverse :: splitChars c xs [] else splitChars c xs (x :: cur)

/-- `strings.Split(s, string(c))` -/
def splitOnChar (s : String) (c : Char) : List String := (splitChars c s.toList []).map String.ofList

def digitsVal : List Char → Nat → Nat
  | [], acc => acc
  | c :: cs, acc => digitsVal cs (acc * 10 + (c.toNat - 48))

/-- `strconv.ParseUint(s, 10, 32)` -/
def parseIndex (s : String) : Option Nat :=
  let cs := s.toList
  if cs.isEmpty || !cs.all Char.isDigit then none
  else
    let n := digitsVal cs 0
    if cs.length > 10 || n ≥ 4294967296 then none else some n

/-- `unescapeRefString`: "~1" → "/", then "~0" → "~" -/
def unesc1 : List Char → List Char
  | '~' :: '1' :: r => '/' :: unesc1 r
  | c :: r => c :: unesc1 r
  | [] => []
def unesc0 : List Char → List Char
  | '~' :: '0' :: r => '~' :: unesc0 r
  | c :: r => c :: unesc0 r
  | [] => []
def unescapeToken (s : String) : String := String.ofList (unesc0 (unesc1 s.toList))

/-- tokens of a fragment: "" counts as "/", it must start with '/' -/
def fragmentTokens (frag : String) : Option (List String) :=
  match (if frag.isEmpty then ['/'] else frag.toList) with
  | '/' :: rest => some ((splitChars '/' rest []).map (fun cs => unescapeToken (String.ofList cs)))
  | _ => none

structure Docs where
  root    : JV
  files   : List (String × JV)      -- other files, sorted by name; document number = position + 1
  ext     : Bool                    -- IsExternalRefsAllowed
  hasPath : Bool                    -- entry point gives the root a location (LoadFromDataWithPath / LoadFromFile)

def Docs.doc? (ds : Docs) (i : Nat) : Option JV :=
  if i == 0 then some ds.root else (ds.files[i - 1]?).map (·.2)

/-- file part of an external reference → document number (the spellings the generator uses; everything
    else is a read error) -/
def Docs.fileIndex? (ds : Docs) (from_ : Nat) (file : String) : Option Nat :=
  let f : String := if file.startsWith "file://" then (file.drop 7).copy else file
  -- a relative spelling is joined with the directory of the referring document: the root has none when it
  -- was loaded from bytes alone (the other documents always have a location)
  if !f.startsWith "/r/" && from_ == 0 && !ds.hasPath then none else
  let f : String := if f.startsWith "/r/" then (f.drop 3).copy else if f.startsWith "../r/" then (f.drop 5).copy else if f.startsWith "./" then (f.drop 2).copy else f
  if hasChar f '/' || hasChar f ':' || hasChar f '%' || hasChar f ' ' || f.isEmpty then none
  else if f == "root.json" then some 0
  else (ds.files.findIdx? (·.1 == f)).map (· + 1)

/-- split a reference text: (document number, fragment tokens); `none` = error before any drill-down -/
def Docs.locate (ds : Docs) (doc : Nat) (text : String) : Option (Nat × List String) :=
  if hasChar text '%' || hasChar text ' ' then none
  -- `url.Parse`: the fragment is everything after the FIRST '#'
  else match (match splitOnChar text '#' with
              | [] => ([] : List String)
              | [a] => [a]
              | a :: rest => [a, String.intercalate "#" rest]) with
  | [file, frag] =>
    if file.isEmpty then (fragmentTokens frag).map (fun ts => (doc, ts))
    else if !ds.ext then none
    else match ds.fileIndex? doc file, fragmentTokens frag with
      | some d, some ts => some (d, ts)
      | _, _ => none
  | _ => none

/-- the checks after a token: `if cursor == nil || isNilPointer(cursor)` (the second half since 25200f7) -/
def postStep (cfg : Cfg) : DrillOut → DrillOut
  | .found (.anyv .null) => .err
  | .found (.nilOf ty) => if cfg.nilChecked then .err else .found (.nilOf ty)
  | r => r

/-- `c.Value.AdditionalProperties.Has / .Schema` of an inline schema -/
def apOfValue (j : JV) : DrillOut :=
  match j.get? "additionalProperties" with
  | some (.bool _) => .found (.val .scalar .null)
  | some (.obj kvs) => .found (.val (.ptr (.struct "SchemaRef")) (.obj kvs))
  | _ => .found (.nilOf (.ptr (.struct "SchemaRef")))

set_option maxRecDepth 8000 in
mutual
/-- `drillIntoField(cursor, p)`; `fuel` bounds the `Value` fall-through across references -/
def drillField (cfg : Cfg) (ds : Docs) : Nat → Nat → Cur → String → FOut
  | 0, _, _, _ => .err
  | fuel + 1, doc, c, p =>
    match c with
    | .nilOf _ => .err                       -- reflect.Indirect of a nil pointer: "not a map, slice nor struct"
    | .anyv j =>
      match j with
      | .obj kvs => match kvs.find? (·.1 == p) with | some kv => .found (.anyv kv.2) | none => .err
      | .arr xs => match parseIndex p with
        | some i => match xs[i]? with | some x => .found (.anyv x) | none => .err
        | none => .err
      | _ => .err
    | .val ty j =>
      match ty with
      | .ptr t => drillField cfg ds fuel doc (.val t j) p
      | .mapOf e => match j.get? p with | some v => .found (mkCur e (some v)) | none => .err
      | .sliceOf e => match parseIndex p with
        | some i => match j.items[i]? with | some x => .found (mkCur e (some x)) | none => .err
        | none => .err
      | .struct name =>
        -- a path item given by `$ref` was overwritten by its target when it was resolved (`*pathItem = resolved`)
        let j : JV := if name == "PathItem" && p != "$ref" then
            (match j.refTextPI? with
             | some t => (match drillText cfg ds fuel doc t with
                          | .found (.val (.ptr (.struct "PathItem")) j2) => j2
                          | _ => j)
             | none => j)
          else j
        match fieldTy? name p with
        | some fty => .found (mkCur fty (j.get? p))
        | none =>
          match wrapperValueTy? name with
          | some vty =>
            -- `drillIntoField(val.FieldByName("Value").Interface(), p)`
            match j.refText? with
            | none => if j.isNull then .err else drillField cfg ds fuel doc (.val vty j) p
            | some t =>
              -- a reference: its `Value` is nil (→ error) or, once resolved, the value of its target
              match drillText cfg ds fuel doc t with
              | .found (.val (.ptr (.struct n2)) j2) =>
                if n2 == name then drillField cfg ds fuel doc (.val (.ptr (.struct n2)) j2) p else .err
              | _ => .err
          | none =>
            if extensionsFirst name then
              match (extensionsField name j).find? (·.1 == p) with | some kv => .found (.anyv kv.2) | none => .err
            else .err
      | _ => .err
/-- `case *SchemaRef` of the drill closure with the token `additionalProperties` -/
def drillAP (cfg : Cfg) (ds : Docs) : Nat → Nat → JV → DrillOut
  | 0, _, _ => .err
  | fuel + 1, doc, j =>
    match j.refText? with
    | none => apOfValue j
    | some t =>
      -- `Value` is nil until the reference is resolved: `c.Value.AdditionalProperties` dereferences nil
      -- unless the case is guarded by `c.Value != nil` (25200f7); then the token goes to `drillIntoField`
      if !cfg.apGuarded then .panic
      else match drillText cfg ds fuel doc t with
        | .found (.val (.ptr (.struct "SchemaRef")) j2) => drillAP cfg ds fuel doc j2      -- resolved: the value of its target
        | _ => .err                                                                        -- `Value == nil`: no such field
/-- one token of the drill closure (the type switch, then `drillIntoField`, then the nil checks) -/
def drillStep (cfg : Cfg) (ds : Docs) : Nat → Nat → Cur → String → DrillOut
  | 0, _, _, _ => .err
  | fuel + 1, doc, c, p =>
    postStep cfg (
      match c with
      | .val (.ptr (.struct name)) j =>
        if name == "T" then
          (if p.isEmpty then .found (.val (.mapOf .any) (.obj (extensionsOf "T" j))) else (drillField cfg ds fuel doc c p).toDrill)
        else if name == "SchemaRef" then
          (if p == "additionalProperties" then drillAP cfg ds fuel doc j else (drillField cfg ds fuel doc c p).toDrill)
        else
          match maplikeTy? name with
          | some mty => (drillField cfg ds fuel doc (.val mty (.obj (maplikeEntries name j))) p).toDrill    -- `cursor = c.m`
          | none => (drillField cfg ds fuel doc c p).toDrill
      | .nilOf (.ptr (.struct name)) =>
        -- a nil pointer as the cursor of a further token (only without the `isNilPointer` check)
        if name == "SchemaRef" then (if p == "additionalProperties" then .panic else .err)
        else if (maplikeTy? name).isSome then .panic else .err                                             -- `c.m` of a nil pointer
      | _ => (drillField cfg ds fuel doc c p).toDrill)
/-- all tokens from a document root -/
def drillTokens (cfg : Cfg) (ds : Docs) : Nat → Nat → Cur → List String → DrillOut
  | 0, _, _, _ => .err
  | _, _, c, [] => .found c
  | fuel + 1, doc, c, p :: ps =>
    match drillStep cfg ds fuel doc c p with
    | .found c' => drillTokens cfg ds fuel doc c' ps
    | r => r
/-- typed drill-down of a reference text written in document `doc` -/
def drillText (cfg : Cfg) (ds : Docs) : Nat → Nat → String → DrillOut
  | 0, _, _ => .err
  | fuel + 1, doc, text =>
    match ds.locate doc text with
    | none => .err
    | some (d, toks) =>
      match ds.doc? d with
      | none => .err
      | some j => if j.isObj then drillTokens cfg ds fuel d (.val (.ptr (.struct "T")) j) toks else .err
end

/-- the raw re-read fallback: the same tokens over the plainly decoded file. A step that ends at `null`
    fails (`cursor == nil`; ff23d67: the error of the first drill is returned). -/
def drillRaw (ds : Docs) (doc : Nat) (toks : List String) : Option JV :=
  match ds.doc? doc with
  | none => none
  | some j =>
    let step (c : Option JV) (p : String) : Option JV :=
      match c with
      | some (.obj kvs) => match kvs.find? (·.1 == p) with | some kv => (if kv.2.isNull then none else some kv.2) | none => none
      | some (.arr xs) => match parseIndex p with
        | some i => (match xs[i]? with | some .null => none | some x => some x | none => none)
        | none => none
      | _ => none
    toks.foldl step (some j)

def drillFuel : Nat := 64

/-! ### the loader's walk -/

def strHash (s : String) : Nat := s.toList.foldl (fun h c => (h * 131 + c.toNat) % 2305843009213693951) 7
/-- hash of a pointer, token by token (the walk and the drill-down number the same object alike) -/
def stepHash (h : Nat) (tok : String) : Nat := (h * 1000003 + strHash tok) % 2305843009213693951
def pathHash (toks : List String) : Nat := toks.foldl stepHash 11
/-- identity of the Go object decoded from document `doc` at the pointer with hash `h` (even) -/
def nodeId (doc : Nat) (h : Nat) : Nat := 2 * (h * 8 + doc % 8)

def objEntries (j : JV) (key : String) : List (String × JV) := ((j.get? key).getD .null).fields
def arrItems (j : JV) (key : String) : List JV := ((j.get? key).getD .null).items
def methodNames : List String := ["connect", "delete", "get", "head", "options", "patch", "post", "put", "trace"]

/-- `PathItem.isEmpty()` of the decoded object -/
def pathItemIsEmpty (j : JV) : Bool :=
  (j.getNN? "summary").isNone && (j.getNN? "description").isNone && methodNames.all (fun m => (j.getNN? m).isNone) &&
  (arrItems j "servers").isEmpty && (arrItems j "parameters").isEmpty

def idxList {α : Type} (l : List α) : List (Nat × α) := (l.zipIdx).map (fun p => (p.2, p.1))

/-- the wrapper decoded from `j` at the pointer with hash `h` and the wrapper positions the matching
    `resolve*Ref` visits below it, in its order (loader.go after cbb0d05: `resolveContentRefs` — examples,
    schema, headers of the encodings — for parameters, headers, request bodies and responses;
    `resolveExampleRefs` for parameters and headers) -/
def toNode : Nat → Nat → Kind → Nat → JV → Node
  | 0, doc, kind, h, _ => .mk (nodeId doc h) doc kind none false []
  | fuel + 1, doc, kind, h, j =>
    let id := nodeId doc h
    if j.isNull then .mk id doc kind none true []
    else match j.refTextK? kind with
    | some t =>
      if kind == .pathItem && !pathItemIsEmpty j then .mk id doc kind none false []   -- `if !pathItem.isEmpty() { return }`
      else .mk id doc kind (some (strHash t)) false []
    | none =>
      let mapN (k : Kind) (h : Nat) (kvs : List (String × JV)) : List Node :=
        kvs.map (fun kv => toNode fuel doc k (stepHash h kv.1) kv.2)
      let listN (k : Kind) (h : Nat) (xs : List JV) : List Node :=
        (idxList xs).map (fun p => toNode fuel doc k (stepHash h (toString p.1)) p.2)
      let field (h : Nat) (k : Kind) (c : JV) (key : String) : List Node :=
        match c.getNN? key with | some s => [toNode fuel doc k (stepHash h key) s] | none => []
      let examples (h : Nat) (c : JV) : List Node := mapN .example (stepHash h "examples") (objEntries c "examples")
      -- one media type: examples, schema, then the headers of every non-nil encoding
      let media (h : Nat) (c : JV) : List Node :=
        examples h c ++ field h .schema c "schema" ++
        ((objEntries c "encoding").filter (fun kv => !kv.2.isNull)).flatMap (fun kv =>
          mapN .header (stepHash (stepHash (stepHash h "encoding") kv.1) "headers") (objEntries kv.2 "headers"))
      let content (h : Nat) (c : JV) : List Node :=
        let hc := stepHash h "content"
        ((objEntries c "content").filter (fun kv => !kv.2.isNull)).flatMap (fun kv => media (stepHash hc kv.1) kv.2)
      let kids : List Node :=
        match kind with
        | .header => content h j ++ field h .schema j "schema" ++ examples h j
        | .parameter => content h j ++ field h .schema j "schema" ++ examples h j
        | .requestBody => content h j
        | .response =>
          mapN .header (stepHash h "headers") (objEntries j "headers") ++ content h j ++
          mapN .link (stepHash h "links") (objEntries j "links")
        | .schema =>
          field h .schema j "items" ++
          mapN .schema (stepHash h "properties") (objEntries j "properties") ++
          (match j.get? "additionalProperties" with | some (.obj kvs) => [toNode fuel doc .schema (stepHash h "additionalProperties") (.obj kvs)] | _ => []) ++
          field h .schema j "not" ++
          listN .schema (stepHash h "allOf") (arrItems j "allOf") ++
          listN .schema (stepHash h "anyOf") (arrItems j "anyOf") ++
          listN .schema (stepHash h "oneOf") (arrItems j "oneOf")
        | .callback => mapN .pathItem h (maplikeEntries "Callback" j)
        | .pathItem =>
          listN .parameter (stepHash h "parameters") (arrItems j "parameters") ++
          methodNames.flatMap (fun m =>
            match j.getNN? m with
            | none => []
            | some op =>
              let hm := stepHash h m
              listN .parameter (stepHash hm "parameters") (arrItems op "parameters") ++
              field hm .requestBody op "requestBody" ++
              mapN .response (stepHash hm "responses") (maplikeEntries "Responses" ((op.get? "responses").getD .null)) ++
              mapN .callback (stepHash hm "callbacks") (objEntries op "callbacks"))
        | _ => []
      .mk id doc kind none false kids

def mapNodes (fuel doc : Nat) (kind : Kind) (h : Nat) (kvs : List (String × JV)) : List Node :=
  kvs.map (fun kv => toNode fuel doc kind (stepHash h kv.1) kv.2)

def nodeFuel : Nat := 48

/-- `ResolveRefsIn`: components (headers, parameters, requestBodies, responses, schemas, securitySchemes,
    examples, callbacks, links), then the path items (a decoded document has no nil path item) -/
def rootNodes (doc : Nat) (j : JV) : List Node :=
  let comps := (j.get? "components").getD .null
  let m (kind : Kind) (key : String) := mapNodes nodeFuel doc kind (pathHash ["components", key]) (objEntries comps key)
  m .header "headers" ++ m .parameter "parameters" ++ m .requestBody "requestBodies" ++ m .response "responses" ++
  m .schema "schemas" ++ m .securityScheme "securitySchemes" ++ m .example "examples" ++ m .callback "callbacks" ++
  m .link "links" ++
  mapNodes nodeFuel doc .pathItem (pathHash ["paths"]) (maplikeEntries "Paths" ((j.get? "paths").getD .null))

/-! ### what a reference text resolves to -/

/-- `resolveComponent` / `loadSingleElementFromURI` at the level of the document: where the target lives
    (document, pointer hash) and its JSON -/
inductive TgtJ
  | err
  | wrapper (d h : Nat) (j : JV)     -- pointer of the expected wrapper type
  | raw (d h : Nat) (j : JV)         -- `map[string]any` (extensions, raw re-read): re-decoded
  | rawEmpty (d h : Nat)             -- a nil / empty `map[string]any`: encodes as `null`, decodes to an empty wrapper
  | single (doc h : Nat) (j : JV)    -- no '#': the whole file decoded as the element (`doc` stays the referring document)
  | nilPtr
  | drillPanic

def targetJ (cfg : Cfg) (ds : Docs) (doc : Nat) (text : String) (k : Kind) : TgtJ :=
  if !hasChar text '#' then
    if !ds.ext || hasChar text '%' || hasChar text ' ' then .err
    else match ds.fileIndex? doc text with
      | none => .err
      | some d => match ds.doc? d with
        | some (.obj kvs) => .single doc (pathHash ["@", text]) (.obj kvs)
        | _ => .err
  else match ds.locate doc text with
    | none => .err
    | some (d, toks) =>
      let path := pathHash toks
      -- `if componentPath == nil { return err }`, else the file is read again and drilled as plain JSON
      let rawTgt (_ : Unit) : TgtJ :=
        if ds.hasPath || d != 0 then
          match drillRaw ds d toks with
          | some (.obj kvs) => .raw d path (JV.plain 64 (.obj kvs))
          | _ => .err
        else .err
      -- `resolveRefAndDocument`: the other document is loaded (decoded as `T`) before anything is drilled
      if d != doc && !((ds.doc? d).map JV.isObj).getD false then .err else
      match drillText cfg ds drillFuel doc text with
      | .panic => .drillPanic
      | .err => rawTgt ()
      | .found (.val ty j) =>
        if ty == expectedTy k then .wrapper d path j
        else if ty == .mapOf .any then
          -- `map[string]any`: re-encoded and decoded into the wrapper; a nil map encodes as `null`
          if j.fields.isEmpty then .rawEmpty d path else .raw d path (JV.plain 64 j)
        else .err
      | .found (.nilOf ty) => if ty == expectedTy k then .nilPtr else .err
      | .found (.anyv (.obj kvs)) => .raw d path (JV.plain 64 (.obj kvs))
      | .found (.anyv _) => .err

def TgtJ.toTgt (k : Kind) : TgtJ → Tgt
  | .err => .err
  | .wrapper d h j => .wrapper (toNode nodeFuel d k h j)
  | .raw d h j => .raw (toNode nodeFuel d k h j)
  -- `null` decoded into a wrapper leaves it empty (`isEmpty()`); decoded into a `PathItem` it is an empty path item
  | .rawEmpty d h => .raw (.mk (nodeId d h) d k none (k != .pathItem) [])
  | .single doc h j => .single (toNode nodeFuel doc k h j)
  | .nilPtr => .nilPtr
  | .drillPanic => .drillPanic

def targetOf (cfg : Cfg) (ds : Docs) (doc : Nat) (text : String) (k : Kind) : Tgt :=
  (targetJ cfg ds doc text k).toTgt k

/-! ### all references the loader can meet -/

/-- every string that occurs as a `$ref` in a JSON tree (over-approximates the walked references) -/
def allRefTexts : Nat → JV → List String
  | 0, _ => []
  | fuel + 1, .obj kvs => (match (JV.obj kvs).refTextPI? with | some t => [t] | none => []) ++ kvs.flatMap (fun kv => allRefTexts fuel kv.2)
  | fuel + 1, .arr xs => xs.flatMap (allRefTexts fuel)
  | _, _ => []

mutual
/-- references (text hash, kind, document) in a node tree -/
def nodeRefs : Node → List (Nat × Kind × Nat)
  | .mk _ doc kind ref _ kids => (match ref with | some t => [(t, kind, doc)] | none => []) ++ nodesRefs kids
def nodesRefs : List Node → List (Nat × Kind × Nat)
  | [] => []
  | k :: ks => nodeRefs k ++ nodesRefs ks
end

def dedupNat (l : List Nat) : List Nat := l.foldl (fun acc x => if acc.contains x then acc else acc ++ [x]) []

/-- references met by the loader with what they resolve to: those of the roots, then those of everything
    they resolve to (a cache of `tgt`: every entry is `(r, tgt r)`) -/
def closeRefs (tgt : Nat → Nat → Kind → Tgt) : Nat → List (Nat × Kind × Nat) → List ((Nat × Kind × Nat) × Tgt) → List ((Nat × Kind × Nat) × Tgt)
  | 0, _, seen => seen
  | _, [], seen => seen
  | fuel + 1, r :: todo, seen =>
    if seen.any (fun s => s.1.1 == r.1 && s.1.2.1 == r.2.1 && s.1.2.2 == r.2.2) then closeRefs tgt fuel todo seen
    else
      let t := tgt r.2.2 r.1 r.2.1
      let more := match t.node? with | some n => nodeRefs n | none => []
      closeRefs tgt fuel (todo ++ more) (seen ++ [(r, t)])

/-- the world of one case -/
structure Built where
  cfg    : Cfg
  ds     : Docs
  roots  : List Node
  names  : List (Nat × String)                       -- interned texts
  table  : List ((Nat × Kind × Nat) × Tgt)           -- (text, kind, document) ↦ target, for every reference the loader can meet
  world  : World

def allDocs (ds : Docs) : List JV := ds.root :: ds.files.map (·.2)

/-- the target of an interned text (an error for a number that is no text of the documents) -/
def rawTarget (cfg : Cfg) (ds : Docs) (names : List (Nat × String)) (doc h : Nat) (k : Kind) : Tgt :=
  match names.find? (·.1 == h) with
  | some n => targetOf cfg ds doc n.2 k
  | none => .err

def lookupTarget (table : List ((Nat × Kind × Nat) × Tgt)) (fallback : Nat → Nat → Kind → Tgt) (doc h : Nat) (k : Kind) : Tgt :=
  match table.find? (fun s => s.1.1 == h && s.1.2.1 == k && s.1.2.2 == doc) with
  | some s => s.2
  | none => fallback doc h k

def build (cfg : Cfg) (ds : Docs) : Built :=
  let texts := (allDocs ds).flatMap (allRefTexts 64)
  let names := texts.map (fun t => (strHash t, t))
  let roots := rootNodes 0 ds.root
  let table := closeRefs (rawTarget cfg ds names) 400 (nodesRefs roots) []
  { cfg := cfg, ds := ds, roots := roots, names := names, table := table,
    world := { texts := dedupNat (names.map (·.1)),
               target := lookupTarget table (rawTarget cfg ds names) } }

def Built.refs (b : Built) : List (Nat × Kind × Nat) := b.table.map (·.1)
def Built.textOf (b : Built) (h : Nat) : String := ((b.names.find? (·.1 == h)).map (·.2)).getD ""

def loadFuel : Nat := 600

def Built.load (b : Built) : Res := KinModel.LoadSafety.load b.cfg b.world loadFuel b.roots

/-- the configuration read from the source: comma-ok assertions per resolver, the two nil guards of the drill closure -/
def codeCfg : Cfg where
  assertChecked := fun k => Gen.c20Resolvers.any (fun r => r.resolved == structOfKind k && r.commaOk)
  nilChecked := Gen.c20DrillConds.contains "cursor == nil || isNilPointer(cursor)" &&
                Gen.c20IsNilPointer == "v := reflect.ValueOf(x); return v.Kind() == reflect.Ptr && v.IsNil()"
  apGuarded := Gen.c20DrillConds.contains "pathPart == \"additionalProperties\" && c.Value != nil"
  -- 7245059: every resolver defines `key := "<Kind> " + ref` (ten different prefixes) and hands `key` to
  -- shouldVisitRef, visitRef and unvisitRef
  keyedByKind :=
    Gen.c20VisitKeys.all (fun r => r.2.2 == "shouldVisitRef(key) visitRef(key) unvisitRef(key)") &&
    Gen.c20VisitKeys.map (·.2.1) == ["\"Header \" + ref", "\"Parameter \" + ref", "\"RequestBody \" + ref", "\"Response \" + ref",
      "\"Schema \" + ref", "\"SecurityScheme \" + ref", "\"Example \" + ref", "\"Callback \" + ref", "\"Link \" + ref", "\"PathItem \" + ref"]

  swallowOnlyEmpty :=
    Gen.c20SwallowConds.length == 10 &&
    Gen.c20SwallowConds.all (fun r => r.1 == "resolvePathItemRef" || r.2.endsWith " && resolved.isEmpty()")
  internValueGuard :=
    Gen.c20AddToSpecConds.length == 9 &&
    Gen.c20AddToSpecConds.all (fun r => ["s", "p", "h", "r", "ss", "e", "l", "c"].any (fun v =>
      r.2 == v ++ " == nil || " ++ v ++ ".Value == nil || !isExternalRef(" ++ v ++ ".Ref, parentIsExternal)"))
  headerStack := Gen.c20HeaderStack == [
    "stack, _ := ctx.Value(headerValidationStackKey{}).([]*Header)",
    "for _, h := range stack { if h == header { return nil } }",
    "ctx = context.WithValue(ctx, headerValidationStackKey{}, append(stack[:len(stack):len(stack)], header))"]

/-- the code before a04fe6c / 25200f7 (witnesses only) -/
def oldCfg : Cfg where
  assertChecked := fun _ => false
  nilChecked := false
  apGuarded := false
  keyedByKind := false
  swallowOnlyEmpty := false
  internValueGuard := false
  headerStack := false

/-! ### the drill-down of the repaired code never panics (no induction over the mutual block is needed:
    a panic arises in one branch of `drillAP` and in the nil-cursor branch of `drillStep` only) -/

theorem postStep_ne_panic (cfg : Cfg) (r : DrillOut) (h : r ≠ .panic) : postStep cfg r ≠ .panic := by
  unfold postStep
  split <;> (try split) <;> simp_all

theorem postStep_found_notNil (cfg : Cfg) (hn : cfg.nilChecked = true) (r : DrillOut) (c : Cur)
    (h : postStep cfg r = .found c) : c.isNil = false := by
  unfold postStep at h
  split at h
  · simp at h
  · simp [hn] at h
  · rename_i h1 h2
    cases c with
    | nilOf ty => exact absurd h (h2 ty)
    | val ty j => rfl
    | anyv j => rfl

theorem toDrill_ne_panic (f : FOut) : f.toDrill ≠ .panic := by cases f <;> simp [FOut.toDrill]

theorem apOfValue_ne_panic (j : JV) : apOfValue j ≠ .panic := by
  unfold apOfValue; split <;> simp

theorem drillAP_ne_panic (cfg : Cfg) (ha : cfg.apGuarded = true) (ds : Docs) :
    ∀ fuel doc j, drillAP cfg ds fuel doc j ≠ .panic := by
  intro fuel
  induction fuel with
  | zero => intro doc j; simp [drillAP]
  | succ fuel ih =>
    intro doc j
    unfold drillAP
    split
    · exact apOfValue_ne_panic j
    · simp only [ha, Bool.not_true, Bool.false_eq_true, if_false]
      split
      · exact ih _ _
      · simp

theorem drillStep_ne_panic (cfg : Cfg) (ha : cfg.apGuarded = true) (ds : Docs) (fuel doc : Nat) (c : Cur) (p : String)
    (hc : c.isNil = false) : drillStep cfg ds fuel doc c p ≠ .panic := by
  cases fuel with
  | zero => simp [drillStep]
  | succ fuel =>
    unfold drillStep
    apply postStep_ne_panic
    split
    · split
      · split
        · simp
        · exact toDrill_ne_panic _
      · split
        · split
          · exact drillAP_ne_panic cfg ha ds _ _ _
          · exact toDrill_ne_panic _
        · split <;> exact toDrill_ne_panic _
    · simp [Cur.isNil] at hc
    · exact toDrill_ne_panic _

theorem drillStep_found_notNil (cfg : Cfg) (hn : cfg.nilChecked = true) (ds : Docs) (fuel doc : Nat) (c c' : Cur) (p : String)
    (h : drillStep cfg ds fuel doc c p = .found c') : c'.isNil = false := by
  cases fuel with
  | zero => simp [drillStep] at h
  | succ fuel =>
    unfold drillStep at h
    exact postStep_found_notNil cfg hn _ _ h

theorem drillTokens_safe (cfg : Cfg) (ha : cfg.apGuarded = true) (hn : cfg.nilChecked = true) (ds : Docs) :
    ∀ fuel doc c toks, c.isNil = false →
      drillTokens cfg ds fuel doc c toks ≠ .panic ∧ ∀ c', drillTokens cfg ds fuel doc c toks = .found c' → c'.isNil = false := by
  intro fuel
  induction fuel with
  | zero => intro doc c toks _; simp [drillTokens]
  | succ fuel ih =>
    intro doc c toks hc
    cases toks with
    | nil => simp only [drillTokens]; exact ⟨by simp, by intro c' h; simp at h; subst h; exact hc⟩
    | cons p ps =>
      simp only [drillTokens]
      cases hs : drillStep cfg ds fuel doc c p with
      | found c1 => exact ih doc c1 ps (drillStep_found_notNil cfg hn ds fuel doc c c1 p hs)
      | err => simp
      | panic => exact absurd hs (drillStep_ne_panic cfg ha ds fuel doc c p hc)

theorem drillText_safe (cfg : Cfg) (ha : cfg.apGuarded = true) (hn : cfg.nilChecked = true) (ds : Docs) (fuel doc : Nat) (text : String) :
    drillText cfg ds fuel doc text ≠ .panic ∧ ∀ c', drillText cfg ds fuel doc text = .found c' → c'.isNil = false := by
  cases fuel with
  | zero => simp [drillText]
  | succ fuel =>
    unfold drillText
    split
    · simp
    · split
      · simp
      · split
        · exact drillTokens_safe cfg ha hn ds fuel _ _ _ rfl
        · simp

/-- with the two guards of 25200f7 no reference text resolves to a typed nil pointer or makes the
    drill-down dereference nil -/
theorem targetOf_never_panics (cfg : Cfg) (ha : cfg.apGuarded = true) (hn : cfg.nilChecked = true) (ds : Docs)
    (doc : Nat) (text : String) (k : Kind) : (targetOf cfg ds doc text k).panics = false := by
  have hsafe := drillText_safe cfg ha hn ds drillFuel doc text
  unfold targetOf targetJ
  split
  · split
    · rfl
    · split
      · rfl
      · split <;> rfl
  · split
    · rfl
    · simp only
      split
      · rfl
      · split
        · rename_i h; exact absurd h hsafe.1
        · split
          · split <;> rfl
          · rfl
        · split
          · rfl
          · split
            · split <;> rfl
            · rfl
        · rename_i ty h
          have := hsafe.2 _ h
          simp [Cur.isNil] at this
        · rfl
        · rfl

theorem closeRefs_all (P : Tgt → Prop) (tgt : Nat → Nat → Kind → Tgt) (ht : ∀ d h k, P (tgt d h k)) :
    ∀ fuel todo seen, (∀ e ∈ seen, P e.2) → ∀ e ∈ closeRefs tgt fuel todo seen, P e.2 := by
  intro fuel
  induction fuel with
  | zero => intro todo seen hs; simpa [closeRefs] using hs
  | succ fuel ih =>
    intro todo seen hs
    cases todo with
    | nil => simpa [closeRefs] using hs
    | cons r todo =>
      simp only [closeRefs]
      split
      · exact ih todo seen hs
      · apply ih
        intro e he
        rcases List.mem_append.1 he with h | h
        · exact hs e h
        · simp at h; subst h; exact ht _ _ _

theorem lookupTarget_all (P : Tgt → Prop) (table : List ((Nat × Kind × Nat) × Tgt)) (fb : Nat → Nat → Kind → Tgt)
    (ht : ∀ e ∈ table, P e.2) (hf : ∀ d h k, P (fb d h k)) (doc h : Nat) (k : Kind) : P (lookupTarget table fb doc h k) := by
  unfold lookupTarget
  split
  · rename_i s hs; exact ht s (List.mem_of_find?_eq_some hs)
  · exact hf _ _ _

theorem rawTarget_never_panics (cfg : Cfg) (ha : cfg.apGuarded = true) (hn : cfg.nilChecked = true) (ds : Docs)
    (names : List (Nat × String)) (doc h : Nat) (k : Kind) : (rawTarget cfg ds names doc h k).panics = false := by
  unfold rawTarget
  split
  · exact targetOf_never_panics cfg ha hn ds _ _ _
  · rfl

/-- the world built from ANY parsed document and file set has no panicking target -/
theorem build_noNilTarget (cfg : Cfg) (ha : cfg.apGuarded = true) (hn : cfg.nilChecked = true) (ds : Docs) :
    NoNilTarget (build cfg ds).world := by
  intro d t k
  simp only [build]
  apply lookupTarget_all (fun t => t.panics = false)
  · apply closeRefs_all (fun t => t.panics = false)
    · intro d h k; exact rawTarget_never_panics cfg ha hn ds _ d h k
    · intro e he; simp at he
  · intro d h k; exact rawTarget_never_panics cfg ha hn ds _ d h k

/-! ### typed positions of the whole document -/

structure Pos where
  h      : Nat        -- hash of the pointer (as `toNode` computes it)
  ctx    : String     -- "Owner.tag" of the struct field this position is (an element of)
  ty     : Ty
  j      : JV
  inColl : Bool       -- element of a map or slice (not a struct field)
  deriving Inhabited

/-- every typed position of a value (all fields of the struct table, not only the loader's walk) -/
def positions : Nat → Nat → String → Ty → JV → Bool → List Pos
  | 0, _, _, _, _, _ => []
  | fuel + 1, h, ctx, ty, j, inColl =>
  let positions := positions fuel
  let here : Pos := { h := h, ctx := ctx, ty := ty, j := j, inColl := inColl }
  match ty with
  | .ptr t => if j.isNull then [here] else here :: (positions h ctx t j inColl).drop 1
  | .mapOf e => here :: j.fields.flatMap (fun kv => positions (stepHash h kv.1) ctx e kv.2 true)
  | .sliceOf e => here :: (j.items.zipIdx).flatMap (fun (x, i) => positions (stepHash h (toString i)) ctx e x true)
  | .struct name =>
    if j.refText?.isSome && (wrapperValueTy? name).isSome then [here]
    else
      let own := (taggedFields name).flatMap (fun f => match j.get? f.tag with
        | some v => positions (stepHash h f.tag) (name ++ "." ++ f.tag) f.ty v false
        | none => [])
      let viaValue := match wrapperValueTy? name with
        | some vty => (positions h ctx vty j inColl).drop 1
        | none => []
      let viaMap := match maplikeTy? name with
        | some mty => (positions h (name ++ ".m") mty (.obj (extensionsOf name j)) inColl).drop 1
        | none => []
      let embedded := (Gen.c20Embedded.filter (·.1 == name)).flatMap (fun e => (positions h ctx (.struct e.2) j inColl).drop 1)
      let addProps := if name == "Schema" then
          match j.get? "additionalProperties" with
          | some (.obj kvs) => positions (stepHash h "additionalProperties") "Schema.additionalProperties" (.ptr (.struct "SchemaRef")) (.obj kvs) false
          | _ => []
        else []
      here :: (own ++ viaValue ++ viaMap ++ embedded ++ addProps)
  | _ => [here]

def docPositions (j : JV) : List Pos := positions 96 11 "" (.ptr (.struct "T")) j false

/-! ### exclusion predicates: unguarded recursions over the resolved graphs -/

/-- resolve a wrapper JSON to the JSON of its value, following references (`none`: dangling / cyclic) -/
def derefJson (b : Built) (k : Kind) : Nat → Nat → JV → Option (Nat × JV)
  | 0, _, _ => none
  | fuel + 1, doc, j =>
    match j.refText? with
    | none => if j.isObj then some (doc, j) else none
    | some t =>
      match b.ds.locate doc t with
      | none => none
      | some (d, _) =>
        match drillText b.cfg b.ds drillFuel doc t with
        | .found (.val ty j') => if ty == expectedTy k then derefJson b k fuel d j' else none
        | .found (.anyv (.obj kvs)) => derefJson b k fuel d (.obj kvs)
        | _ => none

/-- a key for a resolved value (what pointer identity is for the Go objects): its rendering -/
def renderF : Nat → JV → String
  | 0, _ => "…"
  | _, .null => "n" | _, .bool b => if b then "t" else "f" | _, .num s => s | _, .str s => "\"" ++ s ++ "\""
  | fuel + 1, .arr xs => "[" ++ String.intercalate "," (xs.map (renderF fuel)) ++ "]"
  | fuel + 1, .obj kvs => "{" ++ String.intercalate "," (kvs.map (fun kv => kv.1 ++ ":" ++ renderF fuel kv.2)) ++ "}"
def render (j : JV) : String := renderF 32 j

/-- sub-schemas by keyword group: compositions (followed with the same value) and the others -/
def compositionKids (j : JV) : List JV :=
  (match j.getNN? "not" with | some s => [s] | none => []) ++ arrItems j "oneOf" ++ arrItems j "anyOf" ++ arrItems j "allOf"
def structuralKids (j : JV) : List JV :=
  (match j.getNN? "items" with | some s => [s] | none => []) ++ (objEntries j "properties").map (·.2) ++
  (match j.get? "additionalProperties" with | some (.obj kvs) => [.obj kvs] | _ => [])

/-- is there a path of `edges` (through schemas satisfying `through`) from `j` back to a schema on the path? -/
def cycleFrom (b : Built) (kind : Kind) (edges : JV → List JV) (through : JV → Bool) : Nat → Nat → JV → List String → Bool
  | 0, _, _, _ => false
  | fuel + 1, doc, j, onPath =>
    match derefJson b kind 20 doc j with
    | none => false
    | some (d, v) =>
      if !through v then false
      else
        let key := render v
        if onPath.contains key then true
        else (edges v).any (fun c => cycleFrom b kind edges through fuel d c (key :: onPath))

/-- all schemas reachable from `j` (any keyword), as (document, value) -/
def reachSchemas (b : Built) : Nat → List (Nat × JV) → List (Nat × JV × String) → List (Nat × JV × String)
  | 0, _, seen => seen
  | _, [], seen => seen
  | fuel + 1, (doc, j) :: todo, seen =>
    match derefJson b .schema 20 doc j with
    | none => reachSchemas b fuel todo seen
    | some (d, v) =>
      let key := render v
      if seen.any (·.2.2 == key) then reachSchemas b fuel todo seen
      else reachSchemas b fuel (todo ++ (compositionKids v ++ structuralKids v).map (fun c => (d, c))) (seen ++ [(d, v, key)])

/-- schemas against which `Validate` checks a value: own non-null `default` / `example`
    (`if v := schema.Default; v != nil`), or `example(s)` of the enclosing media type / parameter / header -/
def valueValidated (ps : List Pos) : List JV :=
  ps.flatMap (fun p =>
    match p.ty with
    | .ptr (.struct "SchemaRef") =>
      -- the siblings of a `$ref` are not decoded into the schema (SchemaRef.UnmarshalJSON keeps the reference only):
      -- a `default` / `example` next to `$ref` is no validated value
      if p.j.refText?.isNone && ((p.j.getNN? "default").isSome || (p.j.getNN? "example").isSome) then [p.j] else []
    | .ptr (.struct n) =>
      if (n == "MediaType" || n == "Parameter" || n == "Header") && ((p.j.getNN? "example").isSome || (p.j.getNN? "examples").isSome) then
        (match p.j.getNN? "schema" with | some s => [s] | none => [])
      else []
    | _ => [])

def allEdges (j : JV) : List JV := compositionKids j ++ structuralKids j

/-- #6 through `default`/`example`: a cycle made of allOf/anyOf/oneOf/not below a validated value
    (`(*T).Validate` returns at once when `openapi` is empty; a number or boolean there is a non-empty
    string after the YAML fallback of `unmarshal`) -/
def compositionCycle (b : Built) (ps : List Pos) : Bool :=
  (match b.ds.root.get? "openapi" with | some (.str v) => !v.isEmpty | some (.num _) => true | some (.bool _) => true | _ => false) &&
  (valueValidated ps).any (fun s =>
    (reachSchemas b 200 [(0, s)] []).any (fun r => cycleFrom b .schema compositionKids (fun _ => true) 40 r.1 r.2.1 []))

/-- `(*T).Validate` goes on only when `openapi` is a non-empty string (a number or boolean there is one after
    the YAML fallback of `unmarshal`) -/
def openapiSet (root : JV) : Bool :=
  match root.get? "openapi" with | some (.str v) => !v.isEmpty | some (.num _) => true | some (.bool _) => true | _ => false

/-- the headers `(*Header).Validate` descends into: `content.*.encoding.*.headers.*` (since 78418b3
    `MediaType.Validate` validates its encodings, and since cbb0d05 their header references are resolved) -/
def headerKids (j : JV) : List JV :=
  (objEntries j "content").flatMap (fun m => (objEntries m.2 "encoding").flatMap (fun e => (objEntries e.2 "headers").map (·.2)))

/-- the tests of `(*Header).Validate` before it validates its content: no `name`, no `in`, no schema,
    exactly one media type -/
def headerReachesContent (v : JV) : Bool :=
  (match v.getNN? "name" with | some (.str s) => s.isEmpty | some _ => false | none => true) &&
  (match v.getNN? "in" with | some (.str s) => s.isEmpty | some _ => false | none => true) &&
  (v.getNN? "schema").isNone && (objEntries v "content").length == 1

/-- exclusion predicate `HeaderCycle`: a header that is (through `$ref`s) one of the headers of an encoding
    of its own content — `Header.Validate → Content.Validate → MediaType.Validate → Encoding.Validate →
    HeaderRef.Validate → Header.Validate` has no visited set -/
def headerCycle (b : Built) (ps : List Pos) : Bool :=
  openapiSet b.ds.root &&
  (ps.any (fun p => p.ty == .ptr (.struct "HeaderRef") && !p.j.isNull &&
    cycleFrom b .header headerKids headerReachesContent 24 0 p.j []) ||
   -- headers met through a reference into an extension member (no typed position of the root document)
   b.refs.any (fun r => r.2.1 == .header &&
    cycleFrom b .header headerKids headerReachesContent 24 r.2.2 (.obj [("$ref", .str (b.textOf r.1))]) []))

/-! ### InternalizeRefs: where `DefaultRefNameResolver` meets a reference without location

`add<Kind>ToSpec` calls the name resolver for every wrapper with `isExternalRef(ref, parentIsExternal)`;
`DefaultRefNameResolver` panics when `RefPath() == nil`. After a successful load a wrapper has no location
when the loader never walked it (below a path item that has both `$ref` and content of its own) or
left it unresolved without `setRefPath` (the sentinel swallowed, a backtrack callback that never ran or
ran for a value of another kind). The walk below follows internalize_refs.go function by function over
the JSON documents, with the loader's final state (`value`, `pathed`) deciding what each wrapper holds. -/

/-- `isExternalRef(ref, parentIsExternal)` -/
def isExternalRef (ref : String) (parentExt : Bool) : Bool := !ref.isEmpty && (!ref.startsWith "#/components/" || parentExt)

structure IHit where
  id   : Nat
  text : String
  deriving Inhabited, Repr

/-- the visited value objects (`doc.visited`), or the wrapper at which the name resolver panics -/
abbrev IM := Except IHit (List Nat)

def foldIM {α : Type} (f : α → List Nat → IM) : List α → List Nat → IM
  | [], v => .ok v
  | x :: xs, v => match f x v with | .ok v' => foldIM f xs v' | e => e

/-- the value a resolved reference wrapper holds: the end of the chain of targets -/
def followRef (b : Built) (k : Kind) : Nat → Nat → JV → Option (Nat × Nat × JV)
  | 0, _, _ => none
  | fuel + 1, doc, j =>
    match j.refText? with
    | none => none
    | some t =>
      match targetJ b.cfg b.ds doc t k with
      | .wrapper d h j2 => if j2.refText?.isSome then followRef b k fuel d j2 else (if j2.isObj then some (d, h, j2) else none)
      | .raw d h j2 => if j2.refText?.isSome then followRef b k fuel d j2 else (if j2.isObj then some (d, h, j2) else none)
      | .single d h j2 => some (d, h, j2)
      | _ => none

/-- `wrapper.Value` after loading, as (document, pointer hash, JSON) of the value object -/
def valueOf (b : Built) (st : St) (k : Kind) (doc h : Nat) (j : JV) : Option (Nat × Nat × JV) :=
  match j.refText? with
  | none => if j.isObj then some (doc, h, j) else none
  | some _ => if st.value.contains (nodeId doc h) then followRef b k 24 doc j else none

/-- the content a path item object has after loading (`*pathItem = resolved`, chains resolved first;
    a cycle of path-item references leaves them empty) -/
def pathItemContent (b : Built) (st : St) : Nat → Nat → Nat → JV → List Nat → (Nat × Nat × JV)
  | 0, doc, h, _, _ => (doc, h, .obj [])
  | fuel + 1, doc, h, j, seen =>
    match j.refTextPI? with
    | none => (doc, h, j)
    | some t =>
      if !pathItemIsEmpty j then (doc, h, j)
      else if seen.contains (nodeId doc h) then (doc, h, .obj [])
      else match targetJ b.cfg b.ds doc t .pathItem with
        | .wrapper d h2 j2 => pathItemContent b st fuel d h2 j2 (nodeId doc h :: seen)
        | .raw d h2 j2 => pathItemContent b st fuel d h2 j2 (nodeId doc h :: seen)
        | .single d h2 j2 => pathItemContent b st fuel d h2 j2 (nodeId doc h :: seen)   -- 376b90f: the file may be a reference itself
        | _ => (doc, h, .obj [])

/-- `add<Kind>ToSpec` up to the call of the name resolver: `isExternal`, or the panic -/
def addToSpec (cfg : Cfg) (st : St) (doc h : Nat) (j : JV) (pe : Bool) : Except IHit Bool :=
  match j.refText? with
  | none => .ok false
  | some t =>
    -- 05c5875: `x == nil || x.Value == nil || !isExternalRef(…)` — a reference without value is left alone
    if cfg.internValueGuard && !st.value.contains (nodeId doc h) then .ok false
    else if isExternalRef t pe then
      (if st.pathed.contains (nodeId doc h) then .ok true else .error ⟨nodeId doc h, t⟩)
    else .ok false

mutual
/-- `isExternal := doc.addSchemaToSpec(s, …); if s != nil { doc.derefSchema(s.Value, …, isExternal || parentIsExternal) }` -/
def iwSchemaRef (b : Built) (st : St) : Nat → Nat → Nat → JV → Bool → List Nat → IM
  | 0, _, _, _, _, v => .ok v
  | fuel + 1, doc, h, j, pe, v =>
    match addToSpec b.cfg st doc h j pe with
    | .error e => .error e
    | .ok isExt =>
      match valueOf b st .schema doc h j with
      | none => .ok v
      | some (d, h', jv) =>
        -- derefSchema
        if v.contains (nodeId d h') then .ok v
        else
          let v1 := nodeId d h' :: v
          let lists : List (String × List JV) := [("allOf", arrItems jv "allOf"), ("anyOf", arrItems jv "anyOf"), ("oneOf", arrItems jv "oneOf")]
          let subs : List (Nat × JV) :=
            lists.flatMap (fun l => (idxList l.2).map (fun p => (stepHash (stepHash h' l.1) (toString p.1), p.2))) ++
            (objEntries jv "properties").map (fun kv => (stepHash (stepHash h' "properties") kv.1, kv.2)) ++
            (match jv.getNN? "not" with | some s => [(stepHash h' "not", s)] | none => []) ++
            (match jv.get? "additionalProperties" with | some (.obj kvs) => [(stepHash h' "additionalProperties", JV.obj kvs)] | _ => []) ++
            (match jv.getNN? "items" with | some s => [(stepHash h' "items", s)] | none => [])
          foldIM (fun (p : Nat × JV) v => iwSchemaRef b st fuel d p.1 p.2 (isExt || pe) v) subs v1
/-- `derefParameter(p, …)` on the value at (doc, h) -/
def iwParameter (b : Built) (st : St) : Nat → Nat → Nat → JV → Bool → List Nat → IM
  | 0, _, _, _, _, v => .ok v
  | fuel + 1, doc, h, jv, pe, v =>
    let sj := (jv.getNN? "schema").getD .null
    match addToSpec b.cfg st doc (stepHash h "schema") sj pe with
    | .error e => .error e
    | .ok isExt =>
      match iwContent b st fuel doc h jv pe v with
      | .error e => .error e
      | .ok v1 =>
        -- `doc.derefSchema(p.Schema.Value, …, isExternal || parentIsExternal)`: the wrapper was added above
        match valueOf b st .schema doc (stepHash h "schema") sj with
        | none => .ok v1
        | some _ => iwSchemaValue b st fuel doc (stepHash h "schema") sj (isExt || pe) v1
/-- `derefSchema` of the value of a wrapper whose `add…ToSpec` was done by the caller -/
def iwSchemaValue (b : Built) (st : St) : Nat → Nat → Nat → JV → Bool → List Nat → IM
  | 0, _, _, _, _, v => .ok v
  | fuel + 1, doc, h, j, pe, v =>
    match valueOf b st .schema doc h j with
    | none => .ok v
    | some (d, h', jv) =>
      if v.contains (nodeId d h') then .ok v
      else
        let v1 := nodeId d h' :: v
        let lists : List (String × List JV) := [("allOf", arrItems jv "allOf"), ("anyOf", arrItems jv "anyOf"), ("oneOf", arrItems jv "oneOf")]
        let subs : List (Nat × JV) :=
          lists.flatMap (fun l => (idxList l.2).map (fun p => (stepHash (stepHash h' l.1) (toString p.1), p.2))) ++
          (objEntries jv "properties").map (fun kv => (stepHash (stepHash h' "properties") kv.1, kv.2)) ++
          (match jv.getNN? "not" with | some s => [(stepHash h' "not", s)] | none => []) ++
          (match jv.get? "additionalProperties" with | some (.obj kvs) => [(stepHash h' "additionalProperties", JV.obj kvs)] | _ => []) ++
          (match jv.getNN? "items" with | some s => [(stepHash h' "items", s)] | none => [])
        foldIM (fun (p : Nat × JV) v => iwSchemaRef b st fuel d p.1 p.2 pe v) subs v1
/-- `derefContent(c, …)`: the `content` member of the value at (doc, h) -/
def iwContent (b : Built) (st : St) : Nat → Nat → Nat → JV → Bool → List Nat → IM
  | 0, _, _, _, _, v => .ok v
  | fuel + 1, doc, h, jv, pe, v =>
    let hc := stepHash h "content"
    foldIM (fun (kv : String × JV) v =>
      if kv.2.isNull then .ok v
      else
        let hm := stepHash hc kv.1
        let sj := (kv.2.getNN? "schema").getD .null
        match addToSpec b.cfg st doc (stepHash hm "schema") sj pe with
        | .error e => .error e
        | .ok isExt =>
          match iwSchemaValue b st fuel doc (stepHash hm "schema") sj (isExt || pe) v with
          | .error e => .error e
          | .ok v1 =>
            -- derefExamples
            match foldIM (fun (e : String × JV) v => match addToSpec b.cfg st doc (stepHash (stepHash hm "examples") e.1) e.2 pe with
                            | .error x => .error x | .ok _ => .ok v) (objEntries kv.2 "examples") v1 with
            | .error e => .error e
            | .ok v2 =>
              foldIM (fun (en : String × JV) v =>
                if en.2.isNull then .ok v
                else iwHeaders b st fuel doc (stepHash (stepHash (stepHash hm "encoding") en.1) "headers") (objEntries en.2 "headers") pe v)
                (objEntries kv.2 "encoding") v2)
      (objEntries jv "content") v
/-- `derefHeaders(hs, …)`: the entries of a headers map whose pointer hash is `hh` -/
def iwHeaders (b : Built) (st : St) : Nat → Nat → Nat → List (String × JV) → Bool → List Nat → IM
  | 0, _, _, _, _, v => .ok v
  | fuel + 1, doc, hh, hs, pe, v =>
    foldIM (fun (kv : String × JV) v =>
      let h := stepHash hh kv.1
      match addToSpec b.cfg st doc h kv.2 pe with
      | .error e => .error e
      | .ok isExt =>
        match valueOf b st .header doc h kv.2 with
        | none => .ok v
        | some (d, h', jv) =>
          if v.contains (nodeId d h' + 1) then .ok v          -- isVisitedHeader (odd keys: headers, even: schemas / path items)
          else iwParameter b st fuel d h' jv (pe || isExt) ((nodeId d h' + 1) :: v))
      hs v
/-- `derefResponse(r, …)`: a response wrapper -/
def iwResponse (b : Built) (st : St) : Nat → Nat → Nat → JV → Bool → List Nat → IM
  | 0, _, _, _, _, v => .ok v
  | fuel + 1, doc, h, j, pe, v =>
    match addToSpec b.cfg st doc h j pe with
    | .error e => .error e
    | .ok isExt =>
      match valueOf b st .response doc h j with
      | none => .ok v
      | some (d, h', jv) =>
        let pe' := isExt || pe
        match iwHeaders b st fuel d (stepHash h' "headers") (objEntries jv "headers") pe' v with
        | .error e => .error e
        | .ok v1 =>
          match iwContent b st fuel d h' jv pe' v1 with
          | .error e => .error e
          | .ok v2 =>
            foldIM (fun (l : String × JV) v => match addToSpec b.cfg st d (stepHash (stepHash h' "links") l.1) l.2 pe' with
                      | .error x => .error x | .ok _ => .ok v) (objEntries jv "links") v2
/-- a parameter wrapper in a list: `addParameterToSpec`, then `derefParameter(*param.Value, …)` -/
def iwParamRef (b : Built) (st : St) : Nat → Nat → Nat → JV → Bool → List Nat → IM
  | 0, _, _, _, _, v => .ok v
  | fuel + 1, doc, h, j, pe, v =>
    match addToSpec b.cfg st doc h j pe with
    | .error e => .error e
    | .ok isExt =>
      match valueOf b st .parameter doc h j with
      | none => .ok v
      | some (d, h', jv) => iwParameter b st fuel d h' jv (pe || isExt) v
/-- `derefPaths(paths, …)`: the entries (name, path item JSON) of a map of path items written in `doc` below hash `hp` -/
def iwPaths (b : Built) (st : St) : Nat → Nat → Nat → List (String × JV) → Bool → List Nat → IM
  | 0, _, _, _, _, v => .ok v
  | fuel + 1, doc, hp, items, pe, v =>
    foldIM (fun (kv : String × JV) v =>
      let h := stepHash hp kv.1
      if v.contains (nodeId doc h) then .ok v                  -- isVisitedPathItem
      else
        let v0 := nodeId doc h :: v
        let pie := isExternalRef ((kv.2.refTextPI?).getD "") pe
        let c := if st.value.contains (nodeId doc h) then pathItemContent b st 16 doc h kv.2 [] else (doc, h, kv.2)
        let d := c.1
        let hc := c.2.1
        let jc := c.2.2
        match foldIM (fun (p : Nat × JV) v => iwParamRef b st fuel d (stepHash (stepHash hc "parameters") (toString p.1)) p.2 pie v)
                (idxList (arrItems jc "parameters")) v0 with
        | .error e => .error e
        | .ok v1 =>
          foldIM (fun (m : String) v =>
            match jc.getNN? m with
            | none => .ok v
            | some op =>
              let hm := stepHash hc m
              let rbj := (op.getNN? "requestBody").getD .null
              match addToSpec b.cfg st d (stepHash hm "requestBody") rbj pie with
              | .error e => .error e
              | .ok rbExt =>
                match (match valueOf b st .requestBody d (stepHash hm "requestBody") rbj with
                       | none => (.ok v : IM)
                       | some (d2, h2, jv) => iwContent b st fuel d2 h2 jv (pie || rbExt) v) with
                | .error e => .error e
                | .ok v2 =>
                  match foldIM (fun (cb : String × JV) v =>
                          let hcb := stepHash (stepHash hm "callbacks") cb.1
                          match addToSpec b.cfg st d hcb cb.2 pie with
                          | .error e => .error e
                          | .ok cbExt =>
                            match valueOf b st .callback d hcb cb.2 with
                            | none => .ok v
                            | some (d3, h3, cv) => iwPaths b st fuel d3 h3 (maplikeEntries "Callback" cv) (pie || cbExt) v)
                          (objEntries op "callbacks") v2 with
                  | .error e => .error e
                  | .ok v3 =>
                    match foldIM (fun (r : String × JV) v => iwResponse b st fuel d (stepHash (stepHash hm "responses") r.1) r.2 pie v)
                            (maplikeEntries "Responses" ((op.get? "responses").getD .null)) v3 with
                    | .error e => .error e
                    | .ok v4 =>
                      foldIM (fun (p : Nat × JV) v => iwParamRef b st fuel d (stepHash (stepHash hm "parameters") (toString p.1)) p.2 pie v)
                        (idxList (arrItems op "parameters")) v4)
            methodNames v1)
      items v
end

def internFuel : Nat := 40

/-- `InternalizeRefs` of the loaded root document: `none`, or the wrapper at which `DefaultRefNameResolver` panics -/
def internalizeHit (b : Built) (st : St) : Option IHit :=
  let root := b.ds.root
  let comps := (root.get? "components").getD .null
  let hk (key : String) := pathHash ["components", key]
  let flat (key : String) (f : Nat → JV → List Nat → IM) (v : List Nat) : IM :=
    foldIM (fun (kv : String × JV) v => f (stepHash (hk key) kv.1) kv.2 v) (objEntries comps key) v
  let addOnly (key : String) (v : List Nat) : IM :=
    flat key (fun h j v => match addToSpec b.cfg st 0 h j false with | .error e => .error e | .ok _ => .ok v) v
  let steps : List (List Nat → IM) := [
    flat "schemas" (fun h j v => iwSchemaRef b st internFuel 0 h j false v),
    flat "parameters" (fun h j v => iwParamRef b st internFuel 0 h j false v),
    (fun v => iwHeaders b st internFuel 0 (hk "headers") (objEntries comps "headers") false v),
    flat "requestBodies" (fun h j v =>
      match addToSpec b.cfg st 0 h j false with
      | .error e => .error e
      | .ok isExt => match valueOf b st .requestBody 0 h j with
        | none => .ok v
        | some (d, h', jv) => iwContent b st internFuel d h' jv isExt v),
    flat "responses" (fun h j v => iwResponse b st internFuel 0 h j false v),
    addOnly "securitySchemes", addOnly "examples", addOnly "links",
    flat "callbacks" (fun h j v =>
      match addToSpec b.cfg st 0 h j false with
      | .error e => .error e
      | .ok isExt => match valueOf b st .callback 0 h j with
        | none => .ok v
        | some (d, h', cv) => iwPaths b st internFuel d h' (maplikeEntries "Callback" cv) isExt v),
    (fun v => iwPaths b st internFuel 0 (pathHash ["paths"]) (maplikeEntries "Paths" ((root.get? "paths").getD .null)) false v)]
  match foldIM (fun (f : List Nat → IM) v => f v) steps [] with
  | .error e => some e
  | .ok _ => none

mutual
def refIdsOf : Node → List Nat
  | .mk id _ _ ref _ kids => (match ref with | some _ => [id] | none => []) ++ refIdsOfs kids
def refIdsOfs : List Node → List Nat
  | [] => []
  | k :: ks => refIdsOf k ++ refIdsOfs ks
end

mutual
def nodeIds : Node → List Nat
  | .mk id _ _ _ _ kids => id :: nodesIds kids
def nodesIds : List Node → List Nat
  | [] => []
  | k :: ks => nodeIds k ++ nodesIds ks
end

/-- every wrapper position the loader's walk can visit: the roots and everything a reference resolves to -/
def Built.walkedIds (b : Built) : List Nat :=
  nodesIds b.roots ++ b.table.flatMap (fun e => match e.2.node? with | some n => nodeIds n | none => [])

/-! ### MarshalJSON after InternalizeRefs: `derefPaths` clears the `$ref` of every path item it visits
("inline full operations"), so the serialisation follows the content a path item got from its target. A
path item below an INLINE callback of an operation whose content is (through `$ref`s) the content that
operation belongs to makes the object graph cyclic (the copies share the `*Operation`s):
`PathItem.MarshalJSON → Operation → Callback → PathItem → …` never returns. A callback given by `$ref`
is serialised as a reference and cuts the cycle. -/

def marshalCycleFrom (b : Built) (st : St) : Nat → Nat → Nat → JV → List Nat → Bool
  | 0, _, _, _, _ => false
  | fuel + 1, doc, h, item, onPath =>
    if item.isNull then false else
    let c := if st.value.contains (nodeId doc h) then pathItemContent b st 16 doc h item [] else (doc, h, item)
    let d := c.1
    let hc := c.2.1
    let jc := c.2.2
    let key := nodeId d hc
    if onPath.contains key then true
    else methodNames.any (fun m =>
      match jc.getNN? m with
      | none => false
      | some op =>
        (objEntries op "callbacks").any (fun cb =>
          -- an inline callback object: its path items are serialised in place
          if cb.2.refText?.isSome || !cb.2.isObj then false
          else
            let hcb := stepHash (stepHash (stepHash hc m) "callbacks") cb.1
            (maplikeEntries "Callback" cb.2).any (fun it => marshalCycleFrom b st fuel d (stepHash hcb it.1) it.2 (key :: onPath))))

/-- exclusion predicate `CallbackCycle`: some path item of the document (in `paths` or in a callback of
    `components.callbacks`) starts such a cycle -/
def marshalCycle (b : Built) (st : St) : Bool :=
  let root := b.ds.root
  let paths := maplikeEntries "Paths" ((root.get? "paths").getD .null)
  let hp := pathHash ["paths"]
  paths.any (fun kv => marshalCycleFrom b st 12 0 (stepHash hp kv.1) kv.2 []) ||
  (objEntries ((root.get? "components").getD .null) "callbacks").any (fun cb =>
    match valueOf b st .callback 0 (stepHash (pathHash ["components", "callbacks"]) cb.1) cb.2 with
    | none => false
    | some (d, h, cv) => (maplikeEntries "Callback" cv).any (fun it => marshalCycleFrom b st 12 d (stepHash h it.1) it.2 []))

/-! ### the model's outcome for one case, and the property on it -/

structure Outcome where
  load     : Res
  hit      : Option IHit        -- InternalizeRefs: the wrapper at which the name resolver panics
  excl     : List String        -- known-finding classes (exclusion predicates) that hold
  abnormal : List String        -- stage groups in which the model ends abnormally

/-- exclusion predicate `Unresolved`: the name resolver panics at a wrapper the loader walked and left without location -/
def unresolvedHit (b : Built) (hit : Option IHit) : Bool :=
  match hit with | some h => b.walkedIds.contains h.id | none => false
/-- exclusion predicate `UnwalkedRef`: … at a wrapper the loader's walk never visits -/
def unwalkedHit (b : Built) (hit : Option IHit) : Bool :=
  match hit with | some h => !b.walkedIds.contains h.id | none => false

/-! ### typed decoding, the part that is certain (round 5)

`unmarshal` decodes the parsed bytes into the Go structs before any reference is resolved. Which JSON kinds a
member accepts depends on custom unmarshallers and on the YAML fallback (a number becomes a string there), so
the model claims a decoding error only where no spelling can succeed: a JSON object or array at a field whose
declared type is a predeclared basic type or a pointer to one (`Gen.c20PlainScalars`, regenerated), and a
JSON array / string / number / boolean at a field that is one of the library's object structs (first field
`Extensions`: `Gen.c20ExtensionsFirst`), a reference wrapper, or a Go map. `null` decodes everywhere; a wrapper
written as a reference is not decoded further (`positions` stops there). Everything else stays
over-approximated (the model loads, the real decoding may fail). -/

def JV.isComposite : JV → Bool | .obj _ => true | .arr _ => true | _ => false

def objectStruct (n : String) : Bool :=
  Gen.c20ExtensionsFirst.contains n || (wrapperValueTy? n).isSome || (maplikeTy? n).isSome

/-- a number in plain spelling (digits, sign, point, at most 15 characters). The YAML fallback of `unmarshal` re-reads
    the bytes: a JSON number such as 1e999 is a string there and decodes into a string field, so only plain numbers
    are claimed to clash with a string field -/
def plainNum (s : String) : Bool :=
  s.length ≤ 15 && s.toList.all (fun c => c.isDigit || c == '.' || c == '-')

/-- a scalar of another JSON kind than the field's basic type accepts (`encoding/json` converts nothing, and the YAML
    fallback of `unmarshal` has no target type below `T`, which has its own UnmarshalJSON): a number or boolean at a
    string, a string or number at a bool, a string or boolean at a number. Whether a number FITS its integer /
    float type is not claimed. -/
def scalarKindClash (ctx : String) (j : JV) : Bool :=
  match (Gen.c20ScalarKinds.find? (·.1 == ctx)).map (·.2), j with
  | some "string", .num s => plainNum s
  | some "string", .bool _ => true
  | some "bool", .str _ => true
  | some "bool", .num _ => true
  | some "num", .str _ => true
  | some "num", .bool _ => true
  | _, _ => false

def decodeMisfitAt (p : Pos) : Bool :=
  if p.j.isNull then false else
  match p.ty with
  | .scalar => !p.inColl && Gen.c20PlainScalars.contains p.ctx && (p.j.isComposite || scalarKindClash p.ctx p.j)
  | .ptr .scalar => !p.inColl && Gen.c20PlainScalars.contains p.ctx && (p.j.isComposite || scalarKindClash p.ctx p.j)
  | .struct n => objectStruct n && !p.j.isObj
  | .ptr (.struct n) => objectStruct n && !p.j.isObj
  | .mapOf _ => !p.j.isObj
  | _ => false

/-- the document cannot be decoded into `T`: some typed position holds a JSON kind its Go type never accepts -/
def decodeMisfit (ps : List Pos) : Bool := ps.any decodeMisfitAt

def outcome (cfg : Cfg) (ds : Docs) : Outcome :=
  let b := build cfg ds
  -- the typed decoding comes first: where it certainly fails, the load ends with an error before any reference is resolved
  let load := if decodeMisfit (docPositions ds.root) then Res.err else b.load
  let loadPanics := match load with | .panic _ => true | _ => false
  let hit : Option IHit := match load with | .ok st => internalizeHit b st | _ => none
  let ps := docPositions ds.root
  let cComp := (match load with | .ok _ => true | _ => false) && compositionCycle b ps
  let cHdr := !cfg.headerStack && (match load with | .ok _ => true | _ => false) && headerCycle b ps
  -- the document is serialised again only when InternalizeRefs returned
  let cCb := match load with | .ok st => hit.isNone && marshalCycle b st | _ => false
  { load := load, hit := hit,
    excl := (if unresolvedHit b hit then ["Unresolved"] else []) ++ (if unwalkedHit b hit then ["UnwalkedRef"] else []) ++
            (if cComp then ["CompositionCycle"] else []) ++ (if cHdr then ["HeaderCycle"] else []) ++
            (if cCb then ["CallbackCycle"] else []),
    abnormal := (if loadPanics then ["load"] else []) ++ (if hit.isSome then ["post"] else []) ++
                (if cComp then ["crash:visit"] else []) ++ (if cHdr then ["crash:validate"] else []) ++
                (if cCb then ["crash:marshal"] else []) }

/-- the property on one case: every operation returns normally -/
def specAbnormal : List String := []

end KinModel.LoadDoc
