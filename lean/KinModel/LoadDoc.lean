/-
C20 — from a parsed document (JSON tree) to the abstract loader's world, and the exclusion predicates
(known-finding classes) as decidable functions of the document.

  * `drill`      model of `resolveComponent`'s drill closure and `drillIntoField` (openapi3/loader.go)
                 over the GENERATED struct table `Gen.c20Fields` (go/cmd/extract/c20types.go): map key,
                 slice index, tagged struct field, `Value` fall-through of the reference wrappers,
                 `Extensions`, the special cases `*T` + "", `*SchemaRef` + "additionalProperties",
                 `*Responses/*Callback/*Paths` → `.m`, typed nil pointers, the raw re-read fallback.
  * `toNode`     the loader's walk (`ResolveRefsIn` and the ten `resolve*Ref`): which wrapper positions
                 below a value are visited, in which order.
  * `mkWorld`    `World.target` for the abstract loader of `KinModel.LoadSafety`.
  * class predicates: `kindClash` (#12), `nilTarget`, `drillNil`, `encodingHeader` (#41), `unresolved` (#34),
                 `nullWrapper`, `nullMember`, `emptyCycle`, `compositionCycle`, `callbackCycle`.
Decoding is over-approximated: a member whose JSON shape does not fit its Go type makes the real load
fail with an error (never a panic); the model skips such members.
-/
import KinModel.LoadSafety
import KinModel.LoadTypes
import KinModel.Gen.C20Types

namespace KinModel.LoadDoc
open KinModel.LoadSafety KinModel.LoadTypes

inductive JV
  | null | bool (b : Bool) | num (s : String) | str (s : String)
  | arr (xs : List JV) | obj (kvs : List (String × JV))
  deriving Inhabited, Repr

def JV.isNull : JV → Bool | .null => true | _ => false
def JV.fields : JV → List (String × JV) | .obj kvs => kvs | _ => []
def JV.items : JV → List JV | .arr xs => xs | _ => []
def JV.get? (j : JV) (k : String) : Option JV := (j.fields.find? (·.1 == k)).map (·.2)
/-- member present and not null -/
def JV.getNN? (j : JV) (k : String) : Option JV := match j.get? k with | some .null => none | r => r
def JV.isObj : JV → Bool | .obj _ => true | _ => false
def JV.strVal? : JV → Option String | .str s => some s | _ => none
/-- the `$ref` text of an object (UnmarshalJSON of the wrappers: a non-empty string) -/
def JV.refText? (j : JV) : Option String :=
  match j.get? "$ref" with | some (.str s) => if s.isEmpty then none else some s | _ => none

/-! ### struct table access -/

/-- the table grouped by owner (evaluated once) -/
@[irreducible] def fieldsByOwner : List (String × List Field) :=
  (Gen.c20Fields.foldl (fun (acc : List String) f => if acc.contains f.owner then acc else acc ++ [f.owner]) []).map
    (fun o => (o, Gen.c20Fields.filter (·.owner == o)))
def taggedFields (owner : String) : List Field := ((fieldsByOwner.find? (·.1 == owner)).map (·.2)).getD []
def fieldTy? (owner tag : String) : Option Ty := ((taggedFields owner).find? (·.tag == tag)).map (·.ty)
def wrapperValueTy? (name : String) : Option Ty := (Gen.c20Wrappers.find? (·.1 == name)).map (·.2)
def maplikeTy? (name : String) : Option Ty := (Gen.c20Maplikes.find? (·.1 == name)).map (·.2)
def extensionsFirst (name : String) : Bool := Gen.c20ExtensionsFirst.contains name

def kindOfStruct? : String → Option Kind
  | "HeaderRef" => some .header | "ParameterRef" => some .parameter | "RequestBodyRef" => some .requestBody
  | "ResponseRef" => some .response | "SchemaRef" => some .schema | "SecuritySchemeRef" => some .securityScheme
  | "ExampleRef" => some .example | "CallbackRef" => some .callback | "LinkRef" => some .link
  | "PathItem" => some .pathItem | _ => none

def structOfKind : Kind → String
  | .header => "HeaderRef" | .parameter => "ParameterRef" | .requestBody => "RequestBodyRef"
  | .response => "ResponseRef" | .schema => "SchemaRef" | .securityScheme => "SecuritySchemeRef"
  | .example => "ExampleRef" | .callback => "CallbackRef" | .link => "LinkRef" | .pathItem => "PathItem"

/-- `reflect.TypeOf(resolved)` for a resolver of the kind -/
def expectedTy (k : Kind) : Ty := .ptr (.struct (structOfKind k))

/-- members of a JSON object that are not tagged fields of the struct (what `Extensions` collects) -/
def extensionsOf (owner : String) (j : JV) : List (String × JV) :=
  j.fields.filter (fun kv => (fieldTy? owner kv.1).isNone)

/-! ### drill-down -/

/-- the cursor of the drill closure -/
inductive Cur
  | val (ty : Ty) (j : JV)     -- a non-nil Go value of type `ty` decoded from `j` (`null` = zero value of a map/slice/struct)
  | nilOf (ty : Ty)            -- a typed nil pointer
  | anyv (j : JV)              -- an interface value holding plainly decoded JSON
  deriving Inhabited

inductive DrillOut
  | found (c : Cur)
  | err
  | panic
  deriving Inhabited

/-- the Go value a member of type `ty` holds after decoding `j?` (absent member = `none`) -/
def mkCur (ty : Ty) (j? : Option JV) : Cur :=
  match ty, j? with
  | .ptr _, none => .nilOf ty
  | .ptr _, some .null => .nilOf ty
  | .any, none => .anyv .null
  | .any, some j => .anyv j
  | _, none => .val ty .null
  | _, some j => .val ty j

/-- `strconv.ParseUint(s, 10, 32)` -/
def parseIndex (s : String) : Option Nat :=
  if s.isEmpty || !s.all Char.isDigit then none
  else
    let n := s.toNat!
    if s.length > 10 || n ≥ 4294967296 then none else some n

def unescapeToken (s : String) : String := (s.replace "~1" "/").replace "~0" "~"

/-- tokens of a fragment: "" counts as "/", it must start with '/' -/
def fragmentTokens (frag : String) : Option (List String) :=
  let f := if frag.isEmpty then "/" else frag
  if f.front != '/' then none else some (((f.drop 1).copy.splitOn "/").map unescapeToken)

structure Docs where
  root    : JV
  files   : List (String × JV)      -- other files, sorted by name; document number = position + 1
  ext     : Bool                    -- IsExternalRefsAllowed
  hasPath : Bool                    -- entry point gives the root a location (LoadFromDataWithPath / LoadFromFile)

def Docs.doc? (ds : Docs) (i : Nat) : Option JV :=
  if i == 0 then some ds.root else (ds.files[i - 1]?).map (·.2)

/-- file part of an external reference → document number (the spellings the generator uses; everything
    else is a read error) -/
def Docs.fileIndex? (ds : Docs) (file : String) : Option Nat :=
  if !ds.hasPath then none else
  let f : String := if file.startsWith "file://" then (file.drop 7).copy else file
  let f : String := if f.startsWith "/r/" then (f.drop 3).copy else if f.startsWith "../r/" then (f.drop 5).copy else if f.startsWith "./" then (f.drop 2).copy else f
  if f.contains '/' || f.contains ':' || f.contains '%' || f.contains ' ' || f.isEmpty then none
  else if f == "root.json" then some 0
  else (ds.files.findIdx? (·.1 == f)).map (· + 1)

/-- split a reference text: (document number, fragment tokens); `none` = error before any drill-down -/
def Docs.locate (ds : Docs) (doc : Nat) (text : String) : Option (Nat × List String) :=
  if text.contains '%' || text.contains ' ' then none
  else match text.splitOn "#" with
  | [file, frag] =>
    if file.isEmpty then (fragmentTokens frag).map (fun ts => (doc, ts))
    else if !ds.ext then none
    else match ds.fileIndex? file, fragmentTokens frag with
      | some d, some ts => some (d, ts)
      | _, _ => none
  | _ => none

set_option maxRecDepth 8000 in
mutual
/-- `drillIntoField(cursor, p)`; `fuel` bounds the `Value` fall-through across references -/
def drillField (ds : Docs) : Nat → Nat → Cur → String → DrillOut
  | 0, _, _, _ => .err
  | fuel + 1, doc, c, p =>
    match c with
    | .nilOf _ => .err                       -- reflect.Indirect of a nil pointer: "not a map, slice nor struct"
    | .anyv j =>
      match j with
      | .obj kvs => match kvs.find? (·.1 == p) with | some kv => .found (.anyv kv.2) | none => .err
      | .arr xs => match parseIndex p with
        | some i => match xs[i]? with | some x => .found (.anyv x) | none => .err
        | none => .err
      | _ => .err
    | .val ty j =>
      match ty with
      | .ptr t => drillField ds fuel doc (.val t j) p
      | .mapOf e => match j.get? p with | some v => .found (mkCur e (some v)) | none => .err
      | .sliceOf e => match parseIndex p with
        | some i => match j.items[i]? with | some x => .found (mkCur e (some x)) | none => .err
        | none => .err
      | .struct name =>
        -- a path item given by `$ref` was overwritten by its target when it was resolved (`*pathItem = resolved`)
        let j : JV := if name == "PathItem" && p != "$ref" then
            (match j.refText? with
             | some t => (match drillText ds fuel doc t with
                          | .found (.val (.ptr (.struct "PathItem")) j2) => j2
                          | _ => j)
             | none => j)
          else j
        match fieldTy? name p with
        | some fty => .found (mkCur fty (j.get? p))
        | none =>
          match wrapperValueTy? name with
          | some vty =>
            -- `drillIntoField(val.FieldByName("Value").Interface(), p)`
            match j.refText? with
            | none => if j.isNull then .err else drillField ds fuel doc (.val vty j) p
            | some t =>
              -- a reference: its `Value` is nil (→ error) or, once resolved, the value of its target
              match drillText ds fuel doc t with
              | .found (.val (.ptr (.struct n2)) j2) =>
                if n2 == name then drillField ds fuel doc (.val (.ptr (.struct n2)) j2) p else .err
              | .panic => .err
              | _ => .err
          | none =>
            if extensionsFirst name then
              match (extensionsOf name j).find? (·.1 == p) with | some kv => .found (.anyv kv.2) | none => .err
            else .err
      | _ => .err
/-- one token of the drill closure (the type switch, then `drillIntoField`, then the untyped-nil check) -/
def drillStep (ds : Docs) : Nat → Nat → Cur → String → DrillOut
  | 0, _, _, _ => .err
  | fuel + 1, doc, c, p =>
    let r : DrillOut :=
      match c with
      | .val (.ptr (.struct "T")) j =>
        if p.isEmpty then .found (.val (.mapOf .any) (.obj (extensionsOf "T" j))) else drillField ds fuel doc c p
      | .val (.ptr (.struct "SchemaRef")) j =>
        if p == "additionalProperties" then
          if j.refText?.isSome then .panic      -- `c.Value.AdditionalProperties` with `Value == nil`
          else match j.get? "additionalProperties" with
            | some (.bool _) => .found (.val .scalar .null)
            | some (.obj kvs) => .found (.val (.ptr (.struct "SchemaRef")) (.obj kvs))
            | _ => .found (.nilOf (.ptr (.struct "SchemaRef")))
        else drillField ds fuel doc c p
      | .nilOf (.ptr (.struct "SchemaRef")) =>
        if p == "additionalProperties" then .panic else .err
      | .val (.ptr (.struct name)) j =>
        match maplikeTy? name with
        | some mty => drillField ds fuel doc (.val mty (.obj (extensionsOf name j))) p    -- `cursor = c.m`
        | none => drillField ds fuel doc c p
      | .nilOf (.ptr (.struct name)) =>
        if (maplikeTy? name).isSome then .panic else .err                                  -- `c.m` of a nil pointer
      | _ => drillField ds fuel doc c p
    match r with
    | .found (.anyv .null) => .err          -- `if cursor == nil`
    | r => r
/-- all tokens from a document root -/
def drillTokens (ds : Docs) : Nat → Nat → Cur → List String → DrillOut
  | 0, _, _, _ => .err
  | _, _, c, [] => .found c
  | fuel + 1, doc, c, p :: ps =>
    match drillStep ds fuel doc c p with
    | .found c' => drillTokens ds fuel doc c' ps
    | r => r
/-- typed drill-down of a reference text written in document `doc` -/
def drillText (ds : Docs) : Nat → Nat → String → DrillOut
  | 0, _, _ => .err
  | fuel + 1, doc, text =>
    match ds.locate doc text with
    | none => .err
    | some (d, toks) =>
      match ds.doc? d with
      | none => .err
      | some j => if j.isObj then drillTokens ds fuel d (.val (.ptr (.struct "T")) j) toks else .err
end

/-- outcome of the raw re-read fallback -/
inductive RawOut
  | found (j : JV)
  | nullMember      -- a step succeeded with a nil value: `drill` fails, but the `err` the closure shares
                    -- with `resolveComponent` was last set to nil — the caller goes on with an empty wrapper
  | err

/-- the raw re-read fallback: the same tokens over the plainly decoded file -/
def drillRaw (ds : Docs) (doc : Nat) (toks : List String) : RawOut :=
  match ds.doc? doc with
  | none => .err
  | some j =>
    let step (c : RawOut) (p : String) : RawOut :=
      match c with
      | .found (.obj kvs) => match kvs.find? (·.1 == p) with | some kv => (if kv.2.isNull then .nullMember else .found kv.2) | none => .err
      | .found (.arr xs) => match parseIndex p with
        | some i => (match xs[i]? with | some .null => .nullMember | some x => .found x | none => .err)
        | none => .err
      | .found _ => .err
      | r => r
    toks.foldl step (.found j)

def drillFuel : Nat := 64

/-! ### the loader's walk -/

def strHash (s : String) : Nat := s.toList.foldl (fun h c => (h * 131 + c.toNat) % 2305843009213693951) 7
/-- hash of a pointer, token by token (the walk and the drill-down number the same object alike) -/
def stepHash (h : Nat) (tok : String) : Nat := (h * 1000003 + strHash tok) % 2305843009213693951
def pathHash (toks : List String) : Nat := toks.foldl stepHash 11
/-- identity of the Go object decoded from document `doc` at the pointer with hash `h` (even) -/
def nodeId (doc : Nat) (h : Nat) : Nat := 2 * (h * 8 + doc % 8)

def objEntries (j : JV) (key : String) : List (String × JV) := ((j.get? key).getD .null).fields
def arrItems (j : JV) (key : String) : List JV := ((j.get? key).getD .null).items
def methodNames : List String := ["connect", "delete", "get", "head", "options", "patch", "post", "put", "trace"]

/-- `PathItem.isEmpty()` of the decoded object -/
def pathItemIsEmpty (j : JV) : Bool :=
  (j.getNN? "summary").isNone && (j.getNN? "description").isNone && methodNames.all (fun m => (j.getNN? m).isNone) &&
  (arrItems j "servers").isEmpty && (arrItems j "parameters").isEmpty

mutual
/-- the wrapper decoded from `j` at the pointer with hash `h` and the wrapper positions the matching `resolve*Ref` visits below it -/
def toNode : Nat → Nat → Kind → Nat → JV → Node
  | 0, doc, kind, h, _ => .mk (nodeId doc h) doc kind none false []
  | fuel + 1, doc, kind, h, j =>
    let id := nodeId doc h
    if j.isNull then .mk id doc kind none true []
    else match j.refText? with
    | some t =>
      if kind == .pathItem && !pathItemIsEmpty j then .mk id doc kind none false []   -- `if !pathItem.isEmpty() { return }`
      else .mk id doc kind (some (strHash t)) false []
    | none =>
      let field (h : Nat) (k : Kind) (c : JV) (key : String) : List Node :=
        match c.getNN? key with | some s => [toNode fuel doc k (stepHash h key) s] | none => []
      let media (h : Nat) (c : JV) (withExamples : Bool) : List Node :=
        (if withExamples then mapNodes fuel doc .example (stepHash h "examples") (objEntries c "examples") else []) ++
        field h .schema c "schema"
      let content (withExamples : Bool) : List Node :=
        let hc := stepHash h "content"
        ((objEntries j "content").filter (fun kv => !kv.2.isNull)).flatMap (fun kv => media (stepHash hc kv.1) kv.2 withExamples)
      let kids : List Node :=
        match kind with
        | .header => field h .schema j "schema"
        | .parameter => content false ++ field h .schema j "schema"
        | .requestBody => content true
        | .response =>
          mapNodes fuel doc .header (stepHash h "headers") (objEntries j "headers") ++ content true ++
          mapNodes fuel doc .link (stepHash h "links") (objEntries j "links")
        | .schema =>
          field h .schema j "items" ++
          mapNodes fuel doc .schema (stepHash h "properties") (objEntries j "properties") ++
          (match j.get? "additionalProperties" with | some (.obj kvs) => [toNode fuel doc .schema (stepHash h "additionalProperties") (.obj kvs)] | _ => []) ++
          field h .schema j "not" ++
          listNodes fuel doc .schema (stepHash h "allOf") 0 (arrItems j "allOf") ++
          listNodes fuel doc .schema (stepHash h "anyOf") 0 (arrItems j "anyOf") ++
          listNodes fuel doc .schema (stepHash h "oneOf") 0 (arrItems j "oneOf")
        | .callback => mapNodes fuel doc .pathItem h (extensionsOf "Callback" j)
        | .pathItem =>
          listNodes fuel doc .parameter (stepHash h "parameters") 0 (arrItems j "parameters") ++
          methodNames.flatMap (fun m =>
            match j.getNN? m with
            | none => []
            | some op =>
              let hm := stepHash h m
              listNodes fuel doc .parameter (stepHash hm "parameters") 0 (arrItems op "parameters") ++
              field hm .requestBody op "requestBody" ++
              mapNodes fuel doc .response (stepHash hm "responses") (extensionsOf "Responses" ((op.get? "responses").getD .null)) ++
              mapNodes fuel doc .callback (stepHash hm "callbacks") (objEntries op "callbacks"))
        | _ => []
      .mk id doc kind none false kids
def mapNodes : Nat → Nat → Kind → Nat → List (String × JV) → List Node
  | _, _, _, _, [] => []
  | fuel, doc, kind, h, kv :: rest => toNode fuel doc kind (stepHash h kv.1) kv.2 :: mapNodes fuel doc kind h rest
def listNodes : Nat → Nat → Kind → Nat → Nat → List JV → List Node
  | _, _, _, _, _, [] => []
  | fuel, doc, kind, h, i, x :: rest => toNode fuel doc kind (stepHash h (toString i)) x :: listNodes fuel doc kind h (i + 1) rest
end

def nodeFuel : Nat := 48

/-- `ResolveRefsIn`: components (headers, parameters, requestBodies, responses, schemas, securitySchemes,
    examples, callbacks — not links), then the path items (nil ones are skipped) -/
def rootNodes (doc : Nat) (j : JV) : List Node :=
  let comps := (j.get? "components").getD .null
  let m (kind : Kind) (key : String) := mapNodes nodeFuel doc kind (pathHash ["components", key]) (objEntries comps key)
  m .header "headers" ++ m .parameter "parameters" ++ m .requestBody "requestBodies" ++ m .response "responses" ++
  m .schema "schemas" ++ m .securityScheme "securitySchemes" ++ m .example "examples" ++ m .callback "callbacks" ++
  mapNodes nodeFuel doc .pathItem (pathHash ["paths"])
    ((extensionsOf "Paths" ((j.get? "paths").getD .null)).filter (fun kv => !kv.2.isNull))


/-- `resolveComponent` / `loadSingleElementFromURI` for a text written in `doc`, a wrapper of kind `k` expected -/
def targetOf (ds : Docs) (doc : Nat) (text : String) (k : Kind) : Tgt :=
  if !text.contains '#' then
    -- loadSingleElementFromURI: the whole file is decoded as the element; `doc` stays the referring document
    if !ds.ext || text.contains '%' || text.contains ' ' then .err
    else match ds.fileIndex? text with
      | none => .err
      | some d => match ds.doc? d with
        | some (.obj kvs) => .single (toNode nodeFuel doc k (pathHash ["@", text]) (.obj kvs))
        | _ => .err
  else match ds.locate doc text with
    | none => .err
    | some (d, toks) =>
      let path := pathHash toks
      let rawTgt (_ : Unit) : Tgt :=
        if ds.hasPath then
          match drillRaw ds d toks with
          | .found (.obj kvs) => .raw (toNode nodeFuel d k path (.obj kvs))
          | .nullMember => .raw (.mk (nodeId d path) d k none true [])
          | _ => .err
        else .err
      match drillText ds drillFuel doc text with
      | .panic => .drillPanic
      | .err => rawTgt ()
      | .found (.val ty j) =>
        if ty == expectedTy k then .wrapper (toNode nodeFuel d k path j)
        else if ty == .mapOf .any then
          -- `map[string]any`: re-encoded and decoded into the wrapper; a nil map encodes as `null`
          if j.fields.isEmpty then .raw (.mk (nodeId d path) d k none true []) else .raw (toNode nodeFuel d k path j)
        else .err
      | .found (.nilOf ty) => if ty == expectedTy k then .nilPtr else .err
      | .found (.anyv (.obj kvs)) => .raw (toNode nodeFuel d k path (.obj kvs))
      | .found (.anyv _) => .err

/-! ### all references the loader can meet -/

structure RefUse where
  doc  : Nat
  text : String
  kind : Kind
  deriving Inhabited

/-- every string that occurs as a `$ref` in a JSON tree (over-approximates the walked references) -/
def allRefTexts : Nat → JV → List String
  | 0, _ => []
  | fuel + 1, .obj kvs => (match (JV.obj kvs).refText? with | some t => [t] | none => []) ++ kvs.flatMap (fun kv => allRefTexts fuel kv.2)
  | fuel + 1, .arr xs => xs.flatMap (allRefTexts fuel)
  | _, _ => []

mutual
/-- references (text hash, kind, document) in a node tree -/
def nodeRefs : Node → List (Nat × Kind × Nat)
  | .mk _ doc kind ref _ kids => (match ref with | some t => [(t, kind, doc)] | none => []) ++ nodesRefs kids
def nodesRefs : List Node → List (Nat × Kind × Nat)
  | [] => []
  | k :: ks => nodeRefs k ++ nodesRefs ks
end

def dedupNat (l : List Nat) : List Nat := l.foldl (fun acc x => if acc.contains x then acc else acc ++ [x]) []

/-- references met by the loader with what they resolve to: those of the roots, then those of everything
    they resolve to (the table the world's `target` is read from) -/
def closeRefs (tgt : Nat → Nat → Kind → Tgt) : Nat → List (Nat × Kind × Nat) → List ((Nat × Kind × Nat) × Tgt) → List ((Nat × Kind × Nat) × Tgt)
  | 0, _, seen => seen
  | _, [], seen => seen
  | fuel + 1, r :: todo, seen =>
    if seen.any (fun s => s.1.1 == r.1 && s.1.2.1 == r.2.1 && s.1.2.2 == r.2.2) then closeRefs tgt fuel todo seen
    else
      let t := tgt r.2.2 r.1 r.2.1
      let more := match t.node? with | some n => nodeRefs n | none => []
      closeRefs tgt fuel (todo ++ more) (seen ++ [(r, t)])

/-- the world of one case -/
structure Built where
  ds     : Docs
  roots  : List Node
  names  : List (Nat × String)                       -- interned texts
  table  : List ((Nat × Kind × Nat) × Tgt)           -- (text, kind, document) ↦ target, for every reference the loader can meet
  world  : World

def allDocs (ds : Docs) : List JV := ds.root :: ds.files.map (·.2)

def build (ds : Docs) : Built :=
  let texts := (allDocs ds).flatMap (allRefTexts 64)
  let names := texts.map (fun t => (strHash t, t))
  let nameOf (h : Nat) : String := ((names.find? (·.1 == h)).map (·.2)).getD ""
  let rawTarget := fun (doc h : Nat) (k : Kind) => if (names.find? (·.1 == h)).isSome then targetOf ds doc (nameOf h) k else Tgt.err
  let roots := rootNodes 0 ds.root
  let table := closeRefs rawTarget 400 (nodesRefs roots) []
  { ds := ds, roots := roots, names := names, table := table,
    world := { texts := dedupNat (names.map (·.1)),
               target := fun doc h k =>
                 match table.find? (fun s => s.1.1 == h && s.1.2.1 == k && s.1.2.2 == doc) with
                 | some s => s.2
                 | none => rawTarget doc h k } }

def Built.refs (b : Built) : List (Nat × Kind × Nat) := b.table.map (·.1)

/-! ### exclusion predicates: loader -/

/-- #12: some text is met by resolvers of two kinds -/
def kindClash (b : Built) : Bool :=
  let rs := b.refs
  rs.any (fun r => rs.any (fun s => s.1 == r.1 && s.2.1 != r.2.1))

def nilTarget (b : Built) : Bool :=
  b.table.any (fun r => match r.2 with | .nilPtr => true | _ => false)

def drillNil (b : Built) : Bool :=
  b.table.any (fun r => match r.2 with | .drillPanic => true | _ => false)

def loadFuel : Nat := 600

def Built.load (b : Built) : Res := KinModel.LoadSafety.load b.world loadFuel b.roots

mutual
def refIdsOf : Node → List Nat
  | .mk id _ _ ref _ kids => (match ref with | some _ => [id] | none => []) ++ refIdsOfs kids
def refIdsOfs : List Node → List Nat
  | [] => []
  | k :: ks => refIdsOf k ++ refIdsOfs ks
end

/-- the chain of targets of a text returns to a text already on the chain, or ends in an empty wrapper (`#`) -/
def chainDegenerate (b : Built) : Nat → Nat → Nat → Kind → List Nat → Bool
  | 0, _, _, _, _ => true
  | fuel + 1, doc, t, k, seen =>
    if seen.contains t then true
    else match b.world.target doc t k with
      | .wrapper (.mk _ d _ (some t') _ _) => chainDegenerate b fuel d t' k (t :: seen)
      | .raw (.mk _ d _ (some t') _ _) => chainDegenerate b fuel d t' k (t :: seen)
      | .wrapper (.mk _ _ _ none e _) => e
      | .raw (.mk _ _ _ none e _) => e
      | _ => false

/-- #34: a successful load leaves a walked reference without value -/
def unresolved (b : Built) (load : Res) : Bool :=
  (match load with
   | .ok st => (refIdsOfs b.roots).any (fun id => !st.value.contains id)
   | _ => false) ||
  b.refs.any (fun r => chainDegenerate b 40 r.2.2 r.1 r.2.1 [])

/-! ### exclusion predicates: typed positions of the whole document -/

structure Pos where
  h      : Nat        -- hash of the pointer (as `toNode` computes it)
  ctx    : String     -- "Owner.tag" of the struct field this position is (an element of)
  ty     : Ty
  j      : JV
  inColl : Bool       -- element of a map or slice (not a struct field)
  deriving Inhabited

/-- every typed position of a value (all fields of the struct table, not only the loader's walk) -/
def positions : Nat → Nat → String → Ty → JV → Bool → List Pos
  | 0, _, _, _, _, _ => []
  | fuel + 1, h, ctx, ty, j, inColl =>
  let positions := positions fuel
  let here : Pos := { h := h, ctx := ctx, ty := ty, j := j, inColl := inColl }
  match ty with
  | .ptr t => if j.isNull then [here] else here :: (positions h ctx t j inColl).drop 1
  | .mapOf e => here :: j.fields.flatMap (fun kv => positions (stepHash h kv.1) ctx e kv.2 true)
  | .sliceOf e => here :: (j.items.zipIdx).flatMap (fun (x, i) => positions (stepHash h (toString i)) ctx e x true)
  | .struct name =>
    if j.refText?.isSome && (wrapperValueTy? name).isSome then [here]
    else
      let own := (taggedFields name).flatMap (fun f => match j.get? f.tag with
        | some v => positions (stepHash h f.tag) (name ++ "." ++ f.tag) f.ty v false
        | none => [])
      let viaValue := match wrapperValueTy? name with
        | some vty => (positions h ctx vty j inColl).drop 1
        | none => []
      let viaMap := match maplikeTy? name with
        | some mty => (positions h (name ++ ".m") mty (.obj (extensionsOf name j)) inColl).drop 1
        | none => []
      let embedded := (Gen.c20Embedded.filter (·.1 == name)).flatMap (fun e => (positions h ctx (.struct e.2) j inColl).drop 1)
      let addProps := if name == "Schema" then
          match j.get? "additionalProperties" with
          | some (.obj kvs) => positions (stepHash h "additionalProperties") "Schema.additionalProperties" (.ptr (.struct "SchemaRef")) (.obj kvs) false
          | _ => []
        else []
      here :: (own ++ viaValue ++ viaMap ++ embedded ++ addProps)
  | _ => [here]

def docPositions (j : JV) : List Pos := positions 96 11 "" (.ptr (.struct "T")) j false

def isWrapperPtr : Ty → Bool
  | .ptr (.struct n) => (kindOfStruct? n).isSome && n != "PathItem"
  | _ => false

def isStructPtr : Ty → Bool
  | .ptr (.struct _) => true
  | _ => false

/-- an explicit `null` where a reference wrapper is decoded and no `isEmpty()` check of the loader
    rejects it: example positions (`resolveExampleRef` has no such check), and the positions the loader
    never walks — `components.links`, the headers of an `encoding` entry -/
def nullWrapper (ps : List Pos) : Bool :=
  ps.any (fun p => p.j.isNull &&
    (p.ty == .ptr (.struct "ExampleRef") ||
     (p.ty == .ptr (.struct "LinkRef") && p.ctx == "Components.links") ||
     (p.ty == .ptr (.struct "HeaderRef") && p.ctx == "Encoding.headers")))

/-- an explicit `null` element where a pointer to a struct is decoded and nothing checks it before it is
    dereferenced: servers, tags, server variables, encoding entries, and parameter list elements (reached
    unchecked when the path item also carries a `$ref`: the loader returns before walking it) -/
def nullMember (ps : List Pos) : Bool :=
  ps.any (fun p => p.j.isNull && p.inColl &&
    (p.ty == .ptr (.struct "Server") || p.ty == .ptr (.struct "Tag") || p.ty == .ptr (.struct "ServerVariable") ||
     p.ty == .ptr (.struct "Encoding") || (p.ty == .ptr (.struct "ParameterRef") && p.ctx == "PathItem.parameters")))

mutual
def nodeIds : Node → List Nat
  | .mk id _ _ _ _ kids => id :: nodesIds kids
def nodesIds : List Node → List Nat
  | [] => []
  | k :: ks => nodeIds k ++ nodesIds ks
end

/-- DESIGN #13: a `$ref` at a wrapper position of the root document that the loader's walk never visits
    (`components.links`, `examples` of parameters and headers, …; the encoding headers are class #41):
    it keeps `Value == nil` and has no `refPath` -/
def unwalkedRef (roots : List Node) (ps : List Pos) : Bool :=
  let walked := nodesIds roots
  ps.any (fun p => (isWrapperPtr p.ty || p.ty == .ptr (.struct "PathItem")) && p.ctx != "Encoding.headers" &&
    !p.j.isNull && p.j.refText?.isSome && !walked.contains (nodeId 0 p.h))

/-- #41: a header of an `encoding` entry that is a reference (the loader never walks this position) -/
def encodingHeader (ps : List Pos) : Bool :=
  ps.any (fun p => (p.ty == .struct "Encoding" || p.ty == .ptr (.struct "Encoding")) && !p.j.isNull && (objEntries p.j "headers").any (fun kv => (kv.2.get? "$ref").isSome || kv.2.isNull))

/-! ### exclusion predicates: unguarded recursions over the resolved graphs -/

/-- resolve a wrapper JSON to the JSON of its value, following references (`none`: dangling / cyclic) -/
def derefJson (b : Built) (k : Kind) : Nat → Nat → JV → Option (Nat × JV)
  | 0, _, _ => none
  | fuel + 1, doc, j =>
    match j.refText? with
    | none => if j.isObj then some (doc, j) else none
    | some t =>
      match b.ds.locate doc t with
      | none => none
      | some (d, _) =>
        match drillText b.ds drillFuel doc t with
        | .found (.val ty j') => if ty == expectedTy k then derefJson b k fuel d j' else none
        | .found (.anyv (.obj kvs)) => derefJson b k fuel d (.obj kvs)
        | _ => none

/-- a key for a resolved value (what pointer identity is for the Go objects): its rendering -/
def renderF : Nat → JV → String
  | 0, _ => "…"
  | _, .null => "n" | _, .bool b => if b then "t" else "f" | _, .num s => s | _, .str s => "\"" ++ s ++ "\""
  | fuel + 1, .arr xs => "[" ++ String.intercalate "," (xs.map (renderF fuel)) ++ "]"
  | fuel + 1, .obj kvs => "{" ++ String.intercalate "," (kvs.map (fun kv => kv.1 ++ ":" ++ renderF fuel kv.2)) ++ "}"
def render (j : JV) : String := renderF 32 j

def numNonZero (j : JV) : Bool := match j with | .num s => s != "0" | _ => false
def isTrue (j : JV) : Bool := match j with | .bool true => true | _ => false

/-- `IsEmpty` answers `false` without descending: the schema has a keyword of its own -/
def schemaStops (j : JV) : Bool :=
  (j.getNN? "type").isSome || (match j.get? "format" with | some (.str s) => !s.isEmpty | _ => false) ||
  !(arrItems j "enum").isEmpty ||
  ["uniqueItems", "exclusiveMinimum", "exclusiveMaximum", "nullable", "readOnly", "writeOnly", "allowEmptyValue"].any (fun k => isTrue ((j.get? k).getD .null)) ||
  ["minimum", "maximum", "multipleOf", "maxLength", "maxItems", "maxProperties"].any (fun k => (j.getNN? k).isSome) ||
  (match j.get? "pattern" with | some (.str s) => !s.isEmpty | _ => false) ||
  ["minLength", "minItems", "minProperties"].any (fun k => numNonZero ((j.get? k).getD .null)) ||
  !(arrItems j "required").isEmpty ||
  (match j.get? "additionalProperties" with | some (.bool false) => true | _ => false)

/-- sub-schemas by keyword group: compositions (followed with the same value) and the others -/
def compositionKids (j : JV) : List JV :=
  (match j.getNN? "not" with | some s => [s] | none => []) ++ arrItems j "oneOf" ++ arrItems j "anyOf" ++ arrItems j "allOf"
def structuralKids (j : JV) : List JV :=
  (match j.getNN? "items" with | some s => [s] | none => []) ++ (objEntries j "properties").map (·.2) ++
  (match j.get? "additionalProperties" with | some (.obj kvs) => [.obj kvs] | _ => [])

/-- is there a path of `edges` (through schemas satisfying `through`) from `j` back to a schema on the path? -/
def cycleFrom (b : Built) (edges : JV → List JV) (through : JV → Bool) : Nat → Nat → JV → List String → Bool
  | 0, _, _, _ => false
  | fuel + 1, doc, j, onPath =>
    match derefJson b .schema 20 doc j with
    | none => false
    | some (d, v) =>
      if !through v then false
      else
        let key := render v
        if onPath.contains key then true
        else (edges v).any (fun c => cycleFrom b edges through fuel d c (key :: onPath))

/-- all schemas reachable from `j` (any keyword), as (document, value) -/
def reachSchemas (b : Built) : Nat → List (Nat × JV) → List (Nat × JV × String) → List (Nat × JV × String)
  | 0, _, seen => seen
  | _, [], seen => seen
  | fuel + 1, (doc, j) :: todo, seen =>
    match derefJson b .schema 20 doc j with
    | none => reachSchemas b fuel todo seen
    | some (d, v) =>
      let key := render v
      if seen.any (·.2.2 == key) then reachSchemas b fuel todo seen
      else reachSchemas b fuel (todo ++ (compositionKids v ++ structuralKids v).map (fun c => (d, c))) (seen ++ [(d, v, key)])

/-- schemas against which `Validate` checks a value: own `default` / `example`, or `example(s)` of the
    enclosing media type / parameter / header -/
def valueValidated (ps : List Pos) : List JV :=
  ps.flatMap (fun p =>
    match p.ty with
    | .ptr (.struct "SchemaRef") =>
      if (p.j.get? "default").isSome || (p.j.get? "example").isSome then [p.j] else []
    | .ptr (.struct n) =>
      if (n == "MediaType" || n == "Parameter" || n == "Header") && ((p.j.get? "example").isSome || (p.j.get? "examples").isSome) then
        (match p.j.getNN? "schema" with | some s => [s] | none => [])
      else []
    | _ => [])

def allEdges (j : JV) : List JV := compositionKids j ++ structuralKids j

/-- new finding: `IsEmpty` recursion — a cycle of schemas without own keywords below a validated value -/
def emptyCycle (b : Built) (ps : List Pos) : Bool :=
  (valueValidated ps).any (fun s =>
    (reachSchemas b 200 [(0, s)] []).any (fun r => cycleFrom b allEdges (fun v => !schemaStops v) 40 r.1 r.2.1 []))

/-- #6 through `default`/`example`: a cycle made of allOf/anyOf/oneOf/not below a validated value -/
def compositionCycle (b : Built) (ps : List Pos) : Bool :=
  (valueValidated ps).any (fun s =>
    (reachSchemas b 200 [(0, s)] []).any (fun r => cycleFrom b compositionKids (fun _ => true) 40 r.1 r.2.1 []))

/-- path item → its operations' callbacks → their path items … without a visited set in `derefPaths` -/
def callbackCycleFrom (b : Built) : Nat → Nat → JV → List String → Bool
  | 0, _, _, _ => false
  | fuel + 1, doc, item, onPath =>
    match derefJson b .pathItem 20 doc item with
    | none => false
    | some (d, v) =>
      let key := render v
      if onPath.contains key then true
      else methodNames.any (fun m =>
        match v.getNN? m with
        | none => false
        | some op => (objEntries op "callbacks").any (fun cb =>
            match derefJson b .callback 20 d cb.2 with
            | none => false
            | some (d2, cv) => (extensionsOf "Callback" cv).any (fun it => callbackCycleFrom b fuel d2 it.2 (key :: onPath))))

def callbackCycle (b : Built) : Bool :=
  let paths := extensionsOf "Paths" ((b.ds.root.get? "paths").getD .null)
  paths.any (fun kv => callbackCycleFrom b 12 0 kv.2 [])

end KinModel.LoadDoc
