/-
Row types of the translator tables of property C14 (go/cmd/extract/c14middleware.go reads them off
openapi3filter/middleware.go, validation_handler.go, validation_error_encoder.go) and the functions the
obligations in Props/C14.lean are stated with. Core only.
-/
namespace KinModel.MiddlewareSrc

/-- table WrapperMethods: the response wrapper types (struct types with Write, WriteHeader, Header) -/
inductive WRow
  | field (ty name typ : String) (embedded : Bool)
  | method (ty name : String) (exported ptr : Bool)
  | pass (ty method via call : String)       -- the method calls `recv.via.call(…)` (or through `x, ok := recv.via.(T)`)
  | assert (ty method via iface : String)    -- `recv.via.(iface)`
  | self (ty method callee : String)         -- `recv.callee(…)`
  | write (ty method field : String)         -- `recv.field = …`
  | addr (ty method field : String)          -- `&recv.field`
  | tee (ty field : String) (targets : List String) -- `x.field = io.MultiWriter(targets…)`
  | escape (ty method site : String)         -- the underlying writer (or the wrapper) leaves the method
  | unrecognised (site : String)
  deriving DecidableEq, Repr

/-- table ValidatorConfig -/
inductive CRow
  | const (name : String) (value : Nat)
  | text (const text : String)
  | option (name field : String)
  | dflt (field kind : String)
  | applyInOrder
  | errCall (fn status code writer : String)
  | logCall (fn message : String)
  | unrecognised (site : String)
  deriving DecidableEq, Repr

/-- table ValidatorState -/
inductive SRow
  | field (ty name typ : String)
  | use (ty fn field kind : String)
  | wrapper (fn cond ty : String) (fresh : Bool) (fields : List String)
  | pkgvar (fn name : String)
  | unrecognised (site : String)
  deriving DecidableEq, Repr

/-- table ConvertStatus -/
inductive KRow
  | status (fn const : String)
  | dispatch (cond what : String)   -- a branch of ConvertErrors: its condition, the converter it calls / what it returns
  | encode (call : String)          -- the body of ValidationErrorEncoder.Encode
  | unrecognised (site : String)
  deriving DecidableEq, Repr

/-- table MiddlewareFlow: the statement skeleton of the serving code (one row per statement, source order) -/
inductive FRow
  | stmt (fn : String) (depth : Nat) (kind text : String)
  | unrecognised (site : String)
  deriving DecidableEq, Repr

/-- the statements of one function: (depth, kind, text) -/
def flowOf (t : List FRow) (fn : String) : List (Nat × String × String) :=
  t.filterMap (fun r => match r with | .stmt fn' d k x => if fn' == fn then some (d, k, x) else none | _ => none)

def fUnrecognised (t : List FRow) : List String :=
  t.filterMap (fun r => match r with | .unrecognised s => some s | _ => none)

def flowFns (t : List FRow) : List String :=
  (t.filterMap (fun r => match r with | .stmt fn _ _ _ => some fn | _ => none)).eraseDups

/-! ### optional interfaces of an http.ResponseWriter a handler may assert -/

/-- the optional interfaces net/http, io and http.ResponseController look for on a ResponseWriter -/
inductive Iface
  | flusher          -- http.Flusher                      Flush()
  | flushError       -- ResponseController                FlushError() error
  | hijacker         -- http.Hijacker                     Hijack()
  | pusher           -- http.Pusher                       Push(target, opts)
  | closeNotifier    -- http.CloseNotifier                CloseNotify()
  | readerFrom       -- io.ReaderFrom (io.Copy, sendfile) ReadFrom(r)
  | stringWriter     -- io.StringWriter (io.WriteString)  WriteString(s)
  | unwrap           -- ResponseController                Unwrap() http.ResponseWriter
  | readDeadline     -- ResponseController                SetReadDeadline(t)
  | writeDeadline    -- ResponseController                SetWriteDeadline(t)
  | fullDuplex       -- ResponseController                EnableFullDuplex()
  deriving DecidableEq, Repr

def Iface.all : List Iface :=
  [.flusher, .flushError, .hijacker, .pusher, .closeNotifier, .readerFrom, .stringWriter, .unwrap,
   .readDeadline, .writeDeadline, .fullDuplex]

def Iface.method : Iface → String
  | .flusher => "Flush" | .flushError => "FlushError" | .hijacker => "Hijack" | .pusher => "Push"
  | .closeNotifier => "CloseNotify" | .readerFrom => "ReadFrom" | .stringWriter => "WriteString"
  | .unwrap => "Unwrap" | .readDeadline => "SetReadDeadline" | .writeDeadline => "SetWriteDeadline"
  | .fullDuplex => "EnableFullDuplex"

def Iface.name : Iface → String
  | .flusher => "Flusher" | .flushError => "FlushError" | .hijacker => "Hijacker" | .pusher => "Pusher"
  | .closeNotifier => "CloseNotifier" | .readerFrom => "ReaderFrom" | .stringWriter => "StringWriter"
  | .unwrap => "Unwrap" | .readDeadline => "SetReadDeadline" | .writeDeadline => "SetWriteDeadline"
  | .fullDuplex => "EnableFullDuplex"

theorem Iface.mem_all (i : Iface) : i ∈ Iface.all := by cases i <;> decide

def wrapperTypes (t : List WRow) : List String :=
  (t.filterMap (fun r => match r with | .method ty _ _ _ => some ty | _ => none)).eraseDups

def methodsOf (t : List WRow) (ty : String) : List String :=
  t.filterMap (fun r => match r with | .method ty' n _ _ => if ty' == ty then some n else none | _ => none)

def exportedOf (t : List WRow) (ty : String) : List String :=
  t.filterMap (fun r => match r with | .method ty' n true _ => if ty' == ty then some n else none | _ => none)

/-- does a value of wrapper type `ty` satisfy the optional interface (it has the method; no embedded field
promotes further methods — a separate obligation) -/
def offers (t : List WRow) (ty : String) (i : Iface) : Bool := (methodsOf t ty).contains i.method

def offered (t : List WRow) (ty : String) : List Iface := Iface.all.filter (offers t ty)

def embeddedFields (t : List WRow) : List (String × String) :=
  t.filterMap (fun r => match r with | .field ty n _ true => some (ty, n) | _ => none)

/-- everything a method body does with the receiver's fields, in source order (the rows of that method) -/
def bodyOf (t : List WRow) (ty m : String) : List WRow :=
  t.filter (fun r => match r with
    | .pass ty' m' _ _ => ty' == ty && m' == m
    | .assert ty' m' _ _ => ty' == ty && m' == m
    | .self ty' m' _ => ty' == ty && m' == m
    | .write ty' m' _ => ty' == ty && m' == m
    | .addr ty' m' _ => ty' == ty && m' == m
    | .escape ty' m' _ => ty' == ty && m' == m
    | _ => false)

/-- the calls a method makes on the underlying writer (field `w`), directly or through the methods of the
wrapper it calls (one level of `self` is enough for these types; deeper chains are followed by fuel) -/
def writerCalls (t : List WRow) (ty : String) : Nat → String → List String
  | 0, _ => []
  | fuel + 1, m =>
    (bodyOf t ty m).foldr (fun r acc => match r with
      | .pass _ _ "w" call => call :: acc
      | .pass _ _ "tee" call => ("tee." ++ call) :: acc
      | .self _ _ callee => writerCalls t ty fuel callee ++ acc
      | _ => acc) []

def bad (t : List WRow) : List WRow :=
  t.filter (fun r => match r with | .unrecognised _ => true | .escape _ _ _ => true | _ => false)

def usesOf (t : List SRow) (ty : String) : List (String × String) :=
  (t.filterMap (fun r => match r with | .use ty' _ f k => if ty' == ty then some (f, k) else none | _ => none)).eraseDups

def fieldsOf (t : List SRow) (ty : String) : List String :=
  t.filterMap (fun r => match r with | .field ty' n _ => if ty' == ty then some n else none | _ => none)

/-- a use of an instance field that cannot carry anything from one request to the next: reading it, calling
it when it is a function value, taking its address to hand it to a validation call (`&v.options`), and calling
the router's / wrapped handler's / callback's interface method -/
def statelessUse (fk : String × String) : Bool :=
  fk.2 == "read" || fk.2 == "call" ||
  (fk.2 == "addr" && fk.1 == "options") ||
  (fk.2 == "method:FindRoute" && fk.1 == "router") ||
  (fk.2 == "method:ServeHTTP" && fk.1 == "Handler")

def wrappersOf (t : List SRow) : List (String × String × Bool × List String) :=
  t.filterMap (fun r => match r with | .wrapper _ c ty fr fs => some (c, ty, fr, fs) | _ => none)

def pkgvarsOf (t : List SRow) : List (String × String) :=
  t.filterMap (fun r => match r with | .pkgvar fn n => some (fn, n) | _ => none)

def sUnrecognised (t : List SRow) : List String :=
  t.filterMap (fun r => match r with | .unrecognised s => some s | _ => none)

def cUnrecognised (t : List CRow) : List String :=
  t.filterMap (fun r => match r with | .unrecognised s => some s | _ => none)

def constsOf (t : List CRow) : List (String × Nat) :=
  t.filterMap (fun r => match r with | .const n v => some (n, v) | _ => none)
def textsOf (t : List CRow) : List (String × String) :=
  t.filterMap (fun r => match r with | .text c x => some (c, x) | _ => none)
def optionsOf (t : List CRow) : List (String × String) :=
  t.filterMap (fun r => match r with | .option n f => some (n, f) | _ => none)
def dfltsOf (t : List CRow) : List (String × String) :=
  t.filterMap (fun r => match r with | .dflt f k => some (f, k) | _ => none)
def errCallsOf (t : List CRow) : List (String × String × String) :=
  t.filterMap (fun r => match r with | .errCall _ s c w => some (s, c, w) | _ => none)
def logCallsOf (t : List CRow) : List String :=
  t.filterMap (fun r => match r with | .logCall _ m => some m | _ => none)

/-- net/http status constants used by the middleware and the error converter -/
def httpConst : String → Option Nat
  | "http.StatusNotFound" => some 404
  | "http.StatusBadRequest" => some 400
  | "http.StatusInternalServerError" => some 500
  | "http.StatusMethodNotAllowed" => some 405
  | "http.StatusUnsupportedMediaType" => some 415
  | "http.StatusUnprocessableEntity" => some 422
  | "http.StatusOK" => some 200
  | _ => none

def statusesOf (t : List KRow) (fn : String) : List (Option Nat) :=
  t.filterMap (fun r => match r with | .status fn' c => if fn' == fn then some (httpConst c) else none | _ => none)

def dispatchOf (t : List KRow) : List (String × String) :=
  t.filterMap (fun r => match r with | .dispatch c w => some (c, w) | _ => none)

def kUnrecognised (t : List KRow) : List String :=
  t.filterMap (fun r => match r with | .unrecognised s => some s | _ => none)

end KinModel.MiddlewareSrc
