/- Helper lemmas for property C06 (not property statements). -/
import KinModel.Body
namespace KinModel.Body

theorem lookup_isSome_of_mem_keys {α : Type} (k : Str) (l : List (Str × α)) (h : k ∈ keys l) :
    ∃ v, lookup k l = some v := by
  induction l with
  | nil => simp [keys] at h
  | cons x r ih =>
    obtain ⟨k', v'⟩ := x
    unfold lookup
    by_cases hk : k = k'
    · exact ⟨v', by simp [hk]⟩
    · simp only [hk, if_false]
      apply ih
      simp [keys] at h ⊢
      rcases h with h | h
      · exact absurd h hk
      · exact h

theorem lookup_some_mem {α : Type} (k : Str) (l : List (Str × α)) (v : α) (h : lookup k l = some v) :
    (k, v) ∈ l := by
  induction l with
  | nil => simp [lookup] at h
  | cons x r ih =>
    obtain ⟨k', v'⟩ := x
    unfold lookup at h
    by_cases hk : k = k'
    · simp [hk] at h; simp [hk, h]
    · simp only [hk, if_false] at h
      exact List.mem_cons_of_mem _ (ih h)

theorem mem_keys_of_mem {α : Type} (k : Str) (v : α) (l : List (Str × α)) (h : (k, v) ∈ l) : k ∈ keys l := by
  simp only [keys, List.mem_map]; exact ⟨(k, v), h, rfl⟩

theorem lookup_none_of_not_mem_keys {α : Type} (k : Str) (l : List (Str × α)) (h : k ∉ keys l) :
    lookup k l = none := by
  cases hl : lookup k l with
  | none => rfl
  | some v => exact absurd (mem_keys_of_mem k v l (lookup_some_mem k l v hl)) h

theorem permits_iff (ty : Option Ty) (t : Ty) : permits ty t = true ↔ ty = none ∨ ty = some t := by
  cases ty with
  | none => simp [permits]
  | some t' => simp [permits]

structure EmptyLeaf (s : RS) : Prop where
  ty : s.ty = none
  nullable : s.nullable = false
  minLen : s.minLen = 0
  max : s.max = none
  required : s.required = []
  addl : s.addl ≠ some false
  props : s.props = []
  items : s.items = none
  nt : s.nt = none
  oneOf : s.oneOf = []
  anyOf : s.anyOf = []
  allOf : s.allOf = []
  minProps : s.minProps = 0
  maxProps : s.maxProps = none

theorem emptyLeaf_of (s : RS) (h : isEmptyLeaf s = true) : EmptyLeaf s := by
  unfold isEmptyLeaf at h
  simp only [Bool.and_eq_true, Bool.not_eq_true', Option.isNone_iff_eq_none, List.isEmpty_iff,
    beq_iff_eq, bne_iff_ne, ne_eq] at h
  obtain ⟨⟨⟨⟨⟨⟨⟨⟨⟨⟨⟨⟨⟨⟨⟨h1, h2⟩, _⟩, _⟩, h5⟩, h6⟩, h7⟩, h8⟩, h9⟩, h10⟩, h11⟩, h12⟩, h13⟩, h14⟩, h15⟩, h16⟩ := h
  exact ⟨h1, h2, h5, h6, h7, h8, h9, h10, h11, h12, h13, h14, h15, h16⟩

/-! ### induction over a schema and its composition members -/

theorem rs_induct (P : RS → Prop)
    (h : ∀ t n r w ml mx props req a items nt oneOf anyOf allOf dflt,
      (∀ x, nt = some x → P x) → (∀ x ∈ oneOf, P x) → (∀ x ∈ anyOf, P x) → (∀ x ∈ allOf, P x) →
      P (RS.mk t n r w ml mx props req a items nt oneOf anyOf allOf dflt)) : ∀ s, P s := by
  have key := cdepth.mutual_induct (motive_1 := P) (motive_2 := fun l => ∀ x ∈ l, P x)
    (motive_3 := fun o => ∀ x, o = some x → P x)
  refine (key ?_ ?_ ?_ ?_ ?_).1
  · intro t n r w ml mx props req a items nt oneOf anyOf allOf dflt h1 h2 h3 h4
    exact h t n r w ml mx props req a items nt oneOf anyOf allOf dflt h1 h2 h3 h4
  · intro x hx; cases hx
  · intro n hn x hx; cases hx; exact hn
  · intro x hx; cases hx
  · intro x r hx hr y hy
    rcases List.mem_cons.mp hy with rfl | hy
    · exact hx
    · exact hr y hy

/-! ### the executable clauses decide the declarative ones -/

section satC
variable (isNull : Bool) (own : RS → Bool) (Own : RS → Prop)

theorem satCountB_spec (l : List RS) (h : ∀ x ∈ l, (satCB isNull own x = true ↔ SatC isNull Own x)) :
    (satCountB isNull own l = 0 ↔ SatNone isNull Own l) ∧ (satCountB isNull own l = 1 ↔ SatOne isNull Own l) := by
  induction l with
  | nil => simp [satCountB, SatNone, SatOne]
  | cons x r ih =>
    have hx := h x (by simp)
    have ihr := ih (fun y hy => h y (by simp [hy]))
    unfold satCountB SatNone SatOne
    cases hc : satCB isNull own x with
    | true =>
      have hs : SatC isNull Own x := hx.mp hc
      simp only [if_true]
      constructor
      · constructor
        · intro h0; omega
        · intro h0; exact absurd hs h0.1
      · constructor
        · intro h1; exact Or.inl ⟨hs, ihr.1.mp (by omega)⟩
        · rintro (⟨_, h0⟩ | ⟨hn, _⟩)
          · have := ihr.1.mpr h0; omega
          · exact absurd hs hn
    | false =>
      have hs : ¬ SatC isNull Own x := by intro h0; have := hx.mpr h0; simp [hc] at this
      simp only [Bool.false_eq_true, if_false, Nat.zero_add]
      constructor
      · constructor
        · intro h0; exact ⟨hs, ihr.1.mp h0⟩
        · intro h0; exact ihr.1.mpr h0.2
      · constructor
        · intro h1; exact Or.inr ⟨hs, ihr.2.mp h1⟩
        · rintro (⟨h0, _⟩ | ⟨_, h1⟩)
          · exact absurd h0 hs
          · exact ihr.2.mpr h1

theorem satAnyB_spec (l : List RS) (h : ∀ x ∈ l, (satCB isNull own x = true ↔ SatC isNull Own x)) :
    satAnyB isNull own l = true ↔ SatAny isNull Own l := by
  induction l with
  | nil => simp [satAnyB, SatAny]
  | cons x r ih =>
    unfold satAnyB SatAny
    rw [Bool.or_eq_true, h x (by simp), ih (fun y hy => h y (by simp [hy]))]

theorem satAllB_spec (l : List RS) (h : ∀ x ∈ l, (satCB isNull own x = true ↔ SatC isNull Own x)) :
    satAllB isNull own l = true ↔ SatAll isNull Own l := by
  induction l with
  | nil => simp [satAllB, SatAll]
  | cons x r ih =>
    unfold satAllB SatAll
    rw [Bool.and_eq_true, h x (by simp), ih (fun y hy => h y (by simp [hy]))]

theorem satCB_iff (h : ∀ s, own s = true ↔ Own s) : ∀ s, satCB isNull own s = true ↔ SatC isNull Own s := by
  apply rs_induct
  intro t n r w ml mx props req a items nt oneOf anyOf allOf dflt hnt h1 h2 h3
  have hnot : satNotB isNull own nt = true ↔ SatNot isNull Own nt := by
    cases nt with
    | none => simp [satNotB, SatNot]
    | some x =>
      unfold satNotB SatNot
      rw [← hnt x rfl]
      cases satCB isNull own x <;> simp
  have hone : (oneOf.isEmpty || satCountB isNull own oneOf == 1) = true ↔ (oneOf = [] ∨ SatOne isNull Own oneOf) := by
    rw [Bool.or_eq_true, List.isEmpty_iff, beq_iff_eq, (satCountB_spec isNull own Own oneOf h1).2]
  have hany : (anyOf.isEmpty || satAnyB isNull own anyOf) = true ↔ (anyOf = [] ∨ SatAny isNull Own anyOf) := by
    rw [Bool.or_eq_true, List.isEmpty_iff, satAnyB_spec isNull own Own anyOf h2]
  have hall := satAllB_spec isNull own Own allOf h3
  unfold satCB SatC
  cases isNull with
  | true =>
    simp only [if_true, Bool.or_eq_true, Bool.and_eq_true, hnot, hone, hany, hall, Bool.not_eq_true',
      Bool.and_eq_false_iff, List.isEmpty_eq_false_iff]
    constructor
    · rintro (h0 | ⟨⟨⟨⟨h4, h5⟩, h6⟩, h7⟩, h8⟩)
      · exact Or.inl h0
      · refine Or.inr ⟨?_, h5, h6, h7, h8⟩
        rcases h4 with (h4 | h4) | h4
        · exact Or.inl h4
        · exact Or.inr (Or.inl h4)
        · exact Or.inr (Or.inr h4)
    · rintro (h0 | ⟨h4, h5, h6, h7, h8⟩)
      · exact Or.inl h0
      · refine Or.inr ⟨⟨⟨⟨?_, h5⟩, h6⟩, h7⟩, h8⟩
        rcases h4 with h4 | h4 | h4
        · exact Or.inl (Or.inl h4)
        · exact Or.inl (Or.inr h4)
        · exact Or.inr h4
  | false =>
    simp only [Bool.false_eq_true, if_false, Bool.and_eq_true, hnot, hone, hany, hall, h]
    constructor
    · rintro ⟨⟨⟨⟨h5, h6⟩, h7⟩, h8⟩, h9⟩; exact ⟨h5, h6, h7, h8, h9⟩
    · rintro ⟨h5, h6, h7, h8, h9⟩; exact ⟨⟨⟨⟨h5, h6⟩, h7⟩, h8⟩, h9⟩

end satC

/-! ### the code's control flow (null pre-check, shortcut for empty schemas, null after a composition) computes
the same verdict as the clause-by-clause twin -/

theorem comp_eq_satCB (isNull : Bool) (own own' : RS → Bool)
    (hown : isNull = false → ∀ s, own s = own' s)
    (hE : isNull = false → ∀ s, isEmptyLeaf s = true → own s = true)
    (hN : isNull = true → ∀ s, own s = s.nullable) :
    ∀ s, comp isNull own s = satCB isNull own' s := by
  apply rs_induct
  intro t n r w ml mx props req a items nt oneOf anyOf allOf dflt hnt h1 h2 h3
  have hnot : compNot isNull own nt = satNotB isNull own' nt := by
    cases nt with
    | none => rfl
    | some x => unfold compNot satNotB; rw [hnt x rfl]
  have hcount : ∀ l : List RS, (∀ x ∈ l, comp isNull own x = satCB isNull own' x) →
      compCount isNull own l = satCountB isNull own' l ∧ compAny isNull own l = satAnyB isNull own' l ∧
      compAll isNull own l = satAllB isNull own' l := by
    intro l hl
    induction l with
    | nil => exact ⟨rfl, rfl, rfl⟩
    | cons x r ih =>
      have ihr := ih (fun y hy => hl y (by simp [hy]))
      unfold compCount satCountB compAny satAnyB compAll satAllB
      rw [hl x (by simp), ihr.1, ihr.2.1, ihr.2.2]
      exact ⟨rfl, rfl, rfl⟩
  have c1 := hcount oneOf h1
  have c2 := hcount anyOf h2
  have c3 := hcount allOf h3
  unfold comp satCB
  rw [hnot, c1.1, c2.2.1, c3.2.2]
  cases hnull : isNull with
  | true =>
    have hNs := hN hnull (RS.mk t n r w ml mx props req a items nt oneOf anyOf allOf dflt)
    simp only [RS.nullable] at hNs
    cases hn : n with
    | true => simp
    | false =>
      simp only [Bool.true_and, Bool.false_eq_true, if_false, if_true, Bool.false_or]
      cases he : isEmptyLeaf (RS.mk t false r w ml mx props req a items nt oneOf anyOf allOf dflt) with
      | true =>
        have e := emptyLeaf_of _ he
        have e1 := e.oneOf; have e2 := e.anyOf; have e3 := e.allOf
        simp only [RS.oneOf, RS.anyOf, RS.allOf] at e1 e2 e3
        subst e1 e2 e3
        simp
      | false =>
        simp only [Bool.false_eq_true, if_false]
        rw [hn] at hNs
        cases hc : (oneOf.isEmpty && anyOf.isEmpty && allOf.isEmpty) with
        | true => simp [hNs]
        | false =>
          simp
  | false =>
    simp only [Bool.false_and, Bool.false_eq_true, if_false, Bool.not_false]
    rw [← hown hnull]
    cases he : isEmptyLeaf (RS.mk t n r w ml mx props req a items nt oneOf anyOf allOf dflt) with
    | true =>
      have e := emptyLeaf_of _ he
      have e0 := e.nt; have e1 := e.oneOf; have e2 := e.anyOf; have e3 := e.allOf
      simp only [RS.nt, RS.oneOf, RS.anyOf, RS.allOf] at e0 e1 e2 e3
      subst e0 e1 e2 e3
      have := hE hnull _ he
      simp [this, satNotB, satAllB]
    | false => simp

/-! ### own keywords: executable vs declarative -/

theorem ownBool_iff (s : RS) : ownBool s = true ↔ OwnBool s := by
  simp [ownBool, OwnBool, permits_iff]

theorem ownInt_iff (n : Int) (s : RS) : ownInt n s = true ↔ OwnInt n s := by
  unfold ownInt OwnInt
  rw [Bool.and_eq_true]
  apply and_congr
  · cases s.ty with
    | none => simp [numTypeOK, permits]
    | some t => cases t <;> simp [numTypeOK, permits]
  · cases s.max with
    | none => simp [maxOK]
    | some m => simp [maxOK]

theorem ownHalf_iff (n : Int) (s : RS) : ownHalf n s = true ↔ OwnHalf n s := by
  unfold ownHalf OwnHalf
  rw [Bool.and_eq_true]
  apply and_congr
  · cases s.ty with
    | none => simp [numTypeOK, permits]
    | some t => cases t <;> simp [numTypeOK, permits]
  · cases s.max with
    | none => simp [maxOK]
    | some m => simp [maxOK]

theorem ownStr_iff (t : Str) (s : RS) : ownStr t s = true ↔ OwnStr t s := by
  unfold ownStr OwnStr
  simp only [Bool.and_eq_true, permits_iff, Bool.or_eq_true, beq_iff_eq, decide_eq_true_eq]
  apply and_congr Iff.rfl
  constructor
  · rintro (h | h)
    · omega
    · exact h
  · intro h; exact Or.inr h

theorem roLoopOK_iff (exro : Bool) (s : RS) (ks : List Str) :
    roLoopOK exro s.props ks = true ↔ (exro = false → ∀ k, isRO (lookup k s.props) = true → k ∉ ks) := by
  unfold roLoopOK
  simp only [List.all_eq_true, Bool.or_eq_true, Bool.not_eq_true', Bool.and_eq_false_iff, List.contains_iff_mem]
  constructor
  · intro hall hx k hro hk
    have hkp : k ∈ keys s.props := by
      cases hl : lookup k s.props with
      | none => simp [hl, isRO] at hro
      | some p => exact mem_keys_of_mem k p _ (lookup_some_mem k _ p hl)
    rcases hall k hkp with (h1 | h1) | h1
    · simp [hro] at h1
    · simp [hx] at h1
    · simp [hk] at h1
  · intro hs k _
    cases hro : isRO (lookup k s.props) with
    | false => simp
    | true =>
      cases hx : exro with
      | true => simp
      | false => right; simpa using hs hx k hro

theorem countOK_iff (s : RS) (n : Nat) :
    countOK s n = true ↔ s.minProps ≤ n ∧ ∀ m, s.maxProps = some m → n ≤ m := by
  unfold countOK
  cases s.maxProps with
  | none => simp
  | some m => simp

theorem requiredOK_iff (s : RS) (ks : List Str) :
    requiredOK s ks = true ↔ ∀ k ∈ s.required, k ∈ ks ∨ isRO (lookup k s.props) = true := by
  unfold requiredOK
  simp [List.all_eq_true]

/-- an empty schema accepts every non-null value through the general path too -/
theorem own_of_emptyLeaf (s : RS) (h : isEmptyLeaf s = true) :
    ownBool s = true ∧ (∀ n, ownInt n s = true) ∧ (∀ n, ownHalf n s = true) ∧ (∀ t, ownStr t s = true) ∧
    (∀ fs, ownArr fs s = true) ∧ (∀ exro fs, ownObj exro fs s = true) := by
  have e := emptyLeaf_of s h
  refine ⟨?_, ?_, ?_, ?_, ?_, ?_⟩
  · simp [ownBool, e.ty, permits]
  · intro n; simp [ownInt, e.ty, e.max, permits, numTypeOK, maxOK]
  · intro n; simp [ownHalf, e.ty, e.max, permits, numTypeOK, maxOK]
  · intro t; simp [ownStr, e.ty, e.minLen, permits]
  · intro fs; simp [ownArr, e.ty, e.items, permits]
  · intro exro fs
    have hf : fieldsOK s fs = true := by
      unfold fieldsOK
      apply List.all_eq_true.mpr
      intro kf _
      simp only [e.props, lookup, bne_iff_ne, ne_eq]
      exact e.addl
    simp [ownObj, e.ty, e.props, e.required, permits, roLoopOK, keys, requiredOK, hf, countOK, e.minProps, e.maxProps]

/-! ### writeOnly plays no role -/

theorem lookup_clearWOProps (k : Str) (props : List (Str × RS)) :
    lookup k (clearWOProps props) = (lookup k props).map RS.clearWO := by
  induction props with
  | nil => simp [clearWOProps, lookup]
  | cons x r ih =>
    obtain ⟨k', p⟩ := x
    unfold clearWOProps lookup
    by_cases hk : k = k' <;> simp [hk, ih]

theorem keys_clearWOProps (props : List (Str × RS)) : keys (clearWOProps props) = keys props := by
  induction props with
  | nil => simp [clearWOProps, keys]
  | cons x r ih =>
    obtain ⟨k', p⟩ := x
    unfold clearWOProps
    simp only [keys, List.map_cons] at ih ⊢
    rw [ih]

theorem clearWO_ro (s : RS) : s.clearWO.ro = s.ro := by cases s; simp [RS.clearWO, RS.ro]

theorem isRO_clearWO (k : Str) (props : List (Str × RS)) :
    isRO (lookup k (clearWOProps props)) = isRO (lookup k props) := by
  rw [lookup_clearWOProps]
  cases lookup k props with
  | none => rfl
  | some p => simp [isRO, clearWO_ro]

theorem clearWO_ty (s : RS) : s.clearWO.ty = s.ty := by cases s; rfl
theorem clearWO_nullable (s : RS) : s.clearWO.nullable = s.nullable := by cases s; rfl
theorem clearWO_minLen (s : RS) : s.clearWO.minLen = s.minLen := by cases s; rfl
theorem clearWO_max (s : RS) : s.clearWO.max = s.max := by cases s; rfl
theorem clearWO_required (s : RS) : s.clearWO.required = s.required := by cases s; rfl
theorem clearWO_addl (s : RS) : s.clearWO.addl = s.addl := by cases s; rfl
theorem clearWO_props (s : RS) : s.clearWO.props = clearWOProps s.props := by cases s; rfl
theorem clearWO_items (s : RS) : s.clearWO.items = clearWOOpt s.items := by cases s; rfl
theorem clearWO_wo (s : RS) : s.clearWO.wo = false := by cases s; rfl
theorem clearWO_countOK (s : RS) (n : Nat) : countOK s.clearWO n = countOK s n := by cases s; rfl

theorem all_congr_mem {α : Type} (l : List α) (f g : α → Bool) (h : ∀ x ∈ l, f x = g x) : l.all f = l.all g := by
  induction l with
  | nil => rfl
  | cons x r ih =>
    simp only [List.all_cons]
    rw [h x (by simp), ih (fun y hy => h y (by simp [hy]))]

theorem ownObj_clearWO (exro : Bool) (fs : List (Str × (RS → Bool))) (s : RS)
    (ih : ∀ kf ∈ fs, ∀ s, kf.2 s.clearWO = kf.2 s) : ownObj exro fs s.clearWO = ownObj exro fs s := by
  unfold ownObj
  have h1 : roLoopOK exro s.clearWO.props (keys fs) = roLoopOK exro s.props (keys fs) := by
    unfold roLoopOK
    rw [clearWO_props, keys_clearWOProps]
    apply List.all_congr rfl
    intro k
    rw [isRO_clearWO]
  have h2 : requiredOK s.clearWO (keys fs) = requiredOK s (keys fs) := by
    unfold requiredOK
    rw [clearWO_required, clearWO_props]
    apply List.all_congr rfl
    intro k
    rw [isRO_clearWO]
  have h3 : fieldsOK s.clearWO fs = fieldsOK s fs := by
    unfold fieldsOK
    apply all_congr_mem
    intro kf hkf
    rw [clearWO_props, lookup_clearWOProps, clearWO_addl]
    cases lookup kf.1 s.props with
    | none => rfl
    | some p => simp only [Option.map_some]; exact ih kf hkf p
  rw [clearWO_ty, h1, h2, h3, clearWO_countOK]

/-- the clause-by-clause twin does not see `writeOnly` flags, at any depth of the composition keywords,
as long as the own-keyword verdict does not -/
theorem satCB_clearWO (isNull : Bool) (own : RS → Bool) (h : ∀ s, own s.clearWO = own s) :
    ∀ s, satCB isNull own s.clearWO = satCB isNull own s := by
  apply rs_induct
  intro t n r w ml mx props req a items nt oneOf anyOf allOf dflt hnt h1 h2 h3
  have hl : ∀ l : List RS, (∀ x ∈ l, satCB isNull own x.clearWO = satCB isNull own x) →
      satCountB isNull own (clearWOList l) = satCountB isNull own l ∧
      satAnyB isNull own (clearWOList l) = satAnyB isNull own l ∧
      satAllB isNull own (clearWOList l) = satAllB isNull own l ∧ (clearWOList l).isEmpty = l.isEmpty := by
    intro l hl
    induction l with
    | nil => exact ⟨rfl, rfl, rfl, rfl⟩
    | cons x r ih =>
      have ihr := ih (fun y hy => hl y (by simp [hy]))
      unfold clearWOList satCountB satAnyB satAllB
      rw [hl x (by simp), ihr.1, ihr.2.1, ihr.2.2.1]
      exact ⟨rfl, rfl, rfl, rfl⟩
  have hnot : satNotB isNull own (clearWOOpt nt) = satNotB isNull own nt := by
    cases nt with
    | none => rfl
    | some x => unfold clearWOOpt satNotB; rw [hnt x rfl]
  have c1 := hl oneOf h1
  have c2 := hl anyOf h2
  have c3 := hl allOf h3
  have hown := h (RS.mk t n r w ml mx props req a items nt oneOf anyOf allOf dflt)
  unfold RS.clearWO at hown ⊢
  unfold satCB
  rw [hnot, c1.1, c2.2.1, c3.2.2.1, c1.2.2.2, c2.2.2.2, c3.2.2.2, hown]

/-! ### urlencoded: model decoder vs the value the fields encode -/

theorem encodesPrim_ne_null (t : Ty) (raw : Str) (v : V) (h : encodesPrim t raw = some v) : v.isNull = false := by
  cases t <;> simp only [encodesPrim, Option.map_eq_some_iff] at h
  · cases h; rfl
  · obtain ⟨_, _, rfl⟩ := h; rfl
  · unfold readNum at h
    split at h
    · cases h; rfl
    · split at h
      · cases h
      · unfold readHalf at h
        split at h <;> (simp only [Option.map_eq_some_iff] at h; obtain ⟨_, _, rfl⟩ := h; rfl)
  · obtain ⟨_, _, rfl⟩ := h; rfl
  · cases h
  · cases h

theorem parsePrimitive_eq_encodesPrim (t : Ty) (raw : Str) (hne : raw ≠ []) (hp : primTy (some t) = true) :
    parsePrimitive raw (some t) = encodesPrim t raw := by
  cases t <;> simp [parsePrimitive, encodesPrim, hne, primTy] at hp ⊢

/-- `parseItems` against "every text encodes an item" -/
theorem parseItems_spec (t : Ty) (hp : primTy (some t) = true) (l : List Str) :
    (parseItems (some t) l = none → encodesAll t l = none) ∧
    (∀ vs, parseItems (some t) l = some (some vs) → encodesAll t l = some vs) := by
  induction l with
  | nil => simp [parseItems, encodesAll]
  | cons r rs ih =>
    by_cases hr : r = []
    · subst hr
      simp [parseItems, parsePrimitive]
    · have hpe := parsePrimitive_eq_encodesPrim t r hr hp
      unfold parseItems encodesAll
      rw [hpe]
      cases he : encodesPrim t r with
      | none => simp
      | some v =>
        have hv := encodesPrim_ne_null t r v he
        cases v with
        | null => simp [V.isNull] at hv
        | bool _ | int _ | half _ | str _ | arr _ | obj _ =>
          simp only
          cases hpi : parseItems (some t) rs with
          | none => simp [ih.1 hpi]
          | some o =>
            cases o with
            | none => simp
            | some vs => simp [ih.2 vs hpi]

theorem form_ne_deep : "form".toList ≠ "deepObject".toList := by decide
theorem space_ne_deep : "spaceDelimited".toList ≠ "deepObject".toList := by decide
theorem pipe_ne_deep : "pipeDelimited".toList ≠ "deepObject".toList := by decide

def propWF (p : RS) (e : Option Enc) : Prop :=
  smStyle e = "form".toList ∨
    (tyIs p.ty .array = true ∧ (smStyle e = "spaceDelimited".toList ∨ smStyle e = "pipeDelimited".toList))

def propPre (p : RS) : Prop :=
  tyIs p.ty .object = false ∧ (tyIs p.ty .array = true → ∃ it, p.items = some it ∧ primTy it.ty = true)

/-- what the property loop keeps of a decoded property: nothing on error, nothing for "no value" -/
def dropNull : Option V → Option V
  | some .null => none
  | o => o

theorem parseItems_empty (t : Ty) (hp : primTy (some t) = true) (l : List Str)
    (h : l.any (fun x => x.isEmpty) = true) :
    parseItems (some t) l = none ∨ parseItems (some t) l = some none := by
  induction l with
  | nil => simp at h
  | cons r rs ih =>
    by_cases hr : r = []
    · subst hr; right; simp [parseItems, parsePrimitive]
    · have hrs : rs.any (fun x => x.isEmpty) = true := by
        simp only [List.any_cons, Bool.or_eq_true] at h
        rcases h with h | h
        · simp [List.isEmpty_iff] at h; exact absurd h hr
        · exact h
      have hpe := parsePrimitive_eq_encodesPrim t r hr hp
      unfold parseItems
      rw [hpe]
      cases he : encodesPrim t r with
      | none => left; rfl
      | some v =>
        have hv := encodesPrim_ne_null t r v he
        cases v with
        | null => simp [V.isNull] at hv
        | bool _ | int _ | half _ | str _ | arr _ | obj _ =>
          simp only
          rcases ih hrs with h1 | h1 <;> simp [h1]

theorem parseItems_nonempty (t : Ty) (hp : primTy (some t) = true) (l : List Str)
    (h : l.any (fun x => x.isEmpty) = false) : parseItems (some t) l ≠ some none := by
  induction l with
  | nil => simp [parseItems]
  | cons r rs ih =>
    simp only [List.any_cons, Bool.or_eq_false_iff] at h
    have hr : r ≠ [] := by intro e; subst e; simp at h
    have hpe := parsePrimitive_eq_encodesPrim t r hr hp
    unfold parseItems
    rw [hpe]
    cases he : encodesPrim t r with
    | none => simp
    | some v =>
      have hv := encodesPrim_ne_null t r v he
      cases v with
      | null => simp [V.isNull] at hv
      | bool _ | int _ | half _ | str _ | arr _ | obj _ =>
        simp only
        cases hpi : parseItems (some t) rs with
        | none => simp
        | some o =>
          cases o with
          | none => exact absurd hpi (ih h.2)
          | some vs => simp

theorem encodesAll_length (t : Ty) (l : List Str) (vs : List V) (h : encodesAll t l = some vs) :
    vs.length = l.length := by
  induction l generalizing vs with
  | nil => simp [encodesAll] at h; subst h; rfl
  | cons r rs ih =>
    unfold encodesAll at h
    cases h1 : encodesPrim t r with
    | none => simp [h1] at h
    | some v =>
      cases h2 : encodesAll t rs with
      | none => simp [h1, h2] at h
      | some ws => simp only [h1, h2, Option.some.injEq] at h; subst h; simp [ih ws h2]

theorem splitOn_ne_nil (sep : Char) (s : Str) : splitOn sep s ≠ [] := by
  cases s with
  | nil => simp [splitOn]
  | cons c cs =>
    unfold splitOn
    split
    · simp
    · split <;> simp

theorem arrayRaw_ne_nil (e : Option Enc) (v0 : Str) (rest raw : List Str) (h : arrayRaw e v0 rest = some raw) :
    raw ≠ [] := by
  unfold arrayRaw at h
  split at h
  · cases h; simp
  · split at h
    · cases h; exact splitOn_ne_nil _ _
    · cases h

/-- one property: whenever the fields encode something for it (outside the class FormFieldUnparsable), the
decoder's loop keeps exactly that: the value, or nothing when the property has no value -/
theorem formProp_agree (fields : List (Str × List Str)) (k : Str) (p : RS) (e : Option Enc)
    (hs : specFormProp fields k p e ≠ none) (hwf : propWF p e) (hpre : propPre p) :
    specFormProp fields k p e = some (dropNull (decodeFormProp fields k p e)) := by
  unfold decodeFormProp
  unfold specFormProp at hs ⊢
  cases hty : p.ty with
  | none => cases lookup k fields with
    | none => rfl
    | some vals => cases vals <;> rfl
  | some t =>
    cases t
    case object => exact absurd hpre.1 (by simp [hty, tyIs])
    case array =>
      obtain ⟨it, hit, hpit⟩ := hpre.2 (by simp [hty, tyIs])
      have hnd : smStyle e ≠ "deepObject".toList := by
        rcases hwf with h | ⟨_, h | h⟩ <;> rw [h]
        · exact form_ne_deep
        · exact space_ne_deep
        · exact pipe_ne_deep
      cases hity : it.ty with
      | none => simp [hity, primTy] at hpit
      | some ti =>
        have hitemTy : itemTy p = some ti := by simp [itemTy, hit, hity]
        rw [hity] at hpit
        simp only [hnd, if_false, hitemTy]
        simp only [hty, hitemTy, Option.getD_some] at hs ⊢
        cases hl : lookup k fields with
        | none => simp [dropNull]
        | some vals =>
          cases vals with
          | nil => simp [dropNull]
          | cons v0 rest =>
            simp only [hl, Option.getD_some] at hs ⊢
            cases hraw : arrayRaw e v0 rest with
            | none => simp [hraw] at hs
            | some raw =>
              simp only [hraw] at hs ⊢
              cases hemp : raw.any (fun x => x.isEmpty) with
              | true =>
                simp only [if_true]
                rcases parseItems_empty ti hpit raw hemp with h1 | h1 <;> simp [h1, dropNull]
              | false =>
                simp only [hemp, Bool.false_eq_true, if_false] at hs ⊢
                have hsp := parseItems_spec ti hpit raw
                cases hpi : parseItems (some ti) raw with
                | none => simp [hsp.1 hpi] at hs
                | some o =>
                  cases o with
                  | none => exact absurd hpi (parseItems_nonempty ti hpit raw hemp)
                  | some vs =>
                    have hall := hsp.2 _ hpi
                    cases vs with
                    | nil =>
                      have := encodesAll_length ti raw [] hall
                      have hne := arrayRaw_ne_nil e v0 rest raw hraw
                      cases raw with
                      | nil => exact absurd rfl hne
                      | cons _ _ => simp at this
                    | cons v vs' => simp [hall, dropNull]
    all_goals
      have hst : smStyle e = "form".toList := by
        rcases hwf with h | ⟨h, _⟩
        · exact h
        · simp [hty, tyIs] at h
      cases hl : lookup k fields with
      | none => simp [hst, dropNull]
      | some vals =>
        cases vals with
        | nil => simp [hst, dropNull]
        | cons v0 rest =>
          by_cases hv0 : v0 = []
          · simp [hst, hv0, parsePrimitive, dropNull]
          · simp only [hty, hl, hst, ne_eq, not_true_eq_false, if_false, Option.getD_some, parsePrimitive,
              encodesPrim, hv0] at hs ⊢
            first
              | rfl
              | (cases h1 : readInt v0 <;> simp [h1, dropNull] at hs ⊢; done)
              | (cases h1 : readNum v0 <;> simp [h1] at hs ⊢
                 have hv := encodesPrim_ne_null .number v0 _ (by simpa [encodesPrim] using h1)
                 rename_i v; cases v <;> simp [V.isNull] at hv <;> rfl; done)
              | (cases h1 : readBool v0 <;> simp [h1, dropNull] at hs ⊢; done)

theorem formPre_cons (k : Str) (p : RS) (r : List (Str × RS)) (h : formPre ((k, p) :: r) = .ok) :
    propPre p ∧ formPre r = .ok := by
  unfold formPre at h
  unfold propPre
  cases ho : tyIs p.ty .object with
  | true => simp [ho] at h
  | false =>
    simp only [ho, Bool.false_eq_true, if_false] at h
    cases ha : tyIs p.ty .array with
    | true =>
      simp only [ha, if_true] at h
      cases hi : p.items with
      | none => simp [hi] at h
      | some it =>
        simp only [hi] at h
        cases hp : primTy it.ty with
        | true => simp only [hp, if_true] at h; exact ⟨⟨rfl, fun _ => ⟨it, rfl, hp⟩⟩, h⟩
        | false => simp [hp] at h
    | false =>
      simp only [ha, Bool.false_eq_true, if_false] at h
      exact ⟨⟨rfl, fun h' => by simp at h'⟩, h⟩

theorem propPre_of_declOK (p : RS) (h : declOK p = true) : propPre p := by
  unfold declOK at h
  simp only [Bool.and_eq_true, Bool.not_eq_true', Bool.or_eq_true] at h
  refine ⟨h.1.2, ?_⟩
  intro ha
  rcases h.2 with h2 | h2
  · rw [ha] at h2; cases h2
  · cases hi : p.items with
    | none => simp [hi] at h2
    | some it => exact ⟨it, rfl, by simpa [hi] using h2⟩

theorem noComp_of_declOK (p : RS) (h : declOK p = true) : hasCompP p = false := by
  unfold declOK at h
  simp only [Bool.and_eq_true, Bool.not_eq_true'] at h
  exact h.1.1

theorem decodePropC_of_noComp (fields : List (Str × List Str)) (k : Str) (e : Option Enc) (p : RS)
    (h : hasCompP p = false) : decodePropC fields k e p = decodeFormProp fields k p e := by
  cases p with
  | mk ty n r w ml mx props req a items nt oneOf anyOf allOf dflt =>
    unfold hasCompP at h
    simp only [RS.allOf, RS.anyOf, RS.oneOf, RS.nt, Bool.not_eq_false', Bool.and_eq_true, List.isEmpty_iff,
      Option.isNone_iff_eq_none] at h
    obtain ⟨⟨⟨h1, h2⟩, h3⟩, h4⟩ := h
    subst h1 h2 h3 h4
    unfold decodePropC
    simp

theorem declOKC_cases (p : RS) (h : declOKC p = true) : hasCompP p = true ∨ propPre p := by
  cases hc : hasCompP p with
  | true => exact Or.inl rfl
  | false =>
    right
    cases p with
    | mk ty n r w ml mx props req a items nt oneOf anyOf allOf dflt =>
      unfold declOKC at h
      unfold hasCompP at hc
      simp only [RS.allOf, RS.anyOf, RS.oneOf, RS.nt, Bool.not_eq_false'] at hc
      simp only [hc, Bool.not_true, Bool.false_eq_true, if_false] at h
      exact propPre_of_declOK _ h

/-- one declaration (with or without composition keywords in the property schema) -/
theorem formDecl_agree (fields : List (Str × List Str)) (k : Str) (p : RS) (e : Option Enc)
    (hs : specDecl fields k p e ≠ none) (hwf : propWF p e) (hpre : hasCompP p = true ∨ propPre p) :
    specDecl fields k p e = some (dropNull (decodePropC fields k e p)) := by
  unfold specDecl at hs ⊢
  cases hc : hasCompP p with
  | true =>
    simp only [if_true]
    cases decodePropC fields k e p with
    | none => rfl
    | some v => cases v <;> rfl
  | false =>
    simp only [hc, Bool.false_eq_true, if_false] at hs ⊢
    rw [decodePropC_of_noComp fields k e p hc]
    rcases hpre with h | h
    · rw [hc] at h; cases h
    · exact formProp_agree fields k p e hs hwf h

/-- the whole declaration list: outside the class FormFieldUnparsable the decoder keeps exactly what the
fields encode -/
theorem formProps_agree (fields : List (Str × List Str)) (encs : List (Str × Enc)) (props : List (Str × RS))
    (hu : formUnparsable fields encs props = false)
    (hwf : encsWF encs props = true) (hpre : ∀ kp ∈ props, hasCompP kp.2 = true ∨ propPre kp.2) :
    specFormProps fields encs props = some (decodeFormProps fields encs props) := by
  induction props with
  | nil => simp [specFormProps, decodeFormProps]
  | cons x r ih =>
    obtain ⟨k, p⟩ := x
    have hp := hpre (k, p) (by simp)
    simp only [formUnparsable, List.any_cons, Bool.or_eq_false_iff] at hu
    simp only [encsWF, List.all_cons, Bool.and_eq_true] at hwf
    have ihr := ih hu.2 hwf.2 (fun kp hkp => hpre kp (by simp [hkp]))
    have hs1 : specDecl fields k p (lookup k encs) ≠ none := by
      intro h; simp [h] at hu
    have hw1 : propWF p (lookup k encs) := by
      have := hwf.1
      simp only [Bool.or_eq_true, Bool.and_eq_true, decide_eq_true_eq] at this
      exact this
    have hag := formDecl_agree fields k p (lookup k encs) hs1 hw1 hp
    unfold specFormProps decodeFormProps
    rw [hag, show specFormProps fields encs r = some (decodeFormProps fields encs r) from ihr]
    cases hd : decodePropC fields k (lookup k encs) p with
    | none => rfl
    | some v => cases v <;> rfl

theorem propPre_of_formPre (props : List (Str × RS)) (h : formPre props = .ok) : ∀ kp ∈ props, propPre kp.2 := by
  induction props with
  | nil => intro kp hkp; cases hkp
  | cons x r ih =>
    obtain ⟨k, p⟩ := x
    obtain ⟨hp, hr⟩ := formPre_cons k p r h
    intro kp hkp
    rcases List.mem_cons.mp hkp with rfl | hkp
    · exact hp
    · exact ih hr kp hkp

/-! ### multipart: the decoder's two loops against the declarative reading -/

theorem decodePart_spec (reg : List (Str × DecK)) (p : Part) :
    (∀ v, decodePart reg p = .val v → specPart reg p = some v) ∧
    (decodePart reg p = .err → specPart reg p = none) ∧
    (decodePart reg p = .unmodelled → specPart reg p = none) ∧ decodePart reg p ≠ .panic := by
  unfold decodePart specPart
  simp only
  cases lookup (base (if p.ct = [] then "text/plain".toList else p.ct)) reg with
  | none => simp
  | some k =>
    cases k with
    | json => cases p.json <;> simp [decodeSimple]
    | plain => simp [decodeSimple]
    | file => simp [decodeSimple]
    | yaml => cases p.yaml <;> simp [decodeSimple]
    | csv => cases p.csv <;> simp [decodeSimple]
    | urlencoded => simp [decodeSimple]
    | multipart => simp [decodeSimple]

/-- first loop: what it collects, and when it fails -/
theorem collectParts_spec (reg : List (Str × DecK)) (s : RS) (ps : List Part) :
    (∀ vals, collectParts reg s ps = .inl (some vals) →
      ps.any (fun p => partDecl s p.name == .undefined) = false ∧
      (ps.filter fun p => partDecl s p.name == .found).any (fun p => (specPart reg p).isNone) = false ∧
      vals = (ps.filter fun p => partDecl s p.name == .found).filterMap (fun p => (specPart reg p).map fun v => (p.name, v))) ∧
    (collectParts reg s ps = .inl none →
      ps.any (fun p => partDecl s p.name == .undefined) = true ∨
      (ps.filter fun p => partDecl s p.name == .found).any (fun p => (specPart reg p).isNone) = true) ∧
    (collectParts reg s ps = .inr () →
      ps.any (fun p => partDecl s p.name == .undefined) = true ∨
      (ps.filter fun p => partDecl s p.name == .found).any (fun p => (specPart reg p).isNone) = true) := by
  induction ps with
  | nil => simp [collectParts]
  | cons p r ih =>
    obtain ⟨ih1, ih2, ih3⟩ := ih
    unfold collectParts
    cases hd : partDecl s p.name with
    | skip =>
      simp only [List.any_cons, hd, List.filter_cons]
      exact ⟨fun vals h => by simpa using ih1 vals h, fun h => by simpa using ih2 h, fun h => by simpa using ih3 h⟩
    | undefined => simp [hd]
    | found =>
      obtain ⟨d1, d2, d3, d4⟩ := decodePart_spec reg p
      have hfound : (partDecl s p.name == PartDecl.found) = true := by simp [hd]
      have hundef : (partDecl s p.name == PartDecl.undefined) = false := by simp [hd]
      have eAny : ((p :: r).any fun p => partDecl s p.name == PartDecl.undefined) =
          r.any fun p => partDecl s p.name == PartDecl.undefined := by
        simp only [List.any_cons, hundef, Bool.false_or]
      have eFil : ((p :: r).filter fun p => partDecl s p.name == PartDecl.found) =
          p :: r.filter fun p => partDecl s p.name == PartDecl.found := by
        simp only [List.filter_cons, hfound, if_true]
      rw [eAny, eFil]
      have eAny2 : ∀ l : List Part, ((p :: l).any fun p => (specPart reg p).isNone) =
          ((specPart reg p).isNone || l.any fun p => (specPart reg p).isNone) := fun l => by simp only [List.any_cons]
      cases hp : decodePart reg p with
      | err =>
        have hn := d2 hp
        dsimp only
        refine ⟨(fun vals h => by cases h), (fun _ => Or.inr ?_), (fun h => by cases h)⟩
        rw [eAny2, hn]; rfl
      | unmodelled =>
        have hn := d3 hp
        dsimp only
        refine ⟨(fun vals h => by cases h), (fun h => by cases h), (fun _ => Or.inr ?_)⟩
        rw [eAny2, hn]; rfl
      | panic => exact absurd hp d4
      | val v =>
        have hv := d1 v hp
        have eFM : ∀ l : List Part, (p :: l).filterMap (fun p => (specPart reg p).map fun v => (p.name, v)) =
            (p.name, v) :: l.filterMap (fun p => (specPart reg p).map fun v => (p.name, v)) := by
          intro l; simp only [List.filterMap_cons, hv, Option.map_some]
        have eA : ∀ l : List Part, ((p :: l).any fun p => (specPart reg p).isNone) = l.any fun p => (specPart reg p).isNone := by
          intro l; rw [eAny2, hv]; rfl
        rw [eA, eFM]
        dsimp only
        cases hr : collectParts reg s r with
        | inl o =>
          cases o with
          | none =>
            dsimp only
            exact ⟨(fun vals h => by cases h), (fun _ => ih2 hr), (fun h => by cases h)⟩
          | some l =>
            dsimp only
            refine ⟨(fun vals h => ?_), (fun h => by cases h), (fun h => by cases h)⟩
            obtain ⟨a1, a2, a3⟩ := ih1 l hr
            have h' : (p.name, v) :: l = vals := by
              have := h; simp only [Sum.inl.injEq, Option.some.injEq] at this; exact this
            exact ⟨a1, a2, by rw [← h', a3]⟩
        | inr u =>
          dsimp only
          exact ⟨(fun vals h => by cases h), (fun h => by cases h), (fun _ => ih3 (by cases u; exact hr))⟩

theorem assemble_eq_filterMap (vals : List (Str × V)) (props : List (Str × RS)) :
    assemble vals props = props.filterMap fun kp =>
      match valuesOf kp.1 vals with
      | [] => none
      | v :: vs => some (kp.1, if tyIs kp.2.ty .array then .arr (v :: vs) else v) := by
  induction props with
  | nil => rfl
  | cons e r ih =>
    obtain ⟨k, p⟩ := e
    unfold assemble
    simp only [List.filterMap_cons]
    cases valuesOf k vals with
    | nil => simp only; exact ih
    | cons v vs => simp only; rw [ih]

theorem valuesOf_collected (reg : List (Str × DecK)) (k : Str) (used : List Part) :
    valuesOf k (used.filterMap fun p => (specPart reg p).map fun v => (p.name, v)) =
      (used.filter fun p => p.name = k).filterMap (specPart reg) := by
  induction used with
  | nil => rfl
  | cons p r ih =>
    unfold valuesOf at ih ⊢
    simp only [List.filterMap_cons, List.filter_cons]
    cases hs : specPart reg p with
    | none =>
      simp only [Option.map_none]
      by_cases hk : p.name = k
      · simp only [hk, decide_true, if_true, List.filterMap_cons, hs]; simpa [hk] using ih
      · simp only [hk, decide_false, Bool.false_eq_true, if_false]; exact ih
    | some v =>
      simp only [Option.map_some, List.filter_cons]
      by_cases hk : p.name = k
      · simp only [hk, decide_true, if_true, List.map_cons, List.filterMap_cons, hs]
        rw [← hk] at ih ⊢
        simpa using ih
      · simp only [hk, decide_false, Bool.false_eq_true, if_false]; exact ih

theorem filterMap_congr_mem {α β : Type} (l : List α) (f g : α → Option β) (h : ∀ x ∈ l, f x = g x) :
    l.filterMap f = l.filterMap g := by
  induction l with
  | nil => rfl
  | cons x r ih =>
    simp only [List.filterMap_cons]
    rw [h x (by simp), ih (fun y hy => h y (by simp [hy]))]

/-- **the multipart decoder builds the object the parts encode** (and fails exactly when they encode none);
`unmodelled` (a part that needs a nested form decoder) only where the declarative reading has no value either -/
theorem decodeMultipart_spec (reg : List (Str × DecK)) (s : RS) (ps : List Part) (h : tyIs s.ty .object = true) :
    (∀ v, decodeMultipart reg s (some ps) = .val v → specMultipart reg s ps = some v) ∧
    (decodeMultipart reg s (some ps) = .err → specMultipart reg s ps = none) ∧
    (decodeMultipart reg s (some ps) = .unmodelled → specMultipart reg s ps = none) ∧
    decodeMultipart reg s (some ps) ≠ .panic := by
  obtain ⟨c1, c2, c3⟩ := collectParts_spec reg s ps
  unfold decodeMultipart specMultipart
  simp only [h, Bool.not_true, Bool.false_eq_true, if_false]
  cases hc : collectParts reg s ps with
  | inl o =>
    cases o with
    | none =>
      rcases c2 hc with h' | h' <;> simp [h']
    | some vals =>
      obtain ⟨a1, a2, a3⟩ := c1 vals hc
      simp only [a1, a2, Bool.false_eq_true, if_false, Dec.val.injEq, reduceCtorEq, false_implies, ne_eq,
        not_false_eq_true, and_true]
      intro v hv
      rw [← hv, assemble_eq_filterMap, a3]
      congr 2
      apply filterMap_congr_mem
      intro kp _
      rw [valuesOf_collected]
      rfl
  | inr u =>
    rcases c3 (by cases u; exact hc) with h' | h' <;> simp [h']

end KinModel.Body
