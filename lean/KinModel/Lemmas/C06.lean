/- Helper lemmas for property C06 (not property statements). -/
import KinModel.Body
namespace KinModel.Body

theorem lookup_isSome_of_mem_keys {α : Type} (k : Str) (l : List (Str × α)) (h : k ∈ keys l) :
    ∃ v, lookup k l = some v := by
  induction l with
  | nil => simp [keys] at h
  | cons x r ih =>
    obtain ⟨k', v'⟩ := x
    unfold lookup
    by_cases hk : k = k'
    · exact ⟨v', by simp [hk]⟩
    · simp only [hk, if_false]
      apply ih
      simp [keys] at h ⊢
      rcases h with h | h
      · exact absurd h hk
      · exact h

theorem lookup_some_mem {α : Type} (k : Str) (l : List (Str × α)) (v : α) (h : lookup k l = some v) :
    (k, v) ∈ l := by
  induction l with
  | nil => simp [lookup] at h
  | cons x r ih =>
    obtain ⟨k', v'⟩ := x
    unfold lookup at h
    by_cases hk : k = k'
    · simp [hk] at h; simp [hk, h]
    · simp only [hk, if_false] at h
      exact List.mem_cons_of_mem _ (ih h)

theorem mem_keys_of_mem {α : Type} (k : Str) (v : α) (l : List (Str × α)) (h : (k, v) ∈ l) : k ∈ keys l := by
  simp only [keys, List.mem_map]; exact ⟨(k, v), h, rfl⟩

theorem lookup_none_of_not_mem_keys {α : Type} (k : Str) (l : List (Str × α)) (h : k ∉ keys l) :
    lookup k l = none := by
  cases hl : lookup k l with
  | none => rfl
  | some v => exact absurd (mem_keys_of_mem k v l (lookup_some_mem k l v hl)) h

theorem permits_iff (ty : Option Ty) (t : Ty) : permits ty t = true ↔ ty = none ∨ ty = some t := by
  cases ty with
  | none => simp [permits]
  | some t' => simp [permits]

structure EmptyLeaf (s : RS) : Prop where
  ty : s.ty = none
  nullable : s.nullable = false
  minLen : s.minLen = 0
  max : s.max = none
  required : s.required = []
  addl : s.addl ≠ some false
  props : s.props = []
  items : s.items = none

theorem emptyLeaf_of (s : RS) (h : isEmptyLeaf s = true) : EmptyLeaf s := by
  unfold isEmptyLeaf at h
  simp only [Bool.and_eq_true, Bool.not_eq_true', Option.isNone_iff_eq_none, List.isEmpty_iff,
    beq_iff_eq, bne_iff_ne, ne_eq] at h
  obtain ⟨⟨⟨⟨⟨⟨⟨⟨⟨h1, h2⟩, _⟩, _⟩, h5⟩, h6⟩, h7⟩, h8⟩, h9⟩, h10⟩ := h
  exact ⟨h1, h2, h5, h6, h7, h8, h9, h10⟩

theorem satFields_of_emptyLeaf (exro : Bool) (s : RS) (e : EmptyLeaf s) (kvs : List (Str × V)) :
    SatFields exro s kvs := by
  induction kvs with
  | nil => simp [SatFields]
  | cons x r ih =>
    obtain ⟨k, v⟩ := x
    rw [SatFields]
    refine ⟨?_, ih⟩
    simp only [e.props, lookup]
    exact e.addl

theorem roLoopOK_iff (exro : Bool) (s : RS) (kvs : List (Str × V)) :
    roLoopOK exro s.props kvs = true ↔ (exro = false → ∀ k, isRO (lookup k s.props) = true → k ∉ keys kvs) := by
  unfold roLoopOK
  simp only [List.all_eq_true, Bool.or_eq_true, Bool.not_eq_true', Bool.and_eq_false_iff]
  constructor
  · intro hall hx k hro hk
    obtain ⟨v, hv⟩ := lookup_isSome_of_mem_keys k kvs hk
    have hkp : k ∈ keys s.props := by
      cases hl : lookup k s.props with
      | none => simp [hl, isRO] at hro
      | some p => exact mem_keys_of_mem k p _ (lookup_some_mem k _ p hl)
    rcases hall k hkp with (h1 | h1) | h1
    · simp [hro] at h1
    · simp [hx] at h1
    · simp [hv] at h1
  · intro hs k _
    cases hro : isRO (lookup k s.props) with
    | false => simp
    | true =>
      cases hx : exro with
      | true => simp
      | false =>
        right
        rw [lookup_none_of_not_mem_keys k kvs (hs hx k hro)]
        rfl

theorem requiredOK_iff (s : RS) (kvs : List (Str × V)) :
    requiredOK s kvs = true ↔ ∀ k ∈ s.required, k ∈ keys kvs ∨ isRO (lookup k s.props) = true := by
  unfold requiredOK
  simp [List.all_eq_true]

/-! ### writeOnly plays no role -/

theorem lookup_clearWOProps (k : Str) (props : List (Str × RS)) :
    lookup k (clearWOProps props) = (lookup k props).map RS.clearWO := by
  induction props with
  | nil => simp [clearWOProps, lookup]
  | cons x r ih =>
    obtain ⟨k', p⟩ := x
    unfold clearWOProps lookup
    by_cases hk : k = k' <;> simp [hk, ih]

theorem keys_clearWOProps (props : List (Str × RS)) : keys (clearWOProps props) = keys props := by
  induction props with
  | nil => simp [clearWOProps, keys]
  | cons x r ih =>
    obtain ⟨k', p⟩ := x
    unfold clearWOProps
    simp only [keys, List.map_cons] at ih ⊢
    rw [ih]

theorem clearWO_ro (s : RS) : s.clearWO.ro = s.ro := by cases s; simp [RS.clearWO, RS.ro]

theorem isRO_clearWO (k : Str) (props : List (Str × RS)) :
    isRO (lookup k (clearWOProps props)) = isRO (lookup k props) := by
  rw [lookup_clearWOProps]
  cases lookup k props with
  | none => rfl
  | some p => simp [isRO, clearWO_ro]

/-- all constraints absent (the `writeOnly` flag aside): the general path accepts every non-null value -/
structure NoConstraint (s : RS) : Prop where
  ty : s.ty = none
  minLen : s.minLen = 0
  max : s.max = none
  required : s.required = []
  addl : s.addl ≠ some false
  props : s.props = []
  items : s.items = none

theorem visitFields_noConstraint (exro : Bool) (s : RS) (e : NoConstraint s) (kvs : List (Str × V)) :
    visitFields exro s kvs = true := by
  induction kvs with
  | nil => simp [visitFields]
  | cons x r ih =>
    obtain ⟨k, v⟩ := x
    rw [visitFields, ih]
    simp only [e.props, lookup, Bool.and_true, bne_iff_ne, ne_eq]
    exact e.addl

theorem visit_noConstraint (exro : Bool) (s : RS) (e : NoConstraint s) (v : V) (hv : v.isNull = false) :
    visit exro s v = true := by
  cases v with
  | null => simp [V.isNull] at hv
  | bool b => rw [visit]; simp [e.ty, permits]
  | int n => rw [visit]; simp [e.ty, e.max, permits, numTypeOK, maxOK]
  | half n => rw [visit]; simp [e.ty, e.max, permits, numTypeOK, maxOK]
  | str t => rw [visit]; simp [e.ty, e.minLen, permits]
  | arr xs => rw [visit]; simp [e.ty, e.items, permits]
  | obj kvs =>
    rw [visit]
    simp [e.ty, e.props, e.required, permits, roLoopOK, keys, requiredOK, visitFields_noConstraint exro s e kvs]

theorem noConstraint_of_emptyLeaf (s : RS) (h : isEmptyLeaf s = true) : NoConstraint s :=
  let e := emptyLeaf_of s h
  ⟨e.ty, e.minLen, e.max, e.required, e.addl, e.props, e.items⟩

theorem clearWO_ty (s : RS) : s.clearWO.ty = s.ty := by cases s; rfl
theorem clearWO_nullable (s : RS) : s.clearWO.nullable = s.nullable := by cases s; rfl
theorem clearWO_minLen (s : RS) : s.clearWO.minLen = s.minLen := by cases s; rfl
theorem clearWO_max (s : RS) : s.clearWO.max = s.max := by cases s; rfl
theorem clearWO_required (s : RS) : s.clearWO.required = s.required := by cases s; rfl
theorem clearWO_addl (s : RS) : s.clearWO.addl = s.addl := by cases s; rfl
theorem clearWO_props (s : RS) : s.clearWO.props = clearWOProps s.props := by cases s; rfl
theorem clearWO_items (s : RS) : s.clearWO.items = clearWOOpt s.items := by cases s; rfl
theorem clearWO_wo (s : RS) : s.clearWO.wo = false := by cases s; rfl

theorem clearWOProps_eq_nil (props : List (Str × RS)) : clearWOProps props = [] ↔ props = [] := by
  cases props with
  | nil => simp [clearWOProps]
  | cons x r => obtain ⟨k, p⟩ := x; simp [clearWOProps]

theorem clearWOOpt_eq_none (o : Option RS) : clearWOOpt o = none ↔ o = none := by
  cases o <;> simp [clearWOOpt]

theorem noConstraint_of_clearWO (s : RS) (e : NoConstraint s.clearWO) : NoConstraint s :=
  ⟨by rw [← clearWO_ty]; exact e.ty, by rw [← clearWO_minLen]; exact e.minLen, by rw [← clearWO_max]; exact e.max,
   by rw [← clearWO_required]; exact e.required, by rw [← clearWO_addl]; exact e.addl,
   (clearWOProps_eq_nil _).mp (by rw [← clearWO_props]; exact e.props),
   (clearWOOpt_eq_none _).mp (by rw [← clearWO_items]; exact e.items)⟩

theorem isEmptyLeaf_clearWO_of (s : RS) (h : isEmptyLeaf s = true) : isEmptyLeaf s.clearWO = true := by
  have e := emptyLeaf_of s h
  unfold isEmptyLeaf at h ⊢
  simp only [clearWO_ty, clearWO_nullable, clearWO_ro, clearWO_wo, clearWO_minLen, clearWO_max, clearWO_required,
    clearWO_addl, clearWO_props, clearWO_items, e.props, e.items, clearWOProps, clearWOOpt]
  simp only [e.props, e.items, Bool.and_eq_true] at h
  simp only [Bool.and_eq_true]
  obtain ⟨⟨⟨⟨⟨⟨⟨⟨⟨h1, h2⟩, h3⟩, _⟩, h5⟩, h6⟩, h7⟩, h8⟩, h9⟩, h10⟩ := h
  exact ⟨⟨⟨⟨⟨⟨⟨⟨⟨h1, h2⟩, h3⟩, rfl⟩, h5⟩, h6⟩, h7⟩, h8⟩, h9⟩, h10⟩

/-! ### urlencoded: model decoder vs the value the fields encode -/

theorem encodesPrim_ne_null (t : Ty) (raw : Str) (v : V) (h : encodesPrim t raw = some v) : v.isNull = false := by
  cases t <;> simp only [encodesPrim, Option.map_eq_some_iff] at h
  · cases h; rfl
  · obtain ⟨_, _, rfl⟩ := h; rfl
  · unfold readNum at h
    split at h
    · cases h; rfl
    · split at h
      · cases h
      · unfold readHalf at h
        split at h <;> (simp only [Option.map_eq_some_iff] at h; obtain ⟨_, _, rfl⟩ := h; rfl)
  · obtain ⟨_, _, rfl⟩ := h; rfl
  · cases h
  · cases h

theorem parsePrimitive_eq_encodesPrim (t : Ty) (raw : Str) (hne : raw ≠ []) (hp : primTy (some t) = true) :
    parsePrimitive raw (some t) = encodesPrim t raw := by
  cases t <;> simp [parsePrimitive, encodesPrim, hne, primTy] at hp ⊢

/-- `parseItems` against "every text encodes an item" -/
theorem parseItems_spec (t : Ty) (hp : primTy (some t) = true) (l : List Str) :
    (parseItems (some t) l = none → encodesAll t l = none) ∧
    (∀ vs, parseItems (some t) l = some (some vs) → encodesAll t l = some vs) := by
  induction l with
  | nil => simp [parseItems, encodesAll]
  | cons r rs ih =>
    by_cases hr : r = []
    · subst hr
      simp [parseItems, parsePrimitive]
    · have hpe := parsePrimitive_eq_encodesPrim t r hr hp
      unfold parseItems encodesAll
      rw [hpe]
      cases he : encodesPrim t r with
      | none => simp
      | some v =>
        have hv := encodesPrim_ne_null t r v he
        cases v with
        | null => simp [V.isNull] at hv
        | bool _ | int _ | half _ | str _ | arr _ | obj _ =>
          simp only
          cases hpi : parseItems (some t) rs with
          | none => simp [ih.1 hpi]
          | some o =>
            cases o with
            | none => simp
            | some vs => simp [ih.2 vs hpi]

theorem form_ne_deep : "form".toList ≠ "deepObject".toList := by decide
theorem space_ne_deep : "spaceDelimited".toList ≠ "deepObject".toList := by decide
theorem pipe_ne_deep : "pipeDelimited".toList ≠ "deepObject".toList := by decide

def propWF (p : RS) (e : Option Enc) : Prop :=
  smStyle e = "form".toList ∨
    (tyIs p.ty .array = true ∧ (smStyle e = "spaceDelimited".toList ∨ smStyle e = "pipeDelimited".toList))

def propPre (p : RS) : Prop :=
  tyIs p.ty .object = false ∧ (tyIs p.ty .array = true → ∃ it, p.items = some it ∧ primTy it.ty = true)

/-- what the property loop keeps of a decoded property: nothing on error, nothing for "no value" -/
def dropNull : Option V → Option V
  | some .null => none
  | o => o

theorem parseItems_empty (t : Ty) (hp : primTy (some t) = true) (l : List Str)
    (h : l.any (fun x => x.isEmpty) = true) :
    parseItems (some t) l = none ∨ parseItems (some t) l = some none := by
  induction l with
  | nil => simp at h
  | cons r rs ih =>
    by_cases hr : r = []
    · subst hr; right; simp [parseItems, parsePrimitive]
    · have hrs : rs.any (fun x => x.isEmpty) = true := by
        simp only [List.any_cons, Bool.or_eq_true] at h
        rcases h with h | h
        · simp [List.isEmpty_iff] at h; exact absurd h hr
        · exact h
      have hpe := parsePrimitive_eq_encodesPrim t r hr hp
      unfold parseItems
      rw [hpe]
      cases he : encodesPrim t r with
      | none => left; rfl
      | some v =>
        have hv := encodesPrim_ne_null t r v he
        cases v with
        | null => simp [V.isNull] at hv
        | bool _ | int _ | half _ | str _ | arr _ | obj _ =>
          simp only
          rcases ih hrs with h1 | h1 <;> simp [h1]

theorem parseItems_nonempty (t : Ty) (hp : primTy (some t) = true) (l : List Str)
    (h : l.any (fun x => x.isEmpty) = false) : parseItems (some t) l ≠ some none := by
  induction l with
  | nil => simp [parseItems]
  | cons r rs ih =>
    simp only [List.any_cons, Bool.or_eq_false_iff] at h
    have hr : r ≠ [] := by intro e; subst e; simp at h
    have hpe := parsePrimitive_eq_encodesPrim t r hr hp
    unfold parseItems
    rw [hpe]
    cases he : encodesPrim t r with
    | none => simp
    | some v =>
      have hv := encodesPrim_ne_null t r v he
      cases v with
      | null => simp [V.isNull] at hv
      | bool _ | int _ | half _ | str _ | arr _ | obj _ =>
        simp only
        cases hpi : parseItems (some t) rs with
        | none => simp
        | some o =>
          cases o with
          | none => exact absurd hpi (ih h.2)
          | some vs => simp

theorem encodesAll_length (t : Ty) (l : List Str) (vs : List V) (h : encodesAll t l = some vs) :
    vs.length = l.length := by
  induction l generalizing vs with
  | nil => simp [encodesAll] at h; subst h; rfl
  | cons r rs ih =>
    unfold encodesAll at h
    cases h1 : encodesPrim t r with
    | none => simp [h1] at h
    | some v =>
      cases h2 : encodesAll t rs with
      | none => simp [h1, h2] at h
      | some ws => simp only [h1, h2, Option.some.injEq] at h; subst h; simp [ih ws h2]

theorem splitOn_ne_nil (sep : Char) (s : Str) : splitOn sep s ≠ [] := by
  cases s with
  | nil => simp [splitOn]
  | cons c cs =>
    unfold splitOn
    split
    · simp
    · split <;> simp

theorem arrayRaw_ne_nil (e : Option Enc) (v0 : Str) (rest raw : List Str) (h : arrayRaw e v0 rest = some raw) :
    raw ≠ [] := by
  unfold arrayRaw at h
  split at h
  · cases h; simp
  · split at h
    · cases h; exact splitOn_ne_nil _ _
    · cases h

/-- one property: whenever the fields encode something for it (outside the class FormFieldUnparsable), the
decoder's loop keeps exactly that: the value, or nothing when the property has no value -/
theorem formProp_agree (fields : List (Str × List Str)) (k : Str) (p : RS) (e : Option Enc)
    (hs : specFormProp fields k p e ≠ none) (hwf : propWF p e) (hpre : propPre p) :
    specFormProp fields k p e = some (dropNull (decodeFormProp fields k p e)) := by
  unfold decodeFormProp
  unfold specFormProp at hs ⊢
  cases hty : p.ty with
  | none => cases lookup k fields with
    | none => rfl
    | some vals => cases vals <;> rfl
  | some t =>
    cases t
    case object => exact absurd hpre.1 (by simp [hty, tyIs])
    case array =>
      obtain ⟨it, hit, hpit⟩ := hpre.2 (by simp [hty, tyIs])
      have hnd : smStyle e ≠ "deepObject".toList := by
        rcases hwf with h | ⟨_, h | h⟩ <;> rw [h]
        · exact form_ne_deep
        · exact space_ne_deep
        · exact pipe_ne_deep
      cases hity : it.ty with
      | none => simp [hity, primTy] at hpit
      | some ti =>
        have hitemTy : itemTy p = some ti := by simp [itemTy, hit, hity]
        rw [hity] at hpit
        simp only [hnd, if_false, hitemTy]
        simp only [hty, hitemTy, Option.getD_some] at hs ⊢
        cases hl : lookup k fields with
        | none => simp [dropNull]
        | some vals =>
          cases vals with
          | nil => simp [dropNull]
          | cons v0 rest =>
            simp only [hl, Option.getD_some] at hs ⊢
            cases hraw : arrayRaw e v0 rest with
            | none => simp [hraw] at hs
            | some raw =>
              simp only [hraw] at hs ⊢
              cases hemp : raw.any (fun x => x.isEmpty) with
              | true =>
                simp only [if_true]
                rcases parseItems_empty ti hpit raw hemp with h1 | h1 <;> simp [h1, dropNull]
              | false =>
                simp only [hemp, Bool.false_eq_true, if_false] at hs ⊢
                have hsp := parseItems_spec ti hpit raw
                cases hpi : parseItems (some ti) raw with
                | none => simp [hsp.1 hpi] at hs
                | some o =>
                  cases o with
                  | none => exact absurd hpi (parseItems_nonempty ti hpit raw hemp)
                  | some vs =>
                    have hall := hsp.2 _ hpi
                    cases vs with
                    | nil =>
                      have := encodesAll_length ti raw [] hall
                      have hne := arrayRaw_ne_nil e v0 rest raw hraw
                      cases raw with
                      | nil => exact absurd rfl hne
                      | cons _ _ => simp at this
                    | cons v vs' => simp [hall, dropNull]
    all_goals
      have hst : smStyle e = "form".toList := by
        rcases hwf with h | ⟨h, _⟩
        · exact h
        · simp [hty, tyIs] at h
      cases hl : lookup k fields with
      | none => simp [hst, dropNull]
      | some vals =>
        cases vals with
        | nil => simp [hst, dropNull]
        | cons v0 rest =>
          by_cases hv0 : v0 = []
          · simp [hst, hv0, parsePrimitive, dropNull]
          · simp only [hty, hl, hst, ne_eq, not_true_eq_false, if_false, Option.getD_some, parsePrimitive,
              encodesPrim, hv0] at hs ⊢
            first
              | rfl
              | (cases h1 : readInt v0 <;> simp [h1, dropNull] at hs ⊢; done)
              | (cases h1 : readNum v0 <;> simp [h1] at hs ⊢
                 have hv := encodesPrim_ne_null .number v0 _ (by simpa [encodesPrim] using h1)
                 rename_i v; cases v <;> simp [V.isNull] at hv <;> rfl; done)
              | (cases h1 : readBool v0 <;> simp [h1, dropNull] at hs ⊢; done)

theorem formPre_cons (k : Str) (p : RS) (r : List (Str × RS)) (h : formPre ((k, p) :: r) = .ok) :
    propPre p ∧ formPre r = .ok := by
  unfold formPre at h
  unfold propPre
  cases ho : tyIs p.ty .object with
  | true => simp [ho] at h
  | false =>
    simp only [ho, Bool.false_eq_true, if_false] at h
    cases ha : tyIs p.ty .array with
    | true =>
      simp only [ha, if_true] at h
      cases hi : p.items with
      | none => simp [hi] at h
      | some it =>
        simp only [hi] at h
        cases hp : primTy it.ty with
        | true => simp only [hp, if_true] at h; exact ⟨⟨rfl, fun _ => ⟨it, rfl, hp⟩⟩, h⟩
        | false => simp [hp] at h
    | false =>
      simp only [ha, Bool.false_eq_true, if_false] at h
      exact ⟨⟨rfl, fun h' => by simp at h'⟩, h⟩

/-- the whole property list: outside the class FormFieldUnparsable the decoder's object is the object the
fields encode -/
theorem formProps_agree (fields : List (Str × List Str)) (encs : List (Str × Enc)) (props : List (Str × RS))
    (hu : formUnparsable fields encs props = false)
    (hwf : encsWF encs props = true) (hpre : formPre props = .ok) :
    specFormProps fields encs props = some (decodeFormProps fields encs props) := by
  induction props with
  | nil => simp [specFormProps, decodeFormProps]
  | cons x r ih =>
    obtain ⟨k, p⟩ := x
    obtain ⟨hp, hr⟩ := formPre_cons k p r hpre
    simp only [formUnparsable, List.any_cons, Bool.or_eq_false_iff] at hu
    simp only [encsWF, List.all_cons, Bool.and_eq_true] at hwf
    have ihr := ih hu.2 hwf.2 hr
    have hs1 : specFormProp fields k p (lookup k encs) ≠ none := by
      intro h; simp [h] at hu
    have hw1 : propWF p (lookup k encs) := by
      have := hwf.1
      simp only [Bool.or_eq_true, Bool.and_eq_true, decide_eq_true_eq] at this
      exact this
    have hag := formProp_agree fields k p (lookup k encs) hs1 hw1 hp
    unfold specFormProps decodeFormProps
    rw [hag, show specFormProps fields encs r = some (decodeFormProps fields encs r) from ihr]
    cases hd : decodeFormProp fields k p (lookup k encs) with
    | none => rfl
    | some v => cases v <;> rfl

end KinModel.Body
