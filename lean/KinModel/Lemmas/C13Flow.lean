/- Soundness of the abstract interpreter of KinModel/C13Flow.lean: what `postL` accepts holds on every path of `Exec`. -/
import KinModel.C13Flow
namespace KinModel.C13.Flow
open KinModel.Gen

/-! ### state sets -/

theorem code_inj (s t : FSt) (h : s.code = t.code) : s = t := by
  obtain ⟨a, b, c, d⟩ := s
  obtain ⟨a', b', c', d'⟩ := t
  cases a <;> cases b <;> cases c <;> cases d <;> cases a' <;> cases b' <;> cases c' <;> cases d' <;>
    first | rfl | (simp [FSt.code] at h)

theorem mem_iff (s : FSt) (A : SS) : mem s A = true ↔ s ∈ A := by
  unfold mem
  rw [List.any_eq_true]
  constructor
  · rintro ⟨t, ht, hc⟩
    have : t = s := code_inj t s (by simpa using hc)
    rw [← this]; exact ht
  · intro h; exact ⟨s, h, by simp⟩

theorem mem_insert (s t : FSt) (A : SS) : s ∈ insert t A ↔ s ∈ A ∨ s = t := by
  unfold insert
  cases h : mem t A with
  | true =>
    simp only [↓reduceIte]
    constructor
    · exact Or.inl
    · rintro (h1 | h1)
      · exact h1
      · rw [h1]; exact (mem_iff t A).mp h
  | false => simp

theorem mem_union (s : FSt) : ∀ (B A : SS), s ∈ union A B ↔ s ∈ A ∨ s ∈ B
  | [], A => by simp [union]
  | t :: B, A => by
    have ih := mem_union s B (insert t A)
    unfold union at ih ⊢
    simp only [List.foldl_cons]
    rw [ih, mem_insert]
    simp only [List.mem_cons]
    constructor
    · rintro ((h | h) | h)
      · exact Or.inl h
      · exact Or.inr (Or.inl h)
      · exact Or.inr (Or.inr h)
    · rintro (h | h | h)
      · exact Or.inl (Or.inl h)
      · exact Or.inl (Or.inr h)
      · exact Or.inr h

theorem subset_iff (A B : SS) : subset A B = true ↔ ∀ s ∈ A, s ∈ B := by
  unfold subset
  rw [List.all_eq_true]
  constructor
  · intro h s hs; exact (mem_iff s B).mp (h s hs)
  · intro h s hs; exact (mem_iff s B).mpr (h s hs)

/-- adding what is already there changes nothing — not even the list -/
theorem union_of_subset : ∀ (B A : SS), (∀ s ∈ B, s ∈ A) → union A B = A
  | [], _, _ => rfl
  | t :: B, A, h => by
    unfold union
    simp only [List.foldl_cons]
    have : insert t A = A := by
      unfold insert
      rw [(mem_iff t A).mpr (h t (by simp))]; rfl
    rw [this]
    exact union_of_subset B A (fun s hs => h s (by simp [hs]))

theorem mem_image (f : FSt → FSt) (S : SS) (s : FSt) (h : s ∈ S) : f s ∈ image f S := by
  unfold image
  rw [mem_union]
  exact Or.inr (List.mem_map_of_mem h)

theorem forceSt_eq {α} (s : FSt) (k : FSt → α) : forceSt s k = k s := by
  obtain ⟨a, b, c, d⟩ := s
  cases a <;> cases b <;> cases c <;> cases d <;> rfl

theorem forceSS_eq {α} : ∀ (S : SS) (k : SS → α), forceSS S k = k S
  | [], k => rfl
  | s :: r, k => by simp only [forceSS, forceSt_eq, forceSS_eq r]

/-! ### what a result covers -/

def Covers (R : Res) : Out → Prop
  | .fall s => s ∈ R.fall
  | .cont s => s ∈ R.cont
  | .brk s => s ∈ R.brk
  | .ret _ s => s.exposed = true → s.deferred = true
  | .bad => False

theorem seqOpt_some {a : Option Res} {k : SS → Option Res} {R : Res} (h : seqOpt a k = some R) :
    ∃ ra rb, a = some ra ∧ k ra.fall = some rb ∧ R = ⟨rb.fall, union ra.cont rb.cont, union ra.brk rb.brk⟩ := by
  unfold seqOpt at h
  cases a with
  | none => cases h
  | some ra =>
    simp only at h
    cases hk : k ra.fall with
    | none => simp [hk] at h
    | some rb => simp only [hk, Option.some.injEq] at h; exact ⟨ra, rb, rfl, hk, h.symm⟩

theorem joinOpt_some {a b : Option Res} {R : Res} (h : joinOpt a b = some R) :
    ∃ ra rb, a = some ra ∧ b = some rb ∧ R = ra.join rb := by
  cases a <;> cases b <;> simp [joinOpt] at h
  exact ⟨_, _, rfl, rfl, h.symm⟩

/-- an outcome of the tail, seen from the whole list -/
theorem covers_tail (ra rb : Res) (o : Out) (h : Covers rb o) :
    Covers ⟨rb.fall, union ra.cont rb.cont, union ra.brk rb.brk⟩ o := by
  cases o with
  | fall s => exact h
  | cont s => exact (mem_union s _ _).mpr (Or.inr h)
  | brk s => exact (mem_union s _ _).mpr (Or.inr h)
  | ret l s => exact h
  | bad => exact h

/-- an outcome of the head that does not fall through, seen from the whole list -/
theorem covers_head (ra rb : Res) (o : Out) (hf : o.isFall = false) (h : Covers ra o) :
    Covers ⟨rb.fall, union ra.cont rb.cont, union ra.brk rb.brk⟩ o := by
  cases o with
  | fall s => cases hf
  | cont s => exact (mem_union s _ _).mpr (Or.inl h)
  | brk s => exact (mem_union s _ _).mpr (Or.inl h)
  | ret l s => exact h
  | bad => exact h

theorem covers_join_left (ra rb : Res) (o : Out) (h : Covers ra o) : Covers (ra.join rb) o := by
  cases o with
  | fall s => exact (mem_union s _ _).mpr (Or.inl h)
  | cont s => exact (mem_union s _ _).mpr (Or.inl h)
  | brk s => exact (mem_union s _ _).mpr (Or.inl h)
  | ret l s => exact h
  | bad => exact h

theorem covers_join_right (ra rb : Res) (o : Out) (h : Covers rb o) : Covers (ra.join rb) o := by
  cases o with
  | fall s => exact (mem_union s _ _).mpr (Or.inr h)
  | cont s => exact (mem_union s _ _).mpr (Or.inr h)
  | brk s => exact (mem_union s _ _).mpr (Or.inr h)
  | ret l s => exact h
  | bad => exact h

/-! ### unfolding the interpreter -/

theorem postL_nil (S : SS) : postL [] S = some ⟨S, [], []⟩ := by rw [postL]

theorem postL_cons (x : FlowStmt) (r : List FlowStmt) (S : SS) :
    postL (x :: r) S = seqOpt (postS x S) (fun S' => postL r S') := by rw [postL, forceSS_eq]

theorem all_mem {S : SS} {p : FSt → Bool} (h : S.all p = true) {s : FSt} (hs : s ∈ S) : p s = true :=
  (List.all_eq_true.mp h) s hs

/-! ### loops -/

theorem iter_grows (f : SS → Option Res) : ∀ (n : Nat) (S I : SS), iter f n S = some I → ∀ s ∈ S, s ∈ I
  | 0, S, I, h, s, hs => by simp [iter] at h; rw [← h]; exact hs
  | n + 1, S, I, h, s, hs => by
    simp only [iter] at h
    cases hl : loopStep f S with
    | none => simp [hl] at h
    | some S1 =>
      simp only [hl, Option.bind_some] at h
      apply iter_grows f n S1 I h
      unfold loopStep at hl
      rw [forceSS_eq] at hl
      cases hf : f S with
      | none => simp [hf] at hl
      | some rb =>
        simp only [hf, Option.map_some, Option.some.injEq] at hl
        rw [← hl]; exact (mem_union s _ _).mpr (Or.inl hs)

/-- a set that is closed under the body is what the loop rule computes from it, and the rule's answer is the same -/
theorem iter_stable (f : SS → Option Res) (I : SS) (rb : Res) (hf : f I = some rb)
    (hs : ∀ s ∈ rb.fall ++ rb.cont, s ∈ I) : ∀ n, iter f n I = some I
  | 0 => rfl
  | n + 1 => by
    simp only [iter, loopStep, forceSS_eq, hf, Option.map_some, Option.bind_some]
    rw [union_of_subset _ I hs]
    exact iter_stable f I rb hf hs n

theorem loopRes_some {f : SS → Option Res} {S : SS} {R : Res} (h : loopRes f S = some R) :
    ∃ I rb, (∀ s ∈ S, s ∈ I) ∧ f I = some rb ∧ (∀ s ∈ rb.fall ++ rb.cont, s ∈ I) ∧ R = ⟨union I rb.brk, [], []⟩ ∧
      loopRes f I = some R := by
  unfold loopRes at h
  cases hi : iter f 4 S with
  | none => simp [hi] at h
  | some I =>
    simp only [hi, Option.bind_some, forceSS_eq] at h
    cases hf : f I with
    | none => simp [hf] at h
    | some rb =>
      simp only [hf, Option.bind_some] at h
      split at h
      · rename_i hsub
        have hs := (subset_iff _ _).mp hsub
        simp only [Option.some.injEq] at h
        refine ⟨I, rb, iter_grows f 4 S I hi, hf, hs, h.symm, ?_⟩
        unfold loopRes
        rw [iter_stable f I rb hf hs 4]
        simp only [Option.bind_some, forceSS_eq, hf, hsub, ↓reduceIte, h]
      · cases h

/-! ### the branching statements -/

theorem branch_covers (x : FlowStmt) (s : FSt) (blk : List FlowStmt) (S : SS) (ra : Res) (o : Out)
    (hmem : blk ∈ branches x s) (hs : s ∈ S) (ha : postS x S = some ra)
    (ih : ∀ S R, s ∈ S → postL blk S = some R → Covers R o) : Covers ra o := by
  cases x with
  | ifElse l t e =>
    rw [postS] at ha
    obtain ⟨r1, r2, h1, h2, rfl⟩ := joinOpt_some ha
    simp only [branches, List.mem_cons, List.mem_nil_iff, or_false] at hmem
    rcases hmem with rfl | rfl
    · exact covers_join_left r1 r2 o (ih S r1 hs h1)
    · exact covers_join_right r1 r2 o (ih S r2 hs h2)
  | ifBody l t e =>
    rw [postS] at ha
    obtain ⟨r1, r2, h1, h2, rfl⟩ := joinOpt_some ha
    simp only [branches] at hmem
    cases hp : s.present with
    | true =>
      simp only [hp, ↓reduceIte, List.mem_cons, List.mem_nil_iff, or_false] at hmem
      subst hmem
      exact covers_join_left r1 r2 o (ih _ r1 (List.mem_filter.mpr ⟨hs, hp⟩) h1)
    | false =>
      simp only [hp, Bool.false_eq_true, ↓reduceIte, List.mem_cons, List.mem_nil_iff, or_false] at hmem
      subst hmem
      exact covers_join_right r1 r2 o (ih _ r2 (List.mem_filter.mpr ⟨hs, by simp [hp]⟩) h2)
  | ifData l t e =>
    rw [postS] at ha
    obtain ⟨r1, r2, h1, h2, rfl⟩ := joinOpt_some ha
    simp only [branches] at hmem
    cases hp : s.hasData with
    | true =>
      simp only [hp, ↓reduceIte, List.mem_cons, List.mem_nil_iff, or_false] at hmem
      subst hmem
      exact covers_join_left r1 r2 o (ih _ r1 (List.mem_filter.mpr ⟨hs, hp⟩) h1)
    | false =>
      simp only [hp, Bool.false_eq_true, ↓reduceIte, List.mem_cons, List.mem_nil_iff, or_false] at hmem
      subst hmem
      exact covers_join_right r1 r2 o (ih _ r2 (List.mem_filter.mpr ⟨hs, by simp [hp]⟩) h2)
  | _ => simp [branches] at hmem

/-! ### soundness -/

/-- **Every path is covered by what the interpreter computes**: falling through, `continue` and `break` end in a
    state of the computed sets; every `return` is protected; `bad` does not happen. -/
theorem post_sound {p : List FlowStmt} {s : FSt} {o : Out} (h : Exec p s o) :
    ∀ (S : SS) (R : Res), s ∈ S → postL p S = some R → Covers R o := by
  induction h with
  | nil s =>
    intro S R hs hp
    rw [postL_nil] at hp; cases hp; exact hs
  | read l oe r s o _ ih =>
    intro S R hs hp
    rw [postL_cons] at hp
    obtain ⟨ra, rb, ha, hb, rfl⟩ := seqOpt_some hp
    rw [postS] at ha
    split at ha
    · cases ha
      exact covers_tail _ rb o (ih _ rb (mem_image (fun s => { s with dirty := true, hasData := true }) S s hs) hb)
    · cases ha
  | restore l r s o _ ih =>
    intro S R hs hp
    rw [postL_cons] at hp
    obtain ⟨ra, rb, ha, hb, rfl⟩ := seqOpt_some hp
    rw [postS] at ha; cases ha
    exact covers_tail _ rb o (ih _ rb (mem_image (fun s => { s with dirty := false }) S s hs) hb)
  | install l r s o _ ih =>
    intro S R hs hp
    rw [postL_cons] at hp
    obtain ⟨ra, rb, ha, hb, rfl⟩ := seqOpt_some hp
    rw [postS] at ha; cases ha
    exact covers_tail _ rb o (ih _ rb (mem_image (fun s => { s with dirty := false }) S s hs) hb)
  | callbackExposed l r s hx =>
    intro S R hs hp
    rw [postL_cons] at hp
    obtain ⟨ra, rb, ha, hb, rfl⟩ := seqOpt_some hp
    rw [postS] at ha
    split at ha
    · rename_i hn
      have := all_mem hn hs
      simp [hx] at this
    · cases ha
  | callbackReads l r s o hpres _ ih =>
    intro S R hs hp
    rw [postL_cons] at hp
    obtain ⟨ra, rb, ha, hb, rfl⟩ := seqOpt_some hp
    rw [postS] at ha
    split at ha
    · cases ha
      refine covers_tail _ rb o (ih _ rb ?_ hb)
      rw [mem_union]
      exact Or.inr (List.mem_map.mpr ⟨s, List.mem_filter.mpr ⟨hs, hpres⟩, rfl⟩)
    · cases ha
  | callbackIgnores l r s o _ ih =>
    intro S R hs hp
    rw [postL_cons] at hp
    obtain ⟨ra, rb, ha, hb, rfl⟩ := seqOpt_some hp
    rw [postS] at ha
    split at ha
    · cases ha
      refine covers_tail _ rb o (ih _ rb ?_ hb)
      rw [mem_union]; exact Or.inl hs
    · cases ha
  | deferRestore l r s o _ ih =>
    intro S R hs hp
    rw [postL_cons] at hp
    obtain ⟨ra, rb, ha, hb, rfl⟩ := seqOpt_some hp
    rw [postS] at ha; cases ha
    exact covers_tail _ rb o (ih _ rb (mem_image (fun s => { s with deferred := true }) S s hs) hb)
  | deferClose l r s o _ ih =>
    intro S R hs hp
    rw [postL_cons] at hp
    obtain ⟨ra, rb, ha, hb, rfl⟩ := seqOpt_some hp
    rw [postS] at ha; cases ha
    exact covers_tail _ rb o (ih _ rb hs hb)
  | callExposed f l r s hx =>
    intro S R hs hp
    rw [postL_cons] at hp
    obtain ⟨ra, rb, ha, hb, rfl⟩ := seqOpt_some hp
    rw [postS] at ha
    split at ha
    · rename_i hn
      have := all_mem hn hs
      simp [hx] at this
    · cases ha
  | call f l r s o _ ih =>
    intro S R hs hp
    rw [postL_cons] at hp
    obtain ⟨ra, rb, ha, hb, rfl⟩ := seqOpt_some hp
    rw [postS] at ha
    split at ha
    · cases ha; exact covers_tail _ rb o (ih _ rb hs hb)
    · cases ha
  | ret l r s =>
    intro S R hs hp
    rw [postL_cons] at hp
    obtain ⟨ra, rb, ha, hb, rfl⟩ := seqOpt_some hp
    rw [postS] at ha
    split at ha
    · rename_i hn
      have := all_mem hn hs
      intro hx
      simpa [hx] using this
    · cases ha
  | cont l r s =>
    intro S R hs hp
    rw [postL_cons] at hp
    obtain ⟨ra, rb, ha, hb, rfl⟩ := seqOpt_some hp
    rw [postS] at ha; cases ha
    exact (mem_union s _ _).mpr (Or.inl hs)
  | brk l r s =>
    intro S R hs hp
    rw [postL_cons] at hp
    obtain ⟨ra, rb, ha, hb, rfl⟩ := seqOpt_some hp
    rw [postS] at ha; cases ha
    exact (mem_union s _ _).mpr (Or.inl hs)
  | unrecognised site r s =>
    intro S R hs hp
    rw [postL_cons] at hp
    obtain ⟨ra, rb, ha, hb, rfl⟩ := seqOpt_some hp
    rw [postS] at ha; cases ha
  | branchFall x r s blk s' o hmem _ _ ih1 ih2 =>
    intro S R hs hp
    rw [postL_cons] at hp
    obtain ⟨ra, rb, ha, hb, rfl⟩ := seqOpt_some hp
    have h1 : Covers ra (.fall s') := branch_covers x s blk S ra (.fall s') hmem hs ha ih1
    exact covers_tail _ rb o (ih2 _ rb h1 hb)
  | branchStop x r s blk o hmem _ hnf ih =>
    intro S R hs hp
    rw [postL_cons] at hp
    obtain ⟨ra, rb, ha, hb, rfl⟩ := seqOpt_some hp
    exact covers_head ra rb o hnf (branch_covers x s blk S ra o hmem hs ha ih)
  | loopExit l b r s o _ ih =>
    intro S R hs hp
    rw [postL_cons] at hp
    obtain ⟨ra, rb, ha, hb, rfl⟩ := seqOpt_some hp
    rw [postS] at ha
    obtain ⟨I, rbody, hSI, hfI, hclosed, rfl, _⟩ := loopRes_some ha
    exact covers_tail _ rb o (ih _ rb ((mem_union s _ _).mpr (Or.inl (hSI s hs))) hb)
  | loopNextFall l b r s s' o _ _ ih1 ih2 =>
    intro S R hs hp
    have hp0 := hp
    rw [postL_cons] at hp
    obtain ⟨ra, rb, ha, hb, rfl⟩ := seqOpt_some hp
    rw [postS] at ha
    obtain ⟨I, rbody, hSI, hfI, hclosed, hra, hagain⟩ := loopRes_some ha
    have h1 : s' ∈ rbody.fall := ih1 I rbody (hSI s hs) hfI
    have h2 : s' ∈ I := hclosed s' (List.mem_append.mpr (Or.inl h1))
    apply ih2 I _ h2
    rw [postL_cons, postS, hagain]
    simp only [seqOpt, hb]
  | loopNextCont l b r s s' o _ _ ih1 ih2 =>
    intro S R hs hp
    rw [postL_cons] at hp
    obtain ⟨ra, rb, ha, hb, rfl⟩ := seqOpt_some hp
    rw [postS] at ha
    obtain ⟨I, rbody, hSI, hfI, hclosed, hra, hagain⟩ := loopRes_some ha
    have h1 : s' ∈ rbody.cont := ih1 I rbody (hSI s hs) hfI
    have h2 : s' ∈ I := hclosed s' (List.mem_append.mpr (Or.inr h1))
    apply ih2 I _ h2
    rw [postL_cons, postS, hagain]
    simp only [seqOpt, hb]
  | loopBrk l b r s s' o _ _ ih1 ih2 =>
    intro S R hs hp
    rw [postL_cons] at hp
    obtain ⟨ra, rb, ha, hb, rfl⟩ := seqOpt_some hp
    rw [postS] at ha
    obtain ⟨I, rbody, hSI, hfI, hclosed, rfl, _⟩ := loopRes_some ha
    have h1 : s' ∈ rbody.brk := ih1 I rbody (hSI s hs) hfI
    exact covers_tail _ rb o (ih2 _ rb ((mem_union s' _ _).mpr (Or.inr h1)) hb)
  | loopRet l b r s ln s' _ ih =>
    intro S R hs hp
    rw [postL_cons] at hp
    obtain ⟨ra, rb, ha, hb, rfl⟩ := seqOpt_some hp
    rw [postS] at ha
    obtain ⟨I, rbody, hSI, hfI, hclosed, rfl, _⟩ := loopRes_some ha
    exact ih I rbody (hSI s hs) hfI
  | loopBad l b r s _ ih =>
    intro S R hs hp
    rw [postL_cons] at hp
    obtain ⟨ra, rb, ha, hb, rfl⟩ := seqOpt_some hp
    rw [postS] at ha
    obtain ⟨I, rbody, hSI, hfI, hclosed, rfl, _⟩ := loopRes_some ha
    exact ih I rbody (hSI s hs) hfI

/-- **What acceptance means.**  If the interpreter accepts a function body, then every path through it from either
    entry state ends protected (`Protected`): in a `return` or at the end of the function, with the body in place or a
    deferred restore registered; no callback and no call of another function of the table ever starts with the body
    consumed; nothing unrecognised is executed. -/
theorem accepts_sound (body : List FlowStmt) (ha : accepts body = true) (s : FSt) (hs : s ∈ entryStates) (o : Out)
    (h : Exec body s o) : Protected o := by
  unfold accepts at ha
  cases hp : postL body entryStates with
  | none => simp [hp] at ha
  | some R =>
    simp only [hp, Bool.and_eq_true, List.isEmpty_iff] at ha
    have hc := post_sound h entryStates R hs hp
    cases o with
    | fall s' =>
      intro hx
      have := all_mem ha.1.1 hc
      simpa [hx] using this
    | ret l s' => exact hc
    | cont s' => have hc' : s' ∈ R.cont := hc; rw [ha.1.2] at hc'; cases hc'
    | brk s' => have hc' : s' ∈ R.brk := hc; rw [ha.2] at hc'; cases hc'
    | bad => exact hc

end KinModel.C13.Flow
