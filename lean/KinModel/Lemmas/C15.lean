/- Helper lemmas for C15 (not property statements): the executable case model only produces clean traces. Core-only. -/
import KinModel.Conc
import KinModel.ConcCase
namespace KinModel.Conc

theorem cache_cell_ge (c : CaseM) : ∀ x : Nat, x ∈ (caseCfg c).cache → 10 ≤ x ∧ x % 3 = 2 := by
  intro x hx
  simp only [caseCfg, List.mem_map] at hx
  obtain ⟨o, _, rfl⟩ := hx
  show 10 ≤ 11 + 3 * o.genType ∧ (11 + 3 * o.genType) % 3 = 2
  omega

/-- the value the configuration determines for a cell: a type cell of some operation, and then `genType + 1` -/
theorem det_lookup_some (ops : List OpM) (x d : Nat)
    (h : (ops.map (fun o => (typeCell o.genType, o.genType + 1))).lookup x = some d) :
    ∃ t, x = typeCell t ∧ d = t + 1 := by
  induction ops with
  | nil => simp at h
  | cons o os ih =>
    simp only [List.map_cons, List.lookup_cons] at h
    split at h
    · rename_i heq
      simp only [Option.some.injEq] at h
      exact ⟨o.genType, by simpa using heq, h.symm⟩
    · exact ih h

theorem det_lookup_mem (ops : List OpM) (o : OpM) (ho : o ∈ ops) :
    (ops.map (fun o => (typeCell o.genType, o.genType + 1))).lookup (typeCell o.genType) = some (o.genType + 1) := by
  induction ops with
  | nil => simp at ho
  | cons p ps ih =>
    simp only [List.map_cons, List.lookup_cons]
    by_cases hp : typeCell o.genType == typeCell p.genType
    · simp only [hp]
      have : o.genType = p.genType := by
        have h1 : (11 + 3 * o.genType : Nat) = 11 + 3 * p.genType := beq_iff_eq.mp hp
        omega
      rw [this]
    · simp only [hp]
      rcases List.mem_cons.mp ho with rfl | hm
      · simp at hp
      · exact ih hm

theorem det_none_small (c : CaseM) (x : Nat) (h : x < 10) : (caseCfg c).det.lookup x = none := by
  cases hl : (caseCfg c).det.lookup x with
  | none => rfl
  | some d =>
    obtain ⟨t, rfl, _⟩ := det_lookup_some c.ops x d hl
    simp only [typeCell] at h; omega

theorem small_not_cache (c : CaseM) (x : Nat) (h : x < 10) : (caseCfg c).cache.contains x = false := by
  cases hc : (caseCfg c).cache.contains x with
  | false => rfl
  | true => have := (cache_cell_ge c x (by simpa using hc)).1; omega

theorem small_not_mem (c : CaseM) (x : Nat) (h : x < 10) : x ∉ (caseCfg c).cache := fun hm => by
  have := (cache_cell_ge c x hm).1; omega

theorem opActs_clean (c : CaseM) (tid : Nat) (o : OpM) (ho : o ∈ c.ops) :
    ∀ a ∈ opActs tid o, cleanAct (caseCfg c) a = true := by
  intro a ha
  have rd : ∀ x : Nat, x < 10 → cleanAct (caseCfg c) (.read x) = true := by
    intro x hlt; simp [cleanAct, small_not_mem c x hlt]
  simp only [opActs, List.mem_append] at ha
  rcases ha with ((((((ha | ha) | ha) | ha) | ha) | ha) | ha) | ha
  · simp only [List.mem_singleton] at ha; subst ha; exact rd 0 (by omega)
  · split at ha
    · simp only [List.mem_singleton] at ha; subst ha; exact rd 1 (by omega)
    · simp at ha
  · split at ha
    · obtain ⟨d, rfl, _, _⟩ := mem_readsFrom (sliceCell o.item) _ _ a ha
      have hn : sliceCell o.item d ∉ (caseCfg c).cache := fun hm => by
        have h := (cache_cell_ge c (sliceCell o.item d) hm).2
        have : (12 + 3 * (64 * o.item + d)) % 3 = 2 := h
        omega
      simp [cleanAct, hn]
    · simp at ha
  · split at ha
    · simp only [List.mem_map] at ha
      obtain ⟨p, _, rfl⟩ := ha
      have hn : patCell p ∉ (caseCfg c).cache := fun hm => by
        have h := (cache_cell_ge c (patCell p) hm).2
        have : (10 + 3 * p) % 3 = 2 := h
        omega
      simp [cleanAct, hn]
    · simp at ha
  · split at ha
    · simp only [List.mem_singleton] at ha; subst ha
      have h2 := small_not_mem c 2 (by omega)
      have : (caseCfg c).lazy.contains uniqCell = true := by simp [caseCfg]
      have hd : detOK (caseCfg c) uniqCell 7 = true := by
        simp [detOK, det_none_small c uniqCell (by decide)]
      simp only [cleanAct, this, hd, Bool.true_and, Bool.and_true]
      show (!(caseCfg c).cache.contains 2) = true
      simp [h2]
    · simp at ha
  · split at ha
    · simp only [List.mem_singleton] at ha; subst ha
      have hm : typeCell o.genType ∈ (caseCfg c).cache := by
        simp only [caseCfg, List.mem_map]
        exact ⟨o, ho, rfl⟩
      have hl : (caseCfg c).det.lookup (typeCell o.genType) = some (o.genType + 1) := det_lookup_mem c.ops o ho
      simp [cleanAct, hm, hl]
    · simp at ha
  · split at ha
    · simp only [List.mem_singleton] at ha; subst ha; exact rd 3 (by omega)
    · simp at ha
  · split at ha
    · simp only [List.mem_singleton] at ha; subst ha; exact rd 4 (by omega)
    · simp at ha

/-- all actions of all live threads satisfy P -/
def AllActs (P : Act → Prop) (live : List (Nat × List Act)) : Prop := ∀ t ∈ live, ∀ a ∈ t.2, P a

theorem takeAt_all (P : Act → Prop) : ∀ (live : List (Nat × List Act)) (k : Nat) x live',
    takeAt k live = some (x, live') → AllActs P live → P x.2 ∧ AllActs P live' := by
  intro live
  induction live with
  | nil => intro k x live' h; simp [takeAt] at h
  | cons t rest ih =>
    intro k x live' h hall
    obtain ⟨tid, acts⟩ := t
    have hrest : AllActs P rest := fun t ht => hall t (by simp [ht])
    cases acts with
    | nil =>
      rw [takeAt] at h
      exact ih k x live' h hrest
    | cons a as =>
      have ha : P a := hall (tid, a :: as) (by simp) a (by simp)
      have has : ∀ b ∈ as, P b := fun b hb => hall (tid, a :: as) (by simp) b (by simp [hb])
      cases k with
      | zero =>
        simp only [takeAt, Option.some.injEq, Prod.mk.injEq] at h
        obtain ⟨rfl, rfl⟩ := h
        refine ⟨ha, ?_⟩
        intro t ht
        simp only [List.mem_cons] at ht
        rcases ht with rfl | ht
        · exact has
        · exact hrest t ht
      | succ k =>
        simp only [takeAt] at h
        cases hk : takeAt k rest with
        | none =>
          simp only [hk, Option.some.injEq, Prod.mk.injEq] at h
          obtain ⟨rfl, rfl⟩ := h
          refine ⟨ha, ?_⟩
          intro t ht
          simp only [List.mem_cons] at ht
          rcases ht with rfl | ht
          · exact has
          · exact hrest t ht
        | some r =>
          obtain ⟨r1, r2⟩ := r
          simp only [hk, Option.some.injEq, Prod.mk.injEq] at h
          obtain ⟨rfl, rfl⟩ := h
          obtain ⟨h1, h2⟩ := ih k r1 r2 hk hrest
          refine ⟨h1, ?_⟩
          intro t ht
          simp only [List.mem_cons] at ht
          rcases ht with rfl | ht
          · exact hall (tid, a :: as) (by simp)
          · exact h2 t ht

theorem schedule_all (P : Act → Prop) : ∀ (fuel seed : Nat) (live : List (Nat × List Act)),
    AllActs P live → ∀ x ∈ schedule fuel seed live, P x.2
  | 0, _, _, _ => by simp [schedule]
  | fuel + 1, seed, live, hall => by
    intro x hx
    simp only [schedule] at hx
    cases hk : takeAt (seed % (live.length + 1)) live with
    | none => simp [hk] at hx
    | some r =>
      obtain ⟨y, live'⟩ := r
      simp only [hk, List.mem_cons] at hx
      obtain ⟨hy, hl'⟩ := takeAt_all P live _ y live' hk hall
      rcases hx with rfl | hx
      · exact hy
      · exact schedule_all P fuel (nextSeed seed) live' hl' x hx

theorem caseTrace_clean (c : CaseM) : CleanTrace (caseCfg c) (caseTrace c) := by
  intro x hmem
  refine schedule_all (fun a => cleanAct (caseCfg c) a = true) _ _ _ ?_ x hmem
  intro t ht a ha
  simp only [caseThreads, List.mem_map] at ht
  obtain ⟨j, _, rfl⟩ := ht
  simp only [threadActs, List.mem_flatMap] at ha
  obtain ⟨r, _, ha⟩ := ha
  simp only [getOp] at ha
  cases hget : c.ops[(j + r) % c.ops.length]? with
  | none => simp [hget] at ha
  | some o =>
    simp only [hget] at ha
    have ho : o ∈ c.ops := List.mem_of_getElem? hget
    exact opActs_clean c j o ho a ha

theorem sigma0_lazy (c : CaseM) : LazyInit (caseCfg c) sigma0 := by
  intro x hx
  simp only [caseCfg, List.mem_singleton] at hx
  subst hx; decide

theorem sigma0_coherent (c : CaseM) : Coherent (caseCfg c) sigma0 := by
  intro x d hd
  obtain ⟨t, rfl, _⟩ := det_lookup_some c.ops x d hd
  left
  have h1 : typeCell t ≠ docCell := by show (11 + 3 * t : Nat) ≠ 0; omega
  have h2 : typeCell t ≠ routerCell := by show (11 + 3 * t : Nat) ≠ 1; omega
  have h3 : typeCell t ≠ uniqCell := by show (11 + 3 * t : Nat) ≠ 2; omega
  simp [sigma0, h1, h2, h3]

theorem cacheU_mem (c : CaseM) (x : Nat) (h : x ∈ (caseCfgU c).cache) : x = 2 ∨ (10 ≤ x ∧ x % 3 = 2) := by
  simp only [caseCfgU, List.mem_cons, List.mem_map] at h
  rcases h with rfl | ⟨o, _, rfl⟩
  · left; rfl
  · right; show 10 ≤ 11 + 3 * o.genType ∧ (11 + 3 * o.genType) % 3 = 2; omega

theorem opActs_cleanU (c : CaseM) (tid : Nat) (o : OpM) (ho : o ∈ c.ops) :
    ∀ a ∈ opActs tid o, cleanAct (caseCfgU c) (syncOf a) = true := by
  intro a ha
  have rd : ∀ x : Nat, x ≠ 2 → x % 3 ≠ 2 ∨ x < 10 → cleanAct (caseCfgU c) (syncOf (.read x)) = true := by
    intro x h2 h3
    have : x ∉ (caseCfgU c).cache := fun hm => by
      rcases cacheU_mem c x hm with h | ⟨h, h'⟩
      · exact h2 h
      · omega
    simp [syncOf, cleanAct, this]
  simp only [opActs, List.mem_append] at ha
  rcases ha with ((((((ha | ha) | ha) | ha) | ha) | ha) | ha) | ha
  · simp only [List.mem_singleton] at ha; subst ha; exact rd 0 (by decide) (Or.inr (by decide))
  · split at ha
    · simp only [List.mem_singleton] at ha; subst ha; exact rd 1 (by decide) (Or.inr (by decide))
    · simp at ha
  · split at ha
    · obtain ⟨d, rfl, _, _⟩ := mem_readsFrom (sliceCell o.item) _ _ a ha
      refine rd _ ?_ (Or.inl ?_)
      · show (12 + 3 * (64 * o.item + d) : Nat) ≠ 2; omega
      · show (12 + 3 * (64 * o.item + d) : Nat) % 3 ≠ 2; omega
    · simp at ha
  · split at ha
    · simp only [List.mem_map] at ha
      obtain ⟨p, _, rfl⟩ := ha
      have hn : patCell p ∉ (caseCfgU c).cache := fun hm => by
        rcases cacheU_mem c _ hm with h | ⟨_, h'⟩
        · have : (10 + 3 * p : Nat) = 2 := h; omega
        · have : (10 + 3 * p : Nat) % 3 = 2 := h'; omega
      simp [syncOf, cleanAct, hn]
    · simp at ha
  · split at ha
    · simp only [List.mem_singleton] at ha; subst ha
      simp [syncOf, cleanAct, caseCfgU, uniqCell]
    · simp at ha
  · split at ha
    · simp only [List.mem_singleton] at ha; subst ha
      have hm : typeCell o.genType ∈ (caseCfgU c).cache := by
        simp only [caseCfgU, List.mem_cons, List.mem_map]
        exact Or.inr ⟨o, ho, rfl⟩
      have hne : (typeCell o.genType == uniqCell) = false := by
        have : (11 + 3 * o.genType : Nat) ≠ 2 := by omega
        simpa [typeCell, uniqCell] using this
      have hl : (caseCfgU c).det.lookup (typeCell o.genType) = some (o.genType + 1) := by
        simp only [caseCfgU, List.lookup_cons, hne]
        exact det_lookup_mem c.ops o ho
      simp [syncOf, cleanAct, hm, hl]
    · simp at ha
  · split at ha
    · simp only [List.mem_singleton] at ha; subst ha; exact rd 3 (by decide) (Or.inr (by decide))
    · simp at ha
  · split at ha
    · simp only [List.mem_singleton] at ha; subst ha; exact rd 4 (by decide) (Or.inr (by decide))
    · simp at ha

theorem caseTrace_cleanU (c : CaseM) : CleanTrace (caseCfgU c) (mapTrace (caseTrace c)) := by
  intro x hmem
  simp only [mapTrace, List.mem_map] at hmem
  obtain ⟨y, hy, rfl⟩ := hmem
  refine schedule_all (fun a => cleanAct (caseCfgU c) (syncOf a) = true) _ _ _ ?_ y hy
  intro t ht a ha
  simp only [caseThreads, List.mem_map] at ht
  obtain ⟨j, _, rfl⟩ := ht
  simp only [threadActs, List.mem_flatMap] at ha
  obtain ⟨r, _, ha⟩ := ha
  simp only [getOp] at ha
  cases hget : c.ops[(j + r) % c.ops.length]? with
  | none => simp [hget] at ha
  | some o =>
    simp only [hget] at ha
    exact opActs_cleanU c j o (List.mem_of_getElem? hget) a ha

theorem sigmaU_coherent (c : CaseM) : Coherent (caseCfgU c) sigmaU := by
  intro x d hd
  left
  simp only [caseCfgU, List.lookup_cons] at hd
  split at hd
  · rename_i h
    have : x = 2 := by simpa [uniqCell] using h
    subst this; rfl
  · obtain ⟨t, rfl, _⟩ := det_lookup_some c.ops x d hd
    have h1 : typeCell t ≠ docCell := by show (11 + 3 * t : Nat) ≠ 0; omega
    have h2 : typeCell t ≠ routerCell := by show (11 + 3 * t : Nat) ≠ 1; omega
    simp [sigmaU, h1, h2]

end KinModel.Conc
