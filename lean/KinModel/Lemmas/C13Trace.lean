/-
C13, part 6 — helper lemmas for the event traces (KinModel/C13Trace.lean): the concrete run distributes over `++`;
the scheme loops of the stream model (`schemeLoop`, `schemeLoopNoBody`) are iterations of the loop-body paths
`srLoopPaths`; `secReq` is a complete path of the segment list `srSegs` (Props/C13.lean: `srSegs` is what the
regenerated table gives for validateSecurityRequirement); likewise `secPhase` over `vsrSegs` and `validateStream` over
`vrSegs`, where the events are calls executed by the stream model of the called function.  Converse direction for
validateSecurityRequirement: EVERY complete path of `srSegs` that runs concretely on a request with a body leaves it
readable (`srSegs_readable`, by an invariant of the scheme loop over all derivations of `SegPath`).
-/
import KinModel.C13Trace
import KinModel.Lemmas.C13Stream
namespace KinModel.C13.Trace
open KinModel.Gen KinModel.C13.Stream

theorem runR_append (t u : List Ev) (s : RSt) : runR (t ++ u) s = (runR t s).bind (runR u) := by
  induction t generalizing s with
  | nil => simp [runR]
  | cons e t ih =>
    simp only [List.cons_append, runR]
    cases stepR s e with
    | none => simp
    | some s1 => simp [ih]

theorem srLoop_some (data : Bytes) : ∀ (schemes : List Scheme) (req : Req) (dfr : Bool) (seen0 : List Bytes),
    ∃ t s', SegPath srTail t ∧ runR t ⟨req, some data, dfr, schemes.map (·.auth), seen0⟩ = some s' ∧
      s'.req = (schemeLoop data req schemes).1 ∧ s'.seen = seen0 ++ (schemeLoop data req schemes).2.2 ∧
      s'.data = some data ∧ s'.deferred = dfr := by
  intro schemes
  induction schemes with
  | nil =>
    intro req dfr seen0
    exact ⟨[], _, SegPath.loopExit _ _ _ (SegPath.straightRet _ _ _ (by simp)), rfl, by simp [schemeLoop]⟩
  | cons s rest ih =>
    intro req dfr seen0
    cases hd : s.declared with
    | false =>
      exact ⟨[], _, SegPath.loopRet _ _ _ (by simp [srLoopPaths]), rfl, by simp [schemeLoop, hd]⟩
    | true =>
      cases hok : s.auth.ok with
      | false =>
        refine ⟨[.dataGuard true, .restore, .callback],
          ⟨runAuth (restore req data) s.auth, some data, dfr, rest.map (·.auth), seen0 ++ [readAll (restore req data)]⟩,
          SegPath.loopRet _ _ _ (by simp [srLoopPaths]), ?_, ?_⟩
        · simp [runR, stepR]
        · simp [schemeLoop, hd, hok]
      | true =>
        obtain ⟨u, s', hp, hr, h1, h2, h3, h4⟩ :=
          ih (runAuth (restore req data) s.auth) dfr (seen0 ++ [readAll (restore req data)])
        refine ⟨[.dataGuard true, .restore, .callback] ++ u, s', SegPath.loopFall _ _ _ _ (by simp [srLoopPaths]) hp, ?_, ?_⟩
        · rw [runR_append]
          simp [runR, stepR]
          exact hr
        · simp [schemeLoop, hd, hok, h1, h2, h3, h4]

theorem srLoop_none : ∀ (schemes : List Scheme) (req : Req) (dfr : Bool) (seen0 : List Bytes),
    ∃ t s', SegPath srTail t ∧ runR t ⟨req, none, dfr, schemes.map (·.auth), seen0⟩ = some s' ∧
      s'.req = (schemeLoopNoBody req schemes).1 ∧ s'.seen = seen0 ++ (schemeLoopNoBody req schemes).2.2 ∧
      s'.data = none ∧ s'.deferred = dfr := by
  intro schemes
  induction schemes with
  | nil =>
    intro req dfr seen0
    exact ⟨[], _, SegPath.loopExit _ _ _ (SegPath.straightRet _ _ _ (by simp)), rfl, by simp [schemeLoopNoBody]⟩
  | cons s rest ih =>
    intro req dfr seen0
    cases hd : s.declared with
    | false =>
      exact ⟨[], _, SegPath.loopRet _ _ _ (by simp [srLoopPaths]), rfl, by simp [schemeLoopNoBody, hd]⟩
    | true =>
      cases hok : s.auth.ok with
      | false =>
        refine ⟨[.dataGuard false, .callback],
          ⟨runAuth req s.auth, none, dfr, rest.map (·.auth), seen0 ++ [readAll req]⟩,
          SegPath.loopRet _ _ _ (by simp [srLoopPaths]), ?_, ?_⟩
        · simp [runR, stepR]
        · simp [schemeLoopNoBody, hd, hok]
      | true =>
        obtain ⟨u, s', hp, hr, h1, h2, h3, h4⟩ := ih (runAuth req s.auth) dfr (seen0 ++ [readAll req])
        refine ⟨[.dataGuard false, .callback] ++ u, s', SegPath.loopFall _ _ _ _ (by simp [srLoopPaths]) hp, ?_, ?_⟩
        · rw [runR_append]
          simp [runR, stepR]
          exact hr
        · simp [schemeLoopNoBody, hd, hok, h1, h2, h3, h4]

theorem secReq_follows_srSegs (f : Bool) (r : Req) (schemes : List Scheme) :
    ∃ t s', SegPath srSegs t ∧ runR t ⟨r, none, false, schemes.map (·.auth), []⟩ = some s' ∧
      finish s' = (secReq f r schemes).1 ∧ s'.seen = (secReq f r schemes).2.2 := by
  cases he : schemes.isEmpty with
  | true =>
    exact ⟨[], _, SegPath.straightRet _ _ _ (by simp), rfl, by simp [secReq, he, finish]⟩
  | false =>
    cases f with
    | false =>
      refine ⟨[] ++ ([] : List Ev), _, SegPath.straightFall _ _ _ _ (by simp)
        (SegPath.loopExit _ _ _ (SegPath.straightRet _ _ _ (by simp))), rfl, by simp [secReq, he, secReqNE, finish]⟩
    | true =>
      cases hb : r.body with
      | none =>
        obtain ⟨u, s', hp, hr, h1, h2, h3, h4⟩ := srLoop_none schemes r false []
        refine ⟨[] ++ ([.guard false] ++ u), s', SegPath.straightFall _ _ _ _ (by simp)
          (SegPath.loopExit _ _ _ (SegPath.straightFall _ _ _ _ (by simp) hp)), ?_, ?_⟩
        · simp [runR, stepR, hb]
          exact hr
        · simp [secReq, he, secReqNE, hb, finish, h1, h2, h4]
      | some data =>
        obtain ⟨u, s', hp, hr, h1, h2, h3, h4⟩ := srLoop_some data schemes (drain r) true []
        refine ⟨[] ++ ([.guard true, .read, .deferRestore] ++ u), s', SegPath.straightFall _ _ _ _ (by simp)
          (SegPath.loopExit _ _ _ (SegPath.straightFall _ _ _ _ (by simp) hp)), ?_, ?_⟩
        · simp [runR, stepR, hb, readAll]
          exact hr
        · simp [secReq, he, secReqNE, hb, finish, h1, h2, h3, h4]


theorem runK_append (c : Cfg) (oc : Bytes → BodyOutcome) (t u : List Ev) (s : KSt) :
    runK c oc (t ++ u) s = (runK c oc t s).bind (runK c oc u) := by
  induction t generalizing s with
  | nil => simp [runK]
  | cons e t ih =>
    simp only [List.cons_append, runK]
    cases stepK c oc s e with
    | none => simp
    | some s1 => simp [ih]

theorem vsrLoop (c : Cfg) (oc : Bytes → BodyOutcome) : ∀ (reqs : List (List Scheme)) (req : Req) (seen0 : List Bytes),
    ∃ t s', SegPath vsrSegs.tail t ∧ runK c oc t ⟨req, seen0, reqs⟩ = some s' ∧
      s'.req = (secReqs c.hasAuthFunc req reqs).1 ∧ s'.seen = seen0 ++ (secReqs c.hasAuthFunc req reqs).2.2 := by
  intro reqs
  induction reqs with
  | nil =>
    intro req seen0
    exact ⟨[], _, SegPath.loopExit _ _ _ (SegPath.straightRet _ _ _ (by simp)), rfl, by simp [secReqs]⟩
  | cons q rest ih =>
    intro req seen0
    rcases hx : secReq c.hasAuthFunc req q with ⟨r1, b, sn⟩
    cases b with
    | true =>
      refine ⟨[.call "validateSecurityRequirement"], ⟨r1, seen0 ++ sn, rest⟩,
        SegPath.loopRet _ _ _ (by simp), ?_, ?_⟩
      · simp [runK, stepK, hx]
      · simp [secReqs, hx]
    | false =>
      obtain ⟨u, s', hp, hr, h1, h2⟩ := ih r1 (seen0 ++ sn)
      refine ⟨[.call "validateSecurityRequirement"] ++ u, s',
        SegPath.loopCont _ _ _ _ (by simp) hp, ?_, ?_⟩
      · rw [runK_append]
        simp [runK, stepK, hx]
        exact hr
      · simp [secReqs, hx, h1, h2]

theorem secPhase_follows_vsrSegs (c : Cfg) (oc : Bytes → BodyOutcome) (r : Req) (reqs : List (List Scheme)) :
    ∃ t s', SegPath vsrSegs t ∧ runK c oc t ⟨r, [], reqs⟩ = some s' ∧
      s'.req = (secPhase c.hasAuthFunc r reqs).1 ∧ s'.seen = (secPhase c.hasAuthFunc r reqs).2.2 := by
  cases reqs with
  | nil => exact ⟨[], _, SegPath.straightRet _ _ _ (by simp), rfl, by simp [secPhase]⟩
  | cons q rest =>
    obtain ⟨u, s', hp, hr, h1, h2⟩ := vsrLoop c oc (q :: rest) r []
    exact ⟨[] ++ u, s', SegPath.straightFall _ _ _ _ (by simp) hp, by simpa using hr, by simp [secPhase, h1, h2]⟩

theorem validateStream_follows_vrSegs (c : Cfg) (oc : Bytes → BodyOutcome) (r : Req) :
    ∃ t s', SegPath vrSegs t ∧ runK c oc t ⟨r, [], []⟩ = some s' ∧ s'.req = (validateStream c oc r).1 := by
  rcases hx : secPhase c.hasAuthFunc r c.reqs with ⟨r1, secOK, sn⟩
  by_cases h1 : (!secOK && !c.multi) = true
  · refine ⟨[.call "ValidateSecurityRequirements"], ⟨r1, [] ++ sn, []⟩, SegPath.straightRet _ _ _ (by simp), ?_, ?_⟩
    · simp [runK, stepK, hx]
    · simp [validateStream, hx, h1]
  · by_cases h2 : (!c.paramsOK && !c.multi) = true
    · refine ⟨[.call "ValidateSecurityRequirements"] ++ [.call "ValidateParameter"], ⟨r1, [] ++ sn, []⟩,
        SegPath.straightFall _ _ _ _ (by simp) (SegPath.loopRet _ _ _ (by simp)), ?_, ?_⟩
      · simp [runK, stepK, hx]
      · simp [validateStream, hx, h1, h2]
    · cases hb : c.hasBodySpec with
      | true =>
        refine ⟨[.call "ValidateSecurityRequirements"] ++ ([] ++ [.call "ValidateRequestBody"]),
          ⟨(bodyPhase c.required oc r1).1, [] ++ sn, []⟩,
          SegPath.straightFall _ _ _ _ (by simp) (SegPath.loopExit _ _ _ (SegPath.straightFall _ _ _ _ (by simp)
            (SegPath.loopExit _ _ _ (SegPath.straightRet _ _ _ (by simp))))), ?_, ?_⟩
        · simp [runK, stepK, hx]
        · simp [validateStream, hx, h1, h2, hb]
      | false =>
        refine ⟨[.call "ValidateSecurityRequirements"] ++ ([] ++ []), ⟨r1, [] ++ sn, []⟩,
          SegPath.straightFall _ _ _ _ (by simp) (SegPath.loopExit _ _ _ (SegPath.straightFall _ _ _ _ (by simp)
            (SegPath.loopExit _ _ _ (SegPath.straightRet _ _ _ (by simp))))), ?_, ?_⟩
        · simp [runK, stepK, hx]
        · simp [validateStream, hx, h1, h2, hb]

theorem runR_append_some (t u : List Ev) (s s' : RSt) (h : runR (t ++ u) s = some s') :
    ∃ s1, runR t s = some s1 ∧ runR u s1 = some s' := by
  rw [runR_append] at h
  cases h1 : runR t s with
  | none => simp [h1] at h
  | some s1 => exact ⟨s1, rfl, by simpa [h1] using h⟩

theorem srIter_inv (data : Bytes) (t : List Ev) (b : Bool) (hm : (t, b) ∈ srLoopPaths) (s s1 : RSt)
    (hi : InvR data s) (hr : runR t s = some s1) : InvR data s1 := by
  obtain ⟨req, d, dfr, auths, seen⟩ := s
  obtain ⟨h1, h2, h3, h4⟩ := hi
  simp only at h1 h2 h3 h4
  subst h1 h2
  simp only [srLoopPaths, List.mem_cons, Prod.mk.injEq, List.not_mem_nil, or_false] at hm
  rcases hm with ⟨rfl, _⟩ | ⟨rfl, _⟩ | ⟨rfl, _⟩ | ⟨rfl, _⟩ | ⟨rfl, _⟩
  · simp [runR] at hr; subst hr; exact ⟨rfl, rfl, h3, h4⟩
  all_goals
    cases auths with
    | nil => simp [runR, stepR] at hr
    | cons a rest =>
      simp [runR, stepR] at hr
      try (subst hr
           refine ⟨rfl, rfl, runAuth_getOK _ _ _ (restore_getOK _ _ h3), ?_⟩
           intro x hx
           simp only [List.mem_append, List.mem_singleton] at hx
           rcases hx with hx | hx
           · exact h4 x hx
           · subst hx; simp [readAll, restore_body _ _ h3])

theorem srLoopPaths_no_cont : ∀ p ∈ srLoopPaths, Ev.cont ∉ p.1 ∧ Ev.brk ∉ p.1 := by decide

theorem srTail_inv (data : Bytes) : ∀ sg t, SegPath sg t → (sg = srTail ∨ sg = [.straight [([], true)]]) →
    ∀ s s', InvR data s → runR t s = some s' → InvR data s' := by
  intro sg t hp
  induction hp with
  | done => intro h; rcases h with h | h <;> simp [srTail] at h
  | straightRet ps rest t hm =>
    intro h s s' hi hr
    rcases h with h | h
    · simp [srTail] at h
    · simp at h; obtain ⟨rfl, rfl⟩ := h
      simp at hm; subst hm
      simp [runR] at hr; subst hr; exact hi
  | straightFall ps rest t u hm hp ih =>
    intro h
    rcases h with h | h
    · simp [srTail] at h
    · simp at h; obtain ⟨rfl, rfl⟩ := h
      simp at hm
  | loopExit ps rest u hp ih =>
    intro h s s' hi hr
    rcases h with h | h
    · simp [srTail] at h; obtain ⟨rfl, rfl⟩ := h
      exact ih (Or.inr rfl) s s' hi hr
    · simp at h
  | loopFall ps rest t u hm hp ih =>
    intro h s s' hi hr
    rcases h with h | h
    · have h' := h
      simp [srTail] at h'; obtain ⟨rfl, rfl⟩ := h'
      obtain ⟨s1, hr1, hr2⟩ := runR_append_some _ _ _ _ hr
      exact ih (Or.inl rfl) s1 s' (srIter_inv data _ _ hm s s1 hi hr1) hr2
    · simp at h
  | loopRet ps rest t hm =>
    intro h s s' hi hr
    rcases h with h | h
    · simp [srTail] at h; obtain ⟨rfl, rfl⟩ := h
      exact srIter_inv data _ _ hm s s' hi hr
    · simp at h
  | loopCont ps rest t u hm hp ih =>
    intro h
    rcases h with h | h
    · simp [srTail] at h; obtain ⟨rfl, rfl⟩ := h
      exact absurd (List.mem_append_right t (List.mem_singleton.mpr rfl)) (srLoopPaths_no_cont _ hm).1
    · simp at h
  | loopBrk ps rest t u hm hp ih =>
    intro h
    rcases h with h | h
    · simp [srTail] at h; obtain ⟨rfl, rfl⟩ := h
      exact absurd (List.mem_append_right t (List.mem_singleton.mpr rfl)) (srLoopPaths_no_cont _ hm).2
    · simp at h

/-- a loop whose body does nothing: its paths are the paths of what follows -/
theorem emptyLoop_skip (rest : List Seg) : ∀ sg t, SegPath sg t → sg = .loop [([], false)] :: rest → SegPath rest t := by
  intro sg t hp
  induction hp with
  | done => intro h; simp at h
  | straightRet ps rest' t hm => intro h; simp at h
  | straightFall ps rest' t u hm hp ih => intro h; simp at h
  | loopExit ps rest' u hp ih => intro h; simp at h; obtain ⟨rfl, rfl⟩ := h; exact hp
  | loopFall ps rest' t u hm hp ih =>
    intro h; have h' := h; simp at h'; obtain ⟨rfl, rfl⟩ := h'
    simp at hm; subst hm; simpa using ih rfl
  | loopRet ps rest' t hm => intro h; simp at h; obtain ⟨rfl, rfl⟩ := h; simp at hm
  | loopCont ps rest' t u hm hp ih => intro h; simp at h; obtain ⟨rfl, rfl⟩ := h; simp at hm
  | loopBrk ps rest' t u hm hp ih => intro h; simp at h; obtain ⟨rfl, rfl⟩ := h; simp at hm

theorem srSegs_readable (data : Bytes) (r : Req) (h : Coherent r data) (auths : List Auth) (t : List Ev)
    (hp : SegPath srSegs t) (s' : RSt) (hr : runR t ⟨r, none, false, auths, []⟩ = some s') :
    Readable (finish s') data ∧ ∀ x ∈ s'.seen, x = data := by
  have h0 : Readable r data := ⟨by simp [readAll, h.1], h.2⟩
  unfold srSegs at hp
  cases hp with
  | straightRet _ _ _ hm =>
    simp at hm; subst hm
    simp [runR] at hr; subst hr
    exact ⟨by simpa [finish] using h0, by simp⟩
  | straightFall _ _ t1 u hm hp1 =>
    simp at hm; subst hm
    have hp2 := emptyLoop_skip _ _ _ hp1 rfl
    cases hp2 with
    | straightRet _ _ _ hm =>
      simp at hm; subst hm
      simp [runR] at hr; subst hr
      exact ⟨by simpa [finish] using h0, by simp⟩
    | straightFall _ _ t2 u2 hm hp3 =>
      simp at hm
      rcases hm with rfl | rfl
      · simp [runR, stepR, h.1, readAll] at hr
        have hi : InvR data ⟨drain r, some data, true, auths, []⟩ := ⟨rfl, rfl, drain_getOK _ _ h.2, by simp⟩
        obtain ⟨e1, e2, e3, e4⟩ := srTail_inv data _ _ hp3 (Or.inl rfl) _ _ hi hr
        refine ⟨?_, e4⟩
        simp [finish, e1, e2]
        exact ⟨by simp [readAll, restore_body _ _ e3], restore_getOK _ _ e3⟩
      · simp [runR, stepR, h.1] at hr


theorem runK_append_some (c : Cfg) (oc : Bytes → BodyOutcome) (t u : List Ev) (s s' : KSt)
    (h : runK c oc (t ++ u) s = some s') : ∃ s1, runK c oc t s = some s1 ∧ runK c oc u s1 = some s' := by
  rw [runK_append] at h
  cases h1 : runK c oc t s with
  | none => simp [h1] at h
  | some s1 => exact ⟨s1, rfl, by simpa [h1] using h⟩

/-- the suffixes of `vrSegs` at which a path of ValidateRequest can stand -/
def vrSuffixes : List (List Seg) := [vrSegs, vrSegs.tail, vrSegs.tail.tail, vrSegs.tail.tail.tail, vrSegs.tail.tail.tail.tail]

theorem vrSegs_readable (c : Cfg) (oc : Bytes → BodyOutcome) (data : Bytes) : ∀ sg t, SegPath sg t → sg ∈ vrSuffixes →
    ∀ s s', Coherent s.req data → runK c oc t s = some s' →
      Coherent s'.req data ∨ Coherent s'.req (bodyExpected oc data) := by
  intro sg t hp
  induction hp with
  | done => intro h; simp [vrSuffixes, vrSegs] at h
  | straightRet ps rest t hm =>
    intro h s s' hi hr
    simp [vrSuffixes, vrSegs] at h
    rcases h with ⟨rfl, rfl⟩ | ⟨rfl, rfl⟩ | ⟨rfl, rfl⟩
    · simp at hm; subst hm
      simp [runK, stepK] at hr; subst hr
      exact Or.inl (secPhase_coherent _ _ _ _ hi).1
    · simp at hm
    · simp at hm
      rcases hm with rfl | rfl
      · simp [runK, stepK] at hr; subst hr
        obtain ⟨b1, b2, _⟩ := bodyPhase_readable c.required oc s.req data hi
        exact Or.inr ⟨b1, b2⟩
      · simp [runK] at hr; subst hr; exact Or.inl hi
  | straightFall ps rest t u hm hp ih =>
    intro h s s' hi hr
    simp [vrSuffixes, vrSegs] at h
    rcases h with ⟨rfl, rfl⟩ | ⟨rfl, rfl⟩ | ⟨rfl, rfl⟩
    · simp at hm
      obtain ⟨s1, hr1, hr2⟩ := runK_append_some _ _ _ _ _ _ hr
      rcases hm with rfl | rfl
      · simp [runK, stepK] at hr1; subst hr1
        exact ih (by simp [vrSuffixes, vrSegs]) _ s' (secPhase_coherent _ _ _ _ hi).1 hr2
      · simp [runK] at hr1; subst hr1
        exact ih (by simp [vrSuffixes, vrSegs]) _ s' hi hr2
    · simp at hm; subst hm
      exact ih (by simp [vrSuffixes, vrSegs]) s s' hi (by simpa using hr)
    · simp at hm
  | loopExit ps rest u hp ih =>
    intro h s s' hi hr
    simp [vrSuffixes, vrSegs] at h
    rcases h with ⟨rfl, rfl⟩ | ⟨rfl, rfl⟩
    · exact ih (by simp [vrSuffixes, vrSegs]) s s' hi hr
    · exact ih (by simp [vrSuffixes, vrSegs]) s s' hi hr
  | loopFall ps rest t u hm hp ih =>
    intro h s s' hi hr
    have h' := h
    simp [vrSuffixes, vrSegs] at h'
    obtain ⟨s1, hr1, hr2⟩ := runK_append_some _ _ _ _ _ _ hr
    rcases h' with ⟨rfl, rfl⟩ | ⟨rfl, rfl⟩
    · simp at hm; subst hm
      simp [runK, stepK] at hr1; subst hr1
      exact ih h _ s' hi hr2
    · simp at hm; subst hm
      simp [runK, stepK] at hr1; subst hr1
      exact ih h _ s' hi hr2
  | loopRet ps rest t hm =>
    intro h s s' hi hr
    simp [vrSuffixes, vrSegs] at h
    rcases h with ⟨rfl, rfl⟩ | ⟨rfl, rfl⟩
    · simp at hm
      rcases hm with rfl | rfl
      · simp [runK, stepK] at hr
      · simp [runK, stepK] at hr; subst hr; exact Or.inl hi
    · simp at hm
      rcases hm with rfl | rfl
      · simp [runK, stepK] at hr
      · simp [runK, stepK] at hr; subst hr; exact Or.inl hi
  | loopCont ps rest t u hm hp ih =>
    intro h s s' hi hr
    have h' := h
    simp [vrSuffixes, vrSegs] at h'
    rcases h' with ⟨rfl, rfl⟩ | ⟨rfl, rfl⟩
    · cases t with
      | nil => exact ih h s s' hi (by simpa using hr)
      | cons x xs => simp at hm
    · cases t with
      | nil => exact ih h s s' hi (by simpa using hr)
      | cons x xs => simp at hm
  | loopBrk ps rest t u hm hp ih =>
    intro h s s' hi hr
    simp [vrSuffixes, vrSegs] at h
    rcases h with ⟨rfl, rfl⟩ | ⟨rfl, rfl⟩
    · cases t with
      | nil => simp at hm
      | cons x xs => simp at hm
    · cases t with
      | nil => simp at hm
      | cons x xs => simp at hm


def vsrSuffixes : List (List Seg) := [vsrSegs, vsrSegs.tail, vsrSegs.tail.tail]

/-- invariant of ValidateSecurityRequirements for a request with body `data` -/
def InvK (data : Bytes) (s : KSt) : Prop := Coherent s.req data ∧ ∀ x ∈ s.seen, x = data

theorem stepK_vsr_inv (c : Cfg) (oc : Bytes → BodyOutcome) (data : Bytes) (s s1 : KSt) (hi : InvK data s)
    (hr : runK c oc [.call "validateSecurityRequirement"] s = some s1) : InvK data s1 := by
  obtain ⟨req, seen, pend⟩ := s
  cases pend with
  | nil => simp [runK, stepK] at hr
  | cons q rest =>
    simp [runK, stepK] at hr; subst hr
    obtain ⟨i1, _, i3⟩ := secReq_coherent c.hasAuthFunc req q data hi.1
    refine ⟨i1, ?_⟩
    intro x hx
    simp only [List.mem_append] at hx
    rcases hx with hx | hx
    · exact hi.2 x hx
    · exact i3 x hx

theorem vsrSegs_readable (c : Cfg) (oc : Bytes → BodyOutcome) (data : Bytes) : ∀ sg t, SegPath sg t → sg ∈ vsrSuffixes →
    ∀ s s', InvK data s → runK c oc t s = some s' → InvK data s' := by
  intro sg t hp
  induction hp with
  | done => intro h; simp [vsrSuffixes, vsrSegs] at h
  | straightRet ps rest t hm =>
    intro h s s' hi hr
    simp [vsrSuffixes, vsrSegs] at h
    rcases h with ⟨rfl, rfl⟩ | ⟨rfl, rfl⟩
    · simp at hm; subst hm; simp [runK] at hr; subst hr; exact hi
    · simp at hm; subst hm; simp [runK] at hr; subst hr; exact hi
  | straightFall ps rest t u hm hp ih =>
    intro h s s' hi hr
    simp [vsrSuffixes, vsrSegs] at h
    rcases h with ⟨rfl, rfl⟩ | ⟨rfl, rfl⟩
    · simp at hm; subst hm
      exact ih (by simp [vsrSuffixes, vsrSegs]) s s' hi (by simpa using hr)
    · simp at hm
  | loopExit ps rest u hp ih =>
    intro h s s' hi hr
    simp [vsrSuffixes, vsrSegs] at h
    obtain ⟨rfl, rfl⟩ := h
    exact ih (by simp [vsrSuffixes, vsrSegs]) s s' hi hr
  | loopFall ps rest t u hm hp ih =>
    intro h
    simp [vsrSuffixes, vsrSegs] at h
    obtain ⟨rfl, rfl⟩ := h
    simp at hm
  | loopRet ps rest t hm =>
    intro h s s' hi hr
    simp [vsrSuffixes, vsrSegs] at h
    obtain ⟨rfl, rfl⟩ := h
    simp at hm
    rcases hm with rfl | rfl
    · simp [runK, stepK] at hr
    · exact stepK_vsr_inv c oc data s s' hi hr
  | loopCont ps rest t u hm hp ih =>
    intro h s s' hi hr
    have h' := h
    simp [vsrSuffixes, vsrSegs] at h'
    obtain ⟨rfl, rfl⟩ := h'
    obtain ⟨s1, hr1, hr2⟩ := runK_append_some _ _ _ _ _ _ hr
    cases t with
    | nil => simp at hm
    | cons x xs =>
      cases xs with
      | nil =>
        simp at hm; subst hm
        exact ih h s1 s' (stepK_vsr_inv c oc data s s1 hi hr1) hr2
      | cons y ys => simp at hm
  | loopBrk ps rest t u hm hp ih =>
    intro h
    simp [vsrSuffixes, vsrSegs] at h
    obtain ⟨rfl, rfl⟩ := h
    cases t with
    | nil => simp at hm
    | cons x xs =>
      cases xs with
      | nil => simp at hm
      | cons y ys => simp at hm

end KinModel.C13.Trace
