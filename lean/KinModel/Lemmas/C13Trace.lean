/-
C13, part 6 — helper lemmas for the event traces (KinModel/C13Trace.lean): the concrete run distributes over `++`;
the scheme loops of the stream model (`schemeLoop`, `schemeLoopNoBody`) are iterations of the loop-body paths
`srLoopPaths`; `secReq` is a complete path of the segment list `srSegs` (Props/C13.lean: `srSegs` is what the
regenerated table gives for validateSecurityRequirement); likewise `secPhase` over `vsrSegs` and `validateStream` over
`vrSegs`, where the events are calls executed by the stream model of the called function.
-/
import KinModel.C13Trace
namespace KinModel.C13.Trace
open KinModel.Gen KinModel.C13.Stream

theorem runR_append (t u : List Ev) (s : RSt) : runR (t ++ u) s = (runR t s).bind (runR u) := by
  induction t generalizing s with
  | nil => simp [runR]
  | cons e t ih =>
    simp only [List.cons_append, runR]
    cases stepR s e with
    | none => simp
    | some s1 => simp [ih]

theorem srLoop_some (data : Bytes) : ∀ (schemes : List Scheme) (req : Req) (dfr : Bool) (seen0 : List Bytes),
    ∃ t s', SegPath srTail t ∧ runR t ⟨req, some data, dfr, schemes.map (·.auth), seen0⟩ = some s' ∧
      s'.req = (schemeLoop data req schemes).1 ∧ s'.seen = seen0 ++ (schemeLoop data req schemes).2.2 ∧
      s'.data = some data ∧ s'.deferred = dfr := by
  intro schemes
  induction schemes with
  | nil =>
    intro req dfr seen0
    exact ⟨[], _, SegPath.loopExit _ _ _ (SegPath.straightRet _ _ _ (by simp)), rfl, by simp [schemeLoop]⟩
  | cons s rest ih =>
    intro req dfr seen0
    cases hd : s.declared with
    | false =>
      exact ⟨[], _, SegPath.loopRet _ _ _ (by simp [srLoopPaths]), rfl, by simp [schemeLoop, hd]⟩
    | true =>
      cases hok : s.auth.ok with
      | false =>
        refine ⟨[.dataGuard true, .restore, .callback],
          ⟨runAuth (restore req data) s.auth, some data, dfr, rest.map (·.auth), seen0 ++ [readAll (restore req data)]⟩,
          SegPath.loopRet _ _ _ (by simp [srLoopPaths]), ?_, ?_⟩
        · simp [runR, stepR]
        · simp [schemeLoop, hd, hok]
      | true =>
        obtain ⟨u, s', hp, hr, h1, h2, h3, h4⟩ :=
          ih (runAuth (restore req data) s.auth) dfr (seen0 ++ [readAll (restore req data)])
        refine ⟨[.dataGuard true, .restore, .callback] ++ u, s', SegPath.loopFall _ _ _ _ (by simp [srLoopPaths]) hp, ?_, ?_⟩
        · rw [runR_append]
          simp [runR, stepR]
          exact hr
        · simp [schemeLoop, hd, hok, h1, h2, h3, h4]

theorem srLoop_none : ∀ (schemes : List Scheme) (req : Req) (dfr : Bool) (seen0 : List Bytes),
    ∃ t s', SegPath srTail t ∧ runR t ⟨req, none, dfr, schemes.map (·.auth), seen0⟩ = some s' ∧
      s'.req = (schemeLoopNoBody req schemes).1 ∧ s'.seen = seen0 ++ (schemeLoopNoBody req schemes).2.2 ∧
      s'.data = none ∧ s'.deferred = dfr := by
  intro schemes
  induction schemes with
  | nil =>
    intro req dfr seen0
    exact ⟨[], _, SegPath.loopExit _ _ _ (SegPath.straightRet _ _ _ (by simp)), rfl, by simp [schemeLoopNoBody]⟩
  | cons s rest ih =>
    intro req dfr seen0
    cases hd : s.declared with
    | false =>
      exact ⟨[], _, SegPath.loopRet _ _ _ (by simp [srLoopPaths]), rfl, by simp [schemeLoopNoBody, hd]⟩
    | true =>
      cases hok : s.auth.ok with
      | false =>
        refine ⟨[.dataGuard false, .callback],
          ⟨runAuth req s.auth, none, dfr, rest.map (·.auth), seen0 ++ [readAll req]⟩,
          SegPath.loopRet _ _ _ (by simp [srLoopPaths]), ?_, ?_⟩
        · simp [runR, stepR]
        · simp [schemeLoopNoBody, hd, hok]
      | true =>
        obtain ⟨u, s', hp, hr, h1, h2, h3, h4⟩ := ih (runAuth req s.auth) dfr (seen0 ++ [readAll req])
        refine ⟨[.dataGuard false, .callback] ++ u, s', SegPath.loopFall _ _ _ _ (by simp [srLoopPaths]) hp, ?_, ?_⟩
        · rw [runR_append]
          simp [runR, stepR]
          exact hr
        · simp [schemeLoopNoBody, hd, hok, h1, h2, h3, h4]

theorem secReq_follows_srSegs (f : Bool) (r : Req) (schemes : List Scheme) :
    ∃ t s', SegPath srSegs t ∧ runR t ⟨r, none, false, schemes.map (·.auth), []⟩ = some s' ∧
      finish s' = (secReq f r schemes).1 ∧ s'.seen = (secReq f r schemes).2.2 := by
  cases he : schemes.isEmpty with
  | true =>
    exact ⟨[], _, SegPath.straightRet _ _ _ (by simp), rfl, by simp [secReq, he, finish]⟩
  | false =>
    cases f with
    | false =>
      refine ⟨[] ++ ([] : List Ev), _, SegPath.straightFall _ _ _ _ (by simp)
        (SegPath.loopExit _ _ _ (SegPath.straightRet _ _ _ (by simp))), rfl, by simp [secReq, he, secReqNE, finish]⟩
    | true =>
      cases hb : r.body with
      | none =>
        obtain ⟨u, s', hp, hr, h1, h2, h3, h4⟩ := srLoop_none schemes r false []
        refine ⟨[] ++ ([.guard false] ++ u), s', SegPath.straightFall _ _ _ _ (by simp)
          (SegPath.loopExit _ _ _ (SegPath.straightFall _ _ _ _ (by simp) hp)), ?_, ?_⟩
        · simp [runR, stepR, hb]
          exact hr
        · simp [secReq, he, secReqNE, hb, finish, h1, h2, h4]
      | some data =>
        obtain ⟨u, s', hp, hr, h1, h2, h3, h4⟩ := srLoop_some data schemes (drain r) true []
        refine ⟨[] ++ ([.guard true, .read, .deferRestore] ++ u), s', SegPath.straightFall _ _ _ _ (by simp)
          (SegPath.loopExit _ _ _ (SegPath.straightFall _ _ _ _ (by simp) hp)), ?_, ?_⟩
        · simp [runR, stepR, hb, readAll]
          exact hr
        · simp [secReq, he, secReqNE, hb, finish, h1, h2, h3, h4]


theorem runK_append (c : Cfg) (oc : Bytes → BodyOutcome) (t u : List Ev) (s : KSt) :
    runK c oc (t ++ u) s = (runK c oc t s).bind (runK c oc u) := by
  induction t generalizing s with
  | nil => simp [runK]
  | cons e t ih =>
    simp only [List.cons_append, runK]
    cases stepK c oc s e with
    | none => simp
    | some s1 => simp [ih]

theorem vsrLoop (c : Cfg) (oc : Bytes → BodyOutcome) : ∀ (reqs : List (List Scheme)) (req : Req) (seen0 : List Bytes),
    ∃ t s', SegPath vsrSegs.tail t ∧ runK c oc t ⟨req, seen0, reqs⟩ = some s' ∧
      s'.req = (secReqs c.hasAuthFunc req reqs).1 ∧ s'.seen = seen0 ++ (secReqs c.hasAuthFunc req reqs).2.2 := by
  intro reqs
  induction reqs with
  | nil =>
    intro req seen0
    exact ⟨[], _, SegPath.loopExit _ _ _ (SegPath.straightRet _ _ _ (by simp)), rfl, by simp [secReqs]⟩
  | cons q rest ih =>
    intro req seen0
    rcases hx : secReq c.hasAuthFunc req q with ⟨r1, b, sn⟩
    cases b with
    | true =>
      refine ⟨[.call "validateSecurityRequirement"], ⟨r1, seen0 ++ sn, rest⟩,
        SegPath.loopRet _ _ _ (by simp), ?_, ?_⟩
      · simp [runK, stepK, hx]
      · simp [secReqs, hx]
    | false =>
      obtain ⟨u, s', hp, hr, h1, h2⟩ := ih r1 (seen0 ++ sn)
      refine ⟨[.call "validateSecurityRequirement"] ++ u, s',
        SegPath.loopCont _ _ _ _ (by simp) hp, ?_, ?_⟩
      · rw [runK_append]
        simp [runK, stepK, hx]
        exact hr
      · simp [secReqs, hx, h1, h2]

theorem secPhase_follows_vsrSegs (c : Cfg) (oc : Bytes → BodyOutcome) (r : Req) (reqs : List (List Scheme)) :
    ∃ t s', SegPath vsrSegs t ∧ runK c oc t ⟨r, [], reqs⟩ = some s' ∧
      s'.req = (secPhase c.hasAuthFunc r reqs).1 ∧ s'.seen = (secPhase c.hasAuthFunc r reqs).2.2 := by
  cases reqs with
  | nil => exact ⟨[], _, SegPath.straightRet _ _ _ (by simp), rfl, by simp [secPhase]⟩
  | cons q rest =>
    obtain ⟨u, s', hp, hr, h1, h2⟩ := vsrLoop c oc (q :: rest) r []
    exact ⟨[] ++ u, s', SegPath.straightFall _ _ _ _ (by simp) hp, by simpa using hr, by simp [secPhase, h1, h2]⟩

theorem validateStream_follows_vrSegs (c : Cfg) (oc : Bytes → BodyOutcome) (r : Req) :
    ∃ t s', SegPath vrSegs t ∧ runK c oc t ⟨r, [], []⟩ = some s' ∧ s'.req = (validateStream c oc r).1 := by
  rcases hx : secPhase c.hasAuthFunc r c.reqs with ⟨r1, secOK, sn⟩
  by_cases h1 : (!secOK && !c.multi) = true
  · refine ⟨[.call "ValidateSecurityRequirements"], ⟨r1, [] ++ sn, []⟩, SegPath.straightRet _ _ _ (by simp), ?_, ?_⟩
    · simp [runK, stepK, hx]
    · simp [validateStream, hx, h1]
  · by_cases h2 : (!c.paramsOK && !c.multi) = true
    · refine ⟨[.call "ValidateSecurityRequirements"] ++ [.call "ValidateParameter"], ⟨r1, [] ++ sn, []⟩,
        SegPath.straightFall _ _ _ _ (by simp) (SegPath.loopRet _ _ _ (by simp)), ?_, ?_⟩
      · simp [runK, stepK, hx]
      · simp [validateStream, hx, h1, h2]
    · cases hb : c.hasBodySpec with
      | true =>
        refine ⟨[.call "ValidateSecurityRequirements"] ++ ([] ++ [.call "ValidateRequestBody"]),
          ⟨(bodyPhase c.required oc r1).1, [] ++ sn, []⟩,
          SegPath.straightFall _ _ _ _ (by simp) (SegPath.loopExit _ _ _ (SegPath.straightFall _ _ _ _ (by simp)
            (SegPath.loopExit _ _ _ (SegPath.straightRet _ _ _ (by simp))))), ?_, ?_⟩
        · simp [runK, stepK, hx]
        · simp [validateStream, hx, h1, h2, hb]
      | false =>
        refine ⟨[.call "ValidateSecurityRequirements"] ++ ([] ++ []), ⟨r1, [] ++ sn, []⟩,
          SegPath.straightFall _ _ _ _ (by simp) (SegPath.loopExit _ _ _ (SegPath.straightFall _ _ _ _ (by simp)
            (SegPath.loopExit _ _ _ (SegPath.straightRet _ _ _ (by simp))))), ?_, ?_⟩
        · simp [runK, stepK, hx]
        · simp [validateStream, hx, h1, h2, hb]

end KinModel.C13.Trace
