/-
Helper lemmas for C09, gorillamux model against the spec for absolute servers without variables (scheme://host[/base]).
-/
import KinModel.Lemmas.C09Refine
import KinModel.Lemmas.C09LegacyComplete
namespace KinModel.Router

/-- `scheme://host` followed by an optional base path, no variables -/
def AbsPlain (s : Server) (scheme host path : Str) : Prop :=
  s.url = scheme ++ (':' :: '/' :: '/' :: host) ++ path ∧ ':' ∉ scheme ∧ '/' ∉ scheme ∧ '{' ∉ s.url ∧ '}' ∉ s.url ∧
    host ≠ [] ∧ '/' ∉ host ∧ (path = [] ∨ path.head? = some '/') ∧ s.vars = []

theorem isPrefix_append : ∀ (p t : Str), isPrefix p (p ++ t) = true
  | [], _ => rfl
  | c :: cs, t => by simp [isPrefix, isPrefix_append cs t]

theorem indexOfStr_at (c : Char) (pat : Str) : ∀ (a tail : Str), c ∉ a →
    indexOfStr (c :: pat) (a ++ (c :: pat) ++ tail) = some a.length
  | [], tail, _ => by
    have := isPrefix_append (c :: pat) tail
    simp only [List.nil_append, List.cons_append] at this ⊢
    simp [indexOfStr, this]
  | d :: ds, tail, h => by
    simp only [List.mem_cons, not_or] at h
    have hne : ¬ (c = d) := h.1
    have hp : isPrefix (c :: pat) (d :: (ds ++ (c :: pat) ++ tail)) = false := by simp [isPrefix, hne]
    have ih := indexOfStr_at c pat ds tail h.2
    simp only [List.cons_append, List.append_assoc] at ih ⊢
    simp [indexOfStr, isPrefix, hne, ih]

theorem isSingleVar_none {u : Str} (h : '{' ∉ u) : isSingleVar u = none := by
  unfold isSingleVar
  split
  · rename_i rest; simp at h
  · rfl

theorem gMakeServer_absPlain (ref : SrvRef) (s : Server) (scheme host path : Str) (h : AbsPlain s scheme host path) :
    gMakeServer ref s = some ⟨[scheme], host, dropOneSlash path, none, ref⟩ := by
  obtain ⟨hu, hsc, _, hb1, _, _, hh2, hp, hv⟩ := h
  have e1 : isSingleVar s.url = none := isSingleVar_none hb1
  have e2 : indexOfStr ":{".toList s.url = none := indexOfStr_none (c := '{') (by decide) s.url hb1
  have e3 : indexOfStr "://".toList s.url = some scheme.length := by
    rw [hu]
    have := indexOfStr_at ':' ['/', '/'] scheme (host ++ path) hsc
    simpa using this
  have e4 : s.url.take scheme.length = scheme := by rw [hu]; simp
  have e5 : s.url.drop (scheme.length + 3) = host ++ path := by
    rw [hu]
    have : scheme ++ (':' :: '/' :: '/' :: host) ++ path = scheme ++ (':' :: '/' :: '/' :: (host ++ path)) := by simp
    rw [this, List.drop_append]
    simp
  have e6 : permuteScheme scheme s = some [scheme] := by simp [permuteScheme, hv]
  have e7 : takeSeg (host ++ path) = (host, path) := takeSeg_of_reads hh2 hp
  simp only [gMakeServer, e1, e2, newSrv, e3, e4, e5, e6, e7, dropOneSlash]

theorem takeWhile_id {l : Str} (h : ':' ∉ l) : l.takeWhile (· ≠ ':') = l := by
  induction l with
  | nil => rfl
  | cons c cs ih =>
    simp only [List.mem_cons, not_or] at h
    have : c ≠ ':' := fun e => h.1 e.symm
    have ih' := ih h.2
    simp only [ne_eq, decide_not] at ih' ⊢
    simp [List.takeWhile, this, ih']

theorem gparseS_all_lits (u : Str) (h1 : '{' ∉ u) (h2 : '}' ∉ u) : gparseS u = some (u.map GTok.lit) := by
  have := gparseS_lits u [] h1 h2
  simpa [gparseS, gparse] using this

theorem gsubst_all_lits : ∀ (u : Str) (hb : List (Str × Str)) (x : Str), gsubst (u.map GTok.lit) hb = some x → hb = [] ∧ x = u
  | [], [], x, h => by simp [gsubst] at h; exact ⟨rfl, h⟩
  | [], _ :: _, _, h => by simp [gsubst] at h
  | c :: cs, hb, x, h => by
    simp only [List.map_cons, gsubst, Option.map_eq_some_iff] at h
    obtain ⟨x', hx', rfl⟩ := h
    obtain ⟨i1, i2⟩ := gsubst_all_lits cs hb x' hx'
    exact ⟨i1, by rw [i2]⟩

theorem dropOneSlash_append_ne (a p : Str) (hp : p ≠ []) : dropOneSlash (a ++ p) = a ++ dropOneSlash p := by
  unfold dropOneSlash
  rw [getLast?_append_of_ne_nil a hp]
  split
  · rw [List.dropLast_append_of_ne_nil hp]
  · rfl

/-- the server URL minus one trailing slash, split into scheme://host and the base path -/
theorem absPlain_url' {s : Server} {scheme host path : Str} (h : AbsPlain s scheme host path) :
    dropOneSlash s.url = scheme ++ (':' :: '/' :: '/' :: host) ++ dropOneSlash path := by
  obtain ⟨hu, _, _, _, _, hh1, hh2, hp, _⟩ := h
  rw [hu]
  by_cases hpn : path = []
  · subst hpn
    have : (scheme ++ (':' :: '/' :: '/' :: host) ++ []).getLast? ≠ some '/' := by
      rw [List.append_nil]
      have e : scheme ++ (':' :: '/' :: '/' :: host) = (scheme ++ [':', '/', '/']) ++ host := by simp
      rw [e, getLast?_append_of_ne_nil _ hh1]
      intro hl
      have := List.mem_of_getLast? hl
      exact hh2 this
    simp only [dropOneSlash, this, if_false]
    simp
  · exact dropOneSlash_append_ne _ _ hpn

theorem specServerRems_abs (e : Bool) (s : Server) (scheme host path : Str) (h : AbsPlain s scheme host path) (r : Req) (rem : Str)
    (hp : fullURL r = dropOneSlash s.url ++ rem) (hb : rem = [] ∨ rem.head? = some '/') : rem ∈ specServerRems e s r := by
  have hnb : '{' ∉ dropOneSlash s.url := fun hm => h.2.2.2.1 (mem_dropOneSlash hm)
  have htoks : sparseS (dropOneSlash s.url) = (dropOneSlash s.url).map STok.lit := sparse_lits _ _ (by omega) hnb
  have hrel : isRelativeURL (dropOneSlash s.url) = false := by
    rw [absPlain_url' h]
    unfold isRelativeURL
    cases hsc : scheme with
    | nil => simp
    | cons c cs =>
      have : c ≠ '/' := by
        intro e'
        apply h.2.2.1
        rw [hsc, e']; simp
      simp [this]
  simp only [specServerRems, List.mem_filterMap]
  refine ⟨([], rem), ?_, ?_⟩
  · rw [hrel, htoks]
    simp only [Bool.false_eq_true, if_false]
    exact (smatchP_iff _ _ _ _).2 ⟨by simp, dropOneSlash s.url, ssubst_lits _, hp⟩
  · have hcond : (rem = [] || rem.head? = some '/') = true := by
      rcases hb with h' | h'
      · simp [h']
      · simp [h']
    simp only [htoks, svarNames_lits, enumOK, List.zip_nil_right, List.all_nil, Bool.or_true, Bool.and_true]
    simp [hcond]

theorem cand_under_abs (e : Bool) (d : Doc) (req : Req) (pd : PathDecl) (ref : SrvRef) (s : Server) (scheme host path : Str)
    (hx : (ref, s) ∈ effServers d pd) (hs : AbsPlain s scheme host path) (ht : pd.template.head? = some '/')
    (hport : ':' ∈ host ∨ ':' ∉ req.host) (b : List (Str × Str))
    (hrep : Reproduces ⟨[scheme], host, dropOneSlash path, none, ref⟩ pd.template req b) :
    (⟨pd.template, b, pd.methods.contains req.method, ref⟩ : Cand) ∈ specCandsPath e d req pd := by
  obtain ⟨hu, _, _, hb1, hb2, hh1, _, _, _⟩ := hs
  have hsub : ∀ c, c ∈ host ∨ c ∈ path → c ∈ s.url := by
    intro c hc
    rw [hu]
    simp only [List.mem_append, List.mem_cons]
    rcases hc with hc | hc
    · exact Or.inl (Or.inr (Or.inr (Or.inr (Or.inr hc))))
    · exact Or.inr hc
  obtain ⟨ptoks, pb, hb, h1, h2, h3, h4, h5, h6⟩ := hrep
  -- scheme
  have hscheme : req.scheme = scheme := by
    rcases h4 with h4 | h4
    · simp at h4
    · simpa using h4
  -- host
  have hhost : hb = [] ∧ req.host = host := by
    rcases h5 with ⟨h5, _⟩ | ⟨htoks, k1, k2, _⟩
    · exact absurd h5 hh1
    · simp only at k1 k2
      rw [gparseS_all_lits host (fun hm => hb1 (hsub _ (Or.inl hm))) (fun hm => hb2 (hsub _ (Or.inl hm)))] at k1
      simp only [Option.some.injEq] at k1
      subst k1
      obtain ⟨i1, i2⟩ := gsubst_all_lits _ _ _ k2
      refine ⟨i1, ?_⟩
      rcases hport with hp | hp
      · simpa [hp] using i2
      · by_cases hc : ':' ∈ host
        · simpa [hc] using i2
        · simp only [hc, if_false] at i2
          rw [takeWhile_id hp] at i2
          exact i2
  obtain ⟨hbn, hreqhost⟩ := hhost
  subst hbn
  simp only [List.nil_append] at h6
  subst h6
  -- path
  have hnb1 : '{' ∉ dropOneSlash path := fun hm => hb1 (hsub _ (Or.inr (mem_dropOneSlash hm)))
  have hnb2 : '}' ∉ dropOneSlash path := fun hm => hb2 (hsub _ (Or.inr (mem_dropOneSlash hm)))
  simp only at h1
  rw [gparseS_lits _ _ hnb1 hnb2] at h1
  simp only [Option.map_eq_some_iff] at h1
  obtain ⟨tt, htt, rfl⟩ := h1
  rw [gsubst_lits] at h2
  simp only [Option.map_eq_some_iff] at h2
  obtain ⟨rest, hrest, hpath⟩ := h2
  obtain ⟨ts, rfl⟩ := gparseS_head htt ht
  have hhead := gsubst_head hrest
  have hs' : AbsPlain s scheme host path := ⟨hu, ‹_›, ‹_›, hb1, hb2, hh1, ‹_›, ‹_›, ‹_›⟩
  have hfull : fullURL req = dropOneSlash s.url ++ rest := by
    rw [absPlain_url' hs']
    unfold fullURL
    rw [hscheme, hreqhost, ← hpath]
    simp
  exact mem_effServers_ne hx e req _ rest (specServerRems_abs e s scheme host path hs' req rest hfull (Or.inr hhead))
    (cand_of_fill req.method rest ref pd _ b htt hrest h3)

/-- a declared server of the class: a plain relative path, or scheme://host[/base] without variables -/
def SrvClass (s : Server) : Prop := PlainRel s ∨ ∃ scheme host path, AbsPlain s scheme host path

def AbsDoc (d : Doc) : Prop :=
  (∀ s ∈ d.servers, SrvClass s) ∧ ∀ p ∈ d.paths, (∀ s ∈ p.servers, SrvClass s) ∧ p.template.head? = some '/'

/-- the request names a port only if the server does (mux ignores the request's port when the host template has none) -/
def PortOK (d : Doc) (req : Req) : Prop :=
  ∀ s scheme host path, (s ∈ d.servers ∨ ∃ p ∈ d.paths, s ∈ p.servers) → AbsPlain s scheme host path → ':' ∈ host ∨ ':' ∉ req.host

theorem cand_of_match_abs (e : Bool) (d : Doc) (hd : AbsDoc d) (req : Req) (hport : PortOK d req) (pd : PathDecl) (hpd : pd ∈ d.paths)
    (g : GSrv) (hg : EffSrv d pd g) (b : List (Str × Str)) (hrep : Reproduces g pd.template req b) :
    (⟨pd.template, b, pd.methods.contains req.method, g.ref⟩ : Cand) ∈ specCandsPath e d req pd ∧ g.upd = none := by
  have ht := (hd.2 pd hpd).2
  have core : ∀ (mk : Nat → SrvRef) (l : List Server) (i : Nat) (s : Server), l[i]? = some s → SrvClass s →
      (s ∈ d.servers ∨ ∃ p ∈ d.paths, s ∈ p.servers) → (mk i, s) ∈ effServers d pd → gMakeServer (mk i) s = some g →
      (⟨pd.template, b, pd.methods.contains req.method, g.ref⟩ : Cand) ∈ specCandsPath e d req pd ∧ g.upd = none := by
    intro mk l i s _ hcls hwhere hx hmk
    rcases hcls with hs | ⟨scheme, host, path, hs⟩
    · rw [gMakeServer_plainRel _ s hs] at hmk
      simp only [Option.some.injEq] at hmk
      subst hmk
      exact ⟨cand_under_plain e d req pd (mk i) s hx hs ht b hrep, rfl⟩
    · rw [gMakeServer_absPlain _ s scheme host path hs] at hmk
      simp only [Option.some.injEq] at hmk
      subst hmk
      exact ⟨cand_under_abs e d req pd (mk i) s scheme host path hx hs ht (hport s scheme host path hwhere hs) b hrep, rfl⟩
  unfold EffSrv at hg
  split at hg
  · rename_i hps
    rcases hg with ⟨hds, rfl⟩ | ⟨i, s, hi, hmk⟩
    · obtain ⟨ptoks, pb, hb, h1, h2, h3, _, h5, h6⟩ := hrep
      have hbn : hb = [] := hb_nil_of_no_host rfl h5
      subst hbn
      simp only [List.nil_append] at h6
      subst h6
      simp only [noSrv, List.nil_append] at h1
      have heff : effServers d pd = [] := by simp [effServers, hps, hds, tagFrom]
      refine ⟨?_, rfl⟩
      unfold specCandsPath
      rw [heff]
      exact cand_of_fill req.method req.path SrvRef.none pd ptoks b h1 h2 h3
    · have hmem := getElem?_mem' hi
      refine core SrvRef.doc d.servers i s hi (hd.1 s hmem) (Or.inl hmem) ?_ hmk
      have := tagFrom_get (mk := SrvRef.doc) (j := 0) hi
      simpa [effServers, hps] using this
  · rename_i hps
    rcases hg with ⟨h0, _⟩ | ⟨i, s, hi, hmk⟩
    · exact absurd h0 hps
    · have hmem := getElem?_mem' hi
      refine core (SrvRef.path pd.template) pd.servers i s hi ((hd.2 pd hpd).1 s hmem) (Or.inr ⟨pd, hpd, hmem⟩) ?_ hmk
      have := tagFrom_get (mk := SrvRef.path pd.template) (j := 0) hi
      simpa [effServers, hps] using this

/-! ### spec → model for the class -/

theorem cand_path_match (req : Req) (pd : PathDecl) (c : Cand) (rem : Str) (ref : SrvRef) (g : GSrv)
    (hb1 : '{' ∉ g.base) (hb2 : '}' ∉ g.base) (hpath : req.path = g.base ++ rem) (hcand : c ∈ candsFor req.method rem ref pd) :
    c.template = pd.template ∧ c.declares = pd.methods.contains req.method ∧ c.server = ref ∧
      ∀ r, mkRoute pd g = some r → (gmatch '/' r.pathToks req.path).isSome = true := by
  simp only [candsFor, List.mem_filterMap] at hcand
  obtain ⟨⟨vs, rest⟩, hm, hcc⟩ := hcand
  split at hcc
  · rename_i hr
    simp only at hr
    subst hr
    simp only [Option.some.injEq] at hcc
    subst hcc
    refine ⟨rfl, rfl, rfl, ?_⟩
    intro r hmk
    obtain ⟨_, _, _, e4, _⟩ := mkRoute_some hmk
    obtain ⟨hgood, p, hp, hsp⟩ := (smatchP_iff _ _ _ _).1 hm
    simp only [List.append_nil] at hsp
    subst hsp
    rw [gparseS_lits _ _ hb1 hb2] at e4
    simp only [Option.map_eq_some_iff] at e4
    obtain ⟨tt, htt, hpt⟩ := e4
    rw [sparseS_of_gparseS htt] at hp
    obtain ⟨k1, k2⟩ := gsubst_of_ssubst tt vs _ hp
    apply gmatch_complete '/' _ ((varNamesG tt).zip vs)
    · rw [← hpt, gsubst_lits, k1, hpath]; rfl
    · intro q hq
      have : q.2 ∈ ((varNamesG tt).zip vs).map Prod.snd := List.mem_map.2 ⟨q, hq, rfl⟩
      rw [k2] at this
      exact hgood q.2 this
  · simp at hcc

theorem gRouteMatch_of_parts {pd : PathDecl} {g : GSrv} {r : GRoute} (hmk : mkRoute pd g = some r) (req : Req)
    (hp : (gmatch '/' r.pathToks req.path).isSome = true)
    (hsch : g.schemes = [] ∨ req.scheme ∈ g.schemes)
    (hh : g.host = [] ∨ ('{' ∉ g.host ∧ '}' ∉ g.host ∧ (if ':' ∈ g.host then req.host else req.host.takeWhile (· ≠ ':')) = g.host)) :
    gRouteMatch r req ≠ none := by
  obtain ⟨_, _, e3, _, e5⟩ := mkRoute_some hmk
  have hso : schemeOK r req = true := by
    simp only [schemeOK, e3, Bool.or_eq_true, decide_eq_true_eq]
    rcases hsch with h | h
    · exact Or.inl h
    · exact Or.inr (by simpa using h)
  unfold gRouteMatch
  cases hm : gmatch '/' r.pathToks req.path with
  | none => rw [hm] at hp; simp at hp
  | some pb =>
    rcases hh with hh | ⟨h1, h2, h3⟩
    · simp [hso, e3, hh]
    · by_cases hhe : g.host = []
      · simp [hso, e3, hhe]
      · rw [gparseS_all_lits g.host h1 h2] at e5
        simp only [Option.some.injEq] at e5
        have hc : (gmatch '.' r.hostToks (hostFor r req)).isSome = true := by
          apply gmatch_complete '.' _ []
          · rw [← e5]
            have := gsubst_lits g.host [] []
            simp only [List.append_nil, gsubst, Option.map_some] at this
            rw [this]
            simp only [hostFor, e3]
            rw [h3]
          · simp
        cases hm2 : gmatch '.' r.hostToks (hostFor r req) with
        | none => rw [hm2] at hc; simp at hc
        | some x => simp [hso, e3, hhe]

theorem split_at_char (c : Char) : ∀ (a b x y : Str), c ∉ a → c ∉ b → a ++ c :: x = b ++ c :: y → a = b ∧ x = y
  | [], [], _, _, _, _, h => by simpa using h
  | [], d :: ds, _, _, _, hb, h => by
    simp only [List.nil_append, List.cons_append, List.cons.injEq] at h
    simp only [List.mem_cons, not_or] at hb
    exact absurd h.1 hb.1
  | d :: ds, [], _, _, ha, _, h => by
    simp only [List.nil_append, List.cons_append, List.cons.injEq] at h
    simp only [List.mem_cons, not_or] at ha
    exact absurd h.1.symm ha.1
  | d :: ds, f :: fs, x, y, ha, hb, h => by
    simp only [List.cons_append, List.cons.injEq] at h
    simp only [List.mem_cons, not_or] at ha hb
    obtain ⟨i1, i2⟩ := split_at_char c ds fs x y ha.2 hb.2 h.2
    exact ⟨by rw [h.1, i1], i2⟩

/-- a request URL in three well separated parts -/
def ReqWF (req : Req) : Prop := ':' ∉ req.scheme ∧ '/' ∉ req.host ∧ (req.path = [] ∨ req.path.head? = some '/')

theorem base_rem_boundary {path rem : Str} (hp : path = [] ∨ path.head? = some '/') (hr : rem = [] ∨ rem.head? = some '/') :
    dropOneSlash path ++ rem = [] ∨ (dropOneSlash path ++ rem).head? = some '/' := by
  cases path with
  | nil => simpa [dropOneSlash] using hr
  | cons c cs =>
    rcases hp with hp | hp
    · simp at hp
    · simp only [List.head?_cons, Option.some.injEq] at hp
      subst hp
      cases cs with
      | nil => simpa [dropOneSlash] using hr
      | cons d ds =>
        right
        unfold dropOneSlash
        split <;> simp

/-- spec → model for a document of the class: a candidate of a path item names a server that applies to it and whose
    compiled route (if it compiles) matches the request -/
theorem match_of_cand_abs (e : Bool) (d : Doc) (hd : AbsDoc d) (req : Req) (hwf : ReqWF req) (pd : PathDecl) (hpd : pd ∈ d.paths)
    (c : Cand) (hc : c ∈ specCandsPath e d req pd) :
    c.template = pd.template ∧ c.declares = pd.methods.contains req.method ∧
    ∃ g, EffSrv d pd g ∧ g.ref = c.server ∧ ∀ r, mkRoute pd g = some r → gRouteMatch r req ≠ none := by
  unfold specCandsPath at hc
  cases heff : effServers d pd with
  | nil =>
    rw [heff] at hc
    simp only at hc
    have hnone : pd.servers = [] ∧ d.servers = [] := by
      unfold effServers at heff
      split at heff
      · rename_i hps
        refine ⟨hps, ?_⟩
        cases hds : d.servers with
        | nil => rfl
        | cons a l => rw [hds] at heff; simp [tagFrom] at heff
      · rename_i hps
        cases hpp : pd.servers with
        | nil => exact absurd hpp hps
        | cons a l => rw [hpp] at heff; simp [tagFrom] at heff
    obtain ⟨h1, h2, h3, h4⟩ := cand_path_match req pd c req.path SrvRef.none noSrv (by simp [noSrv]) (by simp [noSrv]) (by simp [noSrv]) hc
    refine ⟨h1, h2, noSrv, ?_, by rw [h3]; rfl, fun r hmk => gRouteMatch_of_parts hmk req (h4 r hmk) (Or.inl rfl) (Or.inl rfl)⟩
    unfold EffSrv
    simp only [hnone.1, if_true]
    exact Or.inl ⟨hnone.2, rfl⟩
  | cons a l =>
    rw [heff] at hc
    simp only [List.mem_flatMap] at hc
    obtain ⟨⟨ref, s⟩, hx, rem, hrem, hcand⟩ := hc
    rw [← heff] at hx
    -- which declared server it is, and that it compiles to g
    have hsrv : SrvClass s ∧ ∀ g, gMakeServer ref s = some g → EffSrv d pd g := by
      unfold effServers at hx
      unfold EffSrv
      split at hx
      · rename_i hps
        obtain ⟨i, hi, href⟩ := mem_tagFrom hx
        simp only [Nat.zero_add] at href hi
        refine ⟨hd.1 s (getElem?_mem' hi), fun g hg => ?_⟩
        simp only [hps, if_true]
        exact Or.inr ⟨i, s, hi, by rw [← href]; exact hg⟩
      · rename_i hps
        obtain ⟨i, hi, href⟩ := mem_tagFrom hx
        simp only [Nat.zero_add] at href hi
        refine ⟨(hd.2 pd hpd).1 s (getElem?_mem' hi), fun g hg => ?_⟩
        simp only [hps, if_false]
        exact Or.inr ⟨i, s, hi, by rw [← href]; exact hg⟩
    obtain ⟨hcls, heffg⟩ := hsrv
    obtain ⟨vals, hfill, hbound, _⟩ := specServerRems_sound e s req rem hrem
    rcases hcls with hs | ⟨scheme, host, path, hs⟩
    · have hnb1 : '{' ∉ dropOneSlash s.url := fun hm => hs.2.1 (mem_dropOneSlash hm)
      have hnb2 : '}' ∉ dropOneSlash s.url := fun hm => hs.2.2.1 (mem_dropOneSlash hm)
      have htk : sparseS (dropOneSlash s.url) = (dropOneSlash s.url).map STok.lit := sparse_lits _ _ (by omega) hnb1
      rw [dropOneSlash_rel hs.1, htk] at hfill
      simp only [if_true] at hfill
      obtain ⟨_, p, hp, hsp⟩ := hfill
      obtain ⟨_, rfl⟩ := ssubst_lits_inv _ _ _ hp
      have hmk := gMakeServer_plainRel ref s hs
      obtain ⟨h1, h2, h3, h4⟩ := cand_path_match req pd c rem ref ⟨[], [], dropOneSlash s.url, none, ref⟩ hnb1 hnb2 hsp hcand
      exact ⟨h1, h2, _, heffg _ hmk, h3.symm, fun r hmkr => gRouteMatch_of_parts hmkr req (h4 r hmkr) (Or.inl rfl) (Or.inl rfl)⟩
    · have hs' := hs
      obtain ⟨hu, hsc1, hsc2, hb1, hb2, hh1, hh2, hpth, _⟩ := hs
      have hsub : ∀ ch, ch ∈ host ∨ ch ∈ path → ch ∈ s.url := by
        intro ch hch
        rw [hu]
        simp only [List.mem_append, List.mem_cons]
        rcases hch with hch | hch
        · exact Or.inl (Or.inr (Or.inr (Or.inr (Or.inr hch))))
        · exact Or.inr hch
      have hnb : '{' ∉ dropOneSlash s.url := fun hm => hb1 (mem_dropOneSlash hm)
      have htk : sparseS (dropOneSlash s.url) = (dropOneSlash s.url).map STok.lit := sparse_lits _ _ (by omega) hnb
      have hrelf : isRelativeURL (dropOneSlash s.url) = false := by
        rw [absPlain_url' hs']
        unfold isRelativeURL
        cases hsc : scheme with
        | nil => simp
        | cons c0 cs0 =>
          have : c0 ≠ '/' := by
            intro e'
            apply hsc2
            rw [hsc, e']; simp
          simp [this]
      rw [hrelf, htk] at hfill
      simp only [Bool.false_eq_true, if_false] at hfill
      obtain ⟨_, p, hp, hsp⟩ := hfill
      obtain ⟨_, rfl⟩ := ssubst_lits_inv _ _ _ hp
      rw [absPlain_url' hs'] at hsp
      -- scheme://host/path on both sides
      have hsp' : req.scheme ++ ':' :: ('/' :: '/' :: (req.host ++ req.path)) = scheme ++ ':' :: ('/' :: '/' :: (host ++ (dropOneSlash path ++ rem))) := by
        simpa [fullURL] using hsp
      obtain ⟨e1, e2⟩ := split_at_char ':' _ _ _ _ hwf.1 hsc1 hsp'
      simp only [List.cons.injEq, true_and] at e2
      have t1 := takeSeg_of_reads hwf.2.1 hwf.2.2
      have t2 := takeSeg_of_reads hh2 (base_rem_boundary hpth hbound)
      rw [e2, t2] at t1
      simp only [Prod.mk.injEq] at t1
      obtain ⟨ehost, epath⟩ := t1
      have hmk := gMakeServer_absPlain ref s scheme host path hs'
      have hnb1 : '{' ∉ dropOneSlash path := fun hm => hb1 (hsub _ (Or.inr (mem_dropOneSlash hm)))
      have hnb2 : '}' ∉ dropOneSlash path := fun hm => hb2 (hsub _ (Or.inr (mem_dropOneSlash hm)))
      obtain ⟨h1, h2, h3, h4⟩ := cand_path_match req pd c rem ref ⟨[scheme], host, dropOneSlash path, none, ref⟩ hnb1 hnb2 epath.symm hcand
      refine ⟨h1, h2, _, heffg _ hmk, h3.symm, fun r hmkr => gRouteMatch_of_parts hmkr req (h4 r hmkr) (Or.inr (by simp [e1])) (Or.inr ⟨?_, ?_, ?_⟩)⟩
      · exact fun hm => hb1 (hsub _ (Or.inl hm))
      · exact fun hm => hb2 (hsub _ (Or.inl hm))
      · simp only
        rw [← ehost]
        by_cases hc : ':' ∈ host
        · simp [hc]
        · simp only [hc, if_false]
          exact takeWhile_id hc

end KinModel.Router
