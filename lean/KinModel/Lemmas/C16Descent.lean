/-
C16 — every run of the descent of InternalizeRefs (KinModel/Internalize.lean) is a sequence of primitive steps.
Helper lemmas only (the property theorems are in Props/C16.lean).
-/
import KinModel.Internalize
namespace KinModel.Internalize
open KinModel.RefName

/-- one primitive step: an add<Kind>ToSpec call, `x.Ref = ""`, entering a path item, or a step that changes nothing
of the document (fuel, visited schemas/headers, diagnostics) -/
inductive Step (h : Heap) : St → St → Prop
  | add (s : St) (c : Nat) (pext b : Bool) (s' : St) : addCore h s c pext = .ok (b, s') → Step h s s'
  | clear (s : St) (c : Nat) : Step h s { s with refs := s.refs.set! c [] }
  | enter (s : St) (p : Nat) (fl : List String) :
      Step h s { s with visP := p :: s.visP, pirefs := s.pirefs.set! p [], flags := fl }
  | silent (s s' : St) : s'.refs = s.refs → s'.pirefs = s.pirefs → s'.comps = s.comps → s'.log = s.log →
      s'.hasComp = s.hasComp → s'.visP = s.visP → Step h s s'

inductive Reach (h : Heap) : St → St → Prop
  | refl (s : St) : Reach h s s
  | tail (s t u : St) : Reach h s t → Step h t u → Reach h s u

theorem Reach.trans {h : Heap} {s t u : St} (a : Reach h s t) (b : Reach h t u) : Reach h s u := by
  induction b with
  | refl => exact a
  | tail t' u' _ st ih => exact Reach.tail _ _ _ ih st

theorem Reach.single {h : Heap} {s t : St} (a : Step h s t) : Reach h s t := Reach.tail _ _ _ (Reach.refl s) a

/-- an invariant of the primitive steps holds along every run -/
theorem Reach.invariant {h : Heap} (P : St → Prop) (hstep : ∀ s t, P s → Step h s t → P t)
    {s t : St} (r : Reach h s t) (h0 : P s) : P t := by
  induction r with
  | refl => exact h0
  | tail t' u' _ st ih => exact hstep _ _ ih st

/-- every successful run of `m` is a sequence of primitive steps -/
def Traces (h : Heap) {α : Type} (m : M α) : Prop := ∀ s a s', m s = .ok (a, s') → Reach h s s'

theorem traces_pure (h : Heap) {α : Type} (a : α) : Traces h (pure a : M α) := by
  intro s b s' hr
  have : (pure a : M α) s = .ok (a, s) := rfl
  rw [this] at hr
  cases hr
  exact Reach.refl _

theorem traces_throw (h : Heap) {α : Type} (e : Err) : Traces h (throw e : M α) := by
  intro s b s' hr
  have : (throw e : M α) s = .error e := rfl
  rw [this] at hr
  cases hr

theorem traces_bind (h : Heap) {α β : Type} (m : M α) (f : α → M β)
    (hm : Traces h m) (hf : ∀ a, Traces h (f a)) : Traces h (m >>= f) := by
  intro s b s' hr
  have e : (m >>= f) s = (match m s with | .ok (a, s1) => f a s1 | .error e => .error e) := by
    show (StateT.bind m f) s = _
    unfold StateT.bind
    show (m s >>= _) = _
    cases m s with
    | error e => rfl
    | ok p => cases p; rfl
  rw [e] at hr
  cases hms : m s with
  | error e => rw [hms] at hr; cases hr
  | ok p =>
    obtain ⟨a, s1⟩ := p
    rw [hms] at hr
    exact Reach.trans (hm s a s1 hms) (hf a s1 b s' hr)

theorem traces_ite (h : Heap) {α : Type} (c : Prop) [Decidable c] (a b : M α)
    (ha : Traces h a) (hb : Traces h b) : Traces h (if c then a else b) := by
  split
  · exact ha
  · exact hb

theorem traces_tick (h : Heap) : Traces h tick := by
  intro s a s' hr
  unfold tick at hr
  split at hr
  · cases hr
  · cases hr
    exact Reach.single (Step.silent _ _ rfl rfl rfl rfl rfl rfl)

theorem traces_add (h : Heap) (c : Nat) (pext : Bool) : Traces h (addToSpec h c pext) := by
  intro s a s' hr
  exact Reach.single (Step.add s c pext a s' hr)

theorem traces_clear (h : Heap) (c : Nat) : Traces h (clearRef c) := by
  intro s a s' hr
  unfold clearRef at hr
  cases hr
  exact Reach.single (Step.clear s c)

theorem traces_visS (h : Heap) (v : Int) : Traces h (isVisitedSchema v) := by
  intro s a s' hr
  unfold isVisitedSchema at hr
  split at hr <;> cases hr <;> exact Reach.single (Step.silent _ _ rfl rfl rfl rfl rfl rfl)

theorem traces_visH (h : Heap) (v : Int) : Traces h (isVisitedHeader v) := by
  intro s a s' hr
  unfold isVisitedHeader at hr
  split at hr <;> cases hr <;> exact Reach.single (Step.silent _ _ rfl rfl rfl rfl rfl rfl)

theorem traces_enter (h : Heap) (p : Nat) (pext : Bool) : Traces h (enterPI p pext) := by
  intro s a s' hr
  unfold enterPI at hr
  split at hr
  · cases hr; exact Reach.single (Step.silent _ _ rfl rfl rfl rfl rfl rfl)
  · cases hr; exact Reach.single (Step.enter s p _)


/-- the statement for all functions of the mutual block at fuel `n` -/
structure AllTrace (h : Heap) (n : Nat) : Prop where
  schema : ∀ v p, Traces h (derefSchema h n v p)
  schemaCells : ∀ cs p, Traces h (derefSchemaCells h n cs p)
  headers : ∀ cs p, Traces h (derefHeaders h n cs p)
  addAll : ∀ cs p, Traces h (addAll h n cs p)
  content : ∀ cs p, Traces h (derefContent h n cs p)
  enc : ∀ cs p, Traces h (derefEnc h n cs p)
  parameter : ∀ v p, Traces h (derefParameter h n v p)
  responses : ∀ cs p, Traces h (derefResponses h n cs p)
  params : ∀ cs p, Traces h (derefParams h n cs p)
  callbacks : ∀ cs p, Traces h (derefCallbacks h n cs p)
  ops : ∀ cs p, Traces h (derefOps h n cs p)
  paths : ∀ cs p, Traces h (derefPaths h n cs p)

syntax "trace_auto " ident : tactic
macro_rules
  | `(tactic| trace_auto $ih) => `(tactic| repeat (first
      | exact traces_pure _ _
      | exact traces_throw _ _
      | exact traces_tick _
      | exact traces_add _ _ _
      | exact traces_clear _ _
      | exact traces_visS _ _
      | exact traces_visH _ _
      | exact traces_enter _ _ _
      | exact ($ih).schema _ _
      | exact ($ih).schemaCells _ _
      | exact ($ih).headers _ _
      | exact ($ih).addAll _ _
      | exact ($ih).content _ _
      | exact ($ih).enc _ _
      | exact ($ih).parameter _ _
      | exact ($ih).responses _ _
      | exact ($ih).params _ _
      | exact ($ih).callbacks _ _
      | exact ($ih).ops _ _
      | exact ($ih).paths _ _
      | apply traces_bind
      | apply traces_ite
      | intro _))

theorem allTrace (h : Heap) : ∀ n, AllTrace h n
  | 0 => by
    constructor <;> intro a p
    · rw [derefSchema]; exact traces_throw _ _
    · rw [derefSchemaCells]; exact traces_throw _ _
    · rw [derefHeaders]; exact traces_throw _ _
    · rw [addAll]; exact traces_throw _ _
    · rw [derefContent]; exact traces_throw _ _
    · rw [derefEnc]; exact traces_throw _ _
    · rw [derefParameter]; exact traces_throw _ _
    · rw [derefResponses]; exact traces_throw _ _
    · rw [derefParams]; exact traces_throw _ _
    · rw [derefCallbacks]; exact traces_throw _ _
    · rw [derefOps]; exact traces_throw _ _
    · rw [derefPaths]; exact traces_throw _ _
  | n + 1 => by
    have ih := allTrace h n
    constructor <;> intro a p
    · rw [derefSchema]; trace_auto ih
    · cases a with
      | nil => rw [derefSchemaCells] <;> first | exact traces_pure _ _ | simp
      | cons c cs => rw [derefSchemaCells]; trace_auto ih
    · cases a with
      | nil => rw [derefHeaders] <;> first | exact traces_pure _ _ | simp
      | cons c cs => rw [derefHeaders]; trace_auto ih
    · cases a with
      | nil => rw [addAll] <;> first | exact traces_pure _ _ | simp
      | cons c cs => rw [addAll]; trace_auto ih
    · cases a with
      | nil => rw [derefContent] <;> first | exact traces_pure _ _ | simp
      | cons c cs => rw [derefContent]; trace_auto ih
    · cases a with
      | nil => rw [derefEnc] <;> first | exact traces_pure _ _ | simp
      | cons c cs => rw [derefEnc]; trace_auto ih
    · rw [derefParameter]; trace_auto ih
    · cases a with
      | nil => rw [derefResponses] <;> first | exact traces_pure _ _ | simp
      | cons c cs => rw [derefResponses]; trace_auto ih
    · cases a with
      | nil => rw [derefParams] <;> first | exact traces_pure _ _ | simp
      | cons c cs => rw [derefParams]; trace_auto ih
    · cases a with
      | nil => rw [derefCallbacks] <;> first | exact traces_pure _ _ | simp
      | cons c cs => rw [derefCallbacks]; trace_auto ih
    · cases a with
      | nil => rw [derefOps] <;> first | exact traces_pure _ _ | simp
      | cons c cs => rw [derefOps]; trace_auto ih
    · cases a with
      | nil => rw [derefPaths] <;> first | exact traces_pure _ _ | simp
      | cons c cs =>
        rw [derefPaths]
        apply traces_bind; exact traces_tick _
        intro _
        apply traces_bind; exact traces_enter _ _ _
        intro e
        cases e with
        | none => exact ih.paths _ _
        | some b => simp only []; trace_auto ih


theorem traces_topSchemas (h : Heap) (n : Nat) : ∀ cs, Traces h (topSchemas h n cs)
  | [] => by rw [topSchemas]; exact traces_pure _ _
  | c :: cs => by
    have ih := allTrace h n
    have ihl := traces_topSchemas h n cs
    rw [topSchemas]
    repeat (first | exact ihl | apply traces_bind | apply traces_ite | exact traces_add _ _ _ | exact traces_clear _ _ | exact ih.schema _ _ | intro _)

theorem traces_topParameters (h : Heap) (n : Nat) : ∀ cs, Traces h (topParameters h n cs)
  | [] => by rw [topParameters]; exact traces_pure _ _
  | c :: cs => by
    have ih := allTrace h n
    have ihl := traces_topParameters h n cs
    rw [topParameters]
    repeat (first | exact ihl | apply traces_bind | apply traces_ite | exact traces_add _ _ _ | exact traces_clear _ _ | exact ih.parameter _ _ | intro _)

theorem traces_topRequestBodies (h : Heap) (n : Nat) : ∀ cs, Traces h (topRequestBodies h n cs)
  | [] => by rw [topRequestBodies]; exact traces_pure _ _
  | c :: cs => by
    have ih := allTrace h n
    have ihl := traces_topRequestBodies h n cs
    rw [topRequestBodies]
    repeat (first | exact ihl | apply traces_bind | apply traces_ite | exact traces_add _ _ _ | exact traces_clear _ _ | exact ih.content _ _ | intro _)

theorem traces_topCallbacks (h : Heap) (n : Nat) : ∀ cs, Traces h (topCallbacks h n cs)
  | [] => by rw [topCallbacks]; exact traces_pure _ _
  | c :: cs => by
    have ih := allTrace h n
    have ihl := traces_topCallbacks h n cs
    rw [topCallbacks]
    repeat (first | exact ihl | apply traces_bind | apply traces_ite | exact traces_add _ _ _ | exact traces_clear _ _ | exact ih.paths _ _ | intro _)

theorem traces_topAll (h : Heap) (n : Nat) : Traces h (topAll h n) := by
  have ih := allTrace h n
  unfold topAll
  repeat (first
    | exact traces_topSchemas _ _ _ | exact traces_topParameters _ _ _ | exact traces_topRequestBodies _ _ _
    | exact traces_topCallbacks _ _ _ | exact ih.headers _ _ | exact ih.responses _ _ | exact ih.addAll _ _
    | apply traces_bind | intro _)

theorem traces_internalizeM (h : Heap) (n : Nat) : Traces h (internalizeM h n) := by
  have ih := allTrace h n
  unfold internalizeM
  apply traces_ite
  · apply traces_bind
    · exact traces_topAll h n
    · intro _; exact ih.paths _ _
  · exact ih.paths _ _

/-- **every finished run of the model of InternalizeRefs is a sequence of primitive steps from the initial state** -/
theorem internalize_reach (h : Heap) (s : St) (hd : internalize h = .done s) : Reach h (initSt h) s := by
  unfold internalize at hd
  split at hd
  · rename_i u s' hrun
    cases hd
    exact traces_internalizeM h _ _ _ _ hrun
  · cases hd
  · cases hd

end KinModel.Internalize
