import KinModel.Lemmas.C04Local2
namespace KinModel.DocValidate

theorem schemaType_all (T : Table) (o : Opts) (a : Attrs) (hi : Bool) (ty : String) :
    ((schemaTypeViols a hi ty).all fun v => !enabled o v) = schemaTypeOKCode (patCompiles T [] o) o a hi ty := by
  unfold schemaTypeViols schemaTypeOKCode patCompiles
  simp (disch := decide) only [List.all_append, all_when, enabled_plain]
  simp only [enabled, List.contains_nil, Bool.and_false, Bool.false_or]
  cases hk : knownTypes.contains ty
  · simp
  · generalize formatKnown ty (a.str "format") = F
    generalize uncompilable (a.str "pattern") = P
    generalize (a.str "pattern" != "") = Q
    generalize (decide (ty = "number") || decide (ty = "integer") || decide (ty = "string")) = N
    cases N <;> cases F <;> cases o.fmtEnabled <;> cases decide (ty = "string") <;> cases P <;> cases Q <;>
      cases o.patDisabled <;> cases o.customRegex <;> cases decide (ty = "array") <;> cases hi <;> rfl

theorem localOK_schema (T : Table) (o : Opts) (a : Attrs) (kids : List (String × Doc)) (vs : List Bool)
    (hT : TableOK T = true) :
    localOK T o (.node .schema a kids) vs = rulesOK o (.node .schema a kids) := by
  have hx := checkExt_eq T o (.node .schema a kids) hT (by simp [extKinds, Doc.kind])
  have hf := tableFacts T hT
  have hd : hasCheck T o a .schema "default" = !o.defDisabled := anyHolds_as o a _ _ hf.sDefault
  have he : hasCheck T o a .schema "example" = !o.exDisabled := anyHolds_as o a _ _ hf.sExample
  simp (disch := decide) only [localOK, localOKp, rulesOK, violations, Doc.kind, Doc.attrs, schemaOKCode, List.all_append, all_when,
    extra_all, hx, hd, he, enabled_plain, List.all_flatMap, schemaType_all T]
  simp only [enabled]
  generalize schemaDefaultsOK a = D
  generalize schemaExamplesOK a = E
  generalize extKeysOK o a.exts = X
  generalize ((a.list "type").all _) = Ty
  cases a.flag "readOnly" <;> cases a.flag "writeOnly" <;> cases D <;> cases E <;> cases X <;> cases Ty <;>
    cases o.defDisabled <;> cases o.exDisabled <;> rfl

end KinModel.DocValidate
