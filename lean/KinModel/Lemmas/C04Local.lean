/-
Helper lemmas for C04: the local checks of the code (`localOK`, read against the regenerated table) versus
the rule violations of the specification (`violations` / `enabled`).
-/
import KinModel.DocValidate
namespace KinModel.DocValidate

/-- kinds whose `Validate` method must call `validateExtensions` unconditionally -/
def extKinds : List Kind :=
  [.root, .components, .info, .contact, .license, .paths, .pathItem, .operation, .parameter, .mediaType,
   .requestBody, .responses, .response, .schema, .example, .link, .callback, .securityScheme, .oauthFlows,
   .oauthFlow, .server, .serverVar, .tag, .externalDocs, .encoding, .discriminator, .xml]

/-- kinds that carry `example` / `examples` next to a `schema` -/
def exampleKinds : List Kind := [.parameter, .mediaType, .header]

/-- what the theorems need of the table (decided on the regenerated table in Props/C04.lean): every method
of `extKinds` calls `validateExtensions` under every option set (on some path: `alwaysHolds`); defaults / examples are checked, and the example
objects visited, exactly unless the option that names them is set; a reference wrapper validates its value;
no error ends a method with success, the only error dropped is that of a header of an encoding object (whose
key is checked); every component name is checked -/
def TableOK (T : Table) : Bool :=
  extKinds.all (fun k => alwaysHolds (rowsFor T.checks k "extensions")) &&
  holdsAs (rowsFor T.checks .header "extensions") (fun _ _ _ _ g => !g) &&
  holdsAs (rowsFor T.checks .schema "default") (fun _ d _ _ _ => !d) &&
  holdsAs (rowsFor T.checks .schema "example") (fun e _ _ _ _ => !e) &&
  exampleKinds.all (fun k =>
    holdsAs (rowsFor T.checks k "example") (fun e _ _ _ g => !e && !(k == .header && g)) &&
    holdsAs (rowsFor T.checks k "examples") (fun e _ _ x g => !e && !(k == .parameter && x) && !(k == .header && g)) &&
    holdsAs (rowsFor T.edges k "examples") (fun e _ s x g => !e && s && !(k == .parameter && x) && !(k == .header && g))) &&
  (rowsFor T.edges .exampleRef "value").contains [] &&
  (T.swallows == []) && (T.ignored == [(.encoding, "headers", [])]) &&
  (rowsFor T.checks .encoding "identifier:headers").contains [] &&
  componentPositions.all (fun p => (rowsFor T.checks .components ("identifier:" ++ p)).contains [])

structure TableFacts (T : Table) : Prop where
  ext : ∀ k ∈ extKinds, alwaysHolds (rowsFor T.checks k "extensions") = true
  hdrExt : holdsAs (rowsFor T.checks .header "extensions") (fun _ _ _ _ g => !g) = true
  sDefault : holdsAs (rowsFor T.checks .schema "default") (fun _ d _ _ _ => !d) = true
  sExample : holdsAs (rowsFor T.checks .schema "example") (fun e _ _ _ _ => !e) = true
  ex : ∀ k ∈ exampleKinds,
    holdsAs (rowsFor T.checks k "example") (fun e _ _ _ g => !e && !(k == .header && g)) = true ∧
    holdsAs (rowsFor T.checks k "examples") (fun e _ _ x g => !e && !(k == .parameter && x) && !(k == .header && g)) = true ∧
    holdsAs (rowsFor T.edges k "examples") (fun e _ s x g => !e && s && !(k == .parameter && x) && !(k == .header && g)) = true
  exRef : (rowsFor T.edges .exampleRef "value").contains [] = true
  swallows : T.swallows = []
  ignored : T.ignored = [(.encoding, "headers", [])]
  encIdent : (rowsFor T.checks .encoding "identifier:headers").contains [] = true
  ident : ∀ p ∈ componentPositions, (rowsFor T.checks .components ("identifier:" ++ p)).contains [] = true

theorem tableFacts (T : Table) (hT : TableOK T = true) : TableFacts T := by
  unfold TableOK at hT
  simp only [Bool.and_eq_true, List.all_eq_true, beq_iff_eq] at hT
  obtain ⟨⟨⟨⟨⟨⟨⟨⟨⟨h1, h1b⟩, h2⟩, h3⟩, h4⟩, h5⟩, h6⟩, h6b⟩, h6c⟩, h7⟩ := hT
  exact ⟨h1, h1b, h2, h3, fun k hk => ⟨(h4 k hk).1.1, (h4 k hk).1.2, (h4 k hk).2⟩, h5, h6, h6b, h6c, h7⟩

theorem anyHolds_of_nil (o : Opts) (a : Attrs) (gss : List (List String)) (h : gss.contains [] = true) :
    anyHolds o a gss = true := by
  unfold anyHolds
  rw [List.any_eq_true]
  exact ⟨[], by simpa using h, by simp [guardsHold]⟩

theorem mkA_schema (s x g : Bool) : (mkA s x g).flag "hasSchema" = s := by cases s <;> cases x <;> cases g <;> decide
theorem mkA_example (s x g : Bool) : (mkA s x g).flag "hasExample" = x := by cases s <;> cases x <;> cases g <;> decide
theorem mkA_again (s x g : Bool) : (mkA s x g).flag "again" = g := by cases s <;> cases x <;> cases g <;> decide

theorem litHolds_four (o : Opts) (a : Attrs) (l : String) :
    litHolds o a l = litHolds (mkO o.exDisabled o.defDisabled) (mkA (a.flag "hasSchema") (a.flag "hasExample") (a.flag "again")) l := by
  unfold litHolds; split <;> simp [mkO, mkA_schema, mkA_example, mkA_again]

theorem anyHolds_four (o : Opts) (a : Attrs) (gss : List (List String)) :
    anyHolds o a gss = anyHolds (mkO o.exDisabled o.defDisabled) (mkA (a.flag "hasSchema") (a.flag "hasExample") (a.flag "again")) gss := by
  have hl : litHolds o a = litHolds (mkO o.exDisabled o.defDisabled) (mkA (a.flag "hasSchema") (a.flag "hasExample") (a.flag "again")) :=
    funext (litHolds_four o a)
  unfold anyHolds guardsHold
  rw [hl]

/-- what `holdsAs` decides over the thirty-two valuations holds for every option set and every node -/
theorem anyHolds_as (o : Opts) (a : Attrs) (gss : List (List String)) (f : Bool → Bool → Bool → Bool → Bool → Bool)
    (h : holdsAs gss f = true) :
    anyHolds o a gss = f o.exDisabled o.defDisabled (a.flag "hasSchema") (a.flag "hasExample") (a.flag "again") := by
  rw [anyHolds_four]
  unfold holdsAs at h
  simp only [List.all_cons, List.all_nil, Bool.and_true, Bool.and_eq_true, beq_iff_eq] at h
  cases o.exDisabled <;> cases o.defDisabled <;> cases a.flag "hasSchema" <;> cases a.flag "hasExample" <;>
    cases a.flag "again" <;> simp_all

theorem anyHolds_of_always (o : Opts) (a : Attrs) (gss : List (List String)) (h : alwaysHolds gss = true) :
    anyHolds o a gss = true := anyHolds_as o a gss _ h

theorem all_when (o : Opts) (c : Bool) (r k : String) :
    ((when c r k).all fun v => !enabled o v) = (!c || !enabled o ⟨r, k⟩) := by
  cases c <;> simp [when]

theorem extra_all (o : Opts) (a : Attrs) :
    ((extraViols a).all fun v => !enabled o v) = extKeysOK o a.exts := by
  unfold extraViols extKeysOK
  induction a.exts with
  | nil => rfl
  | cons k ks ih =>
    simp only [List.filter_cons, List.all_cons]
    cases hk : isExtKey k <;> simp [hk, enabled, ih]

end KinModel.DocValidate

namespace KinModel.DocValidate

theorem checkExt_eq (T : Table) (o : Opts) (d : Doc) (hT : TableOK T = true) (hk : d.kind ∈ extKinds) :
    checkExt T o d = extKeysOK o d.attrs.exts := by
  have h := (tableFacts T hT).ext d.kind hk
  unfold checkExt hasCheck
  rw [anyHolds_of_always o _ _ h]; rfl

def specialRules : List String :=
  ["extraField", "refSibling", "refExtension", "exampleMismatch", "defaultMismatch", "unknownFormat", "badPattern"]

theorem enabled_plain (o : Opts) (r k : String) (h : specialRules.contains r = false) : enabled o ⟨r, k⟩ = true := by
  unfold enabled
  simp only [specialRules, List.contains_cons, List.contains_nil, Bool.or_false, Bool.or_eq_false_iff, beq_eq_false_iff_ne, ne_eq] at h
  split <;> simp_all

theorem all_congr_mem {α} (l : List α) (f g : α → Bool) (h : ∀ x ∈ l, f x = g x) : l.all f = l.all g := by
  induction l with
  | nil => rfl
  | cons x xs ih =>
    simp only [List.all_cons]
    rw [h x (by simp), ih (fun y hy => h y (by simp [hy]))]

theorem ite_false_left (c r : Bool) : (if c = true then false else r) = (!c && r) := by cases c <;> rfl

theorem securitySchemeViols_all (o : Opts) (d : Doc) :
    ((securitySchemeViols d).all fun v => !enabled o v) = securitySchemeShapeOK d := by
  unfold securitySchemeViols securitySchemeShapeOK
  simp (disch := decide) only [List.all_append, all_when, enabled_plain, ite_false_left]
  simp [Bool.and_assoc]

theorem oauthFlowViols_all (o : Opts) (d : Doc) :
    ((oauthFlowViols d).all fun v => !enabled o v) = oauthFlowShapeOK d := by
  unfold oauthFlowViols oauthFlowShapeOK
  simp (disch := decide) only [List.all_append, all_when, enabled_plain, ite_false_left]
  generalize (decide (d.attrs.str "flowType" = "implicit") || decide (d.attrs.str "flowType" = "authorizationCode")) = A
  generalize (decide (d.attrs.str "flowType" = "password") || decide (d.attrs.str "flowType" = "clientCredentials") ||
    decide (d.attrs.str "flowType" = "authorizationCode")) = B
  by_cases h1 : d.attrs.str "authorizationUrl" = "" <;> by_cases h2 : d.attrs.str "tokenUrl" = "" <;>
    cases A <;> cases B <;> cases d.attrs.flag "hasScopes" <;> simp [h1, h2]

theorem serverViols_all (o : Opts) (d : Doc) :
    ((serverViols d).all fun v => !enabled o v) = serverShapeOK d := by
  unfold serverViols serverShapeOK
  simp (disch := decide) only [List.all_append, all_when, enabled_plain, ite_false_left]
  simp [Bool.and_assoc]

/-- kinds whose local checks are a plain cascade ending in `validateExtensions` -/
def plainExtKinds : List Kind :=
  [.root, .info, .contact, .license, .pathItem, .operation, .requestBody, .responses, .response, .example, .link,
   .callback, .oauthFlows, .serverVar, .tag, .externalDocs, .discriminator, .xml,
   .securityScheme, .oauthFlow, .server]

theorem localOK_plainExt (T : Table) (o : Opts) (k : Kind) (a : Attrs) (kids : List (String × Doc)) (vs : List Bool)
    (hT : TableOK T = true) (hk : k ∈ plainExtKinds) :
    localOK T o (.node k a kids) vs = rulesOK o (.node k a kids) := by
  have hx : k ∈ extKinds → checkExt T o (.node k a kids) = extKeysOK o a.exts :=
    fun h => checkExt_eq T o (.node k a kids) hT h
  simp only [plainExtKinds, List.mem_cons, List.not_mem_nil, or_false] at hk
  rcases hk with rfl | rfl | rfl | rfl | rfl | rfl | rfl | rfl | rfl | rfl | rfl | rfl | rfl | rfl | rfl | rfl | rfl | rfl | rfl | rfl | rfl
  all_goals
    (have hx' := hx (by simp [extKinds])
     simp (disch := decide) only [localOK, localOKp, rulesOK, violations, Doc.kind, Doc.attrs, List.all_append, all_when, extra_all, hx',
       enabled_plain, securitySchemeOKCode, oauthFlowOKCode, serverOKCode, securitySchemeViols_all, oauthFlowViols_all,
       serverViols_all]
     try ((repeat' split) <;> simp_all <;> grind))

/-- kinds without local checks -/
def trivialKinds : List Kind := [.content, .securityReqs, .securityReq, .servers, .tags]

theorem localOK_trivial (T : Table) (o : Opts) (k : Kind) (a : Attrs) (kids : List (String × Doc)) (vs : List Bool)
    (hk : k ∈ trivialKinds) :
    localOK T o (.node k a kids) vs = rulesOK o (.node k a kids) := by
  simp only [trivialKinds, List.mem_cons, List.not_mem_nil, or_false] at hk
  rcases hk with rfl | rfl | rfl | rfl | rfl <;> simp [localOK, localOKp, rulesOK, violations, Doc.kind]

end KinModel.DocValidate
