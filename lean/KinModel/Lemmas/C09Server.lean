/-
Helper lemmas for C09, legacy router, server part: what a successful `Server.MatchRawURL` / `Servers.MatchURL` says about
the request URL — the server URL pattern with the extracted values substituted is a prefix of the URL, and what is
returned as the remaining path is what follows it.
-/
import KinModel.Router
namespace KinModel.Router

/-- `PatSpell pattern vals p`: the server URL pattern, with `vals` substituted (in order) for its `{…}` variables and one
    final "/" ignored, spells `p` -/
inductive PatSpell : Str → List Str → Str → Prop
  | nil : PatSpell [] [] []
  | slash : PatSpell ['/'] [] []
  | lit {c : Char} {prest : Str} {vs : List Str} {p : Str} :
      c ≠ '{' → ¬ (prest = [] ∧ c = '/') → PatSpell prest vs p → PatSpell (c :: prest) vs (c :: p)
  | var {prest name pat' v : Str} {vs : List Str} {p : Str} :
      takeBrace prest = some (name, pat') → PatSpell pat' vs p → PatSpell ('{' :: prest) (v :: vs) (v ++ p)

theorem not_mem_take_indexOf (c : Char) : ∀ (s : Str) (i : Nat),
    (match indexOf c s with | some k => i ≤ k | none => True) → c ∉ s.take i := by
  intro s
  induction s with
  | nil => intro i _; simp
  | cons d ds ih =>
    intro i h
    cases i with
    | zero => simp
    | succ i =>
      by_cases hd : d = c
      · simp [indexOf, hd] at h
      · simp only [indexOf, hd, if_false] at h
        simp only [List.take_succ_cons, List.mem_cons, not_or]
        refine ⟨fun e => hd e.symm, ih i ?_⟩
        cases hk : indexOf c ds with
        | none => trivial
        | some k => simp only [hk, Option.map_some] at h; simp only; omega

theorem optMin_le_right (a : Option Nat) (k n : Nat) : (optMin a (some k)).getD n ≤ k := by
  cases a with
  | none => simp [optMin]
  | some x => simp only [optMin, Option.getD_some]; exact Nat.min_le_right x k

/-- the end of a successful match: the remaining input, an empty one turned into "/" -/
def RemOf (rem' rem : Str) : Prop := (rem' = [] ∧ rem = ['/']) ∨ (rem' = rem ∧ rem.head? = some '/')

theorem matchRawURL_sound : ∀ (f : Nat) (pattern input : Str) (params ps' : List Str) (rem : Str),
    matchRawURL f pattern input params = some (ps', rem) →
    ∃ vals p rem', ps' = params ++ vals ∧ PatSpell pattern vals p ∧ (∀ v ∈ vals, '/' ∉ v) ∧ input = p ++ rem' ∧ RemOf rem' rem := by
  intro f
  induction f with
  | zero => intro pattern input params ps' rem h; simp [matchRawURL] at h
  | succ f ih =>
    intro pattern input params ps' rem h
    have hfin : ∀ {ps' rem}, (if (if input = [] then ['/'] else input).head? = some '/' then some (params, if input = [] then ['/'] else input) else none)
        = some (ps', rem) → ps' = params ∧ RemOf input rem := by
      intro ps' rem hh
      by_cases hi : input = []
      · subst hi
        simp at hh
        exact ⟨hh.1.symm, Or.inl ⟨rfl, hh.2.symm⟩⟩
      · simp only [hi, if_false] at hh
        split at hh
        · rename_i hhd
          simp only [Option.some.injEq, Prod.mk.injEq] at hh
          obtain ⟨rfl, rfl⟩ := hh
          exact ⟨rfl, Or.inr ⟨rfl, hhd⟩⟩
        · simp at hh
    cases pattern with
    | nil =>
      simp only [matchRawURL] at h
      obtain ⟨h1, h2⟩ := hfin h
      exact ⟨[], [], input, by simp [h1], .nil, by simp, by simp, h2⟩
    | cons c prest =>
      simp only [matchRawURL] at h
      split at h
      · rename_i hq
        obtain ⟨h1, h2⟩ := hfin h
        obtain ⟨rfl, rfl⟩ := hq
        exact ⟨[], [], input, by simp [h1], .slash, by simp, by simp, h2⟩
      · rename_i hq
        split at h
        · rename_i hc
          subst hc
          split at h
          · simp at h
          · rename_i name pat' hb
            obtain ⟨vals, p, rem', e1, e2, e3, e4, e5⟩ := ih _ _ _ _ _ h
            refine ⟨input.take (varEnd pat' input) :: vals, input.take (varEnd pat' input) ++ p, rem', by simp [e1], .var hb e2, ?_, ?_, e5⟩
            · intro v hv
              simp only [List.mem_cons] at hv
              rcases hv with rfl | hv
              · apply not_mem_take_indexOf
                cases hk : indexOf '/' input with
                | none => trivial
                | some k => simp only [varEnd, hk]; exact optMin_le_right _ k _
              · exact e3 v hv
            · rw [List.append_assoc, ← e4, List.take_append_drop]
        · rename_i hc
          cases input with
          | nil => simp at h
          | cons d irest =>
            simp only at h
            split at h
            · rename_i hd
              subst hd
              obtain ⟨vals, p, rem', e1, e2, e3, e4, e5⟩ := ih _ _ _ _ _ h
              exact ⟨vals, d :: p, rem', e1, .lit hc hq e2, e3, by simp [e4], e5⟩
            · simp at h

/-- Servers.MatchURL returns the first server (in declaration order) whose pattern matches -/
theorem matchServersFrom_some : ∀ (l : List Server) (j : Nat) (raw : Str) (i : Nat) (s : Server) (ps : List Str) (rem : Str),
    matchServersFrom j l raw = some (i, s, ps, rem) →
    ∃ k, i = j + k ∧ l[k]? = some s ∧ matchRawURL (s.url.length + 1) s.url raw [] = some (ps, rem) ∧
      ∀ k' s', k' < k → l[k']? = some s' → matchRawURL (s'.url.length + 1) s'.url raw [] = none := by
  intro l
  induction l with
  | nil => intro j raw i s ps rem h; simp [matchServersFrom] at h
  | cons s0 rest ih =>
    intro j raw i s ps rem h
    simp only [matchServersFrom] at h
    split at h
    · rename_i ps0 rem0 hm
      simp only [Option.some.injEq, Prod.mk.injEq] at h
      obtain ⟨rfl, rfl, rfl, rfl⟩ := h
      exact ⟨0, rfl, by simp, hm, by intro k' s' hk; omega⟩
    · rename_i hm
      obtain ⟨k, e1, e2, e3, e4⟩ := ih _ _ _ _ _ _ h
      refine ⟨k + 1, by omega, by simpa using e2, e3, ?_⟩
      intro k' s' hk hs'
      cases k' with
      | zero => simp at hs'; subst hs'; exact hm
      | succ k' => exact e4 k' s' (by omega) (by simpa using hs')

end KinModel.Router
