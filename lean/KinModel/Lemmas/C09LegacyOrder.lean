/-
Helper lemmas for C09, legacy router: insertions of two keys with different suffix paths commute, so the trie — and with it
every answer of the router — does not depend on the order in which NewRouter meets the keys (a Go map iteration order),
unless two keys share a suffix path (F-C09-7).
-/
import KinModel.Lemmas.C09LegacyLiteral
namespace KinModel.Router

theorem sufLess_irrefl (a : Suf) : sufLess a a = false := by
  simp [sufLess, ltStr_irrefl]

theorem sufLess_asymm {a b : Suf} (h : sufLess a b = true) : sufLess b a = false := by
  cases hb : sufLess b a with
  | false => rfl
  | true =>
    have := sufLess_trans h hb
    rw [sufLess_irrefl] at this
    exact absurd this (by decide)

/-- sorted insertion of two entries with different keys commutes (strict total order; no sortedness of the list needed) -/
theorem insSorted_comm (x y : Suf × Node) (hne : x.1 ≠ y.1) : ∀ (l : List (Suf × Node)),
    insSorted x (insSorted y l) = insSorted y (insSorted x l) := by
  intro l
  induction l with
  | nil =>
    simp only [insSorted]
    rcases sufLess_total hne with h | h
    · simp [h, sufLess_asymm h]
    · simp [h, sufLess_asymm h]
  | cons z zs ih =>
    simp only [insSorted]
    by_cases hxz : sufLess x.1 z.1 = true
    · by_cases hyz : sufLess y.1 z.1 = true
      · simp only [hxz, hyz, if_true, insSorted]
        rcases sufLess_total hne with h | h
        · simp [h, sufLess_asymm h, hxz, hyz]
        · simp [h, sufLess_asymm h, hxz, hyz]
      · have hxy : sufLess x.1 y.1 = true := by
          rcases sufLess_total hne with h | h
          · exact h
          · exact absurd (sufLess_trans h hxz) hyz
        simp only [hxz, hyz, if_true, if_false, insSorted, Bool.false_eq_true, sufLess_asymm hxy]
    · by_cases hyz : sufLess y.1 z.1 = true
      · have hyx : sufLess y.1 x.1 = true := by
          rcases sufLess_total hne with h | h
          · exact absurd (sufLess_trans h hyz) hxz
          · exact h
        simp only [hxz, hyz, if_true, if_false, insSorted, Bool.false_eq_true, sufLess_asymm hyx]
      · simp only [hxz, hyz, if_false, insSorted, Bool.false_eq_true]
        rw [ih]

theorem hasSuf_updL (u t : Suf) (ts : List Suf) (k : Key) : ∀ (l : List (Suf × Node)),
    hasSuf u (updL l t ts k) = hasSuf u l := by
  intro l
  have := updL_keys l t ts k
  simp only [hasSuf]
  have e : ∀ (m : List (Suf × Node)), (m.any fun p => decide (p.1 = u)) = (m.map (·.1)).any (fun s => decide (s = u)) := by
    intro m; induction m with
    | nil => rfl
    | cons a as ih => simp [ih]
  rw [e, e, this]

theorem hasSuf_insSorted (u : Suf) (x : Suf × Node) : ∀ (l : List (Suf × Node)),
    hasSuf u (insSorted x l) = (decide (x.1 = u) || hasSuf u l) := by
  intro l
  induction l with
  | nil => simp [insSorted, hasSuf]
  | cons z zs ih =>
    simp only [insSorted]
    split
    · simp [hasSuf]
    · simp only [hasSuf, List.any_cons] at ih ⊢
      rw [ih]
      cases decide (z.1 = u) <;> cases decide (x.1 = u) <;> simp

/-- updating the child under key `t` and sorted insertion of an entry with another key commute -/
theorem updL_insSorted (x : Suf × Node) (t : Suf) (ts : List Suf) (k : Key) (hne : x.1 ≠ t) : ∀ (l : List (Suf × Node)),
    updL (insSorted x l) t ts k = insSorted x (updL l t ts k) := by
  intro l
  induction l with
  | nil =>
    obtain ⟨xs, xc⟩ := x
    simp only [insSorted, updL]
    simp at hne
    simp [hne, updL]
  | cons z zs ih =>
    obtain ⟨xs, xc⟩ := x
    obtain ⟨zs', zc⟩ := z
    simp only at hne
    by_cases hxz : sufLess xs zs' = true
    · have e1 : insSorted (xs, xc) ((zs', zc) :: zs) = (xs, xc) :: (zs', zc) :: zs := by simp [insSorted, hxz]
      rw [e1]
      by_cases hz : zs' = t
      · subst hz
        simp [updL, hne, insSorted, hxz]
      · simp [updL, hne, hz, insSorted, hxz]
    · have e1 : insSorted (xs, xc) ((zs', zc) :: zs) = (zs', zc) :: insSorted (xs, xc) zs := by simp [insSorted, hxz]
      rw [e1]
      by_cases hz : zs' = t
      · subst hz
        simp [updL, insSorted, hxz]
      · simp only [updL, hz, if_false, insSorted, hxz, Bool.false_eq_true]
        rw [ih]

/-- updating the child under a key that was just inserted -/
theorem updL_insSorted_same (t : Suf) (c : Node) (us : List Suf) (kb : Key) : ∀ (l : List (Suf × Node)),
    hasSuf t l = false → updL (insSorted (t, c) l) t us kb = insSorted (t, insertN c us kb) l := by
  intro l
  induction l with
  | nil => intro _; simp [insSorted, updL]
  | cons z zs ih =>
    intro h
    obtain ⟨zs', zc⟩ := z
    simp only [hasSuf, List.any_cons, Bool.or_eq_false_iff, decide_eq_false_iff_not] at h
    simp only [insSorted]
    by_cases hxz : sufLess t zs' = true
    · simp [hxz, updL]
    · simp only [hxz, if_false, Bool.false_eq_true, updL, h.1]
      rw [ih (by simpa [hasSuf] using h.2)]

/-- updates under two different keys commute -/
theorem updL_comm (t u : Suf) (hne : t ≠ u) (ts us : List Suf) (ka kb : Key) : ∀ (l : List (Suf × Node)),
    updL (updL l t ts ka) u us kb = updL (updL l u us kb) t ts ka := by
  intro l
  induction l with
  | nil => simp [updL]
  | cons z zs ih =>
    obtain ⟨zs', zc⟩ := z
    by_cases h1 : zs' = t
    · subst h1
      have : ¬ zs' = u := hne
      simp [updL, this]
    · by_cases h2 : zs' = u
      · subst h2
        simp [updL, h1]
      · simp [updL, h1, h2, ih]

/-- merging two chains is symmetric -/
theorem chain_comm : ∀ (ts us : List Suf) (ka kb : Key), ts ≠ us →
    insertN (chain ts ka) us kb = insertN (chain us kb) ts ka
  | [], [], _, _, h => absurd rfl h
  | [], u :: us, ka, kb, _ => by simp [chain, insertN, hasSuf, insSorted]
  | t :: ts, [], ka, kb, _ => by simp [chain, insertN, hasSuf, insSorted]
  | t :: ts, u :: us, ka, kb, h => by
    by_cases htu : t = u
    · subst htu
      have hne : ts ≠ us := fun e => h (by rw [e])
      simp [chain, insertN, hasSuf, updL, chain_comm ts us ka kb hne]
    · have hut : ¬ u = t := fun e => htu e.symm
      simp only [chain, insertN, hasSuf, List.any_cons, List.any_nil, Bool.or_false, decide_eq_true_eq, htu, hut, if_false]
      simp only [insSorted]
      rcases sufLess_total htu with hl | hl
      · simp [hl, sufLess_asymm hl]
      · simp [hl, sufLess_asymm hl]

theorem insertN_nil (v : Option Key) (sufs : List (Suf × Node)) (k : Key) : insertN (.mk v sufs) [] k = .mk (some k) sufs := by
  simp [insertN]

theorem insertN_cons (v : Option Key) (sufs : List (Suf × Node)) (t : Suf) (ts : List Suf) (k : Key) :
    insertN (.mk v sufs) (t :: ts) k =
      .mk v (if hasSuf t sufs then updL sufs t ts k else insSorted (t, chain ts k) sufs) := by
  simp only [insertN]
  split <;> rfl

/-- two `Add`s with different suffix paths commute -/
theorem insert_comm :
    (∀ n as ka, ∀ bs kb, as ≠ bs → insertN (insertN n as ka) bs kb = insertN (insertN n bs kb) as ka) ∧
    (∀ l t ts ka, ∀ us kb, ts ≠ us → updL (updL l t ts ka) t us kb = updL (updL l t us kb) t ts ka) := by
  refine insertN.mutual_induct
    (motive_1 := fun n as ka => ∀ bs kb, as ≠ bs → insertN (insertN n as ka) bs kb = insertN (insertN n bs kb) as ka)
    (motive_2 := fun l t ts ka => ∀ us kb, ts ≠ us → updL (updL l t ts ka) t us kb = updL (updL l t us kb) t ts ka)
    ?c1 ?c2 ?c3 ?c4 ?c5 ?c6
  case c1 =>
    intro v sufs ka bs kb hne
    cases bs with
    | nil => exact absurd rfl hne
    | cons u us => simp only [insertN_nil, insertN_cons]
  case c2 =>
    intro v sufs t ts ka hhas ih bs kb hne
    cases bs with
    | nil => simp only [insertN_nil, insertN_cons]
    | cons u us =>
      simp only [insertN_cons, hhas, if_true]
      by_cases hut : u = t
      · subst hut
        have hne' : ts ≠ us := fun e => hne (by rw [e])
        simp only [hasSuf_updL, hhas, if_true]
        rw [ih us kb hne']
      · have htu : t ≠ u := fun e => hut e.symm
        by_cases hu : hasSuf u sufs = true
        · simp only [hasSuf_updL, hu, hhas, if_true]
          rw [updL_comm t u htu]
        · simp only [hasSuf_updL, hu, if_false, Bool.false_eq_true]
          have : hasSuf t (insSorted (u, chain us kb) sufs) = true := by
            rw [hasSuf_insSorted]; simp [hhas]
          simp only [this, if_true]
          rw [updL_insSorted _ t ts ka (by simpa using hut)]
  case c3 =>
    intro v sufs t ts ka hhas bs kb hne
    have hhas' : hasSuf t sufs = false := hasSuf_false_of_not hhas
    cases bs with
    | nil => simp only [insertN_nil, insertN_cons]
    | cons u us =>
      simp only [insertN_cons, hhas', Bool.false_eq_true, if_false]
      by_cases hut : u = t
      · subst hut
        have hne' : ts ≠ us := fun e => hne (by rw [e])
        have h1 : ∀ c, hasSuf u (insSorted (u, c) sufs) = true := by
          intro c; rw [hasSuf_insSorted]; simp
        simp only [h1, if_true, hhas', Bool.false_eq_true, if_false]
        rw [updL_insSorted_same u _ us kb sufs hhas', updL_insSorted_same u _ ts ka sufs hhas', chain_comm ts us ka kb hne']
      · have htu : t ≠ u := fun e => hut e.symm
        by_cases hu : hasSuf u sufs = true
        · have h1 : hasSuf u (insSorted (t, chain ts ka) sufs) = true := by
            rw [hasSuf_insSorted]; simp [hu]
          simp only [h1, hu, if_true, hasSuf_updL, hhas', Bool.false_eq_true, if_false]
          rw [updL_insSorted _ u us kb (by simpa using htu)]
        · have hu' : hasSuf u sufs = false := hasSuf_false_of_not hu
          have h1 : hasSuf u (insSorted (t, chain ts ka) sufs) = false := by
            rw [hasSuf_insSorted]; simp [hu', htu]
          have h2 : hasSuf t (insSorted (u, chain us kb) sufs) = false := by
            rw [hasSuf_insSorted]; simp [hhas', hut]
          simp only [h1, h2, hu', Bool.false_eq_true, if_false]
          rw [insSorted_comm _ _ (by simpa using hut)]
  case c4 => intro t ts ka us kb _; simp [updL]
  case c5 =>
    intro child rest t ts ka ih us kb hne
    simp only [updL, if_true]
    rw [ih us kb hne]
  case c6 =>
    intro s child rest t ts ka hne' ih us kb hne
    simp only [updL, hne', if_false]
    rw [ih us kb hne]

/-- no two different keys of the list share a suffix path -/
def NoCollision (ks : List Key) : Prop := ∀ a ∈ ks, ∀ b ∈ ks, a.sufs = b.sufs → a = b

theorem noCollision_of_keyCollision {ks : List Key} (h : keyCollision ks = false) : NoCollision ks := by
  intro a ha b hb hs
  cases hab : decide (a = b) with
  | true => exact of_decide_eq_true hab
  | false =>
    exfalso
    have hne : a ≠ b := of_decide_eq_false hab
    have : keyCollision ks = true := by
      simp only [keyCollision, List.any_eq_true, Bool.and_eq_true, decide_eq_true_eq]
      exact ⟨a, ha, b, hb, by simpa using hne, hs⟩
    rw [h] at this
    exact absurd this (by decide)

theorem build_perm {ks ks' : List Key} (hp : ks.Perm ks') : NoCollision ks → ∀ root, buildFrom root ks = buildFrom root ks' := by
  induction hp with
  | nil => intro _ _; rfl
  | cons x _ ih =>
    intro hnc root
    simp only [buildFrom, List.foldl_cons]
    exact ih (fun a ha b hb => hnc a (by simp [ha]) b (by simp [hb])) _
  | swap x y l =>
    intro hnc root
    simp only [buildFrom, List.foldl_cons]
    by_cases hxy : x = y
    · subst hxy; rfl
    · have hs : y.sufs ≠ x.sufs := fun e => hxy (hnc y (by simp) x (by simp) e).symm
      rw [insert_comm.1 root y.sufs y x.sufs x hs]
  | trans h1 _ ih1 ih2 =>
    intro hnc root
    rw [ih1 hnc root]
    exact ih2 (fun a ha b hb => hnc a (h1.mem_iff.2 ha) b (h1.mem_iff.2 hb)) root

end KinModel.Router
