/- Helper lemmas for property C06: decimal texts (encoder side) parse back (strconv model). -/
import KinModel.Body
namespace KinModel.Body

theorem digitVal_digitChar (d : Nat) (h : d < 10) : digitVal (digitChar d) = some d := by
  have : d = 0 ∨ d = 1 ∨ d = 2 ∨ d = 3 ∨ d = 4 ∨ d = 5 ∨ d = 6 ∨ d = 7 ∨ d = 8 ∨ d = 9 := by omega
  rcases this with rfl | rfl | rfl | rfl | rfl | rfl | rfl | rfl | rfl | rfl <;> decide

theorem digitChar_not_sign (d : Nat) (h : d < 10) : digitChar d ≠ '-' ∧ digitChar d ≠ '+' := by
  have : d = 0 ∨ d = 1 ∨ d = 2 ∨ d = 3 ∨ d = 4 ∨ d = 5 ∨ d = 6 ∨ d = 7 ∨ d = 8 ∨ d = 9 := by omega
  rcases this with rfl | rfl | rfl | rfl | rfl | rfl | rfl | rfl | rfl | rfl <;> decide

theorem readNatAux_append (xs ys : List Char) (acc : Nat) :
    readNatAux (xs ++ ys) acc = (readNatAux xs acc).bind (fun a => readNatAux ys a) := by
  induction xs generalizing acc with
  | nil => simp [readNatAux]
  | cons c cs ih =>
    simp only [List.cons_append, readNatAux]
    cases digitVal c with
    | none => simp
    | some d => simp [ih]

theorem showNatAux_length (f m : Nat) (acc : List Char) :
    (showNatAux f m acc).length = (showNatAux f m []).length + acc.length := by
  induction f generalizing m acc with
  | zero => simp [showNatAux]
  | succ f ih =>
    simp only [showNatAux]
    split
    · simp; omega
    · rw [ih (m / 10) (digitChar (m % 10) :: acc), ih (m / 10) [digitChar (m % 10)]]; simp; omega

theorem read_showAux : ∀ (fuel n : Nat) (acc : List Char) (a0 : Nat), n < fuel →
    readNatAux (showNatAux fuel n acc) a0 = readNatAux acc (a0 * 10 ^ (showNatAux fuel n []).length + n)
  | 0, _, _, _, h => by omega
  | fuel + 1, n, acc, a0, h => by
    by_cases hn : n < 10
    · simp [showNatAux, hn, readNatAux, digitVal_digitChar n hn]
    · have hlt : n / 10 < fuel := by omega
      have ih1 := read_showAux fuel (n / 10) (digitChar (n % 10) :: acc) a0 hlt
      have hlen : (showNatAux fuel (n / 10) [digitChar (n % 10)]).length = (showNatAux fuel (n / 10) []).length + 1 := by
        simpa using showNatAux_length fuel (n / 10) [digitChar (n % 10)]
      simp only [showNatAux, hn, if_false]
      rw [ih1]
      simp only [readNatAux, digitVal_digitChar (n % 10) (Nat.mod_lt _ (by omega))]
      rw [hlen]
      congr 1
      have e : a0 * 10 ^ ((showNatAux fuel (n / 10) []).length + 1) = (a0 * 10 ^ (showNatAux fuel (n / 10) []).length) * 10 := by
        rw [Nat.pow_succ, Nat.mul_assoc]
      rw [e]
      generalize a0 * 10 ^ (showNatAux fuel (n / 10) []).length = X
      omega

/-- the most significant character of a decimal text is a digit -/
theorem showNatAux_head : ∀ (fuel n : Nat) (acc : List Char), n < fuel →
    ∃ d cs, d < 10 ∧ showNatAux fuel n acc = digitChar d :: cs
  | 0, _, _, h => by omega
  | fuel + 1, n, acc, h => by
    by_cases hn : n < 10
    · exact ⟨n, acc, hn, by simp [showNatAux, hn]⟩
    · simp only [showNatAux, hn, if_false]
      exact showNatAux_head fuel (n / 10) _ (by omega)

theorem showNat_head (n : Nat) : ∃ d cs, d < 10 ∧ showNat n = digitChar d :: cs :=
  showNatAux_head (n + 1) n [] (by omega)

theorem readNat_showNat (n : Nat) : readNat (showNat n) = some n := by
  have h := read_showAux (n + 1) n [] 0 (by omega)
  simp [readNatAux] at h
  obtain ⟨d, cs, _, hs⟩ := showNat_head n
  unfold readNat
  rw [hs]
  simp only
  rw [← hs]
  exact h

theorem readInt_showNat (n : Nat) : readInt (showNat n) = some (n : Int) := by
  obtain ⟨d, cs, hd, hs⟩ := showNat_head n
  have := digitChar_not_sign d hd
  unfold readInt
  rw [hs]
  split
  · rename_i h; simp at h; exact absurd h.1 this.1
  · rename_i h; simp at h; exact absurd h.1 this.2
  · rw [← hs, readNat_showNat]; rfl

theorem readInt_showInt (n : Int) : readInt (showInt n) = some n := by
  unfold showInt
  by_cases h : n < 0
  · have e : (((-n).toNat : Nat) : Int) = -n := Int.toNat_of_nonneg (by omega)
    rw [if_pos h]
    show (readNat (showNat (-n).toNat)).map (fun k => -(k : Int)) = some n
    rw [readNat_showNat]
    show some (-(((-n).toNat : Nat) : Int)) = some n
    rw [e]; congr 1; omega
  · have e : ((n.toNat : Nat) : Int) = n := Int.toNat_of_nonneg (by omega)
    rw [if_neg h, readInt_showNat, e]

theorem readNat_dotFive (xs : List Char) : readNat (xs ++ dotFive) = none := by
  have h : ∀ acc, readNatAux (xs ++ dotFive) acc = none := by
    intro acc
    rw [readNatAux_append]
    cases readNatAux xs acc with
    | none => rfl
    | some a =>
      have hd : digitVal '.' = none := by decide
      simp [dotFive, readNatAux, hd]
  unfold readNat
  cases hx : xs ++ dotFive with
  | nil => rfl
  | cons c cs => simp only; rw [← hx]; exact h 0

theorem readInt_dotFive_digits (n : Nat) : readInt (showNat n ++ dotFive) = none := by
  obtain ⟨d, cs, hd, hs⟩ := showNat_head n
  have := digitChar_not_sign d hd
  unfold readInt
  rw [hs]
  simp only [List.cons_append]
  split
  · rename_i h; simp at h; exact absurd h.1 this.1
  · rename_i h; simp at h; exact absurd h.1 this.2
  · rw [← List.cons_append, ← hs, readNat_dotFive]; rfl

theorem stripDotFive_append (xs : List Char) : stripDotFive (xs ++ dotFive) = some xs := by
  unfold stripDotFive
  have hl : (xs ++ dotFive).length = xs.length + 2 := by simp [dotFive]
  have h1 : (xs ++ dotFive).length - 2 = xs.length := by omega
  rw [h1]
  simp [hl]

theorem readNum_showInt (n : Int) : readNum (showInt n) = some (.int n) := by
  unfold readNum; rw [readInt_showInt]

theorem readHalf_showNat (k : Nat) : readHalf (showNat k) = some (.half (k : Int)) := by
  obtain ⟨d, cs, hd, hs⟩ := showNat_head k
  have := digitChar_not_sign d hd
  unfold readHalf
  rw [hs]
  split
  · rename_i h; simp at h; exact absurd h.1 this.1
  · rename_i h; simp at h; exact absurd h.1 this.2
  · rw [← hs, readNat_showNat]; rfl

theorem readNum_half (n : Int) (txt : Str) (h : showPrim (.half n) = some txt) : readNum txt = some (.half n) := by
  simp only [showPrim, Option.some.injEq] at h
  subst h
  unfold readNum
  by_cases hn : n < 0
  · simp only [hn, if_true]
    have h1 : readInt ('-' :: (showNat (-(n + 1)).toNat ++ dotFive)) = none := by
      simp [readInt, readNat_dotFive]
    rw [h1]
    have h2 : stripDotFive ('-' :: (showNat (-(n + 1)).toNat ++ dotFive)) = some ('-' :: showNat (-(n + 1)).toNat) := by
      rw [← List.cons_append]; exact stripDotFive_append _
    have e : (((-(n + 1)).toNat : Nat) : Int) = -(n + 1) := Int.toNat_of_nonneg (by omega)
    rw [h2]
    show (readNat (showNat (-(n + 1)).toNat)).map (fun k => V.half (-(k : Int) - 1)) = some (.half n)
    rw [readNat_showNat]
    show some (V.half (-(((-(n + 1)).toNat : Nat) : Int) - 1)) = some (.half n)
    rw [e]; congr 2; omega
  · simp only [hn, if_false]
    have e : ((n.toNat : Nat) : Int) = n := Int.toNat_of_nonneg (by omega)
    rw [readInt_dotFive_digits, stripDotFive_append]
    show readHalf (showNat n.toNat) = some (.half n)
    rw [readHalf_showNat, e]

/-- a primitive value's text encodes that value under each type the value has -/
theorem encodesPrim_showPrim (t : Ty) (v : V) (txt : Str) (ht : hasTy t v = true) (hs : showPrim v = some txt) :
    encodesPrim t txt = some v := by
  cases v with
  | null => simp [hasTy] at ht
  | arr _ => simp [hasTy] at ht
  | obj _ => simp [hasTy] at ht
  | str s =>
    simp only [hasTy, beq_iff_eq] at ht; subst ht
    simp only [showPrim, Option.some.injEq] at hs; subst hs; rfl
  | bool b =>
    simp only [hasTy, beq_iff_eq] at ht; subst ht
    simp only [showPrim, Option.some.injEq] at hs; subst hs
    have h1 : readBool ['t', 'r', 'u', 'e'] = some true := by decide
    have h2 : readBool ['f', 'a', 'l', 's', 'e'] = some false := by decide
    cases b <;> simp [encodesPrim, h1, h2]
  | int n =>
    simp only [showPrim, Option.some.injEq] at hs; subst hs
    simp only [hasTy, Bool.or_eq_true, beq_iff_eq] at ht
    rcases ht with rfl | rfl
    · simp [encodesPrim, readInt_showInt]
    · simp [encodesPrim, readNum_showInt]
  | half n =>
    simp only [hasTy, beq_iff_eq] at ht; subst ht
    simp only [encodesPrim]
    exact readNum_half n txt hs

theorem encodesAll_showAll (t : Ty) (vs : List V) (ts : List Str) (ht : ∀ x ∈ vs, hasTy t x = true)
    (hs : showAll vs = some ts) : encodesAll t ts = some vs := by
  induction vs generalizing ts with
  | nil => simp [showAll] at hs; subst hs; rfl
  | cons v r ih =>
    unfold showAll at hs
    cases h1 : showPrim v with
    | none => simp [h1] at hs
    | some tx =>
      cases h2 : showAll r with
      | none => simp [h1, h2] at hs
      | some txs =>
        simp only [h1, h2, Option.some.injEq] at hs
        subst hs
        unfold encodesAll
        rw [encodesPrim_showPrim t v tx (ht v (by simp)) h1, ih txs (fun x hx => ht x (by simp [hx])) h2]

theorem splitOn_joinWith (sep : Char) (xs : List Str) (hne : xs ≠ []) (hfree : ∀ x ∈ xs, sep ∉ x) :
    splitOn sep (joinWith sep xs) = xs := by
  have elem : ∀ (x : Str) (rest : Str), sep ∉ x → splitOn sep (x ++ sep :: rest) = x :: splitOn sep rest := by
    intro x rest hx
    induction x with
    | nil => simp [splitOn]
    | cons c cs ih =>
      have hc : c ≠ sep := by intro e; apply hx; simp [e]
      have hcs : sep ∉ cs := by intro e; apply hx; simp [e]
      simp only [List.cons_append, splitOn, hc, if_false, ih hcs]
  have last : ∀ (x : Str), sep ∉ x → splitOn sep x = [x] := by
    intro x hx
    induction x with
    | nil => rfl
    | cons c cs ih =>
      have hc : c ≠ sep := by intro e; apply hx; simp [e]
      have hcs : sep ∉ cs := by intro e; apply hx; simp [e]
      simp only [splitOn, hc, if_false, ih hcs]
  induction xs with
  | nil => exact absurd rfl hne
  | cons x r ih =>
    cases r with
    | nil => simp only [joinWith]; exact last x (hfree x (by simp))
    | cons y r' =>
      simp only [joinWith]
      rw [elem x _ (hfree x (by simp)), ih (by simp) (fun z hz => hfree z (by simp [hz]))]

theorem showAll_length (vs : List V) (ts : List Str) (h : showAll vs = some ts) : ts.length = vs.length := by
  induction vs generalizing ts with
  | nil => simp [showAll] at h; subst h; rfl
  | cons v r ih =>
    unfold showAll at h
    cases h1 : showPrim v with
    | none => simp [h1] at h
    | some tx =>
      cases h2 : showAll r with
      | none => simp [h1, h2] at h
      | some txs => simp only [h1, h2, Option.some.injEq] at h; subst h; simp [ih txs h2]

theorem showPrim_of_hasTy (t : Ty) (v : V) (h : hasTy t v = true) : ∃ txt, showPrim v = some txt := by
  cases v <;> simp [hasTy] at h <;> simp [showPrim]

/-- one property: the fields written by `encodeField` encode the value back -/
theorem specFormProp_encodeField (fields : List (Str × List Str)) (k : Str) (p : RS) (e : Option Enc) (v : V)
    (ts : List Str) (henc : FormEncodable p e v) (hf : encodeField e v = some ts) (hl : lookup k fields = some ts) :
    specDecl fields k p e = some (some v) := by
  unfold FormEncodable at henc
  obtain ⟨hnc, henc⟩ := henc
  unfold specDecl
  simp only [hnc, Bool.false_eq_true, if_false]
  unfold specFormProp
  rw [hl]
  cases hty : p.ty with
  | none => simp [hty] at henc
  | some t =>
    cases t
    case object => simp [hty] at henc
    case array =>
      simp only [hty] at henc
      obtain ⟨it, t, vs, ts0, hit, hitt, _, rfl, hne, htys, hshow, hnemp, hdel⟩ := henc
      have hany : ts0.any (fun x => x.isEmpty) = false := by
        apply Bool.eq_false_iff.mpr
        intro h
        obtain ⟨x, hx, hxe⟩ := List.any_eq_true.mp h
        exact hnemp x hx (List.isEmpty_iff.mp hxe)
      have hlen := showAll_length vs ts0 hshow
      have hts0 : ts0 ≠ [] := by
        intro h0; subst h0; cases vs with
        | nil => exact hne rfl
        | cons _ _ => simp at hlen
      have hdec := encodesAll_showAll t vs ts0 htys hshow
      have hitem : itemTy p = some t := by simp [itemTy, hit, hitt]
      simp only [encodeField, hshow] at hf
      cases hex : smExplode e with
      | true =>
        simp only [hex, if_true, Option.some.injEq] at hf
        subst hf
        cases ts0 with
        | nil => exact absurd rfl hts0
        | cons v0 rest => simp [arrayRaw, hex, hitem, hdec, hany]
      | false =>
        rcases hdel with hd | ⟨d, hd, hfree⟩
        · rw [hex] at hd; cases hd
        · simp only [hex, Bool.false_eq_true, if_false, hd, Option.some.injEq] at hf
          subst hf
          simp [arrayRaw, hex, hd, hitem, splitOn_joinWith d ts0 hts0 hfree, hdec, hany]
    all_goals
      simp only [hty] at henc
      obtain ⟨hhas, hne⟩ := henc
      obtain ⟨txt, htxt⟩ := showPrim_of_hasTy _ v hhas
      have hfv : encodeField e v = some [txt] := by
        cases v <;> simp [hasTy] at hhas <;> simp [encodeField, htxt]
      rw [hfv] at hf
      simp only [Option.some.injEq] at hf
      subst hf
      simp [hne txt htxt, encodesPrim_showPrim _ v txt hhas htxt]

theorem keys_encodeForm_sub (encs : List (Str × Enc)) (val : Str → Option V) (props : List (Str × RS)) (k : Str)
    (h : k ∈ keys (encodeForm encs val props)) : k ∈ keys props := by
  induction props with
  | nil => simp [encodeForm, keys] at h
  | cons x r ih =>
    obtain ⟨k0, p0⟩ := x
    unfold encodeForm at h
    cases hx : (val k0).bind (encodeField (lookup k0 encs)) with
    | none =>
      simp only [hx] at h
      show k ∈ k0 :: keys r
      exact List.mem_cons_of_mem _ (ih h)
    | some ts =>
      simp only [hx] at h
      have h' : k = k0 ∨ k ∈ keys (encodeForm encs val r) := by
        have : k ∈ k0 :: keys (encodeForm encs val r) := h
        simpa using this
      show k ∈ k0 :: keys r
      rcases h' with h' | h'
      · subst h'; simp
      · exact List.mem_cons_of_mem _ (ih h')

theorem lookup_none_of_not_mem_keys' {α : Type} (k : Str) (l : List (Str × α)) (h : k ∉ keys l) :
    lookup k l = none := by
  induction l with
  | nil => rfl
  | cons x r ih =>
    obtain ⟨k', v'⟩ := x
    simp [keys] at h ih
    unfold lookup
    simp [h.1, ih h.2]

theorem lookup_encodeForm (encs : List (Str × Enc)) (val : Str → Option V) (props : List (Str × RS)) (k : Str)
    (hk : k ∈ keys props) (hnd : (keys props).Nodup) :
    lookup k (encodeForm encs val props) = (val k).bind (encodeField (lookup k encs)) := by
  induction props with
  | nil => simp [keys] at hk
  | cons x r ih =>
    obtain ⟨k0, p0⟩ := x
    simp only [keys, List.map_cons, List.nodup_cons] at hnd
    unfold encodeForm
    by_cases hkk : k = k0
    · subst hkk
      cases hx : (val k).bind (encodeField (lookup k encs)) with
      | none =>
        simp only []
        apply lookup_none_of_not_mem_keys'
        intro hmem
        exact hnd.1 (keys_encodeForm_sub encs val r k hmem)
      | some ts => simp [lookup]
    · have hk' : k ∈ keys r := by
        simp [keys] at hk ⊢
        rcases hk with h | h
        · exact absurd h hkk
        · exact h
      cases hx : (val k0).bind (encodeField (lookup k0 encs)) with
      | none => simp only []; exact ih hk' hnd.2
      | some ts => simp only [lookup, hkk, if_false]; exact ih hk' hnd.2

theorem encodeField_of_encodable (p : RS) (e : Option Enc) (v : V) (h : FormEncodable p e v) :
    ∃ ts, encodeField e v = some ts := by
  unfold FormEncodable at h
  replace h := h.2
  cases hty : p.ty with
  | none => simp [hty] at h
  | some t =>
    cases t
    case object => simp [hty] at h
    case array =>
      simp only [hty] at h
      obtain ⟨it, t, vs, ts0, _, _, _, rfl, _, _, hshow, _, hdel⟩ := h
      simp only [encodeField, hshow]
      rcases hdel with hd | ⟨d, hd, _⟩
      · simp [hd]
      · cases smExplode e <;> simp [hd]
    all_goals
      simp only [hty] at h
      obtain ⟨txt, htxt⟩ := showPrim_of_hasTy _ v h.1
      have hhas := h.1
      cases v <;> simp [hasTy] at hhas <;> simp [encodeField, htxt]

end KinModel.Body
