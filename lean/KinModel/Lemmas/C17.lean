/-
Helper lemmas for C17 (not properties): record/table algebra and the induction principle of schema trees.
-/
import KinModel.Conv
namespace KinModel.Conv

/-! ### tables -/

/-- no destination field is assigned twice -/
def NoDupDst : List (String × String) → Bool
  | [] => true
  | (d, _) :: r => (lookupSrc d r).isNone && NoDupDst r

/-- the source field a destination field is read from through a chain of copies (first table applied first) -/
def pathSrc : List (List (String × String)) → String → Option String
  | [], f => some f
  | t :: ts, f => (pathSrc ts f).bind (fun m => lookupSrc m t)

def convs {V : Type} : List (List (String × String)) → Rec V → Rec V
  | [], r => r
  | t :: ts, r => convs ts (conv t r)

/-- the table of `normRec` -/
def idTable (fields : List String) : List (String × String) := fields.map (fun f => (f, f))

theorem normRec_eq_conv {V : Type} (fields : List String) (r : Rec V) :
    normRec fields r = conv (idTable fields) r := by
  simp [normRec, conv, idTable, List.filterMap_map, Function.comp_def]

theorem rlookup_conv_none {V : Type} (f : String) (t : List (String × String)) (r : Rec V)
    (h : lookupSrc f t = none) : rlookup f (conv t r) = none := by
  induction t with
  | nil => simp [conv, rlookup]
  | cons row rest ih =>
    obtain ⟨d, s⟩ := row
    simp only [lookupSrc] at h
    split at h
    · simp at h
    · rename_i hne
      have ih' := ih h
      simp only [conv, List.filterMap_cons] at ih' ⊢
      cases hs : rlookup s r with
      | none => simpa [hs] using ih'
      | some v => simp [rlookup, hne]; exact ih'

theorem rlookup_conv {V : Type} (f : String) (t : List (String × String)) (r : Rec V)
    (hnd : NoDupDst t = true) : rlookup f (conv t r) = (lookupSrc f t).bind (fun s => rlookup s r) := by
  induction t with
  | nil => simp [conv, rlookup, lookupSrc]
  | cons row rest ih =>
    obtain ⟨d, s⟩ := row
    simp only [NoDupDst, Bool.and_eq_true, Option.isNone_iff_eq_none] at hnd
    have ih' := ih hnd.2
    simp only [conv, List.filterMap_cons] at ih' ⊢
    simp only [lookupSrc]
    by_cases hfd : f = d
    · subst hfd
      simp only [if_true, Option.bind_some]
      cases hs : rlookup s r with
      | none =>
        simp only [Option.map_none]
        have := rlookup_conv_none f rest r hnd.1
        simpa [conv] using this
      | some v => simp [rlookup]
    · simp only [hfd, if_false]
      cases hs : rlookup s r with
      | none => simpa using ih'
      | some v => simp [rlookup, hfd]; exact ih'

theorem rlookup_convs {V : Type} (f : String) (ts : List (List (String × String))) (r : Rec V)
    (hnd : ts.all NoDupDst = true) : rlookup f (convs ts r) = (pathSrc ts f).bind (fun s => rlookup s r) := by
  induction ts generalizing r with
  | nil => simp [convs, pathSrc]
  | cons t rest ih =>
    simp only [List.all_cons, Bool.and_eq_true] at hnd
    simp only [convs, pathSrc]
    rw [ih (conv t r) hnd.2]
    cases h : pathSrc rest f with
    | none => simp
    | some m => simp [rlookup_conv m t r hnd.1]

theorem normRec_congr {V : Type} (fields : List String) (r1 r2 : Rec V)
    (h : ∀ f ∈ fields, rlookup f r1 = rlookup f r2) : normRec fields r1 = normRec fields r2 := by
  unfold normRec
  induction fields with
  | nil => rfl
  | cons f rest ih =>
    have h1 := h f (by simp)
    have h2 := ih (fun g hg => h g (by simp [hg]))
    simp only [List.filterMap_cons, h1, h2]

/-- two chains of copies that read every field of `fields` from the same source field agree on `fields` -/
theorem normRec_convs_eq {V : Type} (fields : List String) (ts1 ts2 : List (List (String × String))) (r : Rec V)
    (h1 : ts1.all NoDupDst = true) (h2 : ts2.all NoDupDst = true)
    (hp : fields.all (fun f => pathSrc ts1 f == pathSrc ts2 f) = true) :
    normRec fields (convs ts1 r) = normRec fields (convs ts2 r) := by
  apply normRec_congr
  intro f hf
  rw [rlookup_convs f ts1 r h1, rlookup_convs f ts2 r h2]
  simp only [List.all_eq_true, beq_iff_eq] at hp
  rw [hp f hf]

/-! ### schema trees -/

theorem Sch.induct {V : Type} {P : Sch V → Prop} {Q : List (Slot × Sch V) → Prop}
    (ref : ∀ k n, P (.ref k n)) (node : ∀ h kids, Q kids → P (.node h kids))
    (nil : Q []) (cons : ∀ sl c rest, P c → Q rest → Q ((sl, c) :: rest)) :
    (∀ s, P s) ∧ (∀ ks, Q ks) := by
  constructor
  · intro s
    exact Sch.rec (motive_1 := P) (motive_2 := Q) (motive_3 := fun p => P p.2)
      ref (fun h kids ih => node h kids ih) nil
      (fun head tail ih1 ih2 => by obtain ⟨sl, c⟩ := head; exact cons sl c tail ih1 ih2)
      (fun _ c ih => ih) s
  · intro ks
    exact Sch.rec_1 (motive_1 := P) (motive_2 := Q) (motive_3 := fun p => P p.2)
      ref (fun h kids ih => node h kids ih) nil
      (fun head tail ih1 ih2 => by obtain ⟨sl, c⟩ := head; exact cons sl c tail ih1 ih2)
      (fun _ c ih => ih) ks

end KinModel.Conv

namespace KinModel.Conv

/-! ### heads -/

theorem fileToBinary_idem (ty fmt : Option String) :
    fileToBinary (fileToBinary ty fmt).1 (fileToBinary ty fmt).2 = fileToBinary ty fmt := by
  unfold fileToBinary
  by_cases h : ty = some "file"
  · simp [h]
  · simp [h]

theorem sc_toV3 {V : Type} (r : Rec V) :
    normRec constraintFields (conv toV3SchemaTable r) = normRec constraintFields r :=
  normRec_convs_eq constraintFields [toV3SchemaTable] [] r (by decide) (by decide) (by decide)

theorem sc_roundtrip {V : Type} (r : Rec V) :
    normRec constraintFields (conv fromV3SchemaTable (conv toV3SchemaTable r)) = normRec constraintFields r :=
  normRec_convs_eq constraintFields [toV3SchemaTable, fromV3SchemaTable] [] r (by decide) (by decide) (by decide)

theorem abs3Hd_toV3Hd {V : Type} (h : Hd V) : abs3Hd (toV3Hd h) = abs2Hd h := by
  simp [abs3Hd, toV3Hd, abs2Hd, sc_toV3]

theorem abs2Hd_roundtrip {V : Type} (h : Hd V) :
    abs2Hd (fromV3Hd (toV3Hd h)) = abs2Hd h := by
  simp [abs2Hd, fromV3Hd, toV3Hd, sc_roundtrip, fileToBinary_idem]

end KinModel.Conv

namespace KinModel.Conv

theorem refsOf_v2 {V : Type} (s : Sch V) (h : v2Refs s = true) : ∀ k ∈ refsOf s, k.isV2 = true := by
  refine (Sch.induct (P := fun s => v2Refs s = true → ∀ k ∈ refsOf s, k.isV2 = true)
    (Q := fun ks => v2RefsKids ks = true → ∀ k ∈ refsOfKids ks, k.isV2 = true) ?_ ?_ ?_ ?_).1 s h
  · intro k n h; simpa [refsOf, v2Refs] using h
  · intro hd kids ih h
    simp only [v2Refs, Bool.and_eq_true] at h
    simpa [refsOf] using ih h.2
  · intro _; simp [refsOfKids]
  · intro sl c rest ihc ihr h
    simp only [v2RefsKids, Bool.and_eq_true] at h
    simp only [refsOfKids, List.mem_append]
    rintro k (hk | hk)
    · exact ihc h.1 k hk
    · exact ihr h.2 k hk

end KinModel.Conv

namespace KinModel.Conv

/-! ### parameter records -/

theorem sc_param_toV3 {V : Type} (r : Rec V) :
    normRec constraintFields (conv toV3SchemaTable (conv toV3ParamTable r)) =
    normRec constraintFields (normRec paramConstraintFields r) := by
  rw [normRec_eq_conv paramConstraintFields]
  exact normRec_convs_eq constraintFields [toV3ParamTable, toV3SchemaTable] [idTable paramConstraintFields] r
    (by decide) (by decide) (by decide)

theorem sc_param_roundtrip {V : Type} (r : Rec V) :
    normRec constraintFields (normRec paramConstraintFields
      (conv fromV3ParamTable (conv fromV3SchemaTable (conv toV3SchemaTable (conv toV3ParamTable r))))) =
    normRec constraintFields (normRec paramConstraintFields r) := by
  rw [normRec_eq_conv paramConstraintFields, normRec_eq_conv paramConstraintFields]
  exact normRec_convs_eq constraintFields
    [toV3ParamTable, toV3SchemaTable, fromV3SchemaTable, fromV3ParamTable, idTable paramConstraintFields]
    [idTable paramConstraintFields] r (by decide) (by decide) (by decide)

theorem sc_form_toV3 {V : Type} (r : Rec V) :
    normRec constraintFields (conv toV3FormTable r) =
    normRec constraintFields (normRec paramConstraintFields r) := by
  rw [normRec_eq_conv paramConstraintFields]
  exact normRec_convs_eq constraintFields [toV3FormTable] [idTable paramConstraintFields] r
    (by decide) (by decide) (by decide)

theorem meta_toV3 {V : Type} (r : Rec V) :
    normRec opMetaFields (conv toV3OpTable r) = normRec opMetaFields r :=
  normRec_convs_eq opMetaFields [toV3OpTable] [] r (by decide) (by decide) (by decide)

theorem meta_roundtrip {V : Type} (r : Rec V) :
    normRec opMetaFields (conv fromV3OpTable (conv toV3OpTable r)) = normRec opMetaFields r :=
  normRec_convs_eq opMetaFields [toV3OpTable, fromV3OpTable] [] r (by decide) (by decide) (by decide)

theorem sc_form_roundtrip {V : Type} (r : Rec V) :
    normRec constraintFields (normRec paramConstraintFields (conv fromV3FormTable (conv toV3FormTable r))) =
    normRec constraintFields (normRec paramConstraintFields r) := by
  rw [normRec_eq_conv paramConstraintFields, normRec_eq_conv paramConstraintFields]
  exact normRec_convs_eq constraintFields [toV3FormTable, fromV3FormTable, idTable paramConstraintFields]
    [idTable paramConstraintFields] r (by decide) (by decide) (by decide)

end KinModel.Conv

namespace KinModel.Conv

theorem any_scheme_map (host B c : String) (E : List String) :
    (E.map (fun sch => ({ scheme := sch, host := host, base := B } : Server))).any (fun s => s.scheme == c) = E.contains c := by
  induction E with
  | nil => rfl
  | cons a r ih =>
    simp only [List.map_cons, List.any_cons, List.contains_cons, ih]
    congr 1
    exact Bool.beq_comm

theorem Api_ext {V : Type} (a b : Api V) (h1 : a.ops = b.ops) (h2 : a.pathParams = b.pathParams)
    (h3 : a.shared = b.shared) (h4 : a.sharedResponses = b.sharedResponses) (h5 : a.defs = b.defs)
    (h6 : a.servers = b.servers) (h7 : a.security = b.security) (h8 : a.securityReq = b.securityReq) : a = b := by
  cases a; cases b; simp_all

end KinModel.Conv

namespace KinModel.Conv

/-! ### lists, association lists, result monads -/

theorem mapRes_ok {α β : Type} (f : α → Res β) (g : α → β) (l : List α) (h : ∀ a ∈ l, f a = .ok (g a)) :
    mapRes f l = .ok (l.map g) := by
  induction l with
  | nil => rfl
  | cons a rest ih =>
    have h1 := h a (by simp)
    have h2 := ih (fun b hb => h b (by simp [hb]))
    simp [mapRes, h1, h2]

theorem ainsert_fresh {α : Type} (k : String) (v : α) (l : List (String × α)) (h : alookup k l = none) :
    ainsert k v l = l ++ [(k, v)] := by
  induction l with
  | nil => rfl
  | cons kv rest ih =>
    obtain ⟨k', v'⟩ := kv
    simp only [alookup] at h
    split at h
    · simp at h
    · rename_i hne
      simp [ainsert, hne, ih h]

theorem alookup_append_none {α : Type} (k : String) (l1 l2 : List (String × α))
    (h1 : alookup k l1 = none) (h2 : alookup k l2 = none) : alookup k (l1 ++ l2) = none := by
  induction l1 with
  | nil => simpa using h2
  | cons kv rest ih =>
    obtain ⟨k', v'⟩ := kv
    simp only [alookup] at h1
    split at h1
    · simp at h1
    · rename_i hne
      simp [alookup, hne, ih h1]

theorem alookup_map_none {α β : Type} (k : String) (g : α → β) (l : List (String × α)) (h : alookup k l = none) :
    alookup k (l.map (fun kv => (kv.1, g kv.2))) = none := by
  induction l with
  | nil => rfl
  | cons kv rest ih =>
    obtain ⟨k', v'⟩ := kv
    simp only [alookup] at h
    split at h
    · simp at h
    · rename_i hne
      simp [alookup, hne, ih h]

theorem ainsert_all {α : Type} (P : String → Bool) (k : String) (v : α) (l : List (String × α))
    (hk : P k = true) (hl : l.all (fun kv => P kv.1) = true) : (ainsert k v l).all (fun kv => P kv.1) = true := by
  induction l with
  | nil => simp [ainsert, hk]
  | cons kv rest ih =>
    obtain ⟨k', v'⟩ := kv
    simp only [List.all_cons, Bool.and_eq_true] at hl
    unfold ainsert
    split
    · simp [hk, hl.2]
    · simp [hl.1, ih hl.2]

theorem mapM_some {α β : Type} (f : α → Option β) (g : α → β) (l : List α) (h : ∀ a ∈ l, f a = some (g a)) :
    l.mapM f = some (l.map g) := by
  induction l with
  | nil => rfl
  | cons a rest ih =>
    have h1 := h a (by simp)
    have h2 := ih (fun b hb => h b (by simp [hb]))
    simp [List.mapM_cons, h1, h2]

end KinModel.Conv

namespace KinModel.Conv

theorem foldl_ainsert_nodup {α : Type} (l acc : List (String × α)) (hn : nodupKeys l = true)
    (hacc : ∀ kv ∈ l, alookup kv.1 acc = none) :
    l.foldl (fun acc (kv : String × α) => ainsert kv.1 kv.2 acc) acc = acc ++ l := by
  induction l generalizing acc with
  | nil => simp
  | cons d rest ih =>
    obtain ⟨k, v⟩ := d
    simp only [nodupKeys, Bool.and_eq_true, Option.isNone_iff_eq_none] at hn
    simp only [List.foldl_cons]
    rw [ainsert_fresh k v acc (hacc (k, v) (by simp))]
    rw [ih _ hn.2]
    · simp
    · intro kv hkv
      apply alookup_append_none
      · exact hacc kv (by simp [hkv])
      · obtain ⟨k2, v2⟩ := kv
        by_cases hk : k2 = k
        · subst hk
          have hnone : alookup k2 rest = none := hn.1
          exfalso
          clear ih hacc hn
          induction rest with
          | nil => simp at hkv
          | cons x xs ihx =>
            obtain ⟨kx, vx⟩ := x
            simp only [alookup] at hnone
            split at hnone
            · simp at hnone
            · rename_i hne
              simp only [List.mem_cons, Prod.mk.injEq] at hkv
              rcases hkv with ⟨hk, _⟩ | hkv
              · exact hne hk
              · exact ihx hkv hnone
        · simp [alookup, hk]

/-- a list with distinct keys is what the Go map built from it holds -/
theorem dedupLast_nodup {α : Type} (l : List (String × α)) (hn : nodupKeys l = true) : dedupLast l = l := by
  have := foldl_ainsert_nodup l [] hn (by intro kv _; rfl)
  simpa [dedupLast] using this

theorem nodupKeys_map {α β : Type} (g : α → β) (l : List (String × α)) :
    nodupKeys (l.map (fun kv => (kv.1, g kv.2))) = nodupKeys l := by
  induction l with
  | nil => rfl
  | cons kv rest ih =>
    obtain ⟨k, v⟩ := kv
    simp only [List.map_cons, nodupKeys, ih]
    congr 1
    cases h : alookup k rest with
    | none => simp [alookup_map_none k g rest h]
    | some x =>
      have : (alookup k (rest.map (fun kv => (kv.1, g kv.2)))).isSome = true := by
        clear ih
        induction rest with
        | nil => simp [alookup] at h
        | cons y ys ihy =>
          obtain ⟨ky, vy⟩ := y
          simp only [alookup] at h
          by_cases hk : k = ky
          · simp [alookup, hk]
          · simp only [hk, if_false] at h
            simp [alookup, hk, ihy h]
      cases h2 : alookup k (rest.map (fun kv => (kv.1, g kv.2))) with
      | none => simp [h2] at this
      | some y => simp

end KinModel.Conv
