/-
C03 — the deep round trip `rt` is stable: helper lemmas for the induction over the document tree.
`Inv f` is the invariant carried through `rt T n` (n = 0: nothing returns, so everything holds);
`rtStep_inv : TableOK T → Inv f → Inv (rtStep T f)` is one level; `rt_inv` the induction over the fuel.
-/
import KinModel.Lemmas.C03
namespace KinModel.Marshal

/-! ### lists in `Res` -/

theorem mapR_idem {α : Type} (g : α → Res α) : ∀ (xs ys : List α), mapR g xs = .ok ys →
    (∀ x ∈ xs, ∀ y, g x = .ok y → g y = .ok y) → mapR g ys = .ok ys
  | [], ys, h, _ => by simp only [mapR] at h; cases h; rfl
  | x :: xs, ys, h, hi => by
    simp only [mapR] at h
    cases hx : g x with
    | error e => simp [hx] at h
    | ok y =>
      cases hr : mapR g xs with
      | error e => simp [hx, hr] at h
      | ok ys' =>
        simp only [hx, hr] at h
        cases h
        have h1 := hi x (by simp) y hx
        have h2 := mapR_idem g xs ys' hr (fun x' hx' => hi x' (List.mem_cons_of_mem _ hx'))
        simp only [mapR, h1, h2]

theorem mapR_congr_ok {α β : Type} (g1 g2 : α → Res β) : ∀ (xs : List α) (ys : List β), mapR g1 xs = .ok ys →
    (∀ x ∈ xs, ∀ y, g1 x = .ok y → g2 x = .ok y) → mapR g2 xs = .ok ys
  | [], ys, h, _ => by simp only [mapR] at h ⊢; exact h
  | x :: xs, ys, h, hi => by
    simp only [mapR] at h
    cases hx : g1 x with
    | error e => simp [hx] at h
    | ok y =>
      cases hr : mapR g1 xs with
      | error e => simp [hx, hr] at h
      | ok ys' =>
        simp only [hx, hr] at h
        cases h
        have h1 := hi x (by simp) y hx
        have h2 := mapR_congr_ok g1 g2 xs ys' hr (fun x' hx' => hi x' (List.mem_cons_of_mem _ hx'))
        simp only [mapR, h1, h2]

theorem mapR_length {α β : Type} (g : α → Res β) : ∀ (xs : List α) (ys : List β), mapR g xs = .ok ys →
    ys.length = xs.length
  | [], ys, h => by simp only [mapR] at h; cases h; rfl
  | x :: xs, ys, h => by
    simp only [mapR] at h
    cases hx : g x with
    | error e => simp [hx] at h
    | ok y =>
      cases hr : mapR g xs with
      | error e => simp [hx, hr] at h
      | ok ys' =>
        simp only [hx, hr] at h
        cases h
        simp [mapR_length g xs ys' hr]

/-- every output comes from an input -/
theorem mapR_mem {α β : Type} (g : α → Res β) : ∀ (xs : List α) (ys : List β), mapR g xs = .ok ys →
    ∀ y ∈ ys, ∃ x ∈ xs, g x = .ok y
  | [], ys, h => by simp only [mapR] at h; cases h; intro y hy; cases hy
  | x :: xs, ys, h => by
    simp only [mapR] at h
    cases hx : g x with
    | error e => simp [hx] at h
    | ok y0 =>
      cases hr : mapR g xs with
      | error e => simp [hx, hr] at h
      | ok ys' =>
        simp only [hx, hr] at h
        cases h
        intro y hy
        rcases List.mem_cons.mp hy with e | hy'
        · subst e; exact ⟨x, by simp, hx⟩
        · obtain ⟨x', hx', hg⟩ := mapR_mem g xs ys' hr y hy'
          exact ⟨x', List.mem_cons_of_mem _ hx', hg⟩

/-- a key-preserving map keeps the keys -/
theorem mapR_keys {α : Type} (key : α → String) (g : α → Res (String × JV)) :
    ∀ (xs : List α) (ys : List (String × JV)), mapR g xs = .ok ys →
    (∀ x ∈ xs, ∀ y, g x = .ok y → y.1 = key x) → ys.map (·.1) = xs.map key
  | [], ys, h, _ => by simp only [mapR] at h; cases h; rfl
  | x :: xs, ys, h, hk => by
    simp only [mapR] at h
    cases hx : g x with
    | error e => simp [hx] at h
    | ok y =>
      cases hr : mapR g xs with
      | error e => simp [hx, hr] at h
      | ok ys' =>
        simp only [hx, hr] at h
        cases h
        simp [hk x (by simp) y hx, mapR_keys key g xs ys' hr (fun x' hx' => hk x' (List.mem_cons_of_mem _ hx'))]

theorem wrap_ok {α β : Type} (c : α → β) (r : Res α) (b : β) (h : r.wrap c = .ok b) :
    ∃ a, r = .ok a ∧ b = c a := by
  cases r with
  | error e => simp [Res.wrap] at h
  | ok a => simp only [Res.wrap, Except.ok.injEq] at h; exact ⟨a, rfl, h.symm⟩

/-! ### lookups -/

theorem lookup_none_iff (k : String) : ∀ (o : Obj), lookup k o = none ↔ k ∉ o.map (·.1)
  | [] => by simp [lookup]
  | (k', v) :: r => by
    simp only [lookup, List.map_cons, List.mem_cons, not_or]
    by_cases e : k = k'
    · simp [e]
    · simp [e, lookup_none_iff k r]

theorem lookup_none_of_keys (k : String) (a b : Obj) (h : b.map (·.1) = a.map (·.1))
    (hn : lookup k a = none) : lookup k b = none := by
  rw [lookup_none_iff] at hn ⊢; rw [h]; exact hn

theorem lookup_filter_none (k : String) (p : String × JV → Bool) : ∀ (o : Obj), lookup k o = none →
    lookup k (o.filter p) = none := by
  intro o h
  rw [lookup_none_iff] at h ⊢
  intro hc
  apply h
  obtain ⟨kv, hkv, e⟩ := List.mem_map.mp hc
  exact List.mem_map.mpr ⟨kv, (List.mem_filter.mp hkv).1, e⟩

/-! ### the scope predicate -/

theorem cleanL_iff : ∀ (xs : List JV), cleanL xs = true ↔ ∀ x ∈ xs, x.clean = true
  | [] => by simp [cleanL]
  | x :: r => by simp [cleanL, cleanL_iff r]

theorem cleanO_iff : ∀ (kvs : Obj), cleanO kvs = true ↔ ∀ kv ∈ kvs, kv.2.clean = true
  | [] => by simp [cleanO]
  | (k, v) :: r => by simp [cleanO, cleanO_iff r]

theorem clean_arr (xs : List JV) (h : (JV.arr xs).clean = true) : ∀ x ∈ xs, x.clean = true := by
  rw [JV.clean] at h; exact (cleanL_iff xs).mp h

theorem clean_obj (kvs : Obj) (h : (JV.obj kvs).clean = true) :
    trimmable kvs = false ∧ ∀ kv ∈ kvs, kv.2.clean = true := by
  rw [JV.clean] at h
  simp only [Bool.and_eq_true, Bool.not_eq_true'] at h
  exact ⟨h.1, (cleanO_iff kvs).mp h.2⟩

theorem clean_lookup (kvs : Obj) (h : (JV.obj kvs).clean = true) (k : String) (v : JV)
    (hv : lookup k kvs = some v) : v.clean = true :=
  (clean_obj kvs h).2 (k, v) (lookup_mem k v kvs hv)

theorem clean_nullFix (s : Shape) (v : JV) (h : v.clean = true) : (nullFix s v).clean = true := by
  unfold nullFix
  split
  · simp [JV.clean, cleanO, trimmable, lookup]
  · simp [JV.clean]
  · exact h

theorem clean_empty : (JV.obj []).clean = true := by
  simp [JV.clean, cleanO, trimmable, lookup]

theorem refString_none_of_lookup (kvs : Obj) (h : lookup "$ref" kvs = none) : refString kvs = none := by
  simp [refString, h]


/-! ### the invariant of the induction -/

structure Inv (f : Shape → JV → Res JV) : Prop where
  /-- what comes out is a fixed point -/
  idem : ∀ s v v1, v.clean = true → f s v = .ok v1 → f s v1 = .ok v1
  /-- a value does not become null (except an empty type list) -/
  nn : ∀ s v v1, s ≠ .types → f s v = .ok v1 → v.isNull = false → v1.isNull = false
  leaf : ∀ v v1, f .leaf v = .ok v1 → v1 = v
  /-- a non-empty collection stays non-empty -/
  coll : ∀ s v v1, collShape s = true → f s v = .ok v1 → v.nonEmpty = true → v1.nonEmpty = true
  /-- an object that is not a reference does not become one -/
  noRef : ∀ s kvs kvs1, refSafe s = true → f s (.obj kvs) = .ok (.obj kvs1) → refString kvs = none →
    refString kvs1 = none
  /-- a non-empty string in the output stood in the input -/
  strOrigin : ∀ s v t, s ≠ .types → f s v = .ok (.str t) → t ≠ "" → v = .str t

def TableOK (T : List Desc) : Prop := ∀ d ∈ T, d.deepOK = true

theorem findDesc_mem (T : List Desc) (n : String) (d : Desc) (h : findDesc T n = some d) : d ∈ T :=
  List.mem_of_find?_eq_some h

theorem valueShape_ne_types (T : List Desc) (hT : TableOK T) (n : String) (d : Desc)
    (h : findDesc T n = some d) : d.valueShape ≠ .types := by
  have := hT d (findDesc_mem T n d h)
  unfold Desc.deepOK at this
  simp only [Bool.and_eq_true, bne_iff_ne, ne_eq] at this
  exact this.1.1

theorem valueShape_refSafe (T : List Desc) (hT : TableOK T) (n : String) (d : Desc)
    (h : findDesc T n = some d) : refSafe d.valueShape = true := by
  have := hT d (findDesc_mem T n d h)
  unfold Desc.deepOK at this
  simp only [Bool.and_eq_true] at this
  exact this.1.2

/-! ### `Types` -/

theorem typeElem_str (x y : JV) (h : typeElem x = .ok y) : ∃ s, y = .str s := by
  cases x <;> simp [typeElem] at h
  · exact ⟨"", h.symm⟩
  · exact ⟨_, h.symm⟩

theorem typeElem_idem (x y : JV) (h : typeElem x = .ok y) : typeElem y = .ok y := by
  obtain ⟨s, rfl⟩ := typeElem_str x y h
  rfl

theorem rtTypes_idem (v v1 : JV) (h : rtTypes v = .ok v1) : rtTypes v1 = .ok v1 := by
  cases v with
  | null => simp [rtTypes] at h; subst h; rfl
  | bool b => simp [rtTypes] at h
  | num m e => simp [rtTypes] at h
  | str s => simp [rtTypes] at h; subst h; rfl
  | obj kvs => simp [rtTypes] at h
  | arr xs =>
    simp only [rtTypes] at h
    cases hm : mapR typeElem xs with
    | error e => simp [hm] at h
    | ok ys =>
      rw [hm] at h
      match ys, hm, h with
      | [], _, h => simp at h; subst h; rfl
      | [x], hm, h =>
        simp at h; subst h
        obtain ⟨x0, _, hx0⟩ := mapR_mem typeElem xs [x] hm x (by simp)
        obtain ⟨s, rfl⟩ := typeElem_str x0 x hx0
        rfl
      | x :: y :: r, hm, h =>
        simp at h; subst h
        have := mapR_idem typeElem xs (x :: y :: r) hm (fun a _ b hb => typeElem_idem a b hb)
        simp only [rtTypes, this]

theorem rtTypes_coll (v v1 : JV) (h : rtTypes v = .ok v1) (hn : v.nonEmpty = true) : v1.nonEmpty = true := by
  cases v with
  | null => simp [JV.nonEmpty, JV.isNull] at hn
  | bool b => simp [rtTypes] at h
  | num m e => simp [rtTypes] at h
  | str s => simp [rtTypes] at h; subst h; rfl
  | obj kvs => simp [rtTypes] at h
  | arr xs =>
    simp only [rtTypes] at h
    cases hm : mapR typeElem xs with
    | error e => simp [hm] at h
    | ok ys =>
      rw [hm] at h
      have hl := mapR_length typeElem xs ys hm
      match ys, hm, h, hl with
      | [], _, _, hl =>
        cases xs with
        | nil => simp [JV.nonEmpty, JV.isNull, JV.isEmptyColl] at hn
        | cons a b => simp at hl
      | [x], hm, h, _ =>
        simp at h; subst h
        obtain ⟨x0, _, hx0⟩ := mapR_mem typeElem xs [x] hm x (by simp)
        obtain ⟨s, rfl⟩ := typeElem_str x0 x hx0
        rfl
      | x :: y :: r, _, h, _ =>
        simp at h; subst h; rfl

/-! ### element and entry helpers -/

theorem nullFix_of_not_null (s : Shape) (y : JV) (h : y.isNull = false) : nullFix s y = y := by
  cases y with
  | null => simp [JV.isNull] at h
  | _ => cases s <;> rfl

theorem nullFix_out {f : Shape → JV → Res JV} (hf : Inv f) (s : Shape) (x y : JV)
    (h : f s (nullFix s x) = .ok y) : nullFix s y = y := by
  by_cases hs : s = .types
  · subst hs; cases y <;> rfl
  · by_cases hx : (nullFix s x).isNull = false
    · exact nullFix_of_not_null s y (hf.nn s _ y hs h hx)
    · -- `nullFix s x` is null: `s` is neither a named map nor a string, where `nullFix` is the identity
      cases x <;> cases s <;> simp_all [nullFix, JV.isNull] <;> (cases y <;> rfl)

theorem entryStep_of_not_null (T : List Desc) (f : Shape → JV → Res JV) (s : Shape) (v : JV)
    (h : v.isNull = false) : entryStep T f s v = f s v := by
  cases v with
  | null => simp [JV.isNull] at h
  | _ => rfl

theorem nilEntry_ok (T : List Desc) (w : String) (v1 : JV) (h : nilEntry T w = .ok v1) : v1 = .null := by
  unfold nilEntry at h
  split at h
  · split at h
    · cases h; rfl
    · cases h
  · cases h; rfl

theorem entryStep_idem {T : List Desc} {f : Shape → JV → Res JV} (hf : Inv f) (s : Shape) (v v1 : JV)
    (hv : v.clean = true) (h : entryStep T f s v = .ok v1) : entryStep T f s v1 = .ok v1 := by
  by_cases hn : v.isNull = false
  · rw [entryStep_of_not_null T f s v hn] at h
    by_cases hs : s = .types
    · subst hs
      cases h1 : v1.isNull with
      | false => rw [entryStep_of_not_null T f _ v1 h1]; exact hf.idem _ v v1 hv h
      | true => cases v1 <;> simp [JV.isNull] at h1; rfl
    · have h1 := hf.nn s v v1 hs h hn
      rw [entryStep_of_not_null T f s v1 h1]; exact hf.idem s v v1 hv h
  · have : v = .null := by cases v <;> simp [JV.isNull] at hn; rfl
    subst this
    cases s with
    | ref w =>
      have e : entryStep T f (.ref w) .null = nilEntry T w := rfl
      rw [e] at h
      have := nilEntry_ok T w v1 h; subst this
      rw [e]; exact h
    | kind k =>
      have e : entryStep T f (.kind k) .null = f (.kind k) (.obj []) := rfl
      rw [e] at h
      cases h1 : v1.isNull with
      | false => rw [entryStep_of_not_null T f _ v1 h1]; exact hf.idem _ _ v1 clean_empty h
      | true =>
        have : v1 = .null := by cases v1 <;> simp [JV.isNull] at h1; rfl
        subst this; rw [e]; exact h
    | strLeaf =>
      have e : entryStep T f .strLeaf .null = f .strLeaf (.str "") := rfl
      rw [e] at h
      cases h1 : v1.isNull with
      | false => rw [entryStep_of_not_null T f _ v1 h1]; exact hf.idem _ _ v1 (by simp [JV.clean]) h
      | true =>
        have : v1 = .null := by cases v1 <;> simp [JV.isNull] at h1; rfl
        subst this; rw [e]; exact h
    | leaf => simp [entryStep] at h; subst h; rfl
    | maplike w => simp [entryStep] at h; subst h; rfl
    | list s => simp [entryStep] at h; subst h; rfl
    | map s => simp [entryStep] at h; subst h; rfl
    | pmap s => simp [entryStep] at h; subst h; rfl
    | types => simp [entryStep] at h; subst h; rfl
    | addProps => simp [entryStep] at h; subst h; rfl
    | unknown t => simp [entryStep] at h; subst h; rfl

/-! ### key-preserving maps -/

theorem mapKV_idem (g : String → JV → Res JV) (kvs kvs1 : Obj) (h : mapKV g kvs = .ok kvs1)
    (hi : ∀ kv ∈ kvs, ∀ c, g kv.1 kv.2 = .ok c → g kv.1 c = .ok c) : mapKV g kvs1 = .ok kvs1 := by
  unfold mapKV at h ⊢
  apply mapR_idem _ kvs kvs1 h
  intro x hx y hy
  obtain ⟨c, hc, rfl⟩ := wrap_ok _ _ _ hy
  simp only [hi x hx c hc, Res.wrap]

theorem mapKV_keys (g : String → JV → Res JV) (kvs kvs1 : Obj) (h : mapKV g kvs = .ok kvs1) :
    kvs1.map (·.1) = kvs.map (·.1) := by
  unfold mapKV at h
  apply mapR_keys (·.1) _ kvs kvs1 h
  intro x _ y hy
  obtain ⟨c, _, rfl⟩ := wrap_ok _ _ _ hy
  rfl

theorem mapKV_length (g : String → JV → Res JV) (kvs kvs1 : Obj) (h : mapKV g kvs = .ok kvs1) :
    kvs1.length = kvs.length := mapR_length _ kvs kvs1 h


/-! ### references: an object that is not a reference does not become one -/

theorem refString_none_iff (kvs : Obj) :
    refString kvs = none ↔ ∀ t, lookup "$ref" kvs = some (.str t) → t = "" := by
  unfold refString
  cases hl : lookup "$ref" kvs with
  | none => simp
  | some x =>
    cases x with
    | str u =>
      by_cases hu : u = ""
      · subst hu; simp
      · simp [hu]
    | _ => simp

theorem mapR_cons_ok {α β : Type} {g : α → Res β} {x : α} {xs : List α} {ys : List β}
    (h : mapR g (x :: xs) = .ok ys) : ∃ y ys', g x = .ok y ∧ mapR g xs = .ok ys' ∧ ys = y :: ys' := by
  simp only [mapR] at h
  cases hx : g x with
  | error e => simp [hx] at h
  | ok y =>
    cases hr : mapR g xs with
    | error e => simp [hx, hr] at h
    | ok ys' =>
      simp only [hx, hr] at h
      cases h
      exact ⟨y, ys', rfl, rfl, rfl⟩

theorem mapKV_lookup (g : String → JV → Res JV) : ∀ (kvs kvs1 : Obj), mapKV g kvs = .ok kvs1 → ∀ k,
    (∀ x, lookup k kvs = some x → ∃ y, g k x = .ok y ∧ lookup k kvs1 = some y) ∧
    (lookup k kvs = none → lookup k kvs1 = none)
  | [], kvs1, h, k => by
    simp only [mapKV, mapR] at h; cases h
    simp [lookup]
  | (k0, x0) :: r, kvs1, h, k => by
    unfold mapKV at h
    obtain ⟨y, r1, hy, hr, rfl⟩ := mapR_cons_ok h
    obtain ⟨c0, hx, rfl⟩ := wrap_ok _ _ _ hy
    have ih := mapKV_lookup g r r1 hr k
    by_cases e : k = k0
    · subst e
      simp only [lookup, if_true]
      refine ⟨fun x hx' => ?_, fun hn => by cases hn⟩
      cases hx'
      exact ⟨c0, hx, rfl⟩
    · simp only [lookup, e, if_false]
      exact ih

theorem mapKV_refString (g : String → JV → Res JV) (kvs kvs1 : Obj) (h : mapKV g kvs = .ok kvs1)
    (hg : ∀ x t, g "$ref" x = .ok (.str t) → t ≠ "" → x = .str t) (hr : refString kvs = none) :
    refString kvs1 = none := by
  rw [refString_none_iff] at hr ⊢
  intro t ht
  obtain ⟨h1, h2⟩ := mapKV_lookup g kvs kvs1 h "$ref"
  cases hl : lookup "$ref" kvs with
  | none => rw [h2 hl] at ht; cases ht
  | some x =>
    obtain ⟨y, hy, hy2⟩ := h1 x hl
    rw [hy2] at ht; cases ht
    by_cases h0 : t = ""
    · exact h0
    · have := hg x t hy h0
      subst this
      exact hr t hl

theorem nullFix_eq_nonempty_str (s : Shape) (x : JV) (t : String) (ht : t ≠ "") (h : nullFix s x = .str t) :
    x = .str t := by
  cases x with
  | null => cases s <;> simp [nullFix] at h; exact absurd h ht
  | _ => rw [nullFix_of_not_null s _ rfl] at h; exact h

theorem entryStep_strOrigin {T : List Desc} {f : Shape → JV → Res JV} (hf : Inv f) (s : Shape) (hs : s ≠ .types)
    (x : JV) (t : String) (h : entryStep T f s x = .ok (.str t)) (ht : t ≠ "") : x = .str t := by
  by_cases hn : x.isNull = false
  · rw [entryStep_of_not_null T f s x hn] at h
    exact hf.strOrigin s x t hs h ht
  · have : x = .null := by cases x <;> simp [JV.isNull] at hn; rfl
    subst this
    cases s with
    | ref w =>
      have e : entryStep T f (.ref w) .null = nilEntry T w := rfl
      rw [e] at h
      have := nilEntry_ok T w _ h; cases this
    | kind k =>
      have e : entryStep T f (.kind k) .null = f (.kind k) (.obj []) := rfl
      rw [e] at h
      have := hf.strOrigin _ _ t (by simp) h ht; cases this
    | strLeaf =>
      have e : entryStep T f .strLeaf .null = f .strLeaf (.str "") := rfl
      rw [e] at h
      have := hf.strOrigin _ _ t (by simp) h ht
      cases this; exact absurd rfl ht
    | types => exact absurd rfl hs
    | leaf => simp [entryStep] at h
    | maplike w => simp [entryStep] at h
    | list s => simp [entryStep] at h
    | map s => simp [entryStep] at h
    | pmap s => simp [entryStep] at h
    | addProps => simp [entryStep] at h
    | unknown u => simp [entryStep] at h

theorem isExtKey_ref : isExtKey "$ref" = false := by decide

theorem entryShape_ne_types (T : List Desc) (hT : TableOK T) (n : String) (d : Desc)
    (h : findDesc T n = some d) : entryShapeOf d ≠ .types := by
  have h1 := valueShape_ne_types T hT n d h
  have h2 := valueShape_refSafe T hT n d h
  unfold entryShapeOf
  cases hv : d.valueShape with
  | map s => rw [hv] at h2; simpa [refSafe] using h2
  | _ => rw [hv] at h1; simpa using h1

/-! ### the steps that are not struct kinds -/

section steps
variable {T : List Desc} {f : Shape → JV → Res JV}

theorem nonEmpty_arr (xs : List JV) : (JV.arr xs).nonEmpty = true ↔ xs ≠ [] := by
  cases xs <;> simp [JV.nonEmpty, JV.isNull, JV.isEmptyColl]

theorem nonEmpty_obj (kvs : Obj) : (JV.obj kvs).nonEmpty = true ↔ kvs ≠ [] := by
  cases kvs <;> simp [JV.nonEmpty, JV.isNull, JV.isEmptyColl]

theorem ne_nil_of_length_eq {α β : Type} (a : List α) (b : List β) (h : b.length = a.length) (ha : a ≠ []) :
    b ≠ [] := by
  cases a with
  | nil => exact absurd rfl ha
  | cons x r => cases b with
    | nil => simp at h
    | cons y q => simp

/- list -/

theorem stepList_idem (hf : Inv f) (s : Shape) (v v1 : JV) (hv : v.clean = true)
    (h : stepList f s v = .ok v1) : stepList f s v1 = .ok v1 := by
  cases v with
  | arr xs =>
    simp only [stepList] at h
    obtain ⟨ys, hm, rfl⟩ := wrap_ok _ _ _ h
    have := mapR_idem _ xs ys hm (fun x hx y hy => by
      have hy' : f s (nullFix s x) = .ok y := hy
      show f s (nullFix s y) = .ok y
      rw [nullFix_out hf s x y hy']
      exact hf.idem s _ y (clean_nullFix s x (clean_arr xs hv x hx)) hy')
    simp only [stepList, this, Res.wrap]
  | _ => simp only [stepList] at h; cases h; rfl

theorem stepList_nn (s : Shape) (v v1 : JV) (h : stepList f s v = .ok v1) (hn : v.isNull = false) :
    v1.isNull = false := by
  cases v with
  | arr xs =>
    simp only [stepList] at h
    obtain ⟨ys, _, rfl⟩ := wrap_ok _ _ _ h
    rfl
  | _ => simp only [stepList] at h; cases h; exact hn

theorem stepList_coll (s : Shape) (v v1 : JV) (h : stepList f s v = .ok v1) (hn : v.nonEmpty = true) :
    v1.nonEmpty = true := by
  cases v with
  | arr xs =>
    simp only [stepList] at h
    obtain ⟨ys, hm, rfl⟩ := wrap_ok _ _ _ h
    rw [nonEmpty_arr] at hn ⊢
    exact ne_nil_of_length_eq xs ys (mapR_length _ xs ys hm) hn
  | _ => simp only [stepList] at h; cases h; exact hn

theorem stepList_obj (s : Shape) (kvs : Obj) : stepList f s (.obj kvs) = .ok (.obj kvs) := rfl

/- map -/

theorem stepMap_idem (hf : Inv f) (s : Shape) (v v1 : JV) (hv : v.clean = true)
    (h : stepMap f s v = .ok v1) : stepMap f s v1 = .ok v1 := by
  cases v with
  | obj kvs =>
    simp only [stepMap] at h
    obtain ⟨kvs1, hm, rfl⟩ := wrap_ok _ _ _ h
    have := mapKV_idem _ kvs kvs1 hm (fun kv hkv c hc => by
      have hc' : f s (nullFix s kv.2) = .ok c := hc
      show f s (nullFix s c) = .ok c
      rw [nullFix_out hf s kv.2 c hc']
      exact hf.idem s _ c (clean_nullFix s kv.2 ((clean_obj kvs hv).2 kv hkv)) hc')
    simp only [stepMap, this, Res.wrap]
  | _ => simp only [stepMap] at h; cases h; rfl

theorem stepMap_nn (s : Shape) (v v1 : JV) (h : stepMap f s v = .ok v1) (hn : v.isNull = false) :
    v1.isNull = false := by
  cases v with
  | obj kvs =>
    simp only [stepMap] at h
    obtain ⟨ys, _, rfl⟩ := wrap_ok _ _ _ h
    rfl
  | _ => simp only [stepMap] at h; cases h; exact hn

theorem stepMap_coll (s : Shape) (v v1 : JV) (h : stepMap f s v = .ok v1) (hn : v.nonEmpty = true) :
    v1.nonEmpty = true := by
  cases v with
  | obj kvs =>
    simp only [stepMap] at h
    obtain ⟨kvs1, hm, rfl⟩ := wrap_ok _ _ _ h
    rw [nonEmpty_obj] at hn ⊢
    exact ne_nil_of_length_eq kvs kvs1 (mapKV_length _ kvs kvs1 hm) hn
  | _ => simp only [stepMap] at h; cases h; exact hn

theorem stepMap_noRef (hf : Inv f) (s : Shape) (hs : s ≠ .types) (kvs kvs1 : Obj)
    (h : stepMap f s (.obj kvs) = .ok (.obj kvs1)) (hr : refString kvs = none) : refString kvs1 = none := by
  simp only [stepMap] at h
  obtain ⟨kvs2, hm, e⟩ := wrap_ok _ _ _ h
  cases e
  exact mapKV_refString _ kvs kvs1 hm (fun x t hx ht =>
    nullFix_eq_nonempty_str s x t ht (hf.strOrigin s _ t hs hx ht)) hr

/- named map -/

theorem stepPMap_idem (hf : Inv f) (s : Shape) (v v1 : JV) (hv : v.clean = true)
    (h : stepPMap T f s v = .ok v1) : stepPMap T f s v1 = .ok v1 := by
  cases v with
  | obj kvs =>
    simp only [stepPMap] at h
    obtain ⟨kvs1, hm, rfl⟩ := wrap_ok _ _ _ h
    have := mapKV_idem _ kvs kvs1 hm (fun kv hkv c hc =>
      entryStep_idem hf s kv.2 c ((clean_obj kvs hv).2 kv hkv) hc)
    simp only [stepPMap, this, Res.wrap]
  | _ => simp only [stepPMap] at h; cases h; rfl

theorem stepPMap_nn (s : Shape) (v v1 : JV) (h : stepPMap T f s v = .ok v1) (hn : v.isNull = false) :
    v1.isNull = false := by
  cases v with
  | obj kvs =>
    simp only [stepPMap] at h
    obtain ⟨ys, _, rfl⟩ := wrap_ok _ _ _ h
    rfl
  | _ => simp only [stepPMap] at h; cases h; exact hn

theorem stepPMap_coll (s : Shape) (v v1 : JV) (h : stepPMap T f s v = .ok v1) (hn : v.nonEmpty = true) :
    v1.nonEmpty = true := by
  cases v with
  | obj kvs =>
    simp only [stepPMap] at h
    obtain ⟨kvs1, hm, rfl⟩ := wrap_ok _ _ _ h
    rw [nonEmpty_obj] at hn ⊢
    exact ne_nil_of_length_eq kvs kvs1 (mapKV_length _ kvs kvs1 hm) hn
  | _ => simp only [stepPMap] at h; cases h; exact hn

theorem stepPMap_noRef (hf : Inv f) (s : Shape) (hs : s ≠ .types) (kvs kvs1 : Obj)
    (h : stepPMap T f s (.obj kvs) = .ok (.obj kvs1)) (hr : refString kvs = none) : refString kvs1 = none := by
  simp only [stepPMap] at h
  obtain ⟨kvs2, hm, e⟩ := wrap_ok _ _ _ h
  cases e
  exact mapKV_refString _ kvs kvs1 hm (fun x t hx ht => entryStep_strOrigin hf s hs x t hx ht) hr

/- additionalProperties -/

theorem stepAddProps_idem (hf : Inv f) (v v1 : JV) (hv : v.clean = true)
    (h : stepAddProps f v = .ok v1) : stepAddProps f v1 = .ok v1 := by
  cases v with
  | obj kvs =>
    cases kvs with
    | nil => simp only [stepAddProps] at h; cases h; rfl
    | cons kv r =>
      simp only [stepAddProps] at h
      have h2 := hf.idem _ _ v1 hv h
      cases v1 with
      | obj kvs1 =>
        cases kvs1 with
        | nil => rfl
        | cons a b => simp only [stepAddProps]; exact h2
      | _ => rfl
  | _ => simp only [stepAddProps] at h; cases h; rfl

theorem stepAddProps_nn (hf : Inv f) (v v1 : JV) (h : stepAddProps f v = .ok v1) (hn : v.isNull = false) :
    v1.isNull = false := by
  cases v with
  | obj kvs =>
    cases kvs with
    | nil => simp only [stepAddProps] at h; cases h; rfl
    | cons kv r =>
      simp only [stepAddProps] at h
      exact hf.nn _ _ v1 (by simp) h hn
  | _ => simp only [stepAddProps] at h; cases h; exact hn

theorem stepAddProps_noRef (hf : Inv f) (kvs kvs1 : Obj) (h : stepAddProps f (.obj kvs) = .ok (.obj kvs1))
    (hr : refString kvs = none) : refString kvs1 = none := by
  cases kvs with
  | nil => simp only [stepAddProps] at h; cases h; exact hr
  | cons kv r =>
    simp only [stepAddProps] at h
    exact hf.noRef _ _ kvs1 rfl h hr

/- reference wrapper -/

theorem refString_ne_empty (kvs : Obj) (r : String) (h : refString kvs = some r) : r ≠ "" := by
  unfold refString at h
  split at h
  · split at h
    · cases h
    · cases h; rename_i hne; simpa using hne
  · cases h

theorem refString_single (r : String) (h : r ≠ "") : refString [("$ref", JV.str r)] = some r := by
  simp [refString, lookup, h]

theorem stepRef_idem (hT : TableOK T) (hf : Inv f) (w : String) (v v1 : JV) (hv : v.clean = true)
    (h : stepRef T f w v = .ok v1) : stepRef T f w v1 = .ok v1 := by
  cases v with
  | obj kvs =>
    simp only [stepRef] at h
    cases hd : findDesc T w with
    | none => simp only [hd] at h; cases h; simp only [stepRef, hd]
    | some d =>
      simp only [hd] at h
      cases hr : refString kvs with
      | some r =>
        simp only [hr] at h; cases h
        simp only [stepRef, hd, refString_single r (refString_ne_empty kvs r hr)]
      | none =>
        simp only [hr] at h
        have h2 := hf.idem _ _ v1 hv h
        cases v1 with
        | obj kvs1 =>
          have := hf.noRef _ kvs kvs1 (valueShape_refSafe T hT w d hd) h hr
          simp only [stepRef, hd, this]; exact h2
        | _ => rfl
  | _ => simp only [stepRef] at h; cases h; rfl

theorem stepRef_nn (hT : TableOK T) (hf : Inv f) (w : String) (v v1 : JV) (h : stepRef T f w v = .ok v1)
    (hn : v.isNull = false) : v1.isNull = false := by
  cases v with
  | obj kvs =>
    simp only [stepRef] at h
    cases hd : findDesc T w with
    | none => simp only [hd] at h; cases h; rfl
    | some d =>
      simp only [hd] at h
      cases hr : refString kvs with
      | some r => simp only [hr] at h; cases h; rfl
      | none =>
        simp only [hr] at h
        exact hf.nn _ _ v1 (valueShape_ne_types T hT w d hd) h hn
  | _ => simp only [stepRef] at h; cases h; exact hn

theorem stepRef_noRef (hT : TableOK T) (hf : Inv f) (w : String) (kvs kvs1 : Obj)
    (h : stepRef T f w (.obj kvs) = .ok (.obj kvs1)) (hr : refString kvs = none) : refString kvs1 = none := by
  simp only [stepRef] at h
  cases hd : findDesc T w with
  | none => simp only [hd] at h; cases h; exact hr
  | some d =>
    simp only [hd, hr] at h
    exact hf.noRef _ kvs kvs1 (valueShape_refSafe T hT w d hd) h hr

/- map-like container -/

theorem stepMaplike_idem (hf : Inv f) (w : String) (v v1 : JV) (hv : v.clean = true)
    (h : stepMaplike T f w v = .ok v1) : stepMaplike T f w v1 = .ok v1 := by
  cases v with
  | obj kvs =>
    simp only [stepMaplike] at h
    cases hd : findDesc T w with
    | none => simp only [hd] at h; cases h; simp only [stepMaplike, hd]
    | some d =>
      simp only [hd] at h
      obtain ⟨kvs1, hm, rfl⟩ := wrap_ok _ _ _ h
      have hkeys := mapKV_keys _ _ kvs1 hm
      have hfil : kvs1.filter (fun kv => kv.1 != "__origin__") = kvs1 := by
        rw [List.filter_eq_self]
        intro kv hkv
        have : kv.1 ∈ kvs1.map (·.1) := List.mem_map_of_mem hkv
        rw [hkeys] at this
        obtain ⟨kv', hkv', e⟩ := List.mem_map.mp this
        have := (List.mem_filter.mp hkv').2
        rw [← e]; exact this
      have := mapKV_idem _ _ kvs1 hm (fun kv hkv c hc => by
        have hcl : kv.2.clean = true := (clean_obj kvs hv).2 kv (List.mem_filter.mp hkv).1
        by_cases hx : isExtKey kv.1 = true
        · simp only [hx, if_true] at hc ⊢
        · simp only [hx] at hc ⊢
          exact entryStep_idem hf _ kv.2 c hcl hc)
      simp only [stepMaplike, hd, hfil, this, Res.wrap]
  | _ => simp only [stepMaplike] at h; cases h; rfl

theorem stepMaplike_nn (w : String) (v v1 : JV) (h : stepMaplike T f w v = .ok v1)
    (hn : v.isNull = false) : v1.isNull = false := by
  cases v with
  | obj kvs =>
    simp only [stepMaplike] at h
    cases hd : findDesc T w with
    | none => simp only [hd] at h; cases h; rfl
    | some d =>
      simp only [hd] at h
      obtain ⟨kvs1, _, rfl⟩ := wrap_ok _ _ _ h
      rfl
  | _ => simp only [stepMaplike] at h; cases h; exact hn

theorem stepMaplike_noRef (hT : TableOK T) (hf : Inv f) (w : String) (kvs kvs1 : Obj)
    (h : stepMaplike T f w (.obj kvs) = .ok (.obj kvs1)) (hr : refString kvs = none) : refString kvs1 = none := by
  simp only [stepMaplike] at h
  cases hd : findDesc T w with
  | none => simp only [hd] at h; cases h; exact hr
  | some d =>
    simp only [hd] at h
    obtain ⟨kvs2, hm, e⟩ := wrap_ok _ _ _ h
    cases e
    have hr' : refString (kvs.filter (fun kv => kv.1 != "__origin__")) = none := by
      have := lookup_filter "$ref" (fun k => k != "__origin__") kvs
      unfold refString
      rw [this]
      simpa [refString] using hr
    refine mapKV_refString _ _ kvs1 hm (fun x t hx ht => ?_) hr'
    simp only [isExtKey_ref] at hx
    exact entryStep_strOrigin hf _ (entryShape_ne_types T hT w d hd) x t hx ht

/- a non-empty string in the output stood in the input -/

theorem stepAddProps_str (hf : Inv f) (v : JV) (t : String) (h : stepAddProps f v = .ok (.str t)) (ht : t ≠ "") :
    v = .str t := by
  cases v with
  | obj kvs =>
    cases kvs with
    | nil => simp [stepAddProps] at h
    | cons kv r =>
      simp only [stepAddProps] at h
      exact hf.strOrigin _ _ t (by simp) h ht
  | _ => simp only [stepAddProps] at h; cases h <;> rfl

theorem stepList_str (s : Shape) (v : JV) (t : String) (h : stepList f s v = .ok (.str t)) : v = .str t := by
  cases v with
  | arr xs =>
    simp only [stepList] at h
    obtain ⟨ys, _, e⟩ := wrap_ok _ _ _ h
    cases e
  | _ => simp only [stepList] at h; cases h <;> rfl

theorem stepMap_str (s : Shape) (v : JV) (t : String) (h : stepMap f s v = .ok (.str t)) : v = .str t := by
  cases v with
  | obj kvs =>
    simp only [stepMap] at h
    obtain ⟨ys, _, e⟩ := wrap_ok _ _ _ h
    cases e
  | _ => simp only [stepMap] at h; cases h <;> rfl

theorem stepPMap_str (s : Shape) (v : JV) (t : String) (h : stepPMap T f s v = .ok (.str t)) : v = .str t := by
  cases v with
  | obj kvs =>
    simp only [stepPMap] at h
    obtain ⟨ys, _, e⟩ := wrap_ok _ _ _ h
    cases e
  | _ => simp only [stepPMap] at h; cases h <;> rfl

theorem stepMaplike_str (w : String) (v : JV) (t : String) (h : stepMaplike T f w v = .ok (.str t)) :
    v = .str t := by
  cases v with
  | obj kvs =>
    simp only [stepMaplike] at h
    cases hd : findDesc T w with
    | none => simp [hd] at h
    | some d =>
      simp only [hd] at h
      obtain ⟨ys, _, e⟩ := wrap_ok _ _ _ h
      cases e
  | _ => simp only [stepMaplike] at h; cases h <;> rfl

theorem stepRef_str (hT : TableOK T) (hf : Inv f) (w : String) (v : JV) (t : String)
    (h : stepRef T f w v = .ok (.str t)) (ht : t ≠ "") : v = .str t := by
  cases v with
  | obj kvs =>
    simp only [stepRef] at h
    cases hd : findDesc T w with
    | none => simp [hd] at h
    | some d =>
      simp only [hd] at h
      cases hr : refString kvs with
      | some r => simp [hr] at h
      | none =>
        simp only [hr] at h
        exact hf.strOrigin _ _ t (valueShape_ne_types T hT w d hd) h ht
  | _ => simp only [stepRef] at h; cases h <;> rfl

end steps


/-! ### one written field of a struct kind: what comes out of the child is read back unchanged -/

theorem clean_written (g : Guard) (x : JV) (h : x.clean = true) : (written g x).clean = true := by
  cases g <;> cases x <;> first | exact h | exact clean_empty

theorem clean_decode (tc : TC) (kvs : Obj) (k : String) (h : (JV.obj kvs).clean = true) :
    (decode tc (lookup k kvs)).clean = true := by
  cases hl : lookup k kvs with
  | none => cases tc <;> simp [decode, zero, JV.clean, cleanO, trimmable, lookup]
  | some v =>
    have hv := clean_lookup kvs h k v hl
    cases v with
    | null => cases tc <;> simp [decode, zero, JV.clean, cleanO, trimmable, lookup]
    | _ => exact hv

/-- non-null route -/
theorem fix_nn (tc : TC) (g : Guard) (c : JV) (hc : c.isNull = false)
    (hg : g = .neNil ∨ g = .always ∨ g = .orEmpty ∨ g = .addProps) :
    decode tc (some c) = c ∧ guard tc g c = true ∧ written g c = c := by
  cases c with
  | null => simp [JV.isNull] at hc
  | _ => rcases hg with h | h | h | h <;> subst h <;> simp [decode, guard, written, JV.isNull]

/-- non-empty-collection route -/
theorem fix_coll (tc : TC) (g : Guard) (c : JV) (hc : c.nonEmpty = true)
    (hg : (g = .lenNe0 ∧ (tc = .slice ∨ tc = .map ∨ tc = .nmap)) ∨ g = .neNilLenNe0) :
    decode tc (some c) = c ∧ guard tc g c = true ∧ written g c = c := by
  cases c with
  | null => simp [JV.nonEmpty, JV.isNull] at hc
  | _ =>
    rcases hg with ⟨h, ht | ht | ht⟩ | h <;> subst h <;> (try subst ht) <;>
      simp_all [decode, guard, written, JV.nonEmpty, JV.isNull, JV.isEmptyColl]

/-- unconditional write of a field whose zero value is null -/
theorem fix_always (tc : TC) (c : JV) (ht : tc = .ptr ∨ tc = .map) :
    decode tc (some c) = c ∧ guard tc .always c = true ∧ written .always c = c := by
  rcases ht with h | h <;> subst h <;> cases c <;> simp [decode, guard, written, zero]

theorem tcShapeOK_coll (tc : TC) (s : Shape) (ht : tc = .slice ∨ tc = .map ∨ tc = .nmap)
    (h : tcShapeOK tc s = true) : collShape s = true ∧ s ≠ .types := by
  rcases ht with e | e | e <;> subst e <;> cases s <;> simp [tcShapeOK, collShape] at h ⊢

theorem nonEmpty_not_null (v : JV) (h : v.nonEmpty = true) : v.isNull = false := by
  cases v <;> simp [JV.nonEmpty, JV.isNull] at h ⊢

theorem field_fix {f : Shape → JV → Res JV} (hf : Inv f) (tc : TC) (g : Guard) (s : Shape) (xo : Option JV) (c : JV)
    (hc : compat tc g = true) (hs : tcShapeOK tc s = true)
    (hcl : (decode tc xo).clean = true)
    (hg : guard tc g (decode tc xo) = true)
    (hr : f s (written g (decode tc xo)) = .ok c) :
    decode tc (some c) = c ∧ guard tc g c = true ∧ written g c = c ∧ f s c = .ok c := by
  have hidem : f s c = .ok c := hf.idem s _ c (clean_written g _ hcl) hr
  suffices h3 : decode tc (some c) = c ∧ guard tc g c = true ∧ written g c = c from
    ⟨h3.1, h3.2.1, h3.2.2, hidem⟩
  by_cases hleaf : s = .leaf
  · subst hleaf
    have := hf.leaf _ c hr
    subst this
    exact compat_stable tc g xo hc hg
  · -- the child is a document of its own
    have nnOf : s ≠ .types → (written g (decode tc xo)).isNull = false → c.isNull = false :=
      fun h1 h2 => hf.nn s _ c h1 hr h2
    have collOf : collShape s = true → (written g (decode tc xo)).nonEmpty = true → c.nonEmpty = true :=
      fun h1 h2 => hf.coll s _ c h1 hr h2
    cases g with
    | neEmptyStr => cases tc <;> simp [compat] at hc; simp [tcShapeOK] at hs; exact absurd hs hleaf
    | isTrue => cases tc <;> simp [compat] at hc; simp [tcShapeOK] at hs; exact absurd hs hleaf
    | neZero => cases tc <;> simp [compat] at hc; simp [tcShapeOK] at hs; exact absurd hs hleaf
    | unknown t => cases tc <;> simp [compat] at hc
    | neNil =>
      have hx : (decode tc xo).isNull = false := by
        cases tc <;> simp [compat] at hc <;> simpa [guard] using hg
      have hst : s ≠ .types := by
        cases tc <;> simp [compat] at hc
        · simpa [tcShapeOK] using hs
        · exact (tcShapeOK_coll _ s (Or.inl rfl) hs).2
        · exact (tcShapeOK_coll _ s (Or.inr (Or.inl rfl)) hs).2
        · exact (tcShapeOK_coll _ s (Or.inr (Or.inr rfl)) hs).2
        · simp [tcShapeOK] at hs; exact absurd hs hleaf
      exact fix_nn tc _ c (nnOf hst (by simpa [written] using hx)) (Or.inl rfl)
    | addProps =>
      cases tc <;> simp [compat] at hc
      have hx : (decode .addProps xo).isNull = false := by simpa [guard] using hg
      have hst : s ≠ .types := by simp [tcShapeOK] at hs; subst hs; simp
      exact fix_nn _ _ c (nnOf hst (by simpa [written] using hx)) (Or.inr (Or.inr (Or.inr rfl)))
    | orEmpty =>
      cases tc <;> simp [compat] at hc
      have hst := (tcShapeOK_coll _ s (Or.inr (Or.inr rfl)) hs).2
      have hw : (written .orEmpty (decode .nmap xo)).isNull = false := by
        cases decode .nmap xo <;> simp [written, JV.isNull]
      exact fix_nn _ _ c (nnOf hst hw) (Or.inr (Or.inr (Or.inl rfl)))
    | always =>
      cases tc <;> simp [compat] at hc
      · simp [tcShapeOK] at hs; exact absurd hs hleaf
      · simp [tcShapeOK] at hs; exact absurd hs hleaf
      · exact fix_always _ c (Or.inl rfl)
      · exact fix_always _ c (Or.inr rfl)
      · have hst : s ≠ .types := by simpa [tcShapeOK] using hs
        have hx : (decode .value xo).isNull = false := by
          cases xo with
          | none => simp [decode, zero, JV.isNull]
          | some v => cases v <;> simp [decode, zero, JV.isNull]
        exact fix_nn _ _ c (nnOf hst (by simpa [written] using hx)) (Or.inr (Or.inl rfl))
    | lenNe0 =>
      cases tc <;> simp [compat] at hc
      · simp [tcShapeOK] at hs; exact absurd hs hleaf
      · have hx : (decode .slice xo).nonEmpty = true := by simpa [guard, JV.nonEmpty] using hg
        exact fix_coll _ _ c (collOf (tcShapeOK_coll _ s (Or.inl rfl) hs).1 (by simpa [written] using hx))
          (Or.inl ⟨rfl, Or.inl rfl⟩)
      · have hx : (decode .map xo).nonEmpty = true := by simpa [guard, JV.nonEmpty] using hg
        exact fix_coll _ _ c (collOf (tcShapeOK_coll _ s (Or.inr (Or.inl rfl)) hs).1 (by simpa [written] using hx))
          (Or.inl ⟨rfl, Or.inr (Or.inl rfl)⟩)
      · have hx : (decode .nmap xo).nonEmpty = true := by simpa [guard, JV.nonEmpty] using hg
        exact fix_coll _ _ c (collOf (tcShapeOK_coll _ s (Or.inr (Or.inr rfl)) hs).1 (by simpa [written] using hx))
          (Or.inl ⟨rfl, Or.inr (Or.inr rfl)⟩)
    | neNilLenNe0 =>
      cases tc <;> simp [compat] at hc
      have hx : (decode .ptypes xo).nonEmpty = true := by simpa [guard, JV.nonEmpty] using hg
      have hcs : collShape s = true := by simp [tcShapeOK] at hs; subst hs; rfl
      exact fix_coll _ _ c (collOf hcs (by simpa [written] using hx)) (Or.inr rfl)


/-! ### the struct step -/

theorem unmarshal_fld (d : Desc) (o : Obj) (g : String) (ha : d.assignBack = true) :
    (unmarshal d o).fld g = fldVal d o g := by
  simp only [unmarshal, ha, if_true, fldVal]; cases fieldByGo d g <;> rfl

theorem unmarshal_ext (d : Desc) (o : Obj) (ha : d.assignBack = true) (hu : d.unmExt = true) :
    (unmarshal d o).ext = o.filter (fun kv => !(d.dels.contains kv.1)) := by
  simp [unmarshal, ha, hu]

/-- the keyed results of a list of writes: every write is found under its key -/
theorem mapR_lookup {α : Type} (key : α → String) (G : α → Res (String × JV)) :
    ∀ (xs : List α) (fs : Obj), mapR G xs = .ok fs →
    (∀ x ∈ xs, ∀ y, G x = .ok y → y.1 = key x) → (xs.map key).Nodup →
    ∀ x ∈ xs, ∃ c, G x = .ok (key x, c) ∧ lookup (key x) fs = some c
  | [], _, _, _, _ => by intro x hx; cases hx
  | x0 :: xs, fs, h, hk, hn => by
    simp only [mapR] at h
    cases hx0 : G x0 with
    | error e => simp [hx0] at h
    | ok y0 =>
      cases hr : mapR G xs with
      | error e => simp [hx0, hr] at h
      | ok fs' =>
        simp only [hx0, hr] at h
        cases h
        have hy0 : y0.1 = key x0 := hk x0 (by simp) y0 hx0
        simp only [List.map_cons, List.nodup_cons] at hn
        intro x hx
        rcases List.mem_cons.mp hx with e | hx'
        · subst e
          refine ⟨y0.2, ?_, ?_⟩
          · rw [hx0, ← hy0]
          · obtain ⟨a, b⟩ := y0
            simp only at hy0; subst hy0
            simp [lookup]
        · obtain ⟨c, hc1, hc2⟩ := mapR_lookup key G xs fs' hr
            (fun x' hx'' => hk x' (List.mem_cons_of_mem _ hx'')) hn.2 x hx'
          refine ⟨c, hc1, ?_⟩
          have hne : key x ≠ key x0 := fun e => hn.1 (e ▸ List.mem_map_of_mem hx')
          obtain ⟨a, b⟩ := y0
          simp only at hy0; subst hy0
          simp [lookup, hne, hc2]

theorem nodup_map_inj {α β : Type} (g : α → β) : ∀ (l : List α), (l.map g).Nodup →
    ∀ a b, a ∈ l → b ∈ l → g a = g b → a = b
  | [], _, _, _, ha, _, _ => by cases ha
  | x :: l, hn, a, b, ha, hb, e => by
    simp only [List.map_cons, List.nodup_cons] at hn
    rcases List.mem_cons.mp ha with ea | ha'
    · rcases List.mem_cons.mp hb with eb | hb'
      · rw [ea, eb]
      · subst ea; exact absurd (e ▸ List.mem_map_of_mem hb') hn.1
    · rcases List.mem_cons.mp hb with eb | hb'
      · subst eb; exact absurd (e ▸ List.mem_map_of_mem ha') hn.1
      · exact nodup_map_inj g l hn.2 a b ha' hb' e

theorem decode_str_idem (xo : Option JV) : decode .str (some (decode .str xo)) = decode .str xo := by
  cases xo with
  | none => rfl
  | some v => cases v <;> rfl

theorem decode_eq_nonempty_str (tc : TC) (xo : Option JV) (t : String) (ht : t ≠ "")
    (h : decode tc xo = .str t) : xo = some (.str t) := by
  cases xo with
  | none => cases tc <;> simp [decode, zero] at h; exact absurd h ht
  | some v =>
    cases v with
    | null => cases tc <;> simp [decode, zero] at h; exact absurd h ht
    | str u => simp [decode] at h; rw [h]
    | _ => simp [decode] at h

theorem written_eq_str (g : Guard) (x : JV) (t : String) (h : written g x = .str t) : x = .str t := by
  cases g <;> cases x <;> simp [written] at h ⊢ <;> exact h

theorem filter_append_ext (fs ext : Obj) (p : String × JV → Bool) (h1 : ∀ kv ∈ fs, p kv = false)
    (h2 : ∀ kv ∈ ext, p kv = true) : (fs ++ ext).filter p = ext := by
  rw [List.filter_append]
  have e1 : fs.filter p = [] := by
    rw [List.filter_eq_nil_iff]; intro kv hkv; simp [h1 kv hkv]
  have e2 : ext.filter p = ext := by
    rw [List.filter_eq_self]; exact h2
  rw [e1, e2]; rfl

/-- the facts about the marshal statement `m` of a kind that agrees -/
theorem marsh_facts (d : Desc) (w : WF compat d) (m : MField) (hm : m ∈ d.marsh) :
    ∃ fl, fl ∈ d.fields ∧ fl.key = m.key ∧ compat fl.tc m.guard = true ∧
      tcOfGo d m.goName = fl.tc ∧ shapeOfGo d m.goName = fl.shape ∧
      ∀ o, fldVal d o m.goName = decode fl.tc (lookup m.key o) := by
  obtain ⟨fl, hfl, hk, hc⟩ := w.marshOK m hm
  refine ⟨fl, List.mem_of_find?_eq_some hfl, hk, hc, by simp [tcOfGo, hfl], by simp [shapeOfGo, hfl], ?_⟩
  intro o; simp [fldVal, hfl, hk]

theorem marshalDeep_idem {f : Shape → JV → Res JV} (hf : Inv f) (d : Desc) (w : WF compat d)
    (hts : ∀ fl ∈ d.fields, tcShapeOK fl.tc fl.shape = true)
    (hpost : d.post.contains "dateExampleTrim" = true →
      ∀ fl ∈ d.fields, (fl.key = "format" ∨ fl.key = "example") → fl.shape = .leaf)
    (kvs o1 : Obj) (hv : (JV.obj kvs).clean = true)
    (h : marshalDeep f d (unmarshal d (applyPost d kvs)) = .ok o1) :
    marshalDeep f d (unmarshal d (applyPost d o1)) = .ok o1 := by
  have htr := (clean_obj kvs hv).1
  have hp0 : applyPost d kvs = kvs := by simp [applyPost, dateTrimHit, htr]
  rw [hp0] at h
  -- the record after the first parse
  have hF : ∀ o g, (unmarshal d o).fld g = fldVal d o g := fun o g => unmarshal_fld d o g w.asg
  have hE : ∀ o, (unmarshal d o).ext = o.filter (fun kv => !(d.dels.contains kv.1)) :=
    fun o => unmarshal_ext d o w.asg w.unm
  unfold marshalDeep at h
  simp only [hF, hE, w.ext, if_true] at h
  by_cases hre : (d.refEarly && !(fldVal d kvs "Ref").isEmptyStr) = true
  · -- reference: written as the reference alone, read back as the same reference
    simp only [hre, if_true] at h
    cases h
    have hre' : d.refEarly = true := by simp only [Bool.and_eq_true] at hre; exact hre.1
    obtain ⟨fr, hfr, hfk, hft⟩ := w.refField hre'
    have hp1 : applyPost d [("$ref", fldVal d kvs "Ref")] = [("$ref", fldVal d kvs "Ref")] := by
      simp [applyPost, dateTrimHit, trimmable, lookup]
    rw [hp1]
    have hR : fldVal d [("$ref", fldVal d kvs "Ref")] "Ref" = fldVal d kvs "Ref" := by
      simp only [fldVal, hfr, hfk, hft, lookup, if_true]
      exact decode_str_idem _
    unfold marshalDeep
    simp only [hF, hR, hre, if_true]
  · simp only [hre] at h
    obtain ⟨fs, hm, ho1⟩ := wrap_ok _ _ _ h
    -- names
    let P : Obj → MField → Bool := fun o m => guard (tcOfGo d m.goName) m.guard (fldVal d o m.goName)
    let G : Obj → MField → Res (String × JV) := fun o m =>
      (f (shapeOfGo d m.goName) (written m.guard (fldVal d o m.goName))).wrap (fun v' => (m.key, v'))
    have hm' : mapR (G kvs) (d.marsh.filter (P kvs)) = .ok fs := hm
    let ext := kvs.filter (fun kv => !(d.dels.contains kv.1))
    have ho1' : o1 = fs ++ ext := ho1
    have hGkey : ∀ o, ∀ x ∈ d.marsh.filter (P kvs), ∀ y, G o x = .ok y → y.1 = x.key := by
      intro o x _ y hy
      obtain ⟨c, _, rfl⟩ := wrap_ok _ _ _ hy
      rfl
    have hsub : (d.marsh.filter (P kvs)).map (·.key) |>.Nodup :=
      List.Nodup.sublist ((List.filter_sublist).map _) w.nodupM
    have hkeys : fs.map (·.1) = (d.marsh.filter (P kvs)).map (·.key) :=
      mapR_keys (·.key) (G kvs) _ fs hm' (hGkey kvs)
    have hLook := mapR_lookup (·.key) (G kvs) _ fs hm' (hGkey kvs) hsub
    -- keys of the written fields are deleted keys; members of ext are not
    have hfsdel : ∀ kv ∈ fs, kv.1 ∈ d.dels := by
      intro kv hkv
      have : kv.1 ∈ fs.map (·.1) := List.mem_map_of_mem hkv
      rw [hkeys] at this
      obtain ⟨m, hmm, e⟩ := List.mem_map.mp this
      rw [← e]; exact marsh_key_in_dels compat d w m (List.mem_filter.mp hmm).1
    have hextnd : ∀ kv ∈ ext, kv.1 ∉ d.dels := by
      intro kv hkv
      have := (List.mem_filter.mp hkv).2
      simpa using this
    -- lookups in the first output
    have hlk_ext : ∀ k, lookup k ext = if k ∈ d.dels then none else lookup k kvs := by
      intro k
      have := lookup_filter k (fun k => !(d.dels.contains k)) kvs
      simp only [ext]
      rw [this]; by_cases hc : k ∈ d.dels <;> simp [hc]
    have hlk_in : ∀ m ∈ d.marsh, P kvs m = true →
        ∃ c, f (shapeOfGo d m.goName) (written m.guard (fldVal d kvs m.goName)) = .ok c ∧ lookup m.key o1 = some c := by
      intro m hmm hp
      obtain ⟨c, hc1, hc2⟩ := hLook m (List.mem_filter.mpr ⟨hmm, hp⟩)
      obtain ⟨c', hc', e⟩ := wrap_ok _ _ _ hc1
      simp only [Prod.mk.injEq, true_and] at e
      subst e
      exact ⟨c, hc', by rw [ho1', lookup_append, hc2]; rfl⟩
    have hlk_out : ∀ m ∈ d.marsh, P kvs m = false → lookup m.key o1 = none := by
      intro m hmm hp
      have h1 : lookup m.key fs = none := by
        rw [lookup_none_iff, hkeys]
        intro hc
        obtain ⟨m', hm', e⟩ := List.mem_map.mp hc
        obtain ⟨hm'1, hm'2⟩ := List.mem_filter.mp hm'
        -- marsh keys are distinct, so m' = m
        have : m' = m := by
          have hn := w.nodupM
          unfold marshKeys at hn
          exact nodup_map_inj (·.key) d.marsh hn m' m hm'1 hmm e
        subst this
        rw [hp] at hm'2; cases hm'2
      rw [ho1', lookup_append, h1, hlk_ext]
      simp [marsh_key_in_dels compat d w m hmm]
    have hlk_other : ∀ k, k ∉ marshKeys d → lookup k o1 = if k ∈ d.dels then none else lookup k kvs := by
      intro k hk
      have h1 : lookup k fs = none := by
        rw [lookup_none_iff, hkeys]
        intro hc
        obtain ⟨m', hm', e⟩ := List.mem_map.mp hc
        exact hk (List.mem_map.mpr ⟨m', (List.mem_filter.mp hm').1, e⟩)
      rw [ho1', lookup_append, h1, hlk_ext]; rfl
    -- a non-empty string found under a plain key of the first output stood in the input
    have horigin : ∀ k, (∀ fl ∈ d.fields, fl.key = k → fl.shape = .leaf) → ∀ t, t ≠ "" →
        lookup k o1 = some (.str t) → lookup k kvs = some (.str t) := by
      intro k hleafk t ht hl
      by_cases hk : k ∈ marshKeys d
      · obtain ⟨m, hmm, e⟩ := List.mem_map.mp hk
        subst e
        obtain ⟨fl, hfl, hflk, _, _, hsh, hval⟩ := marsh_facts d w m hmm
        cases hp : P kvs m with
        | false => rw [hlk_out m hmm hp] at hl; cases hl
        | true =>
          obtain ⟨c, hc1, hc2⟩ := hlk_in m hmm hp
          rw [hc2] at hl; cases hl
          rw [hsh, hleafk fl hfl hflk] at hc1
          have := hf.leaf _ _ hc1
          have hx := written_eq_str _ _ _ this.symm
          rw [hval kvs] at hx
          exact decode_eq_nonempty_str _ _ t ht hx
      · rw [hlk_other k hk] at hl
        by_cases hc : k ∈ d.dels
        · simp [hc] at hl
        · simpa [hc] using hl
    -- the post-processing leaves the first output alone
    have hp1 : applyPost d o1 = o1 := by
      unfold applyPost
      cases hpc : d.post.contains "dateExampleTrim" with
      | false =>
        have hpc' : "dateExampleTrim" ∉ d.post := by simpa using hpc
        simp [dateTrimHit, hpc']
      | true =>
        have hlf := hpost hpc
        cases ht1 : trimmable o1 with
        | false => simp [dateTrimHit, ht1]
        | true =>
          exfalso
          unfold trimmable at ht1 htr
          simp only [Bool.and_eq_true, Option.any_eq_true] at ht1
          obtain ⟨⟨x1, hx1, hq1⟩, ⟨e1, he1, hq2⟩⟩ := ht1
          cases x1 <;> simp [JV.isStrEq] at hq1
          subst hq1
          cases e1 <;> simp [JV.endsDate] at hq2
          rename_i e
          have hne : e ≠ "" := by
            intro h0; subst h0; revert hq2; decide
          have k1 := horigin "format" (fun fl hfl hk => hlf fl hfl (Or.inl hk)) "date" (by decide) hx1
          have k2 := horigin "example" (fun fl hfl hk => hlf fl hfl (Or.inr hk)) e hne he1
          simp [k1, k2, JV.isStrEq, JV.endsDate, hq2] at htr
    rw [hp1]
    -- the record after the second parse
    have hext2 : o1.filter (fun kv => !(d.dels.contains kv.1)) = ext := by
      rw [ho1']
      apply filter_append_ext
      · intro kv hkv; simp [hfsdel kv hkv]
      · intro kv hkv; simpa using hextnd kv hkv
    have href2 : (d.refEarly && !(fldVal d o1 "Ref").isEmptyStr) = false := by
      cases hre' : d.refEarly with
      | false => rfl
      | true =>
        obtain ⟨fr, hfr, hfk, hft⟩ := w.refField hre'
        have hnm : "$ref" ∉ marshKeys d := by
          rw [w.keysEq]; unfold expectedMarshKeys; simp [hre']
        have hdel : "$ref" ∈ d.dels := by
          rw [w.dels]; have := w.refTag; rw [hre'] at this; simpa using this.symm
        have : lookup "$ref" o1 = none := by rw [hlk_other "$ref" hnm]; simp [hdel]
        simp [fldVal, hfr, hfk, hft, this, decode, zero, JV.isEmptyStr]
    -- every marshal statement behaves on the second record as on the first
    have hsame : ∀ m ∈ d.marsh, P o1 m = P kvs m ∧
        (P kvs m = true → ∀ y, G kvs m = .ok y → G o1 m = .ok y) := by
      intro m hmm
      obtain ⟨fl, hfl, hflk, hcmp, htc, hsh, hval⟩ := marsh_facts d w m hmm
      cases hp : P kvs m with
      | false =>
        refine ⟨?_, fun h0 => by cases h0⟩
        show guard (tcOfGo d m.goName) m.guard (fldVal d o1 m.goName) = false
        rw [htc, hval o1, hlk_out m hmm hp]
        have hp' : guard fl.tc m.guard (decode fl.tc (lookup m.key kvs)) = false := by
          have : P kvs m = false := hp
          simp only [P, htc, hval kvs] at this; exact this
        simpa [decode] using compat_omitted fl.tc m.guard _ hcmp hp'
      | true =>
        obtain ⟨c, hc1, hc2⟩ := hlk_in m hmm hp
        have hp' : guard fl.tc m.guard (decode fl.tc (lookup m.key kvs)) = true := by
          have : P kvs m = true := hp
          simp only [P, htc, hval kvs] at this; exact this
        rw [hsh, hval kvs] at hc1
        obtain ⟨q1, q2, q3, q4⟩ := field_fix hf fl.tc m.guard fl.shape (lookup m.key kvs) c hcmp (hts fl hfl)
          (clean_decode fl.tc kvs m.key hv) hp' hc1
        refine ⟨?_, fun _ y hy => ?_⟩
        · show guard (tcOfGo d m.goName) m.guard (fldVal d o1 m.goName) = true
          rw [htc, hval o1, hc2, q1]; exact q2
        · have hy' : (f (shapeOfGo d m.goName) (written m.guard (fldVal d kvs m.goName))).wrap
              (fun v' => (m.key, v')) = .ok y := hy
          rw [hsh, hval kvs, hc1] at hy'
          show (f (shapeOfGo d m.goName) (written m.guard (fldVal d o1 m.goName))).wrap
              (fun v' => (m.key, v')) = .ok y
          rw [hsh, hval o1, hc2, q1, q3, q4]; exact hy'
    have hfilt : d.marsh.filter (P o1) = d.marsh.filter (P kvs) :=
      List.filter_congr (fun m hmm => (hsame m hmm).1)
    have hm2 : mapR (G o1) (d.marsh.filter (P kvs)) = .ok fs :=
      mapR_congr_ok (G kvs) (G o1) _ fs hm' (fun m hmm y hy =>
        (hsame m (List.mem_filter.mp hmm).1).2 (List.mem_filter.mp hmm).2 y hy)
    unfold marshalDeep
    simp only [hF, hE, w.ext, if_true, href2, hext2, Bool.false_eq_true, if_false]
    have e1 : (d.marsh.filter fun m => guard (tcOfGo d m.goName) m.guard (fldVal d o1 m.goName)) =
        d.marsh.filter (P kvs) := hfilt
    have e2 : mapR (fun (m : MField) => (f (shapeOfGo d m.goName) (written m.guard (fldVal d o1 m.goName))).wrap
        (fun v' => (m.key, v'))) (d.marsh.filter (P kvs)) = .ok fs := hm2
    rw [e1, e2, ho1']
    rfl


theorem applyPost_keys (d : Desc) (o : Obj) : (applyPost d o).map (·.1) = o.map (·.1) := by
  unfold applyPost
  split
  · rw [List.map_map]
    apply List.map_congr_left
    intro kv _
    simp only [Function.comp]
    split <;> rfl
  · rfl

theorem lookup_trim_ne (k : String) (hk : k ≠ "example") : ∀ (o : Obj),
    lookup k (o.map (fun kv => if kv.1 == "example" then (kv.1, kv.2.trimDate) else kv)) = lookup k o
  | [] => rfl
  | (k', v) :: r => by
    have ih := lookup_trim_ne k hk r
    simp only [List.map_cons]
    cases e2 : (k' == "example") with
    | true =>
      have : k' = "example" := by simpa using e2
      have e : ¬ k = k' := by rw [this]; exact hk
      simp only [if_true, lookup, e, if_false]; exact ih
    | false =>
      simp only [Bool.false_eq_true, if_false, lookup]
      by_cases e : k = k'
      · simp [e]
      · simp only [e, if_false]; exact ih

theorem applyPost_lookup_ne (d : Desc) (o : Obj) (k : String) (hk : k ≠ "example") :
    lookup k (applyPost d o) = lookup k o := by
  unfold applyPost
  split
  · exact lookup_trim_ne k hk o
  · rfl

theorem ref_not_marshKey (d : Desc) (w : WF compat d) : "$ref" ∉ marshKeys d := by
  rw [w.keysEq]; unfold expectedMarshKeys
  cases hre : d.refEarly with
  | true => simp
  | false =>
    have := w.refTag; rw [hre] at this
    simp only [if_false, Bool.false_eq_true]
    intro hc
    have : (tagKeys d).contains "$ref" = true := by simpa using hc
    simp_all

theorem marshalDeep_noRef {f : Shape → JV → Res JV} (d : Desc) (w : WF compat d) (kvs o1 : Obj)
    (h : marshalDeep f d (unmarshal d (applyPost d kvs)) = .ok o1) (hr : refString kvs = none) :
    refString o1 = none := by
  have hl' : lookup "$ref" (applyPost d kvs) = lookup "$ref" kvs := applyPost_lookup_ne d kvs "$ref" (by decide)
  rw [refString_none_iff] at hr ⊢
  unfold marshalDeep at h
  simp only [unmarshal_fld d _ _ w.asg, unmarshal_ext d _ w.asg w.unm, w.ext, if_true] at h
  by_cases hre : (d.refEarly && !(fldVal d (applyPost d kvs) "Ref").isEmptyStr) = true
  · simp only [hre, if_true] at h
    cases h
    have hre' : d.refEarly = true := by simp only [Bool.and_eq_true] at hre; exact hre.1
    obtain ⟨fr, hfr, hfk, hft⟩ := w.refField hre'
    intro t ht
    simp only [lookup, if_true, Option.some.injEq] at ht
    by_cases h0 : t = ""
    · exact h0
    · simp only [fldVal, hfr, hfk, hft, hl'] at ht
      exact hr t (decode_eq_nonempty_str _ _ t h0 ht)
  · simp only [hre] at h
    obtain ⟨fs, hm, rfl⟩ := wrap_ok _ _ _ h
    have hkeys := mapR_keys (·.key) _ _ fs hm (by
      intro x _ y hy
      obtain ⟨c, _, rfl⟩ := wrap_ok _ _ _ hy
      rfl)
    have h1 : lookup "$ref" fs = none := by
      rw [lookup_none_iff, hkeys]
      intro hc
      obtain ⟨m', hm', e⟩ := List.mem_map.mp hc
      exact ref_not_marshKey d w (List.mem_map.mpr ⟨m', (List.mem_filter.mp hm').1, e⟩)
    intro t ht
    rw [lookup_append, h1] at ht
    have := lookup_filter "$ref" (fun k => !(d.dels.contains k)) (applyPost d kvs)
    simp only [Option.orElse] at ht
    rw [this, hl'] at ht
    split at ht
    · exact hr t ht
    · cases ht

/-- at a struct object of the deep model, a key that is not a tag of the kind (an extension, an unknown
    field) is written back with its value, whatever the children do -/
theorem marshalDeep_keeps_unknown {f : Shape → JV → Res JV} (d : Desc) (w : WF compat d) (kvs o1 : Obj)
    (h : marshalDeep f d (unmarshal d (applyPost d kvs)) = .ok o1)
    (hr : refTaken d (applyPost d kvs) = false) (k : String) (hk : k ∉ tagKeys d) (hke : k ≠ "example") :
    lookup k o1 = lookup k kvs := by
  unfold marshalDeep at h
  simp only [unmarshal_fld d _ _ w.asg, unmarshal_ext d _ w.asg w.unm, w.ext, if_true] at h
  have hr' : (d.refEarly && !(fldVal d (applyPost d kvs) "Ref").isEmptyStr) = false := hr
  simp only [hr', Bool.false_eq_true, if_false] at h
  obtain ⟨fs, hm, rfl⟩ := wrap_ok _ _ _ h
  have hkeys := mapR_keys (·.key) _ _ fs hm (by
    intro x _ y hy
    obtain ⟨c, _, rfl⟩ := wrap_ok _ _ _ hy
    rfl)
  have hnm : k ∉ marshKeys d := by
    rw [w.keysEq]; unfold expectedMarshKeys; split
    · intro hc; exact hk (List.mem_filter.mp hc).1
    · exact hk
  have h1 : lookup k fs = none := by
    rw [lookup_none_iff, hkeys]
    intro hc
    obtain ⟨m', hm', e⟩ := List.mem_map.mp hc
    exact hnm (List.mem_map.mpr ⟨m', (List.mem_filter.mp hm').1, e⟩)
  have hd : k ∉ d.dels := by rw [w.dels]; exact hk
  rw [lookup_append, h1]
  have := lookup_filter k (fun k => !(d.dels.contains k)) (applyPost d kvs)
  simp only [Option.orElse]
  rw [this, applyPost_lookup_ne d kvs k hke]
  simp [hd]

theorem deepOK_struct (d : Desc) (h : d.deepOK = true) (ht : d.template = .struct) :
    WF compat d ∧ (∀ fl ∈ d.fields, tcShapeOK fl.tc fl.shape = true) ∧
    (d.post.contains "dateExampleTrim" = true →
      ∀ fl ∈ d.fields, (fl.key = "format" ∨ fl.key = "example") → fl.shape = .leaf) := by
  unfold Desc.deepOK at h
  simp only [ht, Bool.and_eq_true, List.all_eq_true, Bool.or_eq_true] at h
  obtain ⟨_, ⟨hag, hts⟩, hp⟩ := h
  refine ⟨wf_of_agree compat d hag, hts, ?_⟩
  intro hc fl hfl hk
  rcases hp with hp | hp
  · have : d.post = [] := by simpa using hp
    rw [this] at hc; simp at hc
  · have := hp fl hfl
    rcases hk with e | e <;> simp [e] at this <;> exact this

/-! ### kinds -/

section kinds
variable {T : List Desc} {f : Shape → JV → Res JV}

theorem stepKind_idem (hT : TableOK T) (hf : Inv f) (k : String) (v v1 : JV) (hv : v.clean = true)
    (h : stepKind T f k v = .ok v1) : stepKind T f k v1 = .ok v1 := by
  unfold stepKind at h ⊢
  cases hd : findDesc T k with
  | none => simp only [hd] at h ⊢
  | some d =>
    simp only [hd] at h ⊢
    cases ht : d.template with
    | alias => simp only [ht] at h ⊢; exact hf.idem _ v v1 hv h
    | ref => simp only [ht] at h ⊢
    | namedMap => simp only [ht] at h ⊢
    | special => simp only [ht] at h ⊢
    | maplike => simp only [ht] at h ⊢
    | struct =>
      simp only [ht] at h ⊢
      cases v with
      | obj kvs =>
        simp only at h
        obtain ⟨o1, hm, rfl⟩ := wrap_ok _ _ _ h
        obtain ⟨w, hts, hp⟩ := deepOK_struct d (hT d (findDesc_mem T k d hd)) ht
        simp only [marshalDeep_idem hf d w hts hp kvs o1 hv hm, Res.wrap]
      | _ => simp only at h; cases h; rfl

theorem stepKind_nn (hT : TableOK T) (hf : Inv f) (k : String) (v v1 : JV)
    (h : stepKind T f k v = .ok v1) (hn : v.isNull = false) : v1.isNull = false := by
  unfold stepKind at h
  cases hd : findDesc T k with
  | none => simp only [hd] at h; cases h; exact hn
  | some d =>
    simp only [hd] at h
    cases ht : d.template with
    | alias => simp only [ht] at h; exact hf.nn _ v v1 (valueShape_ne_types T hT k d hd) h hn
    | ref => simp only [ht] at h; cases h; exact hn
    | namedMap => simp only [ht] at h; cases h; exact hn
    | special => simp only [ht] at h; cases h; exact hn
    | maplike => simp only [ht] at h; cases h; exact hn
    | struct =>
      simp only [ht] at h
      cases v with
      | obj kvs =>
        simp only at h
        obtain ⟨o1, _, rfl⟩ := wrap_ok _ _ _ h
        rfl
      | _ => simp only at h; cases h; exact hn

theorem stepKind_noRef (hT : TableOK T) (hf : Inv f) (k : String) (kvs kvs1 : Obj)
    (h : stepKind T f k (.obj kvs) = .ok (.obj kvs1)) (hr : refString kvs = none) :
    refString kvs1 = none := by
  unfold stepKind at h
  cases hd : findDesc T k with
  | none => simp only [hd] at h; cases h; exact hr
  | some d =>
    simp only [hd] at h
    cases ht : d.template with
    | alias => simp only [ht] at h; exact hf.noRef _ kvs kvs1 (valueShape_refSafe T hT k d hd) h hr
    | ref => simp only [ht] at h; cases h; exact hr
    | namedMap => simp only [ht] at h; cases h; exact hr
    | special => simp only [ht] at h; cases h; exact hr
    | maplike => simp only [ht] at h; cases h; exact hr
    | struct =>
      simp only [ht] at h
      obtain ⟨o1, hm, e⟩ := wrap_ok _ _ _ h
      cases e
      obtain ⟨w, _, _⟩ := deepOK_struct d (hT d (findDesc_mem T k d hd)) ht
      exact marshalDeep_noRef d w kvs kvs1 hm hr

theorem stepKind_str (hT : TableOK T) (hf : Inv f) (k : String) (v : JV) (t : String)
    (h : stepKind T f k v = .ok (.str t)) (ht : t ≠ "") : v = .str t := by
  unfold stepKind at h
  cases hd : findDesc T k with
  | none => simp only [hd] at h; cases h <;> rfl
  | some d =>
    simp only [hd] at h
    cases htm : d.template with
    | alias => simp only [htm] at h; exact hf.strOrigin _ _ t (valueShape_ne_types T hT k d hd) h ht
    | ref => simp only [htm] at h; cases h <;> rfl
    | namedMap => simp only [htm] at h; cases h <;> rfl
    | special => simp only [htm] at h; cases h <;> rfl
    | maplike => simp only [htm] at h; cases h <;> rfl
    | struct =>
      simp only [htm] at h
      cases v with
      | obj kvs =>
        simp only at h
        obtain ⟨o1, _, e⟩ := wrap_ok _ _ _ h
        cases e
      | _ => simp only at h; cases h <;> rfl

end kinds

/-! ### one level, and the induction over the fuel -/

theorem rtStep_inv {T : List Desc} {f : Shape → JV → Res JV} (hT : TableOK T) (hf : Inv f) :
    Inv (rtStep T f) where
  idem := by
    intro s v v1 hv h
    cases s with
    | leaf => simp only [rtStep] at h ⊢
    | strLeaf => simp only [rtStep] at h ⊢
    | unknown t => simp only [rtStep] at h ⊢
    | types => simp only [rtStep] at h ⊢; exact rtTypes_idem v v1 h
    | addProps => simp only [rtStep] at h ⊢; exact stepAddProps_idem hf v v1 hv h
    | list s => simp only [rtStep] at h ⊢; exact stepList_idem hf s v v1 hv h
    | map s => simp only [rtStep] at h ⊢; exact stepMap_idem hf s v v1 hv h
    | pmap s => simp only [rtStep] at h ⊢; exact stepPMap_idem hf s v v1 hv h
    | ref w => simp only [rtStep] at h ⊢; exact stepRef_idem hT hf w v v1 hv h
    | maplike w => simp only [rtStep] at h ⊢; exact stepMaplike_idem hf w v v1 hv h
    | kind k => simp only [rtStep] at h ⊢; exact stepKind_idem hT hf k v v1 hv h
  nn := by
    intro s v v1 hs h hn
    cases s with
    | leaf => simp only [rtStep] at h; cases h; exact hn
    | strLeaf => simp only [rtStep] at h; cases h; exact hn
    | unknown t => simp only [rtStep] at h; cases h; exact hn
    | types => exact absurd rfl hs
    | addProps => simp only [rtStep] at h; exact stepAddProps_nn hf v v1 h hn
    | list s => simp only [rtStep] at h; exact stepList_nn s v v1 h hn
    | map s => simp only [rtStep] at h; exact stepMap_nn s v v1 h hn
    | pmap s => simp only [rtStep] at h; exact stepPMap_nn s v v1 h hn
    | ref w => simp only [rtStep] at h; exact stepRef_nn hT hf w v v1 h hn
    | maplike w => simp only [rtStep] at h; exact stepMaplike_nn w v v1 h hn
    | kind k => simp only [rtStep] at h; exact stepKind_nn hT hf k v v1 h hn
  leaf := by
    intro v v1 h
    simp only [rtStep] at h; cases h; rfl
  coll := by
    intro s v v1 hs h hn
    cases s with
    | leaf => simp only [rtStep] at h; cases h; exact hn
    | types => simp only [rtStep] at h; exact rtTypes_coll v v1 h hn
    | list s => simp only [rtStep] at h; exact stepList_coll s v v1 h hn
    | map s => simp only [rtStep] at h; exact stepMap_coll s v v1 h hn
    | pmap s => simp only [rtStep] at h; exact stepPMap_coll s v v1 h hn
    | _ => simp [collShape] at hs
  noRef := by
    intro s kvs kvs1 hs h hr
    cases s with
    | leaf => simp only [rtStep] at h; cases h; exact hr
    | strLeaf => simp only [rtStep] at h; cases h; exact hr
    | unknown t => simp only [rtStep] at h; cases h; exact hr
    | types => simp [rtStep, rtTypes] at h
    | addProps => simp only [rtStep] at h; exact stepAddProps_noRef hf kvs kvs1 h hr
    | list s => simp only [rtStep, stepList] at h; cases h; exact hr
    | map s =>
      simp only [rtStep] at h
      exact stepMap_noRef hf s (by simpa [refSafe] using hs) kvs kvs1 h hr
    | pmap s =>
      simp only [rtStep] at h
      exact stepPMap_noRef hf s (by simpa [refSafe] using hs) kvs kvs1 h hr
    | ref w => simp only [rtStep] at h; exact stepRef_noRef hT hf w kvs kvs1 h hr
    | maplike w => simp only [rtStep] at h; exact stepMaplike_noRef hT hf w kvs kvs1 h hr
    | kind k => simp only [rtStep] at h; exact stepKind_noRef hT hf k kvs kvs1 h hr
  strOrigin := by
    intro s v t hs h ht
    cases s with
    | leaf => simp only [rtStep] at h; cases h; rfl
    | strLeaf => simp only [rtStep] at h; cases h; rfl
    | unknown u => simp only [rtStep] at h; cases h; rfl
    | types => exact absurd rfl hs
    | addProps => simp only [rtStep] at h; exact stepAddProps_str hf v t h ht
    | list s => simp only [rtStep] at h; exact stepList_str s v t h
    | map s => simp only [rtStep] at h; exact stepMap_str s v t h
    | pmap s => simp only [rtStep] at h; exact stepPMap_str s v t h
    | ref w => simp only [rtStep] at h; exact stepRef_str hT hf w v t h ht
    | maplike w => simp only [rtStep] at h; exact stepMaplike_str w v t h
    | kind k => simp only [rtStep] at h; exact stepKind_str hT hf k v t h ht

theorem rt_inv {T : List Desc} (hT : TableOK T) : ∀ n, Inv (rt T n)
  | 0 => by
    constructor <;> intros <;> simp_all [rt]
  | n + 1 => by
    have : rt T (n + 1) = rtStep T (rt T n) := by funext s v; rfl
    rw [this]
    exact rtStep_inv hT (rt_inv hT n)

end KinModel.Marshal

namespace KinModel.Marshal

/-! ### the result of the deep round trip does not depend on the fuel: more fuel never changes a value -/

def Below (f f' : Shape → JV → Res JV) : Prop := ∀ s v r, f s v = .ok r → f' s v = .ok r

theorem wrap_mono {α β : Type} (c : α → β) (a a' : Res α) (h : ∀ x, a = .ok x → a' = .ok x) (b : β)
    (hb : a.wrap c = .ok b) : a'.wrap c = .ok b := by
  obtain ⟨x, hx, rfl⟩ := wrap_ok _ _ _ hb
  simp only [h x hx, Res.wrap]

theorem entryStep_mono {T : List Desc} {f f' : Shape → JV → Res JV} (h : Below f f') (s : Shape) (v r : JV)
    (hr : entryStep T f s v = .ok r) : entryStep T f' s v = .ok r := by
  cases v with
  | null =>
    cases s with
    | ref w => exact hr
    | kind k => exact h _ _ r hr
    | strLeaf => exact h _ _ r hr
    | _ => exact hr
  | _ => exact h _ _ r hr

theorem mapKV_mono (g g' : String → JV → Res JV) (kvs kvs1 : Obj) (h : mapKV g kvs = .ok kvs1)
    (hg : ∀ k x y, g k x = .ok y → g' k x = .ok y) : mapKV g' kvs = .ok kvs1 := by
  unfold mapKV at h ⊢
  apply mapR_congr_ok _ _ kvs kvs1 h
  intro kv _ y hy
  exact wrap_mono _ _ _ (fun x hx => hg kv.1 kv.2 x hx) y hy

theorem marshalDeep_mono {f f' : Shape → JV → Res JV} (h : Below f f') (d : Desc) (r : Rec) (o : Obj)
    (ho : marshalDeep f d r = .ok o) : marshalDeep f' d r = .ok o := by
  unfold marshalDeep at ho ⊢
  split
  · rename_i hc; simp only [hc, if_true] at ho; exact ho
  · rename_i hc
    simp only [hc] at ho
    apply wrap_mono _ _ _ _ o ho
    intro fs hfs
    apply mapR_congr_ok _ _ _ fs hfs
    intro m _ y hy
    exact wrap_mono _ _ _ (fun x hx => h _ _ x hx) y hy

theorem rtStep_mono {T : List Desc} {f f' : Shape → JV → Res JV} (h : Below f f') : Below (rtStep T f) (rtStep T f') := by
  intro s v r hr
  cases s with
  | leaf => exact hr
  | strLeaf => exact hr
  | unknown t => exact hr
  | types => exact hr
  | addProps =>
    simp only [rtStep] at hr ⊢
    cases v with
    | obj kvs =>
      cases kvs with
      | nil => exact hr
      | cons kv rest => simp only [stepAddProps] at hr ⊢; exact h _ _ r hr
    | _ => exact hr
  | list s =>
    simp only [rtStep] at hr ⊢
    cases v with
    | arr xs =>
      simp only [stepList] at hr ⊢
      apply wrap_mono _ _ _ _ r hr
      intro ys hys
      exact mapR_congr_ok _ _ xs ys hys (fun x _ y hy => h _ _ y hy)
    | _ => exact hr
  | map s =>
    simp only [rtStep] at hr ⊢
    cases v with
    | obj kvs =>
      simp only [stepMap] at hr ⊢
      apply wrap_mono _ _ _ _ r hr
      intro ys hys
      exact mapKV_mono _ _ kvs ys hys (fun _ x y hy => h _ _ y hy)
    | _ => exact hr
  | pmap s =>
    simp only [rtStep] at hr ⊢
    cases v with
    | obj kvs =>
      simp only [stepPMap] at hr ⊢
      apply wrap_mono _ _ _ _ r hr
      intro ys hys
      exact mapKV_mono _ _ kvs ys hys (fun _ x y hy => entryStep_mono h s x y hy)
    | _ => exact hr
  | ref w =>
    simp only [rtStep] at hr ⊢
    cases v with
    | obj kvs =>
      simp only [stepRef] at hr ⊢
      cases hd : findDesc T w with
      | none => simp only [hd] at hr ⊢; exact hr
      | some d =>
        simp only [hd] at hr ⊢
        cases hrs : refString kvs with
        | some t => simp only [hrs] at hr ⊢; exact hr
        | none => simp only [hrs] at hr ⊢; exact h _ _ r hr
    | _ => exact hr
  | maplike w =>
    simp only [rtStep] at hr ⊢
    cases v with
    | obj kvs =>
      simp only [stepMaplike] at hr ⊢
      cases hd : findDesc T w with
      | none => simp only [hd] at hr ⊢; exact hr
      | some d =>
        simp only [hd] at hr ⊢
        apply wrap_mono _ _ _ _ r hr
        intro ys hys
        apply mapKV_mono _ _ _ ys hys
        intro k x y hy
        by_cases he : isExtKey k = true
        · simp only [he, if_true] at hy ⊢; exact hy
        · simp only [he] at hy ⊢; exact entryStep_mono h _ x y hy
    | _ => exact hr
  | kind k =>
    simp only [rtStep] at hr ⊢
    unfold stepKind at hr ⊢
    cases hd : findDesc T k with
    | none => simp only [hd] at hr ⊢; exact hr
    | some d =>
      simp only [hd] at hr ⊢
      cases ht : d.template with
      | alias => simp only [ht] at hr ⊢; exact h _ _ r hr
      | struct =>
        simp only [ht] at hr ⊢
        cases v with
        | obj kvs =>
          simp only at hr ⊢
          apply wrap_mono _ _ _ _ r hr
          intro o ho
          exact marshalDeep_mono h d _ o ho
        | _ => exact hr
      | ref => simp only [ht] at hr ⊢; exact hr
      | maplike => simp only [ht] at hr ⊢; exact hr
      | namedMap => simp only [ht] at hr ⊢; exact hr
      | special => simp only [ht] at hr ⊢; exact hr

theorem rt_succ_mono (T : List Desc) : ∀ n, Below (rt T n) (rt T (n + 1))
  | 0 => by intro s v r h; simp [rt] at h
  | n + 1 => by
    have e1 : rt T (n + 1) = rtStep T (rt T n) := by funext s v; rfl
    have e2 : rt T (n + 2) = rtStep T (rt T (n + 1)) := by funext s v; rfl
    rw [e1, e2]
    exact rtStep_mono (rt_succ_mono T n)

theorem rt_mono (T : List Desc) (n m : Nat) (h : n ≤ m) : Below (rt T n) (rt T m) := by
  induction m with
  | zero =>
    have : n = 0 := by omega
    subst this; intro s v r hr; exact hr
  | succ m ih =>
    by_cases e : n = m + 1
    · subst e; intro s v r hr; exact hr
    · intro s v r hr
      exact rt_succ_mono T m s v r (ih (by omega) s v r hr)

end KinModel.Marshal
