/-
Helper lemmas for C05 (string layer): strings.Split / strings.Join round trip for a possibly
multi-character separator, cutPrefix, pair splitting. Core only.
-/
import KinModel.Style
namespace KinModel.Style

theorem splitS_skip (d a rest : Str) : splitS d (a ++ rest) a.length = splitS d rest 0 := by
  induction a with
  | nil => simp
  | cons c cs ih => simp [splitS, ih]

theorem splitS_ne_nil (d s : Str) (k : Nat) : splitS d s k ≠ [] := by
  induction s generalizing k with
  | nil => simp [splitS]
  | cons c cs ih =>
    cases k with
    | zero =>
      simp only [splitS]
      split
      · simp
      · cases h : splitS d cs 0 with
        | nil => exact absurd h (ih 0)
        | cons a b => simp [consHead]
    | succ k => simp only [splitS]; exact ih k

/-- scanning an element whose characters all differ from the separator's first character -/
theorem splitOn_elem (c0 : Char) (dr x rest : Str) (h : c0 ∉ x) :
    splitOn (c0 :: dr) (x ++ (c0 :: dr) ++ rest) = x :: splitOn (c0 :: dr) rest := by
  unfold splitOn
  induction x with
  | nil =>
    have h1 : splitS (c0 :: dr) (dr ++ rest) dr.length = splitS (c0 :: dr) rest 0 := splitS_skip _ dr rest
    simp [splitS, List.isPrefixOf, h1]
  | cons c cs ih =>
    have hc : c ≠ c0 := by intro e; apply h; simp [e]
    have hcs : c0 ∉ cs := by intro e; apply h; simp [e]
    have ih' := ih hcs
    simp only [List.cons_append, List.append_assoc] at ih' ⊢
    simp [splitS, List.isPrefixOf, Ne.symm hc, ih', consHead]

theorem splitOn_last (c0 : Char) (dr x : Str) (h : c0 ∉ x) : splitOn (c0 :: dr) x = [x] := by
  unfold splitOn
  induction x with
  | nil => simp [splitS]
  | cons c cs ih =>
    have hc : c ≠ c0 := by intro e; apply h; simp [e]
    have hcs : c0 ∉ cs := by intro e; apply h; simp [e]
    simp [splitS, List.isPrefixOf, Ne.symm hc, ih hcs, consHead]

/-- `strings.Split(strings.Join(xs, d), d) = xs` when no element contains the first character of `d` -/
theorem splitOn_joinL (c0 : Char) (dr : Str) :
    ∀ (xs : List Str), xs ≠ [] → (∀ x ∈ xs, c0 ∉ x) → splitOn (c0 :: dr) (joinL (c0 :: dr) xs) = xs
  | [], h, _ => absurd rfl h
  | [x], _, hx => by simpa [joinL] using splitOn_last c0 dr x (hx x (by simp))
  | x :: y :: r, _, hx => by
    have h1 : c0 ∉ x := hx x (by simp)
    have ih := splitOn_joinL c0 dr (y :: r) (by simp) (fun z hz => hx z (by simp [hz]))
    simp only [joinL]
    rw [splitOn_elem c0 dr x _ h1, ih]

theorem cutPrefix_append (pre s : Str) : cutPrefix (pre ++ s) pre = some s := by
  unfold cutPrefix
  have : pre.isPrefixOf (pre ++ s) = true := by
    induction pre with
    | nil => simp
    | cons c cs ih => simp [List.isPrefixOf, ih]
  simp [this]

theorem joinL_ne_nil (d : Str) : ∀ (xs : List Str), xs ≠ [] → (∀ x ∈ xs, x ≠ []) → joinL d xs ≠ []
  | [], h, _ => absurd rfl h
  | [x], _, hx => by simpa [joinL] using hx x (by simp)
  | x :: y :: r, _, hx => by
    have : x ≠ [] := hx x (by simp)
    simp [joinL, this]

theorem freeOf_iff (c : Char) (s : Str) : freeOf c s = true ↔ c ∉ s := by
  simp [freeOf]

theorem pairUp_flatKV (kvs : List (Str × Str)) : pairUp (flatKV kvs) = some kvs := by
  induction kvs with
  | nil => rfl
  | cons kv rest ih => obtain ⟨k, v⟩ := kv; simp [flatKV, pairUp, ih]

/-- an odd number of items is never a list of name/value pairs (the guard of propsFromString) -/
theorem pairUp_none_of_odd : ∀ (l : List Str), l.length % 2 = 1 → pairUp l = none
  | [], h => by simp at h
  | [_], _ => rfl
  | k :: v :: rest, h => by
    have : rest.length % 2 = 1 := by simp at h; omega
    simp [pairUp, pairUp_none_of_odd rest this]

theorem pairUp_some_of_even : ∀ (l : List Str), l.length % 2 = 0 → (pairUp l).isSome = true
  | [], _ => rfl
  | [_], h => by simp at h
  | k :: v :: rest, h => by
    have : rest.length % 2 = 0 := by simp at h; omega
    have ih := pairUp_some_of_even rest this
    cases hp : pairUp rest with
    | none => simp [hp] at ih
    | some x => simp [pairUp, hp]

theorem kvOf_eq (k v : Str) (hk : '=' ∉ k) (hv : '=' ∉ v) : kvOf ['='] (k ++ '=' :: v) = some (k, v) := by
  unfold kvOf
  have h1 := splitOn_elem '=' [] k v hk
  have h2 := splitOn_last '=' [] v hv
  simp only [List.append_assoc, List.cons_append, List.nil_append] at h1
  rw [h1, h2]

theorem mapKV_eqKV (kvs : List (Str × Str)) (h : ∀ kv ∈ kvs, '=' ∉ kv.1 ∧ '=' ∉ kv.2) :
    mapKV ['='] (eqKV kvs) = some kvs := by
  induction kvs with
  | nil => rfl
  | cons kv rest ih =>
    obtain ⟨k, v⟩ := kv
    have hk := h (k, v) (by simp)
    have ih' := ih (fun x hx => h x (by simp [hx]))
    simp only [eqKV, List.map_cons] at ih' ⊢
    simp [mapKV, kvOf_eq k v hk.1 hk.2, ih']

end KinModel.Style
