/-
The descent of InternalizeRefs AS THE MODEL IMPLEMENTS IT (KinModel/Internalize.lean), written in the vocabulary of the
regenerated table `KinModel.Gen.internalized` (go/cmd/extract/internalized.go): one row per call of an add…ToSpec,
deref… or isVisited… method, in source order, with the argument and the parent-is-external expression passed, and one
row per nil guard (`skipIf` = continue/return when the test holds — the `v < 0` branches and the absent list entries of
the model; `onlyIf` = the guarded calls are made only then).
`Props/C16.lean` proves `Gen.internalized = modelDescent` on every run: a call added, dropped, re-ordered or given
another flag expression in openapi3/internalize_refs.go breaks that obligation.
Correspondence with the Lean functions: derefSchema ↔ derefSchema/derefSchemaCells; derefHeaders ↔ derefHeaders;
derefExamples, derefLinks ↔ addAll; derefContent ↔ derefContent/derefEnc; derefResponse(+Bodies, Responses) ↔
derefResponses; derefParameter ↔ derefParameter; derefRequestBody ↔ the derefContent call in derefOps/topRequestBodies;
derefPaths ↔ derefPaths/enterPI/derefParams/derefOps/derefCallbacks; InternalizeRefs ↔ internalizeM/top*.
-/
import KinModel.Gen.Internalized
import KinModel.Gen.C16RefFields
namespace KinModel.Gen

def modelDescent : List IRow := [
  IRow.call "derefSchema" "skipIf" "s == nil || doc.isVisitedSchema(s)" "",
  IRow.call "derefSchema" "isVisitedSchema" "s" "",
  IRow.call "derefSchema" "addSchemaToSpec" "s2" "parentIsExternal",
  IRow.call "derefSchema" "onlyIf" "s2 != nil" "",
  IRow.call "derefSchema" "derefSchema" "s2.Value" "isExternal || parentIsExternal",
  IRow.call "derefSchema" "addSchemaToSpec" "s2" "parentIsExternal",
  IRow.call "derefSchema" "onlyIf" "s2 != nil" "",
  IRow.call "derefSchema" "derefSchema" "s2.Value" "isExternal || parentIsExternal",
  IRow.call "derefSchema" "addSchemaToSpec" "ref" "parentIsExternal",
  IRow.call "derefSchema" "onlyIf" "ref != nil" "",
  IRow.call "derefSchema" "derefSchema" "ref.Value" "isExternal || parentIsExternal",
  IRow.call "derefHeaders" "addHeaderToSpec" "h" "parentIsExternal",
  IRow.call "derefHeaders" "skipIf" "h == nil || h.Value == nil" "",
  IRow.call "derefHeaders" "isVisitedHeader" "h.Value" "",
  IRow.call "derefHeaders" "derefParameter" "h.Value.Parameter" "parentIsExternal || isExternal",
  IRow.call "derefExamples" "addExampleToSpec" "e" "parentIsExternal",
  IRow.call "derefContent" "skipIf" "mediatype == nil" "",
  IRow.call "derefContent" "addSchemaToSpec" "mediatype.Schema" "parentIsExternal",
  IRow.call "derefContent" "onlyIf" "mediatype.Schema != nil" "",
  IRow.call "derefContent" "derefSchema" "mediatype.Schema.Value" "isExternal || parentIsExternal",
  IRow.call "derefContent" "derefExamples" "mediatype.Examples" "parentIsExternal",
  IRow.call "derefContent" "skipIf" "e == nil" "",
  IRow.call "derefContent" "derefHeaders" "e.Headers" "parentIsExternal",
  IRow.call "derefLinks" "addLinkToSpec" "l" "parentIsExternal",
  IRow.call "derefResponse" "addResponseToSpec" "r" "parentIsExternal",
  IRow.call "derefResponse" "onlyIf" "v := r.Value; v != nil" "",
  IRow.call "derefResponse" "derefHeaders" "v.Headers" "isExternal || parentIsExternal",
  IRow.call "derefResponse" "derefContent" "v.Content" "isExternal || parentIsExternal",
  IRow.call "derefResponse" "derefLinks" "v.Links" "isExternal || parentIsExternal",
  IRow.call "derefResponses" "derefResponseBodies" "rs.Map()" "parentIsExternal",
  IRow.call "derefResponseBodies" "derefResponse" "e" "parentIsExternal",
  IRow.call "derefParameter" "addSchemaToSpec" "p.Schema" "parentIsExternal",
  IRow.call "derefParameter" "derefContent" "p.Content" "parentIsExternal",
  IRow.call "derefParameter" "onlyIf" "p.Schema != nil" "",
  IRow.call "derefParameter" "derefSchema" "p.Schema.Value" "isExternal || parentIsExternal",
  IRow.call "derefRequestBody" "derefContent" "r.Content" "parentIsExternal",
  IRow.call "derefPaths" "skipIf" "ops == nil || doc.isVisitedPathItem(ops)" "",
  IRow.call "derefPaths" "isVisitedPathItem" "ops" "",
  IRow.call "derefPaths" "addParameterToSpec" "param" "pathIsExternal",
  IRow.call "derefPaths" "onlyIf" "param != nil && param.Value != nil" "",
  IRow.call "derefPaths" "derefParameter" "*param.Value" "pathIsExternal || isExternal",
  IRow.call "derefPaths" "addRequestBodyToSpec" "op.RequestBody" "pathIsExternal",
  IRow.call "derefPaths" "onlyIf" "op.RequestBody != nil && op.RequestBody.Value != nil" "",
  IRow.call "derefPaths" "derefRequestBody" "*op.RequestBody.Value" "pathIsExternal || isExternal",
  IRow.call "derefPaths" "addCallbackToSpec" "cb" "pathIsExternal",
  IRow.call "derefPaths" "onlyIf" "cb.Value != nil" "",
  IRow.call "derefPaths" "derefPaths" "cbValue" "pathIsExternal || isExternal",
  IRow.call "derefPaths" "derefResponses" "op.Responses" "pathIsExternal",
  IRow.call "derefPaths" "addParameterToSpec" "param" "pathIsExternal",
  IRow.call "derefPaths" "onlyIf" "param != nil && param.Value != nil" "",
  IRow.call "derefPaths" "derefParameter" "*param.Value" "pathIsExternal || isExternal",
  IRow.call "InternalizeRefs" "resetVisited" "" "",   -- initSt / rerunSt: the three visited sets start empty on EVERY call
  IRow.call "InternalizeRefs" "onlyIf" "refNameResolver == nil" "",
  IRow.call "InternalizeRefs" "onlyIf" "components := doc.Components; components != nil" "",
  IRow.call "InternalizeRefs" "addSchemaToSpec" "schema" "false",
  IRow.call "InternalizeRefs" "onlyIf" "schema != nil && schema.Value != nil" "",
  IRow.call "InternalizeRefs" "derefSchema" "schema.Value" "isExternal",
  IRow.call "InternalizeRefs" "addParameterToSpec" "p" "false",
  IRow.call "InternalizeRefs" "onlyIf" "p != nil && p.Value != nil" "",
  IRow.call "InternalizeRefs" "derefParameter" "*p.Value" "isExternal",
  IRow.call "InternalizeRefs" "derefHeaders" "components.Headers" "false",
  IRow.call "InternalizeRefs" "addRequestBodyToSpec" "req" "false",
  IRow.call "InternalizeRefs" "onlyIf" "req != nil && req.Value != nil" "",
  IRow.call "InternalizeRefs" "derefRequestBody" "*req.Value" "isExternal",
  IRow.call "InternalizeRefs" "derefResponseBodies" "components.Responses" "false",
  IRow.call "InternalizeRefs" "addSecuritySchemeToSpec" "ss" "false",
  IRow.call "InternalizeRefs" "derefExamples" "components.Examples" "false",
  IRow.call "InternalizeRefs" "derefLinks" "components.Links" "false",
  IRow.call "InternalizeRefs" "addCallbackToSpec" "cb" "false",
  IRow.call "InternalizeRefs" "onlyIf" "cb != nil && cb.Value != nil" "",
  IRow.call "InternalizeRefs" "derefPaths" "cbValue" "isExternal",
  IRow.call "InternalizeRefs" "derefPaths" "doc.Paths.Map()" "false"
]

/-- the ref-bearing fields of the document types that the descent of InternalizeRefs does not read, and is known not to
(finding F-C16-7: derefParameter does not visit `Examples`; Header embeds Parameter) -/
def knownUnread : List (String × String) := [("Parameter", "Examples")]

/-- a row of the regenerated table `c16RefFields` is accounted for: the field is read by the descent, or listed above -/
def rfOK : RFRow → Bool
  | .field s f r => r || knownUnread.contains (s, f)
  | .unrecognised _ => false

/-- each add…ToSpec method with the member of `doc.Components` that is its kind's own map, the text it must write and the
name of its wrapper parameter -/
def addKind : List (String × String × String × String) := [
  ("addSchemaToSpec", "Schemas", "#/components/schemas/", "s"),
  ("addParameterToSpec", "Parameters", "#/components/parameters/", "p"),
  ("addHeaderToSpec", "Headers", "#/components/headers/", "h"),
  ("addRequestBodyToSpec", "RequestBodies", "#/components/requestBodies/", "r"),
  ("addResponseToSpec", "Responses", "#/components/responses/", "r"),
  ("addSecuritySchemeToSpec", "SecuritySchemes", "#/components/securitySchemes/", "ss"),
  ("addExampleToSpec", "Examples", "#/components/examples/", "e"),
  ("addLinkToSpec", "Links", "#/components/links/", "l"),
  ("addCallbackToSpec", "Callbacks", "#/components/callbacks/", "c")]

/-- the early return of every add…ToSpec (nil wrapper, wrapper without value since 05c5875, text not external): the first
branch of the model's `addCore` -/
def addGuard (v : String) : String :=
  v ++ " == nil || " ++ v ++ ".Value == nil || !isExternalRef(" ++ v ++ ".Ref, parentIsExternal)"

/-- a row of `internalizedAdd` uses the kind's own map (lookup, nil test, initialisation, store) / writes the kind's own
prefix / is the early return as modelled — the model has ONE `addCore` that looks up and stores under the cell's own
collection -/
def addRowOK : IRow → Bool
  | .call fn what arg _ =>
    (match addKind.find? (·.1 == fn) with
     | some (_, m, pre, v) =>
       if what == "prefix" then arg == pre else if what == "guard" then arg == addGuard v else arg == m
     | none => false)
  | .unrecognised _ => false

def rowFn : IRow → String
  | .call fn _ _ _ => fn
  | .unrecognised _ => ""
def rowWhat : IRow → String
  | .call _ what _ _ => what
  | .unrecognised _ => "unrecognised"

/-- the order of the steps inside one add…ToSpec: the existence test, the early rewrite, creation of the map, store, rewrite
(addCallbackToSpec has no existence test: it overwrites) -/
def addSteps (fn : String) : List String :=
  if fn == "addCallbackToSpec" then ["guard", "niltest", "init", "prefix", "store"]
  else ["guard", "lookup", "prefix", "niltest", "init", "store", "prefix"]

def addShapeOK (rows : List IRow) : Bool :=
  addKind.all fun e => ((rows.filter (fun r => rowFn r == e.1)).map rowWhat) == addSteps e.1

def isUnrecognised : IRow → Bool
  | .unrecognised _ => true
  | _ => false

end KinModel.Gen
