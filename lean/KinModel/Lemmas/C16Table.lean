/-
The descent of InternalizeRefs AS THE MODEL IMPLEMENTS IT (KinModel/Internalize.lean), written in the vocabulary of the
regenerated table `KinModel.Gen.internalized` (go/cmd/extract/internalized.go): one row per call of an add…ToSpec,
deref… or isVisited… method, in source order, with the argument and the parent-is-external expression passed.
`Props/C16.lean` proves `Gen.internalized = modelDescent` on every run: a call added, dropped, re-ordered or given
another flag expression in openapi3/internalize_refs.go breaks that obligation.
Correspondence with the Lean functions: derefSchema ↔ derefSchema/derefSchemaCells; derefHeaders ↔ derefHeaders;
derefExamples, derefLinks ↔ addAll; derefContent ↔ derefContent/derefEnc; derefResponse(+Bodies, Responses) ↔
derefResponses; derefParameter ↔ derefParameter; derefRequestBody ↔ the derefContent call in derefOps/topRequestBodies;
derefPaths ↔ derefPaths/enterPI/derefParams/derefOps/derefCallbacks; InternalizeRefs ↔ internalizeM/top*.
-/
import KinModel.Gen.Internalized
namespace KinModel.Gen

def modelDescent : List IRow := [
  IRow.call "derefSchema" "isVisitedSchema" "s" "",
  IRow.call "derefSchema" "addSchemaToSpec" "s2" "parentIsExternal",
  IRow.call "derefSchema" "derefSchema" "s2.Value" "isExternal || parentIsExternal",
  IRow.call "derefSchema" "addSchemaToSpec" "s2" "parentIsExternal",
  IRow.call "derefSchema" "derefSchema" "s2.Value" "isExternal || parentIsExternal",
  IRow.call "derefSchema" "addSchemaToSpec" "ref" "parentIsExternal",
  IRow.call "derefSchema" "derefSchema" "ref.Value" "isExternal || parentIsExternal",
  IRow.call "derefHeaders" "addHeaderToSpec" "h" "parentIsExternal",
  IRow.call "derefHeaders" "isVisitedHeader" "h.Value" "",
  IRow.call "derefHeaders" "derefParameter" "h.Value.Parameter" "parentIsExternal || isExternal",
  IRow.call "derefExamples" "addExampleToSpec" "e" "parentIsExternal",
  IRow.call "derefContent" "addSchemaToSpec" "mediatype.Schema" "parentIsExternal",
  IRow.call "derefContent" "derefSchema" "mediatype.Schema.Value" "isExternal || parentIsExternal",
  IRow.call "derefContent" "derefExamples" "mediatype.Examples" "parentIsExternal",
  IRow.call "derefContent" "derefHeaders" "e.Headers" "parentIsExternal",
  IRow.call "derefLinks" "addLinkToSpec" "l" "parentIsExternal",
  IRow.call "derefResponse" "addResponseToSpec" "r" "parentIsExternal",
  IRow.call "derefResponse" "derefHeaders" "v.Headers" "isExternal || parentIsExternal",
  IRow.call "derefResponse" "derefContent" "v.Content" "isExternal || parentIsExternal",
  IRow.call "derefResponse" "derefLinks" "v.Links" "isExternal || parentIsExternal",
  IRow.call "derefResponses" "derefResponseBodies" "rs.Map()" "parentIsExternal",
  IRow.call "derefResponseBodies" "derefResponse" "e" "parentIsExternal",
  IRow.call "derefParameter" "addSchemaToSpec" "p.Schema" "parentIsExternal",
  IRow.call "derefParameter" "derefContent" "p.Content" "parentIsExternal",
  IRow.call "derefParameter" "derefSchema" "p.Schema.Value" "isExternal || parentIsExternal",
  IRow.call "derefRequestBody" "derefContent" "r.Content" "parentIsExternal",
  IRow.call "derefPaths" "isVisitedPathItem" "ops" "",
  IRow.call "derefPaths" "addParameterToSpec" "param" "pathIsExternal",
  IRow.call "derefPaths" "derefParameter" "*param.Value" "pathIsExternal || isExternal",
  IRow.call "derefPaths" "addRequestBodyToSpec" "op.RequestBody" "pathIsExternal",
  IRow.call "derefPaths" "derefRequestBody" "*op.RequestBody.Value" "pathIsExternal || isExternal",
  IRow.call "derefPaths" "addCallbackToSpec" "cb" "pathIsExternal",
  IRow.call "derefPaths" "derefPaths" "cbValue" "pathIsExternal || isExternal",
  IRow.call "derefPaths" "derefResponses" "op.Responses" "pathIsExternal",
  IRow.call "derefPaths" "addParameterToSpec" "param" "pathIsExternal",
  IRow.call "derefPaths" "derefParameter" "*param.Value" "pathIsExternal || isExternal",
  IRow.call "InternalizeRefs" "addSchemaToSpec" "schema" "false",
  IRow.call "InternalizeRefs" "derefSchema" "schema.Value" "isExternal",
  IRow.call "InternalizeRefs" "addParameterToSpec" "p" "false",
  IRow.call "InternalizeRefs" "derefParameter" "*p.Value" "isExternal",
  IRow.call "InternalizeRefs" "derefHeaders" "components.Headers" "false",
  IRow.call "InternalizeRefs" "addRequestBodyToSpec" "req" "false",
  IRow.call "InternalizeRefs" "derefRequestBody" "*req.Value" "isExternal",
  IRow.call "InternalizeRefs" "derefResponseBodies" "components.Responses" "false",
  IRow.call "InternalizeRefs" "addSecuritySchemeToSpec" "ss" "false",
  IRow.call "InternalizeRefs" "derefExamples" "components.Examples" "false",
  IRow.call "InternalizeRefs" "derefLinks" "components.Links" "false",
  IRow.call "InternalizeRefs" "addCallbackToSpec" "cb" "false",
  IRow.call "InternalizeRefs" "derefPaths" "cbValue" "isExternal",
  IRow.call "InternalizeRefs" "derefPaths" "doc.Paths.Map()" "false"
]

def isUnrecognised : IRow → Bool
  | .unrecognised _ => true
  | _ => false

end KinModel.Gen
