/- Helper lemmas for property C06: the validator with `DefaultsSet` (`visD`) against the plain request-side
validator (`visit`). Not property statements. -/
import KinModel.Body
import KinModel.Lemmas.C06
namespace KinModel.Body

/-! ### small facts -/

@[simp] theorem guardV_true (v : V) : guardV true v = some v := rfl
@[simp] theorem guardV_false (v : V) : guardV false v = none := rfl

theorem guardV_isSome (b : Bool) (v : V) : (guardV b v).isSome = b := by cases b <;> rfl
theorem guardV_isNone (b : Bool) (v : V) : (guardV b v).isNone = !b := by cases b <;> rfl

theorem pickOne_replicate (n : Nat) (v : V) : pickOne (List.replicate n v) = guardV (n == 1) v := by
  match n with
  | 0 => rfl
  | 1 => rfl
  | n + 2 => rfl

theorem setKey_self (k : Str) (x : V) (kvs : List (Str × V)) (h : lookup k kvs = some x) : setKey k x kvs = kvs := by
  induction kvs with
  | nil => simp [lookup] at h
  | cons e r ih =>
    obtain ⟨k', v'⟩ := e
    unfold lookup at h
    unfold setKey
    by_cases hk : k = k'
    · simp only [hk, if_true, Option.some.injEq] at h ⊢
      rw [h]
    · simp only [hk, if_false] at h ⊢
      rw [ih h]

theorem lookup_setKey_ne (k k' : Str) (x : V) (kvs : List (Str × V)) (h : k' ≠ k) :
    lookup k' (setKey k x kvs) = lookup k' kvs := by
  induction kvs with
  | nil => simp [setKey, lookup, h]
  | cons e r ih =>
    obtain ⟨k0, v0⟩ := e
    unfold setKey
    by_cases hk : k = k0
    · subst hk
      simp [lookup, h]
    · simp only [hk, if_false]
      unfold lookup
      by_cases hk' : k' = k0
      · simp [hk']
      · simp only [hk', if_false]; exact ih

theorem nodupKeys_iff (l : List Str) : nodupKeys l = true ↔ l.Nodup := by
  induction l with
  | nil => simp [nodupKeys]
  | cons k r ih =>
    unfold nodupKeys
    simp only [Bool.and_eq_true, Bool.not_eq_true', List.nodup_cons, ih]
    constructor
    · rintro ⟨h1, h2⟩; exact ⟨by simpa using h1, h2⟩
    · rintro ⟨h1, h2⟩; exact ⟨by simpa using h1, h2⟩

theorem lookup_of_mem_nodup {α : Type} (k : Str) (v : α) (l : List (Str × α)) (hn : (keys l).Nodup)
    (h : (k, v) ∈ l) : lookup k l = some v := by
  induction l with
  | nil => cases h
  | cons e r ih =>
    obtain ⟨k', v'⟩ := e
    simp only [keys, List.map_cons, List.nodup_cons] at hn
    unfold lookup
    rcases List.mem_cons.mp h with h1 | h2
    · cases h1; simp
    · have : k ≠ k' := by
        intro hk; subst hk
        exact hn.1 (mem_keys_of_mem k v r h2)
      simp only [this, if_false]
      exact ih hn.2 h2

theorem contains_keys {α : Type} (k : Str) (l : List (Str × α)) : (keys l).contains k = (lookup k l).isSome := by
  induction l with
  | nil => rfl
  | cons e r ih =>
    obtain ⟨k', v'⟩ := e
    unfold lookup
    simp only [keys, List.map_cons, List.contains_cons] at ih ⊢
    by_cases hk : k = k'
    · simp [hk]
    · have : (k == k') = false := by simpa using hk
      simp only [this, Bool.false_or, hk, if_false]
      exact ih

theorem keys_visitFields (exro : Bool) (kvs : List (Str × V)) : keys (visitFields exro kvs) = keys kvs := by
  induction kvs with
  | nil => rfl
  | cons e r ih =>
    obtain ⟨k, v⟩ := e
    unfold visitFields
    simp only [keys, List.map_cons] at ih ⊢
    rw [ih]

theorem fieldsOK_visitFields (exro : Bool) (s : RS) (kvs : List (Str × V)) :
    fieldsOK s (visitFields exro kvs) =
      kvs.all fun kv => match lookup kv.1 s.props with | some p => visitV exro kv.2 p | none => s.addl != some false := by
  induction kvs with
  | nil => rfl
  | cons e r ih =>
    obtain ⟨k, v⟩ := e
    unfold visitFields
    unfold fieldsOK at ih ⊢
    simp only [List.all_cons]
    congr 1

theorem all_visitItems (exro : Bool) (xs : List V) (it : RS) :
    ((visitItems exro xs).all fun f => f it) = xs.all fun x => visitV exro x it := by
  induction xs with
  | nil => rfl
  | cons x r ih =>
    unfold visitItems
    simp only [List.all_cons]
    rw [ih]

/-- the verdict of the members loop, split into "undeclared keys" and "declared present properties" -/
theorem fields_split (s : RS) (kvs : List (Str × V)) (g : V → RS → Bool)
    (hk : (keys kvs).Nodup) (hp : (keys s.props).Nodup) :
    (kvs.all fun kv => match lookup kv.1 s.props with | some p => g kv.2 p | none => s.addl != some false) =
    (addlOKD s kvs &&
      s.props.all fun kp => match lookup kp.1 kvs with | none => true | some x => g x kp.2) := by
  rw [Bool.eq_iff_iff]
  unfold addlOKD
  simp only [List.all_eq_true, Bool.and_eq_true, Bool.or_eq_true]
  constructor
  · intro h
    constructor
    · intro kv hkv
      have := h kv hkv
      cases hl : lookup kv.1 s.props with
      | none => rw [hl] at this; exact Or.inr this
      | some p => exact Or.inl rfl
    · intro kp hkp
      cases hl : lookup kp.1 kvs with
      | none => rfl
      | some x =>
        have hm := lookup_some_mem kp.1 kvs x hl
        have := h (kp.1, x) hm
        have hlp : lookup kp.1 s.props = some kp.2 := lookup_of_mem_nodup kp.1 kp.2 s.props hp (by simpa using hkp)
        simp only [hlp] at this
        exact this
  · rintro ⟨h1, h2⟩ kv hkv
    cases hl : lookup kv.1 s.props with
    | none =>
      rcases h1 kv hkv with h | h
      · simp [hl] at h
      · exact h
    | some p =>
      have hm := lookup_some_mem kv.1 s.props p hl
      have := h2 (kv.1, p) hm
      have hlk : lookup kv.1 kvs = some kv.2 := lookup_of_mem_nodup kv.1 kv.2 kvs hk (by simpa using hkv)
      simp only [hlk] at this
      exact this

/-! ### wf of the parts -/

theorem wf_parts (t : Option Ty) (n r w : Bool) (ml : Nat) (mx : Option Int) (props : List (Str × RS))
    (req : List Str) (a : Option Bool) (items nt : Option RS) (oneOf anyOf allOf : List RS) (dflt : Extra)
    (h : (RS.mk t n r w ml mx props req a items nt oneOf anyOf allOf dflt).wf = true) :
    (keys props).Nodup ∧ wfProps props = true ∧ wfOpt items = true ∧ wfOpt nt = true ∧ wfList oneOf = true ∧
    wfList anyOf = true ∧ wfList allOf = true ∧ wfDflt dflt.dflt = true := by
  unfold RS.wf at h
  simp only [Bool.and_eq_true] at h
  obtain ⟨⟨⟨⟨⟨⟨⟨h1, h2⟩, h3⟩, h4⟩, h5⟩, h6⟩, h7⟩, h8⟩ := h
  exact ⟨(nodupKeys_iff _).mp h1, h2, h3, h4, h5, h6, h7, h8⟩

theorem wfList_mem (l : List RS) (h : wfList l = true) : ∀ x ∈ l, x.wf = true := by
  induction l with
  | nil => intro x hx; cases hx
  | cons y r ih =>
    unfold wfList at h
    simp only [Bool.and_eq_true] at h
    intro x hx
    rcases List.mem_cons.mp hx with rfl | hx
    · exact h.1
    · exact ih h.2 x hx

theorem wfProps_mem (l : List (Str × RS)) (h : wfProps l = true) : ∀ kp ∈ l, kp.2.wf = true := by
  induction l with
  | nil => intro x hx; cases hx
  | cons y r ih =>
    obtain ⟨k, p⟩ := y
    unfold wfProps at h
    simp only [Bool.and_eq_true] at h
    intro x hx
    rcases List.mem_cons.mp hx with rfl | hx
    · exact h.1
    · exact ih h.2 x hx

/-! ### T1: without `DefaultsSet`, `visD` is `visit` -/

theorem guardV_bind (b : Bool) (v : V) (f : V → Option V) : (guardV b v).bind f = if b then f v else none := by
  cases b <;> rfl

/-- `compK` when every part answers with the value itself or not at all -/
theorem compK_guard (S : RS) (v : V) (fNot : V → Bool) (fOne fAny : V → List V) (fAll fOwn : V → Option V)
    (bN : Bool) (cnt : Nat) (bAny bAll bOwn : Bool)
    (hN : fNot v = bN) (hOne : fOne v = List.replicate cnt v) (hAny : (fAny v).head? = guardV bAny v)
    (hAll : fAll v = guardV bAll v) (hOwn : fOwn v = guardV bOwn v) :
    compK S v fNot fOne fAny fAll fOwn =
      guardV (if v.isNull && S.nullable then true
              else if isEmptyLeaf S then !v.isNull
              else bN && (S.oneOf.isEmpty || cnt == 1) && (S.anyOf.isEmpty || bAny) && bAll &&
                   (if v.isNull && hasComp S then true else bOwn)) v := by
  unfold compK
  by_cases h1 : (v.isNull && S.nullable) = true
  · simp [h1]
  by_cases h2 : isEmptyLeaf S = true
  · simp only [h1, h2, ↓reduceIte]; cases v.isNull <;> rfl
  simp only [h1, h2, ↓reduceIte, hN]
  cases bN with
  | false => simp
  | true =>
    cases ho : S.oneOf.isEmpty <;> cases hc : (cnt == 1) <;> cases ha : S.anyOf.isEmpty <;> cases bAny <;>
      cases bAll <;> cases bOwn <;> cases hl : (v.isNull && hasComp S) <;>
      simp [hOne, pickOne_replicate, hc, hAny, hAll, hOwn, hl] <;> simp_all

/-- composition layer: if the own-keyword part of `visD` (no defaults) computes `own`, then `visD` computes `comp` -/
theorem visD_off_comp (exro : Bool) (v : V) (own : RS → Bool)
    (hown : ∀ s, s.wf = true →
      ownK false exro s (visProps false exro s.props) (visItems false exro s.items) v = guardV (own s) v) :
    ∀ s, s.wf = true → visD false exro s v = guardV (comp v.isNull own s) v := by
  apply rs_induct
  intro t n r w ml mx props req a items nt oneOf anyOf allOf dflt hnt h1 h2 h3 hwf
  obtain ⟨_, _, _, wn, wo, wa, wl, _⟩ := wf_parts _ _ _ _ _ _ _ _ _ _ _ _ _ _ _ hwf
  have eNot : visNot false exro nt v = compNot v.isNull own nt := by
    cases nt with
    | none => rfl
    | some x =>
      unfold visNot compNot
      rw [hnt x rfl (by simpa [wfOpt] using wn), guardV_isNone]
  have eL : ∀ l : List RS, wfList l = true →
      (∀ x ∈ l, x.wf = true → visD false exro x v = guardV (comp v.isNull own x) v) →
      visMatches false exro l v = List.replicate (compCount v.isNull own l) v ∧
      (visMatches false exro l v).head? = guardV (compAny v.isNull own l) v ∧
      visAll false exro l v = guardV (compAll v.isNull own l) v := by
    intro l hl hm
    induction l with
    | nil => exact ⟨rfl, rfl, rfl⟩
    | cons x r ih =>
      have hx := hm x (by simp) (wfList_mem _ hl x (by simp))
      have hr : wfList r = true := by unfold wfList at hl; simp only [Bool.and_eq_true] at hl; exact hl.2
      have ihr := ih hr (fun y hy => hm y (by simp [hy]))
      unfold visMatches visAll compCount compAny compAll
      rw [hx, ihr.1]
      cases hc : comp v.isNull own x with
      | true =>
        refine ⟨?_, ?_, ?_⟩
        · simp [Nat.add_comm 1, List.replicate_succ]
        · simp
        · simp only [guardV_true, Option.bind_some, Bool.true_and]; exact ihr.2.2
      | false =>
        refine ⟨?_, ?_, ?_⟩
        · simp
        · simp only [guardV_false, Option.toList_none, List.nil_append, Bool.false_or]
          rw [← ihr.1]; exact ihr.2.1
        · simp
  have c1 := eL oneOf wo h1
  have c2 := eL anyOf wa h2
  have c3 := eL allOf wl h3
  have hown' := hown _ hwf
  simp only [RS.props, RS.items] at hown'
  have hc : comp v.isNull own (RS.mk t n r w ml mx props req a items nt oneOf anyOf allOf dflt) =
      (if v.isNull && n then true
       else if isEmptyLeaf (RS.mk t n r w ml mx props req a items nt oneOf anyOf allOf dflt) then !v.isNull
       else compNot v.isNull own nt && (oneOf.isEmpty || compCount v.isNull own oneOf == 1) &&
            (anyOf.isEmpty || compAny v.isNull own anyOf) && compAll v.isNull own allOf &&
            (if v.isNull && hasComp (RS.mk t n r w ml mx props req a items nt oneOf anyOf allOf dflt) then true
             else own (RS.mk t n r w ml mx props req a items nt oneOf anyOf allOf dflt))) := by
    unfold comp hasComp; rfl
  rw [hc]
  unfold visD
  exact compK_guard _ v _ _ _ _ _ _ _ _ _ _ eNot c1.1 c2.2.1 c3.2.2 hown'

theorem mapOpt_guard (f : V → Option V) (g : V → Bool) (xs : List V) (h : ∀ x ∈ xs, f x = guardV (g x) x) :
    mapOpt f xs = if xs.all g then some xs else none := by
  induction xs with
  | nil => rfl
  | cons x r ih =>
    unfold mapOpt
    rw [h x (by simp), ih (fun y hy => h y (by simp [hy]))]
    cases hg : g x <;> cases hr : r.all g <;> simp [hg, hr]

theorem propStep_none (k : Str) (f : V → Option V) (kvs : List (Str × V)) (h : lookup k kvs = none) :
    propStep k f kvs = some kvs := by simp only [propStep, h]

theorem propStep_some (k : Str) (f : V → Option V) (kvs : List (Str × V)) (x : V) (h : lookup k kvs = some x) :
    propStep k f kvs = (f x).map fun x' => setKey k x' kvs := by simp only [propStep, h]

theorem visProps_off (exro : Bool) (kvs : List (Str × V)) (props : List (Str × RS)) (hp : wfProps props = true)
    (H : ∀ k x, (k, x) ∈ kvs → ∀ p, p.wf = true → visD false exro p x = guardV (visitV exro x p) x) :
    visProps false exro props kvs =
      if (props.all fun kp => match lookup kp.1 kvs with | none => true | some x => visitV exro x kp.2)
      then some kvs else none := by
  induction props with
  | nil => rfl
  | cons e r ih =>
    obtain ⟨k, p⟩ := e
    have hp' := hp
    unfold wfProps at hp'
    simp only [Bool.and_eq_true] at hp'
    cases hl : lookup k kvs with
    | none =>
      unfold visProps
      rw [propStep_none k _ kvs hl]
      simp only [List.all_cons, hl, Option.bind_some, Bool.true_and]
      exact ih hp'.2
    | some x =>
      unfold visProps
      rw [propStep_some k _ kvs x hl, H k x (lookup_some_mem k kvs x hl) p hp'.1]
      simp only [List.all_cons, hl]
      cases visitV exro x p with
      | false => simp
      | true =>
        simp only [guardV_true, Option.map_some, Option.bind_some, Bool.true_and, setKey_self k x kvs hl]
        exact ih hp'.2

theorem wfKV_mem (kvs : List (Str × V)) (h : V.wfKV kvs = true) : ∀ kv ∈ kvs, kv.2.wf = true := by
  induction kvs with
  | nil => intro x hx; cases hx
  | cons y r ih =>
    obtain ⟨k, v⟩ := y
    unfold V.wfKV at h
    simp only [Bool.and_eq_true] at h
    intro x hx
    rcases List.mem_cons.mp hx with rfl | hx
    · exact h.1
    · exact ih h.2 x hx

/-- **T1.** Without `DefaultsSet` the value-threading validator is the verdict-only one: it accepts exactly when
`visit` does, and hands the value back unchanged. (Keys of Go maps are distinct: `wf`.) -/
theorem visD_off (exro : Bool) : ∀ (v : V), v.wf = true → ∀ s, s.wf = true →
    visD false exro s v = guardV (visit exro s v) v := by
  have key := visitV.mutual_induct
    (motive_1 := fun v => v.wf = true → ∀ s, s.wf = true → visD false exro s v = guardV (visitV exro v s) v)
    (motive_2 := fun kvs => V.wfKV kvs = true → ∀ kv ∈ kvs, ∀ s, s.wf = true →
        visD false exro s kv.2 = guardV (visitV exro kv.2 s) kv.2)
    (motive_3 := fun xs => V.wfL xs = true → ∀ x ∈ xs, ∀ s, s.wf = true →
        visD false exro s x = guardV (visitV exro x s) x)
  have h := (key ?null ?bool ?int ?half ?str ?arr ?obj ?inil ?icons ?fnil ?fcons).1
  · intro v hv s hs; exact h v hv s hs
  case null =>
    intro _ s hs; unfold visitV
    exact visD_off_comp exro .null _ (fun s _ => rfl) s hs
  case bool => intro b _ s hs; unfold visitV; exact visD_off_comp exro (.bool b) _ (fun s _ => rfl) s hs
  case int => intro n _ s hs; unfold visitV; exact visD_off_comp exro (.int n) _ (fun s _ => rfl) s hs
  case half => intro n _ s hs; unfold visitV; exact visD_off_comp exro (.half n) _ (fun s _ => rfl) s hs
  case str => intro t _ s hs; unfold visitV; exact visD_off_comp exro (.str t) _ (fun s _ => rfl) s hs
  case arr =>
    intro xs ih hv s hs
    unfold visitV
    refine visD_off_comp exro (.arr xs) _ ?_ s hs
    intro s' hs'
    have hxs : V.wfL xs = true := by unfold V.wf at hv; exact hv
    have e : ownK false exro s' (visProps false exro s'.props) (visItems false exro s'.items) (.arr xs) =
        if permits s'.ty .array then (visItems false exro s'.items xs).map .arr else none := rfl
    rw [e]
    unfold ownArr
    cases hi : s'.items with
    | none => cases permits s'.ty .array <;> simp [visItems]
    | some it =>
      have hit : it.wf = true := by
        cases s'
        obtain ⟨_, _, wi, _⟩ := wf_parts _ _ _ _ _ _ _ _ _ _ _ _ _ _ _ hs'
        simp only [RS.items] at hi; subst hi
        simpa [wfOpt] using wi
      unfold visItems
      rw [mapOpt_guard (visD false exro it) (fun x => visitV exro x it) xs (fun x hx => ih hxs x hx it hit)]
      simp only [all_visitItems]
      cases permits s'.ty .array <;> cases xs.all (fun x => visitV exro x it) <;> simp
  case obj =>
    intro kvs ih hv s hs
    unfold visitV
    refine visD_off_comp exro (.obj kvs) _ ?_ s hs
    intro s' hs'
    have hv' : nodupKeys (keys kvs) = true ∧ V.wfKV kvs = true := by
      unfold V.wf at hv; simpa [Bool.and_eq_true] using hv
    have hnk := (nodupKeys_iff _).mp hv'.1
    have hprops : (keys s'.props).Nodup ∧ wfProps s'.props = true := by
      cases s'
      obtain ⟨a, b, _⟩ := wf_parts _ _ _ _ _ _ _ _ _ _ _ _ _ _ _ hs'
      exact ⟨a, b⟩
    have hvp := visProps_off exro kvs s'.props hprops.2
      (fun k x hm p hp => ih hv'.2 (k, x) hm p hp)
    have e : ownK false exro s' (visProps false exro s'.props) (visItems false exro s'.items) (.obj kvs) =
        if permits s'.ty .object && roLoopOK exro s'.props (keys kvs) && countOK s' kvs.length && addlOKD s' kvs &&
           requiredOK s' (keys kvs)
        then (visProps false exro s'.props kvs).map .obj else none := rfl
    rw [e]
    unfold ownObj
    have hlen : (visitFields exro kvs).length = kvs.length := by
      have := congrArg List.length (keys_visitFields exro kvs)
      simpa [keys] using this
    rw [hvp, keys_visitFields, fieldsOK_visitFields, hlen,
      fields_split s' kvs (fun x p => visitV exro x p) hnk hprops.1]
    cases permits s'.ty .object <;> cases roLoopOK exro s'.props (keys kvs) <;> cases countOK s' kvs.length <;>
      cases addlOKD s' kvs <;>
      cases requiredOK s' (keys kvs) <;>
      cases (s'.props.all fun kp => match lookup kp.1 kvs with | none => true | some x => visitV exro x kp.2) <;> simp
  case inil => intro _ x hx; cases hx
  case icons =>
    intro v r ih1 ih2 hw x hx s hs
    unfold V.wfL at hw
    simp only [Bool.and_eq_true] at hw
    rcases List.mem_cons.mp hx with rfl | hx
    · exact ih1 hw.1 s hs
    · exact ih2 hw.2 x hx s hs
  case fnil => intro _ x hx; cases hx
  case fcons =>
    intro k v r ih1 ih2 hw kv hkv s hs
    unfold V.wfKV at hw
    simp only [Bool.and_eq_true] at hw
    rcases List.mem_cons.mp hkv with rfl | hkv
    · exact ih1 hw.1 s hs
    · exact ih2 hw.2 kv hkv s hs

/-! ### induction over a schema and ALL its sub-schemas (properties, items, not, oneOf, anyOf, allOf) -/

mutual
def RS.sz : RS → Nat
  | .mk _ _ _ _ _ _ props _ _ items nt oneOf anyOf allOf _ =>
    1 + szP props + szO items + szO nt + szL oneOf + szL anyOf + szL allOf
def szP : List (Str × RS) → Nat
  | [] => 0
  | (_, p) :: r => p.sz + szP r
def szO : Option RS → Nat
  | none => 0
  | some s => s.sz
def szL : List RS → Nat
  | [] => 0
  | s :: r => s.sz + szL r
end

theorem rs_induct_full (P : RS → Prop)
    (h : ∀ t n r w ml mx props req a items nt oneOf anyOf allOf dflt,
      (∀ kp ∈ props, P kp.2) → (∀ x, items = some x → P x) → (∀ x, nt = some x → P x) →
      (∀ x ∈ oneOf, P x) → (∀ x ∈ anyOf, P x) → (∀ x ∈ allOf, P x) →
      P (RS.mk t n r w ml mx props req a items nt oneOf anyOf allOf dflt)) : ∀ s, P s := by
  have key := RS.sz.mutual_induct (motive_1 := P) (motive_2 := fun l => ∀ x ∈ l, P x)
    (motive_3 := fun o => ∀ x, o = some x → P x) (motive_4 := fun l => ∀ kp ∈ l, P kp.2)
  refine (key ?_ ?_ ?_ ?_ ?_ ?_ ?_).1
  · intro t n r w ml mx props req a items nt oneOf anyOf allOf dflt hp hi hn h1 h2 h3
    exact h t n r w ml mx props req a items nt oneOf anyOf allOf dflt hp hi hn h1 h2 h3
  · intro kp hkp; cases hkp
  · intro k p r hp hr kp hkp
    rcases List.mem_cons.mp hkp with rfl | hkp
    · exact hp
    · exact hr kp hkp
  · intro x hx; cases hx
  · intro s hs x hx; cases hx; exact hs
  · intro x hx; cases hx
  · intro x r hx hr y hy
    rcases List.mem_cons.mp hy with rfl | hy
    · exact hx
    · exact hr y hy

/-! ### T2: where no default fires, `DefaultsSet` changes nothing -/

theorem inject_of_not_injects (exro : Bool) (props : List (Str × RS)) (kvs : List (Str × V))
    (h : injects exro props kvs = false) : inject exro props kvs = kvs := by
  induction props with
  | nil => rfl
  | cons e r ih =>
    obtain ⟨k, p⟩ := e
    unfold injects at h ih
    simp only [List.any_cons, Bool.or_eq_false_iff] at h
    unfold inject
    cases hl : lookup k kvs with
    | some x => simp only; exact ih h.2
    | none =>
      cases hd : dfltFor exro p with
      | none => simp only; exact ih h.2
      | some d => simp [hl, hd] at h

/-- `compK` does the same with two families of part visitors that agree wherever nothing fires -/
theorem compK_congr_of_not_fires (S : RS) (v : V)
    (fNot fNot' : V → Bool) (fOne fOne' fAny fAny' : V → List V) (fAll fAll' fOwn fOwn' : V → Option V)
    (gNot gOne gAny gAll gOwn : V → Bool)
    (hN : ∀ v, gNot v = false → fNot v = fNot' v)
    (hO : ∀ v, gOne v = false → fOne v = fOne' v)
    (hU : ∀ v, gAny v = false → (fAny v).head? = (fAny' v).head?)
    (hA : ∀ v, gAll v = false → fAll v = fAll' v)
    (hW : ∀ v, gOwn v = false → fOwn v = fOwn' v)
    (h : firesK S v fNot fOne fAny fAll gNot gOne gAny gAll gOwn = false) :
    compK S v fNot fOne fAny fAll fOwn = compK S v fNot' fOne' fAny' fAll' fOwn' := by
  unfold compK
  unfold firesK at h
  by_cases h1 : (v.isNull && S.nullable) = true
  · simp only [h1, ↓reduceIte]
  by_cases h2 : isEmptyLeaf S = true
  · simp only [h1, h2, ↓reduceIte]
  simp only [h1, h2, Bool.false_eq_true, ↓reduceIte, Bool.or_eq_false_iff] at h ⊢
  rw [← hN v h.1]
  cases hn : fNot v with
  | false => simp
  | true =>
    have h' := h.2
    simp only [hn, Bool.true_and, Bool.or_eq_false_iff] at h'
    simp only [Bool.not_true, Bool.false_eq_true, ↓reduceIte]
    rw [← hO v h'.1]
    generalize hA1 : (if S.oneOf.isEmpty = true then some v else pickOne (fOne v)) = A at h' ⊢
    cases A with
    | none => rfl
    | some v1 =>
      have h'' := h'.2
      simp only [Bool.or_eq_false_iff] at h''
      simp only [Option.bind_some]
      have eB : (if S.anyOf.isEmpty = true then some v1 else (fAny v1).head?) =
          (if S.anyOf.isEmpty = true then some v1 else (fAny' v1).head?) := by rw [hU v1 h''.1]
      rw [← eB]
      generalize hB1 : (if S.anyOf.isEmpty = true then some v1 else (fAny v1).head?) = B at h'' ⊢
      cases B with
      | none => rfl
      | some v2 =>
        have h3 := h''.2
        simp only [Bool.or_eq_false_iff] at h3
        simp only [Option.bind_some]
        rw [← hA v2 h3.1]
        cases hC : fAll v2 with
        | none => rfl
        | some v3 =>
          have h4 := h3.2
          simp only [hC] at h4
          simp only [Option.bind_some]
          by_cases hl : (v3.isNull && hasComp S) = true
          · simp only [hl, ↓reduceIte]
          · simp only [hl, ↓reduceIte] at h4 ⊢
            exact hW v3 h4

theorem mapOpt_congr (f g : V → Option V) (xs : List V) (h : ∀ x ∈ xs, f x = g x) : mapOpt f xs = mapOpt g xs := by
  induction xs with
  | nil => rfl
  | cons x r ih =>
    unfold mapOpt
    rw [h x (by simp), ih (fun y hy => h y (by simp [hy]))]

/-- **T2.** If no default fires on the way (over-approximated by full traversal), validating with `DefaultsSet`
gives exactly what validating without it gives — for every schema of the fragment, compositions included. -/
theorem visD_on_eq_off_of_not_fires (exro : Bool) :
    ∀ s v, firesD exro s v = false → visD true exro s v = visD false exro s v := by
  apply rs_induct_full
  intro t n r w ml mx props req a items nt oneOf anyOf allOf dflt hp hi hn h1 h2 h3 v hf
  unfold firesD at hf
  unfold visD
  refine compK_congr_of_not_fires _ v _ _ _ _ _ _ _ _ _ _ _ _ _ _ _ ?n ?o ?u ?a ?w hf
  case n =>
    intro v hv
    cases nt with
    | none => rfl
    | some x => unfold firesNot at hv; unfold visNot; rw [hn x rfl v hv]
  case o =>
    intro v hv
    have : ∀ l : List RS, (∀ x ∈ l, ∀ v, firesD exro x v = false → visD true exro x v = visD false exro x v) →
        firesAny exro l v = false → visMatches true exro l v = visMatches false exro l v := by
      intro l hl
      induction l with
      | nil => intro _; rfl
      | cons x r ih =>
        intro hv
        unfold firesAny at hv
        simp only [Bool.or_eq_false_iff] at hv
        unfold visMatches
        rw [hl x (by simp) v hv.1, ih (fun y hy => hl y (by simp [hy])) hv.2]
    exact this oneOf h1 hv
  case u =>
    intro v hv
    have : ∀ l : List RS, (∀ x ∈ l, ∀ v, firesD exro x v = false → visD true exro x v = visD false exro x v) →
        firesUpto exro l v = false → (visMatches true exro l v).head? = (visMatches false exro l v).head? := by
      intro l hl
      induction l with
      | nil => intro _; rfl
      | cons x r ih =>
        intro hv
        unfold firesUpto at hv
        simp only [Bool.or_eq_false_iff] at hv
        unfold visMatches
        have e := hl x (by simp) v hv.1
        rw [← e]
        cases hx : visD true exro x v with
        | some y => simp
        | none =>
          simp only [Option.toList_none, List.nil_append]
          have := hv.2
          simp only [hx, Option.isNone_none, Bool.true_and] at this
          exact ih (fun y hy => hl y (by simp [hy])) this
    exact this anyOf h2 hv
  case a =>
    intro v hv
    have : ∀ l : List RS, (∀ x ∈ l, ∀ v, firesD exro x v = false → visD true exro x v = visD false exro x v) →
        ∀ v, firesAll exro l v = false → visAll true exro l v = visAll false exro l v := by
      intro l hl
      induction l with
      | nil => intro _ _; rfl
      | cons x r ih =>
        intro v hv
        unfold firesAll firesAllStep at hv
        simp only [Bool.or_eq_false_iff] at hv
        unfold visAll
        have e := hl x (by simp) v hv.1
        rw [← e]
        cases hx : visD true exro x v with
        | none => rfl
        | some y =>
          simp only [Option.bind_some]
          have := hv.2
          simp only [hx] at this
          exact ih (fun y hy => hl y (by simp [hy])) y this
    exact this allOf h3 v hv
  case w =>
    intro v hv
    cases v with
    | null => rfl
    | bool b => rfl
    | int k => rfl
    | half k => rfl
    | str t => rfl
    | arr xs =>
      have e : ∀ ds, ownK ds exro (RS.mk t n r w ml mx props req a items nt oneOf anyOf allOf dflt)
          (visProps ds exro props) (visItems ds exro items) (.arr xs) =
          if permits t .array then (visItems ds exro items xs).map .arr else none := fun _ => rfl
      rw [e, e]
      have hv' : (permits t .array && firesItems exro items xs) = false := hv
      cases hpm : permits t .array with
      | false => simp
      | true =>
        simp only [hpm, Bool.true_and] at hv'
        cases items with
        | none => rfl
        | some it =>
          unfold firesItems at hv'
          unfold visItems
          rw [mapOpt_congr (visD true exro it) (visD false exro it) xs
            (fun x hx => hi it rfl x (by
              have := List.any_eq_false.mp hv' x hx
              simpa using this))]
    | obj kvs =>
      have e : ∀ ds, ownK ds exro (RS.mk t n r w ml mx props req a items nt oneOf anyOf allOf dflt)
          (visProps ds exro props) (visItems ds exro items) (.obj kvs) =
          if permits t .object && roLoopOK exro props (keys (injD ds exro props kvs)) &&
             countOK (RS.mk t n r w ml mx props req a items nt oneOf anyOf allOf dflt) (injD ds exro props kvs).length &&
             addlOKD (RS.mk t n r w ml mx props req a items nt oneOf anyOf allOf dflt) (injD ds exro props kvs) &&
             requiredOK (RS.mk t n r w ml mx props req a items nt oneOf anyOf allOf dflt) (keys (injD ds exro props kvs))
          then (visProps ds exro props (injD ds exro props kvs)).map .obj else none := fun _ => rfl
      rw [e, e]
      have hv' : (permits t .object && (injects exro props kvs || firesProps exro props (inject exro props kvs))) = false := hv
      cases hpm : permits t .object with
      | false => simp
      | true =>
        simp only [hpm, Bool.true_and, Bool.or_eq_false_iff] at hv'
        have hinj := inject_of_not_injects exro props kvs hv'.1
        have hfp := hv'.2
        rw [hinj] at hfp
        simp only [injD, hinj, if_true, Bool.false_eq_true, if_false]
        have : ∀ (ps : List (Str × RS)),
            (∀ kp ∈ ps, ∀ v, firesD exro kp.2 v = false → visD true exro kp.2 v = visD false exro kp.2 v) →
            ∀ kvs, firesProps exro ps kvs = false → visProps true exro ps kvs = visProps false exro ps kvs := by
          intro ps hps
          induction ps with
          | nil => intro _ _; rfl
          | cons e r ih =>
            obtain ⟨k, p⟩ := e
            intro kvs hk
            unfold firesProps firesPropStep at hk
            unfold visProps
            cases hl : lookup k kvs with
            | none =>
              simp only [hl] at hk
              rw [propStep_none k _ kvs hl, propStep_none k _ kvs hl]
              simp only [Option.bind_some]
              exact ih (fun y hy => hps y (by simp [hy])) kvs hk
            | some x =>
              simp only [hl, Bool.or_eq_false_iff] at hk
              rw [propStep_some k _ kvs x hl, propStep_some k _ kvs x hl]
              have e := hps (k, p) (by simp) x hk.1
              simp only at e
              rw [← e]
              cases hx : visD true exro p x with
              | none => rfl
              | some x' =>
                simp only [Option.map_some, Option.bind_some]
                have := hk.2
                simp only [hx] at this
                exact ih (fun y hy => hps y (by simp [hy])) _ this
        rw [this props hp kvs hfp]

/-! ### T3: composition-free schemas with harmless defaults — same verdict with and without `DefaultsSet` -/

theorem lookup_append_single (k k0 : Str) (d : V) (l : List (Str × V)) :
    lookup k (l ++ [(k0, d)]) = match lookup k l with | some x => some x | none => if k = k0 then some d else none := by
  induction l with
  | nil => simp [lookup]
  | cons e r ih =>
    obtain ⟨k', v'⟩ := e
    simp only [List.cons_append]
    unfold lookup
    by_cases hk : k = k'
    · simp [hk]
    · simp only [hk, if_false]; exact ih

theorem lookup_cons {α : Type} (k k0 : Str) (v0 : α) (r : List (Str × α)) :
    lookup k ((k0, v0) :: r) = if k = k0 then some v0 else lookup k r := rfl

theorem lookup_inject (exro : Bool) (props : List (Str × RS)) (hn : (keys props).Nodup) (k : Str) :
    ∀ kvs, lookup k (inject exro props kvs) =
      match lookup k kvs with
      | some x => some x
      | none => (match lookup k props with | some p => dfltFor exro p | none => none) := by
  induction props with
  | nil => intro kvs; unfold inject; cases lookup k kvs <;> rfl
  | cons e r ih =>
    obtain ⟨k0, p0⟩ := e
    simp only [keys, List.map_cons, List.nodup_cons] at hn
    intro kvs
    unfold inject
    have ihr := ih hn.2
    have hk0 : lookup k0 r = none := lookup_none_of_not_mem_keys k0 r hn.1
    cases hl0 : lookup k0 kvs with
    | some x0 =>
      simp only
      rw [ihr kvs]
      cases hl : lookup k kvs with
      | some x => rfl
      | none =>
        simp only
        rw [lookup_cons]
        by_cases hk : k = k0
        · subst hk; simp [hl0] at hl
        · simp [hk]
    | none =>
      cases hd : dfltFor exro p0 with
      | none =>
        simp only
        rw [ihr kvs]
        cases hl : lookup k kvs with
        | some x => rfl
        | none =>
          simp only
          rw [lookup_cons]
          by_cases hk : k = k0
          · subst hk; simp [hk0, hd]
          · simp [hk]
      | some d =>
        simp only
        rw [ihr (kvs ++ [(k0, d)]), lookup_append_single]
        cases hl : lookup k kvs with
        | some x => rfl
        | none =>
          simp only
          rw [lookup_cons]
          by_cases hk : k = k0
          · subst hk; simp [hd]
          · simp [hk]

theorem inject_eq_append (exro : Bool) (props : List (Str × RS)) :
    ∀ kvs, ∃ extra, inject exro props kvs = kvs ++ extra ∧ ∀ kv ∈ extra, kv.1 ∈ keys props := by
  induction props with
  | nil => intro kvs; exact ⟨[], by simp [inject], by simp⟩
  | cons e r ih =>
    obtain ⟨k0, p0⟩ := e
    intro kvs
    have step : ∀ k : Str, k ∈ keys r → k ∈ keys ((k0, p0) :: r) := by
      intro k h
      simp only [keys, List.map_cons] at h ⊢
      exact List.mem_cons_of_mem _ h
    unfold inject
    cases lookup k0 kvs with
    | some x0 =>
      obtain ⟨ex, h1, h2⟩ := ih kvs
      exact ⟨ex, h1, fun kv hkv => step _ (h2 kv hkv)⟩
    | none =>
      cases dfltFor exro p0 with
      | none =>
        obtain ⟨ex, h1, h2⟩ := ih kvs
        exact ⟨ex, h1, fun kv hkv => step _ (h2 kv hkv)⟩
      | some d =>
        obtain ⟨ex, h1, h2⟩ := ih (kvs ++ [(k0, d)])
        refine ⟨(k0, d) :: ex, by simp only [h1, List.append_assoc, List.singleton_append], ?_⟩
        intro kv hkv
        rcases List.mem_cons.mp hkv with rfl | hkv
        · simp [keys]
        · exact step _ (h2 kv hkv)

theorem mapOpt_isSome (f : V → Option V) (xs : List V) : (mapOpt f xs).isSome = xs.all fun x => (f x).isSome := by
  induction xs with
  | nil => rfl
  | cons x r ih =>
    unfold mapOpt
    cases hx : f x with
    | none => simp [hx]
    | some y =>
      simp only [Option.bind_some, Option.isSome_map, ih, List.all_cons, hx, Option.isSome_some, Bool.true_and]

theorem visProps_isSome (ds exro : Bool) (props : List (Str × RS)) (hn : (keys props).Nodup) :
    ∀ kvs, (visProps ds exro props kvs).isSome =
      props.all fun kp => match lookup kp.1 kvs with | none => true | some x => (visD ds exro kp.2 x).isSome := by
  induction props with
  | nil => intro kvs; rfl
  | cons e r ih =>
    obtain ⟨k, p⟩ := e
    simp only [keys, List.map_cons, List.nodup_cons] at hn
    intro kvs
    unfold visProps
    simp only [List.all_cons]
    cases hl : lookup k kvs with
    | none =>
      rw [propStep_none k _ kvs hl]
      simp only [Option.bind_some, Bool.true_and]
      exact ih hn.2 kvs
    | some x =>
      rw [propStep_some k _ kvs x hl]
      cases hx : visD ds exro p x with
      | none => simp [hx]
      | some x' =>
        simp only [Option.map_some, Option.bind_some, hx, Option.isSome_some, Bool.true_and]
        rw [ih hn.2]
        apply all_congr_mem
        intro kp hkp
        have hne : kp.1 ≠ k := by
          intro h; apply hn.1; rw [← h]; exact mem_keys_of_mem kp.1 kp.2 r (by simpa using hkp)
        rw [lookup_setKey_ne k kp.1 x' kvs hne]

/-- `visD` of a schema without composition keywords -/
theorem visD_compFree (ds exro : Bool) (t : Option Ty) (n r w : Bool) (ml : Nat) (mx : Option Int)
    (props : List (Str × RS)) (req : List Str) (a : Option Bool) (items : Option RS) (dflt : Extra) (v : V) :
    visD ds exro (RS.mk t n r w ml mx props req a items none [] [] [] dflt) v =
      if v.isNull && n then some v
      else if isEmptyLeaf (RS.mk t n r w ml mx props req a items none [] [] [] dflt) then
        (if v.isNull then none else some v)
      else ownK ds exro (RS.mk t n r w ml mx props req a items none [] [] [] dflt)
             (visProps ds exro props) (visItems ds exro items) v := by
  unfold visD compK
  simp [visNot, visAll, hasComp, RS.oneOf, RS.anyOf, RS.allOf, RS.nullable]

theorem compFreeP_mem (l : List (Str × RS)) (h : compFreeP l = true) : ∀ kp ∈ l, compFree kp.2 = true := by
  induction l with
  | nil => intro x hx; cases hx
  | cons y r ih =>
    obtain ⟨k, p⟩ := y
    unfold compFreeP at h
    simp only [Bool.and_eq_true] at h
    intro x hx
    rcases List.mem_cons.mp hx with rfl | hx
    · exact h.1
    · exact ih h.2 x hx

theorem dfltsHarmlessP_mem (exro : Bool) (l : List (Str × RS)) (h : dfltsHarmlessP exro l = true) :
    ∀ kp ∈ l, dfltsHarmless exro kp.2 = true := by
  induction l with
  | nil => intro x hx; cases hx
  | cons y r ih =>
    obtain ⟨k, p⟩ := y
    unfold dfltsHarmlessP at h
    simp only [Bool.and_eq_true] at h
    intro x hx
    rcases List.mem_cons.mp hx with rfl | hx
    · exact h.1
    · exact ih h.2 x hx

/-- **T3.** For a composition-free schema whose injectable defaults all conform to their own schemas and belong to
properties that are not required, `DefaultsSet` never changes the verdict (any value, any depth). -/
theorem visD_neutral_compFree (exro : Bool) :
    ∀ s, compFree s = true → s.wf = true → dfltsHarmless exro s = true →
      ∀ v, (visD true exro s v).isSome = (visD false exro s v).isSome := by
  apply rs_induct_full
  intro t n r w ml mx props req a items nt oneOf anyOf allOf dflt hp hi _ _ _ _ hcf hwf hh v
  unfold compFree at hcf
  simp only [Bool.and_eq_true, Option.isNone_iff_eq_none, List.isEmpty_iff] at hcf
  obtain ⟨⟨⟨⟨⟨e1, e2⟩, e3⟩, e4⟩, cfp⟩, cfi⟩ := hcf
  subst e1 e2 e3 e4
  obtain ⟨hnd, wp, wi, _⟩ := wf_parts _ _ _ _ _ _ _ _ _ _ _ _ _ _ _ hwf
  unfold dfltsHarmless at hh
  simp only [Bool.and_eq_true] at hh
  obtain ⟨⟨hhere, hhp⟩, hhi⟩ := hh
  rw [visD_compFree, visD_compFree]
  by_cases h1 : (v.isNull && n) = true
  · simp only [h1, ↓reduceIte]
  by_cases h2 : isEmptyLeaf (RS.mk t n r w ml mx props req a items none [] [] [] dflt) = true
  · simp only [h1, h2, ↓reduceIte]
  simp only [h1, h2, Bool.false_eq_true, ↓reduceIte]
  cases v with
  | null => rfl
  | bool b => rfl
  | int k => rfl
  | half k => rfl
  | str s => rfl
  | arr xs =>
    have e : ∀ ds, ownK ds exro (RS.mk t n r w ml mx props req a items none [] [] [] dflt)
        (visProps ds exro props) (visItems ds exro items) (.arr xs) =
        if permits t .array then (visItems ds exro items xs).map .arr else none := fun _ => rfl
    rw [e, e]
    cases permits t .array with
    | false => rfl
    | true =>
      simp only [if_true, Option.isSome_map]
      cases items with
      | none => rfl
      | some it =>
        unfold visItems
        rw [mapOpt_isSome, mapOpt_isSome]
        apply all_congr_mem
        intro x _
        exact hi it rfl (by simpa [compFreeO] using cfi) (by simpa [wfOpt] using wi)
          (by simpa [dfltsHarmlessO] using hhi) x
  | obj kvs =>
    have e : ∀ ds, ownK ds exro (RS.mk t n r w ml mx props req a items none [] [] [] dflt)
        (visProps ds exro props) (visItems ds exro items) (.obj kvs) =
        if permits t .object && roLoopOK exro props (keys (injD ds exro props kvs)) &&
           countOK (RS.mk t n r w ml mx props req a items none [] [] [] dflt) (injD ds exro props kvs).length &&
           addlOKD (RS.mk t n r w ml mx props req a items none [] [] [] dflt) (injD ds exro props kvs) &&
           requiredOK (RS.mk t n r w ml mx props req a items none [] [] [] dflt) (keys (injD ds exro props kvs))
        then (visProps ds exro props (injD ds exro props kvs)).map .obj else none := fun _ => rfl
    rw [e, e]
    simp only [injD, if_true, Bool.false_eq_true, if_false]
    have L := lookup_inject exro props hnd
    -- what `dfltsHarmlessHere` says of one property
    have hereP : ∀ k p d, (k, p) ∈ props → dfltFor exro p = some d →
        (visD true exro p d).isSome = true ∧ req.contains k = false ∧
        (dflt.minProps != 0 || dflt.maxProps.isSome) = false := by
      intro k p d hm hd
      unfold dfltsHarmlessHere at hhere
      have := List.all_eq_true.mp hhere (k, p) hm
      simp only [hd, Bool.and_eq_true, Bool.not_eq_true'] at this
      exact ⟨this.1.1, this.1.2, this.2⟩
    have C : countOK (RS.mk t n r w ml mx props req a items none [] [] [] dflt) (inject exro props kvs).length =
        countOK (RS.mk t n r w ml mx props req a items none [] [] [] dflt) kvs.length := by
      cases hinj : injects exro props kvs with
      | false => rw [inject_of_not_injects exro props kvs hinj]
      | true =>
        unfold injects at hinj
        obtain ⟨kp, hkp, hc⟩ := List.any_eq_true.mp hinj
        simp only [Bool.and_eq_true] at hc
        cases hd : dfltFor exro kp.2 with
        | none => simp [hd] at hc
        | some d =>
          have hcnt := (hereP kp.1 kp.2 d (by simpa using hkp) hd).2.2
          simp only [Bool.or_eq_false_iff, bne_eq_false_iff_eq, Option.isSome_eq_false_iff,
            Option.isNone_iff_eq_none] at hcnt
          unfold countOK
          simp [RS.minProps, RS.maxProps, RS.extra, hcnt.1, hcnt.2]
    have R : roLoopOK exro props (keys (inject exro props kvs)) = roLoopOK exro props (keys kvs) := by
      unfold roLoopOK
      apply all_congr_mem
      intro k hk
      obtain ⟨p, hlp⟩ := lookup_isSome_of_mem_keys k props hk
      rw [contains_keys, contains_keys, L k kvs, hlp]
      cases hl : lookup k kvs with
      | some x => rfl
      | none =>
        simp only
        cases hd : dfltFor exro p with
        | none => rfl
        | some d =>
          have : (p.ro && !exro) = false := by
            unfold dfltFor reqRO at hd
            cases hro : (p.ro && !exro) with
            | false => rfl
            | true => simp [hro] at hd
          simp [isRO, this]
    have A : addlOKD (RS.mk t n r w ml mx props req a items none [] [] [] dflt) (inject exro props kvs) =
        addlOKD (RS.mk t n r w ml mx props req a items none [] [] [] dflt) kvs := by
      obtain ⟨ex, h1, h2⟩ := inject_eq_append exro props kvs
      rw [h1]
      unfold addlOKD
      simp only [List.all_append, RS.props]
      have : (ex.all fun kv => (lookup kv.1 props).isSome || (RS.mk t n r w ml mx props req a items none [] [] [] dflt).addl != some false) = true := by
        apply List.all_eq_true.mpr
        intro kv hkv
        obtain ⟨p, hp⟩ := lookup_isSome_of_mem_keys kv.1 props (h2 kv hkv)
        simp [hp]
      rw [this, Bool.and_true]
    have Q : requiredOK (RS.mk t n r w ml mx props req a items none [] [] [] dflt) (keys (inject exro props kvs)) =
        requiredOK (RS.mk t n r w ml mx props req a items none [] [] [] dflt) (keys kvs) := by
      unfold requiredOK
      simp only [RS.required, RS.props]
      apply all_congr_mem
      intro k hk
      rw [contains_keys, contains_keys, L k kvs]
      cases hl : lookup k kvs with
      | some x => rfl
      | none =>
        simp only
        cases hlp : lookup k props with
        | none => rfl
        | some p =>
          simp only
          cases hd : dfltFor exro p with
          | none => rfl
          | some d =>
            have := (hereP k p d (lookup_some_mem k props p hlp) hd).2.1
            have hc : req.contains k = true := by simpa using hk
            rw [hc] at this; cases this
    have P : (visProps true exro props (inject exro props kvs)).isSome = (visProps false exro props kvs).isSome := by
      rw [visProps_isSome true exro props hnd, visProps_isSome false exro props hnd]
      apply all_congr_mem
      intro kp hkp
      have hlp : lookup kp.1 props = some kp.2 := lookup_of_mem_nodup kp.1 kp.2 props hnd (by simpa using hkp)
      have ihp := hp kp hkp (compFreeP_mem props cfp kp hkp) (wfProps_mem props wp kp hkp)
        (dfltsHarmlessP_mem exro props hhp kp hkp)
      rw [L kp.1 kvs, hlp]
      cases hl : lookup kp.1 kvs with
      | some x => simp only; exact ihp x
      | none =>
        simp only
        cases hd : dfltFor exro kp.2 with
        | none => rfl
        | some d => simp only; exact (hereP kp.1 kp.2 d (by simpa using hkp) hd).1
    rw [R, A, Q, C]
    cases (permits t .object && roLoopOK exro props (keys kvs) &&
        countOK (RS.mk t n r w ml mx props req a items none [] [] [] dflt) kvs.length &&
        addlOKD (RS.mk t n r w ml mx props req a items none [] [] [] dflt) kvs &&
        requiredOK (RS.mk t n r w ml mx props req a items none [] [] [] dflt) (keys kvs)) with
    | false => rfl
    | true => simp only [if_true, Option.isSome_map]; exact P

/-! ### T4: composition-free schemas — validating with `DefaultsSet` = validating the completed value without it -/

theorem keys_setKey_of_mem (k : Str) (y : V) (kvs : List (Str × V)) (x : V) (h : lookup k kvs = some x) :
    keys (setKey k y kvs) = keys kvs := by
  induction kvs with
  | nil => simp [lookup] at h
  | cons e r ih =>
    obtain ⟨k', v'⟩ := e
    rw [lookup_cons] at h
    unfold setKey
    by_cases hk : k = k'
    · simp [hk, keys]
    · simp only [hk, if_false] at h ⊢
      simp only [keys, List.map_cons] at ih ⊢
      rw [ih h]

theorem lookup_setKey_self (k : Str) (y : V) (kvs : List (Str × V)) : lookup k (setKey k y kvs) = some y := by
  induction kvs with
  | nil => simp [setKey, lookup]
  | cons e r ih =>
    obtain ⟨k', v'⟩ := e
    unfold setKey
    by_cases hk : k = k'
    · simp [hk, lookup]
    · simp only [hk, if_false]; rw [lookup_cons]; simp only [hk, if_false]; exact ih

theorem completeProps_keys (exro : Bool) (props : List (Str × RS)) :
    ∀ kvs, keys (completeProps exro props kvs) = keys kvs := by
  induction props with
  | nil => intro kvs; rfl
  | cons e r ih =>
    obtain ⟨k, p⟩ := e
    intro kvs
    unfold completeProps completeStep
    cases hl : lookup k kvs with
    | none => simp only; exact ih kvs
    | some x => simp only; rw [ih, keys_setKey_of_mem k _ kvs x hl]

theorem completeProps_lookup (exro : Bool) (props : List (Str × RS)) (hn : (keys props).Nodup) (k : Str) :
    ∀ kvs, lookup k (completeProps exro props kvs) =
      match lookup k props with
      | some p => (lookup k kvs).map (complete exro p)
      | none => lookup k kvs := by
  induction props with
  | nil => intro kvs; rfl
  | cons e r ih =>
    obtain ⟨k0, p0⟩ := e
    simp only [keys, List.map_cons, List.nodup_cons] at hn
    intro kvs
    have hk0 : lookup k0 r = none := lookup_none_of_not_mem_keys k0 r hn.1
    unfold completeProps completeStep
    rw [ih hn.2, lookup_cons]
    by_cases hk : k = k0
    · subst hk
      simp only [if_true, hk0]
      cases hl : lookup k kvs with
      | none => simp [hl]
      | some x => simp [lookup_setKey_self]
    · simp only [hk, if_false]
      cases hl0 : lookup k0 kvs with
      | none => rfl
      | some x0 => simp only; rw [lookup_setKey_ne k0 k _ kvs hk]

theorem addlOKD_keys (s : RS) (kvs kvs' : List (Str × V)) (h : keys kvs = keys kvs') : addlOKD s kvs = addlOKD s kvs' := by
  have e : ∀ l : List (Str × V), addlOKD s l = (keys l).all fun k => (lookup k s.props).isSome || s.addl != some false := by
    intro l; unfold addlOKD keys; rw [List.all_map]; rfl
  rw [e, e, h]

theorem complete_isNull (exro : Bool) (s : RS) (v : V) : (complete exro s v).isNull = v.isNull := by
  cases s; cases v <;> rfl

/-- **T4.** For a composition-free schema, validating with `DefaultsSet` gives the verdict of validating — without
it — the value completed beforehand by all applicable defaults (the two-phase reading of default-setting). -/
theorem visD_completed (exro : Bool) :
    ∀ s, compFree s = true → s.wf = true →
      ∀ v, (visD true exro s v).isSome = (visD false exro s (complete exro s v)).isSome := by
  apply rs_induct_full
  intro t n r w ml mx props req a items nt oneOf anyOf allOf dflt hp hi _ _ _ _ hcf hwf v
  unfold compFree at hcf
  simp only [Bool.and_eq_true, Option.isNone_iff_eq_none, List.isEmpty_iff] at hcf
  obtain ⟨⟨⟨⟨⟨e1, e2⟩, e3⟩, e4⟩, cfp⟩, cfi⟩ := hcf
  subst e1 e2 e3 e4
  obtain ⟨hnd, wp, wi, _⟩ := wf_parts _ _ _ _ _ _ _ _ _ _ _ _ _ _ _ hwf
  rw [visD_compFree, visD_compFree, complete_isNull]
  by_cases h1 : (v.isNull && n) = true
  · simp only [h1, ↓reduceIte]; rfl
  by_cases h2 : isEmptyLeaf (RS.mk t n r w ml mx props req a items none [] [] [] dflt) = true
  · simp only [h1, h2, ↓reduceIte]; cases v.isNull <;> rfl
  simp only [h1, h2, Bool.false_eq_true, ↓reduceIte]
  cases v with
  | null => rfl
  | bool b => rfl
  | int k => rfl
  | half k => rfl
  | str s => rfl
  | arr xs =>
    have ec : complete exro (RS.mk t n r w ml mx props req a items none [] [] [] dflt) (.arr xs) =
        .arr (completeItems exro items xs) := rfl
    have e : ∀ ds ys, ownK ds exro (RS.mk t n r w ml mx props req a items none [] [] [] dflt)
        (visProps ds exro props) (visItems ds exro items) (.arr ys) =
        if permits t .array then (visItems ds exro items ys).map .arr else none := fun _ _ => rfl
    rw [ec, e, e]
    cases permits t .array with
    | false => rfl
    | true =>
      simp only [if_true, Option.isSome_map]
      cases items with
      | none => rfl
      | some it =>
        unfold visItems completeItems
        rw [mapOpt_isSome, mapOpt_isSome, List.all_map]
        apply all_congr_mem
        intro x _
        exact hi it rfl (by simpa [compFreeO] using cfi) (by simpa [wfOpt] using wi) x
  | obj kvs =>
    have ec : complete exro (RS.mk t n r w ml mx props req a items none [] [] [] dflt) (.obj kvs) =
        .obj (completeProps exro props (inject exro props kvs)) := rfl
    have e : ∀ ds ys, ownK ds exro (RS.mk t n r w ml mx props req a items none [] [] [] dflt)
        (visProps ds exro props) (visItems ds exro items) (.obj ys) =
        if permits t .object && roLoopOK exro props (keys (injD ds exro props ys)) &&
           countOK (RS.mk t n r w ml mx props req a items none [] [] [] dflt) (injD ds exro props ys).length &&
           addlOKD (RS.mk t n r w ml mx props req a items none [] [] [] dflt) (injD ds exro props ys) &&
           requiredOK (RS.mk t n r w ml mx props req a items none [] [] [] dflt) (keys (injD ds exro props ys))
        then (visProps ds exro props (injD ds exro props ys)).map .obj else none := fun _ _ => rfl
    rw [ec, e, e]
    simp only [injD, if_true, Bool.false_eq_true, if_false]
    have K := completeProps_keys exro props (inject exro props kvs)
    have Lc := completeProps_lookup exro props hnd
    have hlen : (completeProps exro props (inject exro props kvs)).length = (inject exro props kvs).length := by
      have := congrArg List.length K
      simpa [keys] using this
    have P : (visProps true exro props (inject exro props kvs)).isSome =
        (visProps false exro props (completeProps exro props (inject exro props kvs))).isSome := by
      rw [visProps_isSome true exro props hnd, visProps_isSome false exro props hnd]
      apply all_congr_mem
      intro kp hkp
      have hlp : lookup kp.1 props = some kp.2 := lookup_of_mem_nodup kp.1 kp.2 props hnd (by simpa using hkp)
      have ihp := hp kp hkp (compFreeP_mem props cfp kp hkp) (wfProps_mem props wp kp hkp)
      rw [Lc kp.1, hlp]
      cases hl : lookup kp.1 (inject exro props kvs) with
      | none => rfl
      | some x => simp only [Option.map_some]; exact ihp x
    rw [K, hlen, addlOKD_keys _ _ _ K]
    cases (permits t .object && roLoopOK exro props (keys (inject exro props kvs)) &&
        countOK (RS.mk t n r w ml mx props req a items none [] [] [] dflt) (inject exro props kvs).length &&
        addlOKD (RS.mk t n r w ml mx props req a items none [] [] [] dflt) (inject exro props kvs) &&
        requiredOK (RS.mk t n r w ml mx props req a items none [] [] [] dflt) (keys (inject exro props kvs))) with
    | false => rfl
    | true => simp only [if_true, Option.isSome_map]; exact P

/-! #### … and the value handed on is the completed value -/

theorem mapOpt_value (f : V → Option V) (g : V → V) (xs ys : List V)
    (h : ∀ x ∈ xs, ∀ y, f x = some y → y = g x) (hm : mapOpt f xs = some ys) : ys = xs.map g := by
  induction xs generalizing ys with
  | nil => unfold mapOpt at hm; cases hm; rfl
  | cons x r ih =>
    unfold mapOpt at hm
    cases hx : f x with
    | none => simp [hx] at hm
    | some y =>
      cases hr : mapOpt f r with
      | none => simp [hx, hr] at hm
      | some zs =>
        simp only [hx, hr, Option.bind_some, Option.map_some, Option.some.injEq] at hm
        rw [← hm, h x (by simp) y hx, ih zs (fun a ha => h a (by simp [ha])) hr]
        rfl

theorem visProps_value (exro : Bool) (props : List (Str × RS))
    (h : ∀ kp ∈ props, ∀ x x', visD true exro kp.2 x = some x' → x' = complete exro kp.2 x) :
    ∀ kvs kvs', visProps true exro props kvs = some kvs' → kvs' = completeProps exro props kvs := by
  induction props with
  | nil => intro kvs kvs' hv; unfold visProps at hv; cases hv; rfl
  | cons e r ih =>
    obtain ⟨k, p⟩ := e
    intro kvs kvs' hv
    unfold visProps at hv
    unfold completeProps completeStep
    cases hl : lookup k kvs with
    | none =>
      rw [propStep_none k _ kvs hl] at hv
      simp only [Option.bind_some] at hv
      exact ih (fun kp hkp => h kp (by simp [hkp])) kvs kvs' hv
    | some x =>
      rw [propStep_some k _ kvs x hl] at hv
      cases hx : visD true exro p x with
      | none => simp [hx] at hv
      | some x' =>
        simp only [hx, Option.map_some, Option.bind_some] at hv
        have := h (k, p) (by simp) x x' hx
        simp only at this
        rw [this] at hv
        exact ih (fun kp hkp => h kp (by simp [hkp])) _ kvs' hv

/-- composition-free schemas: when the validator with `DefaultsSet` accepts, the value it hands on (the one that
is re-encoded for the next handler) is exactly the completed value -/
theorem visD_value_compFree (exro : Bool) :
    ∀ s, compFree s = true → ∀ v v', visD true exro s v = some v' → v' = complete exro s v := by
  apply rs_induct_full
  intro t n r w ml mx props req a items nt oneOf anyOf allOf dflt hp hi _ _ _ _ hcf v v' hv
  unfold compFree at hcf
  simp only [Bool.and_eq_true, Option.isNone_iff_eq_none, List.isEmpty_iff] at hcf
  obtain ⟨⟨⟨⟨⟨e1, e2⟩, e3⟩, e4⟩, cfp⟩, cfi⟩ := hcf
  subst e1 e2 e3 e4
  rw [visD_compFree] at hv
  have scal : ∀ u : V, (match u with | .obj _ => False | .arr _ => False | _ => True) →
      complete exro (RS.mk t n r w ml mx props req a items none [] [] [] dflt) u = u := by
    intro u hu; cases u <;> first | rfl | cases hu
  by_cases h1 : (v.isNull && n) = true
  · simp only [h1, ↓reduceIte, Option.some.injEq] at hv
    have : v = .null := by cases v <;> simp_all [V.isNull]
    subst this; rw [← hv]; rfl
  by_cases h2 : isEmptyLeaf (RS.mk t n r w ml mx props req a items none [] [] [] dflt) = true
  · simp only [h1, h2, Bool.false_eq_true, ↓reduceIte] at hv
    have e := emptyLeaf_of _ h2
    have ep := e.props; have ei := e.items
    simp only [RS.props, RS.items] at ep ei
    subst ep ei
    cases hnl : v.isNull with
    | true => simp [hnl] at hv
    | false =>
      simp only [hnl, Bool.false_eq_true, if_false, Option.some.injEq] at hv
      rw [← hv]
      cases v <;> rfl
  simp only [h1, h2, Bool.false_eq_true, ↓reduceIte] at hv
  cases v with
  | null => simp only [ownK, guardV] at hv; split at hv <;> (cases hv; try rfl)
  | bool b => simp only [ownK, guardV] at hv; split at hv <;> (cases hv; try rfl)
  | int k => simp only [ownK, guardV] at hv; split at hv <;> (cases hv; try rfl)
  | half k => simp only [ownK, guardV] at hv; split at hv <;> (cases hv; try rfl)
  | str s => simp only [ownK, guardV] at hv; split at hv <;> (cases hv; try rfl)
  | arr xs =>
    have ec : complete exro (RS.mk t n r w ml mx props req a items none [] [] [] dflt) (.arr xs) =
        .arr (completeItems exro items xs) := rfl
    have e : ownK true exro (RS.mk t n r w ml mx props req a items none [] [] [] dflt)
        (visProps true exro props) (visItems true exro items) (.arr xs) =
        if permits t .array then (visItems true exro items xs).map .arr else none := rfl
    rw [e] at hv
    rw [ec]
    cases hpm : permits t .array with
    | false => simp [hpm] at hv
    | true =>
      simp only [hpm, if_true] at hv
      cases items with
      | none => simp only [visItems, Option.map_some, Option.some.injEq] at hv; rw [← hv]; rfl
      | some it =>
        unfold visItems at hv
        cases hm : mapOpt (visD true exro it) xs with
        | none => simp [hm] at hv
        | some ys =>
          simp only [hm, Option.map_some, Option.some.injEq] at hv
          rw [← hv, mapOpt_value _ (complete exro it) xs ys
            (fun x _ y hy => hi it rfl (by simpa [compFreeO] using cfi) x y hy) hm]
          rfl
  | obj kvs =>
    have ec : complete exro (RS.mk t n r w ml mx props req a items none [] [] [] dflt) (.obj kvs) =
        .obj (completeProps exro props (inject exro props kvs)) := rfl
    rw [ec]
    simp only [ownK, injD, if_true, RS.props] at hv
    split at hv
    · cases hm : visProps true exro props (inject exro props kvs) with
      | none => rw [hm] at hv; cases hv
      | some kvs' =>
        rw [hm] at hv
        simp only [Option.map_some, Option.some.injEq] at hv
        rw [← hv, visProps_value exro props
          (fun kp hkp x x' hx => hp kp hkp (compFreeP_mem props cfp kp hkp) x x' hx) _ kvs' hm]
    · cases hv

/-! #### the completed value is well-formed -/

theorem wfKV_iff (kvs : List (Str × V)) : V.wfKV kvs = true ↔ ∀ kv ∈ kvs, kv.2.wf = true := by
  induction kvs with
  | nil => simp [V.wfKV]
  | cons e r ih =>
    obtain ⟨k, v⟩ := e
    unfold V.wfKV
    simp only [Bool.and_eq_true, ih, List.mem_cons, forall_eq_or_imp]

theorem wfL_iff (xs : List V) : V.wfL xs = true ↔ ∀ x ∈ xs, x.wf = true := by
  induction xs with
  | nil => simp [V.wfL]
  | cons e r ih =>
    unfold V.wfL
    simp only [Bool.and_eq_true, ih, List.mem_cons, forall_eq_or_imp]

theorem mem_setKey (k : Str) (y : V) (kvs : List (Str × V)) (kv : Str × V) (h : kv ∈ setKey k y kvs) :
    kv = (k, y) ∨ kv ∈ kvs := by
  induction kvs with
  | nil => simp [setKey] at h; exact Or.inl h
  | cons e r ih =>
    obtain ⟨k', v'⟩ := e
    unfold setKey at h
    by_cases hk : k = k'
    · simp only [hk, if_true, List.mem_cons] at h
      rcases h with h | h
      · exact Or.inl (by rw [h, hk])
      · exact Or.inr (List.mem_cons_of_mem _ h)
    · simp only [hk, if_false, List.mem_cons] at h
      rcases h with h | h
      · exact Or.inr (by rw [h]; simp)
      · rcases ih h with h' | h'
        · exact Or.inl h'
        · exact Or.inr (List.mem_cons_of_mem _ h')

theorem inject_wf (exro : Bool) (props : List (Str × RS)) (hp : wfProps props = true) :
    ∀ kvs, (keys kvs).Nodup → (∀ kv ∈ kvs, kv.2.wf = true) →
      (keys (inject exro props kvs)).Nodup ∧ ∀ kv ∈ inject exro props kvs, kv.2.wf = true := by
  induction props with
  | nil => intro kvs h1 h2; exact ⟨h1, h2⟩
  | cons e r ih =>
    obtain ⟨k0, p0⟩ := e
    have hp' := hp
    unfold wfProps at hp'
    simp only [Bool.and_eq_true] at hp'
    intro kvs h1 h2
    unfold inject
    cases hl : lookup k0 kvs with
    | some x => simp only; exact ih hp'.2 kvs h1 h2
    | none =>
      cases hd : dfltFor exro p0 with
      | none => simp only; exact ih hp'.2 kvs h1 h2
      | some d =>
        simp only
        apply ih hp'.2
        · have hnot : k0 ∉ keys kvs := by
            intro hm
            obtain ⟨w, hw⟩ := lookup_isSome_of_mem_keys k0 kvs hm
            rw [hl] at hw; cases hw
          simp only [keys, List.map_append, List.map_cons, List.map_nil] at hnot ⊢
          rw [List.nodup_append]
          refine ⟨h1, by simp, ?_⟩
          intro a ha b hb
          simp only [List.mem_singleton] at hb
          subst hb
          intro hab; subst hab; exact hnot ha
        · intro kv hkv
          rcases List.mem_append.mp hkv with h | h
          · exact h2 kv h
          · simp only [List.mem_singleton] at h
            subst h
            have hd' : p0.dflt = some d := by
              unfold dfltFor at hd
              split at hd
              · cases hd
              · exact hd
            have : wfDflt p0.dflt = true := by
              cases p0
              obtain ⟨_, _, _, _, _, _, _, w⟩ := wf_parts _ _ _ _ _ _ _ _ _ _ _ _ _ _ _ hp'.1
              exact w
            rw [hd'] at this
            exact this

theorem completeProps_wf (exro : Bool) (props : List (Str × RS))
    (hc : ∀ kp ∈ props, ∀ v, v.wf = true → (complete exro kp.2 v).wf = true) :
    ∀ kvs, (∀ kv ∈ kvs, kv.2.wf = true) → ∀ kv ∈ completeProps exro props kvs, kv.2.wf = true := by
  induction props with
  | nil => intro kvs h; exact h
  | cons e r ih =>
    obtain ⟨k, p⟩ := e
    intro kvs h
    unfold completeProps completeStep
    apply ih (fun kp hkp => hc kp (by simp [hkp]))
    cases hl : lookup k kvs with
    | none => exact h
    | some x =>
      intro kv hkv
      rcases mem_setKey k _ kvs kv hkv with h' | h'
      · rw [h']
        exact hc (k, p) (by simp) x (h (k, x) (lookup_some_mem k kvs x hl))
      · exact h kv h'

/-- completion keeps object keys distinct and values well-formed -/
theorem complete_wf (exro : Bool) : ∀ s, s.wf = true → ∀ v, v.wf = true → (complete exro s v).wf = true := by
  apply rs_induct_full
  intro t n r w ml mx props req a items nt oneOf anyOf allOf dflt hp hi _ _ _ _ hwf v hv
  obtain ⟨hnd, wp, wi, _⟩ := wf_parts _ _ _ _ _ _ _ _ _ _ _ _ _ _ _ hwf
  cases v with
  | null => rfl
  | bool b => rfl
  | int k => rfl
  | half k => rfl
  | str s => rfl
  | arr xs =>
    have ec : complete exro (RS.mk t n r w ml mx props req a items nt oneOf anyOf allOf dflt) (.arr xs) =
        .arr (completeItems exro items xs) := rfl
    rw [ec]
    unfold V.wf at hv ⊢
    cases items with
    | none => exact hv
    | some it =>
      unfold completeItems
      rw [wfL_iff] at hv ⊢
      intro y hy
      obtain ⟨x, hx, rfl⟩ := List.mem_map.mp hy
      exact hi it rfl (by simpa [wfOpt] using wi) x (hv x hx)
  | obj kvs =>
    have ec : complete exro (RS.mk t n r w ml mx props req a items nt oneOf anyOf allOf dflt) (.obj kvs) =
        .obj (completeProps exro props (inject exro props kvs)) := rfl
    rw [ec]
    unfold V.wf at hv ⊢
    simp only [Bool.and_eq_true] at hv ⊢
    have hk := (nodupKeys_iff _).mp hv.1
    have hvals := (wfKV_iff _).mp hv.2
    obtain ⟨i1, i2⟩ := inject_wf exro props wp kvs hk hvals
    refine ⟨?_, ?_⟩
    · rw [completeProps_keys]; exact (nodupKeys_iff _).mpr i1
    · rw [wfKV_iff]
      exact completeProps_wf exro props
        (fun kp hkp v hv => hp kp hkp (wfProps_mem props wp kp hkp) v hv) _ i2

/-- composition-free schemas: the validator with `DefaultsSet` accepts exactly when the plain request-side validator
accepts the completed value -/
theorem visD_completed_visit (exro : Bool) (s : RS) (v : V) (hc : compFree s = true) (hs : s.wf = true)
    (hv : v.wf = true) : (visD true exro s v).isSome = visit exro s (complete exro s v) := by
  rw [visD_completed exro s hc hs v, visD_off exro _ (complete_wf exro s hs v hv) s hs, guardV_isSome]

/-! ### the three theorems together -/

/-- where defaults are neutral (`defaultsNeutral`), validating with `DefaultsSet` accepts exactly when the plain
request-side validator does -/
theorem visD_neutral (exro : Bool) (s : RS) (v : V) (hs : s.wf = true) (hv : v.wf = true)
    (hn : defaultsNeutral exro s v = true) : (visD true exro s v).isSome = visit exro s v := by
  unfold defaultsNeutral at hn
  have off := visD_off exro v hv s hs
  rcases Bool.or_eq_true_iff.mp hn with h | h
  · have hf : firesD exro s v = false := by simpa using h
    rw [visD_on_eq_off_of_not_fires exro s v hf, off, guardV_isSome]
  · simp only [Bool.and_eq_true] at h
    rw [visD_neutral_compFree exro s h.1 hs h.2 v, off, guardV_isSome]

theorem decodedValue_of_val (reg : List (Str × DecK)) (rb : ReqBody) (ct : Str) (b : BodyIn) (mt : MediaType) (s : RS)
    (v : V) (ht : b.text ≠ []) (hc : rb.content ≠ []) (hs : contentGet rb.content ct = some mt)
    (hsch : mt.schema = some s) (hdec : decodeBody reg ct s mt.encs b = .val v) :
    decodedValue reg rb ct b = some (s, v) := by
  unfold decodedValue
  have hc' : rb.content.isEmpty = false := by
    cases hcc : rb.content with
    | nil => exact absurd hcc hc
    | cons _ _ => rfl
  simp [ht, hc', hs, hsch, hdec]

/-- where defaults are neutral and inside the model, `ValidateRequestBody` answers the same with and without
default-setting -/
theorem validateRequestBodyD_eq (reg : List (Str × DecK)) (rb : ReqBody) (ct : Str) (b : BodyIn) (exro ds : Bool)
    (hmod : validateRequestBodyD reg rb ct b exro ds ≠ .unmodelled)
    (hn : caseNeutral reg rb ct b exro ds = true) (hw : caseWF reg rb ct b = true) :
    validateRequestBodyD reg rb ct b exro ds = validateRequestBody reg rb ct b exro := by
  unfold validateRequestBodyD validateRequestBody at *
  by_cases ht : b.text = []
  · simp only [ht, if_true]
  by_cases hc : rb.content = []
  · simp only [ht, hc, if_true, if_false]
  simp only [ht, hc, if_false] at hmod ⊢
  cases hs : contentGet rb.content ct with
  | none => rfl
  | some mt =>
    simp only [hs] at hmod ⊢
    cases hsch : mt.schema with
    | none => rfl
    | some s =>
      simp only [hsch] at hmod ⊢
      cases hdec : decodeBody reg ct s mt.encs b with
      | err => rfl
      | panic => rfl
      | unmodelled => rfl
      | val v =>
        simp only [hdec] at hmod ⊢
        have hdv := decodedValue_of_val reg rb ct b mt s v ht hc hs hsch hdec
        unfold validateValue at hmod ⊢
        cases ds with
        | false => rfl
        | true =>
          simp only [Bool.not_true, Bool.false_eq_true, if_false] at hmod ⊢
          unfold caseNeutral at hn
          unfold caseWF at hw
          simp only [hdv, Bool.not_true, Bool.false_or, Bool.and_eq_true] at hn hw
          have hvis := visD_neutral exro s v hw.1 hw.2 hn
          cases hx : visD true exro s v with
          | none =>
            rw [hx] at hvis
            simp only [Option.isSome_none] at hvis
            simp [← hvis]
          | some v' =>
            rw [hx] at hvis
            simp only [Option.isSome_some] at hvis
            simp [← hvis]

end KinModel.Body
