/- Helper lemmas for C15 (not property statements): the scheduler of the executable case model (`schedule`, `takeAt`)
   hands every goroutine exactly its own actions, in order — the traces of the case model are genuine complete
   interleavings of the goroutines' operation lists. Core-only. -/
import KinModel.Conc
import KinModel.ConcCase
namespace KinModel.Conc

/-- the actions of thread `i` still to be scheduled -/
def liveProj (i : Nat) : List (Nat × List Act) → List Act
  | [] => []
  | (t, as) :: rest => if t = i then as ++ liveProj i rest else liveProj i rest

def liveTotal (live : List (Nat × List Act)) : Nat := (live.map (fun x => x.2.length)).sum

theorem takeAt_none (i : Nat) : ∀ (live : List (Nat × List Act)) (k : Nat), takeAt k live = none → liveProj i live = [] := by
  intro live
  induction live with
  | nil => intro k _; rfl
  | cons t rest ih =>
    intro k h
    obtain ⟨tid, acts⟩ := t
    cases acts with
    | nil =>
      rw [takeAt] at h
      simp [liveProj, ih k h]
    | cons a as =>
      cases k with
      | zero => simp [takeAt] at h
      | succ k =>
        simp only [takeAt] at h
        cases hk : takeAt k rest with
        | none => simp [hk] at h
        | some r => simp [hk] at h

theorem takeAt_proj (i : Nat) : ∀ (live : List (Nat × List Act)) (k : Nat) x live',
    takeAt k live = some (x, live') → (live.map (fun t => t.1)).Nodup →
    liveProj i live = (if x.1 = i then x.2 :: liveProj i live' else liveProj i live') ∧
    x.1 ∈ live.map (fun t => t.1) ∧
    (live'.map (fun t => t.1)).Sublist (live.map (fun t => t.1)) ∧
    liveTotal live = liveTotal live' + 1 := by
  intro live
  induction live with
  | nil => intro k x live' h; simp [takeAt] at h
  | cons t rest ih =>
    intro k x live' h hnd
    obtain ⟨tid, acts⟩ := t
    have hndr : (rest.map (fun t => t.1)).Nodup := by
      simp only [List.map_cons, List.nodup_cons] at hnd; exact hnd.2
    have htid : tid ∉ rest.map (fun t => t.1) := by
      simp only [List.map_cons, List.nodup_cons] at hnd; exact hnd.1
    cases acts with
    | nil =>
      rw [takeAt] at h
      obtain ⟨h1, h2, h3, h4⟩ := ih k x live' h hndr
      refine ⟨?_, ?_, ?_, ?_⟩
      · simp only [liveProj, List.nil_append, ite_self]; exact h1
      · simp [h2]
      · simp only [List.map_cons]; exact List.Sublist.cons _ h3
      · simpa [liveTotal] using h4
    | cons a as =>
      have here : ∀ (hx : x = (tid, a)) (hl : live' = (tid, as) :: rest),
          liveProj i ((tid, a :: as) :: rest) = (if x.1 = i then x.2 :: liveProj i live' else liveProj i live') ∧
          x.1 ∈ ((tid, a :: as) :: rest).map (fun t => t.1) ∧
          (live'.map (fun t => t.1)).Sublist (((tid, a :: as) :: rest).map (fun t => t.1)) ∧
          liveTotal ((tid, a :: as) :: rest) = liveTotal live' + 1 := by
        intro hx hl
        subst hx; subst hl
        refine ⟨?_, by simp, by simp, ?_⟩
        · by_cases ht : tid = i <;> simp [liveProj, ht]
        · simp [liveTotal]; omega
      cases k with
      | zero =>
        simp only [takeAt, Option.some.injEq, Prod.mk.injEq] at h
        exact here h.1.symm h.2.symm
      | succ k =>
        simp only [takeAt] at h
        cases hk : takeAt k rest with
        | none =>
          simp only [hk, Option.some.injEq, Prod.mk.injEq] at h
          exact here h.1.symm h.2.symm
        | some r =>
          obtain ⟨r1, r2⟩ := r
          simp only [hk, Option.some.injEq, Prod.mk.injEq] at h
          obtain ⟨rfl, rfl⟩ := h
          obtain ⟨h1, h2, h3, h4⟩ := ih k r1 r2 hk hndr
          have hne : r1.1 ≠ tid := fun e => htid (e ▸ h2)
          refine ⟨?_, ?_, ?_, ?_⟩
          · by_cases ht : tid = i
            · have : r1.1 ≠ i := fun e => hne (e.trans ht.symm)
              simp only [liveProj, ht, if_true, this, if_false] at h1 ⊢
              rw [h1]
            · simp only [liveProj, ht, if_false]; exact h1
          · simp [h2]
          · simp only [List.map_cons]; exact List.Sublist.cons_cons _ h3
          · simp only [liveTotal, List.map_cons, List.sum_cons] at h4 ⊢; omega

/-- with enough fuel the scheduler hands every thread exactly its own actions, in order -/
theorem schedule_proj (i : Nat) : ∀ (fuel seed : Nat) (live : List (Nat × List Act)),
    (live.map (fun t => t.1)).Nodup → liveTotal live < fuel → proj i (schedule fuel seed live) = liveProj i live
  | 0, _, _, _, h => by omega
  | fuel + 1, seed, live, hnd, hf => by
    simp only [schedule]
    cases hk : takeAt (seed % (live.length + 1)) live with
    | none => simp [proj, takeAt_none i live _ hk]
    | some r =>
      obtain ⟨x, live'⟩ := r
      obtain ⟨h1, _, h3, h4⟩ := takeAt_proj i live _ x live' hk hnd
      have ih := schedule_proj i fuel (nextSeed seed) live' (hnd.sublist h3) (by omega)
      obtain ⟨t, a⟩ := x
      simp only [proj, ih]
      rw [h1]

theorem liveProj_map (i : Nat) (f : Nat → List Act) : ∀ l : List Nat, l.Nodup →
    liveProj i (l.map (fun j => (j, f j))) = if i ∈ l then f i else []
  | [], _ => rfl
  | a :: l, hnd => by
    simp only [List.nodup_cons] at hnd
    have ih := liveProj_map i f l hnd.2
    by_cases ha : a = i
    · subst ha
      simp only [List.map_cons, liveProj, if_true, ih, hnd.1, if_false, List.append_nil, List.mem_cons, true_or]
    · have : i ≠ a := fun e => ha e.symm
      simp only [List.map_cons, liveProj, ha, if_false, ih, List.mem_cons, this, false_or]

/-- the trace of a case is a complete interleaving of its goroutines: goroutine `j` performs exactly its own
    operation list, in order; nothing else is in the trace -/
theorem caseTrace_proj (c : CaseM) (j : Nat) :
    proj j (caseTrace c) = if j < c.g then threadActs c j else [] := by
  have hids : (caseThreads c).map (fun t => t.1) = List.range c.g := by
    simp [caseThreads, Function.comp_def]
  have hnd : ((caseThreads c).map (fun t => t.1)).Nodup := by rw [hids]; exact List.nodup_range
  have h := schedule_proj j (liveTotal (caseThreads c) + 1) c.sched (caseThreads c) hnd (Nat.lt_succ_self _)
  have e : caseTrace c = schedule (liveTotal (caseThreads c) + 1) c.sched (caseThreads c) := rfl
  rw [e, h]
  have := liveProj_map j (threadActs c) (List.range c.g) List.nodup_range
  simpa [caseThreads] using this

end KinModel.Conc
