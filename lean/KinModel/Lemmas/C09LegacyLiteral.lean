/-
Helper lemmas for C09, legacy router, "a literal path wins": the suffix lists of the trie stay sorted (SuffixList.Less is a
strict total order on the suffixes of one node), constants are "/" or slash-free runs, and therefore on an input that a
stored all-constant path spells, every suffix tried before the path's own constant fails: the backtracking match returns
the value stored at the end of that path with no variable bound.
-/
import KinModel.Lemmas.C09LegacyComplete
namespace KinModel.Router

/-! ### the order on strings -/

theorem ltStr_irrefl : ∀ (a : Str), ltStr a a = false
  | [] => rfl
  | c :: cs => by simp [ltStr, ltStr_irrefl cs]

theorem ltStr_trans : ∀ {a b c : Str}, ltStr a b = true → ltStr b c = true → ltStr a c = true
  | [], [], _, h, _ => by simp [ltStr] at h
  | [], _ :: _, [], _, h => by simp [ltStr] at h
  | [], _ :: _, _ :: _, _, _ => by simp [ltStr]
  | _ :: _, [], _, h, _ => by simp [ltStr] at h
  | _ :: _, _ :: _, [], _, h => by simp [ltStr] at h
  | x :: xs, y :: ys, z :: zs, h1, h2 => by
    simp only [ltStr] at h1 h2 ⊢
    by_cases hxy : x.toNat < y.toNat
    · by_cases hyz : y.toNat < z.toNat
      · have : x.toNat < z.toNat := by omega
        simp [this]
      · simp only [hyz, if_false] at h2
        by_cases hzy : z.toNat < y.toNat
        · simp [hzy] at h2
        · have : x.toNat < z.toNat := by omega
          simp [this]
    · simp only [hxy, if_false] at h1
      by_cases hyx : y.toNat < x.toNat
      · simp [hyx] at h1
      · simp only [hyx, if_false] at h1
        have exy : x.toNat = y.toNat := by omega
        by_cases hyz : y.toNat < z.toNat
        · have : x.toNat < z.toNat := by omega
          simp [this]
        · simp only [hyz, if_false] at h2
          by_cases hzy : z.toNat < y.toNat
          · simp [hzy] at h2
          · simp only [hzy, if_false] at h2
            have h3 : ¬ x.toNat < z.toNat := by omega
            have h4 : ¬ z.toNat < x.toNat := by omega
            simp only [h3, h4, if_false]
            exact ltStr_trans h1 h2

theorem char_eq_of_toNat {a b : Char} (h : a.toNat = b.toNat) : a = b := by
  apply Char.ext
  apply UInt32.toNat_inj.1
  exact h

theorem ltStr_total : ∀ {a b : Str}, a ≠ b → ltStr a b = true ∨ ltStr b a = true
  | [], [], h => absurd rfl h
  | [], _ :: _, _ => Or.inl (by simp [ltStr])
  | _ :: _, [], _ => Or.inr (by simp [ltStr])
  | x :: xs, y :: ys, h => by
    simp only [ltStr]
    by_cases hxy : x.toNat < y.toNat
    · simp [hxy]
    · by_cases hyx : y.toNat < x.toNat
      · simp [hyx]
      · have e : x = y := char_eq_of_toNat (by omega)
        subst e
        have : xs ≠ ys := fun e => h (by rw [e])
        simp only [hxy, if_false]
        exact ltStr_total this

/-! ### SuffixList.Less is a strict total order -/

theorem sufLess_trans {a b c : Suf} (h1 : sufLess a b = true) (h2 : sufLess b c = true) : sufLess a c = true := by
  simp only [sufLess] at h1 h2 ⊢
  by_cases hab : sufKind a < sufKind b
  · by_cases hbc : sufKind b < sufKind c
    · have : sufKind a < sufKind c := by omega
      simp [this]
    · simp only [hbc, if_false] at h2
      by_cases hcb : sufKind c < sufKind b
      · simp [hcb] at h2
      · have : sufKind a < sufKind c := by omega
        simp [this]
  · simp only [hab, if_false] at h1
    by_cases hba : sufKind b < sufKind a
    · simp [hba] at h1
    · simp only [hba, if_false] at h1
      by_cases hbc : sufKind b < sufKind c
      · have : sufKind a < sufKind c := by omega
        simp [this]
      · simp only [hbc, if_false] at h2
        by_cases hcb : sufKind c < sufKind b
        · simp [hcb] at h2
        · simp only [hcb, if_false] at h2
          have h3 : ¬ sufKind a < sufKind c := by omega
          have h4 : ¬ sufKind c < sufKind a := by omega
          simp only [h3, h4, if_false]
          exact ltStr_trans h2 h1

theorem sufLess_total {a b : Suf} (h : a ≠ b) : sufLess a b = true ∨ sufLess b a = true := by
  simp only [sufLess]
  by_cases hab : sufKind a < sufKind b
  · simp [hab]
  · by_cases hba : sufKind b < sufKind a
    · simp [hba]
    · simp only [hab, hba, if_false]
      have hp : sufPattern a ≠ sufPattern b := by
        cases a <;> cases b <;> simp_all [sufKind, sufPattern]
      rcases ltStr_total hp with h' | h'
      · exact Or.inr h'
      · exact Or.inl h'

def SortedL (l : List (Suf × Node)) : Prop := l.Pairwise (fun a b => sufLess a.1 b.1 = true)

theorem mem_insSorted (x y : Suf × Node) (l : List (Suf × Node)) : y ∈ insSorted x l ↔ y = x ∨ y ∈ l := by
  induction l with
  | nil => simp [insSorted]
  | cons z zs ih =>
    simp only [insSorted]
    split
    · simp
    · simp [ih]; constructor <;> rintro (h | h | h) <;> simp [h]

theorem sorted_insSorted (x : Suf × Node) (l : List (Suf × Node)) (hs : SortedL l) (hnew : hasSuf x.1 l = false) :
    SortedL (insSorted x l) := by
  induction l with
  | nil => simp [insSorted, SortedL]
  | cons y ys ih =>
    unfold SortedL at hs ⊢
    rw [List.pairwise_cons] at hs
    simp only [hasSuf, List.any_cons, Bool.or_eq_false_iff, decide_eq_false_iff_not] at hnew
    simp only [insSorted]
    split
    · rename_i hxy
      rw [List.pairwise_cons]
      refine ⟨?_, List.pairwise_cons.2 hs⟩
      intro z hz
      simp only [List.mem_cons] at hz
      rcases hz with rfl | hz
      · exact hxy
      · exact sufLess_trans hxy (hs.1 z hz)
    · rename_i hxy
      have hyx : sufLess y.1 x.1 = true := by
        rcases sufLess_total (a := x.1) (b := y.1) (fun e => hnew.1 e.symm) with h | h
        · exact absurd h hxy
        · exact h
      rw [List.pairwise_cons]
      refine ⟨?_, ih hs.2 (by simpa [hasSuf] using hnew.2)⟩
      intro z hz
      rw [mem_insSorted] at hz
      rcases hz with rfl | hz
      · exact hyx
      · exact hs.1 z hz

/-! ### shape of the constants -/

/-- a constant of CreateNode: "/" or a non-empty run without '/' -/
def ConstOK (p : Str) : Prop := p = ['/'] ∨ (p ≠ [] ∧ '/' ∉ p)

def SufOK : Suf → Prop
  | .const p => ConstOK p
  | _ => True

inductive GoodNode : Node → Prop
  | mk {v : Option Key} {sufs : List (Suf × Node)} :
      SortedL sufs → (∀ x ∈ sufs, SufOK x.1) → (∀ x ∈ sufs, GoodNode x.2) → GoodNode (.mk v sufs)

theorem goodNode_chain : ∀ (ts : List Suf) (k : Key), (∀ t ∈ ts, SufOK t) → GoodNode (chain ts k)
  | [], _, _ => .mk (by simp [SortedL]) (by simp) (by simp)
  | t :: ts, k, h => by
    refine .mk (by simp [SortedL]) ?_ ?_
    · intro x hx
      simp only [List.mem_singleton] at hx
      subst hx
      exact h t (by simp)
    · intro x hx
      simp only [List.mem_singleton] at hx
      subst hx
      exact goodNode_chain ts k (fun u hu => h u (by simp [hu]))

theorem updL_keys : ∀ (l : List (Suf × Node)) (t : Suf) (ts : List Suf) (k : Key),
    (updL l t ts k).map (·.1) = l.map (·.1)
  | [], _, _, _ => by simp [updL]
  | (s, child) :: rest, t, ts, k => by
    simp only [updL]
    split
    · simp
    · simp [updL_keys rest t ts k]

theorem sorted_of_keys {l l' : List (Suf × Node)} (h : l'.map (·.1) = l.map (·.1)) (hs : SortedL l) : SortedL l' := by
  unfold SortedL at hs ⊢
  have h1 : (l.map (·.1)).Pairwise (fun a b => sufLess a b = true) := List.pairwise_map.2 hs
  rw [← h] at h1
  exact List.pairwise_map.1 h1

theorem hasSuf_false_of_not {t : Suf} {sufs : List (Suf × Node)} (h : ¬ hasSuf t sufs = true) : hasSuf t sufs = false := by
  cases hh : hasSuf t sufs
  · rfl
  · exact absurd hh h

theorem insert_good :
    (∀ n toks k, GoodNode n → (∀ t ∈ toks, SufOK t) → GoodNode (insertN n toks k)) ∧
    (∀ l t ts k, (∀ x ∈ l, SufOK x.1 ∧ GoodNode x.2) → (∀ u ∈ ts, SufOK u) →
        ∀ x ∈ updL l t ts k, SufOK x.1 ∧ GoodNode x.2) := by
  refine insertN.mutual_induct
    (motive_1 := fun n toks k => GoodNode n → (∀ t ∈ toks, SufOK t) → GoodNode (insertN n toks k))
    (motive_2 := fun l t ts k => (∀ x ∈ l, SufOK x.1 ∧ GoodNode x.2) → (∀ u ∈ ts, SufOK u) →
        ∀ x ∈ updL l t ts k, SufOK x.1 ∧ GoodNode x.2)
    ?c1 ?c2 ?c3 ?c4 ?c5 ?c6
  case c1 =>
    intro v sufs k hg _
    cases hg with
    | mk h1 h2 h3 => simp only [insertN]; exact .mk h1 h2 h3
  case c2 =>
    intro v sufs t ts k hhas ih hg ht
    cases hg with
    | mk h1 h2 h3 =>
      simp only [insertN, hhas, if_true]
      have hh := ih (fun x hx => ⟨h2 x hx, h3 x hx⟩) (fun u hu => ht u (by simp [hu]))
      exact .mk (sorted_of_keys (updL_keys sufs t ts k) h1) (fun x hx => (hh x hx).1) (fun x hx => (hh x hx).2)
  case c3 =>
    intro v sufs t ts k hhas hg ht
    cases hg with
    | mk h1 h2 h3 =>
      have e : insertN (.mk v sufs) (t :: ts) k = .mk v (insSorted (t, chain ts k) sufs) := by
        simp [insertN, hhas]
      rw [e]
      refine .mk (sorted_insSorted _ _ h1 (hasSuf_false_of_not hhas)) ?_ ?_
      · intro x hx
        rw [mem_insSorted] at hx
        rcases hx with rfl | hx
        · exact ht t (by simp)
        · exact h2 x hx
      · intro x hx
        rw [mem_insSorted] at hx
        rcases hx with rfl | hx
        · exact goodNode_chain ts k (fun u hu => ht u (by simp [hu]))
        · exact h3 x hx
  case c4 => intro t ts k _ _ x hx; simp [updL] at hx
  case c5 =>
    intro child rest t ts k ih hl hts x hx
    simp only [updL, if_true, List.mem_cons] at hx
    rcases hx with rfl | hx
    · exact ⟨(hl (t, child) (by simp)).1, ih (hl (t, child) (by simp)).2 hts⟩
    · exact hl x (by simp [hx])
  case c6 =>
    intro s child rest t ts k hne ih hl hts x hx
    simp only [updL, hne, if_false, List.mem_cons] at hx
    rcases hx with rfl | hx
    · exact hl (s, child) (by simp)
    · exact ih (fun y hy => hl y (by simp [hy])) hts x hx

theorem build_good (keys : List Key) (hk : ∀ k ∈ keys, ∀ t ∈ k.sufs, SufOK t) : ∀ (root : Node),
    GoodNode root → GoodNode (buildFrom root keys) := by
  induction keys with
  | nil => intro root h; exact h
  | cons k ks ih =>
    intro root h
    simp only [buildFrom, List.foldl_cons]
    exact ih (fun k' hk' => hk k' (by simp [hk'])) _ (insert_good.1 root k.sufs k h (hk k (by simp)))

/-! ### tokens of a key are well shaped -/

theorem takeRun_fst_ok : ∀ (s : Str), '/' ∉ (takeRun s).1
  | [] => by simp [takeRun]
  | c :: cs => by
    simp only [takeRun]
    split
    · simp
    · rename_i h
      simp only [not_or] at h
      simp only [List.mem_cons, not_or]
      exact ⟨fun e => h.1 e.symm, takeRun_fst_ok cs⟩

theorem takeRun_snd_head : ∀ (s : Str), (takeRun s).2 = [] ∨ (takeRun s).2.head? = some '/' ∨ (takeRun s).2.head? = some '{'
  | [] => by simp [takeRun]
  | c :: cs => by
    simp only [takeRun]
    split
    · rename_i h
      rcases h with h | h
      · right; left; simp [h]
      · right; right; simp [h]
    · exact takeRun_snd_head cs

theorem takeRun_snd_sub : ∀ (s : Str) (c : Char), c ∈ (takeRun s).2 → c ∈ s
  | [], c, h => by simp [takeRun] at h
  | d :: ds, c, h => by
    simp only [takeRun] at h
    split at h
    · exact h
    · exact List.mem_cons_of_mem _ (takeRun_snd_sub ds c h)

theorem tokLoop_sufOK : ∀ (f : Nat) (s : Str) (toks : List Tok), tokLoop f s = some toks → ∀ t ∈ toks, SufOK t.suf := by
  intro f
  induction f with
  | zero => intro s toks h; simp [tokLoop] at h
  | succ f ih =>
    intro s toks h
    cases s with
    | nil => simp [tokLoop] at h; subst h; simp
    | cons c cs =>
      simp only [tokLoop] at h
      split at h
      · simp only [Option.map_eq_some_iff] at h
        obtain ⟨toks', ht, rfl⟩ := h
        intro t ht'
        simp only [List.mem_cons] at ht'
        rcases ht' with rfl | ht'
        · exact Or.inl rfl
        · exact ih cs toks' ht t ht'
      · split at h
        · split at h
          · simp at h
          · simp only [Option.map_eq_some_iff] at h
            obtain ⟨toks', ht, rfl⟩ := h
            intro t ht'
            simp only [List.mem_cons] at ht'
            rcases ht' with rfl | ht'
            · split <;> simp [Tok.suf, SufOK]
            · exact ih _ toks' ht t ht'
        · rename_i hc1 hc2
          simp only [Option.map_eq_some_iff] at h
          obtain ⟨toks', ht, rfl⟩ := h
          intro t ht'
          simp only [List.mem_cons] at ht'
          rcases ht' with rfl | ht'
          · refine Or.inr ⟨?_, takeRun_fst_ok _⟩
            simp [takeRun, hc1, hc2]
          · exact ih _ toks' ht t ht'

theorem key_sufs_ok (k : Key) : ∀ t ∈ k.sufs, SufOK t := by
  unfold Key.sufs Key.toks
  cases h : tokenize k.str with
  | none => simp
  | some toks =>
    intro t ht
    simp only [Option.getD_some, List.mem_map] at ht
    obtain ⟨tk, htk, rfl⟩ := ht
    exact tokLoop_sufOK _ _ _ h tk htk

theorem goodNode_empty : GoodNode emptyNode := .mk (by simp [SortedL]) (by simp) (by simp)

theorem legacyRoot_good (ks : List Key) : GoodNode (legacyRootOf ks) :=
  build_good ks (fun k _ => key_sufs_ok k) emptyNode goodNode_empty

/-! ### literal paths -/

/-- an all-constant suffix path spelling a string, every run followed by '/' or by the end of the string -/
inductive LitReads : List Suf → Str → Prop
  | nil : LitReads [] []
  | cons {q : Str} {r : List Suf} {s : Str} :
      LitReads r s → (q = ['/'] ∨ s = [] ∨ s.head? = some '/') → LitReads (.const q :: r) (q ++ s)

/-- a key without '{' tokenises to a literal path that spells it -/
theorem tokLoop_lit : ∀ (f : Nat) (s : Str), s.length < f → '{' ∉ s →
    ∃ toks, tokLoop f s = some toks ∧ LitReads (toks.map Tok.suf) s := by
  intro f
  induction f with
  | zero => intro s h; omega
  | succ f ih =>
    intro s hl hb
    cases s with
    | nil => exact ⟨[], by simp [tokLoop], .nil⟩
    | cons c cs =>
      simp only [List.mem_cons, not_or] at hb
      simp only [List.length_cons] at hl
      by_cases hc : c = '/'
      · obtain ⟨toks, h1, h2⟩ := ih cs (by omega) hb.2
        refine ⟨Tok.const ['/'] :: toks, by simp [tokLoop, hc, h1], ?_⟩
        subst hc
        exact LitReads.cons (q := ['/']) h2 (Or.inl rfl)
      · have hc2 : c ≠ '{' := fun e => hb.1 e.symm
        have hlen : (takeRun (c :: cs)).2.length < f := by
          have : (takeRun (c :: cs)).2 = (takeRun cs).2 := by simp [takeRun, hc, hc2]
          rw [this]
          have := takeRun_length cs
          omega
        have hnb : '{' ∉ (takeRun (c :: cs)).2 := by
          intro hm
          have := takeRun_snd_sub _ _ hm
          simp only [List.mem_cons] at this
          rcases this with h | h
          · exact hb.1 h
          · exact hb.2 h
        obtain ⟨toks, h1, h2⟩ := ih _ hlen hnb
        refine ⟨Tok.const (takeRun (c :: cs)).1 :: toks, by simp [tokLoop, hc, hc2, h1], ?_⟩
        have hsp := takeRun_append (c :: cs)
        have hr : LitReads (Suf.const (takeRun (c :: cs)).1 :: toks.map Tok.suf) ((takeRun (c :: cs)).1 ++ (takeRun (c :: cs)).2) := by
          refine LitReads.cons h2 ?_
          rcases takeRun_snd_head (c :: cs) with h | h | h
          · exact Or.inr (Or.inl h)
          · exact Or.inr (Or.inr h)
          · exfalso
            apply hnb
            cases hh : (takeRun (c :: cs)).2 with
            | nil => rw [hh] at h; simp at h
            | cons a as => rw [hh] at h; simp at h; subst h; simp
        rw [hsp] at hr
        exact hr

theorem mem_stripSlashes {c : Char} {s : Str} (h : c ∈ stripSlashes s) : c ∈ s := by
  have hd : ∀ l : Str, c ∈ dropSlashesRev l → c ∈ l := by
    intro l
    induction l with
    | nil => simp [dropSlashesRev]
    | cons d ds ih =>
      simp only [dropSlashesRev]
      split
      · intro h; exact List.mem_cons_of_mem _ (ih h)
      · exact id
  simp only [stripSlashes, List.mem_reverse] at h
  simpa using hd _ h

theorem key_lit (k : Key) (h : '{' ∉ k.str) : LitReads k.sufs (stripSlashes k.str) := by
  obtain ⟨toks, h1, h2⟩ := tokLoop_lit ((stripSlashes k.str).length + 1) (stripSlashes k.str) (by omega)
    (fun hm => h (mem_stripSlashes hm))
  unfold Key.sufs Key.toks tokenize
  rw [h1]
  exact h2

/-! ### the constants tried before the right one fail -/

theorem prefix_of_ltStr : ∀ (q p rest r : Str), stripPrefix p (q ++ rest) = some r → ltStr q p = true →
    ∃ c tail, p = q ++ c :: tail ∧ rest = c :: tail ++ r
  | [], [], _, _, _, h => by simp [ltStr] at h
  | [], c :: tail, rest, r, hs, _ => ⟨c, tail, rfl, by simpa using stripPrefix_some hs⟩
  | _ :: _, [], _, _, _, h => by simp [ltStr] at h
  | a :: q', b :: p', rest, r, hs, hl => by
    simp only [List.cons_append, stripPrefix] at hs
    split at hs
    · rename_i e
      subst e
      simp only [ltStr, Nat.lt_irrefl, if_false] at hl
      obtain ⟨c, tail, e1, e2⟩ := prefix_of_ltStr q' p' rest r hs hl
      exact ⟨c, tail, by simp [e1], e2⟩
    · simp at hs

theorem earlier_const_fails {p q s : Str} (hp : ConstOK p) (hq : ConstOK q)
    (hside : q = ['/'] ∨ s = [] ∨ s.head? = some '/') (hlt : ltStr q p = true) : stripPrefix p (q ++ s) = none := by
  cases hs : stripPrefix p (q ++ s) with
  | none => rfl
  | some r =>
    exfalso
    obtain ⟨c, tail, e1, e2⟩ := prefix_of_ltStr q p s r hs hlt
    have hqne : q ≠ [] := by
      rcases hq with h | h
      · rw [h]; simp
      · exact h.1
    have hslash : '/' ∈ p ∧ p ≠ ['/'] := by
      rcases hside with h | h | h
      · subst h; subst e1; simp
      · rw [h] at e2; simp at e2
      · rw [e2] at h
        simp only [List.cons_append, List.head?_cons, Option.some.injEq] at h
        subst h
        subst e1
        refine ⟨by simp, ?_⟩
        cases q with
        | nil => exact absurd rfl hqne
        | cons a as => simp
    rcases hp with h | h
    · exact hslash.2 h
    · exact h.2 hslash.1

theorem matchL_cons_eq (suf : Suf) (child : Node) (rest : List (Suf × Node)) (rem : Str) (vals : List Str) :
    matchL ((suf, child) :: rest) rem vals = first (branch suf child rem vals) (matchL rest rem vals) := by
  cases suf <;> simp only [matchL, branch] <;> rfl

theorem matchL_skip (rem : Str) (vals : List Str) : ∀ (pre l : List (Suf × Node)),
    (∀ x ∈ pre, branch x.1 x.2 rem vals = none) → matchL (pre ++ l) rem vals = matchL l rem vals := by
  intro pre
  induction pre with
  | nil => intro l _; rfl
  | cons x xs ih =>
    intro l h
    obtain ⟨s, c⟩ := x
    rw [List.cons_append, matchL_cons_eq, h (s, c) (by simp), ih l (fun y hy => h y (by simp [hy]))]
    rfl

/-- literal wins in the trie: on a string that a stored all-constant path spells, the match returns the value stored at the
    end of that path and binds no variable -/
theorem lit_match : ∀ (path : List Suf) (node : Node) (k : Key) (rem : Str) (vals : List Str),
    GoodNode node → (path, k) ∈ pathsN node → LitReads path rem →
    ∃ k', matchN node rem vals = some (k', vals) ∧ (path, k') ∈ pathsN node := by
  intro path
  induction path with
  | nil =>
    intro node k rem vals _ hp hr
    cases hr
    obtain ⟨value, sufs⟩ := node
    simp only [pathsN, List.mem_append] at hp
    rcases hp with hp | hp
    · cases value with
      | none => simp at hp
      | some v => exact ⟨v, by simp [matchN], by simp [pathsN]⟩
    · exact absurd hp nil_not_mem_pathsL
  | cons s0 path ih =>
    intro node k rem vals hg hp hr
    obtain ⟨value, sufs⟩ := node
    cases hg with
    | mk hsorted hallOK hallG =>
      cases hr with
      | cons hr' hside =>
        rename_i q s
        simp only [pathsN, List.mem_append] at hp
        have hp' : (Suf.const q :: path, k) ∈ pathsL sufs := by
          rcases hp with hp | hp
          · cases value <;> simp at hp
          · exact hp
        obtain ⟨child, hc, hpc⟩ := mem_pathsL_cons hp'
        have hqok : ConstOK q := hallOK _ hc
        have hqne : q ≠ [] := by
          rcases hqok with h | h
          · rw [h]; simp
          · exact h.1
        obtain ⟨pre, post, hsplit⟩ := List.append_of_mem hc
        have hpre : ∀ x ∈ pre, branch x.1 x.2 (q ++ s) vals = none := by
          intro x hx
          have hless : sufLess x.1 (Suf.const q) = true := by
            unfold SortedL at hsorted
            rw [hsplit, List.pairwise_append] at hsorted
            exact hsorted.2.2 x hx (Suf.const q, child) (by simp)
          have hxok : SufOK x.1 := hallOK x (by rw [hsplit]; simp [hx])
          obtain ⟨xs, xc⟩ := x
          cases xs with
          | const p =>
            have hlt : ltStr q p = true := by
              simpa [sufLess, sufKind, sufPattern] using hless
            simp only [branch, earlier_const_fails hxok hqok hside hlt]
            have : ¬ (q ++ s = [] ∧ p = ['/']) := by
              intro h; exact hqne (List.append_eq_nil_iff.1 h.1).1
            rw [if_neg this]
          | var => simp [sufLess, sufKind] at hless
          | all => simp [sufLess, sufKind] at hless
        obtain ⟨k', hk1, hk2⟩ := ih child k s vals (hallG _ hc) hpc hr'
        refine ⟨k', ?_, ?_⟩
        · rw [matchN_eq]
          have hne : q ++ s ≠ [] := fun h => hqne (List.append_eq_nil_iff.1 h).1
          have hML : matchL sufs (q ++ s) vals = some (k', vals) := by
            rw [hsplit, matchL_skip _ _ pre _ hpre, matchL_cons_eq]
            simp only [branch, stripPrefix_append, hk1, first]
          generalize hqs : q ++ s = qs at hML hne
          cases qs with
          | nil => exact absurd rfl hne
          | cons a as => exact hML
        · simp only [pathsN, List.mem_append]
          exact Or.inr (mem_pathsL_of_mem hc hk2)

end KinModel.Router
