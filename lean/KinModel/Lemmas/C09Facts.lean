/- Lookup in the regenerated table `RouterFacts` (source facts that the router models copy by hand). -/
import KinModel.Gen.RouterFacts
namespace KinModel.Router

def routerFact (k : String) : Option String :=
  KinModel.Gen.routerFacts.findSome? (fun r => match r with
    | .fact k' v => if k' = k then some v else none
    | .unrecognised _ => none)

def factRecognised : KinModel.Gen.RFact → Bool
  | .fact _ _ => true
  | .unrecognised _ => false

end KinModel.Router
