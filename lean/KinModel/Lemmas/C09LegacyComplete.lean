/-
Helper lemmas for C09, legacy router, completeness direction: every stored suffix path is found again by the
backtracking match on every string it reads; insertion creates the key's path and keeps the others.
-/
import KinModel.Lemmas.C09Legacy
namespace KinModel.Router

/-- `Reads path vals s`: the suffix path reads the string `s` with variable values `vals`, the way the trie walks it:
    a variable takes a slash-free value and is followed by '/' or the end of the input -/
inductive Reads : List Suf → List Str → Str → Prop
  | nil : Reads [] [] []
  | const (p : Str) {r vs s} : Reads r vs s → Reads (.const p :: r) vs (p ++ s)
  | var {r v vs s} : '/' ∉ v → (s = [] ∨ s.head? = some '/') → Reads r vs s → Reads (.var :: r) (v :: vs) (v ++ s)

theorem takeSeg_of_reads {v s : Str} (hv : '/' ∉ v) (hs : s = [] ∨ s.head? = some '/') : takeSeg (v ++ s) = (v, s) := by
  induction v with
  | nil =>
    rcases hs with rfl | hs
    · rfl
    · cases s with
      | nil => rfl
      | cons c cs => simp at hs; subst hs; simp [takeSeg]
  | cons c cs ih =>
    simp only [List.mem_cons, not_or] at hv
    have hc : c ≠ '/' := fun e => hv.1 e.symm
    simp [takeSeg, hc, ih hv.2]

theorem first_isSome_left {a b : Option α} (h : a.isSome) : (first a b).isSome := by
  cases a <;> simp_all [first]

theorem first_isSome_right {a b : Option α} (h : b.isSome) : (first a b).isSome := by
  cases a <;> simp_all [first]

theorem mem_pathsL_cons {s : Suf} {p : List Suf} {k : Key} : ∀ {sufs : List (Suf × Node)},
    (s :: p, k) ∈ pathsL sufs → ∃ child, (s, child) ∈ sufs ∧ (p, k) ∈ pathsN child := by
  intro sufs
  induction sufs with
  | nil => intro h; simp [pathsL] at h
  | cons x xs ih =>
    obtain ⟨s', child⟩ := x
    intro h
    simp only [pathsL, List.mem_append, List.mem_map] at h
    rcases h with ⟨q, hq, he⟩ | h
    · simp only [consPath, Prod.mk.injEq, List.cons.injEq] at he
      obtain ⟨⟨rfl, rfl⟩, rfl⟩ := he
      exact ⟨child, by simp, hq⟩
    · obtain ⟨c, hc, hp⟩ := ih h
      exact ⟨c, by simp [hc], hp⟩

theorem nil_not_mem_pathsL {k : Key} : ∀ {sufs : List (Suf × Node)}, ([], k) ∉ pathsL sufs := by
  intro sufs
  induction sufs with
  | nil => simp [pathsL]
  | cons x xs ih =>
    obtain ⟨s', child⟩ := x
    simp only [pathsL, List.mem_append, List.mem_map, not_or]
    exact ⟨by rintro ⟨q, _, he⟩; simp [consPath] at he, ih⟩

/-- the branch of `matchL` that belongs to one suffix -/
def branch (suf : Suf) (child : Node) (rem : Str) (vals : List Str) : Option (Key × List Str) :=
  match suf with
  | .const p =>
    (match stripPrefix p rem with
     | some rem' => matchN child rem' vals
     | none => if rem = [] ∧ p = ['/'] then matchN child rem vals else none)
  | .var => matchN child (takeSeg rem).2 (vals ++ [(takeSeg rem).1])
  | .all => (valueOf child).map (fun v => (v, vals ++ [rem]))

theorem matchL_isSome_of_mem {suf : Suf} {child : Node} {rem : Str} {vals : List Str} :
    ∀ {sufs : List (Suf × Node)}, (suf, child) ∈ sufs → (branch suf child rem vals).isSome →
      (matchL sufs rem vals).isSome := by
  intro sufs
  induction sufs with
  | nil => intro h; simp at h
  | cons x xs ih =>
    obtain ⟨s', c'⟩ := x
    intro hm hb
    simp only [List.mem_cons, Prod.mk.injEq] at hm
    have e : matchL ((s', c') :: xs) rem vals = first (branch s' c' rem vals) (matchL xs rem vals) := by
      cases s' <;> simp only [matchL, branch] <;> rfl
    rw [e]
    rcases hm with ⟨rfl, rfl⟩ | hm
    · exact first_isSome_left hb
    · exact first_isSome_right (ih hm hb)

theorem matchN_eq (value : Option Key) (sufs : List (Suf × Node)) (rem : Str) (vals : List Str) :
    matchN (.mk value sufs) rem vals =
      (match rem, value with | [], some v => some (v, vals) | _, _ => matchL sufs rem vals) := by
  simp only [matchN] <;> rfl

/-- the backtracking match finds a value on every string that some stored path reads -/
theorem match_complete : ∀ (path : List Suf) (node : Node) (k : Key) (vals : List Str) (rem : Str) (vals0 : List Str),
    (path, k) ∈ pathsN node → Reads path vals rem → (matchN node rem vals0).isSome := by
  intro path
  induction path with
  | nil =>
    intro node k vals rem vals0 hp hr
    cases hr
    obtain ⟨value, sufs⟩ := node
    simp only [pathsN, List.mem_append] at hp
    rcases hp with hp | hp
    · cases value with
      | none => simp at hp
      | some v => simp [matchN]
    · exact absurd hp nil_not_mem_pathsL
  | cons s p ih =>
    intro node k vals rem vals0 hp hr
    obtain ⟨value, sufs⟩ := node
    simp only [pathsN, List.mem_append] at hp
    have hp' : (s :: p, k) ∈ pathsL sufs := by
      rcases hp with hp | hp
      · cases value <;> simp at hp
      · exact hp
    obtain ⟨child, hc, hpc⟩ := mem_pathsL_cons hp'
    have hL : (matchL sufs rem vals0).isSome := by
      apply matchL_isSome_of_mem hc
      cases hr with
      | const pp hr' =>
        simp only [branch, stripPrefix_append]
        exact ih child k vals _ vals0 hpc hr'
      | var hv hs hr' =>
        simp only [branch, takeSeg_of_reads hv hs]
        exact ih child k _ _ _ hpc hr'
    rw [matchN_eq]
    split
    · simp
    · exact hL

/-! ### insertion creates the key's path and keeps every other path (possibly with a new value) -/

theorem mem_pathsL_of_mem {s : Suf} {child : Node} {q : List Suf × Key} : ∀ {sufs : List (Suf × Node)},
    (s, child) ∈ sufs → q ∈ pathsN child → consPath s q ∈ pathsL sufs := by
  intro sufs
  induction sufs with
  | nil => intro h; simp at h
  | cons x xs ih =>
    obtain ⟨s', c'⟩ := x
    intro hm hq
    simp only [List.mem_cons, Prod.mk.injEq] at hm
    simp only [pathsL, List.mem_append, List.mem_map]
    rcases hm with ⟨rfl, rfl⟩ | hm
    · exact Or.inl ⟨q, hq, rfl⟩
    · exact Or.inr (ih hm hq)

theorem insert_keeps :
    (∀ n toks k, ∀ p k1, (p, k1) ∈ pathsN n → ∃ k2, (p, k2) ∈ pathsN (insertN n toks k)) ∧
    (∀ l t ts k, ∀ p k1, (p, k1) ∈ pathsL l → ∃ k2, (p, k2) ∈ pathsL (updL l t ts k)) := by
  refine insertN.mutual_induct
    (motive_1 := fun n toks k => ∀ p k1, (p, k1) ∈ pathsN n → ∃ k2, (p, k2) ∈ pathsN (insertN n toks k))
    (motive_2 := fun l t ts k => ∀ p k1, (p, k1) ∈ pathsL l → ∃ k2, (p, k2) ∈ pathsL (updL l t ts k))
    ?c1 ?c2 ?c3 ?c4 ?c5 ?c6
  case c1 =>
    intro v sufs k p k1 h
    simp only [insertN, pathsN, List.mem_append] at h ⊢
    rcases h with h | h
    · cases v with
      | none => simp at h
      | some x => simp at h; exact ⟨k, Or.inl (by simp [h.1])⟩
    · exact ⟨k1, Or.inr h⟩
  case c2 =>
    intro v sufs t ts k hhas ih p k1 h
    simp only [insertN, hhas, if_true, pathsN, List.mem_append] at h ⊢
    rcases h with h | h
    · exact ⟨k1, Or.inl h⟩
    · obtain ⟨k2, h2⟩ := ih p k1 h
      exact ⟨k2, Or.inr h2⟩
  case c3 =>
    intro v sufs t ts k hhas p k1 h
    have e : insertN (.mk v sufs) (t :: ts) k = .mk v (insSorted (t, chain ts k) sufs) := by
      simp [insertN, hhas]
    rw [e]
    simp only [pathsN, List.mem_append] at h ⊢
    rcases h with h | h
    · exact ⟨k1, Or.inl h⟩
    · exact ⟨k1, Or.inr ((mem_paths_insSorted _ _ _).2 (Or.inr h))⟩
  case c4 => intro t ts k p k1 h; simp [pathsL] at h
  case c5 =>
    intro child rest t ts k ih p k1 h
    simp only [updL, if_true, pathsL, List.mem_append, List.mem_map] at h ⊢
    rcases h with ⟨q, hq, he⟩ | h
    · obtain ⟨q1, q2⟩ := q
      simp only [consPath, Prod.mk.injEq] at he
      obtain ⟨rfl, rfl⟩ := he
      obtain ⟨k2, h2⟩ := ih q1 q2 hq
      exact ⟨k2, Or.inl ⟨(q1, k2), h2, rfl⟩⟩
    · exact ⟨k1, Or.inr h⟩
  case c6 =>
    intro s child rest t ts k hne ih p k1 h
    simp only [updL, hne, if_false, pathsL, List.mem_append] at h ⊢
    rcases h with h | h
    · exact ⟨k1, Or.inl h⟩
    · obtain ⟨k2, h2⟩ := ih p k1 h
      exact ⟨k2, Or.inr h2⟩

theorem hasSuf_mem {t : Suf} : ∀ {sufs : List (Suf × Node)}, hasSuf t sufs = true → ∃ c, (t, c) ∈ sufs := by
  intro sufs h
  simp only [hasSuf, List.any_eq_true, decide_eq_true_eq] at h
  obtain ⟨⟨s, c⟩, hm, rfl⟩ := h
  exact ⟨c, hm⟩

theorem insert_adds :
    (∀ n toks k, (toks, k) ∈ pathsN (insertN n toks k)) ∧
    (∀ l t ts k, hasSuf t l = true → (t :: ts, k) ∈ pathsL (updL l t ts k)) := by
  refine insertN.mutual_induct
    (motive_1 := fun n toks k => (toks, k) ∈ pathsN (insertN n toks k))
    (motive_2 := fun l t ts k => hasSuf t l = true → (t :: ts, k) ∈ pathsL (updL l t ts k))
    ?c1 ?c2 ?c3 ?c4 ?c5 ?c6
  case c1 => intro v sufs k; simp [insertN, pathsN]
  case c2 =>
    intro v sufs t ts k hhas ih
    simp only [insertN, hhas, if_true, pathsN, List.mem_append]
    exact Or.inr (ih hhas)
  case c3 =>
    intro v sufs t ts k hhas
    have e : insertN (.mk v sufs) (t :: ts) k = .mk v (insSorted (t, chain ts k) sufs) := by
      simp [insertN, hhas]
    rw [e]
    simp only [pathsN, List.mem_append]
    refine Or.inr ((mem_paths_insSorted _ _ _).2 (Or.inl ?_))
    simp [pathsL, paths_chain, consPath]
  case c4 => intro t ts k h; simp [hasSuf] at h
  case c5 =>
    intro child rest t ts k ih _
    simp only [updL, if_true, pathsL, List.mem_append, List.mem_map]
    exact Or.inl ⟨(ts, k), ih, rfl⟩
  case c6 =>
    intro s child rest t ts k hne ih hhas
    simp only [updL, hne, if_false, pathsL, List.mem_append]
    refine Or.inr (ih ?_)
    simp only [hasSuf, List.any_cons, Bool.or_eq_true, decide_eq_true_eq] at hhas
    rcases hhas with h | h
    · exact absurd h hne
    · simpa [hasSuf] using h

theorem build_has_path (keys : List Key) : ∀ (root : Node),
    (∀ p k1, (p, k1) ∈ pathsN root → ∃ k2, (p, k2) ∈ pathsN (buildFrom root keys)) ∧
    (∀ k ∈ keys, ∃ k2, (k.sufs, k2) ∈ pathsN (buildFrom root keys)) := by
  induction keys with
  | nil => intro root; exact ⟨fun p k1 h => ⟨k1, h⟩, by simp⟩
  | cons k ks ih =>
    intro root
    obtain ⟨i1, i2⟩ := ih (insertN root k.sufs k)
    refine ⟨?_, ?_⟩
    · intro p k1 h
      obtain ⟨k2, h2⟩ := insert_keeps.1 root k.sufs k p k1 h
      exact i1 p k2 h2
    · intro k' hk'
      simp only [List.mem_cons] at hk'
      rcases hk' with rfl | hk'
      · exact i1 _ _ (insert_adds.1 root k'.sufs k')
      · exact i2 k' hk'

end KinModel.Router
