/-
Helper lemmas for C02 (not properties themselves): invariants of `resolve` / `foldRes` / `unvisit` / `finish`.
-/
import KinModel.Loader
namespace KinModel.Loader

theorem designates_mono (w : World) : ∀ (f : Nat) (o v : Obj), designates w f o = some v →
    ∀ g, f ≤ g → designates w g o = some v
  | 0, _, _, h, _, _ => by simp [designates] at h
  | f + 1, o, v, h, g, hg => by
    cases g with
    | zero => omega
    | succ g =>
      simp only [designates] at h ⊢
      cases hn : w.node o with
      | none => simp [hn] at h
      | some n =>
        simp only [hn] at h ⊢
        cases hr : n.ref with
        | none => simpa [hr] using h
        | some t =>
          simp only [hr] at h ⊢
          cases ht : w.target n.home t n.kind with
          | none => simp [ht] at h
          | some p =>
            obtain ⟨cx', tgt⟩ := p
            simp only [ht] at h ⊢
            cases htn : w.node tgt with
            | none => simp [htn] at h
            | some tn =>
              simp only [htn] at h ⊢
              by_cases hk : tn.kind = n.kind
              · simp only [hk, if_true] at h ⊢
                exact designates_mono w f tgt v h g (by omega)
              · simp [hk] at h

theorem get_mem (s : St) (o v : Obj) (h : s.get o = some v) : (o, v) ∈ s.value := by
  unfold St.get at h
  cases hf : s.value.find? (·.1 = o) with
  | none => simp [hf] at h
  | some p =>
    simp [hf] at h
    have hm := List.mem_of_find?_eq_some hf
    have hp := List.find?_some hf
    simp at hp
    obtain ⟨a, b⟩ := p
    simp at hp h; subst hp; subst h; exact hm

def Inv (w : World) (s : St) : Prop := Good w s ∧ PendingOK w s

/-- neither of the two events happened: no reference evaluated in a foreign context (F-C02-47), no callback fired
    for a reference whose own target differs from the visitor's (#29) -/
def Quiet (s : St) : Prop := s.foreign = false ∧ s.tclash = false

/-- a step never clears the event flags and, in runs that end with both flags clear, preserves the invariant -/
def Pres (w : World) (f : St → Res) : Prop :=
  ∀ s s', f s = .ok s' → Quiet s' → Quiet s ∧ (Inv w s → Inv w s')

theorem pres_foldRes (w : World) (f : Nat → St → Res) (hf : ∀ k, Pres w (f k)) :
    ∀ ks, Pres w (foldRes f ks)
  | [] => by intro s s' h hfl; simp [foldRes] at h; subst h; exact ⟨hfl, id⟩
  | k :: ks => by
    intro s s' h hfl
    simp only [foldRes] at h
    cases hk : f k s with
    | ok s1 =>
      simp only [hk] at h
      obtain ⟨h1, h2⟩ := pres_foldRes w f hf ks s1 s' h hfl
      obtain ⟨h3, h4⟩ := hf k s s1 hk h1
      exact ⟨h3, fun hi => h2 (h4 hi)⟩
    | err _ => simp [hk] at h
    | outOfFuel => simp [hk] at h

/-- the step that runs the backtrack callbacks: a callback that fires while `tclash` stays clear belongs to a
    reference whose own one-step target is the visitor's -/
theorem unvisit_inv (w : World) (t : Text) (n : Node) (tg : Option (Loc × Obj)) (v : Option Obj) (s s' : St)
    (hi : Inv w s) (htg : tg = w.target n.home t n.kind)
    (hv : ∀ v', v = some v' → ∃ cx' tgt tn f, w.target n.home t n.kind = some (cx', tgt) ∧ w.node tgt = some tn ∧
            tn.kind = n.kind ∧ designates w f tgt = some v')
    (h : unvisit w n.kind t tg v s = .ok s') (hq : s'.tclash = false) : Inv w s' := by
  obtain ⟨hg, hp⟩ := hi
  unfold unvisit at h
  cases v with
  | none =>
    simp only [Res.ok.injEq] at h; subst h
    refine ⟨hg, ?_⟩
    intro t' m hm
    simp only [List.mem_filter] at hm
    exact hp t' m hm.1
  | some v' =>
    simp only [Res.ok.injEq] at h; subst h
    simp only [Bool.or_eq_false_iff] at hq
    obtain ⟨cx', tgt, tn, f, ht, htn, hk, hd⟩ := hv v' rfl
    refine ⟨?_, ?_⟩
    · intro a b hab
      simp only [List.mem_append, List.mem_map, List.mem_filter] at hab
      rcases hab with hab | ⟨p, ⟨⟨hpm, hpt⟩, hfit⟩, hpe⟩
      · exact hg a b hab
      · obtain ⟨pt, pm⟩ := p
        simp only [Prod.mk.injEq] at hpe; obtain ⟨rfl, rfl⟩ := hpe
        have hpt' : pt = t := by simpa using hpt
        subst hpt'
        obtain ⟨nm, hnm, hrm⟩ := hp _ _ hpm
        have hkm : nm.kind = n.kind := by
          simpa [kindOf, hnm] using hfit
        -- the callback of `pm` fired and `tclash` stayed clear
        have hsame : homeTarget w pt pm = tg := by
          have hall := hq.2
          rw [List.any_eq_false] at hall
          have := hall (pt, pm) (by simp only [List.mem_filter]; exact ⟨⟨hpm, by simp⟩, hfit⟩)
          simpa using this
        have htm : w.target nm.home pt nm.kind = some (cx', tgt) := by
          have : homeTarget w pt pm = w.target nm.home pt nm.kind := by simp [homeTarget, hnm]
          rw [← this, hsame, htg]; exact ht
        have hk' : tn.kind = nm.kind := by rw [hk, hkm]
        exact ⟨f + 1, by simp [designates, hnm, hrm, htm, htn, hk', hd]⟩
    · intro t' m hm
      simp only [List.mem_filter] at hm
      exact hp t' m hm.1

theorem unvisit_quiet (w : World) (k : Kind) (t : Text) (tg : Option (Loc × Obj)) (v : Option Obj) (s s' : St)
    (h : unvisit w k t tg v s = .ok s') (hq : Quiet s') : Quiet s := by
  unfold unvisit at h
  cases v with
  | none => simp only [Res.ok.injEq] at h; subst h; exact hq
  | some v =>
    simp only [Res.ok.injEq] at h; subst h
    obtain ⟨h1, h2⟩ := hq
    simp only [Bool.or_eq_false_iff] at h2
    exact ⟨h1, h2.1⟩

/-- a copy (of a reference) designates what its original designates -/
theorem designates_copy (w : World) (hC : CopyOK w) (c r : Obj) (n : Node) (hn : w.node c = some n)
    (ho : n.orig = some r) (t : Text) (hrn : n.ref = some t) (f : Nat) (v : Obj)
    (h : designates w f r = some v) : designates w f c = some v := by
  obtain ⟨nr, hnr, h1, h2, h3⟩ := hC c n r hn ho
  cases f with
  | zero => simp [designates] at h
  | succ f =>
    have hrr : nr.ref = some t := by rw [h1]; exact hrn
    simp only [designates, hnr, hrr] at h
    simp only [designates, hn, hrn]
    rw [← h2, ← h3]
    exact h

theorem valueOf_designates (w : World) (hC : CopyOK w) (tgt : Obj) (tn : Node) (s : St) (v : Obj)
    (htn : w.node tgt = some tn) (hg : Good w s) (h : valueOf w tgt s = some v) :
    ∃ f, designates w f tgt = some v := by
  unfold valueOf at h
  cases hrt : tn.ref with
  | none =>
    simp [htn, hrt] at h; subst h
    exact ⟨1, by simp [designates, htn, hrt]⟩
  | some t' =>
    simp only [htn, Option.bind_some, hrt] at h
    unfold getC at h
    cases hg1 : s.get tgt with
    | some v1 =>
      simp only [hg1, Option.some.injEq] at h; subst h
      exact hg _ _ (get_mem _ _ _ hg1)
    | none =>
      simp only [hg1, htn, Option.bind_some] at h
      cases ho : tn.orig with
      | none => simp [ho] at h
      | some r =>
        simp only [ho, Option.bind_some] at h
        obtain ⟨f, hf⟩ := hg _ _ (get_mem _ _ _ h)
        exact ⟨f, designates_copy w hC tgt r tn htn ho t' hrt f v hf⟩

theorem pres_loadDoc (w : World) (rs : Loc → Nat → St → Res) (hrs : ∀ l k, Pres w (rs l k)) (d : Option Loc) :
    Pres w (loadDoc w rs d) := by
  intro s s' h hfl
  unfold loadDoc at h
  cases d with
  | none => simp at h; subst h; exact ⟨hfl, id⟩
  | some l =>
    simp only at h
    split at h
    · simp at h; subst h; exact ⟨hfl, id⟩
    · obtain ⟨h1, h2⟩ := pres_foldRes w (rs l) (hrs l) (w.roots l) _ s' h hfl
      exact ⟨h1, fun hi => h2 ⟨by simpa [Good] using hi.1, by simpa [PendingOK] using hi.2⟩⟩

theorem finish_inv (w : World) (rs : Nat → St → Res) (hrs : ∀ k, Pres w (rs k))
    (t : Text) (tg : Option (Loc × Obj)) (o : Obj) (n : Node) (rw : Bool) (v : Option Obj) (s s' : St)
    (hn : w.node o = some n) (hr : n.ref = some t)
    (h : finish w rs n.kind t tg o rw v s = .ok s') (hfl : Quiet s') :
    Quiet s ∧ (Inv w s → tg = w.target n.home t n.kind →
      (∀ v', v = some v' → ∃ cx' tgt tn f, w.target n.home t n.kind = some (cx', tgt) ∧ w.node tgt = some tn ∧
            tn.kind = n.kind ∧ designates w f tgt = some v') → Inv w s') := by
  unfold finish at h
  cases v with
  | none =>
    simp only at h
    refine ⟨unvisit_quiet w _ _ _ _ _ _ h hfl, fun hi htg _ => ?_⟩
    exact unvisit_inv w t n tg none s s' hi htg (by intro v' hv'; cases hv') h hfl.2
  | some v' =>
    simp only at h
    cases hf : foldRes rs (if rw = true then ((w.node v').map (·.kids)).getD [] else [])
        { s with value := s.value ++ [(o, v')] } with
    | err _ => simp [hf] at h
    | outOfFuel => simp [hf] at h
    | ok s2 =>
      simp only [hf] at h
      have hfl2 : Quiet s2 := unvisit_quiet w _ _ _ _ _ _ h hfl
      obtain ⟨h1, h2⟩ := pres_foldRes w rs hrs _ _ s2 hf hfl2
      refine ⟨h1, fun hi htg hv => ?_⟩
      obtain ⟨cx', tgt, tn, f, ht, htn, hk, hd⟩ := hv v' rfl
      have hi1 : Inv w { s with value := s.value ++ [(o, v')] } := by
        refine ⟨?_, by simpa [PendingOK] using hi.2⟩
        intro a b hab
        simp only [List.mem_append, List.mem_singleton, Prod.mk.injEq] at hab
        rcases hab with hab | ⟨rfl, rfl⟩
        · exact hi.1 a b hab
        · exact ⟨f + 1, by simp [designates, hn, hr, ht, htn, hk, hd]⟩
      exact unvisit_inv w t n tg (some v') s2 s' (h2 hi1) htg
        (by intro v'' hv''; cases hv''; exact ⟨cx', tgt, tn, f, ht, htn, hk, hd⟩) h hfl.2

theorem markDone_ok (o : Obj) (r : Res) (s' : St) (h : markDone o r = .ok s') :
    ∃ s4, r = .ok s4 ∧ s' = { s4 with done := s4.done ++ [o] } := by
  cases r with
  | ok s4 => simp only [markDone, Res.ok.injEq] at h; exact ⟨s4, rfl, h.symm⟩
  | err _ => simp [markDone] at h
  | outOfFuel => simp [markDone] at h

theorem inv_done (w : World) (s : St) (d : List Obj) (h : Inv w s) : Inv w { s with done := d } :=
  ⟨by simpa [Good] using h.1, by simpa [PendingOK] using h.2⟩

theorem pres_markDone (w : World) (o : Obj) (f : St → Res) (hf : Pres w f) : Pres w (fun s => markDone o (f s)) := by
  intro s s' h hfl
  cases hr : f s with
  | ok s1 =>
    simp only [hr, markDone, Res.ok.injEq] at h; subst h
    obtain ⟨a, b⟩ := hf s s1 hr hfl
    exact ⟨a, fun hi => by
      have := b hi
      exact ⟨by simpa [Good] using this.1, by simpa [PendingOK] using this.2⟩⟩
  | err _ => simp [hr, markDone] at h
  | outOfFuel => simp [hr, markDone] at h

/-- Invariant preservation of the whole resolution, by induction on fuel. -/
theorem resolve_pres (w : World) (hC : CopyOK w) : ∀ fuel cx o, Pres w (resolve w fuel cx o) := by
  intro fuel
  induction fuel with
  | zero => intro cx o s s' h; simp [resolve] at h
  | succ fuel ih =>
    intro cx o s s' h hfl
    simp only [resolve] at h
    cases hn : w.node o with
    | none => simp [hn] at h
    | some n =>
      simp only [hn] at h
      cases hr : n.ref with
      | none =>
        simp only [hr] at h
        exact pres_markDone w o _ (pres_foldRes w _ (fun k => ih cx k) _) s s' h hfl
      | some t =>
        simp only [hr] at h
        by_cases h1 : (getC w s o).isSome = true
        · rw [if_pos h1] at h
          exact pres_markDone w o (fun s => .ok s) (fun s s' h hf => by cases h; exact ⟨hf, id⟩) s s' h hfl
        · rw [if_neg h1] at h
          by_cases h2 : s.inprog.contains t = true
          · rw [if_pos h2] at h
            refine pres_markDone w o (fun s => .ok { s with pending := s.pending ++ [(t, o)], nback := s.nback + 1 }) ?_ s s' h hfl
            intro s s' h hfl
            simp only [Res.ok.injEq] at h; subst h
            refine ⟨hfl, fun hi => ⟨hi.1, ?_⟩⟩
            intro t' m hm
            simp only [List.mem_append, List.mem_singleton, Prod.mk.injEq] at hm
            rcases hm with hm | ⟨rfl, rfl⟩
            · exact hi.2 t' m hm
            · exact ⟨n, hn, hr⟩
          · rw [if_neg h2] at h
            cases hr1 : loadDoc w (fun l k s => resolve w fuel l k s) (w.docOf cx t)
                { s with inprog := s.inprog ++ [t], foreign := s.foreign || (cx != n.home) } with
            | err _ => simp [hr1] at h
            | outOfFuel => simp [hr1] at h
            | ok s2 =>
              simp only [hr1] at h
              have hL := pres_loadDoc w (fun l k s => resolve w fuel l k s) (fun l k => ih l k) (w.docOf cx t) _ s2 hr1
              have key : Quiet s2 ∧ (cx = n.home → Inv w s2 → Inv w s') := by
                by_cases hE : w.emptyTarget cx t n.kind = true
                · rw [if_pos hE] at h
                  simp only [markDone, Res.ok.injEq] at h; subst h
                  exact ⟨hfl, fun _ hi => ⟨by simpa [Good] using hi.1, by simpa [PendingOK] using hi.2⟩⟩
                rw [if_neg hE] at h
                cases ht : w.target cx t n.kind with
                | none => simp only [ht] at h; cases h
                | some p =>
                  obtain ⟨cx', tgt⟩ := p
                  simp only [ht] at h
                  cases htn : w.node tgt with
                  | none => simp [htn] at h
                  | some tn =>
                    simp only [htn] at h
                    by_cases hk : tn.kind = n.kind
                    · simp only [hk, ne_eq, not_true_eq_false, if_false] at h
                      cases hres : resolve w fuel cx' tgt s2 with
                      | err _ => simp [hres] at h
                      | outOfFuel => simp [hres] at h
                      | ok s3 =>
                        simp only [hres] at h
                        obtain ⟨s4, hfin, rfl⟩ := markDone_ok _ _ _ h
                        have hfl4 : Quiet s4 := hfl
                        obtain ⟨a, b⟩ := finish_inv w _ (fun k => ih _ k) t _ o n _ (valueOf w tgt s3) s3 s4 hn hr hfin hfl4
                        obtain ⟨c, d⟩ := ih cx' tgt s2 s3 hres a
                        refine ⟨c, fun hcx hi => inv_done w _ _ (b (d hi) (by rw [← hcx, ht]) (fun v' hv' => ?_))⟩
                        obtain ⟨f, hf⟩ := valueOf_designates w hC tgt tn s3 v' htn (d hi).1 hv'
                        exact ⟨cx', tgt, tn, f, hcx ▸ ht, htn, hk, hf⟩
                    · simp [hk] at h
              obtain ⟨k1, k2⟩ := key
              obtain ⟨l1, l2⟩ := hL k1
              have hsf : s.foreign = false ∧ cx = n.home := by
                have := l1.1
                simp only [Bool.or_eq_false_iff, bne_eq_false_iff_eq] at this
                exact this
              exact ⟨⟨hsf.1, l1.2⟩, fun hi => k2 hsf.2 (l2 ⟨by simpa [Good] using hi.1, by simpa [PendingOK] using hi.2⟩)⟩

end KinModel.Loader
