/-
Helper lemmas for C02 (not properties themselves): invariants of `resolve` / `foldRes` / `unvisit`.
-/
import KinModel.Loader
namespace KinModel.Loader

theorem designates_mono (w : World) : ∀ (f : Nat) (i v : Id), designates w f i = some v →
    ∀ g, f ≤ g → designates w g i = some v
  | 0, _, _, h, _, _ => by simp [designates] at h
  | f + 1, i, v, h, g, hg => by
    cases g with
    | zero => omega
    | succ g =>
      simp only [designates] at h ⊢
      cases hn : w.node i with
      | none => simp [hn] at h
      | some n =>
        simp only [hn] at h ⊢
        cases hr : n.ref with
        | none => simpa [hr] using h
        | some t =>
          simp only [hr] at h ⊢
          cases ht : w.target i.1 t with
          | none => simp [ht] at h
          | some tgt =>
            simp only [ht] at h ⊢
            cases htn : w.node tgt with
            | none => simp [htn] at h
            | some tn =>
              simp only [htn] at h ⊢
              by_cases hk : tn.kind = n.kind
              · simp only [hk, if_true] at h ⊢
                exact designates_mono w f tgt v h g (by omega)
              · simp [hk] at h

theorem get_mem (s : St) (i v : Id) (h : s.get i = some v) : (i, v) ∈ s.value := by
  unfold St.get at h
  cases hf : s.value.find? (·.1 = i) with
  | none => simp [hf] at h
  | some p =>
    simp [hf] at h
    have hm := List.mem_of_find?_eq_some hf
    have hp := List.find?_some hf
    simp at hp
    obtain ⟨a, b⟩ := p
    simp at hp h; subst hp; subst h; exact hm

theorem foldRes_inv (Inv : St → Prop) (f : Nat → St → Res)
    (hf : ∀ k s s', Inv s → f k s = .ok s' → Inv s') :
    ∀ ks s s', Inv s → foldRes f ks s = .ok s' → Inv s'
  | [], s, s', hi, h => by simp [foldRes] at h; subst h; exact hi
  | k :: ks, s, s', hi, h => by
    simp only [foldRes] at h
    cases hk : f k s with
    | ok s1 => simp only [hk] at h; exact foldRes_inv Inv f hf ks s1 s' (hf k s s1 hi hk) h
    | err => simp [hk] at h
    | panic => simp [hk] at h
    | outOfFuel => simp [hk] at h

/-- the step that runs the backtrack callbacks: this is where `TextIsGlobal` is needed -/
theorem unvisit_inv (w : World) (hT : TextIsGlobal w) (t : Text) (i : Id) (n : Node) (v : Option Id) (s s' : St)
    (hn : w.node i = some n) (hr : n.ref = some t)
    (hg : Good w s) (hp : PendingOK w s)
    (hv : ∀ v', v = some v' → ∃ tgt tn f, w.target i.1 t = some tgt ∧ w.node tgt = some tn ∧
            tn.kind = n.kind ∧ designates w f tgt = some v')
    (h : unvisit w n.kind t i v s = .ok s') : Good w s' ∧ PendingOK w s' := by
  unfold unvisit at h
  cases v with
  | none =>
    simp only [Res.ok.injEq] at h; subst h
    refine ⟨hg, ?_⟩
    intro t' m hm
    simp only [List.mem_filter] at hm
    exact hp t' m hm.1
  | some v' =>
    simp only at h
    split at h
    · cases h
    · rename_i hany
      simp only [Res.ok.injEq] at h; subst h
      obtain ⟨tgt, tn, f, ht, htn, hk, hd⟩ := hv v' rfl
      have hdi : designates w (f + 1) i = some v' := by
        simp [designates, hn, hr, ht, htn, hk, hd]
      refine ⟨?_, ?_⟩
      · intro a b hab
        simp only [List.mem_append, List.mem_cons, List.not_mem_nil, or_false, List.mem_map,
          List.mem_filter] at hab
        rcases hab with (hab | hab) | ⟨p, ⟨hpm, hpt⟩, hpe⟩
        · exact hg a b hab
        · simp only [Prod.mk.injEq] at hab; obtain ⟨rfl, rfl⟩ := hab; exact ⟨f + 1, hdi⟩
        · obtain ⟨pt, pm⟩ := p
          simp only [Prod.mk.injEq] at hpe; obtain ⟨rfl, rfl⟩ := hpe
          have hpt' : pt = t := by simpa using hpt
          subst hpt'
          obtain ⟨nm, hnm, hrm⟩ := hp _ _ hpm
          have hkm : nm.kind = n.kind := by
            have h1 : ¬ (kindOf w pm != some n.kind) = true := by
              intro hc
              apply hany
              simp only [List.any_eq_true, List.mem_filter]
              exact ⟨(pt, pm), ⟨hpm, by simp⟩, hc⟩
            simp [kindOf, hnm] at h1
            exact h1
          have htm : w.target pm.1 pt = some tgt := by rw [hT pm.1 i.1 pt]; exact ht
          exact ⟨f + 1, by simp [designates, hnm, hrm, htm, htn, hk, hkm, hd]⟩
      · intro t' m hm
        simp only [List.mem_filter] at hm
        exact hp t' m hm.1

theorem valueOf_designates (w : World) (tgt : Id) (tn : Node) (s : St) (v : Id)
    (htn : w.node tgt = some tn) (hg : Good w s) (h : valueOf w tgt s = some v) :
    ∃ f, designates w f tgt = some v := by
  unfold valueOf at h
  cases hrt : tn.ref with
  | none =>
    simp [htn, hrt] at h; subst h
    exact ⟨1, by simp [designates, htn, hrt]⟩
  | some t' =>
    simp [htn, hrt] at h
    exact hg _ _ (get_mem _ _ _ h)

/-- Invariant preservation of the whole resolution, by induction on fuel. -/
theorem resolve_inv (w : World) (hT : TextIsGlobal w) : ∀ fuel i s s',
    Good w s → PendingOK w s → resolve w fuel i s = .ok s' → Good w s' ∧ PendingOK w s' := by
  intro fuel
  induction fuel with
  | zero => intro i s s' _ _ h; simp [resolve] at h
  | succ fuel ih =>
    intro i s s' hg hp h
    have ihF : ∀ (l : Loc) ks s s', (Good w s ∧ PendingOK w s) →
        foldRes (fun k s => resolve w fuel (l, k) s) ks s = .ok s' → Good w s' ∧ PendingOK w s' :=
      fun l => foldRes_inv (fun s => Good w s ∧ PendingOK w s) _
        (fun k s s' hi hk => ih (l, k) s s' hi.1 hi.2 hk)
    simp only [resolve] at h
    cases hn : w.node i with
    | none => simp [hn] at h
    | some n =>
      simp only [hn] at h
      cases hr : n.ref with
      | none => simp only [hr] at h; exact ihF _ _ _ _ ⟨hg, hp⟩ h
      | some t =>
        simp only [hr] at h
        by_cases h1 : (s.get i).isSome = true
        · simp [h1] at h; subst h; exact ⟨hg, hp⟩
        · rw [if_neg h1] at h
          by_cases h2 : s.inprog.contains t = true
          · simp only [h2, if_true] at h; simp at h; subst h
            refine ⟨hg, ?_⟩
            intro t' m hm
            simp only [List.mem_append, List.mem_singleton, Prod.mk.injEq] at hm
            rcases hm with hm | ⟨rfl, rfl⟩
            · exact hp t' m hm
            · exact ⟨n, hn, hr⟩
          · rw [if_neg h2] at h
            -- the document load
            have hs1 : Good w { s with inprog := s.inprog ++ [t] } ∧ PendingOK w { s with inprog := s.inprog ++ [t] } :=
              ⟨by simpa [Good] using hg, by simpa [PendingOK] using hp⟩
            cases hr1 : loadDoc w (fun l k s => resolve w fuel (l, k) s) (w.docOf i.1 t) { s with inprog := s.inprog ++ [t] } with
            | err => simp [hr1] at h
            | panic => simp [hr1] at h
            | outOfFuel => simp [hr1] at h
            | ok s2 =>
              simp only [hr1] at h
              have hs2 : Good w s2 ∧ PendingOK w s2 := by
                unfold loadDoc at hr1
                cases hd : w.docOf i.1 t with
                | none => simp [hd] at hr1; subst hr1; exact hs1
                | some l =>
                  simp only [hd] at hr1
                  split at hr1
                  · simp at hr1; subst hr1; exact hs1
                  · exact ihF l _ _ _ ⟨by simpa [Good] using hg, by simpa [PendingOK] using hp⟩ hr1
              cases ht : w.target i.1 t with
              | none => simp [ht] at h
              | some tgt =>
                simp only [ht] at h
                cases htn : w.node tgt with
                | none => simp [htn] at h
                | some tn =>
                  simp only [htn] at h
                  by_cases hk : tn.kind = n.kind
                  · simp only [hk, ne_eq, not_true_eq_false, if_false] at h
                    by_cases hpi : n.kind = Kind.pathItem ∧ tn.ref.isSome = true
                    · -- path item whose target is itself a reference
                      rw [if_pos hpi] at h
                      refine unvisit_inv w hT t i n _ s2 s' hn hr hs2.1 hs2.2 ?_ h
                      intro v' hv'
                      exact ⟨tgt, tn, (hs2.1 _ _ (get_mem _ _ _ hv')).choose, ht, htn, hk,
                        (hs2.1 _ _ (get_mem _ _ _ hv')).choose_spec⟩
                    · rw [if_neg hpi] at h
                      cases hres : resolve w fuel tgt s2 with
                      | err => simp [hres] at h
                      | panic => simp [hres] at h
                      | outOfFuel => simp [hres] at h
                      | ok s3 =>
                        simp only [hres] at h
                        obtain ⟨hg3, hp3⟩ := ih tgt s2 s3 hs2.1 hs2.2 hres
                        refine unvisit_inv w hT t i n _ s3 s' hn hr hg3 hp3 ?_ h
                        intro v' hv'
                        obtain ⟨f, hf⟩ := valueOf_designates w tgt tn s3 v' htn hg3 hv'
                        exact ⟨tgt, tn, f, ht, htn, hk, hf⟩
                  · simp [hk] at h

end KinModel.Loader
