/-
Helper lemmas for C02 (not properties themselves): invariants of `resolve` / `foldRes` / `unvisit` / `finish`.
-/
import KinModel.Loader
namespace KinModel.Loader

theorem designates_mono (w : World) : ∀ (f : Nat) (o v : Obj), designates w f o = some v →
    ∀ g, f ≤ g → designates w g o = some v
  | 0, _, _, h, _, _ => by simp [designates] at h
  | f + 1, o, v, h, g, hg => by
    cases g with
    | zero => omega
    | succ g =>
      simp only [designates] at h ⊢
      cases hn : w.node o with
      | none => simp [hn] at h
      | some n =>
        simp only [hn] at h ⊢
        cases hr : n.ref with
        | none => simpa [hr] using h
        | some t =>
          simp only [hr] at h ⊢
          cases ht : w.target n.home t n.kind with
          | none => simp [ht] at h
          | some p =>
            obtain ⟨cx', tgt⟩ := p
            simp only [ht] at h ⊢
            cases htn : w.node tgt with
            | none => simp [htn] at h
            | some tn =>
              simp only [htn] at h ⊢
              by_cases hk : tn.kind = n.kind
              · simp only [hk, if_true] at h ⊢
                exact designates_mono w f tgt v h g (by omega)
              · simp [hk] at h

theorem get_mem (s : St) (o v : Obj) (h : s.get o = some v) : (o, v) ∈ s.value := by
  unfold St.get at h
  cases hf : s.value.find? (·.1 = o) with
  | none => simp [hf] at h
  | some p =>
    simp [hf] at h
    have hm := List.mem_of_find?_eq_some hf
    have hp := List.find?_some hf
    simp at hp
    obtain ⟨a, b⟩ := p
    simp at hp h; subst hp; subst h; exact hm

def Inv (w : World) (s : St) : Prop := Good w s ∧ PendingOK w s

/-- neither of the two events happened: no reference evaluated in a foreign context (F-C02-47), no callback fired
    for a reference whose own target differs from the visitor's (#29) -/
def Quiet (s : St) : Prop := s.foreign = false ∧ s.tclash = false

/-- a step never clears the event flags and, in runs that end with both flags clear, preserves the invariant —
    whether it returns nil or an error (the state an error leaves behind is what a later load starts from) -/
def Pres (w : World) (f : St → Res) : Prop :=
  ∀ s s', (f s).st? = some s' → Quiet s' → Quiet s ∧ (Inv w s → Inv w s')

theorem key_inj (k k' : Kind) (t t' : Nat) (h : key k t = key k' t') : k = k' ∧ t = t' := by
  unfold key at h
  cases k <;> cases k' <;> simp only [Kind.idx] at h
  all_goals first
    | exact ⟨rfl, by omega⟩
    | (exfalso; omega)

theorem pres_foldRes (w : World) (f : Nat → St → Res) (hf : ∀ k, Pres w (f k)) :
    ∀ ks, Pres w (foldRes f ks)
  | [] => by intro s s' h hfl; simp [foldRes, Res.st?] at h; subst h; exact ⟨hfl, id⟩
  | k :: ks => by
    intro s s' h hfl
    simp only [foldRes] at h
    cases hk : f k s with
    | ok s1 =>
      simp only [hk] at h
      obtain ⟨h1, h2⟩ := pres_foldRes w f hf ks s1 s' h hfl
      obtain ⟨h3, h4⟩ := hf k s s1 (by simp [hk, Res.st?]) h1
      exact ⟨h3, fun hi => h2 (h4 hi)⟩
    | err e s1 =>
      simp only [hk, Res.st?, Option.some.injEq] at h; subst h
      exact hf k s s1 (by simp [hk, Res.st?]) hfl
    | outOfFuel => simp [hk, Res.st?] at h

/-- the step that runs the backtrack callbacks: a callback that fires while `tclash` stays clear belongs to a
    reference whose own one-step target is the visitor's -/
theorem unvisit_inv (w : World) (t : Text) (n : Node) (tg : Option (Loc × Obj)) (v : Option Obj) (s s' : St)
    (hi : Inv w s) (htg : tg = w.target n.home t n.kind)
    (hv : ∀ v', v = some v' → ∃ cx' tgt tn f, w.target n.home t n.kind = some (cx', tgt) ∧ w.node tgt = some tn ∧
            tn.kind = n.kind ∧ designates w f tgt = some v')
    (h : unvisit w (key n.kind t) t tg v s = .ok s') (hq : s'.tclash = false) : Inv w s' := by
  obtain ⟨hg, hp⟩ := hi
  unfold unvisit at h
  cases v with
  | none =>
    simp only [Res.ok.injEq] at h; subst h
    refine ⟨hg, ?_⟩
    intro t' m hm
    simp only [List.mem_filter] at hm
    exact hp t' m hm.1
  | some v' =>
    simp only [Res.ok.injEq] at h; subst h
    simp only [Bool.or_eq_false_iff] at hq
    obtain ⟨cx', tgt, tn, f, ht, htn, hk, hd⟩ := hv v' rfl
    refine ⟨?_, ?_⟩
    · intro a b hab
      simp only [List.mem_append, List.mem_map, List.mem_filter] at hab
      rcases hab with hab | ⟨p, ⟨hpm, hpt⟩, hpe⟩
      · exact hg a b hab
      · obtain ⟨pt, pm⟩ := p
        simp only [Prod.mk.injEq] at hpe; obtain ⟨rfl, rfl⟩ := hpe
        have hpt' : pt = key n.kind t := by simpa using hpt
        obtain ⟨nm, tm, hnm, hrm, hkey⟩ := hp _ _ hpm
        obtain ⟨hkm, htm'⟩ := key_inj _ _ _ _ (hkey.symm.trans hpt')
        subst htm'
        -- the callback of `pm` fired and `tclash` stayed clear
        have hsame : homeTarget w tm pm = tg := by
          have hall := hq.2
          rw [List.any_eq_false] at hall
          have := hall (pt, pm) (by simp only [List.mem_filter]; exact ⟨hpm, by simpa using hpt'⟩)
          simpa using this
        have htm : w.target nm.home tm nm.kind = some (cx', tgt) := by
          have : homeTarget w tm pm = w.target nm.home tm nm.kind := by simp [homeTarget, hnm]
          rw [← this, hsame, htg]; exact ht
        have hk' : tn.kind = nm.kind := by rw [hk, hkm]
        have hne : nm.empty = false ∨ True := Or.inr trivial
        exact ⟨f + 1, by simp [designates, hnm, hrm, htm, htn, hk', hd]⟩
    · intro t' m hm
      simp only [List.mem_filter] at hm
      exact hp t' m hm.1

theorem unvisit_quiet (w : World) (kt : Nat) (t : Text) (tg : Option (Loc × Obj)) (v : Option Obj) (s s' : St)
    (h : unvisit w kt t tg v s = .ok s') (hq : Quiet s') : Quiet s := by
  unfold unvisit at h
  cases v with
  | none => simp only [Res.ok.injEq] at h; subst h; exact hq
  | some v =>
    simp only [Res.ok.injEq] at h; subst h
    obtain ⟨h1, h2⟩ := hq
    simp only [Bool.or_eq_false_iff] at h2
    exact ⟨h1, h2.1⟩

theorem unvisit_isOk (w : World) (kt : Nat) (t : Text) (tg : Option (Loc × Obj)) (v : Option Obj) (s : St) :
    ∃ s', unvisit w kt t tg v s = .ok s' := by
  unfold unvisit; cases v <;> exact ⟨_, rfl⟩

/-- whatever the walk of the children returned, the deferred `unvisitRef` ran on the state it left -/
theorem unvisitThen_st (w : World) (kt : Nat) (t : Text) (tg : Option (Loc × Obj)) (v : Obj) (r : Res) (s' : St)
    (h : (unvisitThen w kt t tg v r).st? = some s') :
    ∃ s2, r.st? = some s2 ∧ unvisit w kt t tg (some v) { s2 with walking := s2.walking.tail } = .ok s' := by
  cases r with
  | ok s2 =>
    obtain ⟨s3, h3⟩ := unvisit_isOk w kt t tg (some v) { s2 with walking := s2.walking.tail }
    simp only [unvisitThen, h3, Res.st?, Option.some.injEq] at h; subst h
    exact ⟨s2, rfl, h3⟩
  | err e s2 =>
    obtain ⟨s3, h3⟩ := unvisit_isOk w kt t tg (some v) { s2 with walking := s2.walking.tail }
    simp only [unvisitThen, h3, Res.st?, Option.some.injEq] at h; subst h
    exact ⟨s2, rfl, h3⟩
  | outOfFuel => simp [unvisitThen, Res.st?] at h

/-- a copy (of a reference) designates what its original designates -/
theorem designates_copy (w : World) (hC : CopyOK w) (c r : Obj) (n : Node) (hn : w.node c = some n)
    (ho : n.orig = some r) (t : Text) (hrn : n.ref = some t) (f : Nat) (v : Obj)
    (h : designates w f r = some v) : designates w f c = some v := by
  obtain ⟨nr, hnr, h1, h2, h3⟩ := hC c n r hn ho
  cases f with
  | zero => simp [designates] at h
  | succ f =>
    have hrr : nr.ref = some t := by rw [h1]; exact hrn
    simp only [designates, hnr, hrr] at h
    simp only [designates, hn, hrn]
    rw [← h2, ← h3]
    exact h

theorem valueOf_designates (w : World) (hC : CopyOK w) (tgt : Obj) (tn : Node) (s : St) (v : Obj)
    (htn : w.node tgt = some tn) (hte : tn.empty = false) (hg : Good w s) (h : valueOf w tgt s = some v) :
    ∃ f, designates w f tgt = some v := by
  unfold valueOf at h
  cases hrt : tn.ref with
  | none =>
    simp [htn, hrt] at h; subst h
    exact ⟨1, by simp [designates, htn, hrt, hte]⟩
  | some t' =>
    simp only [htn, Option.bind_some, hrt] at h
    unfold getC at h
    cases hg1 : s.get tgt with
    | some v1 =>
      simp only [hg1, Option.some.injEq] at h; subst h
      exact hg _ _ (get_mem _ _ _ hg1)
    | none =>
      simp only [hg1, htn, Option.bind_some] at h
      cases ho : tn.orig with
      | none => simp [ho] at h
      | some r =>
        simp only [ho, Option.bind_some] at h
        obtain ⟨f, hf⟩ := hg _ _ (get_mem _ _ _ h)
        exact ⟨f, designates_copy w hC tgt r tn htn ho t' hrt f v hf⟩

theorem pres_loadDoc (w : World) (rs : Loc → Nat → St → Res) (hrs : ∀ l k, Pres w (rs l k)) (d : Option Loc) :
    Pres w (loadDoc w rs d) := by
  intro s s' h hfl
  unfold loadDoc at h
  cases d with
  | none => simp [Res.st?] at h; subst h; exact ⟨hfl, id⟩
  | some l =>
    simp only at h
    split at h
    · simp only [Res.st?, Option.some.injEq] at h; subst h
      exact ⟨hfl, fun hi => ⟨by simpa [Good] using hi.1, by simpa [PendingOK] using hi.2⟩⟩
    · have h' : (foldRes (rs l) (w.roots l) { s with docs := s.docs ++ [l] }).st? = some s' := by
        cases hf : foldRes (rs l) (w.roots l) { s with docs := s.docs ++ [l] } with
        | ok _ => simpa [hf, wrapErr] using h
        | err _ _ => simpa [hf, wrapErr, Res.st?] using h
        | outOfFuel => simp [hf, wrapErr, Res.st?] at h
      obtain ⟨h1, h2⟩ := pres_foldRes w (rs l) (hrs l) (w.roots l) _ s' h' hfl
      exact ⟨h1, fun hi => h2 ⟨by simpa [Good] using hi.1, by simpa [PendingOK] using hi.2⟩⟩

theorem finish_inv (w : World) (rs : Nat → St → Res) (hrs : ∀ k, Pres w (rs k))
    (t : Text) (tg : Option (Loc × Obj)) (o : Obj) (n : Node) (v : Option Obj) (s s' : St)
    (hn : w.node o = some n) (hr : n.ref = some t)
    (h : (finish w rs (key n.kind t) t tg o v s).st? = some s') (hfl : Quiet s') :
    Quiet s ∧ (Inv w s → tg = w.target n.home t n.kind →
      (∀ v', v = some v' → ∃ cx' tgt tn f, w.target n.home t n.kind = some (cx', tgt) ∧ w.node tgt = some tn ∧
            tn.kind = n.kind ∧ designates w f tgt = some v') → Inv w s') := by
  unfold finish at h
  cases v with
  | none =>
    simp only at h
    obtain ⟨s3, h3⟩ := unvisit_isOk w (key n.kind t) t tg none s
    simp only [h3, Res.st?, Option.some.injEq] at h; subst h
    refine ⟨unvisit_quiet w _ _ _ _ _ _ h3 hfl, fun hi htg _ => ?_⟩
    exact unvisit_inv w t n tg none s s3 hi htg (by intro v' hv'; cases hv') h3 hfl.2
  | some v' =>
    simp only at h
    obtain ⟨s2, hf, hu⟩ := unvisitThen_st w _ _ _ _ _ _ h
    have hfl2 : Quiet s2 := (unvisit_quiet w _ _ _ _ _ _ hu hfl : Quiet { s2 with walking := s2.walking.tail })
    obtain ⟨h1, h2⟩ := hrs v' _ s2 hf hfl2
    refine ⟨h1, fun hi htg hv => ?_⟩
    obtain ⟨cx', tgt, tn, f, ht, htn, hk, hd⟩ := hv v' rfl
    have hi1 : Inv w { s with value := s.value ++ [(o, v')], walking := v' :: s.walking } := by
      refine ⟨?_, by simpa [PendingOK] using hi.2⟩
      intro a b hab
      simp only [List.mem_append, List.mem_singleton, Prod.mk.injEq] at hab
      rcases hab with hab | ⟨rfl, rfl⟩
      · exact hi.1 a b hab
      · exact ⟨f + 1, by simp [designates, hn, hr, ht, htn, hk, hd]⟩
    have hi2 : Inv w { s2 with walking := s2.walking.tail } := by
      have := h2 hi1
      exact ⟨by simpa [Good] using this.1, by simpa [PendingOK] using this.2⟩
    exact unvisit_inv w t n tg (some v') _ s' hi2 htg
      (by intro v'' hv''; cases hv''; exact ⟨cx', tgt, tn, f, ht, htn, hk, hd⟩) hu hfl.2

theorem inv_done (w : World) (s : St) (d : List Obj) (h : Inv w s) : Inv w { s with done := d } :=
  ⟨by simpa [Good] using h.1, by simpa [PendingOK] using h.2⟩

/-- `markDone` changes nothing but the instrumentation -/
theorem markDone_st (o : Obj) (r : Res) (s' : St) (h : (markDone o r).st? = some s') :
    ∃ s4, r.st? = some s4 ∧ (s' = s4 ∨ s' = { s4 with done := s4.done ++ [o] }) := by
  cases r with
  | ok s4 => simp only [markDone, Res.st?, Option.some.injEq] at h; exact ⟨s4, rfl, Or.inr h.symm⟩
  | err e s4 => simp only [markDone, Res.st?, Option.some.injEq] at h; exact ⟨s4, rfl, Or.inl h.symm⟩
  | outOfFuel => simp [markDone, Res.st?] at h

theorem pres_markDone (w : World) (o : Obj) (f : St → Res) (hf : Pres w f) : Pres w (fun s => markDone o (f s)) := by
  intro s s' h hfl
  obtain ⟨s4, h4, hs'⟩ := markDone_st o (f s) s' h
  rcases hs' with rfl | rfl
  · exact hf s _ h4 hfl
  · obtain ⟨a, b⟩ := hf s s4 h4 hfl
    exact ⟨a, fun hi => inv_done w _ _ (b hi)⟩

/-- the three ways through the optional recursive call -/
theorem preResolve_st (pre : Bool) (r : Unit → Res) (s2 : St) (cont : St → Res) (s' : St)
    (h : (preResolve pre r s2 cont).st? = some s') :
    (pre = false ∧ (cont s2).st? = some s') ∨
    (pre = true ∧ ∃ s3, r () = .ok s3 ∧ (cont s3).st? = some s') ∨
    (pre = true ∧ ∃ e, r () = .err e s') := by
  unfold preResolve at h
  cases pre with
  | false => exact Or.inl ⟨rfl, by simpa using h⟩
  | true =>
    simp only [if_true] at h
    cases hr : r () with
    | ok s3 => simp only [hr] at h; exact Or.inr (Or.inl ⟨rfl, s3, rfl, h⟩)
    | outOfFuel => simp [hr, Res.st?] at h
    | err e s3 =>
      simp only [hr, Res.st?, Option.some.injEq] at h; subst h
      exact Or.inr (Or.inr ⟨rfl, e, rfl⟩)

/-- Invariant preservation of the whole resolution, by induction on fuel. -/
theorem resolve_pres (w : World) (hC : CopyOK w) : ∀ fuel cx o, Pres w (resolve w fuel cx o) := by
  intro fuel
  induction fuel with
  | zero => intro cx o s s' h; simp [resolve, Res.st?] at h
  | succ fuel ih =>
    intro cx o s s' h hfl
    simp only [resolve] at h
    cases hn : w.node o with
    | none => simp only [hn, Res.st?, Option.some.injEq] at h; subst h; exact ⟨hfl, id⟩
    | some n =>
      simp only [hn] at h
      by_cases hemp : n.empty = true
      · rw [if_pos hemp] at h
        simp only [Res.st?, Option.some.injEq] at h; subst h; exact ⟨hfl, id⟩
      rw [if_neg hemp] at h
      have hne : n.empty = false := by simpa using hemp
      cases hr : n.ref with
      | none =>
        simp only [hr] at h
        exact pres_markDone w o _ (pres_foldRes w _ (fun k => ih cx k) _) s s' h hfl
      | some t =>
        simp only [hr] at h
        by_cases h1 : (getC w s o).isSome = true
        · rw [if_pos h1] at h
          exact pres_markDone w o (fun s => .ok s) (fun s s' h hf => by
            simp only [Res.st?, Option.some.injEq] at h; subst h; exact ⟨hf, id⟩) s s' h hfl
        · rw [if_neg h1] at h
          by_cases h2 : s.inprog.contains (key n.kind t) = true
          · rw [if_pos h2] at h
            refine pres_markDone w o (fun s => .ok { s with pending := s.pending ++ [(key n.kind t, o)], nback := s.nback + 1 }) ?_ s s' h hfl
            intro s s' h hfl
            simp only [Res.st?, Option.some.injEq] at h; subst h
            refine ⟨hfl, fun hi => ⟨hi.1, ?_⟩⟩
            intro t' m hm
            simp only [List.mem_append, List.mem_singleton, Prod.mk.injEq] at hm
            rcases hm with hm | ⟨rfl, rfl⟩
            · exact hi.2 t' m hm
            · exact ⟨n, t, hn, hr, rfl⟩
          · rw [if_neg h2] at h
            -- everything after `visitRef`: from the state `s1`, in the home context
            have hL := pres_loadDoc w (fun l k s => resolve w fuel l k s) (fun l k => ih l k) (w.docOf cx t)
              { s with inprog := s.inprog ++ [key n.kind t], foreign := s.foreign || (cx != n.home) }
            have key' : ∀ s2, (loadDoc w (fun l k s => resolve w fuel l k s) (w.docOf cx t)
                { s with inprog := s.inprog ++ [key n.kind t], foreign := s.foreign || (cx != n.home) }).st? = some s2 →
                Quiet s2 → (cx = n.home → Inv w s2 → Inv w s') → Quiet s ∧ (Inv w s → Inv w s') := by
              intro s2 hl hq2 hk2
              obtain ⟨l1, l2⟩ := hL s2 hl hq2
              have hsf : s.foreign = false ∧ cx = n.home := by
                have := l1.1
                simp only [Bool.or_eq_false_iff, bne_eq_false_iff_eq] at this
                exact this
              exact ⟨⟨hsf.1, l1.2⟩, fun hi => hk2 hsf.2 (l2 ⟨by simpa [Good] using hi.1, by simpa [PendingOK] using hi.2⟩)⟩
            cases hr1 : loadDoc w (fun l k s => resolve w fuel l k s) (w.docOf cx t)
                { s with inprog := s.inprog ++ [key n.kind t], foreign := s.foreign || (cx != n.home) } with
            | outOfFuel => simp [hr1, Res.st?] at h
            | err e s2 =>
              simp only [hr1, Res.st?, Option.some.injEq] at h; subst h
              exact key' s2 (by simp [hr1, Res.st?]) hfl (fun _ hi => hi)
            | ok s2 =>
              simp only [hr1] at h
              have hl : (loadDoc w (fun l k s => resolve w fuel l k s) (w.docOf cx t)
                { s with inprog := s.inprog ++ [key n.kind t], foreign := s.foreign || (cx != n.home) }).st? = some s2 := by
                simp [hr1, Res.st?]
              -- the error exits that leave the state `s2`
              have exit2 : s' = s2 → Quiet s ∧ (Inv w s → Inv w s') := by
                intro he; subst he; exact key' _ hl hfl (fun _ hi => hi)
              by_cases hE : w.emptyTarget cx t n.kind = true
              · rw [if_pos hE] at h
                simp only [markDone, Res.st?, Option.some.injEq] at h; subst h
                exact key' s2 hl hfl (fun _ hi => ⟨by simpa [Good] using hi.1, by simpa [PendingOK] using hi.2⟩)
              rw [if_neg hE] at h
              cases ht : w.target cx t n.kind with
              | none => simp only [ht, Res.st?, Option.some.injEq] at h; exact exit2 h.symm
              | some p =>
                obtain ⟨cx', tgt⟩ := p
                simp only [ht] at h
                cases htn : w.node tgt with
                | none => simp only [htn, Res.st?, Option.some.injEq] at h; exact exit2 h.symm
                | some tn =>
                  simp only [htn] at h
                  by_cases hk : tn.kind = n.kind
                  · simp only [hk, ne_eq, not_true_eq_false, if_false] at h
                    by_cases hte' : tn.empty = true
                    · rw [if_pos hte'] at h
                      simp only [Res.st?, Option.some.injEq] at h; exact exit2 h.symm
                    rw [if_neg hte'] at h
                    have hte : tn.empty = false := by simpa using hte'
                    -- the continuation after the (optional) recursive call, from a state s3 reached from s2
                    have cont : ∀ s3, (Inv w s2 → Inv w s3) → (Quiet s3 → Quiet s2) →
                        (markDone o (finish w (fun k s => resolve w fuel
                            (if (w.fragment cx t n.kind && !decide (n.kind = Kind.pathItem)) = true then cx else cx') k s)
                          (key n.kind t) t (some (cx', tgt)) o (valueOf w tgt s3) s3)).st? = some s' →
                        Quiet s ∧ (Inv w s → Inv w s') := by
                      intro s3 h23 hq32 hfin
                      obtain ⟨s4, hfin4, hs'⟩ := markDone_st _ _ _ hfin
                      have hq4 : Quiet s4 := by rcases hs' with rfl | rfl <;> exact hfl
                      obtain ⟨a, b⟩ := finish_inv w _ (fun k => ih _ k) t _ o n (valueOf w tgt s3) s3 s4 hn hr hfin4 hq4
                      refine key' s2 hl (hq32 a) (fun hcx hi => ?_)
                      have hi4 : Inv w s4 := b (h23 hi) (by rw [← hcx, ht]) (fun v' hv' => by
                        obtain ⟨f, hf⟩ := valueOf_designates w hC tgt tn s3 v' htn hte (h23 hi).1 hv'
                        exact ⟨cx', tgt, tn, f, hcx ▸ ht, htn, hk, hf⟩)
                      rcases hs' with rfl | rfl
                      · exact hi4
                      · exact inv_done w _ _ hi4
                    rcases preResolve_st _ _ _ _ _ h with ⟨_, hc⟩ | ⟨_, s3, hres, hc⟩ | ⟨_, e, hres⟩
                    · exact cont s2 id id hc
                    · have hI := ih cx' tgt s2 s3 (by simp [hres, Res.st?])
                      have hq3 : Quiet s3 := by
                        obtain ⟨s4, hfin4, hs'⟩ := markDone_st _ _ _ hc
                        have hq4 : Quiet s4 := by rcases hs' with rfl | rfl <;> exact hfl
                        exact (finish_inv w _ (fun k => ih _ k) t _ o n (valueOf w tgt s3) s3 s4 hn hr hfin4 hq4).1
                      exact cont s3 (fun hi => (hI hq3).2 hi) (fun hq => (hI hq).1) hc
                    · obtain ⟨q2, i2⟩ := ih cx' tgt s2 s' (by simp [hres, Res.st?]) hfl
                      exact key' s2 hl q2 (fun _ hi => i2 hi)
                  · simp only [ne_eq, hk, not_false_eq_true, if_true, Res.st?, Option.some.injEq] at h
                    exact exit2 h.symm

end KinModel.Loader
