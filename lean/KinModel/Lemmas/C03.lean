/-
C03 — helper lemmas for the generic marshal/unmarshal model (KinModel/Marshal.lean): lookups in the
marshalled object, the closed-form characterisation `flatSpec` of one flat round trip, and the facts about
guard classes and type classes that `compat` / `compatW` stand for.
-/
import KinModel.Marshal
namespace KinModel.Marshal

theorem lookup_append (k : String) (a b : Obj) :
    lookup k (a ++ b) = (lookup k a).orElse (fun _ => lookup k b) := by
  induction a with
  | nil => simp [lookup]
  | cons kv r ih => obtain ⟨k', v⟩ := kv; simp only [List.cons_append, lookup]; split <;> simp [ih]

theorem lookup_filter (k : String) (p : String → Bool) (o : Obj) :
    lookup k (o.filter (fun kv => p kv.1)) = if p k then lookup k o else none := by
  induction o with
  | nil => simp [lookup]
  | cons kv r ih =>
    obtain ⟨k', v⟩ := kv
    by_cases hp : p k' = true
    · simp only [List.filter_cons, hp, if_true, lookup]
      by_cases e : k = k'
      · subst e; simp [hp]
      · simp [e, ih]
    · simp only [List.filter_cons, hp, lookup]
      by_cases e : k = k'
      · subst e; simp [hp, ih]
      · simp [e, ih]

theorem find_none_of_not_mem (k : String) : ∀ (ms : List MField), k ∉ ms.map (·.key) →
    ms.find? (fun m => m.key == k) = none
  | [], _ => rfl
  | m :: ms, h => by
    simp only [List.map_cons, List.mem_cons, not_or] at h
    have : (m.key == k) = false := by simp; exact fun e => h.1 e.symm
    simp [this, find_none_of_not_mem k ms h.2]

theorem lookup_emit_none (d : Desc) (r : Rec) (k : String) : ∀ (ms : List MField), k ∉ ms.map (·.key) →
    lookup k (ms.filterMap (emit (fun _ v => v) d r)) = none
  | [], _ => rfl
  | m :: ms, h => by
    simp only [List.map_cons, List.mem_cons, not_or] at h
    simp only [List.filterMap_cons, emit]
    split
    · exact lookup_emit_none d r k ms h.2
    · rename_i a heq
      split at heq
      · cases heq; simp [lookup, h.1, lookup_emit_none d r k ms h.2]
      · cases heq

/-- what a lookup in the written fields finds -/
theorem lookup_emit (d : Desc) (r : Rec) (k : String) : ∀ (ms : List MField), (ms.map (·.key)).Nodup →
    lookup k (ms.filterMap (emit (fun _ v => v) d r)) =
      (match ms.find? (fun m => m.key == k) with
       | some m => if guard (tcOfGo d m.goName) m.guard (r.fld m.goName) then some (written m.guard (r.fld m.goName)) else none
       | none => none)
  | [], _ => rfl
  | m :: ms, hn => by
    simp only [List.map_cons, List.nodup_cons] at hn
    by_cases e : m.key = k
    · have hb : (m.key == k) = true := by simp [e]
      simp only [List.find?_cons, hb, List.filterMap_cons, emit]
      by_cases hg : guard (tcOfGo d m.goName) m.guard (r.fld m.goName) = true
      · simp [hg, lookup, e]
      · simp only [hg]
        exact lookup_emit_none d r k ms (e ▸ hn.1)
    · have hb : (m.key == k) = false := by simp [e]
      simp only [List.find?_cons, hb, List.filterMap_cons, emit]
      by_cases hg : guard (tcOfGo d m.goName) m.guard (r.fld m.goName) = true
      · simp only [hg, if_true, lookup]
        have : ¬ k = m.key := fun h => e h.symm
        simp only [this, if_false]
        exact lookup_emit d r k ms hn.2
      · simp only [hg]
        exact lookup_emit d r k ms hn.2

/-! ### closed form of one flat round trip -/

/-- value of Go field `g` after unmarshalling `o` -/
def fldVal (d : Desc) (o : Obj) (g : String) : JV :=
  match fieldByGo d g with
  | some f => decode f.tc (lookup f.key o)
  | none => .null

/-- the `$ref` early return of the marshaller is taken after unmarshalling `o` -/
def refTaken (d : Desc) (o : Obj) : Bool := d.refEarly && !(fldVal d o "Ref").isEmptyStr

def flatSpec (d : Desc) (o : Obj) (k : String) : Option JV :=
  if refTaken d o then (if k = "$ref" then some (fldVal d o "Ref") else none)
  else
    match d.marsh.find? (fun m => m.key == k) with
    | some m => if guard (tcOfGo d m.goName) m.guard (fldVal d o m.goName) then some (written m.guard (fldVal d o m.goName))
                else (if k ∈ d.dels then none else lookup k o)
    | none => if k ∈ d.dels then none else lookup k o

theorem flatSpec_ref (d : Desc) (o : Obj) (k : String) (hr : refTaken d o = true) :
    flatSpec d o k = if k = "$ref" then some (fldVal d o "Ref") else none := by
  simp [flatSpec, hr]

theorem flatSpec_none (d : Desc) (o : Obj) (k : String) (hr : refTaken d o = false)
    (hf : d.marsh.find? (fun m => m.key == k) = none) :
    flatSpec d o k = if k ∈ d.dels then none else lookup k o := by
  simp [flatSpec, hr, hf]

theorem flatSpec_some (d : Desc) (o : Obj) (k : String) (m : MField) (hr : refTaken d o = false)
    (hf : d.marsh.find? (fun m => m.key == k) = some m) :
    flatSpec d o k =
      if guard (tcOfGo d m.goName) m.guard (fldVal d o m.goName) then some (written m.guard (fldVal d o m.goName))
      else (if k ∈ d.dels then none else lookup k o) := by
  simp [flatSpec, hr, hf]

theorem flatRT_lookup (d : Desc) (o : Obj) (k : String)
    (hx : d.extCopy = true) (hu : d.unmExt = true) (ha : d.assignBack = true)
    (hn : (marshKeys d).Nodup) :
    lookup k (flatRT d o) = flatSpec d o k := by
  have hf : ∀ g, (unmarshal d o).fld g = fldVal d o g := by
    intro g; simp only [unmarshal, ha, if_true, fldVal]; cases fieldByGo d g <;> rfl
  have he : (unmarshal d o).ext = o.filter (fun kv => !(d.dels.contains kv.1)) := by
    simp [unmarshal, ha, hu]
  unfold flatRT marshal marshalWith flatSpec refTaken
  rw [hf "Ref"]
  by_cases ht : (d.refEarly && !(fldVal d o "Ref").isEmptyStr) = true
  · simp only [ht, if_true, lookup]
  · simp only [ht, hx, if_true]
    have hff : (false = true) = False := by simp
    simp only [hff, if_false]
    rw [lookup_append, lookup_emit d _ k d.marsh hn, he,
        lookup_filter k (fun k => !(d.dels.contains k)) o]
    cases hfind : d.marsh.find? (fun m => m.key == k) with
    | none => by_cases hc : k ∈ d.dels <;> simp [hc, Option.orElse]
    | some m =>
      simp only [hf]
      by_cases hg : guard (tcOfGo d m.goName) m.guard (fldVal d o m.goName) = true
      · simp [hg, Option.orElse]
      · simp only [hg]
        by_cases hc : k ∈ d.dels <;> simp [hc, Option.orElse]

/-! ### what the guard classes mean for the type classes -/

/-- only defaults are omitted -/
theorem compat_keeps (tc : TC) (g : Guard) (v : JV) (h : compat tc g = true)
    (hd : isDefault tc v = false) : guard tc g v = true := by
  cases tc <;> cases g <;> simp [compat] at h <;>
    cases v <;> simp_all [isDefault, guard, JV.isNull, JV.isEmptyStr, JV.isFalse, JV.isZeroNum, JV.isEmptyColl]

/-- a non-default value is what the decoder stores -/
theorem decode_of_not_default (tc : TC) (v : JV) (hd : isDefault tc v = false) :
    decode tc (some v) = v := by
  cases v <;> simp_all [isDefault, decode, JV.isNull]

/-- a non-default value is written as it is -/
theorem written_of_not_default (tc : TC) (g : Guard) (v : JV) (hd : isDefault tc v = false) :
    written g v = v := by
  cases v <;> cases g <;> simp_all [isDefault, written, JV.isNull]

/-- a zero value is written only by an unconditional write -/
theorem compat_zero (tc : TC) (g : Guard) (h : compat tc g = true)
    (hz : guard tc g (zero tc) = true) : g.uncond = true := by
  cases tc <;> cases g <;> simp [compat] at h <;>
    simp_all [guard, zero, Guard.uncond, JV.isNull, JV.isEmptyStr, JV.isFalse, JV.isZeroNum, JV.isEmptyColl]

/-- what is written is read back unchanged, passes the guard again and is written unchanged again -/
theorem compat_stable (tc : TC) (g : Guard) (x : Option JV) (h : compat tc g = true)
    (hg : guard tc g (decode tc x) = true) :
    decode tc (some (written g (decode tc x))) = written g (decode tc x) ∧
    guard tc g (written g (decode tc x)) = true ∧
    written g (written g (decode tc x)) = written g (decode tc x) := by
  cases x with
  | none =>
    cases tc <;> cases g <;> simp [compat] at h <;>
      simp_all [guard, decode, zero, written, JV.isNull, JV.isEmptyStr, JV.isFalse, JV.isZeroNum, JV.isEmptyColl]
  | some v =>
    cases tc <;> cases g <;> simp [compat] at h <;> cases v <;>
      simp_all [guard, decode, zero, written, JV.isNull, JV.isEmptyStr, JV.isFalse, JV.isZeroNum, JV.isEmptyColl]

/-- what is omitted stays omitted when it comes back as the zero value -/
theorem compat_omitted (tc : TC) (g : Guard) (v : JV) (h : compat tc g = true)
    (hg : guard tc g v = false) : guard tc g (zero tc) = false := by
  cases tc <;> cases g <;> simp [compat] at h <;>
    simp_all [guard, zero, JV.isNull, JV.isEmptyStr, JV.isFalse, JV.isZeroNum, JV.isEmptyColl]

theorem lookup_mem (k : String) (v : JV) : ∀ (o : Obj), lookup k o = some v → (k, v) ∈ o
  | [], h => by simp [lookup] at h
  | (k', v') :: r, h => by
    simp only [lookup] at h
    by_cases e : k = k'
    · simp only [e, if_true, Option.some.injEq] at h; simp [e, h]
    · simp only [e, if_false] at h; exact List.mem_cons_of_mem _ (lookup_mem k v r h)

theorem find_field_of_nodup (f : Field) : ∀ (l : List Field), (l.map (·.key)).Nodup → f ∈ l →
    l.find? (fun g => g.key == f.key) = some f
  | [], _, h => by simp at h
  | g :: l, hn, hm => by
    simp only [List.map_cons, List.nodup_cons] at hn
    rcases List.mem_cons.mp hm with e | hm'
    · subst e; simp
    · have : g.key ≠ f.key := fun e => hn.1 (e ▸ List.mem_map_of_mem hm')
      simp [List.find?_cons, this, find_field_of_nodup f l hn.2 hm']

/-! ### unpacking the decidable agreement -/

structure WF (c : TC → Guard → Bool) (d : Desc) : Prop where
  ext : d.extCopy = true
  unm : d.unmExt = true
  asg : d.assignBack = true
  nodupTags : (tagKeys d).Nodup
  nodupM : (marshKeys d).Nodup
  keysEq : marshKeys d = expectedMarshKeys d
  dels : d.dels = tagKeys d
  refTag : d.refEarly = (tagKeys d).contains "$ref"
  refField : d.refEarly = true → ∃ f, fieldByGo d "Ref" = some f ∧ f.key = "$ref" ∧ f.tc = .str
  marshOK : ∀ m ∈ d.marsh, ∃ f, fieldByGo d m.goName = some f ∧ f.key = m.key ∧ c f.tc m.guard = true
  required : alwaysKeys d = specRequired d.name

theorem marshFieldOK_iff (c : TC → Guard → Bool) (d : Desc) (m : MField) (h : marshFieldOK c d m = true) :
    ∃ f, fieldByGo d m.goName = some f ∧ f.key = m.key ∧ c f.tc m.guard = true := by
  unfold marshFieldOK at h
  cases hf : fieldByGo d m.goName with
  | none => simp [hf] at h
  | some f => simp [hf] at h; exact ⟨f, rfl, h.1, h.2⟩

theorem wf_of_agree (c : TC → Guard → Bool) (d : Desc) (h : structAgreeWith c d = true) : WF c d := by
  simp only [structAgreeWith, structWF, Bool.and_eq_true, beq_iff_eq, List.all_eq_true, decide_eq_true_eq] at h
  obtain ⟨⟨⟨⟨⟨⟨⟨⟨⟨⟨⟨⟨hk, hd⟩, hnt⟩, _⟩, _⟩, hrt⟩, hrf⟩, hx⟩, hu⟩, ha⟩, hm⟩, _⟩, hreq⟩ := h
  refine ⟨hx, hu, ha, hnt, ?_, hk, hd, hrt, ?_, fun m hm' => marshFieldOK_iff c d m (hm m hm'), hreq⟩
  · rw [hk]; unfold expectedMarshKeys; split
    · exact hnt.filter _
    · exact hnt
  · intro hr
    simp only [hr, Bool.not_true, Bool.false_or] at hrf
    cases hf : fieldByGo d "Ref" with
    | none => simp [hf] at hrf
    | some f => simp [hf] at hrf; exact ⟨f, rfl, hrf.1, hrf.2⟩

/-- keys written by the marshaller are deleted from the extension map -/
theorem marsh_key_in_dels (c : TC → Guard → Bool) (d : Desc) (w : WF c d) (m : MField) (hm : m ∈ d.marsh) :
    m.key ∈ d.dels := by
  rw [w.dels]
  have : m.key ∈ marshKeys d := List.mem_map_of_mem hm
  rw [w.keysEq] at this
  unfold expectedMarshKeys at this
  split at this
  · exact (List.mem_filter.mp this).1
  · exact this

end KinModel.Marshal

namespace KinModel.Marshal

/-! ### one level of the composition over nesting -/

theorem mapR_ok_of_forall {α β : Type} (f : α → Res β) (g : α → β) :
    ∀ (l : List α), (∀ x ∈ l, f x = .ok (g x)) → mapR f l = .ok (l.map g)
  | [], _ => rfl
  | x :: l, h => by
    have hx := h x (by simp)
    have hl := mapR_ok_of_forall f g l (fun y hy => h y (List.mem_cons_of_mem _ hy))
    simp only [mapR, hx, hl, List.map_cons]

theorem filter_map_eq_filterMap_emit (d : Desc) (r : Rec) : ∀ (ms : List MField),
    (ms.filter (fun m => guard (tcOfGo d m.goName) m.guard (r.fld m.goName))).map
        (fun m => (m.key, written m.guard (r.fld m.goName))) = ms.filterMap (emit (fun _ v => v) d r)
  | [] => rfl
  | m :: ms => by
    simp only [List.filter_cons, List.filterMap_cons, emit]
    cases hg : guard (tcOfGo d m.goName) m.guard (r.fld m.goName) <;>
      simp [filter_map_eq_filterMap_emit d r ms]

/-- If the marshaller of every written child returns the child unchanged, the deep marshalling step of a
    struct kind is the flat one. -/
theorem marshalDeep_of_children_fixed (f : Shape → JV → Res JV) (d : Desc) (r : Rec)
    (h : ∀ m ∈ d.marsh, guard (tcOfGo d m.goName) m.guard (r.fld m.goName) = true →
          f (shapeOfGo d m.goName) (written m.guard (r.fld m.goName)) = .ok (written m.guard (r.fld m.goName))) :
    marshalDeep f d r = .ok (marshal d r) := by
  unfold marshalDeep marshal marshalWith
  split
  · rfl
  · have := mapR_ok_of_forall
      (fun (m : MField) =>
          (f (shapeOfGo d m.goName) (written m.guard (r.fld m.goName))).wrap (fun v' => (m.key, v')))
      (fun m => (m.key, written m.guard (r.fld m.goName)))
      (d.marsh.filter (fun m => guard (tcOfGo d m.goName) m.guard (r.fld m.goName)))
      (by
        intro m hm
        obtain ⟨hm1, hm2⟩ := List.mem_filter.mp hm
        simp only [h m hm1 hm2, Res.wrap])
    rw [this, filter_map_eq_filterMap_emit]
    rfl

end KinModel.Marshal

namespace KinModel.Marshal

/-- a normal-form object comes back unchanged, key by key (proof of `flat_normal_roundtrip`) -/
theorem flat_normal_lookup (d : Desc) (o : Obj) (k : String) (w : WF compat d) (hn : normalObjB d o = true) :
    lookup k (flatRT d o) = lookup k o := by
  rw [flatRT_lookup d o k w.ext w.unm w.asg w.nodupM]
  simp only [normalObjB, Bool.and_eq_true, List.all_eq_true, Bool.or_eq_true, Bool.not_eq_true',
    beq_iff_eq] at hn
  obtain ⟨⟨⟨_, hnd⟩, hreq⟩, hsib⟩ := hn
  -- a present field value is not a default, so it is stored and written as it is
  have present : ∀ (f : Field) (v : JV), f ∈ d.fields → lookup f.key o = some v → isDefault f.tc v = false := by
    intro f v hf hv
    have := hnd (f.key, v) (lookup_mem f.key v o hv)
    have hk : fieldByKey d f.key = some f := find_field_of_nodup f d.fields w.nodupTags hf
    simpa [hk] using this
  -- a `$ref` key in a kind with the early return means the object is exactly that reference
  have refOnly : d.refEarly = true → ∀ x, lookup "$ref" o = some x → refTaken d o = true ∧ o = [("$ref", x)] := by
    intro hre x hx
    obtain ⟨f, hf, hfk, htc⟩ := w.refField hre
    have hfm : f ∈ d.fields := List.mem_of_find?_eq_some hf
    have hdx := present f x hfm (hfk ▸ hx)
    rw [htc] at hdx
    have hlen : o.length = 1 := by
      rcases hsib with h1 | h1
      · simp [hre, hasKey, hx] at h1
      · exact h1
    constructor
    · unfold refTaken
      simp only [hre, Bool.true_and, fldVal, hf, hfk, htc, hx]
      cases x <;> simp_all [isDefault, decode, JV.isNull, JV.isEmptyStr]
    · match o, hlen, hx with
      | [(k0, v0)], _, hx =>
        simp only [lookup] at hx
        by_cases e : "$ref" = k0
        · simp only [e, if_true, Option.some.injEq] at hx; simp [← e, hx]
        · simp [e] at hx
  cases hr : refTaken d o with
  | true =>
    have hre : d.refEarly = true := by
      unfold refTaken at hr; simp only [Bool.and_eq_true] at hr; exact hr.1
    obtain ⟨f, hf, hfk, htc⟩ := w.refField hre
    rw [flatSpec_ref d o k hr]
    cases hx : lookup "$ref" o with
    | none =>
      unfold refTaken at hr
      simp [hre, fldVal, hf, hfk, htc, hx, decode, zero, JV.isEmptyStr] at hr
    | some x =>
      obtain ⟨_, ho⟩ := refOnly hre x hx
      have hfm : f ∈ d.fields := List.mem_of_find?_eq_some hf
      have hdx := present f x hfm (hfk ▸ hx)
      have hval : fldVal d o "Ref" = x := by
        simp only [fldVal, hf, hfk, hx]; exact decode_of_not_default f.tc x hdx
      rw [hval, ho]
      by_cases e : k = "$ref" <;> simp [lookup, e]
  | false =>
    cases hfind : d.marsh.find? (fun m => m.key == k) with
    | none =>
      rw [flatSpec_none d o k hr hfind]
      by_cases hc : k ∈ d.dels
      · simp only [hc, if_true]
        -- a tag without a write is `$ref` of a kind with the early return
        have hkt : k ∈ tagKeys d := w.dels ▸ hc
        have hnm : k ∉ marshKeys d := by
          intro hm
          obtain ⟨m, hm1, hm2⟩ := List.mem_map.mp hm
          have := List.find?_eq_none.mp hfind m hm1
          simp [hm2] at this
        rw [w.keysEq] at hnm
        unfold expectedMarshKeys at hnm
        cases hre : d.refEarly with
        | false => simp [hre] at hnm; exact absurd hkt hnm
        | true =>
          simp only [hre, if_true, List.mem_filter, not_and, bne_iff_ne, ne_eq, Decidable.not_not] at hnm
          have hk := hnm hkt
          subst hk
          cases hx : lookup "$ref" o with
          | none => rfl
          | some x => have := (refOnly hre x hx).1; rw [hr] at this; cases this
      · simp [hc]
    | some m =>
      rw [flatSpec_some d o k m hr hfind]
      have hmem := List.mem_of_find?_eq_some hfind
      have hkm : m.key = k := by simpa using List.find?_some hfind
      obtain ⟨f, hf, hfk, hc⟩ := w.marshOK m hmem
      have hfm : f ∈ d.fields := List.mem_of_find?_eq_some hf
      have htc : tcOfGo d m.goName = f.tc := by simp [tcOfGo, hf]
      have hdel : k ∈ d.dels := hkm ▸ marsh_key_in_dels compat d w m hmem
      cases hx : lookup k o with
      | some v =>
        have hdv := present f v hfm (by rw [hfk, hkm]; exact hx)
        have hval : fldVal d o m.goName = v := by
          simp only [fldVal, hf, hfk, hkm, hx]; exact decode_of_not_default f.tc v hdv
        simp [hval, htc, compat_keeps f.tc m.guard v hc hdv, written_of_not_default f.tc m.guard v hdv]
      | none =>
        have hval : fldVal d o m.goName = zero f.tc := by simp [fldVal, hf, hfk, hkm, hx, decode]
        rw [hval, htc]
        cases hg : guard f.tc m.guard (zero f.tc) with
        | false => simp [hdel]
        | true =>
          have hal := compat_zero f.tc m.guard hc hg
          have : k ∈ requiredKeys d := by
            unfold requiredKeys; rw [← w.required]
            simp only [alwaysKeys, List.mem_map, List.mem_filter]
            exact ⟨m, ⟨hmem, hal⟩, hkm⟩
          have := hreq k this
          simp [hasKey, hx] at this


end KinModel.Marshal
