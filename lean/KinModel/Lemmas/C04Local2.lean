import KinModel.Lemmas.C04Local
namespace KinModel.DocValidate

theorem localOK_parameters (T : Table) (o : Opts) (a : Attrs) (kids : List (String × Doc)) (vs : List Bool) :
    localOK T o (.node .parameters a kids) vs = rulesOK o (.node .parameters a kids) := by
  simp (disch := decide) only [localOK, localOKp, rulesOK, violations, Doc.kind, all_when, enabled_plain]
  simp only [bne, Bool.not_not, Bool.not_true, Bool.or_false]

def refKinds : List Kind :=
  [.parameterRef, .requestBodyRef, .responseRef, .headerRef, .schemaRef, .exampleRef, .linkRef, .callbackRef, .securitySchemeRef]

theorem refViols_all (o : Opts) (a : Attrs) :
    ((refViols a).all fun v => !enabled o v) = refOK o a := by
  unfold refViols refOK refSibsOK
  simp (disch := decide) only [List.all_append, all_when, enabled_plain]
  congr 1
  · induction a.sibs with
    | nil => rfl
    | cons k ks ih =>
      simp only [List.map_cons, List.all_cons, ih]
      congr 1
      cases hk : isExtKey k <;> cases hp : o.extProhibited <;> cases ha : o.allowed.contains k <;> simp_all [enabled]
  · simp

theorem localOK_ref (T : Table) (o : Opts) (k : Kind) (a : Attrs) (kids : List (String × Doc)) (vs : List Bool)
    (hk : k ∈ refKinds) :
    localOK T o (.node k a kids) vs = rulesOK o (.node k a kids) := by
  simp only [refKinds, List.mem_cons, List.not_mem_nil, or_false] at hk
  rcases hk with rfl | rfl | rfl | rfl | rfl | rfl | rfl | rfl | rfl <;>
    simp only [localOK, localOKp, rulesOK, violations, Doc.kind, Doc.attrs, refViols_all]

theorem hasCheck_ident (T : Table) (o : Opts) (a : Attrs) (hT : TableOK T = true) (p : String) (hp : p ∈ componentPositions) :
    hasCheck T o a .components ("identifier:" ++ p) = true := by
  exact anyHolds_of_nil o a _ ((tableFacts T hT).ident p hp)

theorem localOK_components (T : Table) (o : Opts) (a : Attrs) (kids : List (String × Doc)) (vs : List Bool)
    (hT : TableOK T = true) :
    localOK T o (.node .components a kids) vs = rulesOK o (.node .components a kids) := by
  have hx := checkExt_eq T o (.node .components a kids) hT (by simp [extKinds, Doc.kind])
  simp only [localOK, localOKp, rulesOK, violations, Doc.kind, Doc.attrs, componentsOKCode, List.all_append, extra_all, hx, List.all_flatMap]
  congr 1
  apply all_congr_mem
  intro p hp
  simp only [hasCheck_ident T o _ hT p hp, if_true]
  apply all_congr_mem
  intro c _
  simp (disch := decide) only [all_when, enabled_plain]
  simp

end KinModel.DocValidate
