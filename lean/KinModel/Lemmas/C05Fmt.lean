/-
C05: the string constants of the styled-parameter decoders in symbolic form, (a) as the row type of the regenerated
table Gen.DecoderFmt (go/cmd/extract/decoderfmt.go reads them from openapi3filter/req_resp_decoder.go) and (b) as
the symbolic reading of the model's own tables (`pathPrimPrefix`, `pathArrFmt`, `pathObjFmt`, `queryDelim`), with the
lemmas that the model's functions are these symbols evaluated at the parameter name. Props/C05.lean compares (a)
and (b) by `decide` over the whole table. Core only.
-/
import KinModel.Style
namespace KinModel.Style

/-- a string expression of the decoders: a literal, `";" + param + "="`, a variable, or something the extractor
could not read -/
inductive StrE
  | lit (s : String)
  | semiName
  | ident (n : String)
  | unrecognised (site : String)
  deriving DecidableEq, Repr

inductive FmtRow
  | pathPrim (style : String) (pfx : StrE)
  | pathArr (style : String) (explode : Option Bool) (pfx delim : StrE)
  | pathObj (style : String) (explode : Option Bool) (pfx propsDelim valueDelim : StrE)
  | queryArrDelim (style : String) (delim : StrE)
  /-- first guard of a Decode* method: `only` = only this style passes (`!=`), else this style is refused (`==`);
  `explodeRefused` = `|| sm.Explode` -/
  | guard (site style : String) (only explodeRefused : Bool)
  | assign (site var : String) (e : StrE)
  | call (site callee : String) (args : List StrE)
  | unrecognised (site : String)
  deriving DecidableEq, Repr

def StrE.ok : StrE → Bool
  | .unrecognised _ => false
  | _ => true

def FmtRow.ok : FmtRow → Bool
  | .pathPrim _ p => p.ok
  | .pathArr _ _ p d => p.ok && d.ok
  | .pathObj _ _ p a b => p.ok && a.ok && b.ok
  | .queryArrDelim _ d => d.ok
  | .guard _ _ _ _ => true
  | .assign _ _ e => e.ok
  | .call _ _ args => args.all StrE.ok
  | .unrecognised _ => false

def evalE (name : Str) : StrE → Str
  | .lit s => s.toList
  | .semiName => semi name
  | _ => []

def styName : Sty → String
  | .simple => "simple" | .label => "label" | .matrix => "matrix" | .form => "form"
  | .spaceDelimited => "spaceDelimited" | .pipeDelimited => "pipeDelimited" | .deepObject => "deepObject"

def allStyles : List Sty := [.simple, .label, .matrix, .form, .spaceDelimited, .pipeDelimited, .deepObject]

/-! ### the model's tables, symbolically -/

def symPathPrim : Sty → Option StrE
  | .simple => some (.lit "")
  | .label => some (.lit ".")
  | .matrix => some .semiName
  | _ => none

def symPathArr : Sty → Bool → Option (StrE × StrE)
  | .simple, _ => some (.lit "", .lit ",")
  | .label, false => some (.lit ".", .lit ",")
  | .label, true => some (.lit ".", .lit ".")
  | .matrix, false => some (.semiName, .lit ",")
  | .matrix, true => some (.semiName, .semiName)
  | _, _ => none

def symPathObj : Sty → Bool → Option (StrE × StrE × StrE)
  | .simple, false => some (.lit "", .lit ",", .lit ",")
  | .simple, true => some (.lit "", .lit ",", .lit "=")
  | .label, false => some (.lit ".", .lit ",", .lit ",")
  | .label, true => some (.lit ".", .lit ".", .lit "=")
  | .matrix, false => some (.semiName, .lit ",", .lit ",")
  | .matrix, true => some (.lit ";", .lit ";", .lit "=")
  | _, _ => none

def symQueryDelim : Sty → Option StrE
  | .form => some (.lit ",")
  | .spaceDelimited => some (.lit " ")
  | .pipeDelimited => some (.lit "|")
  | _ => none

theorem pathPrimPrefix_sym (name : Str) (st : Sty) : pathPrimPrefix name st = (symPathPrim st).map (evalE name) := by
  cases st <;> rfl

theorem pathArrFmt_sym (name : Str) (st : Sty) (ex : Bool) :
    pathArrFmt name st ex = (symPathArr st ex).map (fun pd => (evalE name pd.1, evalE name pd.2)) := by
  cases st <;> cases ex <;> rfl

theorem pathObjFmt_sym (name : Str) (st : Sty) (ex : Bool) :
    pathObjFmt name st ex = (symPathObj st ex).map (fun t => (evalE name t.1, evalE name t.2.1, evalE name t.2.2)) := by
  cases st <;> cases ex <;> rfl

theorem queryDelim_sym (st : Sty) : queryDelim st = ((symQueryDelim st).map (evalE [])).getD [] := by
  cases st <;> rfl

/-! ### reading the generated table -/

def explodeMatches : Option Bool → Bool → Bool
  | none, _ => true
  | some b, ex => b == ex

def tblPathPrim (t : List FmtRow) (st : Sty) : Option StrE :=
  t.findSome? (fun r => match r with
    | .pathPrim s p => if s == styName st then some p else none
    | _ => none)

def tblPathArr (t : List FmtRow) (st : Sty) (ex : Bool) : Option (StrE × StrE) :=
  t.findSome? (fun r => match r with
    | .pathArr s e p d => if s == styName st && explodeMatches e ex then some (p, d) else none
    | _ => none)

def tblPathObj (t : List FmtRow) (st : Sty) (ex : Bool) : Option (StrE × StrE × StrE) :=
  t.findSome? (fun r => match r with
    | .pathObj s e p a b => if s == styName st && explodeMatches e ex then some (p, a, b) else none
    | _ => none)

def tblQueryDelim (t : List FmtRow) (st : Sty) : Option StrE :=
  t.findSome? (fun r => match r with
    | .queryArrDelim s d => if s == styName st then some d else none
    | _ => none)

end KinModel.Style
