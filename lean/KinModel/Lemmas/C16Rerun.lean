/-
C16 — the reuse dimension: the descent of InternalizeRefs started (with the parent-is-external flag false, as every entry
point of InternalizeRefs does) from ANY state in which every reference text and every path-item text is internal
(`""` or under `#/components/`) adds no component and renames nothing: a text is left as it is or cleared (top-level
dereferencing, path-item inlining). One mutual fuel induction, like Lemmas/C16Descent.lean, but with the FLOW of the
flag: every add<Kind>ToSpec call returns false, every `isExternalRef(ops.Ref, false)` of derefPaths is false, so the
flag handed down stays false. Helper lemmas only (the property theorems are in Props/C16.lean).
-/
import KinModel.Lemmas.C16Inv
namespace KinModel.Internalize
open KinModel.RefName

/-- every text of the state is internal -/
def AllInt (s : St) : Prop := (∀ c : Nat, intText s.refs[c]! = true) ∧ (∀ p : Nat, intText s.pirefs[p]! = true)

/-- `t` is `s` up to cleared texts: same components, every text as before or empty -/
def Rel (s t : St) : Prop :=
  t.comps = s.comps ∧ t.hasComp = s.hasComp ∧ (∀ c : Nat, t.refs[c]! = s.refs[c]! ∨ t.refs[c]! = []) ∧
  (∀ p : Nat, t.pirefs[p]! = s.pirefs[p]! ∨ t.pirefs[p]! = [])

theorem Rel.refl (s : St) : Rel s s := ⟨rfl, rfl, fun _ => Or.inl rfl, fun _ => Or.inl rfl⟩

theorem Rel.trans {s t u : St} (a : Rel s t) (b : Rel t u) : Rel s u := by
  obtain ⟨a1, a2, a3, a4⟩ := a
  obtain ⟨b1, b2, b3, b4⟩ := b
  refine ⟨b1.trans a1, b2.trans a2, fun c => ?_, fun p => ?_⟩
  · rcases b3 c with e | e
    · rw [e]; exact a3 c
    · exact Or.inr e
  · rcases b4 p with e | e
    · rw [e]; exact a4 p
    · exact Or.inr e

theorem intText_nil : intText [] = true := rfl

theorem AllInt.of_rel {s t : St} (hs : AllInt s) (r : Rel s t) : AllInt t := by
  obtain ⟨_, _, r3, r4⟩ := r
  refine ⟨fun c => ?_, fun p => ?_⟩
  · rcases r3 c with e | e
    · rw [e]; exact hs.1 c
    · rw [e]; rfl
  · rcases r4 p with e | e
    · rw [e]; exact hs.2 p
    · rw [e]; rfl

theorem not_external_of_intText (r : Str) (hr : intText r = true) : isExternalRef r false = false := by
  unfold intText at hr
  unfold isExternalRef
  cases h1 : r.isEmpty <;> cases h2 : hasCompPrefix r <;> simp_all

/-- on states whose texts are all internal, every successful run of `m` returns a value satisfying `post` and ends in a
state related by `Rel` -/
def Quiet {α : Type} (m : M α) (post : α → Prop) : Prop :=
  ∀ s a s', AllInt s → m s = .ok (a, s') → post a ∧ Rel s s'

theorem quiet_pure {α : Type} (a : α) : Quiet (pure a : M α) (fun _ => True) := by
  intro s b s' _ hr
  have : (pure a : M α) s = .ok (a, s) := rfl
  rw [this] at hr
  cases hr
  exact ⟨trivial, Rel.refl _⟩

theorem quiet_throw {α : Type} (e : Err) (post : α → Prop) : Quiet (throw e : M α) post := by
  intro s b s' _ hr
  have : (throw e : M α) s = .error e := rfl
  rw [this] at hr
  cases hr

theorem quiet_bind {α β : Type} (m : M α) (f : α → M β) (post : α → Prop) (post' : β → Prop)
    (hm : Quiet m post) (hf : ∀ a, post a → Quiet (f a) post') : Quiet (m >>= f) post' := by
  intro s b s' hs hr
  have e : (m >>= f) s = (match m s with | .ok (a, s1) => f a s1 | .error e => .error e) := by
    show (StateT.bind m f) s = _
    unfold StateT.bind
    show (m s >>= _) = _
    cases m s with
    | error e => rfl
    | ok p => cases p; rfl
  rw [e] at hr
  cases hms : m s with
  | error e => rw [hms] at hr; cases hr
  | ok p =>
    obtain ⟨a, s1⟩ := p
    rw [hms] at hr
    obtain ⟨pa, r1⟩ := hm s a s1 hs hms
    obtain ⟨pb, r2⟩ := hf a pa s1 b s' (hs.of_rel r1) hr
    exact ⟨pb, r1.trans r2⟩

theorem quiet_weaken {α : Type} (m : M α) (post : α → Prop) (hm : Quiet m post) : Quiet m (fun _ => True) := by
  intro s a s' hs hr
  exact ⟨trivial, (hm s a s' hs hr).2⟩

theorem quiet_ite {α : Type} (c : Prop) [Decidable c] (a b : M α) (post : α → Prop)
    (ha : Quiet a post) (hb : Quiet b post) : Quiet (if c then a else b) post := by
  split
  · exact ha
  · exact hb

theorem quiet_tick : Quiet tick (fun _ => True) := by
  intro s a s' _ hr
  unfold tick at hr
  split at hr
  · cases hr
  · cases hr
    exact ⟨trivial, rfl, rfl, fun _ => Or.inl rfl, fun _ => Or.inl rfl⟩

/-- add<Kind>ToSpec with the flag false on an internal text: returns false, changes only the log -/
theorem quiet_add (h : Heap) (c : Nat) : Quiet (addToSpec h c false) (fun b => b = false) := by
  intro s a s' hs hr
  have hx : isExternalRef s.refs[c]! false = false := not_external_of_intText _ (hs.1 c)
  unfold addToSpec addCore at hr
  simp only [hx, Bool.not_false, Bool.or_true, if_true] at hr
  cases hr
  exact ⟨rfl, rfl, rfl, fun _ => Or.inl rfl, fun _ => Or.inl rfl⟩

theorem quiet_clear (c : Nat) : Quiet (clearRef c) (fun _ => True) := by
  intro s a s' _ hr
  unfold clearRef at hr
  cases hr
  refine ⟨trivial, rfl, rfl, fun j => ?_, fun _ => Or.inl rfl⟩
  rcases set_nil_cases s.refs c j with e | ⟨_, e⟩
  · exact Or.inr e
  · exact Or.inl e

theorem quiet_visS (v : Int) : Quiet (isVisitedSchema v) (fun _ => True) := by
  intro s a s' _ hr
  unfold isVisitedSchema at hr
  split at hr <;> cases hr <;> exact ⟨trivial, rfl, rfl, fun _ => Or.inl rfl, fun _ => Or.inl rfl⟩

theorem quiet_visH (v : Int) : Quiet (isVisitedHeader v) (fun _ => True) := by
  intro s a s' _ hr
  unfold isVisitedHeader at hr
  split at hr <;> cases hr <;> exact ⟨trivial, rfl, rfl, fun _ => Or.inl rfl, fun _ => Or.inl rfl⟩

/-- entering a path item with the flag false: `pathIsExternal` is false -/
theorem quiet_enter (p : Nat) : Quiet (enterPI p false) (fun e => e = none ∨ e = some false) := by
  intro s a s' hs hr
  have hx : isExternalRef s.pirefs[p]! false = false := not_external_of_intText _ (hs.2 p)
  unfold enterPI at hr
  split at hr
  · cases hr
    exact ⟨Or.inl rfl, rfl, rfl, fun _ => Or.inl rfl, fun _ => Or.inl rfl⟩
  · simp only [hx] at hr
    cases hr
    refine ⟨Or.inr rfl, rfl, rfl, fun _ => Or.inl rfl, fun j => ?_⟩
    rcases set_nil_cases s.pirefs p j with e | ⟨_, e⟩
    · exact Or.inr e
    · exact Or.inl e

/-- the statement for all functions of the mutual block at fuel `n`, flag false -/
structure AllQuiet (h : Heap) (n : Nat) : Prop where
  schema : ∀ v, Quiet (derefSchema h n v false) (fun _ => True)
  schemaCells : ∀ cs, Quiet (derefSchemaCells h n cs false) (fun _ => True)
  headers : ∀ cs, Quiet (derefHeaders h n cs false) (fun _ => True)
  addAll : ∀ cs, Quiet (addAll h n cs false) (fun _ => True)
  content : ∀ cs, Quiet (derefContent h n cs false) (fun _ => True)
  enc : ∀ cs, Quiet (derefEnc h n cs false) (fun _ => True)
  parameter : ∀ v, Quiet (derefParameter h n v false) (fun _ => True)
  responses : ∀ cs, Quiet (derefResponses h n cs false) (fun _ => True)
  params : ∀ cs, Quiet (derefParams h n cs false) (fun _ => True)
  callbacks : ∀ cs, Quiet (derefCallbacks h n cs false) (fun _ => True)
  ops : ∀ cs, Quiet (derefOps h n cs false) (fun _ => True)
  paths : ∀ cs, Quiet (derefPaths h n cs false) (fun _ => True)

syntax "quiet_auto " ident : tactic
syntax "quiet_top " ident ident : tactic
macro_rules
  | `(tactic| quiet_top $ih $ihl) => `(tactic| repeat (first
      | exact $ihl
      | exact quiet_clear _
      | exact ($ih).schema _
      | exact ($ih).content _
      | exact ($ih).parameter _
      | exact ($ih).paths _
      | (refine quiet_bind _ _ _ _ (quiet_add _ _) (fun b hb => ?_); have hb' : b = false := hb; subst hb')
      | refine quiet_bind _ _ (fun _ => True) _ ?_ (fun _ _ => ?_)
      | apply quiet_ite))
macro_rules
  | `(tactic| quiet_auto $ih) => `(tactic| repeat (first
      | exact quiet_pure _
      | exact quiet_throw _ _
      | exact quiet_tick
      | exact quiet_clear _
      | exact quiet_visS _
      | exact quiet_visH _
      | exact ($ih).schema _
      | exact ($ih).schemaCells _
      | exact ($ih).headers _
      | exact ($ih).addAll _
      | exact ($ih).content _
      | exact ($ih).enc _
      | exact ($ih).parameter _
      | exact ($ih).responses _
      | exact ($ih).params _
      | exact ($ih).callbacks _
      | exact ($ih).ops _
      | exact ($ih).paths _
      | (refine quiet_bind _ _ _ _ (quiet_add _ _) (fun b hb => ?_); have hb' : b = false := hb; subst hb';
         try simp only [Bool.or_false, Bool.false_or, Bool.or_self])
      | refine quiet_bind _ _ (fun _ => True) _ ?_ (fun _ _ => ?_)
      | apply quiet_ite))

theorem allQuiet (h : Heap) : ∀ n, AllQuiet h n
  | 0 => by
    constructor <;> intro a
    · rw [derefSchema]; exact quiet_throw _ _
    · rw [derefSchemaCells]; exact quiet_throw _ _
    · rw [derefHeaders]; exact quiet_throw _ _
    · rw [addAll]; exact quiet_throw _ _
    · rw [derefContent]; exact quiet_throw _ _
    · rw [derefEnc]; exact quiet_throw _ _
    · rw [derefParameter]; exact quiet_throw _ _
    · rw [derefResponses]; exact quiet_throw _ _
    · rw [derefParams]; exact quiet_throw _ _
    · rw [derefCallbacks]; exact quiet_throw _ _
    · rw [derefOps]; exact quiet_throw _ _
    · rw [derefPaths]; exact quiet_throw _ _
  | n + 1 => by
    have ih := allQuiet h n
    constructor <;> intro a
    · rw [derefSchema]; quiet_auto ih
    · cases a with
      | nil => rw [derefSchemaCells] <;> first | exact quiet_pure _ | simp
      | cons c cs => rw [derefSchemaCells]; quiet_auto ih
    · cases a with
      | nil => rw [derefHeaders] <;> first | exact quiet_pure _ | simp
      | cons c cs => rw [derefHeaders]; quiet_auto ih
    · cases a with
      | nil => rw [addAll] <;> first | exact quiet_pure _ | simp
      | cons c cs => rw [addAll]; quiet_auto ih
    · cases a with
      | nil => rw [derefContent] <;> first | exact quiet_pure _ | simp
      | cons c cs => rw [derefContent]; quiet_auto ih
    · cases a with
      | nil => rw [derefEnc] <;> first | exact quiet_pure _ | simp
      | cons c cs => rw [derefEnc]; quiet_auto ih
    · rw [derefParameter]; quiet_auto ih
    · cases a with
      | nil => rw [derefResponses] <;> first | exact quiet_pure _ | simp
      | cons c cs => rw [derefResponses]; quiet_auto ih
    · cases a with
      | nil => rw [derefParams] <;> first | exact quiet_pure _ | simp
      | cons c cs => rw [derefParams]; quiet_auto ih
    · cases a with
      | nil => rw [derefCallbacks] <;> first | exact quiet_pure _ | simp
      | cons c cs => rw [derefCallbacks]; quiet_auto ih
    · cases a with
      | nil => rw [derefOps] <;> first | exact quiet_pure _ | simp
      | cons c cs => rw [derefOps]; quiet_auto ih
    · cases a with
      | nil => rw [derefPaths] <;> first | exact quiet_pure _ | simp
      | cons c cs =>
        rw [derefPaths]
        refine quiet_bind _ _ (fun _ => True) _ quiet_tick ?_
        intro _ _
        refine quiet_bind _ _ _ _ (quiet_enter _) ?_
        intro e he
        rcases he with he | he
        · subst he; exact ih.paths _
        · subst he; simp only []; quiet_auto ih

theorem quiet_topSchemas (h : Heap) (n : Nat) : ∀ cs, Quiet (topSchemas h n cs) (fun _ => True)
  | [] => by rw [topSchemas]; exact quiet_pure _
  | c :: cs => by
    have ih := allQuiet h n
    have ihl := quiet_topSchemas h n cs
    rw [topSchemas]
    quiet_top ih ihl

theorem quiet_topParameters (h : Heap) (n : Nat) : ∀ cs, Quiet (topParameters h n cs) (fun _ => True)
  | [] => by rw [topParameters]; exact quiet_pure _
  | c :: cs => by
    have ih := allQuiet h n
    have ihl := quiet_topParameters h n cs
    rw [topParameters]
    quiet_top ih ihl

theorem quiet_topRequestBodies (h : Heap) (n : Nat) : ∀ cs, Quiet (topRequestBodies h n cs) (fun _ => True)
  | [] => by rw [topRequestBodies]; exact quiet_pure _
  | c :: cs => by
    have ih := allQuiet h n
    have ihl := quiet_topRequestBodies h n cs
    rw [topRequestBodies]
    quiet_top ih ihl

theorem quiet_topCallbacks (h : Heap) (n : Nat) : ∀ cs, Quiet (topCallbacks h n cs) (fun _ => True)
  | [] => by rw [topCallbacks]; exact quiet_pure _
  | c :: cs => by
    have ih := allQuiet h n
    have ihl := quiet_topCallbacks h n cs
    rw [topCallbacks]
    quiet_top ih ihl

theorem quiet_topAll (h : Heap) (n : Nat) : Quiet (topAll h n) (fun _ => True) := by
  have ih := allQuiet h n
  unfold topAll
  repeat (first
    | exact quiet_topSchemas _ _ _ | exact quiet_topParameters _ _ _ | exact quiet_topRequestBodies _ _ _
    | exact quiet_topCallbacks _ _ _ | exact ih.headers _ | exact ih.responses _ | exact ih.addAll _
    | refine quiet_bind _ _ (fun _ => True) _ ?_ (fun _ _ => ?_))

/-- **InternalizeRefs on a state whose texts are all internal adds nothing and renames nothing** -/
theorem quiet_internalizeM (h : Heap) (n : Nat) : Quiet (internalizeM h n) (fun _ => True) := by
  have ih := allQuiet h n
  unfold internalizeM
  apply quiet_ite
  · refine quiet_bind _ _ (fun _ => True) _ (quiet_topAll h n) ?_
    intro _ _; exact ih.paths _
  · exact ih.paths _

/-- the state a second call of InternalizeRefs starts from: `doc.resetVisited()`, everything else as the first call left it -/
def rerunSt (h : Heap) (s : St) : St := { s with visS := [], visH := [], visP := [], steps := budget h }

theorem get_mem_or_nil (a : Array Str) (j : Nat) : a[j]! = [] ∨ a[j]! ∈ a.toList := by
  by_cases hj : j < a.size
  · right
    simp only [Array.getElem!_eq_getD, Array.getD_eq_getD_getElem?]
    have : a[j]? = some a[j] := by simp [hj]
    simp [this]
  · left; exact get_oob a j (by omega)

/-- executable form of `AllInt` -/
def allIntB (s : St) : Bool := s.refs.toList.all intText && s.pirefs.toList.all intText

theorem allInt_of_B (s : St) (hb : allIntB s = true) : AllInt s := by
  unfold allIntB at hb
  rw [Bool.and_eq_true, List.all_eq_true, List.all_eq_true] at hb
  refine ⟨fun c => ?_, fun p => ?_⟩
  · rcases get_mem_or_nil s.refs c with e | e
    · rw [e]; rfl
    · exact hb.1 _ e
  · rcases get_mem_or_nil s.pirefs p with e | e
    · rw [e]; rfl
    · exact hb.2 _ e

/-! ### the arrays of texts keep the size of the heap's tables (so `specB`, which ranges over the heap's cells, speaks of
every text of the state) -/

def InvSize (h : Heap) (s : St) : Prop := s.refs.size = h.cells.size ∧ s.pirefs.size = h.pis.size

theorem size_set (a : Array Str) (i : Nat) (v : Str) : (a.set! i v).size = a.size := by
  simp [Array.set!_eq_setIfInBounds]

theorem invSize_step (h : Heap) (s t : St) (hi : InvSize h s) (st : Step h s t) : InvSize h t := by
  cases st with
  | add c pext b _ hr =>
    rcases addCore_cases h s c pext b t hr with ⟨_, _, ht⟩ | ⟨_, nm, ev, rw⟩
    · subst ht; exact hi
    · refine ⟨?_, ?_⟩
      · rw [rw.refs, size_set]; exact hi.1
      · rw [rw.pirefs]; exact hi.2
  | clear c => exact ⟨(size_set _ _ _).trans hi.1, hi.2⟩
  | enter p fl => exact ⟨hi.1, (size_set _ _ _).trans hi.2⟩
  | silent _ hr hp _ _ _ _ => exact ⟨by rw [hr]; exact hi.1, by rw [hp]; exact hi.2⟩

theorem invSize_init (h : Heap) : InvSize h (initSt h) := by
  constructor <;> simp [initSt]

theorem get_of_mem (a : Array Str) (x : Str) (hx : x ∈ a.toList) : ∃ j, j < a.size ∧ a[j]! = x := by
  obtain ⟨j, hj, e⟩ := List.getElem_of_mem hx
  have hj' : j < a.size := by simpa using hj
  refine ⟨j, hj', ?_⟩
  simp only [Array.getElem!_eq_getD, Array.getD_eq_getD_getElem?]
  have : a[j]? = some a[j] := by simp [hj']
  simp [this]
  simpa using e

/-- where the executable spec holds on a state whose arrays have the heap's sizes, every text is internal -/
theorem allIntB_of_spec (h : Heap) (s : St) (hz : InvSize h s) (hs : specB h s = true) : allIntB s = true := by
  unfold specB at hs
  simp only [Bool.and_eq_true] at hs
  obtain ⟨⟨⟨⟨hc, hp⟩, _⟩, _⟩, _⟩ := hs
  rw [List.all_eq_true] at hc
  unfold pisOK at hp
  rw [List.all_eq_true] at hp
  unfold allIntB
  rw [Bool.and_eq_true, List.all_eq_true, List.all_eq_true]
  refine ⟨fun x hx => ?_, fun x hx => ?_⟩
  · obtain ⟨j, hj, e⟩ := get_of_mem _ _ hx
    have hj' : j < h.cells.size := hz.1 ▸ hj
    have hok := hc j (List.mem_range.mpr hj')
    unfold cellOK at hok
    rw [← e]
    split at hok
    · rw [Bool.and_eq_true] at hok
      have e1 : s.refs[j]! = origRef h j := by simpa using hok.1
      rw [e1]; exact hok.2
    · rw [Bool.and_eq_true] at hok
      exact hok.1
  · obtain ⟨j, hj, e⟩ := get_of_mem _ _ hx
    have hj' : j < h.pis.size := hz.2 ▸ hj
    have hok := hp j (List.mem_range.mpr hj')
    rw [← e]
    have : s.pirefs[j]! = [] := by simpa using hok
    rw [this]; rfl

end KinModel.Internalize
