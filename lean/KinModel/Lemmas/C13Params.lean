/- Helper lemmas for the parameter-default part of C13 (KinModel/C13Params.lean). -/
import KinModel.C13Params
namespace KinModel.C13.Params

theorem get_add_same (st : Store) (k : Key) (ws : List Wire) :
    (st.add k ws).get k = some ((st.get k).getD [] ++ ws) := by
  induction st with
  | nil => simp [Store.add, Store.get]
  | cons e r ih =>
    obtain ⟨k', ws'⟩ := e
    simp only [Store.add]
    split
    · rename_i h; subst h; simp [Store.get]
    · rename_i h; simp [Store.get, h, ih]

theorem get_add_other (st : Store) (k k' : Key) (ws : List Wire) (hne : k' ≠ k) :
    (st.add k ws).get k' = st.get k' := by
  induction st with
  | nil => simp [Store.add, Store.get, hne]
  | cons e r ih =>
    obtain ⟨k2, ws2⟩ := e
    simp only [Store.add]
    split
    · rename_i h; subst h; simp [Store.get, hne]
    · simp only [Store.get]; split <;> simp_all

theorem parseScalar_lit_ne_nil (t : STy) (a : Scalar) : parseScalar t (.lit a) ≠ .nil := by
  cases t <;> cases a <;> simp only [parseScalar] <;> (try split) <;> (try split) <;> simp

theorem parseScalar_csv_ne_nil (t : STy) (as : List Scalar) : parseScalar t (.csv as) ≠ .nil := by
  cases t <;> simp [parseScalar]

theorem parseScalar_sprint_ne_nil (t : STy) (as : List Scalar) : parseScalar t (.sprint as) ≠ .nil := by
  cases t <;> simp [parseScalar]

theorem parseItems_lits_ne_nil (t : STy) : ∀ (as : List Scalar), parseItems t (as.map .lit) ≠ .nil
  | [] => by simp [parseItems]
  | a :: as => by
    simp only [List.map_cons, parseItems]
    cases h : parseScalar t (.lit a) with
    | err => simp
    | nil => exact absurd h (parseScalar_lit_ne_nil t a)
    | val x => exact parseItems_lits_ne_nil t as

theorem parseScalar_typed (t : STy) (a : Scalar) (h : scalarHasType t a = true) : ∃ x, parseScalar t (.lit a) = .val x := by
  cases t <;> cases a <;> simp [scalarHasType] at h <;> simp [parseScalar]

theorem parseItems_lits_typed (t : STy) : ∀ (as : List Scalar), as.all (scalarHasType t) = true →
    ∃ x, parseItems t (as.map .lit) = .val x
  | [], _ => by simp [parseItems]
  | a :: as, h => by
    simp only [List.all_cons, Bool.and_eq_true] at h
    obtain ⟨x, hx⟩ := parseScalar_typed t a h.1
    simp only [List.map_cons, parseItems, hx]
    exact parseItems_lits_typed t as h.2

/-- a decoded value implies the key is present -/
theorem decode_val_present (p : Param) (raw : Option (List Wire)) (h : decode p raw = .val) : raw.isSome = true := by
  cases raw with
  | some ws => rfl
  | none =>
    unfold decode at h
    cases hty : p.ty with
    | untyped => simp [hty] at h
    | sc t => simp [hty] at h
    | array t => simp only [hty] at h; split at h <;> simp at h

/-- for a typed non-path parameter "not found" means the key is absent -/
theorem decode_nil_false_absent (p : Param) (raw : Option (List Wire)) (hty : p.ty ≠ .untyped) (hpath : p.loc ≠ .path)
    (h : decode p raw = .nil false) : raw = none := by
  cases raw with
  | none => rfl
  | some ws =>
    exfalso
    unfold decode at h
    cases hp : p.ty with
    | untyped => exact hty hp
    | sc t =>
      simp only [hp] at h
      cases ws with
      | nil => simp at h
      | cons w r => simp only at h; split at h <;> simp at h; exact hpath h
    | array t =>
      simp only [hp] at h
      split at h
      · simp at h
      · cases ws with
        | nil => simp at h
        | cons w r =>
          simp only at h
          split at h <;> (unfold decodeArray at h; split at h <;> (try simp at h) <;> split at h <;> simp at h)

theorem decodeArray_no_nil (t : STy) (pieces : List Wire) (hne : pieces ≠ []) (h : parseItems t pieces ≠ .nil) :
    decodeArray t pieces = .err ∨ decodeArray t pieces = .val := by
  unfold decodeArray
  cases pieces with
  | nil => exact absurd rfl hne
  | cons w r =>
    simp only
    cases hp : parseItems t (w :: r) with
    | err => simp
    | nil => exact absurd hp h
    | val x => simp

theorem parseItems_single (t : STy) (w : Wire) (h : parseScalar t w ≠ .nil) : parseItems t [w] ≠ .nil := by
  simp only [parseItems]
  cases hp : parseScalar t w with
  | err => simp
  | nil => exact absurd hp h
  | val x => simp

theorem splitComma_mkCsv (as : List Scalar) (h : mkCsv as ≠ .empty) : splitComma (mkCsv as) = as.map .lit := by
  cases as with
  | nil => simp [mkCsv] at h
  | cons a r => cases r <;> simp [mkCsv, splitComma]

theorem mkCsv_parse_ne_nil (t : STy) (as : List Scalar) (h : mkCsv as ≠ .empty) : parseScalar t (mkCsv as) ≠ .nil := by
  cases as with
  | nil => simp [mkCsv] at h
  | cons a r =>
    cases r with
    | nil => simpa [mkCsv] using parseScalar_lit_ne_nil t a
    | cons b r' => simpa [mkCsv] using parseScalar_csv_ne_nil t (a :: b :: r')

/-- What a later validation decodes from a default written into an empty slot is never "no value": the default is
    not written again.  (Excluded: nothing written, or the written text is empty.) -/
theorem decode_written (p : Param) (d : PVal) (hty : p.ty ≠ .untyped)
    (h1 : encodeDefault p d ≠ []) (h2 : encodeDefault p d ≠ [.empty]) :
    decode p (some (encodeDefault p d)) = .err ∨ decode p (some (encodeDefault p d)) = .val := by
  unfold decode
  cases hp : p.ty with
  | untyped => exact absurd hp hty
  | sc t =>
    simp only
    cases he : encodeDefault p d with
    | nil => exact absurd he h1
    | cons w r =>
      simp only
      have hw : parseScalar t w ≠ .nil := by
        unfold encodeDefault at he
        cases hl : p.loc <;> cases d <;> simp only [hl] at he
        case path.sc => cases he
        case path.list => cases he
        case query.sc a => simp at he; obtain ⟨rfl, _⟩ := he; exact parseScalar_lit_ne_nil t a
        case header.sc a => simp at he; obtain ⟨rfl, _⟩ := he; exact parseScalar_lit_ne_nil t a
        case cookie.sc a => simp at he; obtain ⟨rfl, _⟩ := he; exact parseScalar_lit_ne_nil t a
        case header.list as => simp at he; obtain ⟨rfl, _⟩ := he; exact parseScalar_sprint_ne_nil t as
        case cookie.list as => simp at he; obtain ⟨rfl, _⟩ := he; exact parseScalar_sprint_ne_nil t as
        case query.list as =>
          cases hx : p.explode with
          | true =>
            simp only [hx, ↓reduceIte] at he
            cases as with
            | nil => simp at he
            | cons a as' => simp at he; obtain ⟨rfl, _⟩ := he; exact parseScalar_lit_ne_nil t a
          | false =>
            simp only [hx, Bool.false_eq_true, ↓reduceIte] at he
            simp at he; obtain ⟨rfl, rfl⟩ := he
            apply mkCsv_parse_ne_nil
            intro hm; apply h2; unfold encodeDefault; simp [hl, hx, hm]
      cases hq : parseScalar t w with
      | err => simp
      | nil => exact absurd hq hw
      | val x => simp
  | array t =>
    simp only
    split
    · simp
    · cases he : encodeDefault p d with
      | nil => exact absurd he h1
      | cons w r =>
        simp only
        unfold encodeDefault at he
        cases hl : p.loc <;> cases d <;> simp only [hl] at he
        case path.sc => cases he
        case path.list => cases he
        case query.sc a =>
          simp at he; obtain ⟨rfl, rfl⟩ := he
          split
          · exact decodeArray_no_nil t _ (by simp) (parseItems_single t _ (parseScalar_lit_ne_nil t a))
          · simp only [splitComma]
            exact decodeArray_no_nil t _ (by simp) (parseItems_single t _ (parseScalar_lit_ne_nil t a))
        case query.list as =>
          cases hx : p.explode with
          | true =>
            simp only [hx, ↓reduceIte] at he
            simp only [hl, hx, Bool.and_self, ↓reduceIte, beq_self_eq_true, decide_true]
            rw [← he]
            apply decodeArray_no_nil t _ (by rw [he]; simp)
            exact parseItems_lits_ne_nil t as
          | false =>
            simp only [hx, Bool.false_eq_true, ↓reduceIte] at he
            simp at he; obtain ⟨rfl, rfl⟩ := he
            simp only [hl, hx, Bool.and_false, Bool.false_eq_true, ↓reduceIte]
            have hm : mkCsv as ≠ .empty := by
              intro hm; apply h2; unfold encodeDefault; simp [hl, hx, hm]
            rw [splitComma_mkCsv as hm]
            have hne : as.map Wire.lit ≠ [] := by
              cases as with
              | nil => simp [mkCsv] at hm
              | cons a r => simp
            exact decodeArray_no_nil t _ hne (parseItems_lits_ne_nil t as)
        case header.sc a =>
          simp at he; obtain ⟨rfl, rfl⟩ := he
          simp only [hl, splitComma]
          simp
          exact decodeArray_no_nil t _ (by simp) (parseItems_single t _ (parseScalar_lit_ne_nil t a))
        case header.list as =>
          simp at he; obtain ⟨rfl, rfl⟩ := he
          simp only [hl, splitComma]
          simp
          exact decodeArray_no_nil t _ (by simp) (parseItems_single t _ (parseScalar_sprint_ne_nil t as))
        case cookie.sc a =>
          simp at he; obtain ⟨rfl, rfl⟩ := he
          simp only [hl, splitComma]
          simp
          exact decodeArray_no_nil t _ (by simp) (parseItems_single t _ (parseScalar_lit_ne_nil t a))
        case cookie.list as =>
          simp at he; obtain ⟨rfl, rfl⟩ := he
          simp only [hl, splitComma]
          simp
          exact decodeArray_no_nil t _ (by simp) (parseItems_single t _ (parseScalar_sprint_ne_nil t as))

theorem decodeArray_val (t : STy) (pieces : List Wire) (hne : pieces ≠ []) (x : Scalar)
    (h : parseItems t pieces = .val x) : decodeArray t pieces = .val := by
  unfold decodeArray
  cases pieces with
  | nil => exact absurd rfl hne
  | cons w r => simp [h]

/-- A default that is valid for the parameter's type, written where its own serialisation is used, decodes to a
    value on the next validation. -/
theorem decode_written_valid (p : Param) (d : PVal) (hv : dfltValid p.ty d = true) (hty : p.ty ≠ .untyped)
    (hsprint : ¬ ((p.loc = .header ∨ p.loc = .cookie) ∧ ∃ as, d = .list as))
    (hcookie : ¬ (p.loc = .cookie ∧ p.explode = true ∧ ∃ t, p.ty = .array t))
    (h1 : encodeDefault p d ≠ []) (h2 : encodeDefault p d ≠ [.empty]) :
    decode p (some (encodeDefault p d)) = .val := by
  unfold decode
  cases hp : p.ty with
  | untyped => exact absurd hp hty
  | sc t =>
    rw [hp] at hv
    cases d with
    | list as => simp [dfltValid] at hv
    | sc a =>
      simp only [dfltValid] at hv
      obtain ⟨x, hx⟩ := parseScalar_typed t a hv
      have he : encodeDefault p (.sc a) = [.lit a] ∨ encodeDefault p (.sc a) = [] := by
        unfold encodeDefault; cases p.loc <;> simp
      rcases he with he | he
      · simp [he, hx]
      · exact absurd he h1
  | array t =>
    rw [hp] at hv
    cases d with
    | sc a => simp [dfltValid] at hv
    | list as =>
      simp only [dfltValid] at hv
      obtain ⟨x, hx⟩ := parseItems_lits_typed t as hv
      have hc : (p.loc = .cookie && p.explode) = false := by
        cases hb : (p.loc = .cookie && p.explode) with
        | false => rfl
        | true => simp at hb; exact absurd ⟨hb.1, hb.2, t, hp⟩ hcookie
      simp only [hc, Bool.false_eq_true, ↓reduceIte]
      cases hl : p.loc with
      | header => exact absurd ⟨Or.inl hl, as, rfl⟩ hsprint
      | cookie => exact absurd ⟨Or.inr hl, as, rfl⟩ hsprint
      | path => exfalso; apply h1; unfold encodeDefault; simp [hl]
      | query =>
        cases hx2 : p.explode with
        | true =>
          have he : encodeDefault p (.list as) = as.map .lit := by unfold encodeDefault; simp [hl, hx2]
          rw [he] at h1 ⊢
          cases has : as.map Wire.lit with
          | nil => exact absurd has h1
          | cons w r =>
            simp only [decide_true, Bool.and_self, ↓reduceIte]
            rw [← has]; exact decodeArray_val t _ (by rw [has]; simp) x hx
        | false =>
          have he : encodeDefault p (.list as) = [mkCsv as] := by unfold encodeDefault; simp [hl, hx2]
          rw [he] at h2 ⊢
          have hm : mkCsv as ≠ .empty := by intro hm; apply h2; rw [hm]
          simp only [Bool.and_false, Bool.false_eq_true, ↓reduceIte]
          rw [splitComma_mkCsv as hm]
          have hne : as.map Wire.lit ≠ [] := by
            cases as with
            | nil => simp [mkCsv] at hm
            | cons a r => simp
          exact decodeArray_val t _ hne x hx

/-! ### several parameters -/

theorem add_ne_self (st : Store) (k : Key) (ws : List Wire) (hne : ws ≠ []) : st.add k ws ≠ st := by
  intro h
  have := get_add_same st k ws
  rw [h] at this
  cases hg : st.get k with
  | none => simp [hg] at this
  | some l =>
    simp [hg] at this
    exact hne this

theorem paramStep_congr (skip : Bool) (p : Param) (st st' : Store) (h : st.get p.key = st'.get p.key) :
    (paramStep skip p st').2 = (paramStep skip p st).2 ∧
    ((paramStep skip p st).1 = st → (paramStep skip p st').1 = st') := by
  unfold paramStep stepWith
  rw [← h]
  cases decode p (st.get p.key) with
  | err => simp
  | val => simp
  | nil found =>
    simp only
    cases (if skip = true then none else p.dflt) with
    | none => simp
    | some d =>
      simp only [true_and]
      unfold writeDefault
      cases he : encodeDefault p d with
      | nil => simp
      | cons w r => intro hh; exact absurd hh (add_ne_self st p.key (w :: r) (by simp))

theorem regular_congr (skip : Bool) (p : Param) (st st' : Store) (h : st.get p.key = st'.get p.key) :
    Regular skip p st' = Regular skip p st := by
  unfold Regular EmptyPresent SprintArrayDefault
  rw [h]

theorem paramStep_other (skip : Bool) (p : Param) (st : Store) (k : Key) (hk : k ≠ p.key) :
    (paramStep skip p st).1.get k = st.get k := by
  unfold paramStep stepWith
  cases decode p (st.get p.key) with
  | err => rfl
  | val => rfl
  | nil found =>
    simp only
    cases hd : (if skip = true then none else p.dflt) with
    | none => rfl
    | some d =>
      simp only [writeDefault]
      cases he : encodeDefault p d with
      | nil => rfl
      | cons w r => exact get_add_other st p.key k (w :: r) hk

theorem paramsPhase_other (skip multi : Bool) (k : Key) : ∀ (ps : List Param) (st : Store),
    (∀ p ∈ ps, k ≠ p.key) → (paramsPhase skip multi ps st).1.get k = st.get k
  | [], _, _ => rfl
  | p :: ps, st, h => by
    unfold paramsPhase
    simp only
    split
    · exact paramStep_other skip p st k (h p (by simp))
    · simp only
      rw [paramsPhase_other skip multi k ps _ (fun q hq => h q (by simp [hq]))]
      exact paramStep_other skip p st k (h p (by simp))

theorem paramsPhase_cons (skip multi : Bool) (p : Param) (ps : List Param) (st : Store) :
    paramsPhase skip multi (p :: ps) st =
      (if !(paramStep skip p st).2 && !multi then ((paramStep skip p st).1, false)
       else ((paramsPhase skip multi ps (paramStep skip p st).1).1,
             (paramStep skip p st).2 && (paramsPhase skip multi ps (paramStep skip p st).1).2)) := by
  rw [paramsPhase]

theorem paramsPhase_ok_cons (skip multi : Bool) (p : Param) (ps : List Param) (st : Store)
    (h : (paramsPhase skip multi (p :: ps) st).2 = true) :
    (paramStep skip p st).2 = true ∧ (paramsPhase skip multi ps (paramStep skip p st).1).2 = true ∧
    (paramsPhase skip multi (p :: ps) st).1 = (paramsPhase skip multi ps (paramStep skip p st).1).1 := by
  rw [paramsPhase_cons] at h ⊢
  split at h
  · simp at h
  · simp only [Bool.and_eq_true] at h
    rename_i hc
    simp only [hc, Bool.false_eq_true, ↓reduceIte]
    exact ⟨h.1, h.2, trivial⟩

theorem paramsPhaseCached_cons (skip multi : Bool) (view : Store) (p : Param) (ps : List Param) (st : Store) :
    paramsPhaseCached skip multi view (p :: ps) st =
      (if !(paramStepCached skip view p st).2 && !multi then ((paramStepCached skip view p st).1, false)
       else ((paramsPhaseCached skip multi view ps (paramStepCached skip view p st).1).1,
             (paramStepCached skip view p st).2 && (paramsPhaseCached skip multi view ps (paramStepCached skip view p st).1).2)) := by
  rw [paramsPhaseCached]

theorem paramStepCached_eq (skip : Bool) (view : Store) (p : Param) (st : Store)
    (h : st.get p.key = view.get p.key) : paramStepCached skip view p st = paramStep skip p st := by
  unfold paramStepCached paramStep
  split
  · rw [h]
  · rfl

/-- as long as every remaining parameter finds its own key in the cache as it is in the URL, the cache is invisible -/
theorem paramsPhaseCached_eq (skip multi : Bool) (view : Store) : ∀ (ps : List Param) (st : Store),
    keysDistinct ps = true → (∀ p ∈ ps, st.get p.key = view.get p.key) →
    paramsPhaseCached skip multi view ps st = paramsPhase skip multi ps st
  | [], st, _, _ => rfl
  | p :: ps, st, hk, hv => by
    simp only [keysDistinct, Bool.and_eq_true, List.all_eq_true, bne_iff_ne, ne_eq] at hk
    rw [paramsPhaseCached_cons, paramsPhase_cons, paramStepCached_eq skip view p st (hv p (by simp))]
    rw [paramsPhaseCached_eq skip multi view ps _ hk.2
      (fun q hq => by rw [paramStep_other skip p st q.key (hk.1 q hq)]; exact hv q (by simp [hq]))]

end KinModel.C13.Params
