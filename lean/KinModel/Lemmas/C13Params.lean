/- Helper lemmas for the parameter-default part of C13 (KinModel/C13Params.lean). -/
import KinModel.C13Params
namespace KinModel.C13.Params

theorem get_add_same (st : Store) (k : Key) (ws : List Wire) :
    (st.add k ws).get k = some ((st.get k).getD [] ++ ws) := by
  induction st with
  | nil => simp [Store.add, Store.get]
  | cons e r ih =>
    obtain ⟨k', ws'⟩ := e
    simp only [Store.add]
    split
    · rename_i h; subst h; simp [Store.get]
    · rename_i h; simp [Store.get, h, ih]

theorem get_add_other (st : Store) (k k' : Key) (ws : List Wire) (hne : k' ≠ k) :
    (st.add k ws).get k' = st.get k' := by
  induction st with
  | nil => simp [Store.add, Store.get, hne]
  | cons e r ih =>
    obtain ⟨k2, ws2⟩ := e
    simp only [Store.add]
    split
    · rename_i h; subst h; simp [Store.get, hne]
    · simp only [Store.get]; split <;> simp_all

theorem parseScalar_lit_ne_nil (t : STy) (a : Scalar) : parseScalar t (.lit a) ≠ .nil := by
  cases t <;> cases a <;> simp only [parseScalar] <;> (try split) <;> (try split) <;> simp

theorem parseScalar_csv_ne_nil (t : STy) (as : List Scalar) : parseScalar t (.csv as) ≠ .nil := by
  cases t <;> simp [parseScalar]

theorem parseScalar_sprint_ne_nil (t : STy) (as : List Scalar) : parseScalar t (.sprint as) ≠ .nil := by
  cases t <;> simp [parseScalar]

theorem parseItems_lits_ne_nil (t : STy) : ∀ (as : List Scalar), parseItems t (as.map .lit) ≠ .nil
  | [] => by simp [parseItems]
  | a :: as => by
    simp only [List.map_cons, parseItems]
    cases h : parseScalar t (.lit a) with
    | err => simp
    | nil => exact absurd h (parseScalar_lit_ne_nil t a)
    | val x => exact parseItems_lits_ne_nil t as

theorem parseScalar_typed (t : STy) (a : Scalar) (h : scalarHasType t a = true) : ∃ x, parseScalar t (.lit a) = .val x := by
  cases t <;> cases a <;> simp [scalarHasType] at h <;> simp [parseScalar]

theorem parseItems_lits_typed (t : STy) : ∀ (as : List Scalar), as.all (scalarHasType t) = true →
    ∃ x, parseItems t (as.map .lit) = .val x
  | [], _ => by simp [parseItems]
  | a :: as, h => by
    simp only [List.all_cons, Bool.and_eq_true] at h
    obtain ⟨x, hx⟩ := parseScalar_typed t a h.1
    simp only [List.map_cons, parseItems, hx]
    exact parseItems_lits_typed t as h.2

/-- a decoded value implies the key is present -/
theorem decode_val_present (p : Param) (raw : Option (List Wire)) (h : decode p raw = .val) : raw.isSome = true := by
  cases raw with
  | some ws => rfl
  | none =>
    unfold decode at h
    cases hty : p.ty with
    | untyped => simp [hty] at h
    | sc t => simp [hty] at h
    | array t => simp only [hty] at h; split at h <;> simp at h

/-- "found without a value" implies the key is present -/
theorem decode_nil_true_present (p : Param) (raw : Option (List Wire)) (h : decode p raw = .nil true) :
    raw.isSome = true := by
  cases raw with
  | some ws => rfl
  | none =>
    unfold decode at h
    cases hty : p.ty with
    | untyped => simp [hty] at h
    | sc t => simp [hty] at h
    | array t => simp only [hty] at h; split at h <;> simp at h

/-- for a non-path parameter "not found" means the key is absent -/
theorem decode_nil_false_absent (p : Param) (raw : Option (List Wire)) (hpath : p.loc ≠ .path)
    (h : decode p raw = .nil false) : raw = none := by
  cases raw with
  | none => rfl
  | some ws =>
    exfalso
    unfold decode at h
    cases hp : p.ty with
    | untyped => simp [hp] at h
    | sc t =>
      simp only [hp] at h
      cases ws with
      | nil => simp at h
      | cons w r => simp only at h; split at h <;> simp at h; exact hpath h
    | array t =>
      simp only [hp] at h
      split at h
      · simp at h
      · cases ws with
        | nil => simp at h
        | cons w r =>
          simp only at h
          split at h <;> (unfold decodeArray at h; split at h <;> (try simp at h) <;> split at h <;> simp at h)

theorem splitComma_mkCsv (as : List Scalar) (h : mkCsv as ≠ .empty) : splitComma (mkCsv as) = as.map .lit := by
  cases as with
  | nil => simp [mkCsv] at h
  | cons a r => cases r <;> simp [mkCsv, splitComma]

theorem decodeArray_val (t : STy) (pieces : List Wire) (hne : pieces ≠ []) (x : Scalar)
    (h : parseItems t pieces = .val x) : decodeArray t pieces = .val := by
  unfold decodeArray
  cases pieces with
  | nil => exact absurd rfl hne
  | cons w r => simp [h]

/-- the code's serialisation of a default is the spec's -/
theorem encodeDefault_eq_spec (p : Param) (d : PVal) : encodeDefault p d = specEncode p d := by
  cases d with
  | sc a => unfold encodeDefault specEncode; cases p.loc <;> rfl
  | list as => cases as <;> (unfold encodeDefault specEncode; cases p.loc <;> rfl)

theorem specEncode_path (p : Param) (d : PVal) (h : p.loc = .path) : specEncode p d = [] := by
  unfold specEncode; simp [h]

/-- what is written for a default is never the empty text -/
theorem encodeDefault_ne_empty (p : Param) (d : PVal) : encodeDefault p d ≠ [.empty] := by
  cases d with
  | sc a => unfold encodeDefault; cases p.loc <;> simp
  | list as =>
    cases as with
    | nil => unfold encodeDefault; cases p.loc <;> simp
    | cons a r =>
      unfold encodeDefault
      cases p.loc <;> cases r <;> simp [mkCsv] <;> split <;> simp

/-- the default the "Set default value" block applies, if it runs -/
def applied (skip : Bool) (p : Param) (raw : Option (List Wire)) : Option PVal :=
  if p.content then none
  else match decode p raw with
  | .nil false => if skip then none else p.dflt
  | _ => none

theorem stepWith_fst (skip : Bool) (p : Param) (raw : Option (List Wire)) (st : Store) :
    (stepWith skip p raw st).1 = (match applied skip p raw with | some d => writeDefault p d st | none => st) := by
  unfold stepWith applied
  cases hc : p.content with
  | true => cases raw <;> rfl
  | false =>
    simp only [Bool.false_eq_true, ↓reduceIte]
    cases decode p raw with
    | err => rfl
    | val => rfl
    | nil found =>
      cases found with
      | true => simp
      | false => cases skip <;> simp <;> cases p.dflt <;> rfl

/-- the verdict does not depend on the store, only on the raw values looked up -/
theorem stepWith_snd (skip : Bool) (p : Param) (raw : Option (List Wire)) (st st' : Store) :
    (stepWith skip p raw st).2 = (stepWith skip p raw st').2 := by
  unfold stepWith
  cases hc : p.content with
  | true => cases raw <;> rfl
  | false =>
    simp only [Bool.false_eq_true, ↓reduceIte]
    cases decode p raw with
    | err => rfl
    | val => rfl
    | nil found => simp only; cases (if (skip || found) = true then none else p.dflt) <;> rfl

theorem applied_some_absent (skip : Bool) (p : Param) (raw : Option (List Wire)) (d : PVal)
    (h : applied skip p raw = some d) :
    decode p raw = .nil false ∧ skip = false ∧ p.dflt = some d ∧ p.content = false := by
  unfold applied at h
  cases hc : p.content with
  | true => simp [hc] at h
  | false =>
    simp only [hc, Bool.false_eq_true, ↓reduceIte] at h
    cases hd : decode p raw with
    | err => simp [hd] at h
    | val => simp [hd] at h
    | nil found =>
      cases found with
      | true => simp [hd] at h
      | false => cases skip <;> simp [hd] at h; exact ⟨rfl, rfl, h, rfl⟩

/-- once a non-empty default has been written the key is present: the block does not run again -/
theorem applied_after_write (skip : Bool) (p : Param) (ws : List Wire) (hpath : p.loc ≠ .path) :
    applied skip p (some ws) = none := by
  cases h : applied skip p (some ws) with
  | none => rfl
  | some d =>
    have := decode_nil_false_absent p (some ws) hpath (applied_some_absent skip p _ d h).1
    cases this

theorem encodeDefault_path (p : Param) (d : PVal) (h : p.loc = .path) : encodeDefault p d = [] := by
  unfold encodeDefault; simp [h]

theorem writeDefault_get (p : Param) (d : PVal) (st : Store) (hne : encodeDefault p d ≠ []) (hg : st.get p.key = none) :
    (writeDefault p d st).get p.key = some (encodeDefault p d) := by
  unfold writeDefault
  cases he : encodeDefault p d with
  | nil => exact absurd he hne
  | cons w r => simp [get_add_same, hg]

/-- an empty raw value is "found without a value" for every typed non-path parameter that decodes at all -/
theorem decode_empty (p : Param) (hpath : p.loc ≠ .path) (hty : p.ty ≠ .untyped) (h : decode p none = .nil false) :
    decode p (some [.empty]) = .nil true := by
  unfold decode at h ⊢
  cases hp : p.ty with
  | untyped => exact absurd hp hty
  | sc t => simp [parseScalar, hpath]
  | array t =>
    simp only [hp] at h ⊢
    split at h
    · simp at h
    · rename_i hc
      simp only [hc, ↓reduceIte]
      cases hq : (decide (p.loc = Loc.query) && p.explode) <;>
        simp [decodeArray, splitComma, parseItems, parseScalar]

theorem decode_csv (p : Param) (t : STy) (as : List Scalar) (x : Scalar) (hp : p.ty = .array t)
    (hc : (decide (p.loc = Loc.cookie) && p.explode) = false) (hq : (decide (p.loc = Loc.query) && p.explode) = false)
    (hm : mkCsv as ≠ .empty) (hx : parseItems t (as.map .lit) = .val x) : decode p (some [mkCsv as]) = .val := by
  unfold decode
  simp only [hp, hc, hq, Bool.false_eq_true, ↓reduceIte]
  rw [splitComma_mkCsv as hm]
  have hne : as.map Wire.lit ≠ [] := by
    cases as with
    | nil => simp [mkCsv] at hm
    | cons a r => simp
  exact decodeArray_val t _ hne x hx

/-- A default that is valid for the parameter's type decodes to a value on the next validation, unless nothing was
    written or the written text is empty. -/
theorem decode_written_valid (p : Param) (d : PVal) (hv : dfltValid p.ty d = true) (hty : p.ty ≠ .untyped)
    (hdec : decode p none = .nil false)
    (h1 : encodeDefault p d ≠ []) (h2 : encodeDefault p d ≠ [.empty]) :
    decode p (some (encodeDefault p d)) = .val := by
  cases hp : p.ty with
  | untyped => exact absurd hp hty
  | sc t =>
    rw [hp] at hv
    cases d with
    | list as => simp [dfltValid] at hv
    | sc a =>
      simp only [dfltValid] at hv
      obtain ⟨x, hx⟩ := parseScalar_typed t a hv
      have he : encodeDefault p (.sc a) = [.lit a] ∨ encodeDefault p (.sc a) = [] := by
        unfold encodeDefault; cases p.loc <;> simp
      rcases he with he | he
      · unfold decode; simp [hp, he, hx]
      · exact absurd he h1
  | array t =>
    rw [hp] at hv
    cases d with
    | sc a => simp [dfltValid] at hv
    | list as =>
      simp only [dfltValid] at hv
      obtain ⟨x, hx⟩ := parseItems_lits_typed t as hv
      have hc : (decide (p.loc = Loc.cookie) && p.explode) = false := by
        cases hb : (decide (p.loc = Loc.cookie) && p.explode) with
        | false => rfl
        | true => unfold decode at hdec; simp [hp, hb] at hdec
      obtain ⟨a0, r0, rfl⟩ : ∃ a0 r0, as = a0 :: r0 := by
        cases as with
        | nil => exfalso; apply h1; unfold encodeDefault; cases p.loc <;> rfl
        | cons a0 r0 => exact ⟨a0, r0, rfl⟩
      cases hl : p.loc with
      | path => exfalso; apply h1; unfold encodeDefault; simp [hl]
      | header =>
        have he : encodeDefault p (.list (a0 :: r0)) = [mkCsv (a0 :: r0)] := by unfold encodeDefault; simp [hl]
        rw [he] at h2 ⊢
        exact decode_csv p t (a0 :: r0) x hp hc (by simp [hl]) (by intro hm; apply h2; rw [hm]) hx
      | cookie =>
        have he : encodeDefault p (.list (a0 :: r0)) = [mkCsv (a0 :: r0)] := by unfold encodeDefault; simp [hl]
        rw [he] at h2 ⊢
        exact decode_csv p t (a0 :: r0) x hp hc (by simp [hl]) (by intro hm; apply h2; rw [hm]) hx
      | query =>
        cases hx2 : p.explode with
        | true =>
          have he : encodeDefault p (.list (a0 :: r0)) = (a0 :: r0).map .lit := by unfold encodeDefault; simp [hl, hx2]
          rw [he] at h1 ⊢
          unfold decode
          simp only [hp, hc, Bool.false_eq_true, ↓reduceIte]
          simp only [List.map_cons, hl, hx2, decide_true, Bool.and_self, ↓reduceIte]
          exact decodeArray_val t _ (by simp) x (by simpa using hx)
        | false =>
          have he : encodeDefault p (.list (a0 :: r0)) = [mkCsv (a0 :: r0)] := by unfold encodeDefault; simp [hl, hx2]
          rw [he] at h2 ⊢
          exact decode_csv p t (a0 :: r0) x hp hc (by simp [hx2]) (by intro hm; apply h2; rw [hm]) hx

/-! ### several parameters -/

theorem add_ne_self (st : Store) (k : Key) (ws : List Wire) (hne : ws ≠ []) : st.add k ws ≠ st := by
  intro h
  have := get_add_same st k ws
  rw [h] at this
  cases hg : st.get k with
  | none => simp [hg] at this
  | some l =>
    simp [hg] at this
    exact hne this

theorem writeDefault_other (p : Param) (d : PVal) (st : Store) (k : Key) (hk : k ≠ p.key) :
    (writeDefault p d st).get k = st.get k := by
  unfold writeDefault
  cases he : encodeDefault p d with
  | nil => rfl
  | cons w r => exact get_add_other st p.key k (w :: r) hk

theorem writeDefault_fix (p : Param) (d : PVal) (st st' : Store) (h : writeDefault p d st = st) :
    writeDefault p d st' = st' := by
  unfold writeDefault at h ⊢
  cases he : encodeDefault p d with
  | nil => rfl
  | cons w r => rw [he] at h; exact absurd h (add_ne_self st p.key (w :: r) (by simp))

theorem paramStep_congr (skip : Bool) (p : Param) (st st' : Store) (h : st.get p.key = st'.get p.key) :
    (paramStep skip p st').2 = (paramStep skip p st).2 ∧
    ((paramStep skip p st).1 = st → (paramStep skip p st').1 = st') := by
  unfold paramStep
  rw [← h]
  refine ⟨stepWith_snd skip p _ st' st, ?_⟩
  rw [stepWith_fst, stepWith_fst]
  cases applied skip p (st.get p.key) with
  | none => intro _; rfl
  | some d => exact writeDefault_fix p d st st'

theorem paramStep_other (skip : Bool) (p : Param) (st : Store) (k : Key) (hk : k ≠ p.key) :
    (paramStep skip p st).1.get k = st.get k := by
  unfold paramStep
  rw [stepWith_fst]
  cases applied skip p (st.get p.key) with
  | none => rfl
  | some d => exact writeDefault_other p d st k hk

theorem paramsPhase_cons (skip multi : Bool) (p : Param) (ps : List Param) (st : Store) :
    paramsPhase skip multi (p :: ps) st =
      (if !(paramStep skip p st).2 && !multi then ((paramStep skip p st).1, false)
       else ((paramsPhase skip multi ps (paramStep skip p st).1).1,
             (paramStep skip p st).2 && (paramsPhase skip multi ps (paramStep skip p st).1).2)) := by
  rw [paramsPhase]

theorem paramsPhase_other (skip multi : Bool) (k : Key) : ∀ (ps : List Param) (st : Store),
    (∀ p ∈ ps, k ≠ p.key) → (paramsPhase skip multi ps st).1.get k = st.get k
  | [], _, _ => rfl
  | p :: ps, st, h => by
    rw [paramsPhase_cons]
    split
    · exact paramStep_other skip p st k (h p (by simp))
    · simp only
      rw [paramsPhase_other skip multi k ps _ (fun q hq => h q (by simp [hq]))]
      exact paramStep_other skip p st k (h p (by simp))

theorem paramsPhase_ok_cons (skip multi : Bool) (p : Param) (ps : List Param) (st : Store)
    (h : (paramsPhase skip multi (p :: ps) st).2 = true) :
    (paramStep skip p st).2 = true ∧ (paramsPhase skip multi ps (paramStep skip p st).1).2 = true ∧
    (paramsPhase skip multi (p :: ps) st).1 = (paramsPhase skip multi ps (paramStep skip p st).1).1 := by
  rw [paramsPhase_cons] at h ⊢
  split at h
  · simp at h
  · simp only [Bool.and_eq_true] at h
    rename_i hc
    simp only [hc, Bool.false_eq_true, ↓reduceIte]
    exact ⟨h.1, h.2, trivial⟩

theorem defaultReadsAsEmpty_congr (skip : Bool) (p : Param) (st st' : Store) (h : st.get p.key = st'.get p.key) :
    DefaultReadsAsEmpty skip p st' = DefaultReadsAsEmpty skip p st := by
  unfold DefaultReadsAsEmpty
  rw [h]

/-! ### the query cache -/

theorem paramStepCached_sync (skip : Bool) (view : Store) (p : Param) (st : Store) (h : InSync view st) :
    (paramStepCached skip view p st).2.1 = (paramStep skip p st).1 ∧
    (paramStepCached skip view p st).2.2 = (paramStep skip p st).2 ∧
    InSync (paramStepCached skip view p st).1 (paramStep skip p st).1 := by
  have hraw : (if p.loc = .query then view else st).get p.key = st.get p.key := by
    split
    · rename_i hq
      have : p.key = (Loc.query, p.name) := by simp [Param.key, hq]
      rw [this]; exact h p.name
    · rfl
  unfold paramStepCached paramStep
  rw [hraw]
  refine ⟨rfl, rfl, ?_⟩
  split
  · intro n; rfl
  · rename_i hc
    intro n
    rw [h n, stepWith_fst]
    cases ha : applied skip p (st.get p.key) with
    | none => rfl
    | some d =>
      simp only
      by_cases hq : p.loc = .query
      · -- the default block ran for a query parameter: then the cache was replaced
        exfalso
        obtain ⟨h1, h2, h3, h4⟩ := applied_some_absent skip p _ d ha
        apply hc
        simp [hq, defaultBranch, h1, h2, h3, h4]
      · symm
        apply writeDefault_other
        intro e
        apply hq
        have := congrArg Prod.fst e
        simpa [Param.key] using this.symm

theorem paramsPhaseCached_sync (skip multi : Bool) : ∀ (ps : List Param) (view st : Store), InSync view st →
    (paramsPhaseCached skip multi view ps st).2.1 = (paramsPhase skip multi ps st).1 ∧
    (paramsPhaseCached skip multi view ps st).2.2 = (paramsPhase skip multi ps st).2 ∧
    InSync (paramsPhaseCached skip multi view ps st).1 (paramsPhase skip multi ps st).1
  | [], view, st, h => ⟨rfl, rfl, h⟩
  | p :: ps, view, st, h => by
    obtain ⟨e1, e2, e3⟩ := paramStepCached_sync skip view p st h
    rw [paramsPhaseCached, paramsPhase_cons, e2]
    split
    · exact ⟨e1, rfl, e3⟩
    · simp only
      rw [e1]
      obtain ⟨i1, i2, i3⟩ := paramsPhaseCached_sync skip multi ps _ _ e3
      exact ⟨i1, by rw [i2], i3⟩

/-! ### path-item and operation parameters -/

theorem keysDistinct_filter (f : Param → Bool) : ∀ (ps : List Param), keysDistinct ps = true → keysDistinct (ps.filter f) = true
  | [], _ => rfl
  | p :: ps, h => by
    simp only [keysDistinct, Bool.and_eq_true, List.all_eq_true] at h
    simp only [List.filter]
    split
    · simp only [keysDistinct, Bool.and_eq_true, List.all_eq_true]
      exact ⟨fun q hq => h.1 q (List.mem_filter.mp hq).1, keysDistinct_filter f ps h.2⟩
    · exact keysDistinct_filter f ps h.2

theorem keysDistinct_append : ∀ (l1 l2 : List Param), keysDistinct l1 = true → keysDistinct l2 = true →
    (∀ a ∈ l1, ∀ b ∈ l2, b.key ≠ a.key) → keysDistinct (l1 ++ l2) = true
  | [], l2, _, h2, _ => h2
  | a :: l1, l2, h1, h2, hx => by
    simp only [keysDistinct, Bool.and_eq_true, List.all_eq_true] at h1
    simp only [List.cons_append, keysDistinct, Bool.and_eq_true, List.all_eq_true, List.mem_append]
    refine ⟨?_, keysDistinct_append l1 l2 h1.2 h2 (fun x hx1 b hb => hx x (by simp [hx1]) b hb)⟩
    intro q hq
    rcases hq with hq | hq
    · exact h1.1 q hq
    · simpa using hx a (by simp) q hq

end KinModel.C13.Params
