/-
C05 — helper definitions and lemmas for the ValidateRequest parameter loops (model: KinModel/StyleRequest.lean).
-/
import KinModel.StyleRequest
import KinModel.Lemmas.C05Eq

namespace KinModel.Style

/-- the side conditions of `validate_eq_spec_partial` for one parameter: a single well-formed leaf, deepObject leaves
only under query/deepObject, outside the three open classes -/
def ParamInScope (p : Param) : Prop :=
  ∃ l, p.schema = .leaf l ∧ leafWF l ∧
    (∀ sp rq, l = .deep sp rq → p.cell.loc = .query ∧ p.cell.style = .deepObject) ∧
    CookieExplode p = false ∧ EnumGoType p = false ∧ UntypedSchema p = false

/-- the parameters the code visits are the applicable ones that are not excluded -/
theorem mem_visited (d : Doc) (o : CallOpts) (p : Param) :
    p ∈ visited d o ↔ p ∈ effective d ∧ excluded o p = false := by
  simp only [visited, effective, pathItemKept, operationKept, List.mem_append, List.mem_filter,
    Bool.and_eq_true, Bool.not_eq_true', Bool.not_eq_eq_eq_not, Bool.not_true]
  constructor
  · rintro (⟨h1, h2, h3⟩ | ⟨h1, h2⟩)
    · exact ⟨Or.inr ⟨h1, h3⟩, h2⟩
    · exact ⟨Or.inl h1, h2⟩
  · rintro ⟨h1 | ⟨h1, h3⟩, h2⟩
    · exact Or.inr ⟨h1, h2⟩
    · exact Or.inl ⟨h1, h2, h3⟩

theorem errOf_none (val : Param → Req → Verdict) (fr : FullReq) (p : Param) :
    errOf val fr p = none ↔ val p (reqFor p fr) = .accept := by
  unfold errOf
  by_cases h : val p (reqFor p fr) = .accept <;> simp [h]

theorem outOf_ok (o : CallOpts) (es : List PErr) : outOf o es = .ok ↔ es = [] := by
  cases es with
  | nil => simp [outOf]
  | cons e es => cases hm : o.multi <;> simp [outOf, hm]

theorem filterMap_congr' {α β : Type} {f g : α → Option β} :
    ∀ (l : List α), (∀ x ∈ l, f x = g x) → l.filterMap f = l.filterMap g
  | [], _ => rfl
  | a :: l, h => by
    have h1 : f a = g a := h a (by simp)
    have h2 := filterMap_congr' l (fun x hx => h x (by simp [hx]))
    simp only [List.filterMap_cons, h1, h2]

/-! ## the regenerated table Gen.RequestLoops: row type and a symbolic reading of it -/

/-- the condition of an `if … { continue }` inside a parameter loop -/
inductive Guard
  /-- `options.ExcludeRequestQueryParams && <e> == openapi3.ParameterInQuery` -/
  | excludeQuery (e : String)
  /-- `<recv> != nil` and `<recv>.GetByInAndName(<args>) != nil` -/
  | overridden (recv : String) (args : List String)
  deriving DecidableEq, Repr

inductive LoopRow
  | bind (v e : String)
  | range (v over : String)
  | skipIf (loop : String) (g : Guard)
  | validate (loop arg : String)
  | unrecognised (site : String)
  deriving DecidableEq, Repr

def LoopRow.ok : LoopRow → Bool
  | .unrecognised _ => false
  | _ => true

/-- what a guard means for the parameter `arg` denotes (`none`: not a reading the model knows) -/
def guardSem (arg : String) : Guard → Option (CallOpts → List Param → Param → Bool)
  | .excludeQuery e => if e = arg ++ ".In" then some (fun o _ p => excluded o p) else none
  | .overridden recv args =>
    if recv = "operationParameters" ∧ args = [arg ++ ".In", arg ++ ".Name"] then
      some (fun _ ops p => declares ops p.cell.loc p.name) else none

def guardsOf (rows : List LoopRow) (loop : String) : List Guard :=
  rows.filterMap (fun r => match r with | .skipIf l g => if l = loop then some g else none | _ => none)

def validatesOf (rows : List LoopRow) (loop : String) : List String :=
  rows.filterMap (fun r => match r with | .validate l a => if l = loop then some a else none | _ => none)

/-- all guards of a loop, as one "skipped" predicate -/
def anyGuard : List (CallOpts → List Param → Param → Bool) → CallOpts → List Param → Param → Bool
  | [], _, _, _ => false
  | g :: gs, o, ops, p => g o ops p || anyGuard gs o ops p

/-- the loop reaches ValidateParameter for a parameter: exactly one call, on the expression `arg`; every guard readable for `arg` -/
def loopSem (rows : List LoopRow) (loop : String) : Option (CallOpts → List Param → Param → Bool) :=
  match validatesOf rows loop with
  | [a] => ((guardsOf rows loop).mapM (guardSem a)).map (fun gs o ops p => !anyGuard gs o ops p)
  | _ => none

/-- the expression a loop variable stands for at the ValidateParameter call must be the declared parameter itself:
`parameter` where `parameter := parameterRef.Value` and the loop variable is `parameterRef`, or `<v>.Value` -/
def argIsParam (rows : List LoopRow) (v arg : String) : Bool :=
  arg = v ++ ".Value" || rows.contains (.bind arg (v ++ ".Value"))

/-- the parameters visited, read off the table: the range statements in source order over the two lists -/
def visitedSem (rows : List LoopRow) : Option (Doc → CallOpts → List Param) :=
  if rows.all LoopRow.ok ∧
     rows.contains (.bind "operationParameters" "operation.Parameters") ∧
     rows.contains (.bind "pathItemParameters" "route.PathItem.Parameters") then
    match rows.filterMap (fun r => match r with | .range v over => some (v, over) | _ => none) with
    | [(v1, "pathItemParameters"), (v2, "operationParameters")] =>
      match validatesOf rows "pathItemParameters", validatesOf rows "operationParameters",
            loopSem rows "pathItemParameters", loopSem rows "operationParameters" with
      | [a1], [a2], some k1, some k2 =>
        if argIsParam rows v1 a1 ∧ argIsParam rows v2 a2 then
          some (fun d o => d.pathItem.filter (k1 o d.operation) ++ d.operation.filter (k2 o d.operation))
        else none
      | _, _, _, _ => none
    | _ => none
  else none

/-- the table as the model was written against -/
def expectedLoops : List LoopRow := [
  .bind "operationParameters" "operation.Parameters",
  .bind "pathItemParameters" "route.PathItem.Parameters",
  .range "parameterRef" "pathItemParameters",
  .bind "parameter" "parameterRef.Value",
  .skipIf "pathItemParameters" (.excludeQuery "parameter.In"),
  .skipIf "pathItemParameters" (.overridden "operationParameters" ["parameter.In", "parameter.Name"]),
  .validate "pathItemParameters" "parameter",
  .range "parameter" "operationParameters",
  .skipIf "operationParameters" (.excludeQuery "parameter.Value.In"),
  .validate "operationParameters" "parameter.Value" ]

end KinModel.Style
