/-
C05 — helper definitions and lemmas for the ValidateRequest parameter loops (model: KinModel/StyleRequest.lean).
-/
import KinModel.StyleRequest
import KinModel.Lemmas.C05Eq

namespace KinModel.Style

/-- the side conditions of `validate_eq_spec_partial` for one parameter: a single well-formed leaf, deepObject leaves
only under query/deepObject, outside the three open classes -/
def ParamInScope (p : Param) : Prop :=
  ∃ l, p.schema = .leaf l ∧ leafWF l ∧
    (∀ sp rq, l = .deep sp rq → p.cell.loc = .query ∧ p.cell.style = .deepObject) ∧
    CookieExplode p = false ∧ EnumGoType p = false ∧ UntypedSchema p = false

/-- the parameters the code visits are the applicable ones that are not excluded -/
theorem mem_visited (d : Doc) (o : CallOpts) (p : Param) :
    p ∈ visited d o ↔ p ∈ effective d ∧ excluded o p = false := by
  simp only [visited, effective, pathItemKept, operationKept, List.mem_append, List.mem_filter,
    Bool.and_eq_true, Bool.not_eq_true', Bool.not_eq_eq_eq_not, Bool.not_true]
  constructor
  · rintro (⟨h1, h2, h3⟩ | ⟨h1, h2⟩)
    · exact ⟨Or.inr ⟨h1, h3⟩, h2⟩
    · exact ⟨Or.inl h1, h2⟩
  · rintro ⟨h1 | ⟨h1, h3⟩, h2⟩
    · exact Or.inr ⟨h1, h2⟩
    · exact Or.inl ⟨h1, h2, h3⟩

theorem errOf_none (val : Param → Req → Verdict) (fr : FullReq) (p : Param) :
    errOf val fr p = none ↔ val p (reqFor p fr) = .accept := by
  unfold errOf
  by_cases h : val p (reqFor p fr) = .accept <;> simp [h]

theorem outOf_ok (o : CallOpts) (es : List PErr) : outOf o es = .ok ↔ es = [] := by
  cases es with
  | nil => simp [outOf]
  | cons e es => cases hm : o.multi <;> simp [outOf, hm]

end KinModel.Style
