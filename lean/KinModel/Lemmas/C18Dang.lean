/-
Helper lemmas for C18, fourth part (core-only): under the default option set (no type-name generator, no component
export, no customizer) every registered component name is filled by the export loop (`default_no_dangling`), and the
type-name generators `none` / "prefix" are injective (`tnInj_none`, `tnInj_prefix`).
-/
import KinModel.Lemmas.C18Fin
set_option linter.unusedSectionVars false
set_option linter.unusedSimpArgs false
set_option linter.unusedVariables false
namespace KinModel.Gen3

/-! ### the type-name generators that need no check -/
theorem tnInj_none (Δ : Decls) (o : Opts) (h : o.tng = none) : TnInj Δ (typeName o) := by
  intro a b _ _ hab
  simpa [typeName, h] using hab

theorem tnInj_prefix (Δ : Decls) (o : Opts) (p : String) (h : o.tng = some ⟨p, []⟩) : TnInj Δ (typeName o) := by
  intro a b _ _ hab
  simp only [typeName, h, lookup, Option.getD] at hab
  have := congrArg String.toList hab
  simp only [String.toList_append] at this
  exact String.toList_inj.mp (List.append_cancel_left this)

/-! ### the default option set -/
structure Dflt (o : Opts) : Prop where
  tng : o.tng = none
  exp : o.exp = false
  cust : o.cust = false

theorem custOut_dflt {o : Opts} (d : Dflt o) (nm : String) : custOut o nm = .pass := by
  simp [custOut, d.cust]
theorem custom_dflt {o : Opts} (d : Dflt o) (nm : String) (r : R × St) : custom o nm r = r := by
  obtain ⟨x, σ⟩ := r
  cases x <;> simp [custom, custOut_dflt d]
theorem typeName_dflt {o : Opts} (d : Dflt o) (n : String) : typeName o n = n := by
  simp [typeName, d.tng]
theorem structEnd_dflt {o : Opts} (d : Dflt o) (top : Bool) (nm : String) (nl : Bool) (n : String) (a : FAcc)
    (hf : a.fail = none) :
    structEnd o top nm nl n a =
      (.ok (structSch nl a.props), { a.σ with refs := (n, n, structSch nl a.props) :: a.σ.refs }) := by
  simp [structEnd, hf, custOut_dflt d, structOut, exported, withCuts, d.exp]

/-! ### without a customizer nothing is excluded; without ThrowErrorOnCycle a cycle error is always caught -/
theorem gen_noexcl (Δ : Decls) (o : Opts) (hc : o.cust = false) : ∀ (f : Nat),
    (∀ ps nm t σ, (genRef Δ o f ps nm t σ).1 ≠ .excluded) ∧
    (∀ ps top nm nl b σ, (genBody Δ o f ps top nm nl b σ).1 ≠ .excluded)
  | 0 => ⟨fun _ _ _ _ => by simp [genRef], fun _ _ _ _ _ _ => by simp [genBody]⟩
  | f + 1 => by
      obtain ⟨ihR, ihB⟩ := gen_noexcl Δ o hc f
      have hcu : ∀ nm (r : R × St), r.1 ≠ .excluded → (custom o nm r).1 ≠ .excluded := by
        intro nm r hr
        obtain ⟨x, σ⟩ := r
        cases x <;> simp_all [custom, custOut]
      have hsl : ∀ nl (q : Child × St), (sliceOf nl q).1 ≠ .excluded := by
        intro nl q; obtain ⟨c, σ⟩ := q
        cases c with
        | some s => simp [sliceOf]
        | skip => simp [sliceOf]
        | fail x => cases x <;> simp [sliceOf, Fail.toR]
      have hmp : ∀ nl (q : Child × St), (mapOf nl q).1 ≠ .excluded := by
        intro nl q; obtain ⟨c, σ⟩ := q
        cases c with
        | some s => simp [mapOf]
        | skip => simp [mapOf]
        | fail x => cases x <;> simp [mapOf, Fail.toR]
      have hse : ∀ top nm nl n (a : FAcc), (structEnd o top nm nl n a).1 ≠ .excluded := by
        intro top nm nl n a
        unfold structEnd
        split
        · rename_i r _; cases r <;> simp [Fail.toR]
        · simp only [custOut, hc, Bool.not_false, if_true]
          unfold structOut; split <;> simp
      refine ⟨?_, ?_⟩
      · intro ps nm t σ
        simp only [genRef]
        split
        · simp
        · split
          · simp
          · have := ihB (ps ++ [stripPtr t]) ps.isEmpty nm (isPtr t && !ps.isEmpty) (stripPtr t) σ
            generalize genBody Δ o f (ps ++ [stripPtr t]) ps.isEmpty nm (isPtr t && !ps.isEmpty) (stripPtr t) σ = q at this ⊢
            obtain ⟨x, σ'⟩ := q
            unfold finishR; split <;> (cases x <;> simp_all [finish])
      · intro ps top nm nl b σ
        cases b with
        | bool | int _ | float _ | string | bytes | time | array _ _ => simp only [genBody]; exact hcu _ _ (by simp)
        | ptr _ => simp [genBody]
        | defd n t => simp only [genBody]; split <;> first | exact ihB _ _ _ _ _ _ | simp
        | slice e => simp only [genBody]; split <;> first | exact hcu _ _ (hsl _ _) | exact hcu _ _ (by simp)
        | map e => simp only [genBody]; exact hcu _ _ (hmp _ _)
        | recs m =>
          simp only [genBody]
          apply hcu
          cases m
          · simp only [Bool.false_eq_true, if_false]; exact hsl _ _
          · simp only [if_true]; exact hmp _ _
        | struct fs => simp only [genBody]; split <;> first | exact hse _ _ _ _ _ | simp
        | named n => simp only [genBody]; split <;> first | exact hse _ _ _ _ _ | simp

theorem childOf_nocycle {o : Opts} (ht : o.throwCycle = false) (e : GoType) (r : R × St) :
    (childOf o e r).1 ≠ .fail .cycle := by
  obtain ⟨x, σ⟩ := r
  cases x <;> simp [childOf, ht]
  split <;> simp

theorem gen_nocycle (Δ : Decls) (o : Opts) (ht : o.throwCycle = false) : ∀ (f : Nat),
    (∀ ps nm t σ, (genRef Δ o f ps nm t σ).1 = .cycle →
      inParents (stripPtr t) ps = true ∧ (genRef Δ o f ps nm t σ).2 = σ) ∧
    (∀ ps top nm nl b σ, (genBody Δ o f ps top nm nl b σ).1 ≠ .cycle) ∧
    (∀ ps cs a, a.fail ≠ some .cycle → (genFields Δ o f ps cs a).fail ≠ some .cycle)
  | 0 => by
      refine ⟨fun _ _ _ _ h => by simp [genRef] at h, fun _ _ _ _ _ _ => by simp [genBody], ?_⟩
      intro ps cs a ha
      cases cs <;> simp [genFields]
      exact ha
  | f + 1 => by
      obtain ⟨ihR, ihB, ihF⟩ := gen_nocycle Δ o ht f
      have hcu : ∀ nm (r : R × St), r.1 ≠ .cycle → (custom o nm r).1 ≠ .cycle := by
        intro nm r hr
        obtain ⟨x, σ⟩ := r
        cases x <;> simp_all [custom]
        split <;> simp
      have hsl : ∀ nl (q : Child × St), q.1 ≠ .fail .cycle → (sliceOf nl q).1 ≠ .cycle := by
        intro nl q hq; obtain ⟨c, σ⟩ := q
        cases c with
        | some s => simp [sliceOf]
        | skip => simp [sliceOf]
        | fail x => cases x <;> simp_all [sliceOf, Fail.toR]
      have hmp : ∀ nl (q : Child × St), q.1 ≠ .fail .cycle → (mapOf nl q).1 ≠ .cycle := by
        intro nl q hq; obtain ⟨c, σ⟩ := q
        cases c with
        | some s => simp [mapOf]
        | skip => simp [mapOf]
        | fail x => cases x <;> simp_all [mapOf, Fail.toR]
      have hse : ∀ top nm nl n (a : FAcc), a.fail ≠ some .cycle → (structEnd o top nm nl n a).1 ≠ .cycle := by
        intro top nm nl n a ha
        unfold structEnd
        split
        · rename_i r hr; cases r <;> simp_all [Fail.toR]
        · split
          · simp
          · simp
          · unfold structOut; split <;> simp
      refine ⟨?_, ?_, ?_⟩
      · intro ps nm t σ h
        simp only [genRef] at h ⊢
        split at h
        · simp at h
        · split at h
          · rename_i hin; simp [hin]
          · exfalso
            have := ihB (ps ++ [stripPtr t]) ps.isEmpty nm (isPtr t && !ps.isEmpty) (stripPtr t) σ
            generalize genBody Δ o f (ps ++ [stripPtr t]) ps.isEmpty nm (isPtr t && !ps.isEmpty) (stripPtr t) σ = q at this h
            obtain ⟨x, σ'⟩ := q
            unfold finishR at h; split at h <;> (cases x <;> simp_all [finish])
      · intro ps top nm nl b σ
        cases b with
        | bool | int _ | float _ | string | bytes | time | array _ _ => simp only [genBody]; exact hcu _ _ (by simp)
        | ptr _ => simp [genBody]
        | defd n t => simp only [genBody]; split <;> first | exact ihB _ _ _ _ _ _ | simp
        | slice e =>
          simp only [genBody]
          split
          · exact hcu _ _ (by simp)
          · exact hcu _ _ (hsl _ _ (childOf_nocycle ht _ _))
        | map e => simp only [genBody]; exact hcu _ _ (hmp _ _ (childOf_nocycle ht _ _))
        | recs m =>
          simp only [genBody]
          apply hcu
          cases m
          · simp only [Bool.false_eq_true, if_false]; exact hsl _ _ (childOf_nocycle ht _ _)
          · simp only [if_true]; exact hmp _ _ (childOf_nocycle ht _ _)
        | struct fs => simp only [genBody]; split <;> first | exact hse _ _ _ _ _ (ihF _ _ _ (by simp)) | simp
        | named n => simp only [genBody]; split <;> first | exact hse _ _ _ _ _ (ihF _ _ _ (by simp)) | simp
      · intro ps cs a ha
        cases cs with
        | nil => simp only [genFields]; exact ha
        | cons c cs =>
          simp only [genFields]
          apply ihF
          have := childOf_nocycle ht c.ty (genRef Δ o f ps (propName o.all c) c.ty a.σ)
          unfold stepField
          generalize childOf o c.ty (genRef Δ o f ps (propName o.all c) c.ty a.σ) = q at this ⊢
          obtain ⟨ch, σ'⟩ := q
          cases ch with
          | some s => exact ha
          | skip => exact ha
          | fail x =>
            simp only
            cases hf : a.fail with
            | some y => simp only; rw [hf] at ha; exact ha
            | none => simp only; intro he; cases he; exact this rfl

/-! ### the parent chain below a container continues with its element type -/
def spineLen : GoType → Nat
  | .ptr t => spineLen t
  | .slice t => 1 + spineLen t
  | .map t => 1 + spineLen t
  | .defd _ t => spineLen t
  | _ => 0

def Chain : List GoType → Prop
  | [] => True
  | [_] => True
  | x :: y :: r => (kindContainer x = true → y = stripPtr (elemOf x)) ∧ Chain (y :: r)

theorem spineNamed_strip : ∀ (t : GoType), spineNamed (stripPtr t) = spineNamed t
  | .ptr t => by simp only [stripPtr, spineNamed]; exact spineNamed_strip t
  | .bool | .int _ | .float _ | .string | .bytes | .time | .slice _ | .map _ | .struct _ | .named _
  | .defd _ _ | .array _ _ | .recs _ => by simp [stripPtr]
theorem cycleName_strip (o : Opts) : ∀ (t : GoType), cycleName o (stripPtr t) = cycleName o t
  | .ptr t => by simp only [stripPtr, cycleName]; exact cycleName_strip o t
  | .bool | .int _ | .float _ | .string | .bytes | .time | .slice _ | .map _ | .struct _ | .named _
  | .defd _ _ | .array _ _ | .recs _ => by simp [stripPtr]
theorem spineLen_strip : ∀ (t : GoType), spineLen (stripPtr t) = spineLen t
  | .ptr t => by simp only [stripPtr, spineLen]; exact spineLen_strip t
  | .bool | .int _ | .float _ | .string | .bytes | .time | .slice _ | .map _ | .struct _ | .named _
  | .defd _ _ | .array _ _ | .recs _ => by simp [stripPtr]

/-- one step down the spine of a container that ends in a declared struct -/
theorem spine_step (o : Opts) : ∀ (X : GoType), kindContainer X = true → spineNamed X = true →
    spineNamed (stripPtr (elemOf X)) = true ∧ cycleName o (stripPtr (elemOf X)) = cycleName o X ∧
    spineLen (stripPtr (elemOf X)) < spineLen X
  | .slice t, _, hs => by
      simp only [elemOf, spineNamed_strip, cycleName_strip, spineLen_strip, spineLen, cycleName]
      exact ⟨by simpa [spineNamed] using hs, trivial, by omega⟩
  | .map t, _, hs => by
      simp only [elemOf, spineNamed_strip, cycleName_strip, spineLen_strip, spineLen, cycleName]
      exact ⟨by simpa [spineNamed] using hs, trivial, by omega⟩
  | .defd n t, hk, hs => by
      simp only [kindContainer] at hk
      simp only [spineNamed, Bool.and_eq_true] at hs
      have := spine_step o t hk hs.2
      simp only [elemOf, spineLen, cycleName, hk, if_true]
      exact this
  | .bytes, _, hs | .recs _, _, hs => by simp [spineNamed] at hs
  | .bool, hk, _ | .int _, hk, _ | .float _, hk, _ | .string, hk, _ | .time, hk, _ | .struct _, hk, _ | .named _, hk, _
  | .ptr _, hk, _ | .array _ _, hk, _ => by simp [kindContainer] at hk

theorem spine_end : ∀ (y : GoType), spineNamed y = true → isPtr y = false → kindContainer y = false → ∃ n, y = .named n
  | .named n, _, _, _ => ⟨n, rfl⟩
  | .defd n t, hs, _, hk => by
      simp only [spineNamed, Bool.and_eq_true] at hs
      simp only [kindContainer] at hk
      rw [hk] at hs; cases hs.1
  | .ptr _, _, hp, _ => by simp [isPtr] at hp
  | .slice _, _, _, hk | .map _, _, _, hk => by simp [kindContainer] at hk
  | .bool, hs, _, _ | .int _, hs, _, _ | .float _, hs, _, _ | .string, hs, _, _ | .bytes, hs, _, _ | .time, hs, _, _
  | .struct _, hs, _, _ | .array _ _, hs, _, _ | .recs _, hs, _, _ => by simp [spineNamed] at hs

/-- from a chain element down its spine: the declared struct at the end is on the chain, or the chain ends inside the spine -/
theorem spine_in_chain (o : Opts) : ∀ (l : List GoType) (X : GoType), Chain (X :: l) → spineNamed X = true → isPtr X = false →
    (∃ n, cycleName o X = typeName o n ∧ GoType.named n ∈ X :: l) ∨
    (∃ Y, (X :: l).getLast? = some Y ∧ kindContainer Y = true ∧ spineNamed Y = true ∧ spineLen Y ≤ spineLen X)
  | [], X, _, hs, hp => by
      cases hk : kindContainer X with
      | false =>
        obtain ⟨n, rfl⟩ := spine_end X hs hp hk
        exact Or.inl ⟨n, by simp [cycleName, goName], by simp⟩
      | true => exact Or.inr ⟨X, by simp, hk, hs, Nat.le_refl _⟩
  | y :: l', X, hc, hs, hp => by
      cases hk : kindContainer X with
      | false =>
        obtain ⟨n, rfl⟩ := spine_end X hs hp hk
        exact Or.inl ⟨n, by simp [cycleName, goName], by simp⟩
      | true =>
        simp only [Chain] at hc
        have hy := hc.1 hk
        obtain ⟨s1, s2, s3⟩ := spine_step o X hk hs
        rw [← hy] at s1 s2 s3
        rcases spine_in_chain o l' y hc.2 s1 (by rw [hy]; exact isPtr_stripPtr _) with ⟨n, h1, h2⟩ | ⟨Y, h1, h2, h3, h4⟩
        · exact Or.inl ⟨n, by rw [← s2]; exact h1, List.mem_cons_of_mem _ h2⟩
        · exact Or.inr ⟨Y, by simpa [List.getLast?_cons_cons] using h1, h2, h3, by omega⟩

theorem chain_suffix : ∀ (pre : List GoType) (l : List GoType), Chain (pre ++ l) → Chain l
  | [], l, h => h
  | [x], l, h => by
      cases l with
      | nil => trivial
      | cons y r => simp only [List.singleton_append, Chain] at h; exact h.2
  | x :: y :: pre, l, h => by
      have : Chain (y :: (pre ++ l)) := by simpa [Chain] using h.2
      exact chain_suffix (y :: pre) l this

theorem chain_snoc : ∀ (ps : List GoType) (B0 c : GoType), Chain ps → ps.getLast? = some B0 →
    (kindContainer B0 = true → c = stripPtr (elemOf B0)) → Chain (ps ++ [c])
  | [], _, _, _, h, _ => by simp at h
  | [x], B0, c, _, h, hc => by
      simp only [List.getLast?_singleton, Option.some.injEq] at h
      subst h
      simp only [List.singleton_append, Chain]
      exact ⟨hc, trivial⟩
  | x :: y :: r, B0, c, h, hl, hc => by
      simp only [Chain] at h
      have := chain_snoc (y :: r) B0 c h.2 (by simpa [List.getLast?_cons_cons] using hl) hc
      simp only [List.cons_append, Chain]
      exact ⟨h.1, this⟩

theorem getLast?_append_cons {α} (pre l : List α) (x : α) : (pre ++ x :: l).getLast? = (x :: l).getLast? := by
  rw [List.getLast?_append]
  cases h : (x :: l).getLast? with
  | some y => simp
  | none => simp at h

/-- the name registered by a cycle cut below the chain is the name of a declared struct ON the chain -/
theorem cut_named (o : Opts) {ps : List GoType} {B0 e : GoType} (hch : Chain ps) (hl : ps.getLast? = some B0)
    (hstep : kindContainer B0 = true → stripPtr e = stripPtr (elemOf B0))
    (hin : inParents (stripPtr e) ps = true) (hs : spineNamed e = true) :
    ∃ n, cycleName o e = typeName o n ∧ inParents (.named n) ps = true := by
  unfold inParents at hin
  obtain ⟨x, hx, hbeq⟩ := List.any_eq_true.mp hin
  have hxe := GoType.beq_eq _ _ hbeq
  subst hxe
  obtain ⟨pre, l, rfl⟩ := List.append_of_mem hx
  have hc2 := chain_suffix pre _ hch
  rcases spine_in_chain o l (stripPtr e) hc2 (by rw [spineNamed_strip]; exact hs) (isPtr_stripPtr e) with
    ⟨n, h1, h2⟩ | ⟨Y, h1, h2, h3, h4⟩
  · exact ⟨n, by rw [← cycleName_strip]; exact h1, inParents_mem (List.mem_append_right _ h2)⟩
  · exfalso
    have hlast : (pre ++ stripPtr e :: l).getLast? = some Y := by
      rw [getLast?_append_cons]; exact h1
    rw [hl] at hlast
    cases hlast
    have := spine_step o B0 h2 h3
    rw [← hstep h2, spineLen_strip] at this
    rw [spineLen_strip] at h4
    omega

/-! ### every registered name is filled, or belongs to a struct that is still being generated -/
def Filled (σ : St) (m : String) : Prop := ∃ s, (m, m, s) ∈ σ.refs ∧ hasProps s = true
def Pend (ps : List GoType) (σ : St) : Prop :=
  ∀ m, m ∈ σ.comps → Filled σ m ∨ inParents (.named m) ps = true
def PendB (ps : List GoType) (b : GoType) (σ : St) : Prop :=
  ∀ m, m ∈ σ.comps → Filled σ m ∨ (inParents (.named m) ps = true ∧ GoType.named m ≠ b)
def RefsMono (σ σ' : St) : Prop := ∀ e, e ∈ σ.refs → e ∈ σ'.refs

theorem filled_mono {σ σ' : St} (h : RefsMono σ σ') {m : String} (hf : Filled σ m) : Filled σ' m := by
  obtain ⟨s, h1, h2⟩ := hf
  exact ⟨s, h _ h1, h2⟩
theorem pendB_weaken {ps b σ} (h : PendB ps b σ) : Pend ps σ := by
  intro m hm
  rcases h m hm with h1 | h1
  · exact Or.inl h1
  · exact Or.inr h1.1
theorem pendB_of_pend {ps b σ} (hb : ∀ m, GoType.named m ≠ b) (h : Pend ps σ) : PendB ps b σ := by
  intro m hm
  rcases h m hm with h1 | h1
  · exact Or.inl h1
  · exact Or.inr ⟨h1, hb m⟩

theorem genFields_fail_sticky (Δ : Decls) (o : Opts) : ∀ (f : Nat) (ps : List GoType) (cs : List Cand) (a : FAcc),
    a.fail ≠ none → (genFields Δ o f ps cs a).fail ≠ none
  | _, _, [], a, h => by simp only [genFields]; exact h
  | 0, _, _ :: _, a, _ => by simp [genFields]
  | f + 1, ps, c :: cs, a, h => by
      simp only [genFields]
      apply genFields_fail_sticky Δ o f ps cs
      unfold stepField
      generalize childOf o c.ty (genRef Δ o f ps (propName o.all c) c.ty a.σ) = q
      obtain ⟨ch, σ'⟩ := q
      cases ch with
      | some s => exact h
      | skip => exact h
      | fail x =>
        simp only
        cases hf : a.fail with
        | some y => simp
        | none => exact absurd hf h

theorem setProp_ne_nil (k : String) (s : Sch) : ∀ (p : List (String × Sch)), setProp k s p ≠ []
  | [] => by simp [setProp]
  | (k', s') :: r => by simp only [setProp]; split <;> simp

theorem hasProps_structSch {nl : Bool} {props : List (String × Sch)} (h : props ≠ []) : hasProps (structSch nl props) = true := by
  cases props with
  | nil => exact absurd rfl h
  | cons x r => simp [structSch, hasProps]

section PendProof
variable (Δ : Decls) (o : Opts) (d : Dflt o)
include d

/-- what a child position contributes: a generated schema, or a cycle cut that registers a struct of the chain -/
theorem child_pend (f : Nat)
    (ihR : ∀ ps nm t σ, (genRef Δ o f ps nm t σ).2.anon = false → Chain ps →
      (∀ B0, ps.getLast? = some B0 → kindContainer B0 = true → stripPtr t = stripPtr (elemOf B0)) → Pend ps σ →
      ∀ s, (genRef Δ o f ps nm t σ).1 = .ok s → Pend ps (genRef Δ o f ps nm t σ).2 ∧ RefsMono σ (genRef Δ o f ps nm t σ).2)
    (ps : List GoType) (nm : String) (e : GoType) (σ : St) (B0 : GoType)
    (hch : Chain ps) (hl : ps.getLast? = some B0)
    (hstep : kindContainer B0 = true → stripPtr e = stripPtr (elemOf B0)) (hp : Pend ps σ)
    (ha : (childOf o e (genRef Δ o f ps nm e σ)).2.anon = false)
    (hok : ∀ x, (childOf o e (genRef Δ o f ps nm e σ)).1 ≠ .fail x) :
    Pend ps (childOf o e (genRef Δ o f ps nm e σ)).2 ∧ RefsMono σ (childOf o e (genRef Δ o f ps nm e σ)).2 := by
  have hR := ihR ps nm e σ ((childOf_mono o e _).2 ha) hch (by intro B hB hk; rw [hl] at hB; cases hB; exact hstep hk) hp
  have hexcl := (gen_noexcl Δ o d.cust f).1 ps nm e σ
  cases hr : (genRef Δ o f ps nm e σ) with
  | mk r σ1 =>
    rw [hr] at hR ha hok hexcl
    cases r with
    | ok s0 => simpa [childOf] using hR s0 rfl
    | excluded => exact absurd rfl hexcl
    | nofuel => exact absurd rfl (hok .nofuel)
    | err => exact absurd rfl (hok .err)
    | cycle =>
      by_cases hthrow : o.throwCycle = true
      · simp only [childOf, hthrow, if_true] at hok
        exact absurd rfl (hok .cycle)
      · have ht' : o.throwCycle = false := by cases h : o.throwCycle with | true => exact absurd h hthrow | false => rfl
        obtain ⟨hin, hσ⟩ := (gen_nocycle Δ o ht' f).1 ps nm e σ (by rw [hr])
        rw [hr] at hσ
        simp only at hσ
        subst hσ
        by_cases hrec : spineRecs e = true
        · simp only [childOf, ht', hrec, Bool.false_eq_true, if_false, if_true, note]
          exact ⟨hp, fun e he => he⟩
        · simp only [childOf, ht', hrec, Bool.false_eq_true, if_false, note] at ha ⊢
          have hsp : spineNamed e = true := by
            simp only [addComp] at ha
            cases hs : spineNamed e with
            | true => rfl
            | false => simp [hs] at ha
          obtain ⟨n, hn1, hn2⟩ := cut_named o hch hl hstep hin hsp
          rw [typeName_dflt d] at hn1
          refine ⟨?_, fun e he => he⟩
          intro m hm
          simp only [addComp] at hm
          have hm' : m = cycleName o e ∨ m ∈ σ1.comps := by
            split at hm
            · exact Or.inr hm
            · rcases List.mem_cons.mp hm with h | h
              · exact Or.inl h
              · exact Or.inr h
          rcases hm' with rfl | hm'
          · right; rw [hn1]; exact hn2
          · rcases hp m hm' with ⟨s, h1, h2⟩ | h1
            · exact Or.inl ⟨s, h1, h2⟩
            · exact Or.inr h1

theorem gen_pend : ∀ (f : Nat),
    (∀ ps nm t σ, (genRef Δ o f ps nm t σ).2.anon = false → Chain ps →
      (∀ B0, ps.getLast? = some B0 → kindContainer B0 = true → stripPtr t = stripPtr (elemOf B0)) → Pend ps σ →
      ∀ s, (genRef Δ o f ps nm t σ).1 = .ok s → Pend ps (genRef Δ o f ps nm t σ).2 ∧ RefsMono σ (genRef Δ o f ps nm t σ).2) ∧
    (∀ ps top nm nl b B0 σ, (genBody Δ o f ps top nm nl b σ).2.anon = false → Chain ps → ps.getLast? = some B0 →
      elemOf B0 = elemOf b → kindContainer B0 = kindContainer b → PendB ps b σ →
      ∀ s, (genBody Δ o f ps top nm nl b σ).1 = .ok s →
        PendB ps b (genBody Δ o f ps top nm nl b σ).2 ∧ RefsMono σ (genBody Δ o f ps top nm nl b σ).2) ∧
    (∀ ps cs a B0, (genFields Δ o f ps cs a).σ.anon = false → (genFields Δ o f ps cs a).fail = none → Chain ps →
      ps.getLast? = some B0 → kindContainer B0 = false → Pend ps a.σ →
      Pend ps (genFields Δ o f ps cs a).σ ∧ RefsMono a.σ (genFields Δ o f ps cs a).σ ∧
      (cs ≠ [] → (genFields Δ o f ps cs a).props ≠ []) ∧ (a.props ≠ [] → (genFields Δ o f ps cs a).props ≠ []))
  | 0 => by
      refine ⟨fun _ _ _ _ _ _ _ _ s h => by simp [genRef] at h, fun _ _ _ _ _ _ _ _ _ _ _ _ _ s h => by simp [genBody] at h, ?_⟩
      intro ps cs a B0 _ hf _ _ _ hp
      cases cs with
      | nil => simp only [genFields]; exact ⟨hp, fun e he => he, fun h => absurd rfl h, fun h => h⟩
      | cons c cs => simp [genFields] at hf
  | f + 1 => by
      obtain ⟨ihR, ihB, ihF⟩ := gen_pend f
      obtain ⟨mR, mB, mF⟩ := gen_mono Δ o f
      refine ⟨?_, ?_, ?_⟩
      · -- genRef
        intro ps nm t σ ha hch hstep hp s hs
        simp only [genRef, d.cust, Bool.false_eq_true, if_false] at ha hs ⊢
        cases hl : cacheLookup t σ.cache with
        | some s0 =>
          simp only [hl] at ha hs ⊢
          exact ⟨hp, fun e he => he⟩
        | none =>
          simp only [hl] at ha hs ⊢
          by_cases hin : inParents (stripPtr t) ps = true
          · simp [hin] at hs
          · simp only [hin, Bool.false_eq_true, if_false] at ha hs ⊢
            have hin' : inParents (stripPtr t) ps = false := by
              cases h : inParents (stripPtr t) ps with | true => exact absurd h hin | false => rfl
            -- the body below the extended chain
            have hch' : Chain (ps ++ [stripPtr t]) := by
              cases hgl : ps.getLast? with
              | none =>
                have : ps = [] := by simpa using hgl
                subst this; simp [Chain]
              | some B0 => exact chain_snoc ps B0 _ hch hgl (hstep B0 hgl)
            have hpb : PendB (ps ++ [stripPtr t]) (stripPtr t) σ := by
              intro m hm
              rcases hp m hm with h1 | h1
              · exact Or.inl h1
              · refine Or.inr ⟨by simp [inParents_append, h1], ?_⟩
                intro he; rw [← he, h1] at hin'; cases hin'
            generalize hq : genBody Δ o f (ps ++ [stripPtr t]) ps.isEmpty nm (isPtr t && !ps.isEmpty) (stripPtr t) σ = q at ha hs ⊢
            have hB := ihB (ps ++ [stripPtr t]) ps.isEmpty nm (isPtr t && !ps.isEmpty) (stripPtr t) (stripPtr t) σ
              (by rw [hq]; exact (finishR_mono _ t q).2 ha) hch' (by simp) rfl rfl hpb
            rw [hq] at hB
            obtain ⟨r, σ'⟩ := q
            cases r with
            | ok s1 =>
              obtain ⟨h1, h2⟩ := hB s1 rfl
              (by_cases hc : (ps.isEmpty && isPtr t) = true) <;>
                simp only [finishR, hc, finish, if_true, if_false, Bool.false_eq_true] <;>
                (refine ⟨?_, h2⟩
                 intro m hm
                 rcases h1 m hm with ⟨s2, h3, h4⟩ | ⟨h3, h4⟩
                 · exact Or.inl ⟨s2, h3, h4⟩
                 · right
                   simp only [inParents_append, Bool.or_eq_true] at h3
                   rcases h3 with h3 | h3
                   · exact h3
                   · exact absurd (GoType.beq_eq _ _ h3) h4)
            | cycle | nofuel | excluded | err => unfold finishR at hs; split at hs <;> simp [finish] at hs
      · -- genBody
        intro ps top nm nl b B0 σ ha hch hl hel hk hp s hs
        cases b with
        | bool | int _ | float _ | string | bytes | time | array _ _ =>
          simp only [genBody, custom_dflt d] at ha hs ⊢
          exact ⟨hp, fun e he => he⟩
        | ptr _ => simp only [genBody] at ha hs ⊢; exact ⟨hp, fun e he => he⟩
        | defd n t =>
          simp only [genBody] at ha hs ⊢
          by_cases hsk : isStructKind t = true
          · simp only [hsk, if_true] at ha hs ⊢
            exact ⟨hp, fun e he => he⟩
          · simp only [hsk, Bool.false_eq_true, if_false] at ha hs ⊢
            have hnn : ∀ m, GoType.named m ≠ t := by
              intro m he; subst he; simp [isStructKind, under] at hsk
            obtain ⟨h1, h2⟩ := ihB ps top nm nl t B0 σ ha hch hl (by simpa [elemOf] using hel) (by simpa [kindContainer] using hk)
              (pendB_of_pend hnn (pendB_weaken hp)) s hs
            exact ⟨pendB_of_pend (by intro m; simp) (pendB_weaken h1), h2⟩
        | slice e =>
          simp only [genBody, custom_dflt d] at ha hs ⊢
          by_cases h8 : isU8 e = true
          · simp only [h8, if_true] at ha hs ⊢
            exact ⟨hp, fun e he => he⟩
          · simp only [h8, Bool.false_eq_true, if_false] at ha hs ⊢
            rw [sliceOf_snd] at ha ⊢
            have hok : ∀ x, (childOf o e (genRef Δ o f ps nm e σ)).1 ≠ .fail x := by
              intro x hx
              generalize childOf o e (genRef Δ o f ps nm e σ) = q at hs hx
              obtain ⟨c, σ'⟩ := q
              simp only at hx; subst hx
              exact absurd hs (Fail.toR_ne_ok x s)
            obtain ⟨h1, h2⟩ := child_pend Δ o d f ihR ps nm e σ B0 hch hl
              (by intro _; rw [hel]; simp [elemOf]) (pendB_weaken hp) ha hok
            exact ⟨pendB_of_pend (by intro m; simp) h1, h2⟩
        | map e =>
          simp only [genBody, custom_dflt d] at ha hs ⊢
          rw [mapOf_snd] at ha ⊢
          have hok : ∀ x, (childOf o e (genRef Δ o f ps nm e σ)).1 ≠ .fail x := by
            intro x hx
            generalize childOf o e (genRef Δ o f ps nm e σ) = q at hs hx
            obtain ⟨c, σ'⟩ := q
            simp only at hx; subst hx
            exact absurd hs (Fail.toR_ne_ok x s)
          obtain ⟨h1, h2⟩ := child_pend Δ o d f ihR ps nm e σ B0 hch hl
            (by intro _; rw [hel]; simp [elemOf]) (pendB_weaken hp) ha hok
          exact ⟨pendB_of_pend (by intro m; simp) h1, h2⟩
        | recs m =>
          simp only [genBody, custom_dflt d] at ha hs ⊢
          have hsnd : ((if m = true then mapOf nl else sliceOf nl) (childOf o (.recs m) (genRef Δ o f ps nm (.recs m) σ))).2 =
              (childOf o (.recs m) (genRef Δ o f ps nm (.recs m) σ)).2 := by
            cases m
            · simp only [Bool.false_eq_true, if_false]; exact sliceOf_snd _ _
            · simp only [if_true]; exact mapOf_snd _ _
          rw [hsnd] at ha ⊢
          have hok : ∀ x, (childOf o (.recs m) (genRef Δ o f ps nm (.recs m) σ)).1 ≠ .fail x := by
            intro x hx
            generalize childOf o (.recs m) (genRef Δ o f ps nm (.recs m) σ) = q at hs hx
            obtain ⟨c, σ'⟩ := q
            simp only at hx; subst hx
            cases m
            · simp only [Bool.false_eq_true, if_false, sliceOf] at hs; exact absurd hs (Fail.toR_ne_ok x s)
            · simp only [if_true, mapOf] at hs; exact absurd hs (Fail.toR_ne_ok x s)
          obtain ⟨h1, h2⟩ := child_pend Δ o d f ihR ps nm (.recs m) σ B0 hch hl
            (by intro _; rw [hel]; simp [elemOf]) (pendB_weaken hp) ha hok
          exact ⟨pendB_of_pend (by intro m; simp) h1, h2⟩
        | struct fs =>
          simp only [genBody, d.exp, Bool.false_and, Bool.false_eq_true, if_false] at ha hs ⊢
          generalize hq : genFields Δ o f ps (gcands o.all fs) { props := [], σ := σ } = a' at ha hs ⊢
          have hf : a'.fail = none := by
            cases hf : a'.fail with
            | none => rfl
            | some x => simp [structEnd, hf] at hs; exact absurd hs (Fail.toR_ne_ok x s)
          rw [structEnd_dflt d _ _ _ _ _ hf] at ha hs ⊢
          obtain ⟨h1, h2, _, _⟩ := ihF ps (gcands o.all fs) { props := [], σ := σ } B0 (by rw [hq]; exact ha) (by rw [hq]; exact hf)
            hch hl (by rw [hk]; simp [kindContainer]) (pendB_weaken hp)
          rw [hq] at h1 h2
          refine ⟨?_, fun e he => List.mem_cons_of_mem _ (h2 e he)⟩
          apply pendB_of_pend (by intro m; simp)
          intro m hm
          rcases h1 m hm with ⟨s2, h3, h4⟩ | h3
          · exact Or.inl ⟨s2, List.mem_cons_of_mem _ h3, h4⟩
          · exact Or.inr h3
        | named n =>
          simp only [genBody, d.exp, Bool.false_and, Bool.false_eq_true, if_false] at ha hs ⊢
          generalize hq : genFields Δ o f ps (gcands o.all ((lookup n Δ).getD [])) { props := [], σ := σ } = a' at ha hs ⊢
          have hf : a'.fail = none := by
            cases hf : a'.fail with
            | none => rfl
            | some x => simp [structEnd, hf] at hs; exact absurd hs (Fail.toR_ne_ok x s)
          rw [structEnd_dflt d _ _ _ _ _ hf] at ha hs ⊢
          obtain ⟨h1, h2, h3, _⟩ := ihF ps (gcands o.all ((lookup n Δ).getD [])) { props := [], σ := σ } B0 (by rw [hq]; exact ha)
            (by rw [hq]; exact hf) hch hl (by rw [hk]; simp [kindContainer]) (pendB_weaken hp)
          rw [hq] at h1 h2 h3
          refine ⟨?_, fun e he => List.mem_cons_of_mem _ (h2 e he)⟩
          intro m hm
          by_cases hmn : m = n
          · subst hmn
            left
            by_cases hstart : m ∈ σ.comps
            · rcases hp m hstart with ⟨s2, h4, h5⟩ | ⟨_, h5⟩
              · exact ⟨s2, List.mem_cons_of_mem _ (h2 _ h4), h5⟩
              · exact absurd rfl h5
            · have hne : gcands o.all ((lookup m Δ).getD []) ≠ [] := by
                intro he
                rw [he] at hq
                cases f <;> simp [genFields] at hq <;> (subst hq; exact hstart hm)
              exact ⟨structSch nl a'.props, List.mem_cons_self .., hasProps_structSch (h3 hne)⟩
          · rcases h1 m hm with ⟨s2, h4, h5⟩ | h4
            · exact Or.inl ⟨s2, List.mem_cons_of_mem _ h4, h5⟩
            · exact Or.inr ⟨h4, by intro he; cases he; exact hmn rfl⟩
      · -- genFields
        intro ps cs a B0 ha hf hch hl hk hp
        cases cs with
        | nil => simp only [genFields]; exact ⟨hp, fun e he => he, fun h => absurd rfl h, fun h => h⟩
        | cons c cs =>
          simp only [genFields] at ha hf ⊢
          generalize hq : stepField o c a (genRef Δ o f ps (propName o.all c) c.ty a.σ) = a1 at ha hf ⊢
          have ha1 : a1.σ.anon = false := (mF ps cs a1).2 ha
          have hf1 : a1.fail = none := by
            cases h : a1.fail with
            | none => rfl
            | some x => exact absurd hf (genFields_fail_sticky Δ o f ps cs a1 (by simp [h]))
          have hσ1 : a1.σ = (childOf o c.ty (genRef Δ o f ps (propName o.all c) c.ty a.σ)).2 := by
            rw [← hq]; exact stepField_σ ..
          have hok : ∀ x, (childOf o c.ty (genRef Δ o f ps (propName o.all c) c.ty a.σ)).1 ≠ .fail x := by
            intro x hx
            rw [← hq] at hf1
            unfold stepField at hf1
            generalize childOf o c.ty (genRef Δ o f ps (propName o.all c) c.ty a.σ) = q at hf1 hx
            obtain ⟨ch, σ'⟩ := q
            simp only at hx; subst hx
            simp only at hf1
            cases h : a.fail <;> simp [h] at hf1
          obtain ⟨h1, h2⟩ := child_pend Δ o d f ihR ps (propName o.all c) c.ty a.σ B0 hch hl
            (by intro h; rw [hk] at h; cases h) hp (by rw [← hσ1]; exact ha1) hok
          rw [← hσ1] at h1 h2
          -- the property is set (nothing is excluded without a customizer)
          have hprops : a1.props ≠ [] := by
            rw [← hq]
            unfold stepField
            have hne := (gen_noexcl Δ o d.cust f).1 ps (propName o.all c) c.ty a.σ
            generalize hr : genRef Δ o f ps (propName o.all c) c.ty a.σ = r at hok hne ⊢
            obtain ⟨x, σ'⟩ := r
            cases x with
            | excluded => exact absurd rfl hne
            | ok s0 => simp only [childOf]; exact setProp_ne_nil _ _ _
            | nofuel => exact absurd rfl (hok .nofuel)
            | err => exact absurd rfl (hok .err)
            | cycle =>
              generalize hcq : childOf o c.ty (R.cycle, σ') = q at hok ⊢
              obtain ⟨ch, σ''⟩ := q
              cases ch with
              | some s0 => simp only; exact setProp_ne_nil _ _ _
              | fail x => exact absurd rfl (hok x)
              | skip =>
                simp only [childOf] at hcq
                split at hcq
                · cases hcq
                · split at hcq <;> cases hcq
          obtain ⟨g1, g2, _, g4⟩ := ihF ps cs a1 B0 ha hf hch hl hk h1
          exact ⟨g1, fun e he => g2 e (h2 e he), fun _ => g4 hprops, fun _ => g4 hprops⟩
end PendProof

/-- **No dangling component under the default option set.** -/
theorem default_no_dangling (Δ : Decls) (o : Opts) (d : Dflt o) (fuel : Nat) (t : GoType) (s : Sch) (σ : St)
    (hg : genRoot Δ o fuel t = (.ok s, σ)) (ha : σ.anon = false) : danglingB σ = false := by
  unfold genRoot at hg
  have h := (gen_pend Δ o d fuel).1 [] "_root" t {} (by rw [hg]; exact ha) trivial (by intro B h; simp at h)
    (by intro m hm; cases hm) s (by rw [hg])
  rw [hg] at h
  unfold danglingB
  rw [List.any_eq_false]
  intro m hm
  rcases h.1 m hm with ⟨s', h1, h2⟩ | h1
  · have : s' ∈ candidatesFor σ m := by
      simp only [candidatesFor, List.mem_map, List.mem_filter, Bool.and_eq_true, beq_iff_eq]
      exact ⟨(m, m, s'), ⟨h1, rfl, h2⟩, rfl⟩
    cases hc : candidatesFor σ m with
    | nil => rw [hc] at this; cases this
    | cons x r => simp
  · simp [inParents] at h1

/-! ### under the default option set every stored entry is keyed by the Go name of its own type -/
def Shape (σ : St) : Prop := ∀ e, e ∈ σ.refs → e.1 = e.2.1

theorem childOf_refs (o : Opts) (e : GoType) (p : R × St) : (childOf o e p).2.refs = p.2.refs := by
  obtain ⟨r, σ⟩ := p
  cases r <;> simp only [childOf]
  split
  · rfl
  · split <;> simp [note, addComp]
theorem finishR_refs (b : Bool) (t : GoType) (p : R × St) : (finishR b t p).2.refs = p.2.refs := by
  unfold finishR; split
  · rfl
  · obtain ⟨r, σ⟩ := p; cases r <;> rfl
theorem finish_refs (t : GoType) (p : R × St) : (finish t p).2.refs = p.2.refs := by
  obtain ⟨r, σ⟩ := p
  cases r <;> rfl

theorem structEnd_shape {o : Opts} (d : Dflt o) (top : Bool) (nm : String) (nl : Bool) (n : String) (a : FAcc)
    (h : Shape a.σ) : Shape (structEnd o top nm nl n a).2 := by
  cases hf : a.fail with
  | some x => simp only [structEnd, hf]; exact h
  | none =>
    rw [structEnd_dflt d _ _ _ _ _ hf]
    intro e he
    rcases List.mem_cons.mp he with rfl | he
    · rfl
    · exact h e he

theorem gen_shape (Δ : Decls) (o : Opts) (d : Dflt o) : ∀ (f : Nat),
    (∀ ps nm t σ, Shape σ → Shape (genRef Δ o f ps nm t σ).2) ∧
    (∀ ps top nm nl b σ, Shape σ → Shape (genBody Δ o f ps top nm nl b σ).2) ∧
    (∀ ps cs a, Shape a.σ → Shape (genFields Δ o f ps cs a).σ)
  | 0 => by
      refine ⟨fun _ _ _ σ h => by simpa [genRef] using h, fun _ _ _ _ _ σ h => by simpa [genBody] using h, ?_⟩
      intro ps cs a h
      cases cs <;> simpa [genFields] using h
  | f + 1 => by
      obtain ⟨ihR, ihB, ihF⟩ := gen_shape Δ o d f
      have hchild : ∀ ps nm e σ, Shape σ → Shape (childOf o e (genRef Δ o f ps nm e σ)).2 := by
        intro ps nm e σ h x hx
        rw [childOf_refs] at hx
        exact ihR ps nm e σ h x hx
      refine ⟨?_, ?_, ?_⟩
      · intro ps nm t σ h
        simp only [genRef]
        split
        · exact h
        · split
          · exact h
          · intro x hx
            rw [finishR_refs] at hx
            exact ihB _ _ _ _ _ σ h x hx
      · intro ps top nm nl b σ h
        cases b with
        | bool | int _ | float _ | string | bytes | time | array _ _ => simp only [genBody, custom_dflt d]; exact h
        | ptr _ => simp only [genBody]; exact h
        | defd n t => simp only [genBody]; split <;> first | exact ihB _ _ _ _ _ σ h | exact h
        | slice e =>
          simp only [genBody, custom_dflt d]
          split
          · exact h
          · rw [sliceOf_snd]; exact hchild _ _ _ _ h
        | map e => simp only [genBody, custom_dflt d]; rw [mapOf_snd]; exact hchild _ _ _ _ h
        | recs m =>
          simp only [genBody, custom_dflt d]
          cases m
          · simp only [Bool.false_eq_true, if_false]; rw [sliceOf_snd]; exact hchild _ _ _ _ h
          · simp only [if_true]; rw [mapOf_snd]; exact hchild _ _ _ _ h
        | struct fs =>
          simp only [genBody, d.exp, Bool.false_and, Bool.false_eq_true, if_false]
          exact structEnd_shape d _ _ _ _ _ (ihF _ _ { props := [], σ := σ } h)
        | named n =>
          simp only [genBody, d.exp, Bool.false_and, Bool.false_eq_true, if_false]
          exact structEnd_shape d _ _ _ _ _ (ihF _ _ { props := [], σ := σ } h)
      · intro ps cs a h
        cases cs with
        | nil => simp only [genFields]; exact h
        | cons c cs =>
          simp only [genFields]
          apply ihF
          rw [stepField_σ]
          exact hchild _ _ _ _ h

/-- under the default option set, when no component is named "" (the name every anonymous struct is stored under),
    `WrongComponent` is the ghost flag alone -/
theorem default_wrong_iff_anon (Δ : Decls) (o : Opts) (d : Dflt o) (fuel : Nat) (t : GoType) (σ : St) (r : R)
    (hg : genRoot Δ o fuel t = (r, σ)) (he : "" ∉ σ.comps) : wrongCandB o σ = σ.anon := by
  have hs : Shape σ := by
    have := (gen_shape Δ o d fuel).1 [] "_root" t {} (by intro e he; cases he)
    unfold genRoot at hg; rw [hg] at this; exact this
  unfold wrongCandB
  have : (σ.refs.any fun p => σ.comps.contains p.1 && hasProps p.2.2 && (p.2.1 == "" || typeName o p.2.1 != p.1)) = false := by
    rw [List.any_eq_false]
    intro e hmem
    have h1 := hs e hmem
    simp only [typeName_dflt d, Bool.and_eq_true, Bool.or_eq_true, not_and]
    intro ⟨hc, _⟩ hor
    rcases hor with h2 | h2
    · have : e.1 = "" := by rw [h1]; simpa using h2
      rw [this] at hc
      exact he (by simpa using hc)
    · simp [h1] at h2
  rw [this]; simp

end KinModel.Gen3
