/- Helper lemmas for the media-type part of C13 (KinModel/C13Media.lean). -/
import KinModel.C13Media
import KinModel.Lemmas.C13Stream
import KinModel.Lemmas.C13Body
namespace KinModel.C13.Media
open Stream Body

/-- `bodyOutcome` in stages -/
theorem bodyOutcome_eq (c : Ctx) (declared : List (String × Option S)) (header : String) (cd : Codec) (data : Bytes) :
    bodyOutcome c declared header cd data =
      (if declared.isEmpty then .accept
       else match contentGet (declared.map (·.1)) header with
        | none => .reject
        | some key =>
          match schemaOf key declared with
          | some (some s) =>
            (match decoded header cd data with
             | none => .reject
             | some v => (match visit c s v with | none => .reject | some v' => finish c header cd (touched c s v) v'))
          | _ => .accept) := by
  rfl

theorem specOutcome_eq (c : Ctx) (declared : List (String × Option S)) (header : String) (cd : Codec) (data : Bytes) :
    specOutcome c declared header cd data =
      (if declared.isEmpty then .accept
       else match contentGet (declared.map (·.1)) header with
        | none => .reject
        | some key =>
          match schemaOf key declared with
          | some (some s) =>
            (match decoded header cd data with
             | none => .reject
             | some v => (match specVisit c s v with | none => .reject | some v' => finishSpec c cd v v'))
          | _ => .accept) := by
  rfl

theorem noBodyEncoder_eq (c : Ctx) (declared : List (String × Option S)) (header : String) (cd : Codec) (data : Bytes) :
    NoBodyEncoder c declared header cd data =
      (c.setDefaults && !hasEncoder (base header) &&
       (match contentGet (declared.map (·.1)) header with
        | some key =>
          (match schemaOf key declared with
           | some (some s) =>
             (match decoded header cd data with
              | some v => (match visit c s v with | some _ => touched c s v | none => false)
              | none => false)
           | _ => false)
        | none => false)) := by
  rfl

theorem schemaOf_wf (key : String) : ∀ (declared : List (String × Option S)) (s : S), declaredWf declared = true →
    schemaOf key declared = some (some s) → wf s = true
  | [], _, _, h => by simp [schemaOf] at h
  | (k, os) :: r, s, hw, h => by
    simp only [schemaOf] at h
    split at h
    · cases h
      simp only [declaredWf, Bool.and_eq_true] at hw
      exact hw.1
    · cases os with
      | none => exact schemaOf_wf key r s (by simpa [declaredWf] using hw) h
      | some s' =>
        simp only [declaredWf, Bool.and_eq_true] at hw
        exact schemaOf_wf key r s hw.2 h

/-- a scalar string is forwarded as it is (so a text/plain body is never rewritten) -/
def strKept (v v' : J) : Prop := ∀ t, v = .str t → v' = v

theorem relOK_strKept (c : Ctx) : RelOK c strKept where
  refl _ _ _ := rfl
  trans a b d h1 h2 t ht := by rw [h2 t (by rw [h1 t ht, ht]), h1 t ht]
  arr _ _ _ t ht := by cases ht
  set _ _ _ _ _ _ t ht := by cases ht
  pre _ _ _ _ _ _ t ht := by cases ht

theorem visit_str (c : Ctx) (s : S) (t : String) (v' : J) (h : visit c s (.str t) = some v') : v' = .str t :=
  visit_rel (relOK_strKept c) s (.str t) v' h t rfl

/-- a string is never an object: an accepted visit of it sets no default -/
theorem touched_str (c : Ctx) (s : S) (t : String) (v' : J) (h : visit c s (.str t) = some v') :
    touched c s (.str t) = false := by
  cases ht : touched c s (.str t) with
  | false => rfl
  | true =>
    have := touched_grows c s (.str t) v' h ht
    rw [visit_str c s t v' h] at this
    omega

theorem J.beq_refl : ∀ (a : J), J.beq a a = true := by
  intro a
  refine J.rec (motive_1 := fun a => J.beq a a = true)
    (motive_2 := fun xs => J.beqList xs xs = true)
    (motive_3 := fun kvs => J.beqKvs kvs kvs = true)
    (motive_4 := fun p => J.beq p.2 p.2 = true) ?_ ?_ ?_ ?_ ?_ ?_ ?_ ?_ ?_ ?_ ?_ a
  · simp [J.beq]
  · intro b; simp [J.beq]
  · intro n; simp [J.beq]
  · intro t; simp [J.beq]
  · intro xs ih; simpa [J.beq] using ih
  · intro kvs ih; simpa [J.beq] using ih
  · simp [J.beqList]
  · intro x xs h1 h2; simp [J.beqList, h1, h2]
  · simp [J.beqKvs]
  · intro p r h1 h2; obtain ⟨k, x⟩ := p; simp [J.beqKvs, h2]; exact h1
  · intro k x ih; exact ih

end KinModel.C13.Media
