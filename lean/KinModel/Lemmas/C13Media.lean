/- Helper lemmas for the media-type part of C13 (KinModel/C13Media.lean). -/
import KinModel.C13Media
import KinModel.Lemmas.C13Stream
namespace KinModel.C13.Media
open Stream Body

/-- `bodyOutcome` in stages -/
theorem bodyOutcome_eq (c : Ctx) (declared : List (String × Option S)) (header : String)
    (parse : Bytes → Option J) (text : Bytes → J) (enc : J → Bytes) (data : Bytes) :
    bodyOutcome c declared header parse text enc data =
      (if declared.isEmpty then .accept
       else match contentGet (declared.map (·.1)) header with
        | none => .reject
        | some key =>
          match schemaOf key declared with
          | some (some s) =>
            (match decoded header parse text data with
             | none => .reject
             | some v => (match visit c s v with | none => .reject | some v' => finish c header enc v v'))
          | _ => .accept) := by
  rfl

theorem specOutcome_eq (c : Ctx) (declared : List (String × Option S)) (header : String)
    (parse : Bytes → Option J) (text : Bytes → J) (enc : J → Bytes) (data : Bytes) :
    specOutcome c declared header parse text enc data =
      (if declared.isEmpty then .accept
       else match contentGet (declared.map (·.1)) header with
        | none => .reject
        | some key =>
          match schemaOf key declared with
          | some (some s) =>
            (match decoded header parse text data with
             | none => .reject
             | some v => (match visit c s v with | none => .reject | some v' => finishSpec c enc v v'))
          | _ => .accept) := by
  rfl

theorem noBodyEncoder_eq (c : Ctx) (declared : List (String × Option S)) (header : String)
    (parse : Bytes → Option J) (text : Bytes → J) (data : Bytes) :
    NoBodyEncoder c declared header parse text data =
      (c.setDefaults && !hasEncoder (base header) &&
       (match contentGet (declared.map (·.1)) header with
        | some key =>
          (match schemaOf key declared with
           | some (some s) =>
             (match decoded header parse text data with
              | some v => (match visit c s v with | some v' => !(J.beq v' v) | none => false)
              | none => false)
           | _ => false)
        | none => false)) := by
  rfl

end KinModel.C13.Media
