/- Concrete inputs used by the witness theorems and non-vacuity examples of Props/C09.lean (definitions only). -/
import KinModel.RouterSpec
namespace KinModel.Router.W

def s (x : String) : Str := x.toList
def get : Str := s "GET"
def post : Str := s "POST"
def req (m p : String) : Req := ⟨s m, true, s "http", s "localhost", s p⟩

/-- #14: template /b/{x}, request GET /b -/
def d14 : Doc := ⟨[⟨s "/b/{x}", [get], []⟩], []⟩
/-- #14: template /a/{x}/c/{y}, request GET /a//c/1 -/
def d14b : Doc := ⟨[⟨s "/a/{x}/c/{y}", [get], []⟩], []⟩
/-- #14: template /a/{x}, request GET /a/zz/ -/
def d14c : Doc := ⟨[⟨s "/a/{x}", [get], []⟩], []⟩
/-- #40: /a/{x} declares GET, literal /a/b declares only POST -/
def d40 : Doc := ⟨[⟨s "/a/{x}", [get], []⟩, ⟨s "/a/b", [post], []⟩], []⟩
/-- #33: server https://{env}.example.com with enum [prod, dev] -/
def d33 : Doc := ⟨[⟨s "/a", [get], []⟩], [⟨s "https://{env}.example.com", [⟨s "env", s "prod", [s "prod", s "dev"]⟩]⟩]⟩
def r33 : Req := ⟨get, true, s "https", s "qa.example.com", s "/a"⟩
def r33ok : Req := ⟨get, true, s "https", s "dev.example.com", s "/a"⟩
/-- documented legacy limitation: /books/{id}.json -/
def dMid : Doc := ⟨[⟨s "/books/{id}.json", [get], []⟩], []⟩
/-- legacy URL form: relative server, absolute request URL -/
def dForm : Doc := ⟨[⟨s "/a", [get], []⟩], [⟨s "/v1", []⟩]⟩
def rFormAbs : Req := ⟨get, true, s "http", s "localhost", s "/v1/a"⟩
def rFormRel : Req := ⟨get, false, s "http", s "localhost", s "/v1/a"⟩
/-- a non-trivial family: shared prefixes, literal/templated siblings, two variables, mid-segment variable -/
def dFam : Doc := ⟨[⟨s "/a/{x}", [get, post], []⟩, ⟨s "/a/b", [get], []⟩, ⟨s "/a/{x}/c/{y}", [get], []⟩, ⟨s "/report.{format}", [get], []⟩],
  [⟨s "https://{env}.example.com:{port}/v1/", [⟨s "env", s "prod", [s "prod", s "dev"]⟩, ⟨s "port", s "8443", []⟩]⟩]⟩
def rFam (m p : String) : Req := ⟨s m, true, s "https", s "dev.example.com:8443", s p⟩

/-- legacy first-server commitment: two servers match the URL, only the second one leads to a template -/
def dFirst : Doc := ⟨[⟨s "/b", [s "PUT"], []⟩],
  [⟨s "{scheme}://api.test", [⟨s "scheme", s "https", [s "https", s "http"]⟩]⟩,
   ⟨s "https://api.test/{ver}", [⟨s "ver", s "v1", [s "v1", s "v2"]⟩]⟩]⟩
def rFirst : Req := ⟨s "PUT", true, s "https", s "api.test", s "/v2/b"⟩

/-- two document-level servers with different base paths -/
def dTwo : Doc := ⟨[⟨s "/a", [get], []⟩, ⟨s "/b/{x}", [get], []⟩], [⟨s "/v1", []⟩, ⟨s "/v2/x", []⟩]⟩
def reqRel (m p : String) : Req := ⟨s m, false, s "http", s "localhost", s p⟩
/-- two keys at one node of the legacy trie -/
def dColl : Doc := ⟨[⟨s "/a", [get], []⟩, ⟨s "/a/", [get], []⟩], []⟩
/-- path-item level servers: /b has its own, /a has none; matching order is /b, /a -/
def dLeak : Doc := ⟨[⟨s "/a", [get], []⟩, ⟨s "/b", [get], [⟨s "/p", []⟩]⟩], [⟨s "/v1", []⟩]⟩
/-- path-item level servers on the only path -/
def dPathSrv : Doc := ⟨[⟨s "/a", [get], [⟨s "/p", []⟩]⟩], [⟨s "/v1", []⟩]⟩

/-- host variable without enum -/
def dDot : Doc := ⟨[⟨s "/a", [get], []⟩], [⟨s "https://{tenant}.api.test", [⟨s "tenant", s "acme", []⟩]⟩]⟩
def rDot : Req := ⟨get, true, s "https", s "a.b.api.test", s "/a"⟩
def rDotOK : Req := ⟨get, true, s "https", s "acme.api.test", s "/a"⟩

end KinModel.Router.W
