/- Helper lemmas for C15 (not property statements): the history / reuse dimension — what holds of the state
   that a clean history leaves behind, and how observations split over a history followed by a call. Core-only. -/
import KinModel.Conc
namespace KinModel.Conc

/-- lazily initialised cells stay initialised along a clean trace -/
theorem lazy_final (k : Cfg) : ∀ (tr : Trace) (σ : State), CleanTrace k tr → LazyInit k σ →
    LazyInit k (finalState σ tr)
  | [], _, _, hl => by simpa [finalState] using hl
  | (i, a) :: tr, σ, hc, hl => by
    have hca : cleanAct k a = true := hc (i, a) (by simp)
    simp only [finalState]
    exact lazy_final k tr (stepState σ a) (fun x hx => hc x (by simp [hx])) (lazy_step k σ a hca hl)

/-- read-back caches stay coherent along a clean trace -/
theorem coherent_final (k : Cfg) : ∀ (tr : Trace) (σ : State), CleanTrace k tr → Coherent k σ →
    Coherent k (finalState σ tr)
  | [], _, _, hco => by simpa [finalState] using hco
  | (i, a) :: tr, σ, hc, hco => by
    have hca : cleanAct k a = true := hc (i, a) (by simp)
    simp only [finalState]
    exact coherent_final k tr (stepState σ a) (fun x hx => hc x (by simp [hx])) (coherent_step k σ a hca hco)

theorem finalState_append : ∀ (t1 t2 : Trace) (σ : State),
    finalState σ (t1 ++ t2) = finalState (finalState σ t1) t2
  | [], _, _ => rfl
  | (_, a) :: t1, t2, σ => by simp only [List.cons_append, finalState]; exact finalState_append t1 t2 _

theorem consObs_append (o : Option Val) (l m : List Val) : consObs o (l ++ m) = consObs o l ++ m := by
  cases o <;> rfl

/-- the observations of a thread over a history followed by a continuation -/
theorem readsOf_append (i : Nat) : ∀ (t1 t2 : Trace) (σ : State),
    readsOf i σ (t1 ++ t2) = readsOf i σ t1 ++ readsOf i (finalState σ t1) t2
  | [], _, _ => rfl
  | (j, a) :: t1, t2, σ => by
    simp only [List.cons_append, readsOf, finalState]
    rw [readsOf_append i t1 t2 (stepState σ a)]
    by_cases h : j = i
    · simp only [h, if_true]; exact consObs_append _ _ _
    · simp only [h, if_false]

theorem proj_append (i : Nat) : ∀ (t1 t2 : Trace), proj i (t1 ++ t2) = proj i t1 ++ proj i t2
  | [], _ => rfl
  | (j, a) :: t1, t2 => by
    by_cases h : j = i <;> simp [proj, h, proj_append i t1 t2]

theorem solo_append : ∀ (as bs : List Act) (σ : State),
    solo σ (as ++ bs) = solo σ as ++ solo (finalState σ (as.map (fun a => (0, a)))) bs
  | [], _, _ => rfl
  | a :: as, bs, σ => by
    simp only [List.cons_append, solo, List.map_cons, finalState]
    rw [solo_append as bs (stepState σ a)]; exact consObs_append _ _ _

theorem cleanTrace_append (k : Cfg) (t1 t2 : Trace) (h1 : CleanTrace k t1) (h2 : CleanTrace k t2) :
    CleanTrace k (t1 ++ t2) := by
  intro x hx
  rcases List.mem_append.mp hx with h | h
  · exact h1 x h
  · exact h2 x h

/-- the calls `cs` (footprints), performed one after the other by thread `i` -/
def callsTrace (i : Nat) (cs : List (List Act)) : Trace := (cs.flatten).map (fun a => (i, a))

theorem proj_own (i : Nat) : ∀ as : List Act, proj i (as.map (fun a => (i, a))) = as
  | [] => rfl
  | a :: as => by simp [proj, proj_own i as]

theorem mem_proj (i : Nat) : ∀ (tr : Trace) (a : Act), a ∈ proj i tr → ∃ x ∈ tr, x.2 = a
  | [], _, h => by simp [proj] at h
  | (j, b) :: tr, a, h => by
    by_cases hj : j = i
    · simp only [proj, hj, if_true, List.mem_cons] at h
      rcases h with rfl | h
      · exact ⟨(j, a), by simp, rfl⟩
      · obtain ⟨x, hx, hxa⟩ := mem_proj i tr a h
        exact ⟨x, by simp [hx], hxa⟩
    · simp only [proj, hj, if_false] at h
      obtain ⟨x, hx, hxa⟩ := mem_proj i tr a h
      exact ⟨x, by simp [hx], hxa⟩

end KinModel.Conc
