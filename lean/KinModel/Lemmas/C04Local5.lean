import KinModel.Lemmas.C04Local4
namespace KinModel.DocValidate

theorem localOK_mediaType (T : Table) (o : Opts) (a : Attrs) (kids : List (String × Doc)) (vs : List Bool)
    (hT : TableOK T = true) (hwf : examplesWFor o (.node .mediaType a kids) = true) :
    localOK T o (.node .mediaType a kids) vs = rulesOK o (.node .mediaType a kids) := by
  have hx := checkExt_eq T o (.node .mediaType a kids) hT (by simp [extKinds, Doc.kind])
  obtain ⟨h1, h2⟩ := exampleChecks T o a .mediaType hT (by simp [exampleKinds]) (by simp)
  simp (disch := decide) only [localOK, localOKp, rulesOK, violations, Doc.kind, Doc.attrs, mediaTypeOKCode, exampleViols, List.all_append, all_when,
    extra_all, hx, enabled_plain]
  simp only [enabled]
  cases hs : a.flag "hasSchema" with
  | false => simp
  | true =>
    by_cases c7 : (a.flag "hasExample" && a.flag "hasExamples") = true
    · have ⟨c7a, c7b⟩ : a.flag "hasExample" = true ∧ a.flag "hasExamples" = true := by simpa using c7
      simp [c7a, c7b]
    have c7' : (a.flag "hasExample" && a.flag "hasExamples") = false := by simpa using c7
    have hv := exampleValues_eq T o (.node .mediaType a kids) h1 h2 c7'
      (wf_split o _ hwf hs (by simp [exampleKinds, Doc.kind]) (by simp [Doc.kind]))
    simp only [Doc.attrs, exampleClause] at hv
    rw [hv]
    simp [c7]
    all_goals
      (generalize extKeysOK o a.exts = X
       generalize exampleOK _ = A
       generalize examplesGivenOK _ = C
       cases A <;> cases C <;> cases X <;> cases o.exDisabled <;> simp)

/-- header objects: the code's checks (after the repairs: example / examples against the schema, extra
fields) are the rules -/
theorem localOK_header (T : Table) (o : Opts) (a : Attrs) (kids : List (String × Doc)) (vs : List Bool)
    (hT : TableOK T = true) (hwf : examplesWFor o (.node .header a kids) = true) :
    localOK T o (.node .header a kids) vs = rulesOK o (.node .header a kids) := by
  cases hg : a.flag "again" with
  | true =>
    -- met again below itself: the code answers nil at once; the specification counts nothing here
    simp [localOK, localOKp, rulesOK, violations, Doc.kind, Doc.attrs, headerOKCode, hg]
  | false =>
  have hx : checkExt T o (.node .header a kids) = extKeysOK o a.exts := by
    have h : hasCheck T o a .header "extensions" = _ := anyHolds_as o a _ _ (tableFacts T hT).hdrExt
    simp only [hg, Bool.not_false] at h
    simp [checkExt, Doc.kind, Doc.attrs, h]
  obtain ⟨h1, h2⟩ := exampleChecks T o a .header hT (by simp [exampleKinds]) (by simp [hg])
  simp (disch := decide) only [localOK, localOKp, rulesOK, violations, Doc.kind, Doc.attrs, headerOKCode, exampleViols, hg,
    List.all_append, all_when, extra_all, hx, enabled_plain, Bool.false_eq_true, if_false]
  simp only [enabled]
  by_cases c1 : a.str "name" = ""
  case neg => simp [c1]
  by_cases c2 : a.str "in" = ""
  case neg => simp [c1, c2]
  by_cases c3 : (a.str "style" = "" ∨ a.str "style" = "simple")
  case neg =>
    have ⟨c3a, c3b⟩ : ¬ a.str "style" = "" ∧ ¬ a.str "style" = "simple" := by
      constructor <;> intro h <;> exact c3 (by simp [h])
    simp [c1, c2, c3a, c3b]
  by_cases c5 : schemaXorContentBad a = true
  · simp [c1, c2, c3, c5]
  cases hs : a.flag "hasSchema" with
  | false =>
    by_cases c6 : a.num "content" > 1
    · rcases c3 with c3 | c3 <;> simp [c1, c2, c3, c5, c6]
    · rcases c3 with c3 | c3 <;> simp [c1, c2, c3, c5, c6]
  | true =>
    by_cases c7 : (a.flag "hasExample" && a.flag "hasExamples") = true
    · have ⟨c7a, c7b⟩ : a.flag "hasExample" = true ∧ a.flag "hasExamples" = true := by simpa using c7
      rcases c3 with c3 | c3 <;> simp [c1, c2, c3, c5, c7a, c7b]
    have c7' : (a.flag "hasExample" && a.flag "hasExamples") = false := by simpa using c7
    have hv := exampleValues_eq T o (.node .header a kids) h1 h2 c7'
      (wf_split o _ hwf hs (by simp [exampleKinds, Doc.kind]) (by simp [Doc.kind, Doc.attrs, hg]))
    simp only [Doc.attrs, exampleClause] at hv
    rw [hv]
    generalize extKeysOK o a.exts = X
    generalize exampleOK _ = A
    generalize examplesGivenOK _ = C
    generalize decide (a.num "content" > 1) = M
    rcases c3 with c3 | c3 <;> cases hE : a.flag "hasExample" <;> cases hF : a.flag "hasExamples" <;>
      cases A <;> cases C <;> cases X <;> cases M <;> cases o.exDisabled <;> simp_all

theorem encHeadersBad_false (T : Table) (o : Opts) (d : Doc) (vs : List Bool) (hT : TableOK T = true) :
    encHeadersBad T o d vs = false := by
  have hs := (tableFacts T hT).swallows
  simp [encHeadersBad, hasSwallow, rowsFor, hs, anyHolds]

/-- encoding objects (since 7cd29a9 no header error ends the method): the code's checks are the rules -/
theorem localOK_encoding (T : Table) (o : Opts) (a : Attrs) (kids : List (String × Doc)) (vs : List Bool)
    (hT : TableOK T = true) :
    localOK T o (.node .encoding a kids) vs = rulesOK o (.node .encoding a kids) := by
  have hx := checkExt_eq T o (.node .encoding a kids) hT (by simp [extKinds, Doc.kind])
  have hb := encHeadersBad_false T o (.node .encoding a kids) vs hT
  have hi : hasCheck T o a .encoding "identifier:headers" = true :=
    anyHolds_of_nil o a _ (tableFacts T hT).encIdent
  simp (disch := decide) only [localOK, localOKp, rulesOK, violations, Doc.kind, Doc.attrs, encodingOKCode, hb, hi,
    List.all_append, all_when, extra_all, hx, enabled_plain]
  cases encodingStyleOK a <;> cases ((Doc.node Kind.encoding a kids).kidsAt "headers").all (fun h => identOK (keyOf h)) <;> simp

theorem rulesOK_inner (T : Table) (o : Opts) (a : Attrs) (kids : List (String × Doc)) (vs : List Bool) :
    rulesOK o (.node .innerSchemaRef a kids) = (refSibsOK o a && localOK T o (.node .innerSchemaRef a kids) vs) := by
  simp only [localOK, localOKp, rulesOK, violations, Doc.kind, Doc.attrs, refViols_all, refOK]

theorem templateCode_of_spec (vars common : List String) (op : Doc) (h : templateOKSpec vars common op = true) :
    templateOKCode vars common op = true := by
  unfold templateOKCode
  unfold templateOKSpec at h
  split
  · exact h
  · rfl

theorem pathItemViols_all (o : Opts) (pi : Doc) :
    ((pathItemViols pi).all fun v => !enabled o v) =
      (hasSlash (keyOf pi) &&
       (pi.kidsAt "operations").all (templateOKSpec (normalizePath (keyOf pi)).2 (pathParamNames (pi.kidsAt "parameters")))) := by
  unfold pathItemViols
  simp (disch := decide) only [List.all_append, all_when, enabled_plain]
  simp

/-- the parts of `Paths.Validate` other than the per-path-item checks -/
def pathsRest (T : Table) (o : Opts) (d : Doc) : Bool :=
  (((d.kidsAt "pathItems").map (fun pi => (normalizePath (keyOf pi)).1)).eraseDups.length
          == (d.kidsAt "pathItems").length) &&
  ((opIds d).eraseDups.length == (opIds d).length) && extKeysOK o d.attrs.exts

theorem localOK_paths_eq (T : Table) (o : Opts) (a : Attrs) (kids : List (String × Doc)) (vs : List Bool)
    (hT : TableOK T = true) :
    localOK T o (.node .paths a kids) vs =
      (((Doc.node .paths a kids).kidsAt "pathItems").all pathItemOKCode && pathsRest T o (.node .paths a kids)) := by
  have hx := checkExt_eq T o (.node .paths a kids) hT (by simp [extKinds, Doc.kind])
  simp only [localOK, localOKp, Doc.kind, pathsRest, hx, Bool.and_assoc]

theorem rulesOK_paths_eq (T : Table) (o : Opts) (a : Attrs) (kids : List (String × Doc)) :
    rulesOK o (.node .paths a kids) =
      (((Doc.node .paths a kids).kidsAt "pathItems").all (fun pi => (pathItemViols pi).all fun v => !enabled o v) &&
        pathsRest T o (.node .paths a kids)) := by
  simp (disch := decide) only [rulesOK, violations, Doc.kind, Doc.attrs, pathsRest, List.all_append, all_when, extra_all,
    enabled_plain, List.all_flatMap, Bool.and_assoc]
  simp only [bne, Bool.not_not, Bool.not_true, Bool.or_false]

theorem pathItemCode_of_spec (o : Opts) (pi : Doc) (h : ((pathItemViols pi).all fun v => !enabled o v) = true) :
    pathItemOKCode pi = true := by
  rw [pathItemViols_all] at h
  unfold pathItemOKCode
  simp only [Bool.and_eq_true, List.all_eq_true] at h ⊢
  exact ⟨h.1, fun op hop => templateCode_of_spec _ _ op (h.2 op hop)⟩

theorem localOK_paths_of_rules (T : Table) (o : Opts) (a : Attrs) (kids : List (String × Doc)) (vs : List Bool)
    (hT : TableOK T = true)
    (h : rulesOK o (.node .paths a kids) = true) : localOK T o (.node .paths a kids) vs = true := by
  rw [rulesOK_paths_eq T] at h
  rw [localOK_paths_eq T o a kids vs hT]
  rw [Bool.and_eq_true] at h ⊢
  refine ⟨?_, h.2⟩
  rw [List.all_eq_true]
  exact fun pi hpi => pathItemCode_of_spec o pi (List.all_eq_true.mp h.1 pi hpi)

theorem localOK_paths (T : Table) (o : Opts) (a : Attrs) (kids : List (String × Doc)) (vs : List Bool)
    (hT : TableOK T = true) (hex : excl7Node (.node .paths a kids) = false) :
    localOK T o (.node .paths a kids) vs = rulesOK o (.node .paths a kids) := by
  rw [rulesOK_paths_eq T, localOK_paths_eq T o a kids vs hT]
  congr 1
  apply all_congr_mem
  intro pi hpi
  rw [pathItemViols_all]
  unfold pathItemOKCode
  congr 1
  apply all_congr_mem
  intro op hop
  -- ¬excl7: no operation passes the code's check while failing the specification's
  unfold excl7Node at hex
  simp only [Doc.kind, decide_true, Bool.true_and] at hex
  have h1 := (List.any_eq_false.mp hex) pi hpi
  have h2 : templateOKCode (normalizePath (keyOf pi)).2 (pathParamNames (pi.kidsAt "parameters")) op = true →
      templateOKSpec (normalizePath (keyOf pi)).2 (pathParamNames (pi.kidsAt "parameters")) op = true := by
    have h1' : ∀ x ∈ pi.kidsAt "operations",
        templateOKCode (normalizePath (keyOf pi)).2 (pathParamNames (pi.kidsAt "parameters")) x = true →
        templateOKSpec (normalizePath (keyOf pi)).2 (pathParamNames (pi.kidsAt "parameters")) x = true := by
      simpa using h1
    exact h1' op hop
  cases hc : templateOKCode (normalizePath (keyOf pi)).2 (pathParamNames (pi.kidsAt "parameters")) op with
  | false =>
    cases hs : templateOKSpec (normalizePath (keyOf pi)).2 (pathParamNames (pi.kidsAt "parameters")) op with
    | false => rfl
    | true => rw [templateCode_of_spec _ _ op hs] at hc; cases hc
  | true => rw [h2 hc]

end KinModel.DocValidate
