import KinModel.Lemmas.C04Local5
namespace KinModel.DocValidate

/-- outside the exclusion classes the code's local checks are exactly the rules in force (`vs`: the verdicts
of the kids, which no method looks at since 7cd29a9) -/
theorem localOK_eq_rules (T : Table) (o : Opts) (d : Doc) (vs : List Bool) (hT : TableOK T = true)
    (h7 : excl7Node d = false) (hi : exclInnerNode o d = false) (hwf : examplesWFor o d = true) :
    localOK T o d vs = rulesOK o d := by
  cases d with | node k a kids =>
  cases k
  all_goals first
    | exact localOK_plainExt T o _ a kids vs hT (by decide)
    | exact localOK_trivial T o _ a kids vs (by decide)
    | exact localOK_ref T o _ a kids vs (by decide)
    | exact localOK_parameters T o a kids vs
    | exact localOK_components T o a kids vs hT
    | exact localOK_schema T o a kids vs hT
    | exact localOK_parameter T o a kids vs hT hwf
    | exact localOK_mediaType T o a kids vs hT hwf
    | exact localOK_header T o a kids vs hT hwf
    | exact localOK_paths T o a kids vs hT h7
    | exact localOK_encoding T o a kids vs hT
    | (rw [rulesOK_inner T o a kids vs]
       have hx : refSibsOK o a = true := by simpa [exclInnerNode, Doc.kind, Doc.attrs] using hi
       simp [hx])

/-- the same, with the model's own verdicts of the kids -/
theorem localOKV_eq_rules (T : Table) (o : Opts) (d : Doc) (hT : TableOK T = true)
    (hex : exclLocal o d = false) (hwf : examplesWFor o d = true) : localOKV T o d = rulesOK o d := by
  unfold exclLocal at hex
  simp only [Bool.or_eq_false_iff] at hex
  exact localOK_eq_rules T o d _ hT hex.1 hex.2 hwf

/-- the code's local checks are never stricter than the rules -/
theorem localOK_of_rulesOK (T : Table) (o : Opts) (d : Doc) (vs : List Bool) (hT : TableOK T = true)
    (hwf : examplesWFor o d = true) (h : rulesOK o d = true) : localOK T o d vs = true := by
  cases d with | node k a kids =>
  cases k
  all_goals first
    | (rw [localOK_plainExt T o _ a kids vs hT (by decide)]; exact h)
    | (rw [localOK_trivial T o _ a kids vs (by decide)]; exact h)
    | (rw [localOK_ref T o _ a kids vs (by decide)]; exact h)
    | (rw [localOK_parameters T o a kids vs]; exact h)
    | (rw [localOK_components T o a kids vs hT]; exact h)
    | (rw [localOK_schema T o a kids vs hT]; exact h)
    | (rw [localOK_parameter T o a kids vs hT hwf]; exact h)
    | (rw [localOK_mediaType T o a kids vs hT hwf]; exact h)
    | (rw [localOK_header T o a kids vs hT hwf]; exact h)
    | exact localOK_paths_of_rules T o a kids vs hT h
    | (rw [localOK_encoding T o a kids vs hT]; exact h)
    | (rw [rulesOK_inner T o a kids vs, Bool.and_eq_true] at h; exact h.2)

end KinModel.DocValidate
