import KinModel.Lemmas.C04Local5
namespace KinModel.DocValidate

/-- outside the exclusion classes the code's local checks are exactly the rules in force -/
theorem localOK_eq_rules (T : Table) (o : Opts) (d : Doc) (hT : TableOK T = true) (hex : exclLocal o d = false) :
    localOK T o d = rulesOK o d := by
  cases d with | node k a kids =>
  unfold exclLocal at hex
  simp only [Bool.or_eq_false_iff] at hex
  obtain ⟨⟨⟨⟨h7, hh⟩, hi⟩, he⟩, hhe⟩ := hex
  cases k
  all_goals first
    | exact localOK_plainExt T o _ a kids hT (by decide)
    | exact localOK_trivial T o _ a kids (by decide)
    | exact localOK_ref T o _ a kids (by decide)
    | exact localOK_parameters T o a kids
    | exact localOK_components T o a kids hT
    | exact localOK_schema T o a kids hT
    | exact localOK_parameter T o a kids hT he
    | exact localOK_mediaType T o a kids hT he
    | exact localOK_paths T o a kids hT h7
    | (rw [rulesOK_header T o a kids hT]
       have hx : extKeysOK o a.exts = true := by simpa [exclHeaderNode, Doc.kind, Doc.attrs] using hh
       have hy : headerExampleClause o (.node .header a kids) = true := by
         unfold exclHeaderExampleNode at hhe
         unfold headerExampleClause
         simp only [Doc.kind, Doc.attrs, decide_true, Bool.true_and] at hhe ⊢
         revert hhe
         generalize exampleOK _ = A
         generalize examplesGivenOK _ = C
         cases a.flag "hasSchema" <;> cases o.exDisabled <;> cases A <;> cases C <;> simp
       simp [hx, hy])
    | (rw [rulesOK_inner T o a kids]
       have hx : refSibsOK o a = true := by simpa [exclInnerNode, Doc.kind, Doc.attrs] using hi
       simp [hx])

/-- apart from the external-example class the code's local checks are never stricter than the rules -/
theorem localOK_of_rulesOK (T : Table) (o : Opts) (d : Doc) (hT : TableOK T = true) (he : exclExternalNode o d = false)
    (h : rulesOK o d = true) : localOK T o d = true := by
  cases d with | node k a kids =>
  cases k
  all_goals first
    | (rw [localOK_plainExt T o _ a kids hT (by decide)]; exact h)
    | (rw [localOK_trivial T o _ a kids (by decide)]; exact h)
    | (rw [localOK_ref T o _ a kids (by decide)]; exact h)
    | (rw [localOK_parameters T o a kids]; exact h)
    | (rw [localOK_components T o a kids hT]; exact h)
    | (rw [localOK_schema T o a kids hT]; exact h)
    | (rw [localOK_parameter T o a kids hT he]; exact h)
    | (rw [localOK_mediaType T o a kids hT he]; exact h)
    | exact localOK_paths_of_rules T o a kids hT h
    | (rw [rulesOK_header T o a kids hT, Bool.and_eq_true, Bool.and_eq_true] at h; exact h.1.1)
    | (rw [rulesOK_inner T o a kids, Bool.and_eq_true] at h; exact h.2)

end KinModel.DocValidate
