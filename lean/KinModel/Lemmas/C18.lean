/-
Helper lemmas for C18 (core-only): executable twin of `Sat`, relaxed satisfaction, the relation between a Go
type and a generated schema, soundness of the encoder against that relation, invariants of the generator.
-/
import KinModel.Gen3
set_option linter.unusedSectionVars false
set_option linter.unusedSimpArgs false
namespace KinModel.Gen3

/-! ### acceptB ↔ Sat -/
mutual
theorem acceptB_iff' (Γ : Comps) : ∀ (j : J) (s : Sch), acceptB Γ s j = true ↔ Sat' false Γ s j
  | .null, s => by
      cases s with
      | ref n => simp [acceptB, Sat']; split <;> simp_all
      | node ty nl fmt lo hi it pr ad cyc => simp [acceptB, Sat', resolve]
  | .bool _, s => by
      simp only [acceptB, Sat']; split <;> simp_all
  | .num _ _, s => by
      simp only [acceptB, Sat']; split <;> simp_all
  | .str _, s => by
      simp only [acceptB, Sat']; split <;> simp_all
  | .arr xs, s => by
      simp only [acceptB, Sat']
      split
      · rename_i ty _ _ _ _ items _ _ _ _
        cases items with
        | none => simp
        | some it => simp [acceptItems_iff' Γ xs it]
      · simp
  | .obj kvs, s => by
      simp only [acceptB, Sat']
      split
      · simp [acceptProps_iff' Γ kvs]
      · simp
theorem acceptItems_iff' (Γ : Comps) : ∀ (xs : List J) (s : Sch), acceptItems Γ s xs = true ↔ SatItems false Γ s xs
  | [], _ => by simp [acceptItems, SatItems]
  | x :: xs, s => by simp [acceptItems, SatItems, acceptB_iff' Γ x s, acceptItems_iff' Γ xs s]
theorem acceptProps_iff' (Γ : Comps) : ∀ (kvs : List (String × J)) (p : List (String × Sch)) (ad : Option Sch),
    acceptProps Γ p ad kvs = true ↔ SatProps false Γ p ad kvs
  | [], _, _ => by simp [acceptProps, SatProps]
  | (k, x) :: r, p, ad => by
      simp only [acceptProps, SatProps, Bool.and_eq_true, acceptProps_iff' Γ r p ad]
      cases lookup k p with
      | some s => simp [acceptB_iff' Γ x s]
      | none => cases ad with
        | none => simp
        | some s => simp [acceptB_iff' Γ x s]
end


/-! ### outside the cycle positions the relaxed relation is the real one -/
mutual
theorem sat_of_relaxed' (Γ : Comps) : ∀ (j : J) (s : Sch), Sat' true Γ s j → nilAtCycB Γ s j = false → Sat' false Γ s j
  | .null, s => by
      cases s with
      | ref n => simp [nilAtCycB]
      | node ty nl fmt lo hi it pr ad cyc => simp [Sat', nilAtCycB]; intro h hc; simpa [hc] using h
  | .bool _, s => by simp only [Sat']; exact fun h _ => h
  | .num _ _, s => by simp only [Sat']; exact fun h _ => h
  | .str _, s => by simp only [Sat']; exact fun h _ => h
  | .arr xs, s => by
      simp only [Sat', nilAtCycB]
      cases hr : resolve Γ s with
      | none => simp
      | some nd =>
        cases nd with
        | ref n => simp
        | node ty nl fmt lo hi items pr ad cyc =>
          cases items with
          | none => simp
          | some it =>
            simp only
            intro ⟨h1, h2⟩ hn
            exact ⟨h1, sat_of_relaxedItems' Γ xs it h2 hn⟩
  | .obj kvs, s => by
      simp only [Sat', nilAtCycB]
      cases hr : resolve Γ s with
      | none => simp
      | some nd =>
        cases nd with
        | ref n => simp
        | node ty nl fmt lo hi items pr ad cyc =>
          simp only
          intro ⟨h1, h2⟩ hn
          exact ⟨h1, sat_of_relaxedProps' Γ kvs _ _ h2 hn⟩
theorem sat_of_relaxedItems' (Γ : Comps) : ∀ (xs : List J) (s : Sch),
    SatItems true Γ s xs → nilAtCycItems Γ s xs = false → SatItems false Γ s xs
  | [], _ => by simp [SatItems]
  | x :: xs, s => by
      simp only [SatItems, nilAtCycItems, Bool.or_eq_false_iff]
      intro ⟨h1, h2⟩ ⟨n1, n2⟩
      exact ⟨sat_of_relaxed' Γ x s h1 n1, sat_of_relaxedItems' Γ xs s h2 n2⟩
theorem sat_of_relaxedProps' (Γ : Comps) : ∀ (kvs : List (String × J)) (p : List (String × Sch)) (ad : Option Sch),
    SatProps true Γ p ad kvs → nilAtCycProps Γ p ad kvs = false → SatProps false Γ p ad kvs
  | [], _, _ => by simp [SatProps]
  | (k, x) :: r, p, ad => by
      simp only [SatProps, nilAtCycProps, Bool.or_eq_false_iff]
      intro ⟨h1, h2⟩ ⟨n1, n2⟩
      refine ⟨?_, sat_of_relaxedProps' Γ r p ad h2 n2⟩
      cases hl : lookup k p with
      | some s => simp only [hl] at h1 n1 ⊢; exact sat_of_relaxed' Γ x s h1 n1
      | none =>
        simp only [hl] at h1 n1 ⊢
        cases ad with
        | none => trivial
        | some s => exact sat_of_relaxed' Γ x s h1 n1
end


/-! ### the relation "schema s describes Go type t" (what the generator establishes, what soundness needs)

`ok n` says that the component name `n` may be referenced. A reference stands for the declared struct of
that name; a node has the keywords of the kind switch for the pointer-stripped type, is nullable when the
type is a pointer (unless it was built by cycle cutting: that is finding #19), and every property is the
schema of some discovered field of that name. -/
mutual
def RelS (Δ : Decls) (ok : String → Prop) : GoType → Sch → Prop
  | t, .ref n => stripPtr t = .named n ∧ ok n
  | t, .node ty nl fmt lo hi items props addl cyc =>
      (isPtr t = true → nl = true ∨ cyc = true) ∧
      (match stripPtr t with
       | .bool => ty = "boolean"
       | .int k => ty = "integer" ∧ fmt = kindFmt k ∧ lo = kindLo k ∧ hi = kindHi k
       | .float _ => ty = "number" ∧ lo = none ∧ hi = none
       | .string => ty = "string" ∧ fmt = ""
       | .bytes => ty = "string" ∧ fmt = "byte"
       | .time => ty = "string" ∧ fmt = "date-time"
       | .slice e => ty = "array" ∧ (match items with | some it => RelS Δ ok e it | none => False)
       | .map e => ty = "object" ∧ props = [] ∧ (match addl with | some a => RelS Δ ok e a | none => False)
       | .struct fs => (ty = "object" ∨ ty = "") ∧ addl = none ∧ RelProps Δ ok (flat fs) props
       | .named n => (ty = "object" ∨ ty = "") ∧ addl = none ∧ RelProps Δ ok (flat ((lookup n Δ).getD [])) props
       | .ptr _ => False)
def RelProps (Δ : Decls) (ok : String → Prop) : List Cand → List (String × Sch) → Prop
  | _, [] => True
  | cs, (k, s) :: r => (∃ c, c ∈ cs ∧ c.name = k ∧ RelS Δ ok c.ty s) ∧ RelProps Δ ok cs r
end

/-- the names the component map resolves -/
def okΓ (Γ : Comps) (n : String) : Prop := ∃ nd, resolve Γ (.ref n) = some nd

/-- every component describes the declared struct it is named after -/
def CompsOK (Δ : Decls) (Γ : Comps) : Prop := ∀ n s, lookup n Γ = some s → RelS Δ (okΓ Γ) (.named n) s

theorem stripPtr_idem : ∀ (t : GoType), stripPtr (stripPtr t) = stripPtr t
  | .ptr t => by simp only [stripPtr]; exact stripPtr_idem t
  | .bool | .int _ | .float _ | .string | .bytes | .time | .slice _ | .map _ | .struct _ | .named _ => by simp [stripPtr]
theorem isPtr_stripPtr : ∀ (t : GoType), isPtr (stripPtr t) = false
  | .ptr t => by simp only [stripPtr]; exact isPtr_stripPtr t
  | .bool | .int _ | .float _ | .string | .bytes | .time | .slice _ | .map _ | .struct _ | .named _ => by simp [stripPtr, isPtr]

theorem relS_strip {Δ ok t ty nl fmt lo hi it pr ad cyc} (h : RelS Δ ok t (.node ty nl fmt lo hi it pr ad cyc)) :
    RelS Δ ok (stripPtr t) (.node ty nl fmt lo hi it pr ad cyc) := by
  simp only [RelS] at h ⊢
  rw [stripPtr_idem, isPtr_stripPtr]
  exact ⟨by simp, h.2⟩

theorem relS_elem {Δ ok t s} (h : RelS Δ ok (.ptr t) s) : RelS Δ ok t s := by
  cases s with
  | ref n => simpa [RelS, stripPtr] using h
  | node ty nl fmt lo hi it pr ad cyc =>
    simp only [RelS, stripPtr, isPtr] at h ⊢
    exact ⟨fun _ => h.1 trivial, h.2⟩

theorem resolve_ref_lookup {Γ : Comps} {n : String} {nd : Sch} (h : resolve Γ (.ref n) = some nd) :
    lookup n Γ = some nd ∧ ∃ ty nl fmt lo hi it pr ad cyc, nd = .node ty nl fmt lo hi it pr ad cyc := by
  simp only [resolve] at h
  split at h
  · rename_i a b c d e f g hh i heq
    cases h; exact ⟨heq, _, _, _, _, _, _, _, _, _, rfl⟩
  · cases h

/-- after resolution there is a node that describes the pointer-stripped type -/
theorem rel_resolve {Δ Γ t s} (hΓ : CompsOK Δ Γ) (h : RelS Δ (okΓ Γ) t s) :
    ∃ ty nl fmt lo hi it pr ad cyc, resolve Γ s = some (.node ty nl fmt lo hi it pr ad cyc) ∧
      RelS Δ (okΓ Γ) (stripPtr t) (.node ty nl fmt lo hi it pr ad cyc) := by
  cases s with
  | node ty nl fmt lo hi it pr ad cyc => exact ⟨ty, nl, fmt, lo, hi, it, pr, ad, cyc, rfl, relS_strip h⟩
  | ref n =>
    simp only [RelS] at h
    obtain ⟨hs, nd, hr⟩ := h
    obtain ⟨hl, ty, nl, fmt, lo, hi, it, pr, ad, cyc, rfl⟩ := resolve_ref_lookup hr
    refine ⟨ty, nl, fmt, lo, hi, it, pr, ad, cyc, hr, ?_⟩
    rw [hs]
    exact hΓ n _ hl


/-! ### soundness of the encoder against the relation -/

/-- both per-struct defect conditions at once -/
def bad2 (cs : List Cand) : Bool := quotedIn cs || dupIn cs

/-- every declared struct is free of the per-struct defect condition, hereditarily -/
def CleanΔ (bad : List Cand → Bool) (Δ : Decls) : Prop :=
  ∀ n fs, lookup n Δ = some fs → bad (flat fs) = false ∧ heredFs bad fs = false

theorem lookup_mem {α} {k : String} {v : α} : ∀ {l : List (String × α)}, lookup k l = some v → (k, v) ∈ l
  | [], h => by simp [lookup] at h
  | (k', v') :: r, h => by
      simp only [lookup] at h
      split at h
      · cases h; subst_vars; simp
      · exact List.mem_cons_of_mem _ (lookup_mem h)

theorem relProps_mem {Δ ok cs} : ∀ {p : List (String × Sch)} {k s}, RelProps Δ ok cs p → (k, s) ∈ p →
    ∃ c, c ∈ cs ∧ c.name = k ∧ RelS Δ ok c.ty s
  | [], _, _, _, h => by cases h
  | (k', s') :: r, k, s, hr, h => by
      simp only [RelProps] at hr
      rcases List.mem_cons.mp h with h | h
      · cases h; exact hr.1
      · exact relProps_mem hr.2 h

theorem contains_name {xs : List Cand} {y : Cand} (hy : y ∈ xs) : (xs.map (·.name)).contains y.name = true := by
  simp only [List.contains_eq_mem, List.mem_map, decide_eq_true_eq]
  exact ⟨y, hy, rfl⟩

theorem nodup_unique : ∀ {l : List Cand} {c c' : Cand}, dupNames (l.map (·.name)) = false → c ∈ l → c' ∈ l →
    c.name = c'.name → c = c'
  | [], _, _, _, h, _, _ => by cases h
  | x :: xs, c, c', hd, h, h', hn => by
      have e : dupNames ((x :: xs).map (·.name)) =
          ((xs.map (·.name)).contains x.name || dupNames (xs.map (·.name))) := rfl
      rw [e] at hd
      obtain ⟨hd1, hd2⟩ := Bool.or_eq_false_iff.mp hd
      have hnot : ∀ y, y ∈ xs → y.name ≠ x.name := by
        intro y hy he
        have := contains_name hy
        rw [he, hd1] at this
        cases this
      rcases List.mem_cons.mp h with e1 | h1
      · rcases List.mem_cons.mp h' with e2 | h2
        · rw [e1, e2]
        · exact absurd (by rw [← hn, e1]) (hnot _ h2)
      · rcases List.mem_cons.mp h' with e2 | h2
        · exact absurd (by rw [hn, e2]) (hnot _ h1)
        · exact nodup_unique hd2 h1 h2 hn

theorem quotedIn_mem {l : List Cand} {c : Cand} (h : quotedIn l = false) (hc : c ∈ l) :
    (c.quoted && quotable c.ty) = false := by
  unfold quotedIn at h
  cases hq : (c.quoted && quotable c.ty) with
  | false => rfl
  | true =>
    have : l.any (fun c => c.quoted && quotable c.ty) = true := List.any_eq_true.mpr ⟨c, hc, hq⟩
    rw [this] at h; cases h

theorem satProps_of_forall {rx Γ} {p : List (String × Sch)} : ∀ {kvs : List (String × J)},
    (∀ k j, (k, j) ∈ kvs → ∀ s, lookup k p = some s → Sat' rx Γ s j) → SatProps rx Γ p none kvs
  | [], _ => by simp [SatProps]
  | (k, j) :: r, h => by
      simp only [SatProps]
      refine ⟨?_, satProps_of_forall (fun k' j' hm => h k' j' (List.mem_cons_of_mem _ hm))⟩
      cases hl : lookup k p with
      | none => trivial
      | some s => exact h k j (by simp) s hl

/-- an entry of an encoded object comes from a discovered field of that name, and satisfies every schema
    that describes that field's type (unless `,string` is in effect on it) -/
def EntryOK (Δ : Decls) (Γ : Comps) (cs : List Cand) (k : String) (j : J) : Prop :=
  ∃ c, c ∈ cs ∧ c.name = k ∧
    ((c.quoted && quotable c.ty) = false → ∀ s, RelS Δ (okΓ Γ) c.ty s → Sat' true Γ s j)

theorem struct_sat {Δ Γ} {fs : Fields} {props : List (String × Sch)} {kvs : List (String × J)}
    (hrel : RelProps Δ (okΓ Γ) (flat fs) props) (hbad : bad2 (flat fs) = false)
    (hent : ∀ k j, (k, j) ∈ kvs → EntryOK Δ Γ (flat fs) k j) : SatProps true Γ props none kvs := by
  simp only [bad2, Bool.or_eq_false_iff] at hbad
  apply satProps_of_forall
  intro k j hm s hl
  obtain ⟨c, hc, hn, himp⟩ := hent k j hm
  obtain ⟨c', hc', hn', hr⟩ := relProps_mem hrel (lookup_mem hl)
  have : c = c' := nodup_unique hbad.2 hc hc' (by rw [hn, hn'])
  subst this
  exact himp (quotedIn_mem hbad.1 hc) s hr

theorem hered_struct {bad fs} (h : hered bad (.struct fs) = false) : bad (flat fs) = false ∧ heredFs bad fs = false := by
  simpa [hered, Bool.or_eq_false_iff] using h

section Sound
variable (Δ : Decls) (Γ : Comps) (hΓ : CompsOK Δ Γ) (hΔ : CleanΔ bad2 Δ)
include hΓ hΔ

mutual
theorem sound_val : ∀ (v : GoVal) (t : GoType) (s : Sch), hasTypeB Δ t v = true → hered bad2 t = false →
    RelS Δ (okΓ Γ) t s → Sat' true Γ s (encode Δ t v)
  | .b x, t, s, ht, hh, hr => by
      obtain ⟨ty, nl, fmt, lo, hi, it, pr, ad, cyc, hres, hn⟩ := rel_resolve hΓ hr
      cases t <;> simp [hasTypeB] at ht
      simp only [encode, Sat', hres]
      simp only [RelS, stripPtr] at hn
      simp [TyOK, hn.2]
  | .i n, t, s, ht, hh, hr => by
      obtain ⟨ty, nl, fmt, lo, hi, it, pr, ad, cyc, hres, hn⟩ := rel_resolve hΓ hr
      cases t <;> simp [hasTypeB] at ht
      rename_i k
      simp only [encode, Sat', hres]
      simp only [RelS, stripPtr] at hn
      obtain ⟨_, rfl, rfl, rfl, rfl⟩ := hn
      simp only [inRange, decide_eq_true_eq] at ht
      cases k <;>
        simp [NumOK, GeOpt, LeOpt, fmtLo, fmtHi, kindFmt, kindLo, kindHi, intLo, intHi] at ht ⊢ <;> omega
  | .f m e, t, s, ht, hh, hr => by
      obtain ⟨ty, nl, fmt, lo, hi, it, pr, ad, cyc, hres, hn⟩ := rel_resolve hΓ hr
      cases t <;> simp [hasTypeB] at ht
      simp only [encode, Sat', hres]
      simp only [RelS, stripPtr] at hn
      obtain ⟨_, rfl, rfl, rfl⟩ := hn
      simp [NumOK, GeOpt, LeOpt]
  | .s x, t, s, ht, hh, hr => by
      obtain ⟨ty, nl, fmt, lo, hi, it, pr, ad, cyc, hres, hn⟩ := rel_resolve hΓ hr
      cases t <;> simp [hasTypeB] at ht
      simp only [encode, Sat', hres]
      simp only [RelS, stripPtr] at hn
      obtain ⟨_, rfl, rfl⟩ := hn
      simp [StrOK, TyOK]
  | .bytes x, t, s, ht, hh, hr => by
      obtain ⟨ty, nl, fmt, lo, hi, it, pr, ad, cyc, hres, hn⟩ := rel_resolve hΓ hr
      cases t <;> simp [hasTypeB] at ht
      simp only [encode, Sat', hres]
      simp only [RelS, stripPtr] at hn
      obtain ⟨_, rfl, rfl⟩ := hn
      simp [StrOK, TyOK, ht]
  | .time x, t, s, ht, hh, hr => by
      obtain ⟨ty, nl, fmt, lo, hi, it, pr, ad, cyc, hres, hn⟩ := rel_resolve hΓ hr
      cases t <;> simp [hasTypeB] at ht
      simp only [encode, Sat', hres]
      simp only [RelS, stripPtr] at hn
      obtain ⟨_, rfl, rfl⟩ := hn
      simp [StrOK, TyOK, ht]
  | .nil, t, s, ht, hh, hr => by
      simp only [hasTypeB] at ht
      cases s with
      | ref n => simp [encode, Sat']
      | node ty nl fmt lo hi it pr ad cyc =>
        simp only [RelS] at hr
        simp only [encode, Sat']
        rcases hr.1 ht with h | h
        · exact Or.inl h
        · exact Or.inr ⟨trivial, h⟩
  | .ref v, t, s, ht, hh, hr => by
      simp only [hasTypeB, Bool.and_eq_true] at ht
      cases t <;> simp [isPtr] at ht
      rename_i t'
      simp only [elemOf] at ht
      simp only [encode, elemOf]
      exact sound_val v t' s ht (by simpa [hered] using hh) (relS_elem hr)
  | .slice vs, t, s, ht, hh, hr => by
      obtain ⟨ty, nl, fmt, lo, hi, it, pr, ad, cyc, hres, hn⟩ := rel_resolve hΓ hr
      cases t <;> simp [hasTypeB] at ht
      rename_i e
      simp only [encode, Sat', hres, elemOf]
      simp only [RelS, stripPtr] at hn
      obtain ⟨_, rfl, hit⟩ := hn
      cases it with
      | none => cases hit
      | some it' =>
        exact ⟨by simp [TyOK], sound_list vs e it' ht (by simpa [hered] using hh) hit⟩
  | .map kvs, t, s, ht, hh, hr => by
      obtain ⟨ty, nl, fmt, lo, hi, it, pr, ad, cyc, hres, hn⟩ := rel_resolve hΓ hr
      cases t <;> simp [hasTypeB] at ht
      rename_i e
      simp only [encode, Sat', hres, elemOf]
      simp only [RelS, stripPtr] at hn
      obtain ⟨_, rfl, rfl, had⟩ := hn
      cases ad with
      | none => cases had
      | some a =>
        exact ⟨by simp [TyOK], sound_kv kvs e a ht (by simpa [hered] using hh) had⟩
  | .struct vs, t, s, ht, hh, hr => by
      obtain ⟨ty, nl, fmt, lo, hi, it, pr, ad, cyc, hres, hn⟩ := rel_resolve hΓ hr
      cases t <;> simp only [hasTypeB] at ht <;> try (cases ht)
      · rename_i fs
        obtain ⟨hb, hfs⟩ := hered_struct hh
        simp only [encode, Sat', hres, fieldsOf]
        simp only [RelS, stripPtr] at hn
        obtain ⟨_, hty, rfl, hrel⟩ := hn
        refine ⟨by rcases hty with h | h <;> simp [TyOK, h], ?_⟩
        exact struct_sat hrel hb (sound_fs vs fs _ [] 0 0 ht hfs)
      · rename_i n
        cases hl : lookup n Δ with
        | none => simp [hl] at ht
        | some fs =>
          simp only [hl] at ht
          obtain ⟨hb, hfs⟩ := hΔ n fs hl
          simp only [encode, Sat', hres, fieldsOf, hl, Option.getD]
          simp only [RelS, stripPtr, hl, Option.getD] at hn
          obtain ⟨_, hty, rfl, hrel⟩ := hn
          refine ⟨by rcases hty with h | h <;> simp [TyOK, h], ?_⟩
          exact struct_sat hrel hb (sound_fs vs fs _ [] 0 0 ht hfs)
theorem sound_list : ∀ (vs : List GoVal) (t : GoType) (s : Sch), hasTypeL Δ t vs = true → hered bad2 t = false →
    RelS Δ (okΓ Γ) t s → SatItems true Γ s (encodeL Δ t vs)
  | [], _, _, _, _, _ => by simp [encodeL, SatItems]
  | v :: vs, t, s, ht, hh, hr => by
      simp only [hasTypeL, Bool.and_eq_true] at ht
      simp only [encodeL, SatItems]
      exact ⟨sound_val v t s ht.1 hh hr, sound_list vs t s ht.2 hh hr⟩
theorem sound_kv : ∀ (kvs : List (String × GoVal)) (t : GoType) (s : Sch), hasTypeKV Δ t kvs = true →
    hered bad2 t = false → RelS Δ (okΓ Γ) t s → SatProps true Γ [] (some s) (encodeKV Δ t kvs)
  | [], _, _, _, _, _ => by simp [encodeKV, SatProps]
  | (k, v) :: r, t, s, ht, hh, hr => by
      simp only [hasTypeKV, Bool.and_eq_true] at ht
      simp only [encodeKV, SatProps, lookup]
      exact ⟨sound_val v t s ht.1 hh hr, sound_kv r t s ht.2 hh hr⟩
theorem sound_fs : ∀ (vs : List GoVal) (fs : Fields) (dom : List (List Nat)) (path : List Nat) (idx depth : Nat),
    hasTypeFs Δ fs vs = true → heredFs bad2 fs = false →
    ∀ k j, (k, j) ∈ encodeFs Δ dom path idx fs vs → EntryOK Δ Γ (flatFs depth path idx fs) k j
  | [], fs, _, _, _, _, _, _, k, j, hm => by cases fs <;> simp [encodeFs] at hm
  | v :: vs, [], _, _, _, _, _, _, k, j, hm => by simp [encodeFs] at hm
  | v :: vs, (m, t) :: fs, dom, path, idx, depth, ht, hh, k, j, hm => by
      simp only [hasTypeFs, Bool.and_eq_true] at ht
      simp only [heredFs, Bool.or_eq_false_iff] at hh
      simp only [encodeFs, List.mem_append] at hm
      have lift : ∀ {l r : List Cand}, EntryOK Δ Γ l k j ∨ EntryOK Δ Γ r k j → EntryOK Δ Γ (l ++ r) k j := by
        intro l r h
        rcases h with ⟨c, hc, h⟩ | ⟨c, hc, h⟩
        · exact ⟨c, List.mem_append_left _ hc, h⟩
        · exact ⟨c, List.mem_append_right _ hc, h⟩
      simp only [flatFs]
      apply lift
      rcases hm with hm | hm
      · left
        by_cases h1 : m.skip = true
        · simp [h1] at hm
        · by_cases h2 : (m.embedded && !m.hasTag) = true
          · simp only [h1, h2, if_true, if_false, Bool.false_eq_true] at hm ⊢
            exact sound_emb v t dom (path ++ [idx]) (depth + 1) true ht.1 hh.1 k j hm
          · by_cases h3 : (!m.exported) = true
            · simp [h1, h2, h3] at hm
            · simp only [h1, h2, h3, if_false, Bool.false_eq_true] at hm ⊢
              split at hm
              · simp only [List.mem_singleton, Prod.mk.injEq] at hm
                obtain ⟨rfl, rfl⟩ := hm
                refine ⟨_, List.mem_singleton.mpr rfl, rfl, ?_⟩
                intro hq s hr
                simp only at hq
                simp only [hq, Bool.false_eq_true, if_false]
                exact sound_val v t s ht.1 hh.1 hr
              · cases hm
      · right
        exact sound_fs vs fs dom path (idx + 1) depth ht.2 hh.2 k j hm
theorem sound_emb : ∀ (v : GoVal) (t : GoType) (dom : List (List Nat)) (path : List Nat) (depth : Nat) (ap : Bool),
    hasTypeB Δ t v = true → hered bad2 t = false →
    ∀ k j, (k, j) ∈ encodeEmb Δ dom path ap t v → EntryOK Δ Γ (flatEmb depth path ap t) k j
  | .struct vs, t, dom, path, depth, ap, ht, hh, k, j, hm => by
      cases t <;> simp only [encodeEmb] at hm <;> try (cases hm)
      rename_i fs
      simp only [hasTypeB] at ht
      simp only [flatEmb]
      exact sound_fs vs fs dom path 0 depth ht (hered_struct hh).2 k j hm
  | .ref v, t, dom, path, depth, ap, ht, hh, k, j, hm => by
      cases t <;> simp only [encodeEmb] at hm <;> try (cases hm)
      rename_i t'
      simp only [hasTypeB, Bool.and_eq_true, elemOf] at ht
      simp only [flatEmb]
      cases ap with
      | false => simp at hm
      | true =>
        simp only [if_true] at hm ⊢
        exact sound_emb v t' dom path depth false ht.2 (by simpa [hered] using hh) k j hm
  | .b _, _, _, _, _, _, _, _, _, _, hm => by simp [encodeEmb] at hm
  | .i _, _, _, _, _, _, _, _, _, _, hm => by simp [encodeEmb] at hm
  | .f _ _, _, _, _, _, _, _, _, _, _, hm => by simp [encodeEmb] at hm
  | .s _, _, _, _, _, _, _, _, _, _, hm => by simp [encodeEmb] at hm
  | .bytes _, _, _, _, _, _, _, _, _, _, hm => by simp [encodeEmb] at hm
  | .time _, _, _, _, _, _, _, _, _, _, hm => by simp [encodeEmb] at hm
  | .nil, _, _, _, _, _, _, _, _, _, hm => by simp [encodeEmb] at hm
  | .slice _, _, _, _, _, _, _, _, _, _, hm => by simp [encodeEmb] at hm
  | .map _, _, _, _, _, _, _, _, _, _, hm => by simp [encodeEmb] at hm
end
end Sound


/-! ### from the per-class exclusion predicates to the hypotheses of `sound_val` -/
mutual
theorem hered_or (a b : List Cand → Bool) : ∀ (t : GoType),
    hered (fun cs => a cs || b cs) t = (hered a t || hered b t)
  | .ptr t => by simp only [hered]; exact hered_or a b t
  | .slice t => by simp only [hered]; exact hered_or a b t
  | .map t => by simp only [hered]; exact hered_or a b t
  | .struct fs => by
      simp only [hered, heredFs_or a b fs]
      cases a (flat fs) <;> cases b (flat fs) <;> cases heredFs a fs <;> cases heredFs b fs <;> rfl
  | .bool | .int _ | .float _ | .string | .bytes | .time | .named _ => by simp [hered]
theorem heredFs_or (a b : List Cand → Bool) : ∀ (fs : Fields),
    heredFs (fun cs => a cs || b cs) fs = (heredFs a fs || heredFs b fs)
  | [] => by simp [heredFs]
  | (_, t) :: r => by
      simp only [heredFs, hered_or a b t, heredFs_or a b r]
      cases hered a t <;> cases hered b t <;> cases heredFs a r <;> cases heredFs b r <;> rfl
end

theorem clean_of_heredAll {bad : List Cand → Bool} {Δ : Decls} {t : GoType} (h : heredAll bad Δ t = false) :
    hered bad t = false ∧ CleanΔ bad Δ := by
  simp only [heredAll, Bool.or_eq_false_iff] at h
  refine ⟨h.1, ?_⟩
  intro n fs hl
  have hm := lookup_mem hl
  have h2 := h.2
  rw [List.any_eq_false] at h2
  have := h2 (n, fs) hm
  simpa [Bool.or_eq_false_iff] using this

theorem clean2 {Δ : Decls} {t : GoType} (hq : heredAll quotedIn Δ t = false) (hd : heredAll dupIn Δ t = false) :
    hered bad2 t = false ∧ CleanΔ bad2 Δ := by
  obtain ⟨q1, q2⟩ := clean_of_heredAll hq
  obtain ⟨d1, d2⟩ := clean_of_heredAll hd
  refine ⟨?_, ?_⟩
  · show hered (fun cs => quotedIn cs || dupIn cs) t = false
    rw [hered_or, q1, d1]; rfl
  · intro n fs hl
    obtain ⟨a1, a2⟩ := q2 n fs hl
    obtain ⟨b1, b2⟩ := d2 n fs hl
    refine ⟨by simp [bad2, a1, b1], ?_⟩
    show heredFs (fun cs => quotedIn cs || dupIn cs) fs = false
    rw [heredFs_or, a2, b2]; rfl

end KinModel.Gen3
