/-
Helper lemmas for C18 (core-only): executable twin of `Sat`, relaxed satisfaction, the relation between a Go
type and a generated schema, soundness of the encoder against that relation, invariants of the generator.
-/
import KinModel.Gen3
set_option linter.unusedSectionVars false
set_option linter.unusedSimpArgs false
namespace KinModel.Gen3

/-! ### acceptB ↔ Sat -/
mutual
theorem acceptB_iff' (Γ : Comps) : ∀ (j : J) (s : Sch), acceptB Γ s j = true ↔ Sat' false Γ s j
  | .null, s => by
      cases s with
      | ref n => simp [acceptB, Sat']; split <;> simp_all
      | node ty nl fmt lo hi it pr ad cyc => simp [acceptB, Sat', resolve]
  | .bool _, s => by
      simp only [acceptB, Sat']; split <;> simp_all
  | .num _ _, s => by
      simp only [acceptB, Sat']; split <;> simp_all
  | .str _, s => by
      simp only [acceptB, Sat']; split <;> simp_all
  | .arr xs, s => by
      simp only [acceptB, Sat']
      split
      · rename_i ty _ _ _ _ items _ _ _ _
        cases items with
        | none => simp
        | some it => simp [acceptItems_iff' Γ xs it]
      · simp
  | .obj kvs, s => by
      simp only [acceptB, Sat']
      split
      · simp [acceptProps_iff' Γ kvs]
      · simp
theorem acceptItems_iff' (Γ : Comps) : ∀ (xs : List J) (s : Sch), acceptItems Γ s xs = true ↔ SatItems false Γ s xs
  | [], _ => by simp [acceptItems, SatItems]
  | x :: xs, s => by simp [acceptItems, SatItems, acceptB_iff' Γ x s, acceptItems_iff' Γ xs s]
theorem acceptProps_iff' (Γ : Comps) : ∀ (kvs : List (String × J)) (p : List (String × Sch)) (ad : Option Sch),
    acceptProps Γ p ad kvs = true ↔ SatProps false Γ p ad kvs
  | [], _, _ => by simp [acceptProps, SatProps]
  | (k, x) :: r, p, ad => by
      simp only [acceptProps, SatProps, Bool.and_eq_true, acceptProps_iff' Γ r p ad]
      cases lookup k p with
      | some s => simp [acceptB_iff' Γ x s]
      | none => cases ad with
        | none => simp
        | some s => simp [acceptB_iff' Γ x s]
end


/-! ### outside the cycle positions the relaxed relation is the real one -/
mutual
theorem sat_of_relaxed' (Γ : Comps) : ∀ (j : J) (s : Sch), Sat' true Γ s j → nilAtCycB Γ s j = false → Sat' false Γ s j
  | .null, s => by
      cases s with
      | ref n => simp [nilAtCycB]
      | node ty nl fmt lo hi it pr ad cyc => simp [Sat', nilAtCycB]; intro h hc; simpa [hc] using h
  | .bool _, s => by simp only [Sat']; exact fun h _ => h
  | .num _ _, s => by simp only [Sat']; exact fun h _ => h
  | .str _, s => by simp only [Sat']; exact fun h _ => h
  | .arr xs, s => by
      simp only [Sat', nilAtCycB]
      cases hr : resolve Γ s with
      | none => simp
      | some nd =>
        cases nd with
        | ref n => simp
        | node ty nl fmt lo hi items pr ad cyc =>
          cases items with
          | none => simp
          | some it =>
            simp only
            intro ⟨h1, h2⟩ hn
            exact ⟨h1, sat_of_relaxedItems' Γ xs it h2 hn⟩
  | .obj kvs, s => by
      simp only [Sat', nilAtCycB]
      cases hr : resolve Γ s with
      | none => simp
      | some nd =>
        cases nd with
        | ref n => simp
        | node ty nl fmt lo hi items pr ad cyc =>
          simp only
          intro ⟨h1, h2⟩ hn
          exact ⟨h1, sat_of_relaxedProps' Γ kvs _ _ h2 hn⟩
theorem sat_of_relaxedItems' (Γ : Comps) : ∀ (xs : List J) (s : Sch),
    SatItems true Γ s xs → nilAtCycItems Γ s xs = false → SatItems false Γ s xs
  | [], _ => by simp [SatItems]
  | x :: xs, s => by
      simp only [SatItems, nilAtCycItems, Bool.or_eq_false_iff]
      intro ⟨h1, h2⟩ ⟨n1, n2⟩
      exact ⟨sat_of_relaxed' Γ x s h1 n1, sat_of_relaxedItems' Γ xs s h2 n2⟩
theorem sat_of_relaxedProps' (Γ : Comps) : ∀ (kvs : List (String × J)) (p : List (String × Sch)) (ad : Option Sch),
    SatProps true Γ p ad kvs → nilAtCycProps Γ p ad kvs = false → SatProps false Γ p ad kvs
  | [], _, _ => by simp [SatProps]
  | (k, x) :: r, p, ad => by
      simp only [SatProps, nilAtCycProps, Bool.or_eq_false_iff]
      intro ⟨h1, h2⟩ ⟨n1, n2⟩
      refine ⟨?_, sat_of_relaxedProps' Γ r p ad h2 n2⟩
      cases hl : lookup k p with
      | some s => simp only [hl] at h1 n1 ⊢; exact sat_of_relaxed' Γ x s h1 n1
      | none =>
        simp only [hl] at h1 n1 ⊢
        cases ad with
        | none => trivial
        | some s => exact sat_of_relaxed' Γ x s h1 n1
end



/-! ### the relation "schema s describes Go type t" (what the generator establishes, what soundness needs)

`tn` is the type-name generator, `ok m` says that the component name `m` may be referenced. A reference stands for
the declared struct whose generated name it carries; a node has the keywords of the kind switch for the underlying
type of the pointer-stripped type, is nullable when the type is a pointer (unless it was built by cycle cutting:
that is finding #19), and every property is the schema of some discovered field of that name (JSON name or `yaml`
tag). Keywords that the kind does not set are absent. -/
mutual
def RelS (Δ : Decls) (tn : String → String) (ok : String → Prop) : GoType → Sch → Prop
  | t, .ref m => ∃ n, under (stripPtr t) = .named n ∧ tn n = m ∧ ok m
  | t, .node ty nl fmt lo hi items props addl cyc =>
      (isPtr t = true → nl = true ∨ cyc = true) ∧
      (match under (stripPtr t) with
       | .bool => ty = "boolean" ∧ items = none ∧ props = [] ∧ addl = none
       | .int k => ty = "integer" ∧ fmt = kindFmt k ∧ lo = kindLo k ∧ hi = kindHi k ∧ items = none ∧ props = [] ∧ addl = none
       | .float _ => ty = "number" ∧ lo = none ∧ hi = none ∧ items = none ∧ props = [] ∧ addl = none
       | .string => ty = "string" ∧ fmt = "" ∧ items = none ∧ props = [] ∧ addl = none
       | .bytes => ty = "string" ∧ fmt = "byte" ∧ items = none ∧ props = [] ∧ addl = none
       | .time => ty = "string" ∧ fmt = "date-time" ∧ items = none ∧ props = [] ∧ addl = none
       | .array _ _ => ty = "" ∧ items = none ∧ props = [] ∧ addl = none
       | .slice e =>
         props = [] ∧ addl = none ∧
         (if isU8 e = true then ty = "string" ∧ fmt = "byte" ∧ items = none
          else ty = "array" ∧ RelO Δ tn ok e items)
       | .map e => ty = "object" ∧ props = [] ∧ items = none ∧ RelO Δ tn ok e addl
       | .struct fs => (ty = "object" ∨ ty = "") ∧ addl = none ∧ items = none ∧ RelProps Δ tn ok (flat fs) props
       | .named n => (ty = "object" ∨ ty = "") ∧ addl = none ∧ items = none ∧ RelProps Δ tn ok (flat ((lookup n Δ).getD [])) props
       | .ptr _ => ty = "" ∧ items = none ∧ props = [] ∧ addl = none   -- not reached (the model's clause for it)
       | .defd _ _ => False
       | .recs m =>
         props = [] ∧
         ((ty = "" ∧ items = none ∧ addl = none) ∨   -- the unconstrained schema of a container met again below itself
          if m = true then ty = "object" ∧ items = none ∧ RelO Δ tn ok (.recs true) addl
          else ty = "array" ∧ addl = none ∧ RelO Δ tn ok (.recs false) items))
def RelO (Δ : Decls) (tn : String → String) (ok : String → Prop) : GoType → Option Sch → Prop
  | _, none => True
  | e, some s => RelS Δ tn ok e s
def RelProps (Δ : Decls) (tn : String → String) (ok : String → Prop) : List Cand → List (String × Sch) → Prop
  | _, [] => True
  | cs, (k, s) :: r => (∃ c, c ∈ cs ∧ (c.name = k ∨ c.yaml = some k) ∧ RelS Δ tn ok c.ty s) ∧ RelProps Δ tn ok cs r
end

/-- the names the component map resolves -/
def okΓ (Γ : Comps) (n : String) : Prop := ∃ nd, resolve Γ (.ref n) = some nd

/-- the type-name generator does not identify two declared structs -/
def TnInj (Δ : Decls) (tn : String → String) : Prop :=
  ∀ a b, (lookup a Δ).isSome = true → (lookup b Δ).isSome = true → tn a = tn b → a = b

/-- every component describes a declared struct whose generated name is the component's name -/
def CompsOK (Δ : Decls) (tn : String → String) (Γ : Comps) : Prop :=
  ∀ m s, lookup m Γ = some s → ∃ n, tn n = m ∧ (lookup n Δ).isSome = true ∧ RelS Δ tn (okΓ Γ) (.named n) s

theorem stripPtr_idem : ∀ (t : GoType), stripPtr (stripPtr t) = stripPtr t
  | .ptr t => by simp only [stripPtr]; exact stripPtr_idem t
  | .bool | .int _ | .float _ | .string | .bytes | .time | .slice _ | .map _ | .struct _ | .named _
  | .defd _ _ | .array _ _ | .recs _ => by simp [stripPtr]
theorem isPtr_stripPtr : ∀ (t : GoType), isPtr (stripPtr t) = false
  | .ptr t => by simp only [stripPtr]; exact isPtr_stripPtr t
  | .bool | .int _ | .float _ | .string | .bytes | .time | .slice _ | .map _ | .struct _ | .named _
  | .defd _ _ | .array _ _ | .recs _ => by simp [stripPtr, isPtr]
theorem stripPtr_of_not_ptr : ∀ {t : GoType}, isPtr t = false → stripPtr t = t
  | .ptr t, h => by simp [isPtr] at h
  | .bool, _ | .int _, _ | .float _, _ | .string, _ | .bytes, _ | .time, _ | .slice _, _ | .map _, _ | .struct _, _ | .named _, _
  | .defd _ _, _ | .array _ _, _ | .recs _, _ => by simp [stripPtr]
theorem isPtr_elim : ∀ {t : GoType}, isPtr t = true → ∃ x, t = .ptr x
  | .ptr t, _ => ⟨t, rfl⟩
  | .bool, h | .int _, h | .float _, h | .string, h | .bytes, h | .time, h | .slice _, h | .map _, h | .struct _, h | .named _, h
  | .defd _ _, h | .array _ _, h | .recs _, h => by simp [isPtr] at h

theorem relS_strip {Δ tn ok t ty nl fmt lo hi it pr ad cyc} (h : RelS Δ tn ok t (.node ty nl fmt lo hi it pr ad cyc)) :
    RelS Δ tn ok (stripPtr t) (.node ty nl fmt lo hi it pr ad cyc) := by
  simp only [RelS] at h ⊢
  rw [stripPtr_idem, isPtr_stripPtr]
  exact ⟨by simp, h.2⟩

theorem relS_elem {Δ tn ok t s} (h : RelS Δ tn ok (.ptr t) s) : RelS Δ tn ok t s := by
  cases s with
  | ref n => simpa [RelS, stripPtr] using h
  | node ty nl fmt lo hi it pr ad cyc =>
    simp only [RelS, stripPtr, isPtr] at h ⊢
    exact ⟨fun _ => h.1 trivial, h.2⟩

theorem resolve_ref_lookup {Γ : Comps} {n : String} {nd : Sch} (h : resolve Γ (.ref n) = some nd) :
    lookup n Γ = some nd ∧ ∃ ty nl fmt lo hi it pr ad cyc, nd = .node ty nl fmt lo hi it pr ad cyc := by
  simp only [resolve] at h
  split at h
  · rename_i a b c d e f g hh i heq
    cases h; exact ⟨heq, _, _, _, _, _, _, _, _, _, rfl⟩
  · cases h

/-- a node describes a type through its pointer-ness and its kind only -/
theorem relS_node_congr {Δ tn ok t t' ty nl fmt lo hi it pr ad cyc} (hp : isPtr t' = true → isPtr t = true)
    (hu : under (stripPtr t) = under (stripPtr t')) (h : RelS Δ tn ok t (.node ty nl fmt lo hi it pr ad cyc)) :
    RelS Δ tn ok t' (.node ty nl fmt lo hi it pr ad cyc) := by
  simp only [RelS] at h ⊢
  rw [← hu]
  exact ⟨fun hh => h.1 (hp hh), h.2⟩

/-- after resolution there is a node that describes the pointer-stripped type (a reference can only stand at a
    declared struct: `hd`) -/
theorem rel_resolve {Δ tn Γ t s} (hΓ : CompsOK Δ tn Γ) (hinj : TnInj Δ tn)
    (hd : ∀ n, under (stripPtr t) = .named n → (lookup n Δ).isSome = true) (h : RelS Δ tn (okΓ Γ) t s) :
    ∃ ty nl fmt lo hi it pr ad cyc, resolve Γ s = some (.node ty nl fmt lo hi it pr ad cyc) ∧
      RelS Δ tn (okΓ Γ) (stripPtr t) (.node ty nl fmt lo hi it pr ad cyc) := by
  cases s with
  | node ty nl fmt lo hi it pr ad cyc => exact ⟨ty, nl, fmt, lo, hi, it, pr, ad, cyc, rfl, relS_strip h⟩
  | ref m =>
    simp only [RelS] at h
    obtain ⟨n, hs, hm, nd, hr⟩ := h
    obtain ⟨hl, ty, nl, fmt, lo, hi, it, pr, ad, cyc, rfl⟩ := resolve_ref_lookup hr
    refine ⟨ty, nl, fmt, lo, hi, it, pr, ad, cyc, hr, ?_⟩
    obtain ⟨n', hm', hd', hrel⟩ := hΓ m _ hl
    have : n = n' := hinj n n' (hd n hs) hd' (by rw [hm, hm'])
    subst this
    refine relS_node_congr (t := .named n) (by rw [isPtr_stripPtr]; intro hh; cases hh) ?_ hrel
    rw [stripPtr_idem, hs]; simp [stripPtr, under]

/-! ### kinds of defined types -/
theorem under_idem : ∀ (t : GoType), under (under t) = under t
  | .defd _ t => by simp only [under]; exact under_idem t
  | .bool | .int _ | .float _ | .string | .bytes | .time | .slice _ | .map _ | .struct _ | .named _
  | .ptr _ | .array _ _ | .recs _ => by simp [under]
theorem under_ne_defd : ∀ (t : GoType) n x, under t ≠ .defd n x
  | .defd _ t, n, x => by simp only [under]; exact under_ne_defd t n x
  | .bool, _, _ | .int _, _, _ | .float _, _, _ | .string, _, _ | .bytes, _, _ | .time, _, _ | .slice _, _, _ | .map _, _, _
  | .struct _, _, _ | .named _, _, _ | .ptr _, _, _ | .array _ _, _, _ | .recs _, _, _ => by simp [under]

theorem not_ptr_of_under {t u : GoType} (hu : under t = u) (hn : ∀ x, u ≠ .ptr x) : isPtr t = false := by
  cases t <;> simp [isPtr]
  rename_i x
  exact hn x (by simpa [under] using hu.symm)

theorem elemOf_slice : ∀ (t : GoType) e, under t = .slice e → elemOf t = e
  | .defd _ t, e, h => by simp only [under] at h; simp only [elemOf]; exact elemOf_slice t e h
  | .slice x, e, h => by simp only [under, GoType.slice.injEq] at h; simp [elemOf, h]
  | .bool, _, h | .int _, _, h | .float _, _, h | .string, _, h | .bytes, _, h | .time, _, h | .map _, _, h
  | .struct _, _, h | .named _, _, h | .ptr _, _, h | .array _ _, _, h | .recs _, _, h => by simp [under] at h
theorem elemOf_map : ∀ (t : GoType) e, under t = .map e → elemOf t = e
  | .defd _ t, e, h => by simp only [under] at h; simp only [elemOf]; exact elemOf_map t e h
  | .map x, e, h => by simp only [under, GoType.map.injEq] at h; simp [elemOf, h]
  | .bool, _, h | .int _, _, h | .float _, _, h | .string, _, h | .bytes, _, h | .time, _, h | .slice _, _, h
  | .struct _, _, h | .named _, _, h | .ptr _, _, h | .array _ _, _, h | .recs _, _, h => by simp [under] at h
theorem elemOf_array : ∀ (t : GoType) n e, under t = .array n e → elemOf t = e
  | .defd _ t, n, e, h => by simp only [under] at h; simp only [elemOf]; exact elemOf_array t n e h
  | .array _ x, n, e, h => by simp only [under, GoType.array.injEq] at h; simp [elemOf, h.2]
  | .bool, _, _, h | .int _, _, _, h | .float _, _, _, h | .string, _, _, h | .bytes, _, _, h | .time, _, _, h | .slice _, _, _, h
  | .struct _, _, _, h | .named _, _, _, h | .ptr _, _, _, h | .map _, _, _, h | .recs _, _, _, h => by simp [under] at h

theorem elemOf_recs : ∀ (t : GoType) m, under t = .recs m → elemOf t = .recs m
  | .defd _ t, m, h => by simp only [under] at h; simp only [elemOf]; exact elemOf_recs t m h
  | .recs x, m, h => by simp only [under, GoType.recs.injEq] at h; simp [elemOf, h]
  | .bool, _, h | .int _, _, h | .float _, _, h | .string, _, h | .bytes, _, h | .time, _, h | .slice _, _, h
  | .struct _, _, h | .named _, _, h | .ptr _, _, h | .map _, _, h | .array _ _, _, h => by simp [under] at h

theorem isBytesTy_under : ∀ (t : GoType), isBytesTy t = true → under t = .bytes ∨ ∃ e, under t = .slice e ∧ isU8 e = true
  | .defd _ t, h => by simp only [isBytesTy] at h; simp only [under]; exact isBytesTy_under t h
  | .bytes, _ => Or.inl (by simp [under])
  | .slice e, h => Or.inr ⟨e, by simp [under], by simpa [isBytesTy] using h⟩
  | .bool, h | .int _, h | .float _, h | .string, h | .time, h | .map _, h
  | .struct _, h | .named _, h | .ptr _, h | .array _ _, h | .recs _, h => by simp [isBytesTy] at h

/-- a schema that describes a non-pointer type whose kind is not "declared struct" is a node -/
theorem rel_kind {Δ tn ok t s u} (hp : isPtr t = false) (hu : under t = u) (hnn : ∀ n, u ≠ .named n)
    (h : RelS Δ tn ok t s) : ∃ ty nl fmt lo hi it pr ad cyc, s = .node ty nl fmt lo hi it pr ad cyc := by
  cases s with
  | node ty nl fmt lo hi it pr ad cyc => exact ⟨_, _, _, _, _, _, _, _, _, rfl⟩
  | ref m =>
    simp only [RelS] at h
    obtain ⟨n, hs, _⟩ := h
    rw [stripPtr_of_not_ptr hp] at hs
    exact absurd (by rw [← hu, hs]) (hnn n)

/-! ### soundness of the encoder against the relation -/

/-- both per-struct defect conditions at once -/
def bad2 (cs : List Cand) : Bool := quotedIn cs || dupIn cs

/-- every declared struct is free of the per-struct defect condition, hereditarily -/
def CleanΔ (bad : List Cand → Bool) (Δ : Decls) : Prop :=
  ∀ n fs, lookup n Δ = some fs → bad (flat fs) = false ∧ heredFs bad fs = false

theorem lookup_mem {α} {k : String} {v : α} : ∀ {l : List (String × α)}, lookup k l = some v → (k, v) ∈ l
  | [], h => by simp [lookup] at h
  | (k', v') :: r, h => by
      simp only [lookup] at h
      split at h
      · cases h; subst_vars; simp
      · exact List.mem_cons_of_mem _ (lookup_mem h)

theorem relProps_mem {Δ tn ok cs} : ∀ {p : List (String × Sch)} {k s}, RelProps Δ tn ok cs p → (k, s) ∈ p →
    ∃ c, c ∈ cs ∧ (c.name = k ∨ c.yaml = some k) ∧ RelS Δ tn ok c.ty s
  | [], _, _, _, h => by cases h
  | (k', s') :: r, k, s, hr, h => by
      simp only [RelProps] at hr
      rcases List.mem_cons.mp h with h | h
      · cases h; exact hr.1
      · exact relProps_mem hr.2 h

theorem dupNames_append : ∀ {a b : List String}, dupNames (a ++ b) = false →
    dupNames a = false ∧ dupNames b = false ∧ ∀ k, k ∈ a → k ∈ b → False
  | [], b, h => ⟨rfl, h, fun _ hk => by cases hk⟩
  | x :: a, b, h => by
      have e : dupNames ((x :: a) ++ b) = ((a ++ b).contains x || dupNames (a ++ b)) := rfl
      rw [e] at h
      obtain ⟨h1, h2⟩ := Bool.or_eq_false_iff.mp h
      obtain ⟨ia, ib, idj⟩ := dupNames_append h2
      have hx : x ∉ a ++ b := by simpa using h1
      refine ⟨?_, ib, ?_⟩
      · have e2 : dupNames (x :: a) = (a.contains x || dupNames a) := rfl
        rw [e2, ia]
        have : x ∉ a := fun hm => hx (List.mem_append_left _ hm)
        simp [this]
      · intro k hk hb
        rcases List.mem_cons.mp hk with rfl | hk
        · exact hx (List.mem_append_right _ hb)
        · exact idj k hk hb

theorem mem_candNames_name : ∀ {l : List Cand} {c : Cand}, c ∈ l → c.name ∈ candNames l
  | [], _, h => by cases h
  | x :: xs, c, h => by
      simp only [candNames]
      rcases List.mem_cons.mp h with rfl | h
      · apply List.mem_append_left; cases c.yaml <;> simp
      · exact List.mem_append_right _ (mem_candNames_name h)
theorem mem_candNames_yaml : ∀ {l : List Cand} {c : Cand} {y : String}, c ∈ l → c.yaml = some y → y ∈ candNames l
  | [], _, _, h, _ => by cases h
  | x :: xs, c, y, h, hy => by
      simp only [candNames]
      rcases List.mem_cons.mp h with rfl | h
      · apply List.mem_append_left; simp [hy]
      · exact List.mem_append_right _ (mem_candNames_yaml h hy)

/-- without name clashes a name (JSON name or yaml tag) determines the field -/
theorem cand_unique : ∀ {l : List Cand} {c c' : Cand}, dupNames (candNames l) = false → c ∈ l → c' ∈ l →
    (c'.name = c.name ∨ c'.yaml = some c.name) → c = c'
  | [], _, _, _, h, _, _ => by cases h
  | x :: xs, c, c', hd, h, h', hn => by
      simp only [candNames] at hd
      obtain ⟨_, hd2, hdj⟩ := dupNames_append hd
      have hxn : x.name ∈ (match x.yaml with | some y => [x.name, y] | none => [x.name]) := by cases x.yaml <;> simp
      have hxy : ∀ y, x.yaml = some y → y ∈ (match x.yaml with | some y => [x.name, y] | none => [x.name]) := by
        intro y hy; simp [hy]
      rcases List.mem_cons.mp h with e1 | h1
      · rcases List.mem_cons.mp h' with e2 | h2
        · rw [e1, e2]
        · subst e1
          rcases hn with hn | hn
          · exact (hdj _ hxn (by rw [← hn]; exact mem_candNames_name h2)).elim
          · exact (hdj _ hxn (mem_candNames_yaml h2 hn)).elim
      · rcases List.mem_cons.mp h' with e2 | h2
        · subst e2
          rcases hn with hn | hn
          · exact (hdj _ hxn (by rw [hn]; exact mem_candNames_name h1)).elim
          · exact (hdj _ (hxy _ hn) (mem_candNames_name h1)).elim
        · exact cand_unique hd2 h1 h2 hn

theorem quotedIn_mem {l : List Cand} {c : Cand} (h : quotedIn l = false) (hc : c ∈ l) :
    (c.quoted && quotable c.ty) = false := by
  unfold quotedIn at h
  cases hq : (c.quoted && quotable c.ty) with
  | false => rfl
  | true =>
    have : l.any (fun c => c.quoted && quotable c.ty) = true := List.any_eq_true.mpr ⟨c, hc, hq⟩
    rw [this] at h; cases h

theorem satProps_of_forall {rx Γ} {p : List (String × Sch)} : ∀ {kvs : List (String × J)},
    (∀ k j, (k, j) ∈ kvs → ∀ s, lookup k p = some s → Sat' rx Γ s j) → SatProps rx Γ p none kvs
  | [], _ => by simp [SatProps]
  | (k, j) :: r, h => by
      simp only [SatProps]
      refine ⟨?_, satProps_of_forall (fun k' j' hm => h k' j' (List.mem_cons_of_mem _ hm))⟩
      cases hl : lookup k p with
      | none => trivial
      | some s => exact h k j (by simp) s hl

/-- an entry of an encoded object comes from a discovered field of that name, and satisfies every schema
    that describes that field's type (unless `,string` is in effect on it) -/
def EntryOK (Δ : Decls) (tn : String → String) (Γ : Comps) (cs : List Cand) (k : String) (j : J) : Prop :=
  ∃ c, c ∈ cs ∧ c.name = k ∧
    ((c.quoted && quotable c.ty) = false → ∀ s, RelS Δ tn (okΓ Γ) c.ty s → Sat' true Γ s j)

theorem struct_sat {Δ tn Γ} {fs : Fields} {props : List (String × Sch)} {kvs : List (String × J)}
    (hrel : RelProps Δ tn (okΓ Γ) (flat fs) props) (hbad : bad2 (flat fs) = false)
    (hent : ∀ k j, (k, j) ∈ kvs → EntryOK Δ tn Γ (flat fs) k j) : SatProps true Γ props none kvs := by
  simp only [bad2, Bool.or_eq_false_iff] at hbad
  apply satProps_of_forall
  intro k j hm s hl
  obtain ⟨c, hc, hn, himp⟩ := hent k j hm
  obtain ⟨c', hc', hn', hr⟩ := relProps_mem hrel (lookup_mem hl)
  have : c = c' := cand_unique hbad.2 hc hc' (by rw [hn]; exact hn')
  subst this
  exact himp (quotedIn_mem hbad.1 hc) s hr

theorem hered_struct {bad fs} (h : hered bad (.struct fs) = false) : bad (flat fs) = false ∧ heredFs bad fs = false := by
  simpa [hered, Bool.or_eq_false_iff] using h

theorem hered_under_slice (bad : List Cand → Bool) : ∀ (t : GoType) e, under t = .slice e → hered bad t = hered bad e
  | .defd _ t, e, h => by simp only [under] at h; simp only [hered]; exact hered_under_slice bad t e h
  | .slice x, e, h => by simp only [under, GoType.slice.injEq] at h; simp [hered, h]
  | .bool, _, h | .int _, _, h | .float _, _, h | .string, _, h | .bytes, _, h | .time, _, h | .map _, _, h
  | .struct _, _, h | .named _, _, h | .ptr _, _, h | .array _ _, _, h | .recs _, _, h => by simp [under] at h
theorem hered_under_map (bad : List Cand → Bool) : ∀ (t : GoType) e, under t = .map e → hered bad t = hered bad e
  | .defd _ t, e, h => by simp only [under] at h; simp only [hered]; exact hered_under_map bad t e h
  | .map x, e, h => by simp only [under, GoType.map.injEq] at h; simp [hered, h]
  | .bool, _, h | .int _, _, h | .float _, _, h | .string, _, h | .bytes, _, h | .time, _, h | .slice _, _, h
  | .struct _, _, h | .named _, _, h | .ptr _, _, h | .array _ _, _, h | .recs _, _, h => by simp [under] at h

theorem satItems_any {rx Γ s} : ∀ (xs : List J), (∀ x, x ∈ xs → Sat' rx Γ s x) → SatItems rx Γ s xs
  | [], _ => by simp [SatItems]
  | x :: xs, h => by
      simp only [SatItems]
      exact ⟨h x (by simp), satItems_any xs (fun y hy => h y (List.mem_cons_of_mem _ hy))⟩

section Sound
variable (Δ : Decls) (tn : String → String) (Γ : Comps) (hΓ : CompsOK Δ tn Γ) (hinj : TnInj Δ tn) (hΔ : CleanΔ bad2 Δ)
include hΓ hinj hΔ

mutual
theorem sound_val : ∀ (v : GoVal) (t : GoType) (s : Sch), hasTypeB Δ t v = true → hered bad2 t = false →
    RelS Δ tn (okΓ Γ) t s → Sat' true Γ s (encode Δ t v)
  | .b x, t, s, ht, hh, hr => by
      simp only [hasTypeB] at ht
      cases hu : under t with
      | bool =>
        have hp := not_ptr_of_under hu (by intro x; simp)
        obtain ⟨ty, nl, fmt, lo, hi, it, pr, ad, cyc, rfl⟩ := rel_kind hp hu (by intro n; simp) hr
        simp only [RelS, stripPtr_of_not_ptr hp, hu] at hr
        simp only [encode, Sat', resolve]
        simp [TyOK, hr.2.1]
      | _ => simp [hu] at ht
  | .i n, t, s, ht, hh, hr => by
      simp only [hasTypeB] at ht
      cases hu : under t with
      | int k =>
        simp only [hu] at ht
        have hp := not_ptr_of_under hu (by intro x; simp)
        obtain ⟨ty, nl, fmt, lo, hi, it, pr, ad, cyc, rfl⟩ := rel_kind hp hu (by intro n; simp) hr
        simp only [RelS, stripPtr_of_not_ptr hp, hu] at hr
        simp only [encode, Sat', resolve]
        obtain ⟨_, rfl, rfl, rfl, rfl, _⟩ := hr
        simp only [inRange, decide_eq_true_eq] at ht
        cases k <;>
          simp [NumOK, GeOpt, LeOpt, fmtLo, fmtHi, kindFmt, kindLo, kindHi, intLo, intHi] at ht ⊢ <;> omega
      | _ => simp [hu] at ht
  | .f m e, t, s, ht, hh, hr => by
      simp only [hasTypeB] at ht
      cases hu : under t with
      | float b =>
        have hp := not_ptr_of_under hu (by intro x; simp)
        obtain ⟨ty, nl, fmt, lo, hi, it, pr, ad, cyc, rfl⟩ := rel_kind hp hu (by intro n; simp) hr
        simp only [RelS, stripPtr_of_not_ptr hp, hu] at hr
        simp only [encode, Sat', resolve]
        obtain ⟨_, rfl, rfl, rfl, _⟩ := hr
        simp [NumOK, GeOpt, LeOpt]
      | _ => simp [hu] at ht
  | .s x, t, s, ht, hh, hr => by
      simp only [hasTypeB] at ht
      cases hu : under t with
      | string =>
        have hp := not_ptr_of_under hu (by intro x; simp)
        obtain ⟨ty, nl, fmt, lo, hi, it, pr, ad, cyc, rfl⟩ := rel_kind hp hu (by intro n; simp) hr
        simp only [RelS, stripPtr_of_not_ptr hp, hu] at hr
        simp only [encode, Sat', resolve]
        obtain ⟨_, rfl, rfl, _⟩ := hr
        simp [StrOK, TyOK]
      | _ => simp [hu] at ht
  | .bytes x, t, s, ht, hh, hr => by
      simp only [hasTypeB, Bool.and_eq_true] at ht
      rcases isBytesTy_under t ht.1 with hu | ⟨e, hu, h8⟩
      · have hp := not_ptr_of_under hu (by intro x; simp)
        obtain ⟨ty, nl, fmt, lo, hi, it, pr, ad, cyc, rfl⟩ := rel_kind hp hu (by intro n; simp) hr
        simp only [RelS, stripPtr_of_not_ptr hp, hu] at hr
        simp only [encode, Sat', resolve]
        obtain ⟨_, rfl, rfl, _⟩ := hr
        simp [StrOK, TyOK, ht.2]
      · have hp := not_ptr_of_under hu (by intro x; simp)
        obtain ⟨ty, nl, fmt, lo, hi, it, pr, ad, cyc, rfl⟩ := rel_kind hp hu (by intro n; simp) hr
        simp only [RelS, stripPtr_of_not_ptr hp, hu, h8, if_true] at hr
        simp only [encode, Sat', resolve]
        obtain ⟨_, _, _, rfl, rfl, _⟩ := hr
        simp [StrOK, TyOK, ht.2]
  | .time x, t, s, ht, hh, hr => by
      cases t <;> simp [hasTypeB] at ht
      obtain ⟨ty, nl, fmt, lo, hi, it, pr, ad, cyc, rfl⟩ :=
        rel_kind (t := .time) (u := .time) (by simp [isPtr]) (by simp [under]) (by intro n; simp) hr
      simp only [RelS, stripPtr, under] at hr
      simp only [encode, Sat', resolve]
      obtain ⟨_, rfl, rfl, _⟩ := hr
      simp [StrOK, TyOK, ht]
  | .nil, t, s, ht, hh, hr => by
      simp only [hasTypeB] at ht
      cases s with
      | ref n => simp [encode, Sat']
      | node ty nl fmt lo hi it pr ad cyc =>
        simp only [RelS] at hr
        simp only [encode, Sat']
        rcases hr.1 ht with h | h
        · exact Or.inl h
        · exact Or.inr ⟨trivial, h⟩
  | .ref v, t, s, ht, hh, hr => by
      simp only [hasTypeB, Bool.and_eq_true] at ht
      obtain ⟨t', rfl⟩ := isPtr_elim ht.1
      simp only [elemOf] at ht
      simp only [encode, elemOf]
      exact sound_val v t' s ht.2 (by simpa [hered] using hh) (relS_elem hr)
  | .slice vs, t, s, ht, hh, hr => by
      simp only [hasTypeB] at ht
      cases hu : under t with
      | slice e =>
        simp only [hu, Bool.and_eq_true, Bool.not_eq_true'] at ht
        have hp := not_ptr_of_under hu (by intro x; simp)
        obtain ⟨ty, nl, fmt, lo, hi, it, pr, ad, cyc, rfl⟩ := rel_kind hp hu (by intro n; simp) hr
        simp only [RelS, stripPtr_of_not_ptr hp, hu, ht.1, Bool.false_eq_true, if_false] at hr
        simp only [encode, Sat', resolve, elemOf_slice t e hu]
        obtain ⟨_, _, _, rfl, hit⟩ := hr
        refine ⟨by simp [TyOK], ?_⟩
        cases it with
        | none => trivial
        | some it' => exact sound_list vs e it' ht.2 (by rw [← hered_under_slice bad2 t e hu]; exact hh) (by simpa [RelO] using hit)
      | array n e =>
        have hp := not_ptr_of_under hu (by intro x; simp)
        obtain ⟨ty, nl, fmt, lo, hi, it, pr, ad, cyc, rfl⟩ := rel_kind hp hu (by intro n; simp) hr
        simp only [RelS, stripPtr_of_not_ptr hp, hu] at hr
        simp only [encode, Sat', resolve]
        obtain ⟨_, rfl, rfl, _⟩ := hr
        exact ⟨by simp [TyOK], trivial⟩
      | recs m =>
        cases m with
        | true => simp [hu] at ht
        | false =>
          simp only [hu] at ht
          have hp := not_ptr_of_under hu (by intro x; simp)
          obtain ⟨ty, nl, fmt, lo, hi, it, pr, ad, cyc, rfl⟩ := rel_kind hp hu (by intro n; simp) hr
          simp only [RelS, stripPtr_of_not_ptr hp, hu, Bool.false_eq_true, if_false] at hr
          simp only [encode, Sat', resolve, elemOf_recs t false hu]
          obtain ⟨_, _, hr3⟩ := hr
          rcases hr3 with ⟨rfl, rfl, _⟩ | ⟨rfl, _, hit⟩
          · exact ⟨by simp [TyOK], trivial⟩
          · refine ⟨by simp [TyOK], ?_⟩
            cases it with
            | none => trivial
            | some it' => exact sound_list vs (.recs false) it' ht (by simp [hered]) (by simpa [RelO] using hit)
      | _ => simp [hu] at ht
  | .map kvs, t, s, ht, hh, hr => by
      simp only [hasTypeB] at ht
      cases hu : under t with
      | map e =>
        simp only [hu] at ht
        have hp := not_ptr_of_under hu (by intro x; simp)
        obtain ⟨ty, nl, fmt, lo, hi, it, pr, ad, cyc, rfl⟩ := rel_kind hp hu (by intro n; simp) hr
        simp only [RelS, stripPtr_of_not_ptr hp, hu] at hr
        simp only [encode, Sat', resolve, elemOf_map t e hu]
        obtain ⟨_, rfl, rfl, _, had⟩ := hr
        refine ⟨by simp [TyOK], ?_⟩
        cases ad with
        | none => exact satProps_of_forall (fun k j _ s hl => by simp [lookup] at hl)
        | some a => exact sound_kv kvs e a ht (by rw [← hered_under_map bad2 t e hu]; exact hh) (by simpa [RelO] using had)
      | recs m =>
        cases m with
        | false => simp [hu] at ht
        | true =>
          simp only [hu] at ht
          have hp := not_ptr_of_under hu (by intro x; simp)
          obtain ⟨ty, nl, fmt, lo, hi, it, pr, ad, cyc, rfl⟩ := rel_kind hp hu (by intro n; simp) hr
          simp only [RelS, stripPtr_of_not_ptr hp, hu, if_true] at hr
          simp only [encode, Sat', resolve, elemOf_recs t true hu]
          obtain ⟨_, rfl, hr3⟩ := hr
          rcases hr3 with ⟨rfl, _, rfl⟩ | ⟨rfl, _, had⟩
          · exact ⟨by simp [TyOK], satProps_of_forall (fun k j _ s hl => by simp [lookup] at hl)⟩
          · refine ⟨by simp [TyOK], ?_⟩
            cases ad with
            | none => exact satProps_of_forall (fun k j _ s hl => by simp [lookup] at hl)
            | some a => exact sound_kv kvs (.recs true) a ht (by simp [hered]) (by simpa [RelO] using had)
      | _ => simp [hu] at ht
  | .struct vs, t, s, ht, hh, hr => by
      cases t <;> simp only [hasTypeB] at ht <;> try (cases ht)
      · rename_i fs
        obtain ⟨ty, nl, fmt, lo, hi, it, pr, ad, cyc, hres, hn⟩ :=
          rel_resolve hΓ hinj (by intro n h; simp [stripPtr, under] at h) hr
        obtain ⟨hb, hfs⟩ := hered_struct hh
        simp only [encode, Sat', hres, fieldsOf]
        simp only [RelS, stripPtr, under] at hn
        obtain ⟨_, hty, rfl, _, hrel⟩ := hn
        refine ⟨by rcases hty with h | h <;> simp [TyOK, h], ?_⟩
        exact struct_sat hrel hb (sound_fs vs fs _ [] 0 0 ht hfs)
      · rename_i n
        cases hl : lookup n Δ with
        | none => simp [hl] at ht
        | some fs =>
          simp only [hl] at ht
          obtain ⟨ty, nl, fmt, lo, hi, it, pr, ad, cyc, hres, hn⟩ :=
            rel_resolve hΓ hinj (by intro n' h; simp only [stripPtr, under, GoType.named.injEq] at h; subst h; simp [hl]) hr
          obtain ⟨hb, hfs⟩ := hΔ n fs hl
          simp only [encode, Sat', hres, fieldsOf, hl, Option.getD]
          simp only [RelS, stripPtr, under, hl, Option.getD] at hn
          obtain ⟨_, hty, rfl, _, hrel⟩ := hn
          refine ⟨by rcases hty with h | h <;> simp [TyOK, h], ?_⟩
          exact struct_sat hrel hb (sound_fs vs fs _ [] 0 0 ht hfs)
theorem sound_list : ∀ (vs : List GoVal) (t : GoType) (s : Sch), hasTypeL Δ t vs = true → hered bad2 t = false →
    RelS Δ tn (okΓ Γ) t s → SatItems true Γ s (encodeL Δ t vs)
  | [], _, _, _, _, _ => by simp [encodeL, SatItems]
  | v :: vs, t, s, ht, hh, hr => by
      simp only [hasTypeL, Bool.and_eq_true] at ht
      simp only [encodeL, SatItems]
      exact ⟨sound_val v t s ht.1 hh hr, sound_list vs t s ht.2 hh hr⟩
theorem sound_kv : ∀ (kvs : List (String × GoVal)) (t : GoType) (s : Sch), hasTypeKV Δ t kvs = true →
    hered bad2 t = false → RelS Δ tn (okΓ Γ) t s → SatProps true Γ [] (some s) (encodeKV Δ t kvs)
  | [], _, _, _, _, _ => by simp [encodeKV, SatProps]
  | (k, v) :: r, t, s, ht, hh, hr => by
      simp only [hasTypeKV, Bool.and_eq_true] at ht
      simp only [encodeKV, SatProps, lookup]
      exact ⟨sound_val v t s ht.1 hh hr, sound_kv r t s ht.2 hh hr⟩
theorem sound_fs : ∀ (vs : List GoVal) (fs : Fields) (dom : List (List Nat)) (path : List Nat) (idx depth : Nat),
    hasTypeFs Δ fs vs = true → heredFs bad2 fs = false →
    ∀ k j, (k, j) ∈ encodeFs Δ dom path idx fs vs → EntryOK Δ tn Γ (flatFs depth path idx fs) k j
  | [], fs, _, _, _, _, _, _, k, j, hm => by cases fs <;> simp [encodeFs] at hm
  | v :: vs, [], _, _, _, _, _, _, k, j, hm => by simp [encodeFs] at hm
  | v :: vs, (m, t) :: fs, dom, path, idx, depth, ht, hh, k, j, hm => by
      simp only [hasTypeFs, Bool.and_eq_true] at ht
      simp only [heredFs, Bool.or_eq_false_iff] at hh
      simp only [encodeFs, List.mem_append] at hm
      have lift : ∀ {l r : List Cand}, EntryOK Δ tn Γ l k j ∨ EntryOK Δ tn Γ r k j → EntryOK Δ tn Γ (l ++ r) k j := by
        intro l r h
        rcases h with ⟨c, hc, h⟩ | ⟨c, hc, h⟩
        · exact ⟨c, List.mem_append_left _ hc, h⟩
        · exact ⟨c, List.mem_append_right _ hc, h⟩
      simp only [flatFs]
      apply lift
      rcases hm with hm | hm
      · left
        by_cases h1 : m.skip = true
        · simp [h1] at hm
        · by_cases h2 : (m.embedded && !m.hasTag) = true
          · simp only [h1, h2, if_true, if_false, Bool.false_eq_true] at hm ⊢
            by_cases h4 : isStructish t = true
            · simp only [h4, if_true] at hm ⊢
              exact sound_emb v t dom (path ++ [idx]) (depth + 1) true ht.1 hh.1 k j hm
            · simp only [h4, if_false, Bool.false_eq_true] at hm ⊢
              by_cases h5 : m.exported = true
              · simp only [h5, Bool.true_and, if_true] at hm ⊢
                split at hm
                · simp only [List.mem_singleton, Prod.mk.injEq] at hm
                  obtain ⟨rfl, rfl⟩ := hm
                  refine ⟨_, List.mem_singleton.mpr rfl, rfl, ?_⟩
                  intro _ s hr
                  exact sound_val v t s ht.1 hh.1 hr
                · cases hm
              · simp [h5] at hm
          · by_cases h3 : m.exported = true
            · simp only [h1, h2, h3, if_false, Bool.false_eq_true, Bool.not_true, Bool.false_and] at hm ⊢
              split at hm
              · simp only [List.mem_singleton, Prod.mk.injEq] at hm
                obtain ⟨rfl, rfl⟩ := hm
                refine ⟨_, List.mem_singleton.mpr rfl, rfl, ?_⟩
                intro hq s hr
                simp only at hq
                simp only [hq, Bool.false_eq_true, if_false]
                exact sound_val v t s ht.1 hh.1 hr
              · cases hm
            · simp [h1, h2, h3] at hm
      · right
        exact sound_fs vs fs dom path (idx + 1) depth ht.2 hh.2 k j hm
theorem sound_emb : ∀ (v : GoVal) (t : GoType) (dom : List (List Nat)) (path : List Nat) (depth : Nat) (ap : Bool),
    hasTypeB Δ t v = true → hered bad2 t = false →
    ∀ k j, (k, j) ∈ encodeEmb Δ dom path ap t v → EntryOK Δ tn Γ (flatEmb depth path ap t) k j
  | .struct vs, t, dom, path, depth, ap, ht, hh, k, j, hm => by
      cases t <;> simp only [encodeEmb] at hm <;> try (cases hm)
      rename_i fs
      simp only [hasTypeB] at ht
      simp only [flatEmb]
      exact sound_fs vs fs dom path 0 depth ht (hered_struct hh).2 k j hm
  | .ref v, t, dom, path, depth, ap, ht, hh, k, j, hm => by
      cases t <;> simp only [encodeEmb] at hm <;> try (cases hm)
      rename_i t'
      simp only [hasTypeB, Bool.and_eq_true, elemOf] at ht
      simp only [flatEmb]
      cases ap with
      | false => simp at hm
      | true =>
        simp only [if_true] at hm ⊢
        exact sound_emb v t' dom path depth false ht.2 (by simpa [hered] using hh) k j hm
  | .b _, _, _, _, _, _, _, _, _, _, hm => by simp [encodeEmb] at hm
  | .i _, _, _, _, _, _, _, _, _, _, hm => by simp [encodeEmb] at hm
  | .f _ _, _, _, _, _, _, _, _, _, _, hm => by simp [encodeEmb] at hm
  | .s _, _, _, _, _, _, _, _, _, _, hm => by simp [encodeEmb] at hm
  | .bytes _, _, _, _, _, _, _, _, _, _, hm => by simp [encodeEmb] at hm
  | .time _, _, _, _, _, _, _, _, _, _, hm => by simp [encodeEmb] at hm
  | .nil, _, _, _, _, _, _, _, _, _, hm => by simp [encodeEmb] at hm
  | .slice _, _, _, _, _, _, _, _, _, _, hm => by simp [encodeEmb] at hm
  | .map _, _, _, _, _, _, _, _, _, _, hm => by simp [encodeEmb] at hm
end
end Sound

/-! ### from the per-class exclusion predicates to the hypotheses of `sound_val` -/
mutual
theorem hered_or (a b : List Cand → Bool) : ∀ (t : GoType),
    hered (fun cs => a cs || b cs) t = (hered a t || hered b t)
  | .ptr t => by simp only [hered]; exact hered_or a b t
  | .slice t => by simp only [hered]; exact hered_or a b t
  | .map t => by simp only [hered]; exact hered_or a b t
  | .defd _ t => by simp only [hered]; exact hered_or a b t
  | .array _ t => by simp only [hered]; exact hered_or a b t
  | .struct fs => by
      simp only [hered, heredFs_or a b fs]
      cases a (flat fs) <;> cases b (flat fs) <;> cases heredFs a fs <;> cases heredFs b fs <;> rfl
  | .bool | .int _ | .float _ | .string | .bytes | .time | .named _ | .recs _ => by simp [hered]
theorem heredFs_or (a b : List Cand → Bool) : ∀ (fs : Fields),
    heredFs (fun cs => a cs || b cs) fs = (heredFs a fs || heredFs b fs)
  | [] => by simp [heredFs]
  | (_, t) :: r => by
      simp only [heredFs, hered_or a b t, heredFs_or a b r]
      cases hered a t <;> cases hered b t <;> cases heredFs a r <;> cases heredFs b r <;> rfl
end

theorem clean_of_heredAll {bad : List Cand → Bool} {Δ : Decls} {t : GoType} (h : heredAll bad Δ t = false) :
    hered bad t = false ∧ CleanΔ bad Δ := by
  simp only [heredAll, Bool.or_eq_false_iff] at h
  refine ⟨h.1, ?_⟩
  intro n fs hl
  have hm := lookup_mem hl
  have h2 := h.2
  rw [List.any_eq_false] at h2
  have := h2 (n, fs) hm
  simpa [Bool.or_eq_false_iff] using this

theorem clean2 {Δ : Decls} {t : GoType} (hq : heredAll quotedIn Δ t = false) (hd : heredAll dupIn Δ t = false) :
    hered bad2 t = false ∧ CleanΔ bad2 Δ := by
  obtain ⟨q1, q2⟩ := clean_of_heredAll hq
  obtain ⟨d1, d2⟩ := clean_of_heredAll hd
  refine ⟨?_, ?_⟩
  · show hered (fun cs => quotedIn cs || dupIn cs) t = false
    rw [hered_or, q1, d1]; rfl
  · intro n fs hl
    obtain ⟨a1, a2⟩ := q2 n fs hl
    obtain ⟨b1, b2⟩ := d2 n fs hl
    refine ⟨by simp [bad2, a1, b1], ?_⟩
    show heredFs (fun cs => quotedIn cs || dupIn cs) fs = false
    rw [heredFs_or, a2, b2]; rfl

end KinModel.Gen3
